(* Proofs about ValueM (C15), part 2: equality of single shapes is an equivalence and implies
   equal hash keys; Python sets of shapes; multi-shapes. *)
From Coq Require Import Permutation.
From GV Require Import Prelude ValueM ValueP.
Open Scope Z_scope.

(* ------------------------------------------------------------------ well-formed values *)
(* a stored outline: at least one vertex plus the closing point, closed.  GeoPolygon.__init__
   establishes it for every input of >= 2 coordinates (mk_outline_ok, ValueP3) *)
Definition ring_ok (o : list coord) : Prop := (2 <= length o)%nat /\ hd dflt o = last o dflt.
Definition wf_geom (g : geom) : Prop := match g with GPoly o => ring_ok o | _ => True end.
Definition wf_hole (h : hole) : Prop := wf_geom (hgeom h).
Definition wf_single (s : single) : Prop :=
  match s with SArea g hs _ => wf_geom g /\ Forall wf_hole hs | _ => True end.
Definition wf_shape (s : shape) : Prop :=
  match s with One x => wf_single x | Multi _ ms _ => Forall wf_single ms end.

(* ------------------------------------------------------------------ list_eqb *)
Section ListEqb.
  Context {A : Type} (R : A -> A -> bool).
  Lemma list_eqb_refl_in l : (forall x, In x l -> R x x = true) -> list_eqb R l l = true.
  Proof.
    induction l as [|a l IH]; intro H; cbn; [reflexivity|].
    rewrite H by (now left). apply IH. intros x Hx. apply H. now right.
  Qed.
  Lemma list_eqb_sym_gen l : forall m, (forall x y, R x y = true -> R y x = true) ->
    list_eqb R l m = true -> list_eqb R m l = true.
  Proof.
    induction l as [|a l IH]; destruct m as [|b m]; cbn; intros S H; try discriminate; auto.
    apply andb_true_iff in H as [H1 H2]. rewrite (S _ _ H1). cbn. now apply IH.
  Qed.
  Lemma list_eqb_trans_gen l : forall m n,
    (forall x y z, R x y = true -> R y z = true -> R x z = true) ->
    list_eqb R l m = true -> list_eqb R m n = true -> list_eqb R l n = true.
  Proof.
    induction l as [|a l IH]; destruct m as [|b m]; destruct n as [|c n]; cbn; intros T H1 H2;
      try discriminate; auto.
    apply andb_true_iff in H1 as [H1 H1']. apply andb_true_iff in H2 as [H2 H2'].
    rewrite (T _ _ _ H1 H2). cbn. eapply IH; eauto.
  Qed.
End ListEqb.

(* ------------------------------------------------------------------ outlines *)
Lemma outline_eqb_refl o : (2 <= length o)%nat -> outline_eqb o o = true.
Proof.
  intro H. apply outline_eqb_spec. split; [reflexivity|]. split; [|apply Cyc_refl].
  intro E. apply (f_equal (@length _)) in E. rewrite removelast_length in E. cbn in E. lia.
Qed.

Lemma outline_eqb_sym a b : outline_eqb a b = true -> outline_eqb b a = true.
Proof.
  rewrite !outline_eqb_spec. intros (L & N & C). split; [auto|]. split; [|now apply Cyc_sym].
  intro E. apply Cyc_length in C. rewrite E in C. destruct (removelast b); [congruence|discriminate].
Qed.

Lemma outline_eqb_trans a b c :
  outline_eqb a b = true -> outline_eqb b c = true -> outline_eqb a c = true.
Proof.
  rewrite !outline_eqb_spec. intros (L1 & N1 & C1) (L2 & N2 & C2).
  split; [congruence|]. split; [auto|]. eapply Cyc_trans; eauto.
Qed.

Lemma in_closed_removelast o x : ring_ok o -> (In x o <-> In x (removelast o)).
Proof.
  intros [L E]. destruct o as [|a o]; [cbn in L; lia|]. destruct o as [|b o]; [cbn in L; lia|].
  assert (N : a :: b :: o <> []) by discriminate.
  rewrite (app_removelast_last dflt N) at 1. rewrite in_app_iff. cbn [hd] in E. rewrite <- E.
  split; [|tauto]. intros [H|[H|[]]]; [exact H|]. subst x. cbn. now left.
Qed.

(* frozenset(outline) of two equal polygons *)
Lemma outline_eqb_vset a b : ring_ok a -> ring_ok b ->
  outline_eqb a b = true -> seteq_b coord_eqb a b = true.
Proof.
  intros Wa Wb H. apply outline_eqb_spec in H as (_ & _ & C).
  apply (seteq_b_leibniz _ coord_eqb_eq). intro x.
  rewrite (in_closed_removelast a x Wa), (in_closed_removelast b x Wb). now apply Cyc_In.
Qed.

(* ------------------------------------------------------------------ holes as edge sets *)
Section WithCurve.
  Variable curve : geom -> list coord.

  Lemma holes_eqb_refl hs : holes_eqb curve hs hs = true.
  Proof. apply seteq_b_refl, eset_eqb_refl. Qed.
  Lemma holes_eqb_sym a b : holes_eqb curve a b = true -> holes_eqb curve b a = true.
  Proof. unfold holes_eqb. now rewrite seteq_b_sym. Qed.
  Lemma holes_eqb_trans a b c :
    holes_eqb curve a b = true -> holes_eqb curve b c = true -> holes_eqb curve a c = true.
  Proof. apply seteq_b_trans; [apply eset_eqb_sym | apply eset_eqb_trans]. Qed.

  (* ---------------------------------------------------------------- polygon-like shapes *)
  Section Gen.
    Variable heqb : hole -> hole -> bool.
    Hypothesis hsym : forall x y, heqb x y = true -> heqb y x = true.
    Hypothesis htrans : forall x y z, heqb x y = true -> heqb y z = true -> heqb x z = true.

    Lemma area_gen_refl g hs d : wf_geom g -> (forall h, In h hs -> heqb h h = true) ->
      area_eqb_gen curve heqb g hs d g hs d = true.
    Proof.
      intros W Hh. destruct g; cbn;
        rewrite ?coord_eqb_refl, ?Z.eqb_refl, ?dt_eqb_refl, ?Nat.eqb_refl; cbn;
        try (now apply list_eqb_refl_in).
      destruct W as [L _]. now rewrite outline_eqb_refl, holes_eqb_refl.
    Qed.

    Ltac split_ands H :=
      repeat match type of H with
      | (_ && _) = true => let H' := fresh H in apply andb_true_iff in H as [H H']
      end.
    Ltac to_eq :=
      repeat match goal with
      | H : coord_eqb _ _ = true |- _ => apply coord_eqb_eq in H
      | H : (_ =? _) = true |- _ => apply Z.eqb_eq in H
      | H : dt_eqb _ _ = true |- _ => apply dt_eqb_eq in H
      | H : (_ =? _)%nat = true |- _ => apply Nat.eqb_eq in H
      end.

    Lemma area_gen_sym g1 h1 d1 g2 h2 d2 :
      area_eqb_gen curve heqb g1 h1 d1 g2 h2 d2 = true ->
      area_eqb_gen curve heqb g2 h2 d2 g1 h1 d1 = true.
    Proof.
      destruct g1, g2; cbn; intro H; try discriminate.
      - apply andb_true_iff in H as [H H4]. apply andb_true_iff in H as [H H3].
        apply andb_true_iff in H as [H1 H2]. to_eq. subst.
        rewrite dt_eqb_refl, (outline_eqb_sym _ _ H2), H3, Nat.eqb_refl. cbn.
        now apply holes_eqb_sym.
      - apply andb_true_iff in H as [H HL]. apply (list_eqb_sym_gen _ _ _ hsym) in HL.
        split_ands H. to_eq. subst. now rewrite !coord_eqb_refl, dt_eqb_refl, HL.
      - apply andb_true_iff in H as [H HL]. apply (list_eqb_sym_gen _ _ _ hsym) in HL.
        split_ands H. to_eq. subst. now rewrite !coord_eqb_refl, Z.eqb_refl, dt_eqb_refl, HL.
      - apply andb_true_iff in H as [H HL]. apply (list_eqb_sym_gen _ _ _ hsym) in HL.
        split_ands H. to_eq. subst. now rewrite !coord_eqb_refl, !Z.eqb_refl, dt_eqb_refl, HL.
      - apply andb_true_iff in H as [H HL]. apply (list_eqb_sym_gen _ _ _ hsym) in HL.
        split_ands H. to_eq. subst. now rewrite !coord_eqb_refl, !Z.eqb_refl, dt_eqb_refl, HL.
    Qed.

    Lemma area_gen_trans g1 h1 d1 g2 h2 d2 g3 h3 d3 :
      area_eqb_gen curve heqb g1 h1 d1 g2 h2 d2 = true ->
      area_eqb_gen curve heqb g2 h2 d2 g3 h3 d3 = true ->
      area_eqb_gen curve heqb g1 h1 d1 g3 h3 d3 = true.
    Proof.
      destruct g1, g2; cbn; intro H; try discriminate; destruct g3; cbn; intro K; try discriminate.
      - apply andb_true_iff in H as [H H4]. apply andb_true_iff in H as [H H3].
        apply andb_true_iff in H as [H1 H2].
        apply andb_true_iff in K as [K K4]. apply andb_true_iff in K as [K K3].
        apply andb_true_iff in K as [K1 K2]. to_eq. subst.
        rewrite dt_eqb_refl, (outline_eqb_trans _ _ _ H2 K2). rewrite H3, K3, Nat.eqb_refl. cbn.
        eapply holes_eqb_trans; eauto.
      - apply andb_true_iff in H as [H HL]. apply andb_true_iff in K as [K KL].
        pose proof (list_eqb_trans_gen _ _ _ _ htrans HL KL) as L.
        split_ands H. split_ands K. to_eq. subst. now rewrite !coord_eqb_refl, dt_eqb_refl, L.
      - apply andb_true_iff in H as [H HL]. apply andb_true_iff in K as [K KL].
        pose proof (list_eqb_trans_gen _ _ _ _ htrans HL KL) as L.
        split_ands H. split_ands K. to_eq. subst.
        now rewrite !coord_eqb_refl, Z.eqb_refl, dt_eqb_refl, L.
      - apply andb_true_iff in H as [H HL]. apply andb_true_iff in K as [K KL].
        pose proof (list_eqb_trans_gen _ _ _ _ htrans HL KL) as L.
        split_ands H. split_ands K. to_eq. subst.
        now rewrite !coord_eqb_refl, !Z.eqb_refl, dt_eqb_refl, L.
      - apply andb_true_iff in H as [H HL]. apply andb_true_iff in K as [K KL].
        pose proof (list_eqb_trans_gen _ _ _ _ htrans HL KL) as L.
        split_ands H. split_ands K. to_eq. subst.
        now rewrite !coord_eqb_refl, !Z.eqb_refl, dt_eqb_refl, L.
    Qed.

    Lemma area_gen_key g1 h1 d1 g2 h2 d2 : wf_geom g1 -> wf_geom g2 ->
      area_eqb_gen curve heqb g1 h1 d1 g2 h2 d2 = true ->
      skey_eqv (geom_key g1 d1) (geom_key g2 d2) = true.
    Proof.
      intros W1 W2. destruct g1, g2; cbn; intro H; try discriminate.
      - apply andb_true_iff in H as [H _]. apply andb_true_iff in H as [H _].
        apply andb_true_iff in H as [H1 H2]. rewrite H1, (outline_eqb_vset _ _ W1 W2 H2). reflexivity.
      - apply andb_true_iff in H as [H _]. exact H.
      - apply andb_true_iff in H as [H _]. exact H.
      - apply andb_true_iff in H as [H _]. split_ands H. to_eq. subst.
        now rewrite !coord_eqb_refl, !Z.eqb_refl, dt_eqb_refl.
      - apply andb_true_iff in H as [H _]. exact H.
    Qed.
  End Gen.

  (* two holes compared with == *)
  Lemma hole_eqb_refl h : wf_hole h -> hole_eqb curve h h = true.
  Proof. intro W. apply area_gen_refl; [exact W | intros ? []]. Qed.
  Lemma hole_eqb_sym a b : hole_eqb curve a b = true -> hole_eqb curve b a = true.
  Proof. apply area_gen_sym. discriminate. Qed.
  Lemma hole_eqb_trans a b c :
    hole_eqb curve a b = true -> hole_eqb curve b c = true -> hole_eqb curve a c = true.
  Proof. apply area_gen_trans. discriminate. Qed.

  (* ---------------------------------------------------------------- single shapes *)
  Lemma single_eqb_refl s : wf_single s -> single_eqb curve s s = true.
  Proof.
    destruct s; cbn; intro W.
    - now rewrite coord_eqb_refl, dt_eqb_refl.
    - rewrite dt_eqb_refl, andb_true_r. now apply clist_eqb_eq.
    - destruct W as [Wg Wh]. apply area_gen_refl; [exact Wg|].
      intros h Hh. apply hole_eqb_refl. rewrite Forall_forall in Wh. auto.
  Qed.

  Lemma single_eqb_sym a b : single_eqb curve a b = true -> single_eqb curve b a = true.
  Proof.
    destruct a, b; cbn; intro H; try discriminate.
    - apply andb_true_iff in H as [H1 H2]. apply coord_eqb_eq in H1. apply dt_eqb_eq in H2. subst.
      now rewrite coord_eqb_refl, dt_eqb_refl.
    - apply andb_true_iff in H as [H1 H2]. apply clist_eqb_eq in H1. apply dt_eqb_eq in H2. subst.
      rewrite dt_eqb_refl, andb_true_r. now apply clist_eqb_eq.
    - apply area_gen_sym; [apply hole_eqb_sym | exact H].
  Qed.

  Lemma single_eqb_trans a b c :
    single_eqb curve a b = true -> single_eqb curve b c = true -> single_eqb curve a c = true.
  Proof.
    destruct a, b; cbn; intro H; try discriminate; destruct c; cbn; intro K; try discriminate.
    - apply andb_true_iff in H as [H1 H2]. apply coord_eqb_eq in H1. apply dt_eqb_eq in H2. now subst.
    - apply andb_true_iff in H as [H1 H2]. apply clist_eqb_eq in H1. apply dt_eqb_eq in H2. now subst.
    - eapply area_gen_trans; [apply hole_eqb_trans | exact H | exact K].
  Qed.

  (* equal single shapes hash equally *)
  Lemma single_eq_key a b : wf_single a -> wf_single b ->
    single_eqb curve a b = true -> skey_eqv (skey_of a) (skey_of b) = true.
  Proof.
    destruct a, b; cbn; intros Wa Wb H; try discriminate; try exact H.
    destruct Wa as [Wa _], Wb as [Wb _]. eapply area_gen_key; eauto.
  Qed.

  (* skey_eqv is itself an equivalence (it is the equality of the hashed structures) *)
  Lemma skey_eqv_refl k : skey_eqv k k = true.
  Proof.
    destruct k; cbn; rewrite ?coord_eqb_refl, ?Z.eqb_refl, ?dt_eqb_refl; cbn; auto.
    - rewrite andb_true_r. now apply clist_eqb_eq.
    - rewrite andb_true_r. apply seteq_b_refl, coord_eqb_refl.
  Qed.

  (* ---------------------------------------------------------------- Python sets *)
  Section PySetFacts.
    Context {A : Type} (R : A -> A -> bool) (P : A -> Prop).
    Hypothesis Rrefl : forall x, P x -> R x x = true.
    Hypothesis Rsym : forall x y, R x y = true -> R y x = true.
    Hypothesis Rtrans : forall x y z, R x y = true -> R y z = true -> R x z = true.

    (* x is equal to some element of l *)
    Definition inR (x : A) (l : list A) : Prop := exists y, In y l /\ R y x = true.
    Definition nodupR (l : list A) : Prop :=
      forall i j x y, nth_error l i = Some x -> nth_error l j = Some y -> R x y = true -> i = j.

    Lemma mem_b_inR x s : mem_b R x s = true <-> inR x s.
    Proof. unfold mem_b, inR. now rewrite existsb_exists. Qed.

    Lemma inR_R x y l : R x y = true -> inR x l -> inR y l.
    Proof. intros H (z & Hz & Hzx). exists z. split; [exact Hz|]. eauto. Qed.

    (* fold step invariant *)
    Definition step (s : list A) (x : A) := if mem_b R x s then s else s ++ [x].

    Lemma step_inR s x y : P x -> (inR y (step s x) <-> inR y s \/ R x y = true).
    Proof.
      intro Px. unfold step. destruct (mem_b R x s) eqn:E.
      - apply mem_b_inR in E. split; [tauto|]. intros [H|H]; [exact H|]. eapply inR_R; eauto.
      - unfold inR. split.
        + intros (z & Hz & Hzy). apply in_app_iff in Hz as [Hz|[<-|[]]]; [left; eauto | now right].
        + intros [(z & Hz & Hzy)|H].
          * exists z. split; [apply in_app_iff; now left | exact Hzy].
          * exists x. split; [apply in_app_iff; right; now left | exact H].
    Qed.

    Lemma nth_error_snoc (s : list A) x i y :
      nth_error (s ++ [x]) i = Some y ->
      (nth_error s i = Some y /\ (i < length s)%nat) \/ (i = length s /\ y = x).
    Proof.
      intro H. destruct (Nat.lt_ge_cases i (length s)) as [L|L].
      - left. rewrite nth_error_app1 in H by exact L. auto.
      - right. rewrite nth_error_app2 in H by exact L.
        destruct (i - length s)%nat eqn:E; cbn in H; [|destruct n; discriminate].
        inversion H. split; [lia | reflexivity].
    Qed.

    Lemma step_nodupR s x : nodupR s -> nodupR (step s x).
    Proof.
      intro N. unfold step. destruct (mem_b R x s) eqn:E; [exact N|].
      assert (Hn : forall z, In z s -> R z x = false).
      { intros z Hz. destruct (R z x) eqn:F; [|reflexivity].
        assert (mem_b R x s = true) by (apply mem_b_inR; exists z; auto). congruence. }
      intros i j a b Hi Hj Hab.
      apply nth_error_snoc in Hi as [[Hi Li]|[-> ->]]; apply nth_error_snoc in Hj as [[Hj Lj]|[-> ->]].
      - eapply N; eauto.
      - apply nth_error_In in Hi. rewrite (Hn _ Hi) in Hab. discriminate.
      - apply nth_error_In in Hj. apply Rsym in Hab. rewrite (Hn _ Hj) in Hab. discriminate.
      - reflexivity.
    Qed.

    Lemma fold_step_spec l : forall s, Forall P l -> nodupR s ->
      nodupR (fold_left step l s) /\
      (forall y, inR y (fold_left step l s) <-> inR y s \/ exists x, In x l /\ R x y = true).
    Proof.
      induction l as [|a l IH]; intros s F N; cbn.
      - split; [exact N|]. intro y. split; [tauto|]. intros [H|(x & [] & _)]. exact H.
      - inversion F; subst. destruct (IH (step s a) H2 (step_nodupR s a N)) as [N' I'].
        split; [exact N'|]. intro y. rewrite I', (step_inR s a y H1). split.
        + intros [[H|H]|(x & Hx & Hxy)]; [now left | right; exists a; auto | right; exists x; auto].
        + intros [H|(x & [<-|Hx] & Hxy)]; [tauto | tauto | right; eauto].
    Qed.

    Lemma pyset_spec l : Forall P l ->
      nodupR (pyset R l) /\ (forall y, inR y (pyset R l) <-> exists x, In x l /\ R x y = true).
    Proof.
      intro F. destruct (fold_step_spec l [] F) as [N I].
      - intros i j x y Hi. destruct i; discriminate.
      - split; [exact N|]. intro y. unfold pyset. fold step. rewrite I. split; [|tauto].
        intros [(z & [] & _)|H]. exact H.
    Qed.

    Lemma pyset_sub l x : In x (pyset R l) -> In x l.
    Proof.
      unfold pyset. fold step.
      assert (G : forall l s, In x (fold_left step l s) -> In x s \/ In x l).
      { clear l. induction l as [|a l IH]; intros s H; cbn in *; [tauto|].
        apply IH in H as [H|H]; [|tauto]. unfold step in H. destruct (mem_b R a s); [tauto|].
        apply in_app_iff in H as [H|[H|[]]]; tauto. }
      intro H. apply G in H as [[]|H]. exact H.
    Qed.

    (* pigeonhole: a duplicate-free s included in t is no longer than t, and if the sizes agree
       t is included in s as well *)
    Lemma remove_nth_nodupR (t1 t2 : list A) y :
      nodupR (t1 ++ y :: t2) -> nodupR (t1 ++ t2).
    Proof.
      intros N i j a b Hi Hj Hab.
      set (f := fun k => if (k <? length t1)%nat then k else S k).
      assert (F : forall k c, nth_error (t1 ++ t2) k = Some c -> nth_error (t1 ++ y :: t2) (f k) = Some c).
      { intros k c H. unfold f. destruct (k <? length t1)%nat eqn:E.
        - apply Nat.ltb_lt in E. rewrite nth_error_app1 in * by exact E. exact H.
        - apply Nat.ltb_ge in E. rewrite nth_error_app2 in H by exact E.
          rewrite nth_error_app2 by lia. replace (S k - length t1)%nat with (S (k - length t1)) by lia.
          exact H. }
      pose proof (N _ _ _ _ (F _ _ Hi) (F _ _ Hj) Hab) as E. unfold f in E.
      destruct (i <? length t1)%nat eqn:E1, (j <? length t1)%nat eqn:E2;
        try apply Nat.ltb_lt in E1; try apply Nat.ltb_lt in E2;
        try apply Nat.ltb_ge in E1; try apply Nat.ltb_ge in E2; lia.
    Qed.

    Lemma nodupR_tail a (s : list A) : nodupR (a :: s) -> nodupR s.
    Proof. intros N i j x y Hi Hj H. assert (S i = S j) by (eapply N; eauto). lia. Qed.

    Lemma nodupR_head a (s : list A) z : nodupR (a :: s) -> In z s -> R a z = false.
    Proof.
      intros N Hz. destruct (R a z) eqn:E; [|reflexivity].
      apply In_nth_error in Hz as [k Hk]. assert (O = S k) by (eapply N; eauto; reflexivity). lia.
    Qed.

    Lemma pigeon s : forall t, nodupR s -> nodupR t ->
      (forall x, In x s -> inR x t) ->
      (length s <= length t)%nat /\ (length s = length t -> forall y, In y t -> inR y s).
    Proof.
      induction s as [|a s IH]; intros t Ns Nt Sub.
      - split; [cbn; lia|]. intros E y Hy. destruct t; [destruct Hy | discriminate].
      - destruct (Sub a (or_introl eq_refl)) as (y & Hy & Hya).
        apply in_split in Hy as (t1 & t2 & ->).
        assert (Sub' : forall x, In x s -> inR x (t1 ++ t2)).
        { intros x Hx. destruct (Sub x (or_intror Hx)) as (z & Hz & Hzx).
          apply in_app_iff in Hz as [Hz|[Hz|Hz]].
          - exists z. split; [apply in_app_iff; now left | exact Hzx].
          - subst z. (* then a ~ y ~ x, contradicting nodup of a :: s *)
            pose proof (nodupR_head a s x Ns Hx) as F.
            rewrite (Rtrans _ _ _ (Rsym _ _ Hya) Hzx) in F. discriminate.
          - exists z. split; [apply in_app_iff; now right | exact Hzx]. }
        destruct (IH (t1 ++ t2) (nodupR_tail _ _ Ns) (remove_nth_nodupR _ _ _ Nt) Sub') as [L E].
        rewrite app_length in *. cbn. split; [lia|].
        intros EL z Hz. apply in_app_iff in Hz as [Hz|[Hz|Hz]].
        + destruct (E ltac:(lia) z ltac:(apply in_app_iff; now left)) as (w & Hw & Hwz).
          exists w. split; [now right | exact Hwz].
        + subst z. exists a. split; [now left | now apply Rsym].
        + destruct (E ltac:(lia) z ltac:(apply in_app_iff; now right)) as (w & Hw & Hwz).
          exists w. split; [now right | exact Hwz].
    Qed.

    (* set(l) == set(m) decides mutual inclusion of l and m up to R *)
    Lemma pyset_eq_spec l m : Forall P l -> Forall P m ->
      (pyset_eq R (pyset R l) (pyset R m) = true <->
       (forall x, In x l -> exists y, In y m /\ R x y = true) /\
       (forall y, In y m -> exists x, In x l /\ R y x = true)).
    Proof.
      intros Fl Fm. destruct (pyset_spec l Fl) as [Nl Il]. destruct (pyset_spec m Fm) as [Nm Im].
      assert (Pl : forall x, In x l -> P x) by (now apply Forall_forall).
      assert (Pm : forall x, In x m -> P x) by (now apply Forall_forall).
      unfold pyset_eq. rewrite andb_true_iff, Nat.eqb_eq, forallb_forall. split.
      - intros [EL Sub].
        assert (Sub' : forall x, In x (pyset R l) -> inR x (pyset R m)).
        { intros x Hx. now apply mem_b_inR, Sub. }
        destruct (pigeon _ _ Nl Nm Sub') as [_ Back]. specialize (Back EL). split.
        + intros x Hx.
          assert (H : inR x (pyset R l)) by (apply Il; exists x; auto).
          destruct H as (z & Hz & Hzx). destruct (Sub' z Hz) as (w & Hw & Hwz).
          exists w. split; [now apply pyset_sub in Hw|]. apply Rsym. eauto.
        + intros y Hy.
          assert (H : inR y (pyset R m)) by (apply Im; exists y; auto).
          destruct H as (z & Hz & Hzy). destruct (Back z Hz) as (w & Hw & Hwz).
          exists w. split; [now apply pyset_sub in Hw|]. apply Rsym. eauto.
      - intros [H1 H2].
        assert (S1 : forall x, In x (pyset R l) -> inR x (pyset R m)).
        { intros x Hx. apply Im. destruct (H1 x (pyset_sub _ _ Hx)) as (y & Hy & Hxy).
          exists y. auto. }
        assert (S2 : forall y, In y (pyset R m) -> inR y (pyset R l)).
        { intros y Hy. apply Il. destruct (H2 y (pyset_sub _ _ Hy)) as (x & Hx & Hyx).
          exists x. auto. }
        destruct (pigeon _ _ Nl Nm S1) as [L1 _]. destruct (pigeon _ _ Nm Nl S2) as [L2 _].
        split; [lia|]. intros x Hx. now apply mem_b_inR, S1.
    Qed.
  End PySetFacts.

  (* ---------------------------------------------------------------- shapes *)
  Definition members_incl (a b : list single) : Prop :=
    forall x, In x a -> exists y, In y b /\ single_eqb curve x y = true.

  (* multi-shape equality = same members as sets (up to member equality) and same dt *)
  Lemma multi_eqb_spec k1 m1 d1 k2 m2 d2 : Forall wf_single m1 -> Forall wf_single m2 ->
    (shape_eqb curve (Multi k1 m1 d1) (Multi k2 m2 d2) = true <->
     members_incl m1 m2 /\ members_incl m2 m1 /\ d1 = d2).
  Proof.
    intros F1 F2. cbn. rewrite andb_true_iff, dt_eqb_eq.
    rewrite (pyset_eq_spec (single_eqb curve) wf_single single_eqb_refl single_eqb_sym
               single_eqb_trans m1 m2 F1 F2).
    unfold members_incl. tauto.
  Qed.

  Lemma members_incl_refl m : Forall wf_single m -> members_incl m m.
  Proof.
    intros F x Hx. exists x. split; [exact Hx|]. apply single_eqb_refl.
    rewrite Forall_forall in F. auto.
  Qed.
  Lemma members_incl_trans a b c : members_incl a b -> members_incl b c -> members_incl a c.
  Proof.
    intros H1 H2 x Hx. destruct (H1 x Hx) as (y & Hy & Hxy). destruct (H2 y Hy) as (z & Hz & Hyz).
    exists z. split; [exact Hz|]. eapply single_eqb_trans; eauto.
  Qed.

  Theorem shape_eqb_refl s : wf_shape s -> shape_eqb curve s s = true.
  Proof.
    destruct s as [x|k ms d]; intro W; [now apply single_eqb_refl|].
    apply multi_eqb_spec; auto. repeat split; now apply members_incl_refl.
  Qed.

  Theorem shape_eqb_sym a b : wf_shape a -> wf_shape b ->
    shape_eqb curve a b = true -> shape_eqb curve b a = true.
  Proof.
    destruct a as [x|k1 m1 d1], b as [y|k2 m2 d2]; intros Wa Wb H; try discriminate.
    - now apply single_eqb_sym.
    - apply multi_eqb_spec in H; auto. apply multi_eqb_spec; auto. destruct H as (H1 & H2 & ->). auto.
  Qed.

  Theorem shape_eqb_trans a b c : wf_shape a -> wf_shape b -> wf_shape c ->
    shape_eqb curve a b = true -> shape_eqb curve b c = true -> shape_eqb curve a c = true.
  Proof.
    destruct a as [x|k1 m1 d1], b as [y|k2 m2 d2]; intros Wa Wb Wc H; try discriminate;
      destruct c as [z|k3 m3 d3]; intro K; try discriminate.
    - eapply single_eqb_trans; eauto.
    - apply multi_eqb_spec in H; auto. apply multi_eqb_spec in K; auto. apply multi_eqb_spec; auto.
      destruct H as (H1 & H2 & ->), K as (K1 & K2 & ->).
      repeat split; eapply members_incl_trans; eauto.
  Qed.

  (* equal shapes have equal hash keys, hence equal Python hashes *)
  Theorem eq_hkey a b : wf_shape a -> wf_shape b ->
    shape_eqb curve a b = true -> key_eqv (hkey a) (hkey b) = true.
  Proof.
    destruct a as [x|k1 m1 d1], b as [y|k2 m2 d2]; intros Wa Wb H; try discriminate.
    - now apply single_eq_key.
    - apply multi_eqb_spec in H; auto. destruct H as (H1 & H2 & ->). cbn.
      rewrite dt_eqb_refl, andb_true_r. apply seteq_b_spec.
      cbn in Wa, Wb. rewrite Forall_forall in Wa, Wb. split.
      + intros kx Hk. apply in_map_iff in Hk as (x & <- & Hx).
        destruct (H1 x Hx) as (y & Hy & Hxy). exists (skey_of y). split; [now apply in_map|].
        apply single_eq_key; auto.
      + intros ky Hk. apply in_map_iff in Hk as (y & <- & Hy).
        destruct (H2 y Hy) as (x & Hx & Hyx). exists (skey_of x). split; [now apply in_map|].
        apply single_eq_key; auto.
  Qed.

  (* a multi-shape equals itself with its members reordered (or repeated) *)
  Theorem multi_eq_perm k ms ms' d : Forall wf_single ms -> Permutation ms ms' ->
    shape_eqb curve (Multi k ms d) (Multi k ms' d) = true.
  Proof.
    intros F Pm.
    assert (F' : Forall wf_single ms').
    { rewrite Forall_forall in *. intros x Hx. apply F. eapply Permutation_in; [|exact Hx].
      now apply Permutation_sym. }
    apply multi_eqb_spec; auto. rewrite Forall_forall in F, F'. repeat split.
    - intros x Hx. exists x. split; [eapply Permutation_in; eauto|]. apply single_eqb_refl; auto.
    - intros x Hx. exists x. split; [eapply Permutation_in; [apply Permutation_sym|]; eauto|].
      apply single_eqb_refl; auto.
  Qed.
End WithCurve.
