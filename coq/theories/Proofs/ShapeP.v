(* Proofs for C05 (space-time composition) and C04 (multi-shapes as unions of members). *)
From Coq Require Import QArith Permutation.
From GV Require Import Prelude TimeM TimeP ShapeM.
Open Scope Z_scope.

(* ================================================================== C05 *)
Section GateP.
  Variable cc : shp -> Z -> bool.
  Variables cs is_ : shp -> shp -> bool.

  Definition time_int (a b : shp) : bool :=
    match sdt a, sdt b with Some x, Some y => TimeM.intersects x y | _, _ => true end.
  Definition time_sup (a b : shp) : bool :=
    match sdt a, sdt b with Some x, Some y => issuperset x y | _, _ => true end.

  Lemma intersects_compose a b : ShapeM.intersects is_ a b = is_ a b && time_int a b.
  Proof.
    unfold ShapeM.intersects, time_int, intersects_time.
    destruct (sdt a) as [x|], (sdt b) as [y|]; cbn; try (rewrite andb_true_r; reflexivity).
    destruct (TimeM.intersects x y); cbn; [rewrite andb_true_r|rewrite andb_false_r]; reflexivity.
  Qed.

  Lemma contains_compose a b : contains cs a b = cs a b && time_sup a b.
  Proof.
    unfold contains, time_sup, contains_time, contains_iv.
    destruct (sdt a) as [x|], (sdt b) as [y|]; cbn; try (rewrite andb_true_r; reflexivity).
    destruct (issuperset x y); cbn; [rewrite andb_true_r|rewrite andb_false_r]; reflexivity.
  Qed.

  Definition wf_shp (s : shp) : Prop := match sdt s with Some i => wf i | None => True end.

  (* the temporal factor is the set-theoretic one (C06) *)
  Lemma intersects_sem a b : wf_shp a -> wf_shp b ->
    (ShapeM.intersects is_ a b = true <->
     is_ a b = true /\
     (forall x y, sdt a = Some x -> sdt b = Some y -> exists t, mem t x /\ mem t y)).
  Proof.
    intros Wa Wb. rewrite intersects_compose, andb_true_iff. unfold time_int, wf_shp in *.
    destruct (sdt a) as [x|], (sdt b) as [y|];
      try (split; [intros [H _]; split; [exact H|intros ? ? ? ?; discriminate]|intros [H _]; auto]).
    rewrite (intersects_spec x y Wa Wb). split.
    - intros [H1 H2]. split; [exact H1|]. intros x' y' E1 E2. injection E1 as <-. injection E2 as <-. exact H2.
    - intros [H1 H2]. split; [exact H1|]. apply H2; reflexivity.
  Qed.

  Lemma contains_sem a b : wf_shp a -> wf_shp b ->
    (contains cs a b = true <->
     cs a b = true /\
     (forall x y, sdt a = Some x -> sdt b = Some y -> forall t, mem t y -> mem t x)).
  Proof.
    intros Wa Wb. rewrite contains_compose, andb_true_iff. unfold time_sup, wf_shp in *.
    destruct (sdt a) as [x|], (sdt b) as [y|];
      try (split; [intros [H _]; split; [exact H|intros ? ? ? ?; discriminate]|intros [H _]; auto]).
    unfold issuperset. rewrite (issubset_spec y x Wb Wa). split.
    - intros [H1 H2]. split; [exact H1|]. intros x' y' E1 E2. injection E1 as <-. injection E2 as <-. exact H2.
    - intros [H1 H2]. split; [exact H1|]. apply H2; reflexivity.
  Qed.

  Lemma no_dt_is_spatial_only a b : sdt a = None \/ sdt b = None ->
    ShapeM.intersects is_ a b = is_ a b /\ contains cs a b = cs a b.
  Proof.
    unfold ShapeM.intersects, contains. intros [H|H]; rewrite H; [auto|].
    destruct (sdt a); auto.
  Qed.

  Lemma coordinate_shortcut a c : contains_coord cc a c = cc a c.
  Proof. reflexivity. Qed.
End GateP.

Lemma instant_is_zero_interval t :
  norm_dt (Instant t) = norm_dt (Interval t t) /\ norm_dt (Instant t) = Ok (Some (mkiv t t)).
Proof. unfold norm_dt, mk. rewrite Z.ltb_irrefl. auto. Qed.

Lemma norm_dt_wf d i : norm_dt d = Ok (Some i) -> wf i.
Proof.
  destruct d as [|t|s e]; cbn; [discriminate| |].
  - destruct (mk t t) eqn:E; [|discriminate]. intros H; injection H as <-. eapply mk_wf; eauto.
  - destruct (mk s e) eqn:E; [|discriminate]. intros H; injection H as <-. eapply mk_wf; eauto.
Qed.

Lemma norm_dt_rejects s e : e < s -> norm_dt (Interval s e) = Err ValueError.
Proof. intros H. cbn. rewrite mk_rejects; auto. Qed.

(* ================================================================== C04 *)
Section MultiP.
  Variables member shape coord : Type.
  Variable cc : member -> coord -> bool.
  Variable cs : member -> shape -> bool.
  Variable is_ : member -> shape -> bool.

  Lemma loop_any_existsb {A} (f : A -> bool) l : loop_any f l = existsb f l.
  Proof. induction l as [|x l IH]; cbn; [reflexivity|]. destruct (f x); cbn; auto. Qed.

  Lemma loop_all_forallb {A} (f : A -> bool) l : loop_all f l = forallb f l.
  Proof. induction l as [|x l IH]; cbn; [reflexivity|]. destruct (f x); cbn; auto. Qed.

  Lemma multi_cc_spec ms c :
    multi_cc _ _ cc ms c = true <-> exists m, In m ms /\ cc m c = true.
  Proof. unfold multi_cc. rewrite loop_any_existsb. apply existsb_exists. Qed.

  Lemma multi_is_single ms s :
    multi_is _ _ is_ ms (Single s) = true <-> exists m, In m ms /\ is_ m s = true.
  Proof. cbn. rewrite loop_any_existsb. apply existsb_exists. Qed.

  Lemma multi_is_parts ms ps :
    multi_is _ _ is_ ms (Parts ps) = true <->
    exists p m, In p ps /\ In m ms /\ is_ m p = true.
  Proof.
    cbn. rewrite loop_any_existsb, existsb_exists. split.
    - intros [p [Hp H]]. rewrite loop_any_existsb in H. apply existsb_exists in H.
      destruct H as [m [Hm H]]. exists p, m. auto.
    - intros [p [m [Hp [Hm H]]]]. exists p. split; [exact Hp|].
      rewrite loop_any_existsb. apply existsb_exists. exists m. auto.
  Qed.

  Lemma multi_cs_single ms s :
    multi_cs _ _ cs ms (Single s) = true <-> exists m, In m ms /\ cs m s = true.
  Proof. cbn. rewrite loop_any_existsb. apply existsb_exists. Qed.

  Lemma multi_cs_parts ms ps :
    multi_cs _ _ cs ms (Parts ps) = true <->
    forall p, In p ps -> exists m, In m ms /\ cs m p = true.
  Proof.
    cbn. rewrite loop_all_forallb, forallb_forall. split; intros H p Hp.
    - specialize (H p Hp). rewrite loop_any_existsb in H. apply existsb_exists in H. exact H.
    - rewrite loop_any_existsb. apply existsb_exists. auto.
  Qed.

  Lemma single_is_multi_spec (xi : shape -> bool) ps :
    single_is_multi _ xi ps = true <-> exists p, In p ps /\ xi p = true.
  Proof. unfold single_is_multi. rewrite loop_any_existsb. apply existsb_exists. Qed.

  Lemma single_cs_multi_spec (xc : shape -> bool) ps :
    single_cs_multi _ xc ps = true <-> forall p, In p ps -> xc p = true.
  Proof. unfold single_cs_multi. rewrite loop_all_forallb. apply forallb_forall. Qed.

  (* receiver side and argument side agree whenever the member-level test is symmetric *)
  Lemma multi_is_sym_lift (is2 : shape -> member -> bool) ms x :
    (forall m, is_ m x = is2 x m) ->
    multi_is _ _ is_ ms (Single x) = loop_any (is2 x) ms.
  Proof.
    intros H. cbn. rewrite !loop_any_existsb.
    induction ms as [|m ms IH]; cbn; [reflexivity|]. rewrite H, IH. reflexivity.
  Qed.

  Lemma existsb_perm {A} (f : A -> bool) l l' : Permutation l l' -> existsb f l = existsb f l'.
  Proof.
    induction 1 as [|x l l' _ IH|x y l|l l' l'' _ IH1 _ IH2]; cbn; auto.
    - rewrite IH; reflexivity.
    - destruct (f x), (f y); reflexivity.
    - congruence.
  Qed.

  Lemma forallb_ext_in {A} (f g : A -> bool) l : (forall x, f x = g x) -> forallb f l = forallb g l.
  Proof. intros H. induction l as [|x l IH]; cbn; [reflexivity|]. rewrite H, IH. reflexivity. Qed.

  Lemma existsb_ext' {A} (f g : A -> bool) l : (forall x, f x = g x) -> existsb f l = existsb g l.
  Proof. intros H. induction l as [|x l IH]; cbn; [reflexivity|]. rewrite H, IH. reflexivity. Qed.

  (* member order does not matter *)
  Lemma perm_invariant ms ms' : Permutation ms ms' ->
    (forall c, multi_cc _ _ cc ms c = multi_cc _ _ cc ms' c) /\
    (forall a, multi_is _ _ is_ ms a = multi_is _ _ is_ ms' a) /\
    (forall a, multi_cs _ _ cs ms a = multi_cs _ _ cs ms' a).
  Proof.
    intros P. split; [|split].
    - intros c. unfold multi_cc. rewrite !loop_any_existsb. apply existsb_perm, P.
    - intros [s|ps]; cbn; rewrite !loop_any_existsb.
      + apply existsb_perm, P.
      + apply existsb_ext'. intros p. rewrite !loop_any_existsb. apply existsb_perm, P.
    - intros [s|ps]; cbn.
      + rewrite !loop_any_existsb. apply existsb_perm, P.
      + rewrite !loop_all_forallb. apply forallb_ext_in. intros p.
        rewrite !loop_any_existsb. apply existsb_perm, P.
  Qed.
End MultiP.

(* ---- bounds ---- *)
Lemma fold_min_le l : forall x, fold_left Z.min l x <= x /\ (forall y, In y l -> fold_left Z.min l x <= y).
Proof.
  induction l as [|a l IH]; intros x; cbn; [split; [lia|intros ? []]|].
  destruct (IH (Z.min x a)) as [H1 H2]. split; [lia|].
  intros y [<-|Hy]; [lia|auto].
Qed.

Lemma fold_min_in l : forall x, fold_left Z.min l x = x \/ In (fold_left Z.min l x) l.
Proof.
  induction l as [|a l IH]; intros x; cbn; [auto|].
  destruct (IH (Z.min x a)) as [H|H]; [|auto].
  rewrite H. destruct (Z.min_spec x a) as [[_ ->]|[_ ->]]; auto.
Qed.

Lemma fold_max_ge l : forall x, x <= fold_left Z.max l x /\ (forall y, In y l -> y <= fold_left Z.max l x).
Proof.
  induction l as [|a l IH]; intros x; cbn; [split; [lia|intros ? []]|].
  destruct (IH (Z.max x a)) as [H1 H2]. split; [lia|].
  intros y [<-|Hy]; [lia|auto].
Qed.

Lemma fold_max_in l : forall x, fold_left Z.max l x = x \/ In (fold_left Z.max l x) l.
Proof.
  induction l as [|a l IH]; intros x; cbn; [auto|].
  destruct (IH (Z.max x a)) as [H|H]; [|auto].
  rewrite H. destruct (Z.max_spec x a) as [[_ ->]|[_ ->]]; auto.
Qed.

Lemma minl_spec l m : minl l = Ok m -> In m l /\ forall y, In y l -> m <= y.
Proof.
  destruct l as [|x l]; cbn; [discriminate|]. intros H; injection H as <-.
  destruct (fold_min_le l x) as [H1 H2]. split.
  - destruct (fold_min_in l x) as [->|H]; auto.
  - intros y [<-|Hy]; auto.
Qed.

Lemma maxl_spec l m : maxl l = Ok m -> In m l /\ forall y, In y l -> y <= m.
Proof.
  destruct l as [|x l]; cbn; [discriminate|]. intros H; injection H as <-.
  destruct (fold_max_ge l x) as [H1 H2]. split.
  - destruct (fold_max_in l x) as [->|H]; auto.
  - intros y [<-|Hy]; auto.
Qed.

(* the multi-shape's bounds are the union (bounding box) of the members' bounds:
   every member box is inside, and each side is attained by some member *)
Lemma multi_bounds_union bs r : multi_bounds bs = Ok r ->
  (forall b, In b bs -> b_minlon r <= b_minlon b /\ b_minlat r <= b_minlat b /\
                        b_maxlon b <= b_maxlon r /\ b_maxlat b <= b_maxlat r) /\
  (exists b, In b bs /\ b_minlon b = b_minlon r) /\ (exists b, In b bs /\ b_minlat b = b_minlat r) /\
  (exists b, In b bs /\ b_maxlon b = b_maxlon r) /\ (exists b, In b bs /\ b_maxlat b = b_maxlat r).
Proof.
  unfold multi_bounds.
  destruct (minl (map b_minlon bs)) as [a|] eqn:E1; [|discriminate].
  destruct (minl (map b_minlat bs)) as [b|] eqn:E2; [|discriminate].
  destruct (maxl (map b_maxlon bs)) as [c|] eqn:E3; [|discriminate].
  destruct (maxl (map b_maxlat bs)) as [d|] eqn:E4; [|discriminate].
  intros H; injection H as <-. cbn.
  apply minl_spec in E1, E2. apply maxl_spec in E3, E4.
  destruct E1 as [I1 L1], E2 as [I2 L2], E3 as [I3 L3], E4 as [I4 L4].
  split; [|repeat split].
  - intros x Hx. repeat split.
    + apply L1, in_map, Hx.
    + apply L2, in_map, Hx.
    + apply L3, in_map, Hx.
    + apply L4, in_map, Hx.
  - apply in_map_iff in I1. destruct I1 as [x [E Hx]]. exists x. auto.
  - apply in_map_iff in I2. destruct I2 as [x [E Hx]]. exists x. auto.
  - apply in_map_iff in I3. destruct I3 as [x [E Hx]]. exists x. auto.
  - apply in_map_iff in I4. destruct I4 as [x [E Hx]]. exists x. auto.
Qed.

Lemma multi_bounds_nonempty b bs : exists r, multi_bounds (b :: bs) = Ok r.
Proof. unfold multi_bounds. cbn. eexists. reflexivity. Qed.

Lemma multi_bounds_empty : multi_bounds [] = Err ValueError.
Proof. reflexivity. Qed.

(* ---- split ---- *)
Lemma split_spec (props : Type) (pdt : option iv) (pp : props) ms :
  length (split props pdt pp ms) = length ms /\
  map (fun m => fst (fst m)) (split props pdt pp ms) = map (fun m => fst (fst m)) ms /\
  forall m, In m (split props pdt pp ms) -> snd (fst m) = pdt /\ snd m = pp.
Proof.
  unfold split. split; [apply map_length|]. split.
  - rewrite map_map. apply map_ext. intros [[g d] p]. reflexivity.
  - intros m H. apply in_map_iff in H. destruct H as [[[g d] p] [<- _]]. cbn. auto.
Qed.
