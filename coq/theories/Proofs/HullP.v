(* Proofs about the monotone-chain model (HullM.v): basic structure.
   Stdlib only; no axioms. *)
From Coq Require Import Sorted Permutation.
From GV Require Import Prelude HullM.
Open Scope Z_scope.

(* ------------------------------------------------------------------ points and their order *)
Definition lt2 (a b : pt) : Prop := fst a < fst b \/ (fst a = fst b /\ snd a < snd b).
Definition le2 (a b : pt) : Prop := lt2 a b \/ a = b.

Lemma pt_ltb_spec a b : pt_ltb a b = true <-> lt2 a b.
Proof. unfold pt_ltb, lt2. lia. Qed.

Lemma pt_eqb_spec a b : pt_eqb a b = true <-> a = b.
Proof.
  unfold pt_eqb. destruct a as [a1 a2], b as [b1 b2]; cbn. split.
  - intros H. f_equal; lia.
  - intros H. injection H. lia.
Qed.

Lemma lt2_irrefl a : ~ lt2 a a.
Proof. unfold lt2. lia. Qed.

Lemma lt2_trans a b c : lt2 a b -> lt2 b c -> lt2 a c.
Proof. unfold lt2. lia. Qed.

Lemma lt2_total a b : lt2 a b \/ a = b \/ lt2 b a.
Proof.
  destruct a as [a1 a2], b as [b1 b2]. unfold lt2; cbn.
  destruct (Z.lt_trichotomy a1 b1) as [?|[?|?]]; [lia| |lia].
  destruct (Z.lt_trichotomy a2 b2) as [?|[?|?]]; [lia| |lia].
  right; left. f_equal; lia.
Qed.

Lemma lt2_asym a b : lt2 a b -> ~ lt2 b a.
Proof. unfold lt2. lia. Qed.

(* ------------------------------------------------------------------ dedup_sort *)
Lemma insert_In p l x : In x (insert p l) <-> x = p \/ In x l.
Proof.
  induction l as [|q l IH]; cbn.
  - intuition.
  - destruct (pt_ltb p q) eqn:E1; cbn; [intuition|].
    destruct (pt_eqb p q) eqn:E2; cbn.
    + apply pt_eqb_spec in E2. subst. intuition.
    + rewrite IH. intuition.
Qed.

Lemma dedup_sort_In l x : In x (dedup_sort l) <-> In x l.
Proof.
  induction l as [|p l IH]; cbn; [tauto|].
  rewrite insert_In, IH. intuition.
Qed.

Lemma insert_sorted p l : StronglySorted lt2 l -> StronglySorted lt2 (insert p l).
Proof.
  induction 1 as [|q l Hs IH Hq]; cbn.
  - constructor; constructor.
  - destruct (pt_ltb p q) eqn:E1.
    + apply pt_ltb_spec in E1. constructor; [constructor; assumption|].
      constructor; [assumption|].
      eapply Forall_impl; [|exact Hq]. intros a Ha. eapply lt2_trans; eauto.
    + destruct (pt_eqb p q) eqn:E2.
      * constructor; assumption.
      * constructor; [assumption|].
        rewrite Forall_forall in *. intros x Hx. apply insert_In in Hx.
        destruct Hx as [->|Hx]; [|auto].
        destruct (lt2_total p q) as [H|[H|H]]; [|subst|assumption].
        -- apply pt_ltb_spec in H. congruence.
        -- assert (pt_eqb q q = true) by (apply pt_eqb_spec; reflexivity). congruence.
Qed.

Lemma dedup_sort_sorted l : StronglySorted lt2 (dedup_sort l).
Proof.
  induction l; cbn; [constructor|]. apply insert_sorted; assumption.
Qed.

(* a strictly increasing list is determined by its set of members *)
Lemma sorted_unique l : forall l',
  StronglySorted lt2 l -> StronglySorted lt2 l' ->
  (forall x, In x l <-> In x l') -> l = l'.
Proof.
  induction l as [|a l IH]; intros [|b l'] H1 H2 Hm.
  - reflexivity.
  - exfalso. apply (Hm b). left; reflexivity.
  - exfalso. apply (Hm a). left; reflexivity.
  - inversion H1 as [|? ? Hs1 Ha]; subst. inversion H2 as [|? ? Hs2 Hb]; subst.
    rewrite Forall_forall in Ha, Hb.
    assert (a = b).
    { destruct (proj1 (Hm a) (or_introl eq_refl)) as [E|Hin]; [congruence|].
      destruct (proj2 (Hm b) (or_introl eq_refl)) as [E|Hin']; [congruence|].
      exfalso. eapply lt2_asym; [apply Hb, Hin|apply Ha, Hin']. }
    subst b. f_equal. apply IH; try assumption.
    intros x. split; intros Hx.
    + destruct (proj1 (Hm x) (or_intror Hx)) as [E|?]; [|assumption].
      subst x. exfalso. eapply lt2_irrefl. apply Ha, Hx.
    + destruct (proj2 (Hm x) (or_intror Hx)) as [E|?]; [|assumption].
      subst x. exfalso. eapply lt2_irrefl. apply Hb, Hx.
Qed.

Lemma dedup_sort_same_set l l' :
  (forall x, In x l <-> In x l') -> dedup_sort l = dedup_sort l'.
Proof.
  intros H. apply sorted_unique; try apply dedup_sort_sorted.
  intros x. rewrite !dedup_sort_In. apply H.
Qed.

(* the specification of the sort: THE strictly increasing list with the same members *)
Lemma dedup_sort_spec l s :
  StronglySorted lt2 s -> (forall x, In x s <-> In x l) -> dedup_sort l = s.
Proof.
  intros Hs Hm. apply sorted_unique; [apply dedup_sort_sorted|assumption|].
  intros x. rewrite dedup_sort_In. symmetry. apply Hm.
Qed.

Lemma hull_same_set l l' : (forall x, In x l <-> In x l') -> hull l = hull l'.
Proof. intros H. unfold hull. rewrite (dedup_sort_same_set l l' H). reflexivity. Qed.

Lemma hull_perm l l' : Permutation l l' -> hull l = hull l'.
Proof.
  intros H. apply hull_same_set. intros x. split; apply Permutation_in; [|symmetry]; assumption.
Qed.

Lemma hull_multiplicity l : hull (l ++ l) = hull l.
Proof. apply hull_same_set. intros x. rewrite in_app_iff. tauto. Qed.

(* ------------------------------------------------------------------ the stack only holds inputs *)
Lemma pop_while_suffix c st : exists pre, st = pre ++ pop_while c st.
Proof.
  induction st as [|b st IH]; [exists []; reflexivity|].
  cbn. destruct st as [|a st'].
  - exists []. reflexivity.
  - destruct (cross a b c <=? 0).
    + destruct IH as [pre E]. exists (b :: pre). cbn. f_equal. exact E.
    + exists []. reflexivity.
Qed.

Lemma pop_while_incl c st x : In x (pop_while c st) -> In x st.
Proof.
  destruct (pop_while_suffix c st) as [pre E]. intros H. rewrite E. apply in_or_app. auto.
Qed.

Lemma chain_stack_incl_gen l : forall st x,
  In x (fold_left push l st) -> In x l \/ In x st.
Proof.
  induction l as [|c l IH]; intros st x H; cbn in *; [auto|].
  apply IH in H. destruct H as [H|H]; [auto|].
  destruct H as [->|H]; [auto|]. right. eapply pop_while_incl; eauto.
Qed.

Lemma chain_incl l x : In x (chain l) -> In x l.
Proof.
  unfold chain, chain_stack. rewrite <- in_rev. intros H.
  apply chain_stack_incl_gen in H. destruct H as [H|[]]. exact H.
Qed.

Lemma In_removelast {A} (l : list A) x : In x (removelast l) -> In x l.
Proof.
  induction l as [|a l IH]; cbn; [auto|]. destruct l; [intros []|].
  intros [->|H]; [auto|]. right. apply IH, H.
Qed.

Lemma hull_sorted_incl s x : In x (hull_sorted s) -> In x s.
Proof.
  destruct s as [|a [|b s]]; cbn [hull_sorted]; try tauto.
  intros H. apply in_app_or in H. destruct H as [H|H].
  - apply In_removelast, chain_incl in H. exact H.
  - apply chain_incl in H. apply in_rev. exact H.
Qed.

Lemma hull_subset l v : In v (hull l) -> In v l.
Proof. intros H. apply hull_sorted_incl in H. apply dedup_sort_In, H. Qed.
