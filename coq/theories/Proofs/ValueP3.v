(* Proofs about ValueM (C15), part 3: the GeoPolygon constructor, re-written outlines and hole
   outlines, what equality pins down, copy() and pickle (values and object identities). *)
From Coq Require Import Permutation.
From GV Require Import Prelude ValueM ValueP ValueP2.
Open Scope Z_scope.

(* ------------------------------------------------------------------ closing a ring *)
(* an open ring r (the distinct vertices in order) written as a closed outline *)
Definition cl (r : list coord) : list coord := r ++ [hd dflt r].

Lemma hd_app_ne {A} (d : A) l m : l <> [] -> hd d (l ++ m) = hd d l.
Proof. destruct l; [congruence | reflexivity]. Qed.

Lemma close_ring_cl r : r <> [] -> close_ring (cl r) = cl r.
Proof.
  intro N. unfold close_ring, cl. rewrite (hd_app_ne _ _ _ N), last_last, coord_eqb_refl. reflexivity.
Qed.

Lemma close_ring_open r : hd dflt r <> last r dflt -> close_ring r = cl r.
Proof.
  intro N. unfold close_ring, cl. destruct (coord_eqb (hd dflt r) (last r dflt)) eqn:E; [|reflexivity].
  apply coord_eqb_eq in E. contradiction.
Qed.

Lemma close_ring_closed o : hd dflt o = last o dflt -> close_ring o = o.
Proof. intro E. unfold close_ring. now rewrite E, coord_eqb_refl. Qed.

(* passing the ring without its closing point gives the same polygon *)
Lemma mk_outline_unclosed b r : hd dflt r <> last r dflt -> mk_outline b r = mk_outline b (cl r).
Proof.
  intro N. assert (r <> []) by (destruct r; [cbn in N; congruence | discriminate]).
  unfold mk_outline. now rewrite (close_ring_open r N), close_ring_cl.
Qed.

Lemma ring_ok_cl o : ring_ok o -> removelast o <> [] /\ o = cl (removelast o).
Proof.
  intros [L E]. destruct o as [|a o]; [cbn in L; lia|]. destruct o as [|b o]; [cbn in L; lia|].
  split; [discriminate|]. unfold cl.
  assert (N : a :: b :: o <> []) by discriminate.
  rewrite (app_removelast_last dflt N) at 1. f_equal. f_equal. rewrite <- E. reflexivity.
Qed.

Lemma cl_ring_ok r : r <> [] -> ring_ok (cl r).
Proof.
  intro N. unfold ring_ok, cl. rewrite app_length, (hd_app_ne _ _ _ N), last_last. cbn.
  split; [destruct r; [congruence | cbn; lia] | reflexivity].
Qed.

Lemma hd_rev {A} (d : A) l : hd d (rev l) = last l d.
Proof.
  induction l as [|a l IH]; [reflexivity|]. cbn [rev].
  destruct l as [|b l]; [reflexivity|]. rewrite hd_app_ne; [exact IH|].
  cbn. intro E. apply app_eq_nil in E as [_ E]. discriminate.
Qed.

Lemma last_rev {A} (d : A) l : last (rev l) d = hd d l.
Proof. rewrite <- (rev_involutive l) at 2. now rewrite hd_rev. Qed.

Lemma rev_ring_ok o : ring_ok o -> ring_ok (rev o).
Proof. intros [L E]. split; [now rewrite rev_length | now rewrite hd_rev, last_rev]. Qed.

(* the constructor stores a closed outline of >= 2 entries for every open ring *)
Lemma mk_outline_ok b r : r <> [] -> ring_ok (mk_outline b (cl r)).
Proof.
  intro N. unfold mk_outline. rewrite (close_ring_cl r N).
  destruct (xorb _ _); [|apply rev_ring_ok]; now apply cl_ring_ok.
Qed.

(* ... and what it stores is the ring, possibly read backwards from the first vertex *)
Lemma removelast_rev_cl r : r <> [] -> Rot (removelast (rev (cl r))) (rev r).
Proof.
  intro N. destruct r as [|a m]; [congruence|]. unfold cl. cbn [hd].
  rewrite rev_unit. cbn [rev].
  replace (a :: rev m ++ [a]) with ((a :: rev m) ++ [a]) by reflexivity.
  rewrite removelast_last. exists (rev m), [a]. auto.
Qed.

Lemma mk_outline_Cyc b r : r <> [] -> Cyc (removelast (mk_outline b (cl r))) r.
Proof.
  intro N. unfold mk_outline. rewrite (close_ring_cl r N). destruct (xorb _ _).
  - unfold cl. rewrite removelast_last. apply Cyc_refl.
  - right. now apply removelast_rev_cl.
Qed.

Lemma mk_outline_ne b o : o <> [] -> mk_outline b o <> [].
Proof.
  intro N. unfold mk_outline.
  assert (C : close_ring o <> []).
  { unfold close_ring. destruct (coord_eqb _ _); [exact N|]. destruct o; discriminate. }
  destruct (xorb _ _); [exact C|]. intro E. apply (f_equal (@rev _)) in E.
  rewrite rev_involutive in E. now apply C.
Qed.

(* a polygon equals itself re-written from any start vertex and in either winding (outline part) *)
Lemma outline_rot_rev b b' r r' : r <> [] -> Cyc r' r ->
  outline_eqb (mk_outline b' (cl r')) (mk_outline b (cl r)) = true.
Proof.
  intros N C.
  assert (N' : r' <> []).
  { apply Cyc_length in C. destruct r', r; cbn in *; congruence. }
  apply outline_eqb_Cyc.
  - apply mk_outline_ne. destruct r'; [congruence | discriminate].
  - apply mk_outline_ne. destruct r; [congruence | discriminate].
  - pose proof (mk_outline_Cyc b r N) as C1. pose proof (mk_outline_Cyc b' r' N') as C2. split.
    + intro E. apply Cyc_length in C1. rewrite E in C1. destruct r; [congruence | discriminate].
    + eapply Cyc_trans; [exact C2|]. eapply Cyc_trans; [exact C|]. now apply Cyc_sym.
Qed.

(* ------------------------------------------------------------------ directed edges of a ring *)
Lemma dedges_cons a b l : dedges (a :: b :: l) = (a, b) :: dedges (b :: l).
Proof. reflexivity. Qed.

Lemma dedges_app u : forall v, u <> [] -> v <> [] ->
  dedges (u ++ v) = dedges u ++ (last u dflt, hd dflt v) :: dedges v.
Proof.
  induction u as [|a u IH]; intros v Nu Nv; [congruence|].
  destruct u as [|a' u].
  - destruct v as [|b v]; [congruence|]. reflexivity.
  - cbn [app]. rewrite dedges_cons. change (a' :: u ++ v) with ((a' :: u) ++ v).
    rewrite IH by (auto; discriminate). rewrite dedges_cons. reflexivity.
Qed.

Lemma dedges_cl_rot u v : u <> [] -> v <> [] ->
  Permutation (dedges (cl (u ++ v))) (dedges (cl (v ++ u))).
Proof.
  intros Nu Nv. unfold cl. rewrite !hd_app_ne by assumption. rewrite <- !app_assoc.
  rewrite (dedges_app u (v ++ [hd dflt u])) by (auto; destruct v; discriminate).
  rewrite (dedges_app v [hd dflt u]) by (auto; discriminate).
  rewrite (dedges_app v (u ++ [hd dflt v])) by (auto; destruct u; discriminate).
  rewrite (dedges_app u [hd dflt v]) by (auto; discriminate).
  rewrite !hd_app_ne by assumption. cbn [hd dedges combine tl].
  set (A := dedges u). set (B := dedges v).
  set (x := (last u dflt, hd dflt v)). set (y := (last v dflt, hd dflt u)).
  change (Permutation (A ++ x :: B ++ [y]) (B ++ y :: A ++ [x])).
  replace (A ++ x :: B ++ [y]) with ((A ++ [x]) ++ (B ++ [y])) by (now rewrite <- app_assoc).
  replace (B ++ y :: A ++ [x]) with ((B ++ [y]) ++ (A ++ [x])) by (now rewrite <- app_assoc).
  apply Permutation_app_comm.
Qed.

Lemma dedges_cl_Rot q' q : Rot q' q -> Permutation (dedges (cl q')) (dedges (cl q)).
Proof.
  intros (u & v & -> & ->). destruct u as [|a u]; [now rewrite app_nil_r|].
  destruct v as [|b v]; [now rewrite app_nil_r|]. apply dedges_cl_rot; discriminate.
Qed.

Definition swap (e : edge) : edge := (snd e, fst e).

Lemma dedges_rev l : dedges (rev l) = map swap (rev (dedges l)).
Proof.
  induction l as [|a l IH]; [reflexivity|]. destruct l as [|b l]; [reflexivity|].
  cbn [rev] in *. rewrite dedges_cons. cbn [rev]. rewrite map_app. cbn [map swap fst snd].
  rewrite <- IH. rewrite dedges_app; [|intro E; apply app_eq_nil in E as [_ E]; discriminate | discriminate].
  cbn [hd]. change (dedges [a]) with (@nil edge). f_equal. f_equal. unfold swap. cbn [fst snd].
  f_equal. apply last_last.
Qed.

Lemma dedges_rev_perm x y : Permutation (dedges x) (dedges y) ->
  Permutation (dedges (rev x)) (dedges (rev y)).
Proof.
  intro H. rewrite !dedges_rev. apply Permutation_map.
  eapply Permutation_trans; [apply Permutation_sym, Permutation_rev|].
  eapply Permutation_trans; [exact H | apply Permutation_rev].
Qed.

(* twice the signed area, up to sign convention: the sum is_counter_clockwise computes *)
Definition psum (l : list coord) : Z := fold_right Z.add 0 (map edge_term (dedges l)).

Lemma sum_perm (f : edge -> Z) a b : Permutation a b ->
  fold_right Z.add 0 (map f a) = fold_right Z.add 0 (map f b).
Proof. induction 1; cbn; lia. Qed.

Lemma combine_rotl_aux t : forall a x,
  combine (a :: t) (t ++ [x]) = combine (a :: t) t ++ [(last (a :: t) dflt, x)].
Proof.
  induction t as [|b t IH]; intros a x; [reflexivity|].
  change (combine (a :: b :: t) ((b :: t) ++ [x])) with ((a, b) :: combine (b :: t) (t ++ [x])).
  rewrite IH. reflexivity.
Qed.

Lemma shoelace_closed o : o <> [] -> hd dflt o = last o dflt -> shoelace o = psum o.
Proof.
  intros N E. destruct o as [|a t]; [congruence|]. unfold shoelace, psum, dedges. cbn [rotl tl].
  rewrite combine_rotl_aux, map_app, fold_right_app. cbn [map fold_right hd] in *.
  rewrite <- E. unfold edge_term at 1. cbn [fst snd].
  replace ((lon a - lon a) * (lat a + lat a) + 0) with 0 by ring. reflexivity.
Qed.

Lemma psum_rev l : psum (rev l) = - psum l.
Proof.
  unfold psum. rewrite dedges_rev, map_map.
  rewrite (sum_perm _ _ _ (Permutation_sym (Permutation_rev (dedges l)))).
  induction (dedges l) as [|e t IH]; [reflexivity|]. cbn [map fold_right]. rewrite IH.
  unfold edge_term, swap. cbn [fst snd]. ring.
Qed.

Lemma rev_cl r : r <> [] -> exists r2, Rot r2 (rev r) /\ rev (cl r) = cl r2.
Proof.
  intro N. destruct r as [|a m]; [congruence|]. exists (a :: rev m). split.
  - cbn [rev]. exists (rev m), [a]. auto.
  - unfold cl. cbn [hd]. rewrite rev_unit. cbn [rev]. reflexivity.
Qed.

(* the stored hole outline has the same directed edges however the hole ring was written,
   provided the ring has non-zero signed area (a zero-area ring cannot be orientation-normalised) *)
Lemma hole_edges_rot_rev b q q' : q <> [] -> psum (cl q) <> 0 -> Cyc q' q ->
  Permutation (dedges (mk_outline b (cl q'))) (dedges (mk_outline b (cl q))).
Proof.
  intros N A C.
  assert (N' : q' <> []).
  { apply Cyc_length in C. destruct q', q; cbn in *; congruence. }
  unfold mk_outline, is_ccw. rewrite (close_ring_cl q N), (close_ring_cl q' N').
  destruct (cl_ring_ok q N) as [_ Eq]. destruct (cl_ring_ok q' N') as [_ Eq'].
  rewrite (shoelace_closed (cl q)), (shoelace_closed (cl q')); auto;
    try (unfold cl; intro E; apply app_eq_nil in E as [_ E]; discriminate).
  destruct C as [R|R].
  - pose proof (dedges_cl_Rot _ _ R) as Pm.
    assert (S : psum (cl q') = psum (cl q)) by (unfold psum; now apply sum_perm).
    rewrite S. destruct (xorb _ _); [exact Pm | now apply dedges_rev_perm].
  - destruct (rev_cl q N) as (r2 & R2 & E2).
    assert (Pm : Permutation (dedges (cl q')) (dedges (rev (cl q)))).
    { rewrite E2. eapply Permutation_trans; [apply (dedges_cl_Rot _ _ R)|].
      apply Permutation_sym, dedges_cl_Rot, R2. }
    assert (S : psum (cl q') = - psum (cl q)).
    { rewrite <- psum_rev. unfold psum. now apply sum_perm. }
    rewrite S.
    destruct (psum (cl q) <=? 0) eqn:E1, (- psum (cl q) <=? 0) eqn:E3; try lia; destruct b; cbn.
    + exact Pm.
    + apply dedges_rev_perm in Pm. now rewrite rev_involutive in Pm.
    + apply dedges_rev_perm in Pm. now rewrite rev_involutive in Pm.
    + exact Pm.
Qed.

Lemma Forall2_inl {A B} (R : A -> B -> Prop) l m x : Forall2 R l m -> In x l -> exists y, In y m /\ R x y.
Proof.
  induction 1 as [|a b l m Hab F IH]; intros []; [subst; exists b; split; [now left | exact Hab]|].
  destruct (IH H) as (y & Hy & Hxy). exists y. split; [now right | exact Hxy].
Qed.
Lemma Forall2_inr {A B} (R : A -> B -> Prop) l m y : Forall2 R l m -> In y m -> exists x, In x l /\ R x y.
Proof.
  induction 1 as [|a b l m Hab F IH]; intros []; [subst; exists a; split; [now left | exact Hab]|].
  destruct (IH H) as (x & Hx & Hxy). exists x. split; [now right | exact Hxy].
Qed.

Lemma Forall2_len {A B} (R : A -> B -> Prop) l m : Forall2 R l m -> length l = length m.
Proof. induction 1; cbn; congruence. Qed.

Section WithCurve.
  Variable curve : geom -> list coord.

  (* ---------------------------------------------------------------- rewritten polygons *)
  (* h' is the hole h with its ring written from another start vertex / in the other winding *)
  Definition hole_rewrite (h' h : hole) : Prop :=
    h' = h \/
    exists q q', q <> [] /\ psum (cl q) <> 0 /\ Cyc q' q /\
                 hgeom h = GPoly (mk_outline false (cl q)) /\
                 hgeom h' = GPoly (mk_outline false (cl q')).

  Lemma hole_rewrite_edges h' h : hole_rewrite h' h ->
    eset_eqb (dedges (bc curve (hgeom h'))) (dedges (bc curve (hgeom h))) = true.
  Proof.
    intros [->|(q & q' & N & A & C & -> & ->)]; [apply eset_eqb_refl|]. cbn [bc].
    apply eset_eqb_spec. intro e.
    pose proof (hole_edges_rot_rev false q q' N A C) as Pm. split; intro H.
    - eapply Permutation_in; eauto.
    - eapply Permutation_in; [apply Permutation_sym|]; eauto.
  Qed.

  Lemma holes_rewrite_eqb hs' hs : Forall2 hole_rewrite hs' hs -> holes_eqb curve hs' hs = true.
  Proof.
    intro F. apply seteq_b_spec. unfold holes_key. split.
    - intros x Hx. apply in_map_iff in Hx as (h' & <- & Hh').
      destruct (Forall2_inl _ _ _ _ F Hh') as (h & Hh & R).
      exists (dedges (bc curve (hgeom h))).
      split; [exact (in_map (fun h => dedges (bc curve (hgeom h))) _ _ Hh)|]. now apply hole_rewrite_edges.
    - intros x Hx. apply in_map_iff in Hx as (h & <- & Hh).
      destruct (Forall2_inr _ _ _ _ F Hh) as (h' & Hh' & R).
      exists (dedges (bc curve (hgeom h'))).
      split; [exact (in_map (fun h => dedges (bc curve (hgeom h))) _ _ Hh')|].
      apply eset_eqb_sym. now apply hole_rewrite_edges.
  Qed.

  (* "a polygon equals itself re-written from any starting vertex or in the opposite winding",
     for the outline and for every hole outline at once *)
  Theorem poly_eq_rot_rev r r' hs hs' d : r <> [] -> Cyc r' r -> Forall2 hole_rewrite hs' hs ->
    exists p p', mk_poly (cl r) hs d = Ok p /\ mk_poly (cl r') hs' d = Ok p' /\
                 single_eqb curve p' p = true /\ single_eqb curve p p' = true.
  Proof.
    intros N C F.
    assert (N' : r' <> []).
    { apply Cyc_length in C. destruct r', r; cbn in *; congruence. }
    exists (SArea (GPoly (mk_outline false (cl r))) hs d),
           (SArea (GPoly (mk_outline false (cl r'))) hs' d).
    assert (E : forall x : list coord, x <> [] -> forall h, mk_poly (cl x) h d = Ok (SArea (GPoly (mk_outline false (cl x))) h d)).
    { intros x Nx h. unfold mk_poly. destruct (cl x) eqn:Ex; [|reflexivity].
      unfold cl in Ex. apply app_eq_nil in Ex as [_ Ex]. discriminate. }
    split; [now apply E|]. split; [now apply E|].
    assert (G : single_eqb curve (SArea (GPoly (mk_outline false (cl r'))) hs' d)
                          (SArea (GPoly (mk_outline false (cl r))) hs d) = true).
    { cbn. rewrite dt_eqb_refl, (outline_rot_rev false false r r' N C). cbn.
      rewrite (Forall2_len _ _ _ F), Nat.eqb_refl. cbn. now apply holes_rewrite_eqb. }
    split; [exact G | now apply single_eqb_sym].
  Qed.

  (* holes of a polygon are a set: their order is irrelevant *)
  Theorem poly_eq_holes_perm o hs hs' d : ring_ok o -> Permutation hs hs' ->
    single_eqb curve (SArea (GPoly o) hs d) (SArea (GPoly o) hs' d) = true.
  Proof.
    intros [L _] Pm. cbn. rewrite dt_eqb_refl, (outline_eqb_refl o L). cbn.
    rewrite (Permutation_length Pm), Nat.eqb_refl. cbn.
    apply seteq_b_spec. unfold holes_key. split; intros x Hx; exists x; (split; [|apply eset_eqb_refl]).
    - eapply Permutation_in; [apply Permutation_map; exact Pm | exact Hx].
    - eapply Permutation_in; [apply Permutation_map, Permutation_sym; exact Pm | exact Hx].
  Qed.

  (* ---------------------------------------------------------------- what equality pins down *)
  Definition same_geom (g g' : geom) : Prop :=
    match g, g' with
    | GPoly o, GPoly o' =>
        length o = length o' /\ removelast o' <> [] /\ Cyc (removelast o) (removelast o')
    | GBox a b, GBox a' b' => a = a' /\ b = b'
    | GCircle c r, GCircle c' r' => c = c' /\ r = r'
    | GEllipse c a b t, GEllipse c' a' b' t' => c = c' /\ a = a' /\ b = b' /\ t = t'
    | GRing c i o m x, GRing c' i' o' m' x' => c = c' /\ i = i' /\ o = o' /\ m = m' /\ x = x'
    | _, _ => False
    end.
  Definition same_hole (h h' : hole) : Prop := same_geom (hgeom h) (hgeom h') /\ hdt h = hdt h'.
  Definition hole_edges (h : hole) : list edge := dedges (bc curve (hgeom h)).
  Definition same_edge_sets (hs hs' : list hole) : Prop :=
    forall h, In h hs -> exists h', In h' hs' /\ forall e, In e (hole_edges h) <-> In e (hole_edges h').
  Definition same_single (a b : single) : Prop :=
    match a, b with
    | SPoint c d, SPoint c' d' => c = c' /\ d = d'
    | SLine v d, SLine v' d' => v = v' /\ d = d'
    | SArea g hs d, SArea g' hs' d' =>
        same_geom g g' /\ d = d' /\
        match g with
        | GPoly _ => length hs = length hs' /\ same_edge_sets hs hs' /\ same_edge_sets hs' hs
        | _ => Forall2 same_hole hs hs'
        end
    | _, _ => False
    end.

  Lemma hole_eqb_spec h h' : hole_eqb curve h h' = true <-> same_hole h h'.
  Proof.
    unfold hole_eqb, same_hole. destruct (hgeom h), (hgeom h'); cbn; try (split; [discriminate|tauto]);
      rewrite ?andb_true_iff, ?coord_eqb_eq, ?Z.eqb_eq, ?dt_eqb_eq, ?outline_eqb_spec; try tauto.
  Qed.

  Lemma list_eqb_Forall2 {A} (R : A -> A -> bool) (Q : A -> A -> Prop) :
    (forall x y, R x y = true <-> Q x y) ->
    forall l m, list_eqb R l m = true <-> Forall2 Q l m.
  Proof.
    intro E. induction l as [|a l IH]; destruct m as [|b m]; cbn; split; intro H;
      try discriminate; try constructor; try (inversion H; fail).
    - apply andb_true_iff in H as [H _]. now apply E.
    - apply andb_true_iff in H as [_ H]. now apply IH.
    - inversion H; subst. apply andb_true_iff. split; [now apply E | now apply IH].
  Qed.

  Lemma holes_eqb_spec hs hs' :
    holes_eqb curve hs hs' = true <-> same_edge_sets hs hs' /\ same_edge_sets hs' hs.
  Proof.
    unfold holes_eqb, same_edge_sets, holes_key, hole_edges. rewrite seteq_b_spec. split.
    - intros [H1 H2]. split.
      + intros h Hh. destruct (H1 _ (in_map _ _ _ Hh)) as (y & Hy & E).
        apply in_map_iff in Hy as (h' & <- & Hh'). exists h'. split; [exact Hh'|]. now apply eset_eqb_spec.
      + intros h Hh. destruct (H2 _ (in_map _ _ _ Hh)) as (y & Hy & E).
        apply in_map_iff in Hy as (h' & <- & Hh'). exists h'. split; [exact Hh'|]. now apply eset_eqb_spec.
    - intros [H1 H2]. split.
      + intros x Hx. apply in_map_iff in Hx as (h & <- & Hh). destruct (H1 h Hh) as (h' & Hh' & E).
        eexists. split; [apply in_map; exact Hh'|]. now apply eset_eqb_spec.
      + intros x Hx. apply in_map_iff in Hx as (h & <- & Hh). destruct (H2 h Hh) as (h' & Hh' & E).
        eexists. split; [apply in_map; exact Hh'|]. now apply eset_eqb_spec.
  Qed.

  (* eq_sound (and complete): a == b exactly when the defining fields agree *)
  Theorem single_eqb_spec a b : single_eqb curve a b = true <-> same_single a b.
  Proof.
    destruct a as [c d|v d|g hs d], b as [c' d'|v' d'|g' hs' d']; cbn;
      try (split; [discriminate|tauto]).
    - now rewrite andb_true_iff, coord_eqb_eq, dt_eqb_eq.
    - now rewrite andb_true_iff, clist_eqb_eq, dt_eqb_eq.
    - unfold area_eqb. destruct g, g'; cbn; try (split; [discriminate|tauto]);
        rewrite ?andb_true_iff, ?coord_eqb_eq, ?Z.eqb_eq, ?dt_eqb_eq, ?outline_eqb_spec, ?Nat.eqb_eq,
          ?holes_eqb_spec, ?(list_eqb_Forall2 _ _ hole_eqb_spec); tauto.
  Qed.

  (* shapes with different time bounds are unequal, whatever the kind *)
  Theorem with_dt_neq s d d' : d <> d' -> shape_eqb curve (with_dt s d) (with_dt s d') = false.
  Proof.
    intro N. assert (F : dt_eqb d d' = false).
    { destruct (dt_eqb d d') eqn:E; [apply dt_eqb_eq in E; contradiction | reflexivity]. }
    destruct s as [[c ?|v ?|g hs ?]|k ms ?]; cbn; rewrite ?F, ?andb_false_r; try reflexivity.
    unfold area_eqb. destruct g; cbn; rewrite ?F, ?andb_false_r; reflexivity.
  Qed.

  (* polygons over different vertex sets are unequal *)
  Theorem poly_neq_vertex o o' hs hs' d d' x :
    In x (removelast o) -> ~ In x (removelast o') ->
    single_eqb curve (SArea (GPoly o) hs d) (SArea (GPoly o') hs' d') = false.
  Proof.
    intros H1 H2. destruct (single_eqb _ _ _) eqn:E; [|reflexivity].
    apply single_eqb_spec in E. cbn in E. destruct E as ((_ & _ & C) & _).
    apply (Cyc_In _ _ x) in C. tauto.
  Qed.

  (* ---------------------------------------------------------------- copy() and pickle: values *)
  Lemma copy_single_wf s : wf_single s -> wf_single (copy_single s).
  Proof.
    destruct s as [| |g hs d]; cbn; auto. destruct g; cbn; auto. intros [W F]. split; [|exact F].
    destruct (ring_ok_cl _ W) as [N E]. rewrite E. now apply mk_outline_ok.
  Qed.

  Lemma copy_single_eq s : wf_single s -> single_eqb curve (copy_single s) s = true.
  Proof.
    intro W. destruct s as [| |g hs d]; try (now apply single_eqb_refl).
    destruct g; try (now apply single_eqb_refl). destruct W as [W F]. cbn.
    destruct (ring_ok_cl _ W) as [N E]. rewrite dt_eqb_refl. cbn.
    assert (O : outline_eqb (mk_outline false outline) outline = true).
    { apply outline_eqb_Cyc.
      - apply mk_outline_ne. destruct W as [L _]. destruct outline; [cbn in L; lia | discriminate].
      - destruct W as [L _]. destruct outline; [cbn in L; lia | discriminate].
      - split; [exact N|]. rewrite E at 1. now apply mk_outline_Cyc. }
    rewrite O, Nat.eqb_refl. cbn. apply holes_eqb_refl.
  Qed.

  Theorem copy_wf s : wf_shape s -> wf_shape (copy_val s).
  Proof.
    destruct s as [x|k ms d]; cbn; [apply copy_single_wf|]. intro F.
    apply Forall_forall. intros y Hy. apply in_map_iff in Hy as (x & <- & Hx).
    apply copy_single_wf. rewrite Forall_forall in F. auto.
  Qed.

  Theorem copy_eq s : wf_shape s ->
    shape_eqb curve (copy_val s) s = true /\ shape_eqb curve s (copy_val s) = true.
  Proof.
    intro W. assert (G : shape_eqb curve (copy_val s) s = true).
    { destruct s as [x|k ms d]; [now apply copy_single_eq|].
      apply multi_eqb_spec; [apply (copy_wf (Multi k ms d) W) | exact W|].
      cbn in W. rewrite Forall_forall in W. repeat split.
      - intros y Hy. apply in_map_iff in Hy as (x & <- & Hx). exists x. split; [exact Hx|].
        apply copy_single_eq; auto.
      - intros x Hx. exists (copy_single x). split; [now apply in_map|].
        apply single_eqb_sym, copy_single_eq; auto. }
    split; [exact G|]. apply shape_eqb_sym; auto. now apply copy_wf.
  Qed.

  Theorem pickle_eq s : wf_shape s ->
    pickle_val s = s /\ shape_eqb curve (pickle_val s) s = true /\ shape_eqb curve s (pickle_val s) = true.
  Proof. intro W. unfold pickle_val. repeat split; now apply shape_eqb_refl. Qed.
End WithCurve.

(* ------------------------------------------------------------------ copy() and pickle: identities *)
Definition below (n : loc) (ls : list loc) : Prop := forall l, In l ls -> l < n.
Definition atleast (n : loc) (ls : list loc) : Prop := forall l, In l ls -> n <= l.

Lemma fresh_list_spec l : forall n r n', fresh_list n l = (r, n') ->
  n <= n' /\ forall x, In x r -> n <= x < n'.
Proof.
  induction l as [|a l IH]; intros n r n' H; cbn in H.
  - inversion H; subst. split; [lia | intros x []].
  - destruct (fresh_list (n + 1) l) as [r1 n1] eqn:E. inversion H; subst.
    destruct (IH _ _ _ E) as [L I]. split; [lia|]. intros x [<-|Hx]; [lia|]. apply I in Hx. lia.
Qed.

Lemma copy_cell_spec n c c' n' : copy_cell n c = (c', n') ->
  n < n' /\ forall x, In x (cell_locs c') -> n <= x < n'.
Proof.
  unfold copy_cell. destruct (fresh_list (n + 2) (onest c)) as [ns n1] eqn:E.
  destruct (fresh_list_spec _ _ _ _ E) as [L I].
  destruct (odt c); intro H; inversion H; subst; unfold cell_locs; cbn [oid oprops onest odt opt_list].
  - split; [lia|]. intros x [<-|[<-|Hx]]; try lia. apply in_app_iff in Hx as [Hx|[<-|[]]]; [|lia].
    apply I in Hx. lia.
  - split; [lia|]. intros x [<-|[<-|Hx]]; try lia. apply in_app_iff in Hx as [Hx|[]].
    apply I in Hx. lia.
Qed.

Lemma copy_members_spec l : forall n r n', copy_members n l = (r, n') ->
  n <= n' /\ (forall x, In x (flat_map sobj_own_locs r) -> n <= x < n') /\
  map s_holes r = map s_holes l.
Proof.
  induction l as [|s l IH]; intros n r n' H; cbn in H.
  - inversion H; subst. split; [lia|]. split; [intros x [] | reflexivity].
  - unfold copy_sobj in H. destruct (copy_cell n (s_own s)) as [c n1] eqn:E1.
    destruct (copy_members n1 l) as [t n2] eqn:E2. inversion H; subst.
    destruct (copy_cell_spec _ _ _ _ E1) as [L1 I1]. destruct (IH _ _ _ E2) as (L2 & I2 & H2).
    split; [lia|]. split; [|cbn; now rewrite H2].
    intros x Hx. cbn [flat_map] in Hx. apply in_app_iff in Hx as [Hx|Hx].
    + apply (I1 x) in Hx. lia.
    + apply I2 in Hx. lia.
Qed.

(* copy(): every cell of the shape proper (object, _properties, nested containers, dt; for a
   multi-shape also those of its members) is newly allocated ... *)
Theorem copy_fresh n o : below n (all_locs o) ->
  let o' := fst (copy_obj n o) in
  atleast n (own_locs o') /\ (forall l, In l (own_locs o') -> ~ In l (all_locs o)).
Proof.
  intro B. cbn zeta.
  assert (A : atleast n (own_locs (fst (copy_obj n o)))).
  { destruct o as [s|m]; unfold copy_obj.
    - unfold copy_sobj. destruct (copy_cell n (s_own s)) as [c n1] eqn:E.
      cbn [fst own_locs sobj_own_locs s_own].
      intros l Hl. apply (copy_cell_spec _ _ _ _ E) in Hl. lia.
    - destruct (copy_members n (m_members m)) as [ms n1] eqn:E1.
      destruct (copy_cell n1 (m_own m)) as [c n2] eqn:E2. cbn [fst own_locs m_own m_members].
      destruct (copy_members_spec _ _ _ _ E1) as (L1 & I1 & _).
      intros l Hl. apply in_app_iff in Hl as [Hl|Hl].
      + apply (copy_cell_spec _ _ _ _ E2) in Hl. lia.
      + apply I1 in Hl. lia. }
  split; [exact A|]. intros l Hl Hin. apply A in Hl. apply B in Hin. lia.
Qed.

(* ... while the hole objects are the very same objects (holes=self.holes.copy()) *)
Theorem copy_shares_holes n o : hole_locs (fst (copy_obj n o)) = hole_locs o.
Proof.
  destruct o as [s|m]; cbn.
  - unfold copy_sobj. destruct (copy_cell n (s_own s)). reflexivity.
  - destruct (copy_members n (m_members m)) as [ms n1] eqn:E1.
    destruct (copy_cell n1 (m_own m)) as [c n2]. cbn.
    destruct (copy_members_spec _ _ _ _ E1) as (_ & _ & H).
    rewrite !flat_map_concat_map. f_equal.
    rewrite <- (map_map s_holes (flat_map cell_locs)), H, map_map. reflexivity.
Qed.

(* pickle: every cell, holes included, is new *)
Definition memo_ok (n : loc) (st : memo * loc) : Prop :=
  n <= snd st /\ forall a b, In (a, b) (fst st) -> n <= b < snd st.

Lemma assoc_in l m b : assoc l m = Some b -> In (l, b) m.
Proof.
  induction m as [|[x y] m IH]; cbn; [discriminate|]. destruct (x =? l) eqn:E.
  - intro H. inversion H; subst. apply Z.eqb_eq in E. subst. now left.
  - intro H. right. auto.
Qed.

Lemma pk_loc_spec n st l l' st' : memo_ok n st -> pk_loc st l = (l', st') ->
  memo_ok n st' /\ n <= l' < snd st' /\ snd st <= snd st'.
Proof.
  destruct st as [m k]. intros [L M]. unfold pk_loc. cbn [fst snd] in *.
  destruct (assoc l m) eqn:E; intro H; inversion H; subst; cbn [fst snd].
  - apply assoc_in in E. apply M in E. split; [split; auto|]. lia.
  - split; [|lia]. split; [cbn [snd]; lia|]. cbn [fst snd]. intros a b [Hab|Hab].
    + inversion Hab; subst. lia.
    + apply M in Hab. lia.
Qed.

Lemma pk_list_spec n ls : forall st r st', memo_ok n st -> pk_list st ls = (r, st') ->
  memo_ok n st' /\ snd st <= snd st' /\ forall x, In x r -> n <= x < snd st'.
Proof.
  induction ls as [|l ls IH]; intros st r st' K H; cbn in H.
  - inversion H; subst. split; [exact K|]. split; [lia | intros x []].
  - destruct (pk_loc st l) as [l' st1] eqn:E1. destruct (pk_list st1 ls) as [t st2] eqn:E2.
    inversion H; subst. destruct (pk_loc_spec _ _ _ _ _ K E1) as (K1 & B1 & L1).
    destruct (IH _ _ _ K1 E2) as (K2 & L2 & I2). split; [exact K2|]. split; [lia|].
    intros x [<-|Hx]; [lia | now apply I2].
Qed.

Lemma pk_cell_spec n st c c' st' : memo_ok n st -> pk_cell st c = (c', st') ->
  memo_ok n st' /\ snd st <= snd st' /\ forall x, In x (cell_locs c') -> n <= x < snd st'.
Proof.
  intros K. unfold pk_cell.
  destruct (pk_loc st (oid c)) as [i st1] eqn:E1. destruct (pk_loc st1 (oprops c)) as [p st2] eqn:E2.
  destruct (pk_list st2 (onest c)) as [ns st3] eqn:E3.
  destruct (pk_loc_spec _ _ _ _ _ K E1) as (K1 & B1 & L1).
  destruct (pk_loc_spec _ _ _ _ _ K1 E2) as (K2 & B2 & L2).
  destruct (pk_list_spec _ _ _ _ _ K2 E3) as (K3 & L3 & I3).
  destruct (odt c) as [d|].
  - destruct (pk_loc st3 d) as [d' st4] eqn:E4. destruct (pk_loc_spec _ _ _ _ _ K3 E4) as (K4 & B4 & L4).
    intro H; inversion H; subst. split; [exact K4|]. split; [lia|]. intros x H0.
    unfold cell_locs in H0. cbn [oid oprops onest odt opt_list] in H0.
    destruct H0 as [<-|[<-|Hx]]; try lia. apply in_app_iff in Hx as [Hx|[<-|[]]]; [|lia].
    apply I3 in Hx. lia.
  - intro H; inversion H; subst. split; [exact K3|]. split; [lia|]. intros x H0.
    unfold cell_locs in H0. cbn [oid oprops onest odt opt_list] in H0.
    destruct H0 as [<-|[<-|Hx]]; try lia. apply in_app_iff in Hx as [Hx|[]].
    apply I3 in Hx. lia.
Qed.

Lemma pk_cells_spec n cs : forall st r st', memo_ok n st -> pk_cells st cs = (r, st') ->
  memo_ok n st' /\ snd st <= snd st' /\ forall x, In x (flat_map cell_locs r) -> n <= x < snd st'.
Proof.
  induction cs as [|c cs IH]; intros st r st' K H; cbn in H.
  - inversion H; subst. split; [exact K|]. split; [lia | intros x []].
  - destruct (pk_cell st c) as [c' st1] eqn:E1. destruct (pk_cells st1 cs) as [t st2] eqn:E2.
    inversion H; subst. destruct (pk_cell_spec _ _ _ _ _ K E1) as (K1 & L1 & I1).
    destruct (IH _ _ _ K1 E2) as (K2 & L2 & I2). split; [exact K2|]. split; [lia|]. intros x H0.
    cbn [flat_map] in H0. apply in_app_iff in H0 as [Hx|Hx]; [apply (I1 x) in Hx; lia | apply (I2 x) in Hx; lia].
Qed.

Lemma pk_sobj_spec n st s s' st' : memo_ok n st -> pk_sobj st s = (s', st') ->
  memo_ok n st' /\ snd st <= snd st' /\ forall x, In x (sobj_locs s') -> n <= x < snd st'.
Proof.
  intro K. unfold pk_sobj. destruct (pk_cell st (s_own s)) as [c st1] eqn:E1.
  destruct (pk_cells st1 (s_holes s)) as [hs st2] eqn:E2. intro H; inversion H; subst.
  destruct (pk_cell_spec _ _ _ _ _ K E1) as (K1 & L1 & I1).
  destruct (pk_cells_spec _ _ _ _ _ K1 E2) as (K2 & L2 & I2). split; [exact K2|]. split; [lia|].
  intros x H0. unfold sobj_locs in H0. cbn [s_own s_holes] in H0. apply in_app_iff in H0 as [Hx|Hx];
    [apply (I1 x) in Hx; lia | apply (I2 x) in Hx; lia].
Qed.

Lemma pk_sobjs_spec n l : forall st r st', memo_ok n st -> pk_sobjs st l = (r, st') ->
  memo_ok n st' /\ snd st <= snd st' /\ forall x, In x (flat_map sobj_locs r) -> n <= x < snd st'.
Proof.
  induction l as [|s l IH]; intros st r st' K H; cbn in H.
  - inversion H; subst. split; [exact K|]. split; [lia | intros x []].
  - destruct (pk_sobj st s) as [s' st1] eqn:E1. destruct (pk_sobjs st1 l) as [t st2] eqn:E2.
    inversion H; subst. destruct (pk_sobj_spec _ _ _ _ _ K E1) as (K1 & L1 & I1).
    destruct (IH _ _ _ K1 E2) as (K2 & L2 & I2). split; [exact K2|]. split; [lia|]. intros x H0.
    cbn [flat_map] in H0. apply in_app_iff in H0 as [Hx|Hx]; [apply (I1 x) in Hx; lia | apply (I2 x) in Hx; lia].
Qed.

Theorem pickle_fresh n o : below n (all_locs o) ->
  let o' := fst (pickle_obj n o) in
  atleast n (all_locs o') /\ (forall l, In l (all_locs o') -> ~ In l (all_locs o)).
Proof.
  intro B. cbn zeta.
  assert (K0 : memo_ok n ([], n)) by (split; [cbn; lia | intros ? ? []]).
  assert (A : atleast n (all_locs (fst (pickle_obj n o)))).
  { destruct o as [s|m]; unfold pickle_obj.
    - destruct (pk_sobj ([], n) s) as [s' st] eqn:E. cbn [fst all_locs].
      intros l Hl. apply (pk_sobj_spec _ _ _ _ _ K0 E) in Hl. lia.
    - destruct (pk_cell ([], n) (m_own m)) as [c st1] eqn:E1.
      destruct (pk_sobjs st1 (m_members m)) as [ms st2] eqn:E2. cbn [fst all_locs m_own m_members].
      destruct (pk_cell_spec _ _ _ _ _ K0 E1) as (K1 & L1 & I1).
      destruct (pk_sobjs_spec _ _ _ _ _ K1 E2) as (K2 & L2 & I2).
      intros l Hl. apply in_app_iff in Hl as [Hl|Hl]; [apply (I1 l) in Hl | apply (I2 l) in Hl]; lia. }
  split; [exact A|]. intros l Hl Hin. apply A in Hl. apply B in Hin. lia.
Qed.

(* writing into a cell that the original does not reach is not seen through the original *)
Lemma view_upd_other V (h : store V) o l v : ~ In l (all_locs o) -> view V (upd V h l v) o = view V h o.
Proof.
  intro N. unfold view. apply map_ext_in. intros x Hx. unfold upd.
  destruct (x =? l) eqn:E; [|reflexivity]. apply Z.eqb_eq in E. subst. contradiction.
Qed.

Theorem copy_isolated V (h : store V) n o l v : below n (all_locs o) ->
  In l (own_locs (fst (copy_obj n o))) -> view V (upd V h l v) o = view V h o.
Proof. intros B H. apply view_upd_other. now apply (copy_fresh n o B). Qed.

Theorem pickle_isolated V (h : store V) n o l v : below n (all_locs o) ->
  In l (all_locs (fst (pickle_obj n o))) -> view V (upd V h l v) o = view V h o.
Proof. intros B H. apply view_upd_other. now apply (pickle_fresh n o B). Qed.
