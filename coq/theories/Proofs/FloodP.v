(* Proofs about the flood fill / union / group-by model (FloodM.v).
   Everything is for arbitrary cells with a correct equality test, an arbitrary neighbour
   function, an arbitrary per-cell test and an arbitrary order of [queue.pop()]. *)
From GV Require Import Prelude FloodM.
Open Scope nat_scope.

Section FloodP.
  Variable cell : Type.
  Variable ceqb : cell -> cell -> bool.
  Hypothesis ceqb_spec : forall a b, ceqb a b = true <-> a = b.
  Variable nbr : cell -> list cell.
  Variable touch : cell -> bool.
  Variable pop : list cell -> option (cell * list cell).
  (* what set.pop() guarantees: None only on the empty set; otherwise an element and the rest *)
  Hypothesis pop_none : forall q, pop q = None -> q = [].
  Hypothesis pop_some : forall q x q', pop q = Some (x, q') ->
    In x q /\ (forall y, In y q -> y = x \/ In y q') /\ (forall y, In y q' -> In y q) /\
    length q' < length q.

  Notation cmem := (cmem cell ceqb).
  Notation cadd := (cadd cell ceqb).
  Notation scan := (scan cell ceqb touch).
  Notation flood_loop := (flood_loop cell ceqb nbr touch pop).
  Notation flood := (flood cell ceqb nbr touch pop).

  Lemma cmem_In x l : cmem x l = true <-> In x l.
  Proof.
    unfold FloodM.cmem. rewrite existsb_exists. split.
    - intros (y & Hy & E). apply ceqb_spec in E. now subst.
    - intro H. exists x. split; [exact H|now apply ceqb_spec].
  Qed.

  Lemma cmem_false x l : cmem x l = false <-> ~ In x l.
  Proof. rewrite <- cmem_In. destruct (cmem x l); split; congruence. Qed.

  Lemma cadd_In x y l : In y (cadd x l) <-> y = x \/ In y l.
  Proof.
    unfold FloodM.cadd. destruct (cmem x l) eqn:E.
    - apply cmem_In in E. split; [now right|]. intros [->|H]; assumption.
    - rewrite in_app_iff. cbn. intuition.
  Qed.

  Lemma cadd_length x l : length (cadd x l) <= S (length l).
  Proof. unfold FloodM.cadd. destruct (cmem x l); [lia|]. rewrite app_length. cbn. lia. Qed.

  Lemma cadd_NoDup x l : NoDup l -> NoDup (cadd x l).
  Proof.
    intro N. unfold FloodM.cadd. destruct (cmem x l) eqn:E; [exact N|].
    apply cmem_false in E. apply NoDup_app_remove_l with (l := []). cbn.
    clear -N E. induction l as [|a l IH]; cbn; [constructor; [intros []|constructor]|].
    inversion N; subst. constructor.
    - rewrite in_app_iff. cbn. intros [H|[H|[]]]; [contradiction|]. apply E. now left.
    - apply IH; [assumption|]. intro H. apply E. now right.
  Qed.

  Lemma In_dec_cell x l : In x l \/ ~ In x l.
  Proof. destruct (cmem x l) eqn:E; [left; now apply cmem_In|right; now apply cmem_false]. Qed.

  (* ---------------------------------------------------------------- one scan of the neighbours *)
  Lemma scan_spec ns : forall v c q v' c' q',
    scan ns (v, c, q) = (v', c', q') ->
    (forall x, In x v' <-> In x v \/ (In x ns /\ ~ In x c /\ touch x = true)) /\
    (forall x, In x c' <-> In x c \/ In x ns) /\
    (forall x, In x q' <-> In x q \/ (In x ns /\ ~ In x c /\ touch x = true)).
  Proof.
    induction ns as [|n ns IH]; intros v c q v' c' q' H; cbn in H.
    - injection H as <- <- <-. repeat split; intros; cbn; tauto.
    - destruct (cmem n c) eqn:E.
      + apply cmem_In in E. destruct (IH _ _ _ _ _ _ H) as (A & B & C).
        repeat split; intros.
        * rewrite A in H0. cbn. tauto.
        * rewrite A. cbn in H0. destruct H0 as [?|([<-|?] & ? & ?)]; tauto.
        * rewrite B in H0. cbn. tauto.
        * rewrite B. cbn in H0. destruct H0 as [?|[<-|?]]; tauto.
        * rewrite C in H0. cbn. tauto.
        * rewrite C. cbn in H0. destruct H0 as [?|([<-|?] & ? & ?)]; tauto.
      + apply cmem_false in E. destruct (touch n) eqn:T.
        * destruct (IH _ _ _ _ _ _ H) as (A & B & C).
          repeat split; intros.
          -- rewrite A, cadd_In in H0. cbn in *. destruct H0 as [[->|?]|(? & ? & ?)]; tauto.
          -- rewrite A, cadd_In. cbn in *. destruct H0 as [?|([<-|?] & ? & ?)]; try tauto.
             destruct (ceqb x n) eqn:X; [apply ceqb_spec in X; tauto|].
             right. repeat split; try tauto. intros [<-|?]; [|tauto].
             rewrite (proj2 (ceqb_spec n n) eq_refl) in X. discriminate.
          -- rewrite B in H0. cbn in *. tauto.
          -- rewrite B. cbn in *. destruct H0 as [?|[<-|?]]; tauto.
          -- rewrite C, cadd_In in H0. cbn in *. destruct H0 as [[->|?]|(? & ? & ?)]; tauto.
          -- rewrite C, cadd_In. cbn in *. destruct H0 as [?|([<-|?] & ? & ?)]; try tauto.
             destruct (ceqb x n) eqn:X; [apply ceqb_spec in X; tauto|].
             right. repeat split; try tauto. intros [<-|?]; [|tauto].
             rewrite (proj2 (ceqb_spec n n) eq_refl) in X. discriminate.
        * destruct (IH _ _ _ _ _ _ H) as (A & B & C).
          repeat split; intros.
          -- rewrite A in H0. cbn in *. tauto.
          -- rewrite A. cbn in *. destruct H0 as [?|([<-|?] & ? & ?)]; try tauto; try congruence.
             right. repeat split; try tauto. intros [<-|?]; [congruence|tauto].
          -- rewrite B in H0. cbn in *. tauto.
          -- rewrite B. cbn in *. destruct H0 as [?|[<-|?]]; tauto.
          -- rewrite C in H0. cbn in *. tauto.
          -- rewrite C. cbn in *. destruct H0 as [?|([<-|?] & ? & ?)]; try tauto; try congruence.
             right. repeat split; try tauto. intros [<-|?]; [congruence|tauto].
  Qed.
End FloodP.
