(* Proofs about the flood fill / union / group-by model (FloodM.v).
   Everything is for arbitrary cells with a correct equality test, an arbitrary neighbour
   function, an arbitrary per-cell test and an arbitrary order of [queue.pop()]. *)
From GV Require Import Prelude FloodM.
Open Scope nat_scope.

Section FloodP.
  Variable cell : Type.
  Variable ceqb : cell -> cell -> bool.
  Hypothesis ceqb_spec : forall a b, ceqb a b = true <-> a = b.
  Variable nbr : cell -> list cell.
  Variable touch : cell -> bool.
  Variable pop : list cell -> option (cell * list cell).
  (* what set.pop() guarantees: None only on the empty set; otherwise an element and the rest *)
  Hypothesis pop_none : forall q, pop q = None -> q = [].
  Hypothesis pop_some : forall q x q', pop q = Some (x, q') ->
    In x q /\ (forall y, In y q -> y = x \/ In y q') /\ (forall y, In y q' -> In y q) /\
    length q' < length q.

  Notation cmem := (cmem cell ceqb).
  Notation cadd := (cadd cell ceqb).
  Notation scan := (scan cell ceqb touch).
  Notation flood_loop := (flood_loop cell ceqb nbr touch pop).
  Notation flood := (flood cell ceqb nbr touch pop).

  Lemma cmem_In x l : cmem x l = true <-> In x l.
  Proof.
    unfold FloodM.cmem. rewrite existsb_exists. split.
    - intros (y & Hy & E). apply ceqb_spec in E. now subst.
    - intro H. exists x. split; [exact H|now apply ceqb_spec].
  Qed.

  Lemma cmem_false x l : cmem x l = false <-> ~ In x l.
  Proof. rewrite <- cmem_In. destruct (cmem x l); split; congruence. Qed.

  Lemma cadd_In x y l : In y (cadd x l) <-> x = y \/ In y l.
  Proof.
    unfold FloodM.cadd. destruct (cmem x l) eqn:E.
    - apply cmem_In in E. split; [now right|]. intros [<-|H]; assumption.
    - rewrite in_app_iff. cbn. tauto.
  Qed.

  Lemma cell_eq_dec (a b : cell) : a = b \/ a <> b.
  Proof.
    destruct (ceqb a b) eqn:X; [left; now apply ceqb_spec|].
    right. intros ->. rewrite (proj2 (ceqb_spec b b) eq_refl) in X. discriminate.
  Qed.

  Lemma cadd_length x l : length (cadd x l) <= S (length l).
  Proof. unfold FloodM.cadd. destruct (cmem x l); [lia|]. rewrite app_length. cbn. lia. Qed.

  Lemma cadd_NoDup x l : NoDup l -> NoDup (cadd x l).
  Proof.
    intro N. unfold FloodM.cadd. destruct (cmem x l) eqn:E; [exact N|].
    apply cmem_false in E.
    clear -N E. induction l as [|a l IH]; cbn; [constructor; [intros []|constructor]|].
    inversion N; subst. constructor.
    - rewrite in_app_iff. cbn. intros [H|[H|[]]]; [contradiction|]. apply E. now left.
    - apply IH; [assumption|]. intro H. apply E. now right.
  Qed.

  Lemma In_dec_cell (x : cell) (l : list cell) : In x l \/ ~ In x l.
  Proof. destruct (cmem x l) eqn:E; [left; now apply cmem_In|right; now apply cmem_false]. Qed.

  (* ---------------------------------------------------------------- one scan of the neighbours *)
  Lemma scan_spec ns : forall v c q v' c' q',
    scan ns (v, c, q) = (v', c', q') ->
    (forall x, In x v' <-> In x v \/ (In x ns /\ ~ In x c /\ touch x = true)) /\
    (forall x, In x c' <-> In x c \/ In x ns) /\
    (forall x, In x q' <-> In x q \/ (In x ns /\ ~ In x c /\ touch x = true)).
  Proof.
    induction ns as [|n ns IH]; intros v c q v' c' q' H; cbn in H.
    - injection H as <- <- <-. (split; [|split]); intro x; cbn [In]; tauto.
    - destruct (cmem n c) eqn:E; [apply cmem_In in E|apply cmem_false in E; destruct (touch n) eqn:T];
        destruct (IH _ _ _ _ _ _ H) as (A & B & C); clear IH H;
        (split; [|split]); intro x; rewrite ?A, ?B, ?C, ?cadd_In; cbn [In];
        pose proof (cell_eq_dec n x) as D;
        intuition (subst; try congruence; try tauto).
  Qed.

  (* ---------------------------------------------------------------- the loop *)
  (* cells reachable from the start cell through touching cells, along [nbr] *)
  Inductive reach (start : cell) : cell -> Prop :=
  | reach_start : reach start start
  | reach_step c n : reach start c -> In n (nbr c) -> touch n = true -> reach start n.

  Definition inv (start : cell) (st : fstate cell) : Prop :=
    let '(v, c, q) := st in
    (forall x, In x v -> reach start x) /\
    (forall x, In x q -> In x v) /\
    (forall x, In x v -> In x q \/ forall n, In n (nbr x) -> In n c) /\
    (forall n, In n c -> touch n = true -> In n v) /\
    In start v /\ NoDup v.

  Lemma inv_init start : inv start ([start], [], [start]).
  Proof.
    cbn. repeat split.
    - intros x [<-|[]]. constructor.
    - tauto.
    - intros x [<-|[]]. left. now left.
    - intros n [].
    - now left.
    - constructor; [intros []|constructor].
  Qed.

  Lemma scan_NoDup ns : forall v c q v' c' q',
    scan ns (v, c, q) = (v', c', q') -> NoDup v -> NoDup v'.
  Proof.
    induction ns as [|n ns IH]; intros v c q v' c' q' H N; cbn in H.
    - now injection H as <- <- <-.
    - destruct (cmem n c); [eapply IH; eauto|]. destruct (touch n); [|eapply IH; eauto].
      eapply IH; [exact H|]. now apply cadd_NoDup.
  Qed.

  Lemma inv_step start v c q gh q0 v' c' q' :
    inv start (v, c, q) -> pop q = Some (gh, q0) ->
    scan (nbr gh) (v, c, q0) = (v', c', q') -> inv start (v', c', q').
  Proof.
    intros (J1 & J2 & J3 & J4 & J5 & J6) P S.
    destruct (pop_some _ _ _ P) as (P1 & P2 & P3 & _).
    destruct (scan_spec _ _ _ _ _ _ _ S) as (A & B & C).
    assert (Rg : reach start gh) by (apply J1, J2, P1).
    cbn. repeat split.
    - intros x Hx. apply A in Hx. destruct Hx as [Hx|(Hn & _ & Ht)]; [now apply J1|].
      eapply reach_step; eauto.
    - intros x Hx. apply C in Hx. apply A. destruct Hx as [Hx|Hx]; [left; apply J2, P3, Hx|now right].
    - intros x Hx. apply A in Hx. destruct Hx as [Hx|Hx].
      + destruct (J3 x Hx) as [Hq|Hn].
        * destruct (P2 x Hq) as [->|Hq0].
          -- right. intros n Hn. apply B. now right.
          -- left. apply C. now left.
        * right. intros n Hn'. apply B. left. now apply Hn.
      + left. apply C. now right.
    - intros n Hn Ht. apply A. apply B in Hn. destruct (In_dec_cell n c) as [Hc|Hc].
      + left. now apply J4.
      + destruct Hn as [Hn|Hn]; [contradiction|]. right. tauto.
    - apply A. now left.
    - eapply scan_NoDup; eauto.
  Qed.

  Lemma flood_loop_inv start fuel : forall st r,
    inv start st -> flood_loop fuel st = Some r ->
    (forall x, In x r <-> reach start x) /\ NoDup r.
  Proof.
    induction fuel as [|f IH]; intros [[v c] q] r I H; cbn in H; [discriminate|].
    destruct (pop q) as [[gh q0]|] eqn:P.
    - destruct (scan (nbr gh) (v, c, q0)) as [[v' c'] q'] eqn:S.
      eapply IH; [|exact H]. eapply inv_step; eauto.
    - injection H as <-. apply pop_none in P. subst q.
      destruct I as (J1 & J2 & J3 & J4 & J5 & J6). split; [|exact J6].
      intro x. split; [apply J1|]. intro R. induction R as [|c0 n R IHR Hn Ht]; [exact J5|].
      destruct (J3 c0 IHR) as [[]|Hc]. apply J4; [now apply Hc|exact Ht].
  Qed.

  (* the result is EXACTLY the set of cells reachable from the start through touching cells,
     whatever order the queue is popped in; it has no repeated cell *)
  Theorem flood_result start fuel r :
    flood start fuel = Some r -> (forall x, In x r <-> reach start x) /\ NoDup r.
  Proof. apply flood_loop_inv, inv_init. Qed.

  Theorem flood_sound start fuel r c :
    flood start fuel = Some r -> In c r -> c = start \/ touch c = true.
  Proof.
    intros H Hc. apply (flood_result _ _ _ H) in Hc. destruct Hc; [now left|now right].
  Qed.

  (* ---------------------------------------------------------------- termination / fuel *)
  Definition remaining (U c : list cell) : nat := length (filter (fun u => negb (cmem u c)) U).

  Lemma filter_length_le {A} (f g : A -> bool) l :
    (forall x, g x = true -> f x = true) -> length (filter g l) <= length (filter f l).
  Proof.
    intro H. induction l as [|a l IH]; cbn; [lia|].
    destruct (g a) eqn:G; [rewrite (H _ G); cbn; lia|]. destruct (f a); cbn; lia.
  Qed.

  Lemma filter_length_lt {A} (f g : A -> bool) l n :
    (forall x, g x = true -> f x = true) -> In n l -> f n = true -> g n = false ->
    length (filter g l) < length (filter f l).
  Proof.
    intros H Hn Fn Gn. induction l as [|a l IH]; [destruct Hn|]. cbn.
    destruct Hn as [->|Hn].
    - rewrite Fn, Gn. cbn. pose proof (filter_length_le f g l H). lia.
    - specialize (IH Hn). destruct (g a) eqn:G; [rewrite (H _ G); cbn; lia|]. destruct (f a); cbn; lia.
  Qed.

  Lemma remaining_cons U c n : In n U -> ~ In n c -> remaining U (n :: c) < remaining U c.
  Proof.
    intros Hn Hc. unfold remaining. apply filter_length_lt with (n := n); auto.
    - intros x. unfold FloodM.cmem. cbn. destruct (ceqb x n); cbn; [discriminate|tauto].
    - apply cmem_false in Hc. now rewrite Hc.
    - unfold FloodM.cmem. cbn. now rewrite (proj2 (ceqb_spec n n) eq_refl).
  Qed.

  Lemma scan_measure U ns : forall v c q v' c' q',
    (forall n, In n ns -> In n U) ->
    scan ns (v, c, q) = (v', c', q') ->
    remaining U c' + length q' <= remaining U c + length q.
  Proof.
    induction ns as [|n ns IH]; intros v c q v' c' q' HU H; cbn in H.
    - injection H as <- <- <-. lia.
    - assert (HU' : forall m, In m ns -> In m U) by (intros; apply HU; now right).
      destruct (cmem n c) eqn:E; [eapply IH; eauto|]. apply cmem_false in E.
      pose proof (remaining_cons U c n (HU n (or_introl eq_refl)) E) as R.
      destruct (touch n).
      + specialize (IH _ _ _ _ _ _ HU' H). pose proof (cadd_length n q). lia.
      + specialize (IH _ _ _ _ _ _ HU' H). lia.
  Qed.

  Lemma flood_loop_fuel U :
    (forall c, In c U -> forall n, In n (nbr c) -> In n U) ->
    forall fuel v c q,
      (forall x, In x q -> In x U) ->
      remaining U c + length q < fuel ->
      exists r, flood_loop fuel (v, c, q) = Some r.
  Proof.
    intros HU. induction fuel as [|f IH]; intros v c q Hq M; [lia|]. cbn.
    destruct (pop q) as [[gh q0]|] eqn:P; [|eauto].
    destruct (pop_some _ _ _ P) as (P1 & P2 & P3 & P4).
    destruct (scan (nbr gh) (v, c, q0)) as [[v' c'] q'] eqn:S.
    assert (Hn : forall n, In n (nbr gh) -> In n U) by (apply HU, Hq, P1).
    pose proof (scan_measure U _ _ _ _ _ _ _ Hn S) as SM.
    apply IH; [|lia].
    intros x Hx. destruct (scan_spec _ _ _ _ _ _ _ S) as (_ & _ & C). apply C in Hx.
    destruct Hx as [Hx|(Hx & _)]; [apply Hq, P3, Hx|now apply Hn].
  Qed.

  (* with fuel above the size of any finite universe of cells that contains the start cell and is
     closed under [nbr], the loop terminates and returns every reachable cell *)
  Theorem flood_complete U start fuel :
    In start U -> (forall c, In c U -> forall n, In n (nbr c) -> In n U) ->
    length U + 2 <= fuel ->
    exists r, flood start fuel = Some r /\ forall c, reach start c -> In c r.
  Proof.
    intros HS HU F.
    destruct (flood_loop_fuel U HU fuel [start] [] [start]) as [r Hr].
    - intros x [<-|[]]. exact HS.
    - unfold remaining. cbn [length]. pose proof (filter_length_le (fun _ => true) (fun u => negb (cmem u [])) U (fun _ _ => eq_refl)) as L.
      assert (E : length (filter (fun _ : cell => true) U) = length U).
      { clear. induction U as [|a l IH]; cbn; [reflexivity|now rewrite IH]. }
      lia.
    - exists r. split; [exact Hr|]. intros c Hc. now apply (flood_result _ _ _ Hr).
  Qed.

  (* PARTIAL: "exactly the cells the shape touches" holds under the hypothesis that the touched
     cells are connected to the start cell along [nbr] (for a connected planar shape and the
     8-neighbourhood this is a geometric fact that is NOT proved here) and that the start cell
     is itself touched (it is added untested) *)
  Theorem hash_exact_partial start fuel r :
    (forall c, touch c = true -> reach start c) -> touch start = true ->
    flood start fuel = Some r -> forall c, In c r <-> touch c = true.
  Proof.
    intros HC HS H c. rewrite (proj1 (flood_result _ _ _ H) c). split; [|apply HC].
    intros []; assumption.
  Qed.

  (* ---------------------------------------------------------------- union of members *)
  Notation cunion := (cunion cell ceqb).
  Notation hash_multi := (hash_multi cell ceqb).

  Lemma cunion_In a b x : In x (cunion a b) <-> In x a \/ In x b.
  Proof.
    unfold FloodM.cunion. revert a. induction b as [|y b IH]; intro a; cbn; [tauto|].
    rewrite IH, cadd_In. tauto.
  Qed.

  Lemma cunion_NoDup a b : NoDup a -> NoDup (cunion a b).
  Proof.
    unfold FloodM.cunion. revert a. induction b as [|y b IH]; intros a N; cbn; [exact N|].
    apply IH. now apply cadd_NoDup.
  Qed.

  Theorem hash_multi_union hs x :
    In x (hash_multi hs) <-> exists h, In h hs /\ In x h.
  Proof.
    unfold FloodM.hash_multi.
    assert (G : forall acc, In x (fold_left cunion hs acc) <-> In x acc \/ exists h, In h hs /\ In x h).
    { induction hs as [|h hs IH]; intro acc; cbn.
      - split; [tauto|]. intros [H|(h & [] & _)]. exact H.
      - rewrite IH, cunion_In. split.
        + intros [[H|H]|(h' & H1 & H2)]; eauto.
        + intros [H|(h' & [<-|H1] & H2)]; eauto. }
    rewrite G. cbn. split; [intros [[]|H]; exact H|now right].
  Qed.

  Theorem hash_multi_NoDup hs : NoDup (hash_multi hs).
  Proof.
    unfold FloodM.hash_multi.
    assert (G : forall acc, NoDup acc -> NoDup (fold_left cunion hs acc)).
    { induction hs as [|h hs IH]; intros acc N; cbn; [exact N|]. apply IH. now apply cunion_NoDup. }
    apply G. constructor.
  Qed.
End FloodP.
