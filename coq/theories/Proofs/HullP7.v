(* C10 x C01: the polygon built from the monotone-chain hull is the geometric open convex hull
   under the library's own point-in-polygon test.

   General part (GeomM terms): a ring without repeated vertex whose vertices are all weakly
   left of all its edges and whose successive edges all turn strictly left is in strictly
   convex position ([weak_turns_strict], [closed_ring_ccw3] for the closed-list form HullP uses);
   a point weakly left of every edge of such a ring is on it or strictly inside
   ([convex_closed_cases]).
   Hull part: instantiated with HullP's hull_meets_spec (closed, NoDup, strict turns all the way
   round, every input weakly left of every edge): for inputs that are not all collinear the open
   ring of [hull l] satisfies GeomP7.ccw3, hence by GeomP7.convex_strict_in and
   GeomP2.pip_true_iff the membership test of GeoPolygon(hull) is "strictly left of every hull
   edge" for EVERY query point, and every input is strictly inside or on the outline.
   [hull l] is the closed list the constructor receives unchanged (HullP5.hull_of_members_spec);
   GeomM.pip works on that list directly. *)
From Coq Require Import Permutation.
From GV Require Import Prelude HullM HullP HullP2 HullP3 HullP4 HullP5 HullP6.
From GV Require Import GeomM GeomP GeomP2 GeomP3 GeomP4 GeomP6 GeomP7.
Open Scope Z_scope.

(* ================================================================== general part (GeomM terms) *)

Definition weakly_convex (o : list pt) : Prop :=
  forall e v, In e (cyc_edges o) -> In v o -> 0 <= cross (fst e) (snd e) v.

(* every two successive cyclic edges make a strict left turn *)
Definition turns_left (o : list pt) : Prop :=
  forall a b c, In (a, b) (cyc_edges o) -> In (b, c) (cyc_edges o) -> 0 < cross a b c.

Lemma combine_has_succ (l : list pt) : forall (s : list pt) a, length l = length s -> In a l ->
  exists b, In (a, b) (combine l s).
Proof.
  induction l as [|x l IH]; intros s a Hlen Ha; [destruct Ha|].
  destruct s as [|y s]; [discriminate|]. destruct Ha as [->|Ha].
  - exists y. left. reflexivity.
  - destruct (IH s a ltac:(cbn in Hlen; lia) Ha) as (b & Hb). exists b. right. exact Hb.
Qed.

Lemma combine_has_pred (l : list pt) : forall (s : list pt) b, length l = length s -> In b s ->
  exists a, In (a, b) (combine l s).
Proof.
  induction l as [|x l IH]; intros s b Hlen Hb.
  - destruct s; [destruct Hb|discriminate].
  - destruct s as [|y s]; [destruct Hb|]. destruct Hb as [->|Hb].
    + exists x. left. reflexivity.
    + destruct (IH s b ltac:(cbn in Hlen; lia) Hb) as (a & Ha). exists a. right. exact Ha.
Qed.

Lemma cyc_has_succ o v : In v o -> exists w, In (v, w) (cyc_edges o).
Proof.
  destruct o as [|v0 tl]; [intros []|]. intros Hv. cbn [cyc_edges].
  apply combine_has_succ; [rewrite app_length; cbn; lia|exact Hv].
Qed.

Lemma cyc_has_pred o v : In v o -> exists u, In (u, v) (cyc_edges o).
Proof.
  destruct o as [|v0 tl]; [intros []|]. intros Hv. cbn [cyc_edges].
  apply combine_has_pred; [rewrite app_length; cbn; lia|].
  apply in_or_app. destruct Hv as [->|Hv]; [right; left; reflexivity|left; exact Hv].
Qed.

(* v strictly inside the edge (x,y) cannot be a vertex with a strict turn, if x and y are
   weakly left of both edges at v *)
Lemma affine_on_line_x a b x y v :
  cross a b v * (px y - px x) =
  cross a b x * (px y - px v) + cross a b y * (px v - px x) + (px b - px a) * cross x y v.
Proof. unfold cross. ring. Qed.
Lemma affine_on_line_y a b x y v :
  cross a b v * (py y - py x) =
  cross a b x * (py y - py v) + cross a b y * (py v - py x) + (py b - py a) * cross x y v.
Proof. unfold cross. ring. Qed.

Lemma zero_at_ends fv fx fy X Y V : fv = 0 -> 0 <= fx -> 0 <= fy ->
  fv * (Y - X) = fx * (Y - V) + fy * (V - X) ->
  (X < V < Y \/ Y < V < X) -> fx = 0 /\ fy = 0.
Proof.
  intros -> Hx Hy E [H|H].
  - assert (0 <= fx * (Y - V)) by (apply Z.mul_nonneg_nonneg; lia).
    assert (0 <= fy * (V - X)) by (apply Z.mul_nonneg_nonneg; lia).
    assert (E1 : fx * (Y - V) = 0) by lia. assert (E2 : fy * (V - X) = 0) by lia.
    apply Z.mul_eq_0 in E1, E2. lia.
  - assert (fx * (Y - V) <= 0) by (apply Z.mul_nonneg_nonpos; lia).
    assert (fy * (V - X) <= 0) by (apply Z.mul_nonneg_nonpos; lia).
    assert (E1 : fx * (Y - V) = 0) by lia. assert (E2 : fy * (V - X) = 0) by lia.
    apply Z.mul_eq_0 in E1, E2. lia.
Qed.

Lemma strictly_between x y v : on_seg v x y -> v <> x -> v <> y ->
  (px x < px v < px y \/ px y < px v < px x) \/ (py x < py v < py y \/ py y < py v < py x).
Proof.
  destruct x as [x1 x2], y as [y1 y2], v as [v1 v2]. unfold on_seg, cross. cbn [px py fst snd].
  intros (Hc & Hx & Hy) Nx Ny.
  assert (Nx' : v1 <> x1 \/ v2 <> x2) by (destruct (Z.eq_dec v1 x1), (Z.eq_dec v2 x2); try lia; subst; congruence).
  assert (Ny' : v1 <> y1 \/ v2 <> y2) by (destruct (Z.eq_dec v1 y1), (Z.eq_dec v2 y2); try lia; subst; congruence).
  destruct (Z.eq_dec v1 x1) as [E1|]; destruct (Z.eq_dec v1 y1) as [E2|];
  destruct (Z.eq_dec v2 x2) as [E3|]; destruct (Z.eq_dec v2 y2) as [E4|]; try lia; subst; try nia.
Qed.

Lemma line_zero_at_ends a b x y v : on_seg v x y -> v <> x -> v <> y ->
  cross a b v = 0 -> 0 <= cross a b x -> 0 <= cross a b y -> cross a b x = 0 /\ cross a b y = 0.
Proof.
  intros Hs Nx Ny Hv Hx Hy. pose proof Hs as (Hc & _).
  destruct (strictly_between x y v Hs Nx Ny) as [H|H].
  - apply (zero_at_ends (cross a b v) _ _ (px x) (px y) (px v)); try assumption.
    rewrite affine_on_line_x, Hc. ring.
  - apply (zero_at_ends (cross a b v) _ _ (py x) (py y) (py v)); try assumption.
    rewrite affine_on_line_y, Hc. ring.
Qed.

Lemma no_vertex_inside_edge x y v u v' : on_seg v x y -> v <> x -> v <> y ->
  0 <= cross v v' x -> 0 <= cross v v' y -> 0 <= cross u v x -> 0 <= cross u v y ->
  0 < cross u v v' -> False.
Proof.
  intros Hs Nx Ny A1 A2 B1 B2 HT.
  destruct (line_zero_at_ends v v' x y v Hs Nx Ny (cross_aba v v') A1 A2) as [E1 _].
  destruct (line_zero_at_ends u v x y v Hs Nx Ny (cross_abb u v) B1 B2) as [E2 _].
  (* x - v is parallel to v' - v and to v - u, and is not zero *)
  assert (I1 : (px x - px v) * cross u v v' = (px v' - px v) * cross u v x - (px v - px u) * cross v v' x)
    by (unfold cross; ring).
  assert (I2 : (py x - py v) * cross u v v' = (py v' - py v) * cross u v x - (py v - py u) * cross v v' x)
    by (unfold cross; ring).
  rewrite E1, E2 in I1, I2.
  assert (px x <> px v \/ py x <> py v).
  { destruct x, v. cbn [px py fst snd]. destruct (Z.eq_dec z z1), (Z.eq_dec z0 z2); try lia. subst. congruence. }
  nia.
Qed.

(* weak convexity + strict turns + no repeated vertex = strict convexity *)
Theorem weak_turns_strict o : NoDup o -> weakly_convex o -> turns_left o -> strictly_convex o.
Proof.
  intros Hnd HW HT. split; [exact Hnd|]. intros [x y] v He Hv Nx Ny. cbn [fst snd] in *.
  pose proof (HW _ v He Hv) as H0. cbn [fst snd] in H0.
  destruct (Z.eq_dec (cross x y v) 0) as [E0|]; [exfalso|lia].
  destruct (cyc_edges_in _ _ _ He) as [Hx Hy].
  destruct (cyc_has_succ o y Hy) as (y' & Hy'). destruct (cyc_has_pred o x Hx) as (x' & Hx').
  assert (Hs : on_seg v x y).
  { apply (on_seg_nbrs x y y' x' v); [exact E0|apply (HW (y, y') v Hy' Hv)|apply (HW (x', x) v Hx' Hv)
      |apply (HT x y y' He Hy')|rewrite (cross_cyc x' x y); apply (HT x' x y Hx' He)]. }
  destruct (cyc_has_succ o v Hv) as (v' & Hv'). destruct (cyc_has_pred o v Hv) as (u & Hu).
  apply (no_vertex_inside_edge x y v u v' Hs Nx Ny);
    [apply (HW (v, v') x Hv' Hx)|apply (HW (v, v') y Hv' Hy)|apply (HW (u, v) x Hu Hx)
    |apply (HW (u, v) y Hu Hy)|apply (HT u v v' Hu Hv')].
Qed.

(* ------------------------------------------------------------------ successor is a function *)

Lemma combine_functional (o : list pt) : forall (s : list pt) a b b', NoDup o ->
  In (a, b) (combine o s) -> In (a, b') (combine o s) -> b = b'.
Proof.
  induction o as [|x o IH]; intros s a b b' Hnd H1 H2; [destruct H1|].
  destruct s as [|y s]; [destruct H1|]. inversion Hnd as [|? ? Hx Hnd']; subst.
  destruct H1 as [H1|H1]; destruct H2 as [H2|H2].
  - congruence.
  - injection H1 as <- <-. apply in_combine_l in H2. contradiction.
  - injection H2 as <- <-. apply in_combine_l in H1. contradiction.
  - apply (IH s a b b' Hnd' H1 H2).
Qed.

Lemma cyc_functional o a b b' : NoDup o ->
  In (a, b) (cyc_edges o) -> In (a, b') (cyc_edges o) -> b = b'.
Proof. destruct o as [|v tl]; [intros _ []|]. cbn [cyc_edges]. apply combine_functional. Qed.

(* strictly convex position gives strict turns all the way round *)
Lemma ccw3_turns_left o : (3 <= length o)%nat -> ccw3 o -> turns_left o.
Proof.
  intros Hlen Hc a b c Hab Hbc.
  destruct (edge_rot o a b ltac:(lia) Hab) as (l1 & l2 & tl & Er & Erot).
  assert (Hc' : ccw3 (l2 ++ l1)) by (apply ccw3_app_comm; rewrite <- Er; exact Hc).
  assert (Hl' : length (l2 ++ l1) = length o) by (rewrite Er, !app_length; lia).
  assert (Hbc' : In (b, c) (cyc_edges (l2 ++ l1))).
  { eapply Permutation_in; [symmetry; apply (cyc_edges_app_comm l1 l2)|rewrite <- Er; exact Hbc]. }
  rewrite Erot in *. destruct tl as [|c0 t]; [cbn in Hl'; lia|].
  assert (Hnd : NoDup (a :: b :: c0 :: t)) by (apply ccw3_nodup; [cbn; lia|exact Hc']).
  assert (c = c0).
  { apply (cyc_functional (a :: b :: c0 :: t) b c c0 Hnd Hbc'). right. left. reflexivity. }
  subst c0. apply (ccw3_sub _ Hc' [] a [] b [] c t). reflexivity.
Qed.

(* a point weakly left of every edge of a strictly convex ring is on the ring or strictly inside *)
Theorem convex_closed_cases p o : (3 <= length o)%nat -> ccw3 o ->
  (forall e, In e (cyc_edges o) -> 0 <= cross (fst e) (snd e) p) ->
  on_boundary p o \/ left_of_all p o.
Proof.
  intros Hlen Hc HW. pose proof (ccw3_turns_left o Hlen Hc) as HT.
  destruct (existsb (fun e => cross (fst e) (snd e) p =? 0) (cyc_edges o)) eqn:Ex.
  - left. apply existsb_exists in Ex. destruct Ex as ([x y] & He & E0). cbn [fst snd] in E0.
    destruct (cyc_edges_in _ _ _ He) as [Hx Hy].
    destruct (cyc_has_succ o y Hy) as (y' & Hy'). destruct (cyc_has_pred o x Hx) as (x' & Hx').
    exists (x, y). split; [exact He|]. cbn [fst snd].
    apply (on_seg_nbrs x y y' x' p); [lia|apply (HW (y, y') Hy')|apply (HW (x', x) Hx')
      |apply (HT x y y' He Hy')|rewrite (cross_cyc x' x y); apply (HT x' x y Hx' He)].
  - right. intros e He. pose proof (HW e He).
    assert ((cross (fst e) (snd e) p =? 0) = false).
    { destruct (cross (fst e) (snd e) p =? 0) eqn:E; [|reflexivity].
      assert (existsb (fun e => cross (fst e) (snd e) p =? 0) (cyc_edges o) = true)
        by (apply existsb_exists; exists e; auto). congruence. }
    lia.
Qed.

(* ------------------------------------------------------------------ closed rings *)

(* the cyclic edges of the open ring are the consecutive pairs of the closed one *)
Lemma edges_of_closed o a b :
  In (a, b) (cyc_edges o) <-> exists l1 l2, reclose o = l1 ++ a :: b :: l2.
Proof.
  destruct o as [|v0 tl].
  { split; [intros []|]. intros (l1 & l2 & E). destruct l1; discriminate. }
  cbn [reclose]. split.
  - intros H. cbn [cyc_edges] in H.
    destruct (combine_cases tl v0 v0 a b H) as [(l1 & l2 & E)|(l1 & E & ->)]; rewrite E.
    + exists l1, (l2 ++ [v0]). rewrite <- app_assoc. reflexivity.
    + exists l1, []. rewrite <- app_assoc. reflexivity.
  - intros (l1 & l2 & E). destruct l2 as [|u l2 _] using rev_ind.
    + replace (l1 ++ [a; b]) with ((l1 ++ [a]) ++ [b]) in E by (rewrite <- app_assoc; reflexivity).
      apply app_inj_tail in E. destruct E as [E <-].
      cbn [cyc_edges]. pose proof (combine_last tl v0 v0) as H.
      replace (last (v0 :: tl) v0) with a in H; [exact H|]. rewrite E, last_last. reflexivity.
    + replace (l1 ++ a :: b :: l2 ++ [u]) with ((l1 ++ a :: b :: l2) ++ [u]) in E
        by (rewrite <- app_assoc; reflexivity).
      apply app_inj_tail in E. destruct E as [E _]. apply (cyc_edges_consec _ l1 a b l2 E).
Qed.

(* strict turns in the form HullP states them: consecutive triples of the closed ring
   continued by its second vertex *)
Definition closed_turns (c : list pt) : Prop :=
  forall l1 a b x l2, c ++ [nth 1 c (0, 0)] = l1 ++ a :: b :: x :: l2 -> 0 < cross a b x.

Lemma closed_turns_succ v0 v1 t a b : closed_turns (reclose (v0 :: v1 :: t)) ->
  In (a, b) (cyc_edges (v0 :: v1 :: t)) ->
  exists c, In (b, c) (cyc_edges (v0 :: v1 :: t)) /\ 0 < cross a b c.
Proof.
  intros HT H. set (o := v0 :: v1 :: t) in *.
  assert (EC : reclose o ++ [nth 1 (reclose o) (0, 0)] = o ++ [v0; v1])
    by (unfold o; cbn [reclose app nth]; rewrite <- app_assoc; reflexivity).
  unfold closed_turns in HT. rewrite EC in HT.
  assert (H' := H). unfold o in H'. cbn [cyc_edges] in H'.
  destruct (combine_cases (v1 :: t) v0 v0 a b H') as [(l1 & l2 & E)|(l1 & E & ->)]; fold o in E.
  - destruct l2 as [|c l2].
    + exists v0. split.
      * unfold o. cbn [cyc_edges]. pose proof (combine_last (v1 :: t) v0 v0) as HL.
        fold o in HL. replace (last o v0) with b in HL; [exact HL|].
        rewrite E. replace (l1 ++ [a; b]) with ((l1 ++ [a]) ++ [b]) by (rewrite <- app_assoc; reflexivity).
        rewrite last_last. reflexivity.
      * apply (HT l1 a b v0 [v1]). rewrite E, <- app_assoc. reflexivity.
    + exists c. split.
      * apply (cyc_edges_consec o (l1 ++ [a]) b c l2). rewrite E, <- app_assoc. reflexivity.
      * apply (HT l1 a b c (l2 ++ [v0; v1])). rewrite E, <- app_assoc. reflexivity.
  - exists v1. split.
    + unfold o. left. reflexivity.
    + apply (HT l1 a v0 v1 []). rewrite E, <- app_assoc. reflexivity.
Qed.

Lemma closed_turns_left o : (2 <= length o)%nat -> NoDup o -> closed_turns (reclose o) -> turns_left o.
Proof.
  intros Hlen Hnd HT a b c Hab Hbc.
  destruct o as [|v0 [|v1 t]]; [cbn in Hlen; lia|cbn in Hlen; lia|].
  destruct (closed_turns_succ v0 v1 t a b HT Hab) as (c0 & Hc0 & Hpos).
  rewrite (cyc_functional _ b c c0 Hnd Hbc Hc0). exact Hpos.
Qed.

(* THE LINK: a closed ring without repeated vertex, whose vertices are all weakly left of all
   its edges and whose consecutive triples (all the way round) turn strictly left, is in strictly
   convex position *)
Theorem closed_ring_ccw3 o : (2 <= length o)%nat -> NoDup o ->
  (forall v, In v o -> forall l1 a b l2, reclose o = l1 ++ a :: b :: l2 -> 0 <= cross a b v) ->
  closed_turns (reclose o) -> ccw3 o.
Proof.
  intros Hlen Hnd HW HT. apply strictly_convex_ccw3. apply weak_turns_strict; [exact Hnd| |].
  - intros [a b] v He Hv. cbn [fst snd]. apply edges_of_closed in He.
    destruct He as (l1 & l2 & E). apply (HW v Hv l1 a b l2 E).
  - apply closed_turns_left; assumption.
Qed.

(* ================================================================== the monotone-chain hull *)

(* HullM and GeomM each define the same cross product *)
Lemma hcross a b c : HullM.cross a b c = GeomM.cross a b c.
Proof. reflexivity. Qed.

Lemma removelast_reclose (o : list pt) : removelast (reclose o) = o.
Proof. destruct o as [|v t]; [reflexivity|]. cbn [reclose]. apply removelast_last. Qed.

(* the open ring of the hull of inputs that are not all collinear is in strictly convex position *)
Lemma hull_open_ring l : noncollinear l ->
  exists o, hull l = reclose o /\ (3 <= length o)%nat /\ ccw3 o /\ (forall v, In v o -> In v l).
Proof.
  intros Hnc. destruct (hull_meets_spec l Hnc) as (v0 & mid & E & Hnd & Hsub & _ & HT & HC).
  exists (v0 :: mid).
  assert (ER : hull l = reclose (v0 :: mid)) by (rewrite E; reflexivity).
  assert (Hin : forall v, In v (v0 :: mid) -> In v l).
  { intros v Hv. apply Hsub. rewrite ER. apply in_reclose. exact Hv. }
  assert (Hlen : (3 <= length (v0 :: mid))%nat).
  { destruct mid as [|v1 [|v2 mid]]; [| |cbn; lia]; exfalso; rewrite E in HT.
    - specialize (HT [] v0 v0 v0 [] eq_refl). rewrite hcross, cross_abb in HT. lia.
    - specialize (HT [] v0 v1 v0 [v1] eq_refl). rewrite hcross, cross_aba in HT. lia. }
  split; [exact ER|]. split; [exact Hlen|]. split; [|exact Hin].
  apply closed_ring_ccw3; [apply (Nat.le_trans 2 3); [lia|exact Hlen]|exact Hnd| |].
  - intros v Hv l1 a b l2 Eq. rewrite <- ER in Eq.
    pose proof (HC v (Hin v Hv) l1 a b l2 Eq) as H. rewrite hcross in H. lia.
  - intros l1 a b x l2 Eq. rewrite <- ER in Eq.
    pose proof (HT l1 a b x l2 Eq) as H. rewrite hcross in H. lia.
Qed.

Theorem hull_ccw3 l : noncollinear l ->
  ccw3 (removelast (hull l)) /\ hull l = reclose (removelast (hull l)) /\
  (3 <= length (removelast (hull l)))%nat.
Proof.
  intros Hnc. destruct (hull_open_ring l Hnc) as (o & ER & Hlen & Hc & _).
  rewrite ER, removelast_reclose. auto.
Qed.

(* the strict even-odd interior of the hull ring is the open convex hull: strictly left of every
   edge (consecutive pair of the closed ring) *)
Theorem hull_strict_in_spec l p : noncollinear l ->
  (strict_in p (hull l) <-> forall l1 a b l2, hull l = l1 ++ a :: b :: l2 -> 0 < cross a b p).
Proof.
  intros Hnc. destruct (hull_open_ring l Hnc) as (o & ER & Hlen & Hc & _). rewrite ER.
  rewrite strict_in_reclose, convex_strict_in; [|destruct o; [cbn in Hlen; lia|discriminate]|exact Hc].
  unfold left_of_all. split.
  - intros H l1 a b l2 E. apply (H (a, b)). apply edges_of_closed. exists l1, l2. exact E.
  - intros H [a b] He. apply edges_of_closed in He. destruct He as (l1 & l2 & E). apply (H l1 a b l2 E).
Qed.

Lemma hull_west_ok w l : (forall v, In v l -> w <= px v) -> west_ok w (hull l).
Proof. intros H v Hv. apply H. apply hull_subset. exact Hv. Qed.

(* GeoPolygon(convex_hull(...)).contains_coordinate's outline test, for ANY query point *)
Theorem hull_pip_spec w l p : noncollinear l -> (forall v, In v l -> w <= px v) -> w <= px p ->
  (pip w p (hull l) = true <-> forall l1 a b l2, hull l = l1 ++ a :: b :: l2 -> 0 < cross a b p).
Proof.
  intros Hnc Hw Hp. rewrite (pip_true_iff w p (hull l) (hull_west_ok w l Hw) Hp).
  apply hull_strict_in_spec. exact Hnc.
Qed.

Theorem hull_poly_contains_spec w l p : noncollinear l -> (forall v, In v l -> w <= px v) -> w <= px p ->
  (poly_contains w (hull l) [] p = true <->
   forall l1 a b l2, hull l = l1 ++ a :: b :: l2 -> 0 < cross a b p).
Proof.
  intros Hnc Hw Hp.
  rewrite (poly_contains_spec w (hull l) [] p (hull_west_ok w l Hw)); [|intros ? []|exact Hp].
  rewrite hull_strict_in_spec by exact Hnc. split; [tauto|]. intros H; split; [exact H|intros ? []].
Qed.

(* every input coordinate is strictly inside the hull polygon or on its outline - exactly one *)
Theorem hull_inputs_inside w l p : noncollinear l -> (forall v, In v l -> w <= px v) -> In p l ->
  (on_boundary p (hull l) /\ pip w p (hull l) = false) \/
  (~ on_boundary p (hull l) /\ pip w p (hull l) = true).
Proof.
  intros Hnc Hw Hp. pose proof (Hw p Hp) as Hpw.
  pose proof (hull_west_ok w l Hw) as W.
  destruct (hull_open_ring l Hnc) as (o & ER & Hlen & Hc & _).
  assert (HW : forall e, In e (cyc_edges o) -> 0 <= cross (fst e) (snd e) p).
  { intros [a b] He. apply edges_of_closed in He. destruct He as (l1 & l2 & E). rewrite <- ER in E.
    pose proof (hull_contains l p Hp l1 a b l2 E) as H. rewrite hcross in H. cbn [fst snd]. lia. }
  destruct (convex_closed_cases p o Hlen Hc HW) as [Hb|Hl].
  - left. assert (Hb' : on_boundary p (hull l)) by (rewrite ER; apply on_boundary_reclose; exact Hb).
    split; [exact Hb'|]. apply (pip_boundary_false w p (hull l) W Hpw Hb').
  - right. assert (Hs : strict_in p (hull l)).
    { rewrite ER. apply strict_in_reclose. apply convex_left_in; [destruct o; [cbn in Hlen; lia|discriminate]|exact Hc|exact Hl]. }
    split; [apply Hs|]. apply (pip_true_iff w p (hull l) W Hpw). exact Hs.
Qed.

Corollary hull_inputs_pip w l p : noncollinear l -> (forall v, In v l -> w <= px v) -> In p l ->
  ~ on_boundary p (hull l) -> pip w p (hull l) = true.
Proof.
  intros Hnc Hw Hp Hn. destruct (hull_inputs_inside w l p Hnc Hw Hp) as [[Hb _]|[_ H]]; [contradiction|exact H].
Qed.

(* a hull vertex is on the outline, hence not contained (C01: the outer boundary is excluded) *)
Corollary hull_vertex_pip_false w l v : noncollinear l -> (forall v, In v l -> w <= px v) ->
  In v (hull l) -> on_boundary v (hull l) /\ pip w v (hull l) = false.
Proof.
  intros Hnc Hw Hv. pose proof (hull_west_ok w l Hw) as W.
  assert (Hb : on_boundary v (hull l)).
  { destruct (cyc_has_succ (hull l) v Hv) as (x & Hx). exists (v, x). split; [exact Hx|apply on_seg_end]. }
  split; [exact Hb|]. apply (pip_boundary_false w v (hull l) W (W v Hv) Hb).
Qed.

(* non-vacuity: a point cloud with an interior point, points on edges and repeats *)
Definition ex_cloud : list pt :=
  [(1, 1); (0, 0); (4, 0); (2, 0); (4, 3); (0, 3); (0, 0); (2, 2); (3, 1); (4, 3); (4, 1)].

Lemma nonvacuous_hull_pip :
  noncollinear ex_cloud /\ (forall v, In v ex_cloud -> -360 <= px v) /\
  hull ex_cloud = [(0, 0); (4, 0); (4, 3); (0, 3); (0, 0)] /\
  ccw3 (removelast (hull ex_cloud)) /\
  In (1, 1) ex_cloud /\ pip (-360) (1, 1) (hull ex_cloud) = true /\      (* interior input *)
  In (2, 2) ex_cloud /\ pip (-360) (2, 2) (hull ex_cloud) = true /\
  In (2, 0) ex_cloud /\ pip (-360) (2, 0) (hull ex_cloud) = false /\     (* input on an edge *)
  In (0, 0) ex_cloud /\ pip (-360) (0, 0) (hull ex_cloud) = false /\     (* a vertex, given twice *)
  pip (-360) (3, 2) (hull ex_cloud) = true /\                            (* not an input, inside *)
  pip (-360) (5, 1) (hull ex_cloud) = false.                             (* outside *)
Proof.
  assert (Hnc : noncollinear ex_cloud).
  { exists (0, 0), (4, 0), (4, 3). cbn. intuition discriminate. }
  split; [exact Hnc|]. split; [west_ok_tac|].
  split; [vm_compute; reflexivity|]. split; [apply (hull_ccw3 ex_cloud Hnc)|].
  cbn [In ex_cloud]. repeat split; try (vm_compute; reflexivity); tauto.
Qed.
