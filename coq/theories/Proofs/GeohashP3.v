(* Proofs about the Niemeyer codec model, part 3: areas of the children, and the box of a cell
   (niemeyer_to_geobox through Coordinate.__init__), including the D12 counterexample. *)
From Coq Require Import QArith Qreduction Lqa.
From GV Require Import Prelude GeohashM GeohashP GeohashP2.
Open Scope Q_scope.

(* ------------------------------------------------------------------ areas *)
Definition cs_area (s : cs) : Q :=
  (snd (lonI s) - fst (lonI s)) * (snd (latI s) - fst (latI s)).
Fixpoint qsum (l : list Q) : Q := match l with [] => 0 | x :: l' => x + qsum l' end.

Lemma qsum_app a b : qsum (a ++ b) == qsum a + qsum b.
Proof. induction a as [|x a IH]; cbn [app qsum]; [ring|]. rewrite IH. ring. Qed.

Lemma qsum_map_ext {A} (f g : A -> Q) l :
  (forall x, In x l -> f x == g x) -> qsum (map f l) == qsum (map g l).
Proof.
  induction l as [|x l IH]; intro H; cbn [map qsum]; [reflexivity|].
  rewrite (H x (or_introl eq_refl)), IH; [reflexivity|]. intros y Hy. apply H. now right.
Qed.

Lemma narrow_area s : cs_area (narrow_cs false s) + cs_area (narrow_cs true s) == cs_area s.
Proof.
  unfold cs_area, narrow_cs, narrow. destruct s as [[a1 a2] [b1 b2] []]; cbn [lonI latI lonc fst snd]; ring.
Qed.

Lemma all_bits_area k : forall s,
  qsum (map (fun bl => cs_area (run_bits bl s)) (all_bits k)) == cs_area s.
Proof.
  induction k as [|k IH]; intro s; cbn [all_bits map]; [cbn [qsum run_bits]; ring|].
  rewrite map_app, qsum_app, !map_map. cbn [run_bits].
  rewrite (IH (narrow_cs false s)), (IH (narrow_cs true s)). apply narrow_area.
Qed.

Lemma map_of_combine {A B} (f : A -> B) (l : list A) (l' : list B) :
  length l = length l' -> (forall x y, In (x, y) (combine l l') -> f x = y) -> map f l = l'.
Proof.
  revert l'. induction l as [|a l IH]; intros [|b l'] E H; cbn in *; try discriminate; [reflexivity|].
  f_equal; [apply H; now left|]. apply IH; [now injection E|]. intros x y Hxy. apply H. now right.
Qed.

Section Area.
  Variable c : cfg.
  Hypothesis OK : cfg_ok c.

  Lemma char_bits_all : map (char_bits c) (charset c) = all_bits (length (bits c)).
  Proof.
    destruct (cfg_ok_parts c OK) as (L & _ & P & _). apply map_of_combine; [exact L|].
    intros ch bl H. destruct (P ch bl H) as (_ & (v & Hv & Hb) & _). unfold char_bits. now rewrite Hv.
  Qed.

  Lemma cell_area_cs st r : cell_res st r -> cell_area r == cs_area st.
  Proof.
    destruct r as [[[x y] ex] ey]. unfold cell_res, cell_area, cs_area. intros (_ & A & B & C & D).
    rewrite <- A, <- B, <- C, <- D. ring.
  Qed.

  (* the areas of the children add up to the area of the parent *)
  Lemma children_area s r :
    decode c s = Ok r ->
    exists rs, map (decode c) (subhashes c s) = map Ok rs /\ qsum (map cell_area rs) == cell_area r.
  Proof.
    intro D. destruct (decode_ok c OK _ _ D) as [V C].
    set (f := fun k => let d := run_dbits (str_bits c k) (init_ds c) in
                       (fst (centre (dcs d)), snd (centre (dcs d)), lonE d, latE d)).
    assert (F : forall k, valid c k -> decode c k = Ok (f k) /\ cell_res (cell_st c k) (f k)).
    { intros k Vk. unfold decode. rewrite (dec_loop_valid c OK k _ Vk). split; [reflexivity|].
      apply cell_res_of_ds; [apply run_dbits_err, init_err, OK|now rewrite dcs_run_dbits]. }
    exists (map f (subhashes c s)). split.
    - rewrite map_map. apply map_ext_in. intros k Hk. apply F.
      apply subhashes_in in Hk. destruct Hk as (ch & Hc & ->). now apply child_valid.
    - unfold subhashes. rewrite !map_map.
      rewrite (qsum_map_ext _ (fun ch => cs_area (run_bits (char_bits c ch) (cell_st c s)))).
      + rewrite <- (map_map (char_bits c) (fun bl => cs_area (run_bits bl (cell_st c s)))).
        rewrite char_bits_all, all_bits_area. symmetry. now apply cell_area_cs.
      + intros ch Hc. rewrite <- child_cell. apply cell_area_cs, F. now apply child_valid.
  Qed.
End Area.

(* ------------------------------------------------------------------ Coordinate / box *)
Lemma wrap_lat_id fuel lon lat : -90 <= lat -> lat <= 90 -> wrap_lat fuel lon lat = (lon, lat).
Proof.
  intros A B.
  assert (E1 : qleb (-90) lat = true) by now apply qleb_true.
  assert (E2 : qleb lat 90 = true) by now apply qleb_true.
  destruct fuel; cbn [wrap_lat]; rewrite E1, E2; reflexivity.
Qed.

Lemma wrap_lon_id fuel lon : -180 <= lon -> lon <= 180 -> wrap_lon fuel lon = lon.
Proof.
  intros A B.
  assert (E1 : qleb (-180) lon = true) by now apply qleb_true.
  assert (E2 : qleb lon 180 = true) by now apply qleb_true.
  destruct fuel; cbn [wrap_lon]; rewrite E1, E2; reflexivity.
Qed.

(* inside [-180, 180) x [-90, 90] the constructor keeps the numbers *)
Lemma coordinate_id lon lat :
  -180 <= lon -> lon < 180 -> -90 <= lat -> lat <= 90 -> coordinate lon lat = (lon, lat).
Proof.
  intros A B C D. unfold coordinate. rewrite wrap_lat_id by assumption.
  rewrite wrap_lon_id by lra.
  destruct (Qeq_bool lon 180) eqn:E; [|reflexivity]. apply Qeq_bool_iff in E. lra.
Qed.

Section Box.
  Variable c : cfg.
  Hypothesis OK : cfg_ok c.

  (* for a cell inside the coordinate range whose east edge is west of 180, the box has exactly
     the cell's corners and contains every coordinate of the (closed) cell *)
  Lemma cell_box_contains s x y ex ey :
    decode c s = Ok (x, y, ex, ey) ->
    -180 <= x - ex -> x + ex < 180 -> -90 <= y - ey -> y + ey <= 90 ->
    cell_box c s = Ok ((x - ex, y + ey), (x + ex, y - ey)) /\
    forall p, in_cell p (x, y, ex, ey) ->
              box_contains ((x - ex, y + ey), (x + ex, y - ey)) p = true.
  Proof.
    intros D W E S N. destruct (decode_ok c OK _ _ D) as [V C].
    pose proof (cell_st_swf c OK s) as [SW1 SW2].
    destruct C as (_ & C1 & C2 & C3 & C4).
    assert (0 < ex) by lra. assert (0 < ey) by lra.
    split.
    - unfold cell_box. rewrite D. rewrite !coordinate_id by lra. reflexivity.
    - intros p [[P1 P2] [P3 P4]]. unfold box_contains. cbn [fst snd].
      rewrite !(proj2 (qleb_true _ _)) by assumption. reflexivity.
  Qed.
End Box.

(* D12: a cell whose east edge is longitude 180 (base 32, "z"): the south-east corner of the box
   gets longitude -180 and the box does not contain the cell's own centre *)
Lemma cell_box_east_refuted :
  exists s x y ex ey bx,
    decode cfg32 s = Ok (x, y, ex, ey) /\
    x + ex == 180 /\ -180 <= x - ex /\ -90 <= y - ey /\ y + ey <= 90 /\
    cell_box cfg32 s = Ok bx /\ fst (snd bx) == -180 /\ box_contains bx (x, y) = false.
Proof.
  exists [122%Z]. do 5 eexists.
  split; [vm_compute; reflexivity|].
  split; [vm_compute; reflexivity|].
  split; [unfold Qle; cbn; lia|].
  split; [unfold Qle; cbn; lia|].
  split; [unfold Qle; cbn; lia|].
  split; [vm_compute; reflexivity|].
  split; vm_compute; reflexivity.
Qed.
