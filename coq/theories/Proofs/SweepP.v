(* C02 -- proofs about the sweep model (SweepM.v): for every segment test [hit] that is
   symmetric, blind to the direction of a segment, and true only of segments whose latitude
   ranges overlap, the sweep returns exactly "some a-edge hits some b-edge", and never Err. *)
From Coq Require Import Sorting.Sorted Permutation.
From GV Require Import Prelude SweepM.
Open Scope Z_scope.

(* ------------------------------------------------------------------ decidable equalities *)
Lemma p2_eqb_eq a b : p2_eqb a b = true <-> a = b.
Proof.
  destruct a as [a1 a2], b as [b1 b2]; unfold p2_eqb; cbn. split.
  - intros H. apply andb_true_iff in H as [H1 H2]. f_equal; lia.
  - intros [= -> ->]. rewrite !Z.eqb_refl. reflexivity.
Qed.

Lemma sg_eqb_eq a b : sg_eqb a b = true <-> a = b.
Proof.
  destruct a as [a1 a2], b as [b1 b2]; unfold sg_eqb; cbn.
  rewrite andb_true_iff, !p2_eqb_eq. split; [intros [-> ->]; reflexivity | intros [= -> ->]; auto].
Qed.

Lemma grp_eqb_eq a b : grp_eqb a b = true <-> a = b.
Proof. destruct a, b; cbn; split; congruence. Qed.

Lemma grp_eqb_refl a : grp_eqb a a = true.
Proof. destruct a; reflexivity. Qed.

Lemma grp_eqb_false a b : grp_eqb a b = false <-> a <> b.
Proof. destruct a, b; cbn; split; congruence. Qed.

Lemma grp_eqb_sym a b : grp_eqb a b = grp_eqb b a.
Proof. destruct a, b; reflexivity. Qed.

Lemma key_eqb_eq a b : key_eqb a b = true <-> a = b.
Proof.
  destruct a as [a1 a2], b as [b1 b2]; unfold key_eqb; cbn.
  rewrite andb_true_iff, sg_eqb_eq, grp_eqb_eq. split; [intros [-> ->]; reflexivity | intros [= -> ->]; auto].
Qed.

Lemma key_eqb_false a b : key_eqb a b = false <-> a <> b.
Proof.
  split.
  - intros H E. apply key_eqb_eq in E. congruence.
  - intros H. destruct (key_eqb a b) eqn:E; [apply key_eqb_eq in E; contradiction | reflexivity].
Qed.

(* ------------------------------------------------------------------ the active set *)
Lemma amem_In k act : amem k act = true <-> In k act.
Proof.
  unfold amem. rewrite existsb_exists. split.
  - intros [x [Hx E]]. apply key_eqb_eq in E. subst. exact Hx.
  - intros H. exists k. split; [exact H | apply key_eqb_eq; reflexivity].
Qed.

Lemma In_aadd k k' act : In k' (aadd k act) <-> k' = k \/ In k' act.
Proof.
  unfold aadd. destruct (amem k act) eqn:E.
  - apply amem_In in E. split; [auto | intros [-> | H]; auto].
  - cbn. split; intros [H | H]; auto.
Qed.

Lemma In_adiscard k k' act : In k' (adiscard k act) <-> In k' act /\ k' <> k.
Proof.
  unfold adiscard. rewrite filter_In. split; intros [H1 H2]; split; auto.
  - apply negb_true_iff, key_eqb_false in H2. congruence.
  - apply negb_true_iff, key_eqb_false. congruence.
Qed.

Lemma aadd_NoDup k act : NoDup act -> NoDup (aadd k act).
Proof.
  unfold aadd. destruct (amem k act) eqn:E; [auto|].
  intros H. constructor; [|exact H]. intros Hin. apply amem_In in Hin. congruence.
Qed.

Lemma adiscard_NoDup k act : NoDup act -> NoDup (adiscard k act).
Proof. apply NoDup_filter. Qed.

(* ------------------------------------------------------------------ the sort *)
(* "x may stand before y" *)
Definition ev_le (sf : bool) (x y : event) : Prop := ev_lt sf y x = false.

Lemma ev_lt_irrefl sf a : ev_lt sf a a = false.
Proof. unfold ev_lt. destruct sf, (estart a); cbn; lia. Qed.

Lemma ev_lt_asym sf a b : ev_lt sf a b = true -> ev_lt sf b a = false.
Proof. unfold ev_lt. destruct sf, (estart a), (estart b); cbn; lia. Qed.

Lemma ev_lt_negtrans sf a b c :
  ev_lt sf a b = false -> ev_lt sf b c = false -> ev_lt sf a c = false.
Proof. unfold ev_lt. destruct sf, (estart a), (estart b), (estart c); cbn; lia. Qed.

Lemma ev_lt_trans sf a b c :
  ev_lt sf a b = true -> ev_lt sf b c = true -> ev_lt sf a c = true.
Proof. unfold ev_lt. destruct sf, (estart a), (estart b), (estart c); cbn; lia. Qed.

Lemma insert_In sf x l y : In y (insert_ev sf x l) <-> y = x \/ In y l.
Proof.
  induction l as [|z l IH]; cbn.
  - split; intros [H|H]; auto.
  - destruct (ev_lt sf z x); cbn; rewrite ?IH; intuition.
Qed.

Lemma sort_In sf l y : In y (sort_events sf l) <-> In y l.
Proof.
  induction l as [|z l IH]; cbn; [reflexivity|].
  rewrite insert_In, IH. intuition.
Qed.

Lemma insert_perm sf x l : Permutation (insert_ev sf x l) (x :: l).
Proof.
  induction l as [|z l IH]; cbn; [reflexivity|].
  destruct (ev_lt sf z x); [|reflexivity].
  rewrite IH. apply perm_swap.
Qed.

Lemma sort_perm sf l : Permutation (sort_events sf l) l.
Proof.
  induction l as [|z l IH]; cbn; [reflexivity|].
  rewrite insert_perm. constructor. exact IH.
Qed.

Lemma insert_sorted sf x l :
  StronglySorted (ev_le sf) l -> StronglySorted (ev_le sf) (insert_ev sf x l).
Proof.
  induction l as [|z l IH]; intros H; cbn.
  - constructor; constructor.
  - apply StronglySorted_inv in H as [Hs Hf].
    destruct (ev_lt sf z x) eqn:E.
    + constructor; [apply IH; exact Hs|].
      apply Forall_forall. intros y Hy. apply insert_In in Hy as [-> | Hy].
      * unfold ev_le. apply ev_lt_asym. exact E.
      * rewrite Forall_forall in Hf. apply Hf. exact Hy.
    + constructor; [constructor; assumption|].
      constructor; [exact E|].
      apply Forall_forall. intros y Hy. rewrite Forall_forall in Hf.
      unfold ev_le. eapply ev_lt_negtrans; [apply Hf; exact Hy | exact E].
Qed.

Lemma sort_sorted sf l : StronglySorted (ev_le sf) (sort_events sf l).
Proof.
  induction l as [|z l IH]; cbn; [constructor|]. apply insert_sorted. exact IH.
Qed.

(* Stability: elements that compare equal keep their input order.  Stated as: the sort
   is the identity on a list that is already sorted. (Together with [sort_perm] and
   [sort_sorted] this characterises the output up to the order of equal elements; the order
   of equal elements does not influence the Boolean result anyway.) *)
Lemma insert_sorted_hd sf x l :
  Forall (ev_le sf x) l -> insert_ev sf x l = x :: l.
Proof.
  destruct l as [|z l]; cbn; [reflexivity|]. intros H.
  apply Forall_inv in H. unfold ev_le in H. rewrite H. reflexivity.
Qed.

Lemma sort_id_on_sorted sf l : StronglySorted (ev_le sf) l -> sort_events sf l = l.
Proof.
  induction l as [|z l IH]; intros H; [reflexivity|].
  change (sort_events sf (z :: l)) with (insert_ev sf z (sort_events sf l)).
  apply StronglySorted_inv in H as [Hs Hf]. rewrite (IH Hs). apply insert_sorted_hd. exact Hf.
Qed.

Lemma sorted_app_order {A} (R : A -> A -> Prop) l1 x l2 y :
  StronglySorted R (l1 ++ x :: l2) -> In y l2 -> R x y.
Proof.
  induction l1 as [|z l1 IH]; cbn; intros H Hy.
  - apply StronglySorted_inv in H as [_ Hf]. rewrite Forall_forall in Hf. apply Hf. exact Hy.
  - apply StronglySorted_inv in H as [Hs _]. apply IH; assumption.
Qed.

(* stability of the event sort: events that compare equal keep their input order *)
Definition ev_equiv (sf : bool) (k x : event) : bool :=
  negb (ev_lt sf k x) && negb (ev_lt sf x k).

Lemma insert_filter sf k x l :
  filter (ev_equiv sf k) (insert_ev sf x l) =
  if ev_equiv sf k x then x :: filter (ev_equiv sf k) l else filter (ev_equiv sf k) l.
Proof.
  induction l as [|y l IH].
  - cbn. destruct (ev_equiv sf k x); reflexivity.
  - cbn [insert_ev]. destruct (ev_lt sf y x) eqn:E.
    + cbn [filter]. rewrite IH.
      destruct (ev_equiv sf k x) eqn:Ex, (ev_equiv sf k y) eqn:Ey; try reflexivity.
      exfalso. unfold ev_equiv, ev_lt in *.
      destruct sf, (estart k), (estart x), (estart y); cbn in *; lia.
    + cbn [filter]. destruct (ev_equiv sf k x); reflexivity.
Qed.

Theorem sort_stable sf k l :
  filter (ev_equiv sf k) (sort_events sf l) = filter (ev_equiv sf k) l.
Proof.
  induction l as [|x l IH]; [reflexivity|].
  change (sort_events sf (x :: l)) with (insert_ev sf x (sort_events sf l)).
  rewrite insert_filter, IH. reflexivity.
Qed.


(* ------------------------------------------------------------------ events of an edge *)
Lemma norm_lat_fst a : lat (fst (norm_edge a)) = lat_lo a.
Proof.
  unfold norm_edge, lat_lo, swap_sg. destruct (lat (fst a) >? lat (snd a)) eqn:E; cbn; lia.
Qed.

Lemma norm_lat_snd a : lat (snd (norm_edge a)) = lat_hi a.
Proof.
  unfold norm_edge, lat_hi, swap_sg. destruct (lat (fst a) >? lat (snd a)) eqn:E; cbn; lia.
Qed.

Lemma lat_lo_le_hi a : lat_lo a <= lat_hi a.
Proof. unfold lat_lo, lat_hi. lia. Qed.

Lemma norm_edge_cases a : norm_edge a = a \/ norm_edge a = swap_sg a.
Proof. unfold norm_edge. destruct (_ >? _); auto. Qed.

Definition start_ev (g : grp) (a : sg) : event := mkev (lat_lo a) true (norm_edge a) g.

Lemma start_ev_in g a : In (start_ev g a) (events_of_edge g a).
Proof.
  unfold events_of_edge, start_ev. left.
  rewrite norm_lat_fst, norm_lat_snd. f_equal.
  pose proof (lat_lo_le_hi a). lia.
Qed.

Lemma events_of_edge_inv g a e : In e (events_of_edge g a) ->
  egrp e = g /\ eseg e = norm_edge a /\
  (estart e = false -> ex e = lat_hi a).
Proof.
  unfold events_of_edge. rewrite norm_lat_fst, norm_lat_snd.
  pose proof (lat_lo_le_hi a).
  intros [<- | [<- | []]]; cbn; repeat split; auto; lia.
Qed.

Lemma In_create g edges e :
  In e (create_events g edges) <-> exists a, In a edges /\ In e (events_of_edge g a).
Proof. unfold create_events. apply in_flat_map. Qed.

(* ------------------------------------------------------------------ the loop *)
Section Loop.
  Variable hit : sg -> sg -> bool.
  Notation loop := (sweep_loop hit false).

  Lemma loop_never_err evs : forall act, exists b, loop evs act = Ok b.
  Proof.
    induction evs as [|e evs IH]; intros act; cbn.
    - eauto.
    - destruct (estart e); cbn.
      + destruct (same_group (ekey e) act); [apply IH|].
        destruct (any_hit hit (ekey e) act); [eauto | apply IH].
      + apply IH.
  Qed.

  (* one event: either the answer is True, or the loop goes on with an active set that has
     lost at most the key of an end event and has gained the key of a start event *)
  Lemma loop_step e evs act :
    loop (e :: evs) act = Ok true \/
    exists act', loop (e :: evs) act = loop evs act' /\
      (forall k, In k act -> In k act' \/ (estart e = false /\ k = ekey e)) /\
      (estart e = true -> In (ekey e) act').
  Proof.
    cbn. destruct (estart e) eqn:Es; cbn.
    - assert (G : exists act', loop evs (aadd (ekey e) act) = loop evs act' /\
        (forall k, In k act -> In k act' \/ (true = false /\ k = ekey e)) /\
        (true = true -> In (ekey e) act')).
      { exists (aadd (ekey e) act). split; [reflexivity|]. split.
        - intros k Hk. left. apply In_aadd. auto.
        - intros _. apply In_aadd. auto. }
      destruct (same_group (ekey e) act); [right; exact G|].
      destruct (any_hit hit (ekey e) act); [left; reflexivity | right; exact G].
    - right. exists (adiscard (ekey e) act). split; [reflexivity|]. split; [|discriminate].
      intros k Hk. destruct (key_eqb k (ekey e)) eqn:E.
      + right. apply key_eqb_eq in E. auto.
      + left. apply In_adiscard. split; [exact Hk|]. apply key_eqb_false. exact E.
  Qed.

  (* k1 is active, the start of a hitting segment of the other group comes up before k1 ends *)
  Lemma loop_active_hit : forall pre act k1 s2 post,
    In k1 act -> estart s2 = true -> snd k1 <> egrp s2 -> hit (fst k1) (eseg s2) = true ->
    (forall e, In e pre -> estart e = false -> ekey e <> k1) ->
    loop (pre ++ s2 :: post) act = Ok true.
  Proof.
    induction pre as [|e pre IH]; intros act k1 s2 post Hin Hs Hg Hh Hpre.
    - cbn. rewrite Hs. cbn.
      assert (Sg : same_group (ekey s2) act = false).
      { destruct (same_group (ekey s2) act) eqn:E; [|reflexivity].
        unfold same_group in E. rewrite forallb_forall in E. specialize (E k1 Hin).
        apply grp_eqb_eq in E. cbn in E. contradiction. }
      rewrite Sg.
      assert (Ah : any_hit hit (ekey s2) act = true).
      { unfold any_hit. apply existsb_exists. exists k1. split; [exact Hin|].
        cbn. rewrite Hh, andb_true_r. apply negb_true_iff, grp_eqb_false. congruence. }
      rewrite Ah. reflexivity.
    - change ((e :: pre) ++ s2 :: post) with (e :: (pre ++ s2 :: post)).
      destruct (loop_step e (pre ++ s2 :: post) act) as [H | [act' [H [Hk _]]]]; [exact H|].
      rewrite H. apply (IH act' k1); auto.
      + destruct (Hk k1 Hin) as [H1 | [H1 H2]]; [exact H1|].
        exfalso. apply (Hpre e); cbn; auto.
      + intros e' He'. apply Hpre. right. exact He'.
  Qed.

  Lemma loop_two_starts : forall pre act s1 mid s2 post,
    estart s1 = true -> estart s2 = true -> egrp s1 <> egrp s2 ->
    hit (eseg s1) (eseg s2) = true ->
    (forall e, In e mid -> estart e = false -> ekey e <> ekey s1) ->
    loop (pre ++ s1 :: mid ++ s2 :: post) act = Ok true.
  Proof.
    induction pre as [|e pre IH]; intros act s1 mid s2 post H1 H2 Hg Hh Hmid.
    - cbn [app].
      destruct (loop_step s1 (mid ++ s2 :: post) act) as [H | [act' [H [_ Hk]]]]; [exact H|].
      rewrite H. apply (loop_active_hit mid act' (ekey s1)); auto.
    - change ((e :: pre) ++ s1 :: mid ++ s2 :: post) with (e :: (pre ++ s1 :: mid ++ s2 :: post)).
      destruct (loop_step e (pre ++ s1 :: mid ++ s2 :: post) act) as [H | [act' [H _]]]; [exact H|].
      rewrite H. apply IH; auto.
  Qed.

  (* True is only ever answered because of an actual hit between keys of different groups *)
  Lemma loop_sound : forall evs act, loop evs act = Ok true ->
    exists k1 e2, (In k1 act \/ exists e1, In e1 evs /\ ekey e1 = k1) /\ In e2 evs /\
      snd k1 <> egrp e2 /\ hit (fst k1) (eseg e2) = true.
  Proof.
    induction evs as [|e evs IH]; intros act H; [discriminate|].
    cbn in H.
    assert (Hadd : loop evs (aadd (ekey e) act) = Ok true ->
      exists k1 e2, (In k1 act \/ exists e1, In e1 (e :: evs) /\ ekey e1 = k1) /\ In e2 (e :: evs) /\
        snd k1 <> egrp e2 /\ hit (fst k1) (eseg e2) = true).
    { intros H'. apply IH in H' as [k1 [e2 [Hk [He2 [Hg Hh]]]]].
      exists k1, e2. repeat split; auto; [|right; exact He2].
      destruct Hk as [Hk | [e1 [He1 Hk]]].
      - apply In_aadd in Hk as [-> | Hk]; [right; exists e; cbn; auto | left; exact Hk].
      - right. exists e1. cbn. auto. }
    destruct (estart e) eqn:Es; cbn in H.
    - destruct (same_group (ekey e) act); [apply Hadd; exact H|].
      destruct (any_hit hit (ekey e) act) eqn:Ah; [|apply Hadd; exact H].
      unfold any_hit in Ah. apply existsb_exists in Ah as [k1 [Hk1 Hc]].
      apply andb_true_iff in Hc as [Hc1 Hc2]. cbn in Hc1, Hc2.
      exists k1, e. repeat split; auto; [left; reflexivity|].
      apply negb_true_iff, grp_eqb_false in Hc1. congruence.
    - apply IH in H as [k1 [e2 [Hk [He2 [Hg Hh]]]]].
      exists k1, e2. repeat split; auto; [|right; exact He2].
      destruct Hk as [Hk | [e1 [He1 Hk]]].
      + apply In_adiscard in Hk as [Hk _]. left; exact Hk.
      + right. exists e1. cbn. auto.
  Qed.

  (* -------------------------------------------------------------- the theorem *)
  Hypothesis hit_sym : forall a b, hit a b = hit b a.
  Hypothesis hit_swap : forall a b, hit (swap_sg a) b = hit a b.
  Hypothesis hit_lat : forall a b, hit a b = true ->
    Z.max (lat_lo a) (lat_lo b) <= Z.min (lat_hi a) (lat_hi b).

  Lemma hit_norm_l a b : hit (norm_edge a) b = hit a b.
  Proof. destruct (norm_edge_cases a) as [-> | ->]; auto. Qed.

  Lemma hit_norm a b : hit (norm_edge a) (norm_edge b) = hit a b.
  Proof. rewrite hit_norm_l, hit_sym, hit_norm_l. apply hit_sym. Qed.

  Definition all_events (ea eb : list sg) : list event :=
    create_events GA ea ++ create_events GB eb.

  Lemma all_events_inv ea eb e : In e (all_events ea eb) ->
    exists a, eseg e = norm_edge a /\ (estart e = false -> ex e = lat_hi a) /\
      ((egrp e = GA /\ In a ea) \/ (egrp e = GB /\ In a eb)).
  Proof.
    unfold all_events. rewrite in_app_iff, !In_create.
    intros [[a [Ha He]] | [a [Ha He]]]; apply events_of_edge_inv in He as [Hg [Hs Hx]];
      exists a; auto.
  Qed.

  (* the combinatorial core: in the sorted event list, the later of the two start events of a
     hitting pair is reached before any end event of the earlier one *)
  Lemma sorted_split ea eb a b :
    In a ea -> In b eb -> hit a b = true ->
    exists pre s1 mid s2 post,
      sort_events true (all_events ea eb) = pre ++ s1 :: mid ++ s2 :: post /\
      estart s1 = true /\ estart s2 = true /\ egrp s1 <> egrp s2 /\
      hit (eseg s1) (eseg s2) = true /\
      (forall e, In e mid -> estart e = false -> ekey e <> ekey s1).
  Proof.
    intros Ha Hb Hh.
    set (L := sort_events true (all_events ea eb)).
    assert (Srt : StronglySorted (ev_le true) L) by apply sort_sorted.
    assert (Hsa : In (start_ev GA a) L).
    { apply sort_In. unfold all_events. apply in_app_iff. left. apply In_create.
      exists a. split; [exact Ha | apply start_ev_in]. }
    assert (Hsb : In (start_ev GB b) L).
    { apply sort_In. unfold all_events. apply in_app_iff. right. apply In_create.
      exists b. split; [exact Hb | apply start_ev_in]. }
    pose proof (hit_lat a b Hh) as Hl.
    pose proof (lat_lo_le_hi a) as Hla. pose proof (lat_lo_le_hi b) as Hlb.
    (* an end event keyed like s1 that stands before s2 contradicts sortedness *)
    assert (Key : forall (g1 g2 : grp) (c d : sg) l1 l2 l3 e,
      In c (if g1 then ea else eb) -> g1 <> g2 ->
      L = l1 ++ e :: l2 ++ start_ev g2 d :: l3 ->
      estart e = false -> ekey e = ekey (start_ev g1 c) -> lat_lo d <= lat_hi c -> False).
    { intros g1 g2 c d l1 l2 l3 e Hc Hg HL Hes Hek Hle.
      assert (HeL : In e L) by (rewrite HL; apply in_app_iff; right; left; reflexivity).
      apply sort_In, all_events_inv in HeL as [c' [Hsg [Hx _]]].
      specialize (Hx Hes).
      assert (Hord : ev_le true e (start_ev g2 d)).
      { rewrite HL in Srt. eapply sorted_app_order; [exact Srt|].
        apply in_app_iff. right. left. reflexivity. }
      unfold ev_le, ev_lt in Hord. cbn in Hord. rewrite Hes in Hord. cbn in Hord.
      injection Hek as Hek1 Hek2.
      assert (lat_hi c' = lat_hi c).
      { rewrite <- (norm_lat_snd c'), <- (norm_lat_snd c). congruence. }
      lia. }
    apply in_split in Hsa as [l1 [l2 HL]].
    assert (Hsb' := Hsb). rewrite HL in Hsb'. apply in_app_iff in Hsb' as [Hin | [Heq | Hin]].
    - (* start of b first *)
      apply in_split in Hin as [m1 [m2 Hm]].
      exists m1, (start_ev GB b), m2, (start_ev GA a), l2.
      split; [fold L; rewrite HL, Hm, <- app_assoc; reflexivity|].
      cbn. repeat split; auto; [discriminate | rewrite hit_norm, hit_sym; exact Hh |].
      intros e He Hes Hek.
      apply in_split in He as [n1 [n2 Hn]].
      apply (Key GB GA b a (m1 ++ start_ev GB b :: n1) n2 l2 e); auto; [discriminate | | lia].
      rewrite HL, Hm, Hn. repeat (rewrite <- ?app_assoc; cbn [app]). reflexivity.
    - discriminate Heq.
    - apply in_split in Hin as [m1 [m2 Hm]].
      exists l1, (start_ev GA a), m1, (start_ev GB b), m2.
      split; [fold L; rewrite HL, Hm; reflexivity|].
      cbn. repeat split; auto; [discriminate | rewrite hit_norm; exact Hh |].
      intros e He Hes Hek.
      apply in_split in He as [n1 [n2 Hn]].
      apply (Key GA GB a b (l1 ++ start_ev GA a :: n1) n2 m2 e); auto; [discriminate | | lia].
      rewrite HL, Hm, Hn. repeat (rewrite <- ?app_assoc; cbn [app]). reflexivity.
  Qed.

  Lemma sweep_complete ea eb a b :
    In a ea -> In b eb -> hit a b = true -> sweep hit ea eb = Ok true.
  Proof.
    intros Ha Hb Hh.
    destruct (sorted_split ea eb a b Ha Hb Hh) as [pre [s1 [mid [s2 [post [HL [H1 [H2 [Hg [Hhit Hmid]]]]]]]]]].
    unfold sweep, sweep_gen. fold (all_events ea eb). rewrite HL.
    apply loop_two_starts; auto.
  Qed.

  Lemma sweep_sound ea eb :
    sweep hit ea eb = Ok true -> exists a b, In a ea /\ In b eb /\ hit a b = true.
  Proof.
    unfold sweep, sweep_gen. fold (all_events ea eb). intros H.
    apply loop_sound in H as [k1 [e2 [Hk [He2 [Hg Hh]]]]].
    destruct Hk as [[] | [e1 [He1 Hk]]]. subst k1. cbn in Hg, Hh.
    apply sort_In, all_events_inv in He1 as [c1 [Hs1 [_ Hc1]]].
    apply sort_In, all_events_inv in He2 as [c2 [Hs2 [_ Hc2]]].
    rewrite Hs1, Hs2, hit_norm in Hh.
    destruct Hc1 as [[G1 I1] | [G1 I1]], Hc2 as [[G2 I2] | [G2 I2]]; try congruence.
    - exists c1, c2. auto.
    - exists c2, c1. rewrite hit_sym. auto.
  Qed.

  Theorem sweep_never_err ea eb : exists r, sweep hit ea eb = Ok r.
  Proof. apply loop_never_err. Qed.

  Theorem sweep_brute ea eb : sweep hit ea eb = Ok (brute hit ea eb).
  Proof.
    destruct (brute hit ea eb) eqn:B.
    - unfold brute in B. apply existsb_exists in B as [a [Ha B]].
      apply existsb_exists in B as [b [Hb B]]. eapply sweep_complete; eauto.
    - destruct (sweep_never_err ea eb) as [r Hr]. rewrite Hr. f_equal.
      destruct r; [|reflexivity].
      apply sweep_sound in Hr as [a [b [Ha [Hb Hh]]]].
      assert (brute hit ea eb = true); [|congruence].
      unfold brute. apply existsb_exists. exists a. split; [exact Ha|].
      apply existsb_exists. exists b. auto.
  Qed.

  (* consequences used by the shape level *)
  Lemma brute_sym ea eb : brute hit ea eb = brute hit eb ea.
  Proof.
    apply eq_true_iff_eq. unfold brute. rewrite !existsb_exists. split.
    - intros [a [Ha H]]. apply existsb_exists in H as [b [Hb H]].
      exists b. split; [exact Hb|]. apply existsb_exists. exists a. rewrite hit_sym. auto.
    - intros [a [Ha H]]. apply existsb_exists in H as [b [Hb H]].
      exists b. split; [exact Hb|]. apply existsb_exists. exists a. rewrite hit_sym. auto.
  Qed.

  Theorem sweep_sym ea eb : sweep hit ea eb = sweep hit eb ea.
  Proof. rewrite !sweep_brute, brute_sym. reflexivity. Qed.
End Loop.

(* [brute] depends only on which segments occur, up to direction *)
Lemma brute_ext hit ea ea' eb eb' :
  (forall a, In a ea -> exists a', In a' ea' /\ forall b, hit a b = hit a' b) ->
  (forall b, In b eb -> exists b', In b' eb' /\ forall a, hit a b = hit a b') ->
  brute hit ea eb = true -> brute hit ea' eb' = true.
Proof.
  intros HA HB. unfold brute. rewrite !existsb_exists.
  intros [a [Ha H]]. apply existsb_exists in H as [b [Hb H]].
  destruct (HA a Ha) as [a' [Ha' Ea]]. destruct (HB b Hb) as [b' [Hb' Eb]].
  exists a'. split; [exact Ha'|]. apply existsb_exists. exists b'. split; [exact Hb'|].
  rewrite <- Ea, <- Eb. exact H.
Qed.
