(* C01: bounding-box prefilter, polygons with holes, boxes. *)
From GV Require Import Prelude GeomM GeomP GeomP2.
Open Scope Z_scope.

(* ------------------------------------------------------------------ min / max folds *)

Lemma fold_min_le l : forall x0 y,
  fold_left Z.min l x0 <= y <-> x0 <= y \/ exists z, In z l /\ z <= y.
Proof.
  induction l as [|x l IH]; intros x0 y; cbn [fold_left].
  - split; [auto|]. intros [H|(z & [] & _)]; assumption.
  - rewrite IH. split.
    + intros [H|(z & Hz & H)].
      * destruct (Z.min_spec x0 x) as [[_ E]|[_ E]]; rewrite E in H; [left; assumption|].
        right. exists x. split; [left; reflexivity|assumption].
      * right. exists z. split; [right; assumption|assumption].
    + intros [H|(z & [->|Hz] & H)].
      * left. lia. * left. lia. * right. exists z. auto.
Qed.

Lemma fold_max_ge l : forall x0 y,
  y <= fold_left Z.max l x0 <-> y <= x0 \/ exists z, In z l /\ y <= z.
Proof.
  induction l as [|x l IH]; intros x0 y; cbn [fold_left].
  - split; [auto|]. intros [H|(z & [] & _)]; assumption.
  - rewrite IH. split.
    + intros [H|(z & Hz & H)].
      * destruct (Z.max_spec x0 x) as [[_ E]|[_ E]]; rewrite E in H; [|left; assumption].
        right. exists x. split; [left; reflexivity|assumption].
      * right. exists z. split; [right; assumption|assumption].
    + intros [H|(z & [->|Hz] & H)].
      * left. lia. * left. lia. * right. exists z. auto.
Qed.

Lemma minl_le d l y : l <> [] -> (minl d l <= y <-> exists z, In z l /\ z <= y).
Proof.
  destruct l as [|x l]; [congruence|]. intros _. cbn [minl]. rewrite fold_min_le. split.
  - intros [H|(z & Hz & H)]; [exists x|exists z]; split; auto; [left|right]; auto.
  - intros (z & [->|Hz] & H); [left; assumption|right; exists z; auto].
Qed.

Lemma maxl_ge d l y : l <> [] -> (y <= maxl d l <-> exists z, In z l /\ y <= z).
Proof.
  destruct l as [|x l]; [congruence|]. intros _. cbn [maxl]. rewrite fold_max_ge. split.
  - intros [H|(z & Hz & H)]; [exists x|exists z]; split; auto; [left|right]; auto.
  - intros (z & [->|Hz] & H); [left; assumption|right; exists z; auto].
Qed.

(* p is inside the closed bounding rectangle of the vertices *)
Definition inside_bbox (p : pt) (r : list pt) : Prop :=
  (exists v, In v r /\ px v <= px p) /\ (exists v, In v r /\ px p <= px v) /\
  (exists v, In v r /\ py v <= py p) /\ (exists v, In v r /\ py p <= py v).

Lemma in_map_ex {A} (f : A -> Z) (P : Z -> Prop) l :
  (exists z, In z (map f l) /\ P z) <-> (exists v, In v l /\ P (f v)).
Proof.
  split.
  - intros (z & Hz & H). apply in_map_iff in Hz. destruct Hz as (v & <- & Hv). exists v; auto.
  - intros (v & Hv & H). exists (f v). split; [apply in_map; assumption|assumption].
Qed.

Lemma in_bbox_spec p r : r <> [] -> (in_bbox p r = true <-> inside_bbox p r).
Proof.
  intros Hr. unfold in_bbox, inside_bbox.
  assert (Hx : map px r <> []) by (destruct r; [congruence|discriminate]).
  assert (Hy : map py r <> []) by (destruct r; [congruence|discriminate]).
  rewrite <- (in_map_ex px (fun z => z <= px p)), <- (in_map_ex px (fun z => px p <= z)),
          <- (in_map_ex py (fun z => z <= py p)), <- (in_map_ex py (fun z => py p <= z)).
  rewrite <- (minl_le 0 _ _ Hx), <- (maxl_ge 0 _ _ Hx), <- (minl_le 0 _ _ Hy), <- (maxl_ge 0 _ _ Hy).
  lia.
Qed.

(* ------------------------------------------------------------------ the prefilter never changes the answer *)

Lemma not_ex_all (P : pt -> bool) r :
  ~ (exists v, In v r /\ P v = true) -> forall v, In v r -> P v = false.
Proof.
  intros H v Hv. destruct (P v) eqn:E; [|reflexivity]. exfalso. apply H. exists v; auto.
Qed.

Lemma ex_dec (P : pt -> bool) r : (exists v, In v r /\ P v = true) \/ ~ (exists v, In v r /\ P v = true).
Proof.
  destruct (existsb P r) eqn:E.
  - left. apply existsb_exists in E. exact E.
  - right. intros H. apply existsb_exists in H. congruence.
Qed.

Lemma evenodd_inside_bbox p r : evenodd p r -> inside_bbox p r.
Proof.
  rewrite evenodd_par. intros He.
  assert (Hc : forall (P : pt -> bool),
             ((forall v, In v r -> P v = false) -> par (east_z p) (cyc_edges r) = false) ->
             exists v, In v r /\ P v = true).
  { intros P H. destruct (ex_dec P r) as [Hx|Hx]; [exact Hx|].
    rewrite H in He; [discriminate|]. apply not_ex_all; assumption. }
  repeat split.
  - destruct (Hc (fun v => px v <=? px p)) as (v & Hv & H); [|exists v; split; [assumption|lia]].
    intros Hall. rewrite <- (straddle_even p r). apply par_ext. intros [a b] Hab.
    apply cyc_edges_in in Hab. destruct Hab as [Ha Hb]. apply Hall in Ha, Hb.
    unfold east_z, strad. cbn [fst snd]. destruct (straddles p a b) eqn:Es; [|reflexivity].
    pose proof (west_side_pos p a b ltac:(lia) ltac:(lia) Es). cbn [andb]. lia.
  - destruct (Hc (fun v => px p <=? px v)) as (v & Hv & H); [|exists v; split; [assumption|lia]].
    intros Hall. apply par_false. intros [a b] Hab.
    apply cyc_edges_in in Hab. destruct Hab as [Ha Hb]. apply Hall in Ha, Hb.
    unfold east_z. destruct (straddles p a b) eqn:Es; [|reflexivity].
    pose proof (east_side_neg p a b ltac:(lia) ltac:(lia) Es). cbn [andb]. lia.
  - destruct (Hc (fun v => py v <=? py p)) as (v & Hv & H); [|exists v; split; [assumption|lia]].
    intros Hall. apply par_false. intros [a b] Hab.
    apply cyc_edges_in in Hab. destruct Hab as [Ha Hb]. apply Hall in Ha, Hb.
    unfold east_z. destruct (straddles p a b) eqn:Es; [|reflexivity].
    apply straddles_cases in Es. lia.
  - destruct (Hc (fun v => py p <=? py v)) as (v & Hv & H); [|exists v; split; [assumption|lia]].
    intros Hall. apply par_false. intros [a b] Hab.
    apply cyc_edges_in in Hab. destruct Hab as [Ha Hb]. apply Hall in Ha, Hb.
    unfold east_z. destruct (straddles p a b) eqn:Es; [|reflexivity].
    apply straddles_cases in Es. lia.
Qed.

Lemma bbox_prefilter_sound w p r : west_ok w r -> w <= px p ->
  pip w p r = true -> inside_bbox p r.
Proof.
  intros Hw Hp H. apply (pip_true_iff w p r Hw Hp) in H. destruct H as [_ H].
  apply evenodd_inside_bbox; assumption.
Qed.

Lemma ring_contains_spec w p r : west_ok w r -> w <= px p ->
  (ring_contains w r p = true <-> strict_in p r).
Proof.
  intros Hw Hp. unfold ring_contains. rewrite andb_true_iff, (pip_true_iff w p r Hw Hp). split.
  - tauto.
  - intros H. split; [|assumption]. destruct H as [_ H].
    assert (r <> []) by (intros ->; apply evenodd_par in H; discriminate).
    apply in_bbox_spec; [assumption|]. apply evenodd_inside_bbox; assumption.
Qed.

(* ------------------------------------------------------------------ holes *)

(* what a hole removes: a polygon hole its strict interior, a box hole the closed box *)
Definition hole_mem (h : hole) (p : pt) : Prop :=
  match h with
  | HPoly o => strict_in p o
  | HBox nw se => box_closed nw se p
  end.

Definition hole_ok (w : Z) (h : hole) : Prop :=
  match h with HPoly o => west_ok w o | HBox _ _ => True end.

Lemma hole_contains_spec w h p : hole_ok w h -> w <= px p ->
  (hole_contains w h p = true <-> hole_mem h p).
Proof.
  destruct h as [o|nw se]; cbn [hole_ok hole_contains hole_mem]; intros Hw Hp.
  - apply ring_contains_spec; assumption.
  - apply box_in_spec.
Qed.

Lemma no_hole_spec w hs p : (forall h, In h hs -> hole_ok w h) -> w <= px p ->
  (negb (existsb (fun h => hole_contains w h p) hs) = true <-> forall h, In h hs -> ~ hole_mem h p).
Proof.
  intros Hh Hp. rewrite negb_true_iff. split.
  - intros H h Hin Hm. apply (hole_contains_spec w h p (Hh h Hin) Hp) in Hm.
    assert (existsb (fun h => hole_contains w h p) hs = true) by (apply existsb_exists; exists h; auto).
    congruence.
  - intros H. destruct (existsb _ hs) eqn:E; [|reflexivity].
    apply existsb_exists in E. destruct E as (h & Hin & Hc).
    apply (hole_contains_spec w h p (Hh h Hin) Hp) in Hc. exfalso. exact (H h Hin Hc).
Qed.

Theorem poly_contains_spec w o hs p :
  west_ok w o -> (forall h, In h hs -> hole_ok w h) -> w <= px p ->
  (poly_contains w o hs p = true <->
   strict_in p o /\ forall h, In h hs -> ~ hole_mem h p).
Proof.
  intros Hw Hh Hp. unfold poly_contains.
  rewrite <- (no_hole_spec w hs p Hh Hp), <- (ring_contains_spec w p o Hw Hp).
  unfold ring_contains.
  destruct (in_bbox p o), (pip w p o), (negb (existsb _ hs)); cbn; intuition congruence.
Qed.

Theorem box_contains_spec w nw se hs p :
  (forall h, In h hs -> hole_ok w h) -> w <= px p ->
  (box_contains w nw se hs p = true <->
   box_closed nw se p /\ forall h, In h hs -> ~ hole_mem h p).
Proof.
  intros Hh Hp. unfold box_contains.
  rewrite <- (no_hole_spec w hs p Hh Hp), <- box_in_spec.
  destruct (box_in nw se p), (negb (existsb _ hs)); cbn; intuition congruence.
Qed.

(* corollaries named in the property statement *)
Corollary poly_outer_boundary_false w o hs p :
  west_ok w o -> (forall h, In h hs -> hole_ok w h) -> w <= px p ->
  on_boundary p o -> poly_contains w o hs p = false.
Proof.
  intros Hw Hh Hp Hb. destruct (poly_contains w o hs p) eqn:E; [|reflexivity].
  apply (poly_contains_spec w o hs p Hw Hh Hp) in E. destruct E as [[Hn _] _]. contradiction.
Qed.

Corollary poly_hole_boundary_true w o ho p :
  west_ok w o -> west_ok w ho -> w <= px p ->
  strict_in p o -> on_boundary p ho -> poly_contains w o [HPoly ho] p = true.
Proof.
  intros Hw Hho Hp Hs Hb. apply poly_contains_spec; auto.
  - intros h [<-|[]]. exact Hho.
  - split; [assumption|]. intros h [<-|[]] [Hn _]. contradiction.
Qed.

Corollary box_includes_edges w nw se p : w <= px p ->
  box_closed nw se p -> box_contains w nw se [] p = true.
Proof.
  intros Hp H. apply (box_contains_spec w nw se [] p); [intros h []|assumption|].
  split; [assumption|intros h []].
Qed.

(* a coordinate on the edge of a BOX used as a hole is excluded (GeoBox membership is
   inclusive), unlike one on the edge of a polygon hole *)
Lemma box_hole_boundary_refuted :
  exists w o nw se p, west_ok w o /\ w <= px p /\ strict_in p o /\
    px p = px nw /\ box_closed nw se p /\ poly_contains w o [HBox nw se] p = false.
Proof.
  exists (-360), [(0,0); (16,0); (16,16); (0,16); (0,0)], (4, 12), (12, 4), (4, 8).
  split; [intros v Hv; cbn in Hv; repeat (destruct Hv as [<-|Hv]; [cbn; lia|]); destruct Hv|].
  split; [cbn; lia|].
  split.
  - apply (pip_true_iff (-360)); [intros v Hv; cbn in Hv;
      repeat (destruct Hv as [<-|Hv]; [cbn; lia|]); destruct Hv|cbn; lia|vm_compute; reflexivity].
  - split; [reflexivity|]. split; [unfold box_closed; cbn; lia|vm_compute; reflexivity].
Qed.
