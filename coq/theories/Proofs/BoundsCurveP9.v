(* C09, last clause, WEDGES: the radial arms and the combined statements about BoundsWedgeM.wedge_bounds.

   Arms (fixed bearing t, angular distance eps from the inner to the outer radius):
     * sin (latitude) = sin phi cos eps + cos phi cos t sin eps is a unit-frequency sinusoid IN eps, so the
       weighted identities of BoundsCurveP7 apply with the two arm ends as "samples": the sine of the latitude
       exceeds the larger end value by at most h^2/7, h = (outer - inner) / Rearth <= 0.00157 (the interior
       extremum near bearings 90 / 270); that is < 0.1 % of the outer radius.
     * the tangent of the longitude offset is monotone in eps (difference of two values =
       sin t * cos phi * sin (eps2 - eps1) / (G1 G2)): the longitude on an arm lies between its end values.
   The arm ends are the first / last samples of the two arcs, so the whole outline (arcs + arms) is covered.

   Combined: the four numbers of wedge_bounds are attained on the arcs (never overshoot) and are within
   outer_radius / 100 metres of the supremum / infimum of latitude / longitude over the arcs, and over the
   whole outline. *)
From GV Require Import Prelude SphereM SphereP1 SphereP2 SphereP3 SphereP5 CurveM CurveP BoundsCurveM
  BoundsCurveP2 BoundsCurveP3 BoundsCurveP4 BoundsCurveP5 BoundsCurveP6 BoundsWedgeM BoundsCurveP7 BoundsCurveP8.
From Coq Require Import Reals Lra Lia.
Open Scope R_scope.

(* ------------------------------------------------------------------ arms: latitude *)
Lemma rho_bound2 u v :
  0 <= u -> 0 <= v -> u + v <= 175 / 1000 ->
  0 <= sin u + sin v - sin (u + v) <= (u + v) * (u + v) / 7 * sin (u + v).
Proof.
  intros Hu Hv Hh. pose proof PI_gt_3 as P3.
  assert (Su : 0 <= sin u <= u) by (split; [apply sin_ge_0; lra|apply sin_le_x; lra]).
  assert (Sv : 0 <= sin v <= v) by (split; [apply sin_ge_0; lra|apply sin_le_x; lra]).
  assert (Cu : 0 <= 1 - cos u <= u * u / 2) by (pose proof (cos_ge_quad u); pose proof (cos_le_1 u); lra).
  assert (Cv : 0 <= 1 - cos v <= v * v / 2) by (pose proof (cos_ge_quad v); pose proof (cos_le_1 v); lra).
  assert (H3 : 0 <= u + v <= 3) by lra.
  pose proof (sin_ge_cubic (u + v) H3) as Sh.
  set (h := u + v) in *.
  assert (E : sin u + sin v - sin h = sin u * (1 - cos v) + sin v * (1 - cos u)) by (unfold h; rewrite sin_plus; ring).
  rewrite E.
  assert (A1 : 0 <= sin u * (1 - cos v) <= u * (v * v / 2)) by (split; nra).
  assert (A2 : 0 <= sin v * (1 - cos u) <= v * (u * u / 2)) by (split; nra).
  split; [lra|].
  assert (A3 : u * (v * v / 2) + v * (u * u / 2) = u * v * h / 2) by (unfold h; field).
  assert (A4 : u * v <= h * h / 4) by (unfold h; pose proof (Rle_0_sqr (u - v)) as Q; unfold Rsqr in Q; lra).
  assert (A5 : 0 <= h) by (unfold h; lra).
  assert (A6 : u * v * h / 2 <= h * h * h / 8).
  { assert (u * v * h <= h * h / 4 * h) by (apply Rmult_le_compat_r; lra). lra. }
  assert (Hhh : 0 <= h * h <= 175 / 1000 * (175 / 1000)) by nra.
  assert (A7 : h * h * h / 8 <= h * h / 7 * (h - h * h * h / 6)).
  { assert (0 <= h * h * (h * (1 / 7 * (1 - h * h / 6) - 1 / 8))).
    { apply Rmult_le_pos; [lra|]. apply Rmult_le_pos; lra. }
    lra. }
  assert (A8 : h * h / 7 * (h - h * h * h / 6) <= h * h / 7 * sin h) by (apply Rmult_le_compat_l; lra).
  lra.
Qed.

Lemma weighted_s2 phi t eps u v :
  sin v * s2_of phi (eps - u) t + sin u * s2_of phi (eps + v) t = sin (u + v) * s2_of phi eps t.
Proof.
  unfold s2_of. pose proof (weighted_cos eps u v) as C. pose proof (weighted_sin eps u v) as S.
  replace (sin v * (sin phi * cos (eps - u) + cos phi * sin (eps - u) * cos t)
           + sin u * (sin phi * cos (eps + v) + cos phi * sin (eps + v) * cos t))
    with (sin phi * (sin v * cos (eps - u) + sin u * cos (eps + v))
          + cos phi * cos t * (sin v * sin (eps - u) + sin u * sin (eps + v))) by ring.
  rewrite C, S. ring.
Qed.

(* of the two ends of an arm, one has the sine of its latitude within h^2/7 of that of any point between *)
Lemma arm_lat_sample phi t eps u v :
  0 <= u -> 0 <= v -> u + v <= 175 / 1000 ->
  s2_of phi eps t - (u + v) * (u + v) / 7 <= s2_of phi (eps - u) t \/
  s2_of phi eps t - (u + v) * (u + v) / 7 <= s2_of phi (eps + v) t.
Proof.
  intros Hu Hv Hh. pose proof PI_gt_3 as P3.
  destruct (Req_dec (u + v) 0) as [Z|NZ].
  { left. assert (u = 0) by lra. subst u. rewrite Rminus_0_r, Z. lra. }
  destruct (rho_bound2 u v Hu Hv Hh) as [R0 R1].
  assert (Su : 0 <= sin u) by (apply sin_ge_0; lra).
  assert (Sv : 0 <= sin v) by (apply sin_ge_0; lra).
  assert (Sh : 0 < sin (u + v)) by (apply sin_gt_0; lra).
  pose proof (weighted_s2 phi t eps u v) as WS.
  pose proof (s2_range phi (eps - u) t) as Rm. pose proof (s2_range phi (eps + v) t) as Rp.
  set (xm := s2_of phi (eps - u) t) in *. set (xp := s2_of phi (eps + v) t) in *. set (x := s2_of phi eps t) in *.
  set (W := Rmax xm xp).
  pose proof (Rmax_l xm xp) as W1. pose proof (Rmax_r xm xp) as W2. fold W in W1, W2.
  assert (WU : W <= 1) by (unfold W; apply Rmax_lub; lra).
  set (h := u + v) in *. set (q := h * h / 7) in *.
  assert (q0 : 0 <= q) by (unfold q; nra).
  assert (K : sin h * x <= W * (sin u + sin v)) by (rewrite <- WS; nra).
  assert (G : x - q <= W).
  { destruct (Rle_or_lt 0 W) as [Wp|Wn].
    - assert (W * (sin u + sin v) <= W * (sin h + q * sin h)) by (apply Rmult_le_compat_l; lra).
      apply (Rmult_le_reg_l (sin h)); [exact Sh|].
      assert (W * (q * sin h) <= 1 * (q * sin h)) by (apply Rmult_le_compat_r; [apply Rmult_le_pos; lra|lra]).
      lra.
    - assert (W * (sin u + sin v) <= W * sin h) by nra.
      apply (Rmult_le_reg_l (sin h)); [exact Sh|]. nra. }
  unfold W, Rmax in G. destruct (Rle_dec xm xp); [right|left]; exact G.
Qed.

(* the step from sines to latitudes, for any deficit delta *)
Lemma asin_step phi eps t x' delta eta :
  - (5 * (PI / 12)) <= phi <= 5 * (PI / 12) -> cmin <= cos phi -> 0 <= eps <= emax ->
  s2_of phi eps t - delta <= x' -> -1 <= x' <= 1 ->
  0 <= eta <= 1 / 1000 -> delta + eta * eta / 2 <= 1 / 4 * (eta - eta * eta * eta / 6) ->
  asin (s2_of phi eps t) - eta <= asin x'.
Proof.
  intros Hphi Hc He X' Rx' Heta Hd.
  assert (He' : 0 <= eps <= 157 / 100000) by exact He.
  assert (Hc' : 2588 / 10000 <= cos phi) by exact Hc.
  pose proof half_pi_gt as HP.
  assert (Hlo : - (PI / 2) <= phi - eps) by lra. assert (Hhi : phi + eps <= PI / 2) by lra.
  pose proof (lat_le phi eps (proj1 He) Hlo Hhi t) as U. pose proof (lat_ge phi eps (proj1 He) Hlo Hhi t) as L.
  pose proof (cos_lat_lower phi eps Hphi Hc He t) as CN.
  pose proof (s2_range phi eps t) as Rx.
  assert (SN : sin (asin (s2_of phi eps t)) = s2_of phi eps t) by (apply sin_asin; exact Rx).
  set (Nt := asin (s2_of phi eps t)) in *. set (x := s2_of phi eps t) in *.
  apply asin_ge_of; [lra|exact Rx'|].
  apply Rle_trans with (2 := X'). rewrite sin_minus, SN.
  pose proof (cos_ge_quad eta) as C1. pose proof (cos_le_1 eta) as C2.
  pose proof (sin_ge_cubic eta ltac:(lra)) as S1.
  pose proof (cos_le_1 phi) as Cp1.
  assert (Hee : 0 <= eps * eps <= 1 / 100000) by nra.
  set (cl := cos phi * (1 - eps * eps / 2) - eps) in *.
  assert (Hcl : 1 / 4 <= cl).
  { unfold cl. assert (cos phi * (eps * eps / 2) <= 1 * (1 / 100000 / 2)) by (apply Rmult_le_compat; lra). lra. }
  assert (T1 : x * cos eta <= x + eta * eta / 2) by nra.
  assert (S0 : 0 <= eta - eta * eta * eta / 6) by nra.
  assert (T2 : 1 / 4 * (eta - eta * eta * eta / 6) <= cos Nt * sin eta).
  { apply Rmult_le_compat; lra. }
  lra.
Qed.

Section ArmLat.
  Variables phi t ein eout : R.
  Hypothesis Hphi : - (5 * (PI / 12)) <= phi <= 5 * (PI / 12).
  Hypothesis Hc : cmin <= cos phi.
  Hypothesis Hin : 0 <= ein <= eout.
  Hypothesis Hout : eout <= emax.

  Let Hout' : eout <= 157 / 100000. Proof. exact Hout. Qed.

  Lemma arm_budget eps : ein <= eps <= eout ->
    (eps - ein + (eout - eps)) * (eps - ein + (eout - eps)) / 7 + eout / 100 * (eout / 100) / 2
    <= 1 / 4 * (eout / 100 - eout / 100 * (eout / 100) * (eout / 100) / 6).
  Proof.
    intros He. replace (eps - ein + (eout - eps)) with (eout - ein) by ring.
    assert (H1 : (eout - ein) * (eout - ein) <= eout * eout) by nra.
    assert (H2 : 0 <= eout * (1 / 400 * (1 - eout * eout / 60000) - eout / 7 - eout / 20000)).
    { apply Rmult_le_pos; [lra|]. nra. }
    nra.
  Qed.

  Lemma arm_lat_max eps : ein <= eps <= eout ->
    asin (s2_of phi eps t) - eout / 100 <= asin (s2_of phi ein t) \/
    asin (s2_of phi eps t) - eout / 100 <= asin (s2_of phi eout t).
  Proof.
    intros He.
    assert (Heps : 0 <= eps <= emax) by lra.
    destruct (arm_lat_sample phi t eps (eps - ein) (eout - eps) ltac:(lra) ltac:(lra) ltac:(lra)) as [H|H].
    - left. replace (eps - (eps - ein)) with ein in H by ring.
      apply asin_step with (delta := (eps - ein + (eout - eps)) * (eps - ein + (eout - eps)) / 7);
        try assumption; [apply s2_range|lra|apply arm_budget; exact He].
    - right. replace (eps + (eout - eps)) with eout in H by ring.
      apply asin_step with (delta := (eps - ein + (eout - eps)) * (eps - ein + (eout - eps)) / 7);
        try assumption; [apply s2_range|lra|apply arm_budget; exact He].
  Qed.
End ArmLat.

Lemma arm_lat_min phi t ein eout eps :
  - (5 * (PI / 12)) <= phi <= 5 * (PI / 12) -> cmin <= cos phi -> 0 <= ein <= eout -> eout <= emax ->
  ein <= eps <= eout ->
  asin (s2_of phi ein t) <= asin (s2_of phi eps t) + eout / 100 \/
  asin (s2_of phi eout t) <= asin (s2_of phi eps t) + eout / 100.
Proof.
  intros Hphi Hc Hin Hout He.
  assert (Hphi' : - (5 * (PI / 12)) <= - phi <= 5 * (PI / 12)) by lra.
  assert (Hc' : cmin <= cos (- phi)) by (rewrite cos_neg; exact Hc).
  destruct (arm_lat_max (- phi) (t + PI) ein eout Hphi' Hc' Hin Hout eps He) as [K|K];
    rewrite !s2_of_mirror, !asin_opp in K; [left|right]; lra.
Qed.

(* ------------------------------------------------------------------ arms: longitude *)
Lemma ztan_eps_mono phi t e1 e2 :
  cmin <= cos phi <= 1 -> 0 <= e1 -> e1 <= e2 -> e2 <= emax ->
  (0 <= sin t -> ztan phi e1 t <= ztan phi e2 t) /\ (sin t <= 0 -> ztan phi e2 t <= ztan phi e1 t).
Proof.
  intros Hc H1 H12 H2.
  assert (He1 : 0 <= e1 <= emax) by lra. assert (He2 : 0 <= e2 <= emax) by lra.
  assert (Hc' : 2588 / 10000 <= cos phi <= 1) by exact Hc.
  assert (H2' : e2 <= 157 / 100000) by exact H2.
  pose proof (G_pos phi e1 Hc He1 t) as G1. pose proof (G_pos phi e2 Hc He2 t) as G2.
  pose proof (ztan_G phi e1 Hc He1 t) as Z1. pose proof (ztan_G phi e2 Hc He2 t) as Z2.
  set (g1 := cos phi * cos e1 - sin phi * sin e1 * cos t) in *.
  set (g2 := cos phi * cos e2 - sin phi * sin e2 * cos t) in *.
  set (z1 := ztan phi e1 t) in *. set (z2 := ztan phi e2 t) in *.
  assert (Sd : 0 <= sin (e2 - e1)) by (apply sin_ge_0; pose proof PI_gt_3; lra).
  assert (Key : (z2 - z1) * (g1 * g2) = sin t * (cos phi * sin (e2 - e1))).
  { replace ((z2 - z1) * (g1 * g2)) with (z2 * g2 * g1 - z1 * g1 * g2) by ring.
    rewrite Z1, Z2, sin_minus. unfold g1, g2. ring. }
  assert (GG : 0 < g1 * g2) by (apply Rmult_lt_0_compat; lra).
  assert (CS : 0 <= cos phi * sin (e2 - e1)) by (apply Rmult_le_pos; lra).
  split; intros Hs.
  - destruct (Rle_or_lt z1 z2) as [L|L]; [exact L|exfalso].
    assert (0 <= sin t * (cos phi * sin (e2 - e1))) by (apply Rmult_le_pos; assumption).
    assert ((z2 - z1) * (g1 * g2) < 0) by nra. lra.
  - destruct (Rle_or_lt z2 z1) as [L|L]; [exact L|exfalso].
    assert (sin t * (cos phi * sin (e2 - e1)) <= 0) by nra.
    assert (0 < (z2 - z1) * (g1 * g2)) by (apply Rmult_lt_0_compat; lra). lra.
Qed.

Lemma lon_offset_mono_of phi e1 e2 t :
  cmin <= cos phi <= 1 -> 0 <= e1 <= emax -> 0 <= e2 <= emax ->
  ztan phi e1 t <= ztan phi e2 t -> lon_offset phi e1 t <= lon_offset phi e2 t.
Proof.
  intros Hc H1 H2 H. rewrite (lon_offset_eq phi e1 Hc H1), (lon_offset_eq phi e2 Hc H2).
  apply atan_le. exact H.
Qed.

(* on an arm the longitude offset lies between its two end values *)
Lemma arm_lon_between phi t ein eout eps :
  cmin <= cos phi <= 1 -> 0 <= ein <= eout -> eout <= emax -> ein <= eps <= eout ->
  (lon_offset phi eps t <= lon_offset phi ein t \/ lon_offset phi eps t <= lon_offset phi eout t) /\
  (lon_offset phi ein t <= lon_offset phi eps t \/ lon_offset phi eout t <= lon_offset phi eps t).
Proof.
  intros Hc Hin Hout He.
  destruct (ztan_eps_mono phi t ein eps Hc ltac:(lra) ltac:(lra) ltac:(lra)) as [A1 A2].
  destruct (ztan_eps_mono phi t eps eout Hc ltac:(lra) ltac:(lra) ltac:(lra)) as [B1 B2].
  destruct (Rle_or_lt 0 (sin t)) as [P|N].
  - split; [right|left].
    + apply (lon_offset_mono_of phi eps eout t Hc); [lra|lra|exact (B1 P)].
    + apply (lon_offset_mono_of phi ein eps t Hc); [lra|lra|exact (A1 P)].
  - assert (N' : sin t <= 0) by lra. split; [left|right].
    + apply (lon_offset_mono_of phi eps ein t Hc); [lra|lra|exact (A2 N')].
    + apply (lon_offset_mono_of phi eout eps t Hc); [lra|lra|exact (B2 N')].
Qed.

(* ------------------------------------------------------------------ the four numbers of wedge_bounds *)
(* values of a coordinate projection on the two arcs (pr = lat / lon gives wedge_arc_lats / wedge_arc_lons) *)
Definition arc_vals (pr : coord -> R) (s : ring) (y : R) : Prop :=
  exists t, on_arc s t /\
    (y = rad (pr (dest_rad (r_center s) t (r_outer s))) \/ y = rad (pr (dest_rad (r_center s) t (r_inner s)))).

Lemma scale_bounds K x T : 0 < K -> 0 <= x <= T / K -> 0 <= K * x <= T.
Proof.
  intros HK [A B]. split; [apply Rmult_le_pos; lra|].
  apply Rle_trans with (K * (T / K)); [apply Rmult_le_compat_l; lra|right; field; lra].
Qed.

Lemma lub_exists (E : R -> Prop) Ms T : E Ms -> (forall y, E y -> y - T <= Ms) -> exists N, is_lub E N.
Proof.
  intros HM HT. destruct (completeness E) as [N HN].
  - exists (Ms + T). intros y Hy. pose proof (HT y Hy). lra.
  - exists Ms. exact HM.
  - exists N. exact HN.
Qed.

Lemma glb_exists (E : R -> Prop) ms T : E ms -> (forall y, E y -> ms <= y + T) -> exists S, is_glb E S.
Proof.
  intros HM HT. destruct (completeness (fun y => E (- y))) as [N [UB LB]].
  - exists (- ms + T). intros y Hy. pose proof (HT _ Hy). lra.
  - exists (- ms). rewrite Ropp_involutive. exact HM.
  - exists (- N). split.
    + intros y Hy. assert (- y <= N) by (apply UB; rewrite Ropp_involutive; exact Hy). lra.
    + intros b Hb. assert (N <= - b); [|lra]. apply LB. intros y Hy. pose proof (Hb _ Hy). lra.
Qed.

Section Wedge.
  Variable s : ring.
  Variable k : nat.
  Hypothesis Hlat : Rabs (lat (r_center s)) <= 75.
  Hypothesis Hrad : 0 <= r_inner s <= r_outer s.
  Hypothesis Hout : r_outer s <= 10000.
  Hypothesis Hspan : 0 < r_amax s - r_amin s < 360.
  Hypothesis Hk : (1 <= k)%nat.
  Hypothesis Hstep : (r_amax s - r_amin s) / INR k <= 10.

  Let c := r_center s.
  Let pts := ring_pts s k.
  Let cphi := cos (rad (lat c)).
  Let T := r_outer s / Rearth / 100.

  Let Hfull : ring_is_full s = false. Proof. apply wedge_not_full. lra. Qed.
  Let Hm : r_amin s <= r_amax s. Proof. lra. Qed.
  Let Re0 : 0 < Rearth. Proof. unfold Rearth; lra. Qed.
  Let Hcphi : 2588 / 10000 <= cphi <= 1. Proof. exact (proj1 (centre_facts' _ Hlat)). Qed.
  Let HrO : 0 <= r_outer s <= 10000. Proof. lra. Qed.
  Let HrI : 0 <= r_inner s <= 10000. Proof. lra. Qed.
  Let HTi : r_inner s / Rearth / 100 <= T.
  Proof.
    unfold T. assert (0 < / Rearth) by (apply Rinv_0_lt_compat; exact Re0).
    unfold Rdiv. assert (r_inner s * / Rearth <= r_outer s * / Rearth) by (apply Rmult_le_compat_r; lra). lra.
  Qed.

  Lemma map_nonempty (pr : coord -> R) : map pr pts <> [].
  Proof.
    intros F. apply (f_equal (@length _)) in F. rewrite map_length in F.
    pose proof (wedge_pts_nonempty s k) as NE. fold pts in NE. destruct pts; [contradiction|discriminate].
  Qed.

  (* every sample is a point of one of the two arcs *)
  Lemma sample_in_arc (pr : coord -> R) x : In x (map pr pts) -> arc_vals pr s (rad x).
  Proof.
    intros H. apply in_map_iff in H as (p & <- & Hp). apply (in_wedge_pts s k p Hfull) in Hp as (i & Hi & Hp).
    exists (ring_angle s k i). split; [apply ring_angle_on_arc; assumption|].
    destruct Hp as [-> | ->]; [left|right]; reflexivity.
  Qed.

  Lemma max_in_arc pr : arc_vals pr s (rad (rmax_list (map pr pts))).
  Proof. apply sample_in_arc, rmax_list_in, map_nonempty. Qed.
  Lemma min_in_arc pr : arc_vals pr s (rad (rmin_list (map pr pts))).
  Proof. apply sample_in_arc, rmin_list_in, map_nonempty. Qed.

  Lemma sample_le_max (pr : coord -> R) i : (i <= k)%nat ->
    rad (pr (ring_outer_pt s k i)) <= rad (rmax_list (map pr pts)) /\
    rad (pr (ring_inner_pt s k i)) <= rad (rmax_list (map pr pts)).
  Proof.
    intros Hi. split; apply rad_le, rmax_list_ge, in_map, (in_wedge_pts s k _ Hfull); exists i;
      (split; [exact Hi|]); [left|right]; reflexivity.
  Qed.
  Lemma sample_ge_min (pr : coord -> R) i : (i <= k)%nat ->
    rad (rmin_list (map pr pts)) <= rad (pr (ring_outer_pt s k i)) /\
    rad (rmin_list (map pr pts)) <= rad (pr (ring_inner_pt s k i)).
  Proof.
    intros Hi. split; apply rad_le, rmin_list_le, in_map, (in_wedge_pts s k _ Hfull); exists i;
      (split; [exact Hi|]); [left|right]; reflexivity.
  Qed.

  (* ---- arcs: no arc point is more than T (radians; cos phi * radians for longitude) outside a bound ---- *)
  Lemma arc_lat_below_max y : wedge_arc_lats s y -> y - T <= rad (rb_maxlat (wedge_bounds s k)).
  Proof.
    unfold wedge_bounds, rb_maxlat; cbn [snd]. fold pts.
    intros (t & Ht & [-> | ->]).
    - destruct (arc_lat_sampled_max s k Hlat Hk (proj1 Hspan) Hstep _ t HrO Ht) as (i & Hi & H).
      destruct (sample_le_max lat i Hi) as [A _]. unfold curve_lat in H. fold c in H.
      unfold ring_outer_pt in A. fold c in A |- *. unfold T. lra.
    - destruct (arc_lat_sampled_max s k Hlat Hk (proj1 Hspan) Hstep _ t HrI Ht) as (i & Hi & H).
      destruct (sample_le_max lat i Hi) as [_ A]. unfold curve_lat in H. fold c in H.
      unfold ring_inner_pt in A. fold c in A |- *. lra.
  Qed.

  Lemma arc_lat_above_min y : wedge_arc_lats s y -> rad (rb_minlat (wedge_bounds s k)) <= y + T.
  Proof.
    unfold wedge_bounds, rb_minlat; cbn [fst snd]. fold pts.
    intros (t & Ht & [-> | ->]).
    - destruct (arc_lat_sampled_min s k Hlat Hk (proj1 Hspan) Hstep _ t HrO Ht) as (i & Hi & H).
      destruct (sample_ge_min lat i Hi) as [A _]. unfold curve_lat in H. fold c in H.
      unfold ring_outer_pt in A. fold c in A |- *. unfold T. lra.
    - destruct (arc_lat_sampled_min s k Hlat Hk (proj1 Hspan) Hstep _ t HrI Ht) as (i & Hi & H).
      destruct (sample_ge_min lat i Hi) as [_ A]. unfold curve_lat in H. fold c in H.
      unfold ring_inner_pt in A. fold c in A |- *. lra.
  Qed.

  Lemma arc_lon_below_max y : wedge_arc_lons s y -> y - T / cphi <= rad (rb_maxlon (wedge_bounds s k)).
  Proof.
    unfold wedge_bounds, rb_maxlon; cbn [fst snd]. fold pts.
    assert (Q : forall a b q, cphi * (a - b) <= q -> q <= T -> a - T / cphi <= b).
    { intros a b q H1 H2. assert (a - b <= T / cphi); [|lra].
      apply (Rmult_le_reg_l cphi); [lra|]. replace (cphi * (T / cphi)) with T by (field; lra). lra. }
    intros (t & Ht & [-> | ->]).
    - destruct (arc_lon_sampled_max s k Hlat Hk (proj1 Hspan) Hstep _ t HrO Ht) as (i & Hi & H).
      destruct (sample_le_max lon i Hi) as [A _]. unfold curve_lon in H. fold c cphi in H.
      unfold ring_outer_pt in A. fold c in A |- *.
      apply Rle_trans with (2 := A). apply (Q _ _ _ H). unfold T; lra.
    - destruct (arc_lon_sampled_max s k Hlat Hk (proj1 Hspan) Hstep _ t HrI Ht) as (i & Hi & H).
      destruct (sample_le_max lon i Hi) as [_ A]. unfold curve_lon in H. fold c cphi in H.
      unfold ring_inner_pt in A. fold c in A |- *.
      apply Rle_trans with (2 := A). apply (Q _ _ _ H). exact HTi.
  Qed.

  Lemma arc_lon_above_min y : wedge_arc_lons s y -> rad (rb_minlon (wedge_bounds s k)) <= y + T / cphi.
  Proof.
    unfold wedge_bounds, rb_minlon; cbn [fst snd]. fold pts.
    assert (Q : forall a b q, cphi * (b - a) <= q -> q <= T -> b <= a + T / cphi).
    { intros a b q H1 H2. assert (b - a <= T / cphi); [|lra].
      apply (Rmult_le_reg_l cphi); [lra|]. replace (cphi * (T / cphi)) with T by (field; lra). lra. }
    intros (t & Ht & [-> | ->]).
    - destruct (arc_lon_sampled_min s k Hlat Hk (proj1 Hspan) Hstep _ t HrO Ht) as (i & Hi & H).
      destruct (sample_ge_min lon i Hi) as [A _]. unfold curve_lon in H. fold c cphi in H.
      unfold ring_outer_pt in A. fold c in A |- *.
      apply Rle_trans with (1 := A). apply (Q _ _ _ H). unfold T; lra.
    - destruct (arc_lon_sampled_min s k Hlat Hk (proj1 Hspan) Hstep _ t HrI Ht) as (i & Hi & H).
      destruct (sample_ge_min lon i Hi) as [_ A]. unfold curve_lon in H. fold c cphi in H.
      unfold ring_inner_pt in A. fold c in A |- *.
      apply Rle_trans with (1 := A). apply (Q _ _ _ H). exact HTi.
  Qed.

  (* the four numbers are themselves values taken on the arcs: the bounds never overshoot *)
  Lemma bounds_attained :
    let b := wedge_bounds s k in
    wedge_arc_lats s (rad (rb_maxlat b)) /\ wedge_arc_lats s (rad (rb_minlat b)) /\
    wedge_arc_lons s (rad (rb_maxlon b)) /\ wedge_arc_lons s (rad (rb_minlon b)).
  Proof.
    cbv zeta. unfold wedge_bounds, rb_maxlat, rb_minlat, rb_maxlon, rb_minlon; cbn [fst snd]. fold pts.
    split; [exact (max_in_arc lat)|]. split; [exact (min_in_arc lat)|].
    split; [exact (max_in_arc lon)|exact (min_in_arc lon)].
  Qed.

  (* ---- the clause for the two arcs ---- *)
  Theorem wedge_bounds_match_arc_extents N S E W :
    is_lub (wedge_arc_lats s) N -> is_glb (wedge_arc_lats s) S ->
    is_lub (wedge_arc_lons s) E -> is_glb (wedge_arc_lons s) W ->
    let b := wedge_bounds s k in
    0 <= Rearth * (N - rad (rb_maxlat b)) <= r_outer s / 100 /\
    0 <= Rearth * (rad (rb_minlat b) - S) <= r_outer s / 100 /\
    0 <= Rearth * cos (rad (lat (r_center s))) * (E - rad (rb_maxlon b)) <= r_outer s / 100 /\
    0 <= Rearth * cos (rad (lat (r_center s))) * (rad (rb_minlon b) - W) <= r_outer s / 100.
  Proof.
    intros HN HS HE HW b. destruct bounds_attained as (A1 & A2 & A3 & A4). fold b in A1, A2, A3, A4.
    fold c cphi.
    assert (ET : r_outer s / 100 / Rearth = T) by (unfold T; field; lra).
    assert (ETc : r_outer s / 100 / (Rearth * cphi) = T / cphi) by (unfold T; field; lra).
    assert (Kc : 0 < Rearth * cphi) by (apply Rmult_lt_0_compat; lra).
    split; [|split; [|split]].
    - apply scale_bounds; [exact Re0|]. rewrite ET. exact (lub_within _ _ _ _ A1 arc_lat_below_max HN).
    - apply scale_bounds; [exact Re0|]. rewrite ET. exact (glb_within _ _ _ _ A2 arc_lat_above_min HS).
    - apply scale_bounds; [exact Kc|]. rewrite ETc. exact (lub_within _ _ _ _ A3 arc_lon_below_max HE).
    - apply scale_bounds; [exact Kc|]. rewrite ETc. exact (glb_within _ _ _ _ A4 arc_lon_above_min HW).
  Qed.

  (* ---- arms: every arm point is within T of an arm END, and the arm ends are samples ---- *)
  Let Hphi : - (5 * (PI / 12)) <= rad (lat c) <= 5 * (PI / 12). Proof. apply (centre_facts _ Hlat). Qed.
  Let Hcc : cmin <= cos (rad (lat c)) <= 1. Proof. apply (centre_facts' _ Hlat). Qed.
  Let Hein : 0 <= r_inner s / Rearth <= r_outer s / Rearth.
  Proof.
    assert (0 < / Rearth) by (apply Rinv_0_lt_compat; exact Re0). unfold Rdiv. split.
    - apply Rmult_le_pos; lra.
    - apply Rmult_le_compat_r; lra.
  Qed.
  Let Heout : r_outer s / Rearth <= emax. Proof. apply (radius_facts _ HrO). Qed.

  Lemma arm_eps d : r_inner s <= d <= r_outer s -> r_inner s / Rearth <= d / Rearth <= r_outer s / Rearth.
  Proof.
    intros Hd. assert (0 < / Rearth) by (apply Rinv_0_lt_compat; exact Re0). unfold Rdiv.
    split; apply Rmult_le_compat_r; lra.
  Qed.

  (* the two arm bearings are the first and the last sample bearing *)
  Lemma arm_bearing_sampled t :
    t = rad (r_amin s) \/ t = rad (r_amax s) -> exists i, (i <= k)%nat /\ t = ring_angle s k i.
  Proof.
    intros [-> | ->].
    - exists 0%nat. split; [lia|]. symmetry. apply ring_angle_first.
    - exists k. split; [lia|]. symmetry. apply ring_angle_last. exact Hk.
  Qed.

  Lemma arm_lat_below_max y : wedge_arm_lats s y -> y - T <= rad (rb_maxlat (wedge_bounds s k)).
  Proof.
    unfold wedge_bounds, rb_maxlat; cbn [snd]. fold pts.
    intros (d & Hd & Hy).
    assert (exists t, (t = rad (r_amin s) \/ t = rad (r_amax s)) /\ y = rad (lat (dest_rad c t d))) as (t & Ht & ->).
    { destruct Hy as [-> | ->]; eexists; (split; [|reflexivity]); [left|right]; reflexivity. }
    destruct (arm_bearing_sampled t Ht) as (i & Hi & ->).
    destruct (sample_le_max lat i Hi) as [AO AI]. unfold ring_outer_pt, ring_inner_pt in AO, AI. fold c in AO, AI.
    rewrite lat_of_dest in AO, AI |- *.
    destruct (arm_lat_max _ (ring_angle s k i) _ _ Hphi (proj1 Hcc) Hein Heout _ (arm_eps d Hd)) as [H|H];
      unfold T; lra.
  Qed.

  Lemma arm_lat_above_min y : wedge_arm_lats s y -> rad (rb_minlat (wedge_bounds s k)) <= y + T.
  Proof.
    unfold wedge_bounds, rb_minlat; cbn [fst snd]. fold pts.
    intros (d & Hd & Hy).
    assert (exists t, (t = rad (r_amin s) \/ t = rad (r_amax s)) /\ y = rad (lat (dest_rad c t d))) as (t & Ht & ->).
    { destruct Hy as [-> | ->]; eexists; (split; [|reflexivity]); [left|right]; reflexivity. }
    destruct (arm_bearing_sampled t Ht) as (i & Hi & ->).
    destruct (sample_ge_min lat i Hi) as [AO AI]. unfold ring_outer_pt, ring_inner_pt in AO, AI. fold c in AO, AI.
    rewrite lat_of_dest in AO, AI |- *.
    destruct (arm_lat_min _ (ring_angle s k i) _ _ _ Hphi (proj1 Hcc) Hein Heout (arm_eps d Hd)) as [H|H];
      unfold T; lra.
  Qed.

  Lemma T_nonneg : 0 <= T / cphi.
  Proof. unfold T. apply div_pos_nonneg; [lra|]. apply div_pos_nonneg; [lra|]. apply div_pos_nonneg; lra. Qed.

  Lemma arm_lon_below_max y : wedge_arm_lons s y -> y - T / cphi <= rad (rb_maxlon (wedge_bounds s k)).
  Proof.
    unfold wedge_bounds, rb_maxlon; cbn [fst snd]. fold pts. pose proof T_nonneg as T0.
    intros (d & Hd & Hy).
    assert (exists t, (t = rad (r_amin s) \/ t = rad (r_amax s)) /\ y = rad (lon (dest_rad c t d))) as (t & Ht & ->).
    { destruct Hy as [-> | ->]; eexists; (split; [|reflexivity]); [left|right]; reflexivity. }
    destruct (arm_bearing_sampled t Ht) as (i & Hi & ->).
    destruct (sample_le_max lon i Hi) as [AO AI]. unfold ring_outer_pt, ring_inner_pt in AO, AI. fold c in AO, AI.
    rewrite lon_of_dest' in AO, AI |- *.
    destruct (arm_lon_between _ (ring_angle s k i) _ _ _ Hcc Hein Heout (arm_eps d Hd)) as [[H|H] _]; lra.
  Qed.

  Lemma arm_lon_above_min y : wedge_arm_lons s y -> rad (rb_minlon (wedge_bounds s k)) <= y + T / cphi.
  Proof.
    unfold wedge_bounds, rb_minlon; cbn [fst snd]. fold pts. pose proof T_nonneg as T0.
    intros (d & Hd & Hy).
    assert (exists t, (t = rad (r_amin s) \/ t = rad (r_amax s)) /\ y = rad (lon (dest_rad c t d))) as (t & Ht & ->).
    { destruct Hy as [-> | ->]; eexists; (split; [|reflexivity]); [left|right]; reflexivity. }
    destruct (arm_bearing_sampled t Ht) as (i & Hi & ->).
    destruct (sample_ge_min lon i Hi) as [AO AI]. unfold ring_outer_pt, ring_inner_pt in AO, AI. fold c in AO, AI.
    rewrite lon_of_dest' in AO, AI |- *.
    destruct (arm_lon_between _ (ring_angle s k i) _ _ _ Hcc Hein Heout (arm_eps d Hd)) as [_ [H|H]]; lra.
  Qed.

  (* ---- the clause for the whole outline: arcs and arms ---- *)
  Theorem wedge_bounds_match_outline_extents N S E W :
    is_lub (wedge_outline_lats s) N -> is_glb (wedge_outline_lats s) S ->
    is_lub (wedge_outline_lons s) E -> is_glb (wedge_outline_lons s) W ->
    let b := wedge_bounds s k in
    0 <= Rearth * (N - rad (rb_maxlat b)) <= r_outer s / 100 /\
    0 <= Rearth * (rad (rb_minlat b) - S) <= r_outer s / 100 /\
    0 <= Rearth * cos (rad (lat (r_center s))) * (E - rad (rb_maxlon b)) <= r_outer s / 100 /\
    0 <= Rearth * cos (rad (lat (r_center s))) * (rad (rb_minlon b) - W) <= r_outer s / 100.
  Proof.
    intros HN HS HE HW b. destruct bounds_attained as (A1 & A2 & A3 & A4). fold b in A1, A2, A3, A4.
    fold c cphi.
    assert (ET : r_outer s / 100 / Rearth = T) by (unfold T; field; lra).
    assert (ETc : r_outer s / 100 / (Rearth * cphi) = T / cphi) by (unfold T; field; lra).
    assert (Kc : 0 < Rearth * cphi) by (apply Rmult_lt_0_compat; lra).
    split; [|split; [|split]].
    - apply scale_bounds; [exact Re0|]. rewrite ET.
      apply (lub_within (wedge_outline_lats s)); [left; exact A1| |exact HN].
      intros y [Hy|Hy]; [apply arc_lat_below_max|apply arm_lat_below_max]; exact Hy.
    - apply scale_bounds; [exact Re0|]. rewrite ET.
      apply (glb_within (wedge_outline_lats s)); [left; exact A2| |exact HS].
      intros y [Hy|Hy]; [apply arc_lat_above_min|apply arm_lat_above_min]; exact Hy.
    - apply scale_bounds; [exact Kc|]. rewrite ETc.
      apply (lub_within (wedge_outline_lons s)); [left; exact A3| |exact HE].
      intros y [Hy|Hy]; [apply arc_lon_below_max|apply arm_lon_below_max]; exact Hy.
    - apply scale_bounds; [exact Kc|]. rewrite ETc.
      apply (glb_within (wedge_outline_lons s)); [left; exact A4| |exact HW].
      intros y [Hy|Hy]; [apply arc_lon_above_min|apply arm_lon_above_min]; exact Hy.
  Qed.

  (* the extents exist (completeness of R): the theorems above are not vacuous *)
  Theorem wedge_extents_exist :
    (exists N S E W, is_lub (wedge_arc_lats s) N /\ is_glb (wedge_arc_lats s) S /\
                     is_lub (wedge_arc_lons s) E /\ is_glb (wedge_arc_lons s) W) /\
    (exists N S E W, is_lub (wedge_outline_lats s) N /\ is_glb (wedge_outline_lats s) S /\
                     is_lub (wedge_outline_lons s) E /\ is_glb (wedge_outline_lons s) W).
  Proof.
    destruct bounds_attained as (A1 & A2 & A3 & A4). split.
    - destruct (lub_exists _ _ _ A1 arc_lat_below_max) as [N HN].
      destruct (glb_exists _ _ _ A2 arc_lat_above_min) as [S HS].
      destruct (lub_exists _ _ _ A3 arc_lon_below_max) as [E HE].
      destruct (glb_exists _ _ _ A4 arc_lon_above_min) as [W HW].
      exists N, S, E, W. split; [exact HN|]. split; [exact HS|]. split; [exact HE|exact HW].
    - destruct (lub_exists (wedge_outline_lats s) _ T (or_introl A1)) as [N HN].
      { intros y [Hy|Hy]; [apply arc_lat_below_max|apply arm_lat_below_max]; exact Hy. }
      destruct (glb_exists (wedge_outline_lats s) _ T (or_introl A2)) as [S HS].
      { intros y [Hy|Hy]; [apply arc_lat_above_min|apply arm_lat_above_min]; exact Hy. }
      destruct (lub_exists (wedge_outline_lons s) _ (T / cphi) (or_introl A3)) as [E HE].
      { intros y [Hy|Hy]; [apply arc_lon_below_max|apply arm_lon_below_max]; exact Hy. }
      destruct (glb_exists (wedge_outline_lons s) _ (T / cphi) (or_introl A4)) as [W HW].
      { intros y [Hy|Hy]; [apply arc_lon_above_min|apply arm_lon_above_min]; exact Hy. }
      exists N, S, E, W. split; [exact HN|]. split; [exact HS|]. split; [exact HE|exact HW].
  Qed.
End Wedge.

(* ------------------------------------------------------------------ with the default number of segments *)
Theorem wedge_bounds_default_match_outline_extents s N S E W :
  Rabs (lat (r_center s)) <= 75 -> 0 <= r_inner s <= r_outer s -> r_outer s <= 10000 ->
  0 < r_amax s - r_amin s < 360 ->
  is_lub (wedge_outline_lats s) N -> is_glb (wedge_outline_lats s) S ->
  is_lub (wedge_outline_lons s) E -> is_glb (wedge_outline_lons s) W ->
  let b := wedge_bounds_default s in
  0 <= Rearth * (N - rad (rb_maxlat b)) <= r_outer s / 100 /\
  0 <= Rearth * (rad (rb_minlat b) - S) <= r_outer s / 100 /\
  0 <= Rearth * cos (rad (lat (r_center s))) * (E - rad (rb_maxlon b)) <= r_outer s / 100 /\
  0 <= Rearth * cos (rad (lat (r_center s))) * (rad (rb_minlon b) - W) <= r_outer s / 100.
Proof.
  intros Hl Hr Ho Hs HN HS HE HW. destruct (ring_default_k_ok s) as [K1 K2].
  apply wedge_bounds_match_outline_extents; try assumption. lia.
Qed.

Theorem wedge_bounds_default_match_arc_extents s N S E W :
  Rabs (lat (r_center s)) <= 75 -> 0 <= r_inner s <= r_outer s -> r_outer s <= 10000 ->
  0 < r_amax s - r_amin s < 360 ->
  is_lub (wedge_arc_lats s) N -> is_glb (wedge_arc_lats s) S ->
  is_lub (wedge_arc_lons s) E -> is_glb (wedge_arc_lons s) W ->
  let b := wedge_bounds_default s in
  0 <= Rearth * (N - rad (rb_maxlat b)) <= r_outer s / 100 /\
  0 <= Rearth * (rad (rb_minlat b) - S) <= r_outer s / 100 /\
  0 <= Rearth * cos (rad (lat (r_center s))) * (E - rad (rb_maxlon b)) <= r_outer s / 100 /\
  0 <= Rearth * cos (rad (lat (r_center s))) * (rad (rb_minlon b) - W) <= r_outer s / 100.
Proof.
  intros Hl Hr Ho Hs HN HS HE HW. destruct (ring_default_k_ok s) as [K1 K2].
  apply wedge_bounds_match_arc_extents; try assumption. lia.
Qed.

(* the wedge branch of GeoRing.bounds is taken exactly when the angle range is below 360 degrees *)
Lemma ring_bounds_unrounded_spec s :
  (360 <= r_amax s - r_amin s -> ring_bounds_unrounded s = circle_bounds (r_center s) (r_outer s)) /\
  (r_amax s - r_amin s < 360 -> ring_bounds_unrounded s = wedge_bounds_default s).
Proof.
  unfold ring_bounds_unrounded, rleb. destruct (Rle_dec 360 (r_amax s - r_amin s)); split; intros; try reflexivity; lra.
Qed.

(* ------------------------------------------------------------------ the hypotheses are satisfiable *)
Lemma nonvacuous_wedge :
  let s := mkring (10, 60) 2000 5000 30 130 [] in
  Rabs (lat (r_center s)) <= 75 /\ 0 <= r_inner s <= r_outer s /\ r_outer s <= 10000 /\
  0 < r_amax s - r_amin s < 360 /\ ring_default_k s = 10%nat /\
  (exists N S E W, is_lub (wedge_outline_lats s) N /\ is_glb (wedge_outline_lats s) S /\
                   is_lub (wedge_outline_lons s) E /\ is_glb (wedge_outline_lons s) W).
Proof.
  intros s.
  assert (L : Rabs (lat (r_center s)) <= 75) by (unfold s, lat; cbn; rewrite Rabs_right; lra).
  assert (H1 : 0 <= r_inner s <= r_outer s) by (unfold s; cbn; lra).
  assert (H2 : r_outer s <= 10000) by (unfold s; cbn; lra).
  assert (H3 : 0 < r_amax s - r_amin s < 360) by (unfold s; cbn; lra).
  assert (K : ring_default_k s = 10%nat).
  { unfold ring_default_k, Rceil. cbn [r_amax r_amin s].
    assert (E : Int_part (- ((130 - 30) / 10)) = (-10)%Z).
    { apply Int_part_spec. replace (- ((130 - 30) / 10)) with (-10) by field. simpl. lra. }
    rewrite E. reflexivity. }
  split; [exact L|]. split; [exact H1|]. split; [exact H2|]. split; [exact H3|]. split; [exact K|].
  destruct (ring_default_k_ok s) as [K1 K2].
  exact (proj2 (wedge_extents_exist s (ring_default_k s) L H1 H2 H3 ltac:(lia) K2)).
Qed.
