(* C09, last clause, WEDGES (GeoRing.bounds, branch angle_max - angle_min < 360): infrastructure and the
   latitude part.  The code takes min / max of latitude and longitude over bounding_coords(): the k+1
   samples of the outer arc, the k+1 samples of the inner arc, and the first point again
   (BoundsWedgeM.wedge_bounds over CurveM.ring_pts).  Consecutive sample bearings are h = (amax-amin)/k
   <= 10 degrees apart and BOTH end bearings are samples.

   The key estimate needs no case analysis on where the extreme bearing lies: for a bearing t between two
   consecutive samples t-u and t+v (u, v >= 0, u+v = h),
        sin v * cos (t-u) + sin u * cos (t+v) = sin (u+v) * cos t            (weighted_cos)
   so the larger of the two sample cosines W satisfies  sin h * cos t <= W * (sin u + sin v), and
        0 <= sin u + sin v - sin (u+v) <= 0.0039 * sin (u+v)   for u+v <= 0.175 (> 10 degrees)   (rho_bound).
   Hence W >= cos t - 0.0039.  sin (latitude) = sin phi cos e + cos phi sin e cos t is increasing in cos t,
   and the step from the sine to the angle is made with asin_ge_of as in BoundsCurveP2. *)
From GV Require Import Prelude SphereM SphereP1 SphereP2 SphereP3 SphereP5 CurveM CurveP BoundsCurveM
  BoundsCurveP2 BoundsCurveP3 BoundsCurveP4 BoundsCurveP5 BoundsCurveP6 BoundsWedgeM.
From Coq Require Import Reals Lra Lia.
Open Scope R_scope.

(* ------------------------------------------------------------------ min / max of a list *)
Lemma fold_max_spec l a :
  a <= fold_left Rmax l a /\ (forall x, In x l -> x <= fold_left Rmax l a) /\
  (fold_left Rmax l a = a \/ In (fold_left Rmax l a) l).
Proof.
  revert a. induction l as [|y l IH]; intros a; cbn [fold_left].
  - split; [lra|]. split; [intros x []|left; reflexivity].
  - destruct (IH (Rmax a y)) as (A & B & C).
    pose proof (Rmax_l a y). pose proof (Rmax_r a y).
    split; [lra|]. split.
    + intros x [<-|Hx]; [lra|apply B, Hx].
    + destruct C as [C|C]; [|right; right; exact C].
      rewrite C. unfold Rmax. destruct (Rle_dec a y); [right; left; reflexivity|left; reflexivity].
Qed.

Lemma fold_min_spec l a :
  fold_left Rmin l a <= a /\ (forall x, In x l -> fold_left Rmin l a <= x) /\
  (fold_left Rmin l a = a \/ In (fold_left Rmin l a) l).
Proof.
  revert a. induction l as [|y l IH]; intros a; cbn [fold_left].
  - split; [lra|]. split; [intros x []|left; reflexivity].
  - destruct (IH (Rmin a y)) as (A & B & C).
    pose proof (Rmin_l a y). pose proof (Rmin_r a y).
    split; [lra|]. split.
    + intros x [<-|Hx]; [lra|apply B, Hx].
    + destruct C as [C|C]; [|right; right; exact C].
      rewrite C. unfold Rmin. destruct (Rle_dec a y); [left; reflexivity|right; left; reflexivity].
Qed.

Lemma rmax_list_ge l x : In x l -> x <= rmax_list l.
Proof.
  destruct l as [|a l]; [intros []|]. cbn [rmax_list]. destruct (fold_max_spec l a) as (A & B & _).
  intros [<-|H]; [exact A|apply B, H].
Qed.
Lemma rmax_list_in l : l <> [] -> In (rmax_list l) l.
Proof.
  destruct l as [|a l]; [intros H; contradiction|intros _]. cbn [rmax_list].
  destruct (fold_max_spec l a) as (_ & _ & [C|C]); [left; symmetry; exact C|right; exact C].
Qed.
Lemma rmin_list_le l x : In x l -> rmin_list l <= x.
Proof.
  destruct l as [|a l]; [intros []|]. cbn [rmin_list]. destruct (fold_min_spec l a) as (A & B & _).
  intros [<-|H]; [exact A|apply B, H].
Qed.
Lemma rmin_list_in l : l <> [] -> In (rmin_list l) l.
Proof.
  destruct l as [|a l]; [intros H; contradiction|intros _]. cbn [rmin_list].
  destruct (fold_min_spec l a) as (_ & _ & [C|C]); [left; symmetry; exact C|right; exact C].
Qed.

(* ------------------------------------------------------------------ the points of a wedge outline *)
Lemma in_schedule k i : In i (schedule k) <-> (i <= k)%nat.
Proof. unfold schedule. rewrite <- in_rev, in_seq. lia. Qed.

Lemma wedge_not_full s : r_amax s - r_amin s < 360 -> ring_is_full s = false.
Proof.
  intros H. unfold ring_is_full.
  destruct (reqb (r_amin s) 0) eqn:E1; [|reflexivity].
  destruct (reqb (r_amax s) 360) eqn:E2; [|reflexivity].
  apply reqb_true in E1, E2. lra.
Qed.

Lemma in_wedge_pts s k p :
  ring_is_full s = false ->
  (In p (ring_pts s k) <->
   exists i, (i <= k)%nat /\ (p = ring_outer_pt s k i \/ p = ring_inner_pt s k i)).
Proof.
  intros E. unfold ring_pts. rewrite E.
  assert (O : forall q, In q (ring_outer_pts s k) <-> exists i, (i <= k)%nat /\ q = ring_outer_pt s k i).
  { intros q. unfold ring_outer_pts. rewrite in_map_iff. split.
    - intros (i & <- & Hi). exists i. split; [apply in_schedule, Hi|reflexivity].
    - intros (i & Hi & ->). exists i. split; [reflexivity|apply in_schedule, Hi]. }
  assert (I : forall q, In q (ring_inner_pts s k) <-> exists i, (i <= k)%nat /\ q = ring_inner_pt s k i).
  { intros q. unfold ring_inner_pts. rewrite in_map_iff. split.
    - intros (i & <- & Hi). exists i. split; [apply in_schedule, Hi|reflexivity].
    - intros (i & Hi & ->). exists i. split; [reflexivity|apply in_schedule, Hi]. }
  rewrite !in_app_iff, <- in_rev. split.
  - intros [H|[H|H]].
    + apply O in H as (i & Hi & ->). exists i. split; [exact Hi|left; reflexivity].
    + apply I in H as (i & Hi & ->). exists i. split; [exact Hi|right; reflexivity].
    + destruct H as [H|[]]. subst p.
      assert (In (hd (0, 0) (ring_outer_pts s k)) (ring_outer_pts s k)) as H.
      { destruct (ring_outer_pts s k) eqn:F; [|left; reflexivity].
        unfold ring_outer_pts in F. apply (f_equal (@length _)) in F.
        rewrite map_length, schedule_length in F. discriminate. }
      apply O in H as (i & Hi & ->). exists i. split; [exact Hi|left; reflexivity].
  - intros (i & Hi & [->| ->]).
    + left. apply O. exists i. split; [exact Hi|reflexivity].
    + right; left. apply I. exists i. split; [exact Hi|reflexivity].
Qed.

Lemma wedge_pts_nonempty s k : ring_pts s k <> [].
Proof.
  intros F. apply (f_equal (@length _)) in F.
  destruct (ring_pts_shape s k) as [A B]. destruct (ring_is_full s) eqn:E.
  - destruct (A eq_refl) as [_ L]. rewrite L in F. discriminate.
  - destruct (B eq_refl) as [L _]. rewrite L in F. discriminate.
Qed.

(* ------------------------------------------------------------------ the sample bearings *)
(* the step between consecutive samples, radians *)
Definition wedge_step (s : ring) (k : nat) : R := rad ((r_amax s - r_amin s) / INR k).

Lemma ring_angle_lin s k i : ring_angle s k i = rad (r_amin s) + wedge_step s k * INR i.
Proof. unfold ring_angle, ring_angle_deg, wedge_step, rad, Rdiv. ring. Qed.

Lemma ring_angle_first s k : ring_angle s k 0 = rad (r_amin s).
Proof. rewrite ring_angle_lin. simpl. ring. Qed.

Lemma ring_angle_last s k : (1 <= k)%nat -> ring_angle s k k = rad (r_amax s).
Proof.
  intros Hk. assert (0 < INR k) by (apply lt_0_INR; lia).
  unfold ring_angle, ring_angle_deg, rad. field. lra.
Qed.

Lemma ring_angle_on_arc s k i :
  (1 <= k)%nat -> (i <= k)%nat -> r_amin s <= r_amax s -> on_arc s (ring_angle s k i).
Proof.
  intros Hk Hi Hm. unfold on_arc. rewrite ring_angle_rad.
  destruct (ring_angle_deg_range s k i ltac:(lia) Hi Hm) as [A B]. split; apply rad_le; assumption.
Qed.

(* a value between the first and the last term of a sequence lies between two consecutive terms *)
Lemma bracket (g : nat -> R) n t :
  (1 <= n)%nat -> g 0%nat <= t <= g n -> exists j, (j < n)%nat /\ g j <= t <= g (S j).
Proof.
  induction n as [|n IH]; [lia|]. intros _ [A B].
  destruct (Nat.eq_dec n 0) as [->|Hn]; [exists 0%nat; split; [lia|lra]|].
  destruct (Rle_or_lt t (g n)) as [L|L].
  - destruct (IH ltac:(lia) (conj A L)) as (j & Hj & Hb). exists j. split; [lia|exact Hb].
  - exists n. split; [lia|lra].
Qed.

(* every bearing of the arc lies between two consecutive samples, h apart *)
Lemma arc_bracket s k t :
  (1 <= k)%nat -> on_arc s t ->
  exists j u v, (j < k)%nat /\ 0 <= u /\ 0 <= v /\ u + v = wedge_step s k /\
                ring_angle s k j = t - u /\ ring_angle s k (S j) = t + v.
Proof.
  intros Hk [A B].
  destruct (bracket (ring_angle s k) k t Hk) as (j & Hj & L & U).
  { rewrite ring_angle_first, ring_angle_last by exact Hk. lra. }
  exists j, (t - ring_angle s k j), (ring_angle s k (S j) - t).
  split; [exact Hj|]. split; [lra|]. split; [lra|]. split; [|split; ring].
  rewrite !ring_angle_lin, S_INR. ring.
Qed.

(* the hypothesis "spacing at most 10 degrees", in radians *)
Lemma wedge_step_bounds s k :
  (1 <= k)%nat -> 0 < r_amax s - r_amin s -> (r_amax s - r_amin s) / INR k <= 10 ->
  0 < wedge_step s k <= 175 / 1000.
Proof.
  intros Hk Hs H10. assert (K : 0 < INR k) by (apply lt_0_INR; lia).
  pose proof PI_lt_315 as P. pose proof PI_RGT_0 as P0.
  assert (0 < (r_amax s - r_amin s) / INR k) by (apply Rdiv_lt_0_compat; lra).
  unfold wedge_step, rad. set (q := (r_amax s - r_amin s) / INR k) in *. split; nra.
Qed.

(* the default number of segments k = max(ceil(span/10), 10) meets it *)
Lemma Rceil_ge x : x <= IZR (Rceil x).
Proof.
  unfold Rceil. rewrite opp_IZR. destruct (base_Int_part (- x)) as [A _]. lra.
Qed.

Lemma ring_default_k_ok s :
  (10 <= ring_default_k s)%nat /\ (r_amax s - r_amin s) / INR (ring_default_k s) <= 10.
Proof.
  unfold ring_default_k. set (w := r_amax s - r_amin s). set (z := Z.max (Rceil (w / 10)) 10).
  assert (Hz : (10 <= z)%Z) by (unfold z; lia).
  assert (Hw : (Rceil (w / 10) <= z)%Z) by (unfold z; lia).
  split; [lia|].
  rewrite INR_IZR_INZ, Z2Nat.id by lia.
  pose proof (Rceil_ge (w / 10)) as C. apply IZR_le in Hw. apply IZR_le in Hz.
  assert (0 < IZR z) by lra.
  apply (Rmult_le_reg_r (IZR z)); [lra|]. unfold Rdiv. rewrite Rmult_assoc, Rinv_l, Rmult_1_r by lra. lra.
Qed.

(* ------------------------------------------------------------------ the trigonometric core *)
Lemma weighted_cos t u v : sin v * cos (t - u) + sin u * cos (t + v) = sin (u + v) * cos t.
Proof. rewrite cos_minus, cos_plus, sin_plus. ring. Qed.

Lemma weighted_sin t u v : sin v * sin (t - u) + sin u * sin (t + v) = sin (u + v) * sin t.
Proof. rewrite sin_minus, !sin_plus. ring. Qed.

Lemma rho_bound u v :
  0 <= u -> 0 <= v -> u + v <= 175 / 1000 ->
  0 <= sin u + sin v - sin (u + v) <= 39 / 10000 * sin (u + v).
Proof.
  intros Hu Hv Hh. pose proof PI_gt_3 as P3.
  assert (Su : 0 <= sin u <= u) by (split; [apply sin_ge_0; lra|apply sin_le_x; lra]).
  assert (Sv : 0 <= sin v <= v) by (split; [apply sin_ge_0; lra|apply sin_le_x; lra]).
  assert (Cu : 0 <= 1 - cos u <= u * u / 2) by (pose proof (cos_ge_quad u); pose proof (cos_le_1 u); lra).
  assert (Cv : 0 <= 1 - cos v <= v * v / 2) by (pose proof (cos_ge_quad v); pose proof (cos_le_1 v); lra).
  assert (H3 : 0 <= u + v <= 3) by lra.
  pose proof (sin_ge_cubic (u + v) H3) as Sh.
  set (h := u + v) in *.
  assert (E : sin u + sin v - sin h = sin u * (1 - cos v) + sin v * (1 - cos u)) by (unfold h; rewrite sin_plus; ring).
  rewrite E.
  assert (A1 : 0 <= sin u * (1 - cos v) <= u * (v * v / 2)) by (split; nra).
  assert (A2 : 0 <= sin v * (1 - cos u) <= v * (u * u / 2)) by (split; nra).
  split; [lra|].
  assert (A3 : u * (v * v / 2) + v * (u * u / 2) = u * v * h / 2) by (unfold h; field).
  assert (A4 : u * v <= h * h / 4) by (unfold h; pose proof (Rle_0_sqr (u - v)) as Q; unfold Rsqr in Q; lra).
  assert (A5 : 0 <= h) by (unfold h; lra).
  assert (A6 : u * v * h / 2 <= h * h * h / 8).
  { assert (u * v * h <= h * h / 4 * h) by (apply Rmult_le_compat_r; lra). lra. }
  assert (A7 : h * h * h / 8 <= 39 / 10000 * (h - h * h * h / 6)).
  { assert (h * h <= 175 / 1000 * (175 / 1000)) by nra.
    assert (0 <= h * (39 / 10000 * (1 - h * h / 6) - h * h / 8)) by (apply Rmult_le_pos; [lra|nra]).
    nra. }
  nra.
Qed.

(* of two consecutive samples, one has its cosine within 0.0039 of that of any bearing between them *)
Lemma cos_sample t u v :
  0 <= u -> 0 <= v -> 0 < u + v <= 175 / 1000 ->
  cos t - 39 / 10000 <= cos (t - u) \/ cos t - 39 / 10000 <= cos (t + v).
Proof.
  intros Hu Hv [Hh0 Hh]. pose proof PI_gt_3 as P3.
  destruct (rho_bound u v Hu Hv Hh) as [R0 R1].
  assert (Su : 0 <= sin u) by (apply sin_ge_0; lra).
  assert (Sv : 0 <= sin v) by (apply sin_ge_0; lra).
  assert (Sh : 0 < sin (u + v)) by (apply sin_gt_0; lra).
  set (W := Rmax (cos (t - u)) (cos (t + v))).
  pose proof (Rmax_l (cos (t - u)) (cos (t + v))) as W1. pose proof (Rmax_r (cos (t - u)) (cos (t + v))) as W2.
  fold W in W1, W2.
  assert (K : sin (u + v) * cos t <= W * (sin u + sin v)) by (rewrite <- weighted_cos; nra).
  assert (G : cos t - 39 / 10000 <= W).
  { destruct (Rle_or_lt 0 W) as [Wp|Wn].
    - assert (W1' : W <= 1) by (unfold W; apply Rmax_lub; apply cos_le_1).
      assert (W * (sin u + sin v) <= W * (sin (u + v) + 39 / 10000 * sin (u + v))) by (apply Rmult_le_compat_l; lra).
      apply (Rmult_le_reg_l (sin (u + v))); [exact Sh|]. nra.
    - assert (W * (sin u + sin v) <= W * sin (u + v)) by nra.
      apply (Rmult_le_reg_l (sin (u + v))); [exact Sh|]. nra. }
  unfold W, Rmax in G. destruct (Rle_dec (cos (t - u)) (cos (t + v))); [right|left]; exact G.
Qed.

Lemma cos_sample_min t u v :
  0 <= u -> 0 <= v -> 0 < u + v <= 175 / 1000 ->
  cos (t - u) <= cos t + 39 / 10000 \/ cos (t + v) <= cos t + 39 / 10000.
Proof.
  intros Hu Hv Hh.
  destruct (cos_sample (t + PI) u v Hu Hv Hh) as [H|H]; [left|right].
  - replace (t + PI - u) with (t - u + PI) in H by ring. rewrite !neg_cos in H. lra.
  - replace (t + PI + v) with (t + v + PI) in H by ring. rewrite !neg_cos in H. lra.
Qed.

(* ------------------------------------------------------------------ from cosines of bearings to latitudes *)
Section WLat.
  Variables phi e : R.
  Hypothesis Hphi : - (5 * (PI / 12)) <= phi <= 5 * (PI / 12).
  Hypothesis Hc : cmin <= cos phi.
  Hypothesis He : 0 <= e <= emax.

  Let He' : 0 <= e <= 157 / 100000. Proof. exact He. Qed.
  Let Hc' : 2588 / 10000 <= cos phi. Proof. exact Hc. Qed.
  Let HP : 15 / 10 < PI / 2. Proof. exact half_pi_gt. Qed.
  Let Hlo : - (PI / 2) <= phi - e. Proof. lra. Qed.
  Let Hhi : phi + e <= PI / 2. Proof. lra. Qed.

  (* the cosine of any latitude on the circle *)
  Lemma cos_lat_lower t : cos phi * (1 - e * e / 2) - e <= cos (asin (s2_of phi e t)).
  Proof.
    pose proof (lat_le phi e (proj1 He) Hlo Hhi t) as U. pose proof (lat_ge phi e (proj1 He) Hlo Hhi t) as L.
    set (Nt := asin _) in *.
    pose proof (SIN_bound phi) as Hs.
    assert (Hse : 0 <= sin e <= e) by (split; [apply sin_ge_0; pose proof PI_gt_3; lra|apply sin_le_x; lra]).
    pose proof (cos_ge_quad e) as Ce. pose proof (cos_le_1 e) as Ce1.
    assert (B : - e <= sin phi * sin e <= e) by nra.
    assert (C : cos phi * (1 - e * e / 2) <= cos phi * cos e) by nra.
    destruct (Rle_or_lt 0 Nt) as [P|N].
    - apply Rle_trans with (cos (phi + e)); [rewrite cos_plus; lra|apply cos_decr_1; lra].
    - rewrite <- (cos_neg Nt). apply Rle_trans with (cos (e - phi)).
      + replace (e - phi) with (- (phi - e)) by ring. rewrite cos_neg, cos_minus. lra.
      + apply cos_decr_1; lra.
  Qed.

  (* a sample whose cosine is within 0.0039 below has its latitude within e/100 below *)
  Lemma lat_cos_step t t' :
    cos t - 39 / 10000 <= cos t' -> asin (s2_of phi e t) - e / 100 <= asin (s2_of phi e t').
  Proof.
    intros H.
    pose proof (lat_le phi e (proj1 He) Hlo Hhi t) as U. pose proof (lat_ge phi e (proj1 He) Hlo Hhi t) as L.
    pose proof (cos_lat_lower t) as CN.
    pose proof (s2_range phi e t) as Rx.
    assert (SN : sin (asin (s2_of phi e t)) = s2_of phi e t) by (apply sin_asin; exact Rx).
    set (Nt := asin (s2_of phi e t)) in *. set (x := s2_of phi e t) in *.
    assert (Hse : 0 <= sin e <= e) by (split; [apply sin_ge_0; pose proof PI_gt_3; lra|apply sin_le_x; lra]).
    assert (X' : x - cos phi * sin e * (39 / 10000) <= s2_of phi e t').
    { unfold x, s2_of. assert (0 <= cos phi * sin e) by nra. nra. }
    apply asin_ge_of; [lra|apply s2_range|].
    apply Rle_trans with (2 := X'). rewrite sin_minus, SN.
    set (eta := e / 100).
    assert (Heta : 0 <= eta <= 157 / 10000000) by (unfold eta; lra).
    pose proof (cos_ge_quad eta) as C1. pose proof (cos_le_1 eta) as C2.
    pose proof (sin_ge_cubic eta ltac:(lra)) as S1.
    set (cl := cos phi * (1 - e * e / 2) - e) in *.
    pose proof (cos_le_1 phi) as Cp1.
    assert (Hee : 0 <= e * e <= 1 / 100000) by nra.
    assert (Hcl : 25 / 100 <= cl).
    { unfold cl. assert (cos phi * (e * e / 2) <= 1 * (1 / 100000 / 2)) by (apply Rmult_le_compat; lra). lra. }
    assert (T1 : x * cos eta <= x + eta * eta / 2) by nra.
    assert (S0 : 0 <= eta - eta * eta * eta / 6) by nra.
    assert (T2 : cl * (eta - eta * eta * eta / 6) <= cos Nt * sin eta) by nra.
    assert (T3 : cos phi * sin e * (39 / 10000) <= cos phi * e * (39 / 10000)) by nra.
    assert (T4 : cos phi * e * (39 / 10000) + eta * eta / 2 <= cl * (eta - eta * eta * eta / 6)).
    { unfold eta.
      assert (K : 0 <= e * (cl * (1 / 100) * (1 - e * e / 60000) - cos phi * (39 / 10000) - e / 20000)).
      { apply Rmult_le_pos; [lra|].
        assert (cos phi * (1 - 1 / 100000) - e <= cl) by (unfold cl; nra).
        assert (1 - 1 / 100000 <= 1 - e * e / 60000) by nra.
        nra. }
      nra. }
    lra.
  Qed.
End WLat.

(* the mirror statement for the minimum: reflect the centre in the equator and turn by 180 degrees *)
Lemma s2_of_mirror phi e t : s2_of (- phi) e (t + PI) = - s2_of phi e t.
Proof. unfold s2_of. rewrite sin_neg, cos_neg, neg_cos. ring. Qed.

Lemma lat_cos_step_min phi e t t' :
  - (5 * (PI / 12)) <= phi <= 5 * (PI / 12) -> cmin <= cos phi -> 0 <= e <= emax ->
  cos t' <= cos t + 39 / 10000 -> asin (s2_of phi e t') <= asin (s2_of phi e t) + e / 100.
Proof.
  intros Hphi Hc He H.
  assert (Hphi' : - (5 * (PI / 12)) <= - phi <= 5 * (PI / 12)) by lra.
  assert (Hc' : cmin <= cos (- phi)) by (rewrite cos_neg; exact Hc).
  assert (H' : cos (t + PI) - 39 / 10000 <= cos (t' + PI)) by (rewrite !neg_cos; lra).
  pose proof (lat_cos_step (- phi) e Hphi' Hc' He (t + PI) (t' + PI) H') as K.
  rewrite !s2_of_mirror, !asin_opp in K. lra.
Qed.

(* ------------------------------------------------------------------ every arc latitude is matched by a sample *)
Section WedgeLat.
  Variable s : ring.
  Variable k : nat.
  Hypothesis Hlat : Rabs (lat (r_center s)) <= 75.
  Hypothesis Hk : (1 <= k)%nat.
  Hypothesis Hspan : 0 < r_amax s - r_amin s.
  Hypothesis Hstep : (r_amax s - r_amin s) / INR k <= 10.

  Lemma arc_lat_sampled_max r t :
    0 <= r <= 10000 -> on_arc s t ->
    exists i, (i <= k)%nat /\
      curve_lat (r_center s) r t - r / Rearth / 100 <= curve_lat (r_center s) r (ring_angle s k i).
  Proof.
    intros Hr Ht. destruct (centre_facts _ Hlat) as (Hphi & Hc & _). pose proof (radius_facts r Hr) as He.
    destruct (arc_bracket s k t Hk Ht) as (j & u & v & Hj & Hu & Hv & Huv & Ej & ESj).
    pose proof (wedge_step_bounds s k Hk Hspan Hstep) as Hh. rewrite <- Huv in Hh.
    unfold curve_lat. rewrite lat_of_dest.
    destruct (cos_sample t u v Hu Hv Hh) as [H|H].
    - exists j. split; [lia|]. rewrite lat_of_dest, Ej. apply lat_cos_step; assumption.
    - exists (S j). split; [lia|]. rewrite lat_of_dest, ESj. apply lat_cos_step; assumption.
  Qed.

  Lemma arc_lat_sampled_min r t :
    0 <= r <= 10000 -> on_arc s t ->
    exists i, (i <= k)%nat /\
      curve_lat (r_center s) r (ring_angle s k i) <= curve_lat (r_center s) r t + r / Rearth / 100.
  Proof.
    intros Hr Ht. destruct (centre_facts _ Hlat) as (Hphi & Hc & _). pose proof (radius_facts r Hr) as He.
    destruct (arc_bracket s k t Hk Ht) as (j & u & v & Hj & Hu & Hv & Huv & Ej & ESj).
    pose proof (wedge_step_bounds s k Hk Hspan Hstep) as Hh. rewrite <- Huv in Hh.
    unfold curve_lat. rewrite lat_of_dest.
    destruct (cos_sample_min t u v Hu Hv Hh) as [H|H].
    - exists j. split; [lia|]. rewrite lat_of_dest, Ej. apply lat_cos_step_min; assumption.
    - exists (S j). split; [lia|]. rewrite lat_of_dest, ESj. apply lat_cos_step_min; assumption.
  Qed.
End WedgeLat.

(* ------------------------------------------------------------------ sample maximum against the supremum *)
Lemma lub_within (E : R -> Prop) Ms T N :
  E Ms -> (forall y, E y -> y - T <= Ms) -> is_lub E N -> 0 <= N - Ms <= T.
Proof.
  intros HM HT [UB LB]. split.
  - pose proof (UB Ms HM). lra.
  - assert (N <= Ms + T); [|lra]. apply LB. intros y Hy. pose proof (HT y Hy). lra.
Qed.

Lemma glb_within (E : R -> Prop) ms T S :
  E ms -> (forall y, E y -> ms <= y + T) -> is_glb E S -> 0 <= ms - S <= T.
Proof.
  intros HM HT [LBd GL]. split.
  - pose proof (LBd ms HM). lra.
  - assert (ms - T <= S); [|lra]. apply GL. intros y Hy. pose proof (HT y Hy). lra.
Qed.
