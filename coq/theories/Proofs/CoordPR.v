(* C08 over the reals: the unit vector Coordinate.xyz, that pairs related by [same_pt] have the
   same unit vector, and that Coordinate._from_xyz inverts xyz away from the poles.
   sin/cos/asin/atan/PI are Coq's; atan2 is defined by cases as the C library specifies it.
   IEEE rounding and libm are not modelled here (DESIGN section 3): these are identities about the
   formulas the code contains. *)
From Coq Require Import QArith Qreals Reals Lra.
From GV Require Import Prelude CoordM CoordP.
Open Scope R_scope.

(* math.radians / math.degrees *)
Definition rad (d : R) : R := d * PI / 180.
Definition deg (r : R) : R := r * 180 / PI.

(* Coordinate.xyz:  [cos(lat) cos(lon), cos(lat) sin(lon), sin(lat)]  in radians *)
Definition xyzR (lon lat : R) : R * R * R :=
  (cos (rad lat) * cos (rad lon), cos (rad lat) * sin (rad lon), sin (rad lat)).

Definition xyz (p : Q * Q) : R * R * R := xyzR (Q2R (fst p)) (Q2R (snd p)).

(* math.atan2(y, x) *)
Definition atan2 (y x : R) : R :=
  if Rlt_dec 0 x then atan (y / x)
  else if Rlt_dec x 0 then (if Rle_dec 0 y then atan (y / x) + PI else atan (y / x) - PI)
  else if Rlt_dec 0 y then PI / 2
  else if Rlt_dec y 0 then - (PI / 2) else 0.

(* Coordinate._from_xyz before the constructor: (degrees(atan2(y, x)), degrees(asin(z))) *)
Definition from_xyz_raw (v : R * R * R) : R * R :=
  let '(x, y, z) := v in (deg (atan2 y x), deg (asin z)).

(* the constructor's last step over R *)
Definition canon180R (l : R) : R := if Req_EM_T l 180 then -180 else l.

(* ------------------------------------------------------------------ same point, same vector *)
Lemma Q2R_const (z : Z) : Q2R (inject_Z z) = IZR z.
Proof. unfold Q2R, inject_Z. cbn. field. Qed.

Lemma rad_plus a b : rad (a + b) = rad a + rad b.
Proof. unfold rad. field. Qed.

Lemma rad_minus a b : rad (a - b) = rad a - rad b.
Proof. unfold rad. field. Qed.

Lemma rad_180 : rad 180 = PI.
Proof. unfold rad. field. Qed.

Lemma rad_360 : rad 360 = 2 * PI.
Proof. unfold rad. field. Qed.

Lemma rad_m180 : rad (-180) = - PI.
Proof. unfold rad. field. Qed.

Lemma cos_plus_2PI x : cos (x + 2 * PI) = cos x.
Proof. rewrite cos_plus, cos_2PI, sin_2PI. ring. Qed.

Lemma sin_plus_2PI x : sin (x + 2 * PI) = sin x.
Proof. rewrite sin_plus, cos_2PI, sin_2PI. ring. Qed.

Lemma cos_PI_minus x : cos (PI - x) = - cos x.
Proof. rewrite cos_minus, cos_PI, sin_PI. ring. Qed.

Lemma sin_PI_minus x : sin (PI - x) = sin x.
Proof. rewrite sin_minus, cos_PI, sin_PI. ring. Qed.

Lemma cos_mPI_minus x : cos (- PI - x) = - cos x.
Proof. rewrite cos_minus, cos_neg, sin_neg, cos_PI, sin_PI. ring. Qed.

Lemma sin_mPI_minus x : sin (- PI - x) = sin x.
Proof. rewrite sin_minus, cos_neg, sin_neg, cos_PI, sin_PI. ring. Qed.

Lemma triple_eq (a b c a' b' c' : R) : a = a' -> b = b' -> c = c' -> (a, b, c) = (a', b', c').
Proof. intros -> -> ->. reflexivity. Qed.

Lemma xyz_turn l f : xyzR (l + 360) f = xyzR l f.
Proof.
  unfold xyzR. rewrite rad_plus, rad_360, cos_plus_2PI, sin_plus_2PI. reflexivity.
Qed.

Lemma xyz_north l f : xyzR (l + 180) (180 - f) = xyzR l f.
Proof.
  unfold xyzR. rewrite rad_plus, rad_minus, rad_180, neg_cos, neg_sin, cos_PI_minus, sin_PI_minus.
  apply triple_eq; ring.
Qed.

Lemma xyz_south l f : xyzR (l + 180) (-180 - f) = xyzR l f.
Proof.
  unfold xyzR. rewrite rad_plus, rad_minus, rad_180, rad_m180, neg_cos, neg_sin,
    cos_mPI_minus, sin_mPI_minus.
  apply triple_eq; ring.
Qed.

(* pairs related by full turns and pole reflections have the same unit vector: the stored
   coordinate is the same point of the sphere as the raw input *)
Lemma same_pt_xyz p q : same_pt p q -> xyz p = xyz q.
Proof.
  induction 1 as [p q H1 H2|p q _ IH|p q r _ IH1 _ IH2|l f|l f|l f].
  - unfold xyz. rewrite (Qeq_eqR _ _ H1), (Qeq_eqR _ _ H2). reflexivity.
  - symmetry. exact IH.
  - now rewrite IH1.
  - unfold xyz. cbn [fst snd]. rewrite Q2R_plus.
    change 360%Q with (inject_Z 360). rewrite Q2R_const. symmetry. apply xyz_turn.
  - unfold xyz. cbn [fst snd]. rewrite Q2R_plus, Q2R_minus.
    change 180%Q with (inject_Z 180). rewrite Q2R_const. symmetry. apply xyz_north.
  - unfold xyz. cbn [fst snd]. rewrite Q2R_plus, Q2R_minus.
    change 180%Q with (inject_Z 180). change (-180)%Q with (inject_Z (-180)).
    rewrite !Q2R_const. symmetry. apply xyz_south.
Qed.

Lemma norm_same_xyz lon lat p : norm lon lat = Ok p -> xyz p = xyz (lon, lat).
Proof. intro H. symmetry. apply same_pt_xyz. now apply norm_same_pt. Qed.

(* ------------------------------------------------------------------ inverse of xyz *)
Lemma deg_rad x : deg (rad x) = x.
Proof. unfold deg, rad. field. apply PI_neq0. Qed.

Lemma tan_shift_plus t : cos t <> 0 -> tan (t + PI) = tan t.
Proof.
  intro H. unfold tan. rewrite neg_sin, neg_cos. field. exact H.
Qed.

Lemma tan_shift_minus t : cos t <> 0 -> tan (t - PI) = tan t.
Proof.
  intro H. rewrite <- (tan_shift_plus (t - PI)).
  - f_equal. ring.
  - rewrite cos_minus, cos_PI, sin_PI. intro E. apply H. lra.
Qed.

Lemma ratio_tan r t : 0 < r -> cos t <> 0 -> r * sin t / (r * cos t) = tan t.
Proof. intros Hr Hc. unfold tan. field. split; lra. Qed.

(* atan2 of a positive multiple of (sin t, cos t) recovers t in (-PI, PI] *)
Lemma atan2_polar r t : 0 < r -> - PI < t -> t <= PI -> atan2 (r * sin t) (r * cos t) = t.
Proof.
  intros Hr L U. pose proof PI_RGT_0 as HP. unfold atan2.
  destruct (Rlt_le_dec t (- (PI / 2))) as [C1|C1].
  - (* third quadrant: cos < 0, sin < 0 *)
    assert (Hc : cos t < 0).
    { rewrite <- cos_neg. apply cos_lt_0; lra. }
    assert (Hs : sin t < 0) by (apply sin_lt_0_var; lra).
    assert (Hx : r * cos t < 0) by nra.
    assert (Hy : r * sin t < 0) by nra.
    destruct (Rlt_dec 0 (r * cos t)); [lra|]. destruct (Rlt_dec (r * cos t) 0); [|lra].
    destruct (Rle_dec 0 (r * sin t)); [lra|].
    rewrite ratio_tan by lra. rewrite <- (tan_shift_plus t) by lra.
    rewrite atan_tan by lra. lra.
  - destruct (Req_dec t (- (PI / 2))) as [E1|N1].
    + subst t. rewrite cos_neg, sin_neg, cos_PI2, sin_PI2.
      replace (r * 0) with 0 by ring.
      repeat match goal with |- context [Rlt_dec ?a ?b] => destruct (Rlt_dec a b) end; lra.
    + destruct (Rlt_le_dec t (PI / 2)) as [C2|C2].
      * (* right half plane *)
        assert (Hc : 0 < cos t) by (apply cos_gt_0; lra).
        assert (Hx : 0 < r * cos t) by (apply Rmult_lt_0_compat; lra).
        destruct (Rlt_dec 0 (r * cos t)); [|lra].
        rewrite ratio_tan by lra. apply atan_tan. lra.
      * destruct (Req_dec t (PI / 2)) as [E2|N2].
        -- subst t. rewrite cos_PI2, sin_PI2. replace (r * 0) with 0 by ring.
           repeat match goal with |- context [Rlt_dec ?a ?b] => destruct (Rlt_dec a b) end; lra.
        -- (* second quadrant: cos < 0, sin >= 0 *)
           assert (Hc : cos t < 0) by (apply cos_lt_0; lra).
           assert (Hs : 0 <= sin t) by (apply sin_ge_0; lra).
           assert (Hx : r * cos t < 0) by nra.
           assert (Hy : 0 <= r * sin t) by (apply Rmult_le_pos; lra).
           destruct (Rlt_dec 0 (r * cos t)); [lra|]. destruct (Rlt_dec (r * cos t) 0); [|lra].
           destruct (Rle_dec 0 (r * sin t)); [|lra].
           rewrite ratio_tan by lra. rewrite <- (tan_shift_minus t) by lra.
           rewrite atan_tan by lra. lra.
Qed.

Lemma rad_bounds x a b : a <= x -> x <= b -> rad a <= rad x /\ rad x <= rad b.
Proof.
  intros A B. pose proof PI_RGT_0 as HP. unfold rad. split.
  - apply Rmult_le_compat_r; [lra|]. apply Rmult_le_compat_r; lra.
  - apply Rmult_le_compat_r; [lra|]. apply Rmult_le_compat_r; lra.
Qed.

Lemma rad_lt x a : a < x -> rad a < rad x.
Proof.
  intros A. pose proof PI_RGT_0 as HP. unfold rad.
  apply Rmult_lt_compat_r; [lra|]. apply Rmult_lt_compat_r; lra.
Qed.

Lemma rad_90 : rad 90 = PI / 2.      Proof. unfold rad. field. Qed.
Lemma rad_m90 : rad (-90) = - (PI / 2). Proof. unfold rad. field. Qed.

(* away from the poles _from_xyz(xyz) gives back the pair; a raw longitude of exactly -180 comes
   back as 180 *)
Lemma from_xyz_raw_xyz lon lat : -180 < lon -> lon <= 180 -> -90 < lat -> lat < 90 ->
  from_xyz_raw (xyzR lon lat) = (lon, lat).
Proof.
  intros L1 L2 B1 B2. unfold from_xyz_raw, xyzR.
  pose proof (rad_lt lat (-90) B1) as R1. pose proof (rad_lt 90 lat B2) as R2.
  rewrite rad_m90 in R1. rewrite rad_90 in R2.
  assert (Hc : 0 < cos (rad lat)) by (apply cos_gt_0; lra).
  pose proof (rad_lt lon (-180) L1) as R3. rewrite rad_m180 in R3.
  destruct (rad_bounds lon lon 180 ltac:(lra) L2) as [_ R4]. rewrite rad_180 in R4.
  rewrite atan2_polar by assumption. rewrite asin_sin by lra.
  rewrite !deg_rad. reflexivity.
Qed.

(* for every stored (canonical) pair away from the poles: the values _from_xyz hands to the
   constructor are inside the closed ranges (so neither loop runs) and the constructor's
   180 -> -180 step yields the stored pair again *)
Lemma from_xyz_xyz lon lat : -180 <= lon -> lon < 180 -> -90 < lat -> lat < 90 ->
  let r := from_xyz_raw (xyzR lon lat) in
  (-180 <= fst r <= 180 /\ -90 <= snd r <= 90) /\ (canon180R (fst r), snd r) = (lon, lat).
Proof.
  intros L1 L2 B1 B2. cbv zeta. destruct (Req_dec lon (-180)) as [E|N].
  - subst lon.
    assert (H : xyzR (-180) lat = xyzR 180 lat).
    { replace 180 with (-180 + 360) at 1 by lra. now rewrite xyz_turn. }
    rewrite H, from_xyz_raw_xyz by lra. cbn [fst snd]. split; [lra|].
    unfold canon180R. destruct (Req_EM_T 180 180); [reflexivity|lra].
  - rewrite from_xyz_raw_xyz by lra. cbn [fst snd]. split; [lra|].
    unfold canon180R. destruct (Req_EM_T lon 180); [lra|reflexivity].
Qed.

(* at the poles the longitude is lost but the point is not: xyz (lon, +-90) does not depend on lon *)
Lemma xyz_pole lon lon' : xyzR lon 90 = xyzR lon' 90 /\ xyzR lon (-90) = xyzR lon' (-90).
Proof.
  unfold xyzR. rewrite rad_90, rad_m90, cos_neg, sin_neg, cos_PI2, sin_PI2.
  split; apply triple_eq; ring.
Qed.
