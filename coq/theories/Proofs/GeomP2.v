(* C01: ring-level theorems — boundary, even-odd exactness, bounding-box prefilter, holes, boxes. *)
From GV Require Import Prelude GeomM GeomP.
Open Scope Z_scope.

(* no vertex lies west of the end of the test ray (longitude -180) *)
Definition west_ok (w : Z) (r : list pt) : Prop := forall v, In v r -> w <= px v.

Definition strict_in (p : pt) (r : list pt) : Prop := ~ on_boundary p r /\ evenodd p r.

(* ------------------------------------------------------------------ list helpers *)

Lemma cyc_edges_in r a b : In (a, b) (cyc_edges r) -> In a r /\ In b r.
Proof.
  destruct r as [|v tl]; [intros []|]. cbn [cyc_edges]. intros H. split.
  - eapply in_combine_l; eauto.
  - apply in_combine_r in H. apply in_app_or in H. destruct H as [H|[H|[]]].
    + right; assumption. + left; assumption.
Qed.

Lemma par_ext {A} (f g : A -> bool) l : (forall x, In x l -> f x = g x) -> par f l = par g l.
Proof.
  induction l as [|x l IH]; intros H; [reflexivity|]. cbn [par fold_right].
  fold (par f l) (par g l). rewrite (H x), IH; [reflexivity| |left; reflexivity].
  intros y Hy. apply H. right; assumption.
Qed.

Lemma existsb_ext_in {A} (f g : A -> bool) l :
  (forall x, In x l -> f x = g x) -> existsb f l = existsb g l.
Proof.
  induction l as [|x l IH]; intros H; [reflexivity|]. cbn [existsb].
  rewrite (H x), IH; [reflexivity| |left; reflexivity].
  intros y Hy. apply H. right; assumption.
Qed.

Lemma par_xor {A} (f g : A -> bool) l :
  par (fun x => xorb (f x) (g x)) l = xorb (par f l) (par g l).
Proof.
  induction l as [|x l IH]; [reflexivity|]. cbn [par fold_right].
  fold (par f l) (par g l) (par (fun x => xorb (f x) (g x)) l). rewrite IH.
  destruct (f x), (g x), (par f l), (par g l); reflexivity.
Qed.

Lemma par_false {A} (f : A -> bool) l : (forall x, In x l -> f x = false) -> par f l = false.
Proof.
  induction l as [|x l IH]; intros H; [reflexivity|]. cbn [par fold_right]. fold (par f l).
  rewrite (H x), IH; [reflexivity| |left; reflexivity]. intros y Hy. apply H. right; assumption.
Qed.

(* ------------------------------------------------------------------ parity of a closed chain *)

Definition above (p q : pt) : bool := py p <? py q.
Definition strad (p : pt) (e : seg) : bool := straddles p (fst e) (snd e).

Lemma straddles_above p a b : straddles p a b = xorb (above p a) (above p b).
Proof. unfold straddles, above. destruct (py p <? py a), (py p <? py b); reflexivity. Qed.

Lemma par_path p tl : forall v u,
  par (strad p) (combine (v :: tl) (tl ++ [u])) = xorb (above p v) (above p u).
Proof.
  induction tl as [|x tl IH]; intros v u.
  - cbn. rewrite xorb_false_r. apply straddles_above.
  - change (combine (v :: x :: tl) ((x :: tl) ++ [u]))
      with ((v, x) :: combine (x :: tl) (tl ++ [u])).
    cbn [par fold_right]. fold (par (strad p) (combine (x :: tl) (tl ++ [u]))).
    rewrite IH. unfold strad at 1. cbn [fst snd]. rewrite straddles_above.
    destruct (above p v), (above p x), (above p u); reflexivity.
Qed.

(* a closed chain crosses a horizontal line an even number of times *)
Lemma straddle_even p r : par (strad p) (cyc_edges r) = false.
Proof.
  destruct r as [|v tl]; [reflexivity|]. cbn [cyc_edges]. rewrite par_path. apply xorb_nilpotent.
Qed.

(* ------------------------------------------------------------------ pip against the specification *)

Lemma on_boundary_existsb p r :
  on_boundary p r <-> existsb (fun e => on_segb p (fst e) (snd e)) (cyc_edges r) = true.
Proof.
  unfold on_boundary. rewrite existsb_exists. split; intros (e & He & H); exists e; split; auto;
    apply on_segb_spec; assumption.
Qed.

Lemma evenodd_par p r : evenodd p r <-> par (east_z p) (cyc_edges r) = true.
Proof. unfold evenodd. rewrite par_odd. reflexivity. Qed.

Section Ring.
  Variables (w : Z) (p : pt) (r : list pt).
  Variable Hw : west_ok w r.
  Variable Hp : w <= px p.

  Lemma estep_ring e : w < px p -> In e (cyc_edges r) ->
    estep w p e = if on_segb p (fst e) (snd e) then None else Some (west_z p e).
  Proof.
    destruct e as [a b]. intros Hlt H. apply cyc_edges_in in H. destruct H.
    apply estep_geo; auto.
  Qed.

  Lemma bnd_ring : w < px p -> existsb (is_bnd w p) (cyc_edges r) =
                   existsb (fun e => on_segb p (fst e) (snd e)) (cyc_edges r).
  Proof.
    intros Hlt. apply existsb_ext_in. intros e He. unfold is_bnd. rewrite estep_ring by assumption.
    destruct (on_segb _ _ _); reflexivity.
  Qed.

  (* the query on the line lon = w (no vertex is west of it): nothing is counted *)
  Lemma pip_deg : w = px p -> pip w p r = false.
  Proof.
    intros ->. rewrite pip_char. destruct (existsb _ _); [reflexivity|].
    apply par_false. intros [a b] _. unfold is_cnt.
    destruct (estep_deg p a b) as [-> | ->]; reflexivity.
  Qed.

  Lemma off_edges : ~ on_boundary p r ->
    forall e, In e (cyc_edges r) -> on_segb p (fst e) (snd e) = false.
  Proof.
    intros H e He. destruct (on_segb p (fst e) (snd e)) eqn:E2; [|reflexivity].
    exfalso. apply H. apply on_boundary_existsb. apply existsb_exists. exists e; auto.
  Qed.

  Lemma off_cross_nonzero a b : on_segb p a b = false -> straddles p a b = true ->
    cross a b p * (py b - py a) <> 0.
  Proof.
    intros Hoff Es. apply straddles_cases in Es. intros Hz. apply Z.mul_eq_0 in Hz.
    destruct Hz as [Hc|Hz]; [|lia].
    pose proof (on_line_x p a b Hc ltac:(lia) ltac:(lia)). unfold on_segb in Hoff. lia.
  Qed.

  Lemma east_deg : w = px p -> ~ on_boundary p r -> par (east_z p) (cyc_edges r) = false.
  Proof.
    intros E H. rewrite <- (straddle_even p r). apply par_ext. intros [a b] He.
    pose proof (off_edges H _ He) as Hoff. cbn [fst snd] in Hoff.
    apply cyc_edges_in in He. destruct He as [Ha Hb]. apply Hw in Ha, Hb.
    unfold east_z, strad. cbn [fst snd]. destruct (straddles p a b) eqn:Es; [|reflexivity].
    pose proof (west_side_nonneg p a b ltac:(lia) ltac:(lia) Es).
    pose proof (off_cross_nonzero a b Hoff Es). cbn [andb]. lia.
  Qed.

  Lemma pip_boundary_false : on_boundary p r -> pip w p r = false.
  Proof.
    intros H. destruct (Z.eq_dec w (px p)) as [E|E]; [apply pip_deg; exact E|].
    apply on_boundary_existsb in H. rewrite pip_char, bnd_ring, H by lia. reflexivity.
  Qed.

  Lemma pip_off_boundary : ~ on_boundary p r -> pip w p r = par (east_z p) (cyc_edges r).
  Proof.
    intros H. destruct (Z.eq_dec w (px p)) as [E|E].
    { rewrite pip_deg, east_deg by assumption. reflexivity. }
    assert (Hlt : w < px p) by lia.
    pose proof (off_edges H) as Hoff.
    assert (Ex : existsb (fun e => on_segb p (fst e) (snd e)) (cyc_edges r) = false).
    { destruct (existsb _ _) eqn:Ex; [|reflexivity]. apply on_boundary_existsb in Ex. tauto. }
    rewrite pip_char, bnd_ring, Ex by assumption.
    transitivity (par (west_z p) (cyc_edges r)).
    { apply par_ext. intros e He. unfold is_cnt. rewrite estep_ring, Hoff by assumption.
      destruct (west_z p e); reflexivity. }
    (* west + east = all straddling edges (none passes through p), an even number *)
    pose proof (straddle_even p r) as Hs.
    rewrite (par_ext (strad p) (fun e => xorb (west_z p e) (east_z p e))) in Hs.
    { rewrite par_xor in Hs. destruct (par (west_z p) _), (par (east_z p) _); auto; discriminate. }
    intros [a b] He. specialize (Hoff _ He). cbn [fst snd] in Hoff.
    unfold strad, west_z, east_z. cbn [fst snd].
    destruct (straddles p a b) eqn:Es; [|reflexivity]. cbn [andb].
    pose proof (off_cross_nonzero a b Hoff Es).
    destruct (cross a b p * (py b - py a) <? 0) eqn:?, (0 <? cross a b p * (py b - py a)) eqn:?;
      try reflexivity; lia.
  Qed.

  Lemma pip_exact : ~ on_boundary p r -> (pip w p r = true <-> evenodd p r).
  Proof. intros H. rewrite pip_off_boundary by assumption. symmetry. apply evenodd_par. Qed.

  Lemma pip_true_iff : pip w p r = true <-> strict_in p r.
  Proof.
    unfold strict_in. split.
    - intros H. assert (Hb : ~ on_boundary p r).
      { intros Hb. rewrite pip_boundary_false in H by assumption. discriminate. }
      split; [assumption|]. apply pip_exact; assumption.
    - intros [Hb He]. apply pip_exact; assumption.
  Qed.
End Ring.
