(* Proofs about the group-by / aggregation model of hash_collection and hash_coordinates. *)
From GV Require Import Prelude FloodM.
Open Scope nat_scope.

Section GroupP.
  Variable cell item val : Type.
  Variable ceqb : cell -> cell -> bool.
  Hypothesis ceqb_spec : forall a b, ceqb a b = true <-> a = b.
  Variable keys : item -> list cell.
  Variable agg : list item -> val.

  Notation cmem := (cmem cell ceqb).
  Notation dict_append := (dict_append cell item ceqb).
  Notation group := (group cell item ceqb keys).
  Notation hash_collection := (hash_collection cell item val ceqb keys agg).

  Lemma ceqb_refl a : ceqb a a = true.
  Proof. now apply ceqb_spec. Qed.

  Lemma ceqb_false a b : ceqb a b = false <-> a <> b.
  Proof.
    split.
    - intros H ->. rewrite ceqb_refl in H. discriminate.
    - intro H. destruct (ceqb a b) eqn:E; [apply ceqb_spec in E; contradiction|reflexivity].
  Qed.

  Lemma cmem_In' x l : cmem x l = true <-> In x l.
  Proof.
    unfold FloodM.cmem. rewrite existsb_exists. split.
    - intros (y & Hy & E). apply ceqb_spec in E. now subst.
    - intro H. exists x. split; [exact H|apply ceqb_refl].
  Qed.

  (* the list stored under a key ([] when the key is absent) *)
  Definition glook (c : cell) (d : list (cell * list item)) : list item :=
    match dfind ceqb c d with Some l => l | None => [] end.

  (* every stored list is non-empty *)
  Definition nonempty (d : list (cell * list item)) : Prop :=
    forall c l, dfind ceqb c d = Some l -> l <> [].

  Lemma dict_append_find c d k x :
    dfind ceqb c (dict_append d k x) =
    if ceqb c k then Some (glook c d ++ [x]) else dfind ceqb c d.
  Proof.
    unfold glook. induction d as [|[k' l] d IH]; cbn.
    - destruct (ceqb c k); reflexivity.
    - destruct (ceqb k k') eqn:K; cbn.
      + apply ceqb_spec in K. subst k'. destruct (ceqb c k); reflexivity.
      + destruct (ceqb c k') eqn:C; [|exact IH].
        apply ceqb_spec in C. subst k'. apply ceqb_false in K.
        assert (E : ceqb c k = false) by (apply ceqb_false; congruence). now rewrite E.
  Qed.

  Lemma dict_append_nonempty d k x : nonempty d -> nonempty (dict_append d k x).
  Proof.
    intros N c l. rewrite dict_append_find. destruct (ceqb c k).
    - intros [= <-]. now destruct (glook c d).
    - apply N.
  Qed.

  Lemma dict_append_keys d k x :
    NoDup (map fst d) -> NoDup (map fst (dict_append d k x)) /\
    forall c, In c (map fst (dict_append d k x)) <-> c = k \/ In c (map fst d).
  Proof.
    induction d as [|[k' l] d IH]; cbn; intro N.
    - split; [constructor; [intros []|constructor]|]. intro c. intuition.
    - inversion N as [|? ? N1 N2]; subst. destruct (ceqb k k') eqn:K; cbn.
      + apply ceqb_spec in K. subst k'. split; [exact N|]. intro c. intuition.
      + destruct (IH N2) as [A B]. apply ceqb_false in K. split.
        * constructor; [|exact A]. rewrite B. intros [->|H]; [now apply K|contradiction].
        * intro c. rewrite B. intuition.
  Qed.

  (* appending one item under each key of a duplicate-free key list *)
  Lemma inner_find x : forall ks d c,
    NoDup ks ->
    dfind ceqb c (fold_left (fun d k => dict_append d k x) ks d) =
    if cmem c ks then Some (glook c d ++ [x]) else dfind ceqb c d.
  Proof.
    induction ks as [|k ks IH]; intros d c N; cbn [fold_left]; [reflexivity|].
    inversion N as [|? ? N1 N2]; subst. rewrite (IH _ _ N2).
    unfold FloodM.cmem at 2. cbn [existsb]. fold (cmem c ks).
    destruct (ceqb c k) eqn:K; cbn [orb].
    - apply ceqb_spec in K. subst k.
      assert (E : cmem c ks = false).
      { destruct (cmem c ks) eqn:E; [apply cmem_In' in E; contradiction|reflexivity]. }
      rewrite E, dict_append_find, ceqb_refl. reflexivity.
    - unfold glook at 1. rewrite dict_append_find, K. reflexivity.
  Qed.

  Lemma inner_nonempty x : forall ks d, nonempty d -> nonempty (fold_left (fun d k => dict_append d k x) ks d).
  Proof. induction ks as [|k ks IH]; intros d N; cbn; [exact N|]. apply IH, dict_append_nonempty, N. Qed.

  Lemma inner_keys x : forall ks d, NoDup (map fst d) ->
    NoDup (map fst (fold_left (fun d k => dict_append d k x) ks d)).
  Proof. induction ks as [|k ks IH]; intros d N; cbn; [exact N|]. apply IH, dict_append_keys, N. Qed.

  Definition step (d : list (cell * list item)) (x : item) :=
    fold_left (fun d k => dict_append d k x) (keys x) d.

  Hypothesis keys_nodup : forall x, NoDup (keys x).     (* hash_shape returns a set *)

  Lemma outer_glook : forall xs d c,
    nonempty d ->
    nonempty (fold_left step xs d) /\
    glook c (fold_left step xs d) = glook c d ++ filter (fun x => cmem c (keys x)) xs.
  Proof.
    induction xs as [|x xs IH]; intros d c N; cbn [fold_left filter].
    - split; [exact N|now rewrite app_nil_r].
    - destruct (IH (step d x) c (inner_nonempty x _ _ N)) as [A B]. split; [exact A|].
      rewrite B. unfold glook at 1. unfold step at 1. rewrite (inner_find x _ _ _ (keys_nodup x)).
      destruct (cmem c (keys x)); [now rewrite <- app_assoc|reflexivity].
  Qed.

  Lemma outer_keys : forall xs d, NoDup (map fst d) -> NoDup (map fst (fold_left step xs d)).
  Proof. induction xs as [|x xs IH]; intros d N; cbn; [exact N|]. apply IH, inner_keys, N. Qed.

  Lemma dfind_map c (d : list (cell * list item)) :
    dfind ceqb c (map (fun kl => (fst kl, agg (snd kl))) d) = option_map agg (dfind ceqb c d).
  Proof. induction d as [|[k l] d IH]; cbn; [reflexivity|]. destruct (ceqb c k); [reflexivity|exact IH]. Qed.

  (* hash_collection maps each cell to the aggregation of EXACTLY those items whose own key set
     contains the cell, in collection order; cells of no item are absent *)
  Theorem hash_collection_spec xs c :
    dfind ceqb c (hash_collection xs) =
    match filter (fun x => cmem c (keys x)) xs with
    | [] => None
    | l => Some (agg l)
    end.
  Proof.
    unfold FloodM.hash_collection, FloodM.group. fold step. rewrite dfind_map.
    assert (N0 : nonempty []) by (intros c' l; cbn; discriminate).
    destruct (outer_glook xs [] c N0) as [A B]. unfold glook in B. cbn [dfind app] in B.
    destruct (dfind ceqb c (fold_left step xs [])) as [l|] eqn:E.
    - rewrite <- B. cbn. pose proof (A c l E). destruct l; [contradiction|reflexivity].
    - rewrite <- B. reflexivity.
  Qed.

  (* the result is a dict: no repeated key; its keys are the union of the items' key sets *)
  Theorem hash_collection_keys xs :
    NoDup (map fst (hash_collection xs)) /\
    forall c, In c (map fst (hash_collection xs)) <-> exists x, In x xs /\ In c (keys x).
  Proof.
    split.
    - unfold FloodM.hash_collection, FloodM.group. fold step. rewrite map_map. cbn [fst].
      apply outer_keys. constructor.
    - intro c. pose proof (hash_collection_spec xs c) as S.
      assert (K : forall (d : list (cell * val)), In c (map fst d) <-> dfind ceqb c d <> None).
      { induction d as [|[k v] d IH]; cbn; [tauto|]. destruct (ceqb c k) eqn:E.
        - apply ceqb_spec in E. subst. split; [discriminate|now left].
        - apply ceqb_false in E. rewrite <- IH. intuition congruence. }
      rewrite K, S. split.
      + destruct (filter (fun x => cmem c (keys x)) xs) as [|x l] eqn:F; [congruence|]. intros _.
        assert (Hx : In x (filter (fun x => cmem c (keys x)) xs)) by (rewrite F; now left).
        apply filter_In in Hx. exists x. split; [tauto|]. now apply cmem_In'.
      + intros (x & Hx & Hc).
        assert (Hf : In x (filter (fun x => cmem c (keys x)) xs)).
        { apply filter_In. split; [exact Hx|now apply cmem_In']. }
        destruct (filter (fun x => cmem c (keys x)) xs); [destruct Hf|discriminate].
  Qed.
End GroupP.
