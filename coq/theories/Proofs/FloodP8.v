(* C12 x C02: the per-cell test of NiemeyerHasher._hash_polygon AS THE IMPLEMENTATION MODELS COMPUTE IT,
       niemeyer_to_geobox(cell).intersects_shape(query)        (GeohashM.cell_box, PairM.intersects_shape)
   for a hole-free GeoBox query, equals the geometric closed-overlap test FloodP7.box_touch on every
   cell whose box is built without wrap-around; hence the flood of _hash_polygon run with THAT test
   returns exactly the cells that share a point with the closed query box.
   PairM works over Z (DESIGN section 3: exact integer grids; a uniform scaling changes no branch),
   the codec over Q: the bridge is a scale s > 0 that makes the cell bounds and the query corners
   integers ([integral s q]).  Proved here:
     rects_meet_scale / box_box_intersects_scale : the C02 answer is invariant under scaling;
     impl_touch_eq   : implementation-model test = box_touch on a cell with a plain box;
     nbr_plain_box   : the neighbours of a strongly interior cell have plain boxes (so the test is
                       only ever evaluated on plain boxes; the lon-180 column, D12, is never examined);
     reach_congr     : reachability depends on the test only at neighbours of reached cells;
     niemeyer_box_exact_impl (+ _geo, + termination) : the composition;
     grid_scale_ok   : for integer coordinate ranges, s = grid_nx * grid_ny makes every cell bound integral.
   Stdlib only; no axioms. *)
From Coq Require Import QArith Qreduction Qround Lqa.
From GV Require Import Prelude TimeM GeomM GeomP SweepM PairM PairP PairP2.
From GV Require Import GeohashM GeohashP GeohashP2 GeohashP3 FloodM FloodP FloodP3 FloodP4 FloodP5 FloodP6 FloodP7.
Open Scope Z_scope.

(* ------------------------------------------------------------------ scaling on the C02 side *)
Lemma rects_meet_scale s xa0 ya0 xa1 ya1 xb0 yb0 xb1 yb1 : 0 < s ->
  rects_meet (s * xa0) (s * ya0) (s * xa1) (s * ya1) (s * xb0) (s * yb0) (s * xb1) (s * yb1) =
  rects_meet xa0 ya0 xa1 ya1 xb0 yb0 xb1 yb1.
Proof.
  intro Hs. unfold rects_meet.
  rewrite !Z.mul_max_distr_nonneg_l, !Z.mul_min_distr_nonneg_l by lia.
  apply eq_true_iff_eq. rewrite !andb_true_iff, !Z.leb_le.
  rewrite <- !(Z.mul_le_mono_pos_l _ _ s) by lia. reflexivity.
Qed.

Definition scale_pt (s : Z) (p : pt) : pt := (s * px p, s * py p).

(* GeoBox.intersects_shape(GeoBox) gives the same answer on uniformly scaled data *)
Theorem box_box_intersects_scale s w w' nwA seA dA nwB seB dB : 0 < s ->
  px nwA < px seA -> py seA < py nwA -> px nwB < px seB -> py seB < py nwB ->
  intersects_shape w (Box (scale_pt s nwA) (scale_pt s seA) [] dA) (Box (scale_pt s nwB) (scale_pt s seB) [] dB) =
  intersects_shape w' (Box nwA seA [] dA) (Box nwB seB [] dB).
Proof.
  intros Hs H1 H2 H3 H4. rewrite !box_box_intersects; try assumption;
    unfold scale_pt, px, py in *; cbn [fst snd] in *; try nia.
  f_equal. now apply rects_meet_scale.
Qed.

(* ------------------------------------------------------------------ integer images *)
Open Scope Q_scope.
Definition zimg (s : Z) (q : Q) : Z := Qfloor (q * inject_Z s).
Definition integral (s : Z) (q : Q) : Prop := inject_Z (zimg s q) == q * inject_Z s.

Lemma integral_of_eq s q z : q * inject_Z s == inject_Z z -> integral s q.
Proof. intro E. unfold integral, zimg. rewrite (Qfloor_comp _ _ E), Qfloor_Z. now symmetry. Qed.

Lemma integral_int s z : integral s (inject_Z z).
Proof. apply (integral_of_eq s _ (z * s)). now rewrite inject_Z_mult. Qed.

Lemma inject_pos s : (0 < s)%Z -> 0 < inject_Z s.
Proof. intro H. change 0 with (inject_Z 0). now rewrite <- Zlt_Qlt. Qed.

Lemma zimg_le s p q : (0 < s)%Z -> integral s p -> integral s q ->
  ((zimg s p <= zimg s q)%Z <-> p <= q).
Proof.
  intros Hs Ip Iq. unfold integral in Ip, Iq. rewrite Zle_Qle, Ip, Iq. apply Qmult_le_r, inject_pos, Hs.
Qed.

Lemma zimg_lt s p q : (0 < s)%Z -> integral s p -> integral s q ->
  ((zimg s p < zimg s q)%Z <-> p < q).
Proof.
  intros Hs Ip Iq. unfold integral in Ip, Iq. rewrite Zlt_Qlt, Ip, Iq. apply Qmult_lt_r, inject_pos, Hs.
Qed.
Close Scope Q_scope.

(* ------------------------------------------------------------------ the implementation-model test *)
Open Scope Q_scope.

(* the box of a cell is built without wrap-around (Coordinate(...) keeps the four numbers): its west
   edge is not west of -180, its EAST EDGE IS WEST OF 180 (not the D12 column), it is between the poles *)
Definition plain_box (r : Q * Q * Q * Q) : Prop :=
  let '(x, y, ex, ey) := r in -180 <= x - ex /\ x + ex < 180 /\ -90 <= y - ey /\ y + ey <= 90.

(* all four bounds of a cell are integers after scaling by s *)
Definition cell_integral (s : Z) (r : Q * Q * Q * Q) : Prop :=
  let '(x, y, ex, ey) := r in
  integral s (x - ex) /\ integral s (x + ex) /\ integral s (y - ey) /\ integral s (y + ey).

Section Impl.
  Variable c : cfg.
  Hypothesis OK : cfg_ok c.
  Variable w : Z.                     (* west end of the point-in-polygon ray; irrelevant for boxes *)
  Variable s : Z.                     (* the scale *)
  Hypothesis Hs : (0 < s)%Z.
  Variables a b ya yb : Q.            (* the query GeoBox: nw = (a, yb), se = (b, ya) *)
  Hypothesis Hab : a < b.
  Hypothesis Hy : ya < yb.
  Hypothesis Ia : integral s a. Hypothesis Ib : integral s b.
  Hypothesis Iya : integral s ya. Hypothesis Iyb : integral s yb.

  (* niemeyer_to_geobox(gh).intersects_shape(GeoBox((a, yb), (b, ya))) on the data scaled by s:
     GeohashM.cell_box (C11) for the cell's corners, PairM.intersects_shape (C02) for the test;
     an exception of either counts as "not touched" *)
  Definition impl_touch (gh : list Z) : bool :=
    match cell_box c gh with
    | Ok ((nwx, nwy), (sex, sey)) =>
        match PairM.intersects_shape w
                (Box (zimg s nwx, zimg s nwy) (zimg s sex, zimg s sey) [] None)
                (Box (zimg s a, zimg s yb) (zimg s b, zimg s ya) [] None) with
        | Ok r => r
        | Err _ => false
        end
    | Err _ => false
    end.

  Lemma impl_touch_eq gh x y ex ey :
    decode c gh = Ok (x, y, ex, ey) -> plain_box (x, y, ex, ey) -> cell_integral s (x, y, ex, ey) ->
    impl_touch gh = box_touch c a b ya yb gh.
  Proof.
    intros D (P1 & P2 & P3 & P4) (I1 & I2 & I3 & I4).
    destruct (decode_err_pos c OK _ _ _ _ _ D) as [Ex Ey].
    unfold impl_touch, box_touch.
    rewrite (proj1 (cell_box_contains c OK gh x y ex ey D P1 P2 P3 P4)), D.
    assert (X : (zimg s (x - ex) < zimg s (x + ex))%Z) by (apply zimg_lt; auto; lra).
    assert (Y : (zimg s (y - ey) < zimg s (y + ey))%Z) by (apply zimg_lt; auto; lra).
    assert (A : (zimg s a < zimg s b)%Z) by (apply zimg_lt; auto).
    assert (B : (zimg s ya < zimg s yb)%Z) by (apply zimg_lt; auto).
    rewrite box_box_intersects by (unfold px, py; cbn [fst snd]; assumption).
    unfold rects_meet, px, py. cbn [fst snd].
    apply eq_true_iff_eq. rewrite !andb_true_iff, !qleb_true, !Z.leb_le.
    rewrite <- (zimg_le s a (x + ex)), <- (zimg_le s (x - ex) b),
            <- (zimg_le s ya (y + ey)), <- (zimg_le s (y - ey) yb) by assumption.
    lia.
  Qed.
End Impl.
Close Scope Q_scope.

(* ------------------------------------------------------------------ the boxes of the neighbours *)
Open Scope Q_scope.
Lemma shift1 (N I d : Z) (W mn lo1 hi1 lo2 hi2 : Q) :
  (0 < N)%Z ->
  inject_Z N * (lo1 - mn) == inject_Z I * W -> inject_Z N * (hi1 - lo1) == W ->
  inject_Z N * (lo2 - mn) == inject_Z (I + d) * W -> inject_Z N * (hi2 - lo2) == W ->
  lo2 == lo1 + inject_Z d * (hi1 - lo1) /\ hi2 == hi1 + inject_Z d * (hi1 - lo1).
Proof.
  intros HN A1 B1 A2 B2. pose proof (inject_pos N HN) as Hn.
  rewrite inject_Z_plus in A2.
  set (n := inject_Z N) in *. set (i := inject_Z I) in *. set (dd := inject_Z d) in *.
  assert (E : dd * (n * (hi1 - lo1)) == dd * W) by (rewrite B1; reflexivity).
  assert (E1 : lo2 * n == (lo1 + dd * (hi1 - lo1)) * n) by lra.
  assert (E2 : hi2 * n == (hi1 + dd * (hi1 - lo1)) * n) by lra.
  apply Qmult_inj_r in E1; [|lra]. apply Qmult_inj_r in E2; [|lra]. now split.
Qed.

Ltac fin := cbn [fst snd]; change (inject_Z (-1)) with (-1 # 1); change (inject_Z 0) with 0;
            change (inject_Z 1) with 1; lra.

Section Nbr.
  Variable c : cfg.
  Hypothesis OK : cfg_ok c.

  (* the cell of a point d widths east / e heights north of the centre of [gh] is the translate of
     the cell of [gh] *)
  Lemma nbr_cell_bounds gh x y ex ey d e p x' y' ex' ey' :
    decode c gh = Ok (x, y, ex, ey) -> in_range c p ->
    fst p == x + inject_Z d * (ex * 2) -> snd p == y + inject_Z e * (ey * 2) ->
    decode c (encode c p (length gh)) = Ok (x', y', ex', ey') ->
    (x' - ex' == x - ex + inject_Z d * (2 * ex) /\ x' + ex' == x + ex + inject_Z d * (2 * ex)) /\
    (y' - ey' == y - ey + inject_Z e * (2 * ey) /\ y' + ey' == y + ey + inject_Z e * (2 * ey)).
  Proof.
    intros D R Px Py D'.
    pose proof (nbr_cell_index c OK gh x y ex ey d e p D R Px Py) as IX.
    destruct (decode_ok c OK _ _ D) as [V C]. destruct (decode_ok c OK _ _ D') as [V' C'].
    assert (L' : length (encode c p (length gh)) = length gh) by apply enc_loop_length.
    pose proof (gi_of_inv c gh) as (_ & (R1x & R1y) & (A1 & B1) & (A1' & B1')).
    pose proof (gi_of_inv c (encode c p (length gh))) as (_ & _ & (A2 & B2) & (A2' & B2')).
    destruct (gi_of_dims c OK gh V) as [N1 N1']. destruct (gi_of_dims c OK _ V') as [N2 N2'].
    rewrite L', <- N1 in N2. rewrite L', <- N1' in N2'.
    unfold cell_index in IX. cbn [fst snd] in IX. injection IX as IX1 IX2.
    rewrite N2, IX1 in A2. rewrite N2 in B2. rewrite N2', IX2 in A2'. rewrite N2' in B2'.
    assert (P1 : (0 < gnx (gi_of c gh))%Z) by lia. assert (P2 : (0 < gny (gi_of c gh))%Z) by lia.
    destruct (shift1 _ _ _ _ _ _ _ _ _ P1 A1 B1 A2 B2) as [S1 S2].
    destruct (shift1 _ _ _ _ _ _ _ _ _ P2 A1' B1' A2' B2') as [S3 S4].
    destruct C as (_ & C1 & C2 & C3 & C4). destruct C' as (_ & C1' & C2' & C3' & C4').
    set (dd := inject_Z d) in *. set (de := inject_Z e) in *.
    assert (X1 : dd * (snd (lonI (cell_st c gh)) - fst (lonI (cell_st c gh))) == dd * (2 * ex))
      by (rewrite <- C1, <- C2; ring).
    assert (X2 : de * (snd (latI (cell_st c gh)) - fst (latI (cell_st c gh))) == de * (2 * ey))
      by (rewrite <- C3, <- C4; ring).
    repeat split; lra.
  Qed.

  (* interior3 with the east margin strict: the 3 x 3 block is inside the ranges and its east edge
     is west of 180, so no cell of the block is in the lon-180 column (D12) *)
  Definition interior3s (r : Q * Q * Q * Q) : Prop :=
    interior3 c r /\ (let '(x, _, ex, _) := r in x + 3 * ex < 180).

  Lemma nbr_plain_box gh x y ex ey n r' :
    decode c gh = Ok (x, y, ex, ey) -> interior3s (x, y, ex, ey) ->
    In n (get_surrounding c gh) -> decode c n = Ok r' -> plain_box r'.
  Proof.
    intros D [((G1 & G2 & G3 & G4) & (G5 & G6 & G7 & G8)) G9] Hn D'.
    destruct (decode_err_pos c OK _ _ _ _ _ D) as [Ex Ey].
    destruct r' as [[[x' y'] ex'] ey'].
    unfold get_surrounding in Hn. rewrite D in Hn. rewrite !coordinate_id in Hn by lra.
    assert (K : forall d e : Z, (-1 <= d <= 1)%Z -> (-1 <= e <= 1)%Z ->
              forall p, fst p == x + inject_Z d * (ex * 2) -> snd p == y + inject_Z e * (ey * 2) ->
              n = encode c p (length gh) -> plain_box (x', y', ex', ey')).
    { intros d e Hd He p Px Py ->.
      assert (R : in_range c p).
      { unfold in_range.
        assert (Cd : d = (-1)%Z \/ d = 0%Z \/ d = 1%Z) by lia.
        assert (Ce : e = (-1)%Z \/ e = 0%Z \/ e = 1%Z) by lia.
        destruct Cd as [-> | [-> | ->]], Ce as [-> | [-> | ->]];
          change (inject_Z (-1)) with (-1 # 1) in *; change (inject_Z 0) with 0 in *;
          change (inject_Z 1) with 1 in *; lra. }
      destruct (nbr_cell_bounds gh x y ex ey d e p x' y' ex' ey' D R Px Py D') as [[B1 B2] [B3 B4]].
      unfold plain_box.
      assert (Cd : d = (-1)%Z \/ d = 0%Z \/ d = 1%Z) by lia.
      assert (Ce : e = (-1)%Z \/ e = 0%Z \/ e = 1%Z) by lia.
      destruct Cd as [-> | [-> | ->]], Ce as [-> | [-> | ->]];
        change (inject_Z (-1)) with (-1 # 1) in *; change (inject_Z 0) with 0 in *;
        change (inject_Z 1) with 1 in *; lra. }
    cbn [In] in Hn.
    destruct Hn as [H|[H|[H|[H|[H|[H|[H|[H|[]]]]]]]]]; symmetry in H.
    - refine (K (0)%Z (1)%Z _ _ _ _ _ H); [lia|lia|fin|fin].
    - refine (K (1)%Z (1)%Z _ _ _ _ _ H); [lia|lia|fin|fin].
    - refine (K (1)%Z (0)%Z _ _ _ _ _ H); [lia|lia|fin|fin].
    - refine (K (1)%Z (-1)%Z _ _ _ _ _ H); [lia|lia|fin|fin].
    - refine (K (0)%Z (-1)%Z _ _ _ _ _ H); [lia|lia|fin|fin].
    - refine (K (-1)%Z (-1)%Z _ _ _ _ _ H); [lia|lia|fin|fin].
    - refine (K (-1)%Z (0)%Z _ _ _ _ _ H); [lia|lia|fin|fin].
    - refine (K (-1)%Z (1)%Z _ _ _ _ _ H); [lia|lia|fin|fin].
  Qed.
End Nbr.
Close Scope Q_scope.

(* ------------------------------------------------------------------ reachability and the test *)
Section ReachCongr.
  Variable cell : Type.
  Variable nbr : cell -> list cell.
  Variables t1 t2 : cell -> bool.
  Variable start : cell.
  (* the two tests agree wherever the loop evaluates one: on the neighbours of reached cells *)
  Hypothesis agree : forall c0 n, reach cell nbr t1 start c0 -> In n (nbr c0) -> t1 n = t2 n.

  Lemma reach_congr x : reach cell nbr t1 start x <-> reach cell nbr t2 start x.
  Proof.
    split.
    - induction 1 as [|c0 n R IH Hn Ht]; [constructor|].
      eapply reach_step; [exact IH|exact Hn|]. rewrite <- (agree c0 n R Hn). exact Ht.
    - induction 1 as [|c0 n R IH Hn Ht]; [constructor|].
      eapply reach_step; [exact IH|exact Hn|]. rewrite (agree c0 n IH Hn). exact Ht.
  Qed.
End ReachCongr.

(* ------------------------------------------------------------------ the composition *)
Section Compose.
  Variable c : cfg.
  Hypothesis OK : cfg_ok c.
  Variable len : nat.
  Variables w s : Z.
  Hypothesis Hs : 0 < s.
  Variables a b ya yb : Q.
  Hypothesis Hab : (a < b)%Q.
  Hypothesis Hy : (ya < yb)%Q.
  Hypothesis Ia : integral s a. Hypothesis Ib : integral s b.
  Hypothesis Iya : integral s ya. Hypothesis Iyb : integral s yb.
  Hypothesis cells_integral :
    forall gh r, valid_len c len gh -> decode c gh = Ok r -> cell_integral s r.
  Hypothesis touched_interior :
    forall gh r, valid_len c len gh -> box_touch c a b ya yb gh = true -> decode c gh = Ok r ->
                 interior3s c r.
  Variable start : Q * Q.
  Hypothesis start_range : in_range c start.
  Hypothesis start_box : FloodP7.in_box a b ya yb start.

  Notation bt := (box_touch c a b ya yb).
  Notation it := (impl_touch c w s a b ya yb).
  Notation X0 := (box_x0 c len a). Notation X1 := (box_x1 c len b).
  Notation Y0 := (box_y0 c len ya). Notation Y1 := (box_y1 c len yb).

  Lemma bt_rect gh : valid_len c len gh -> bt gh = touch_rect X0 X1 Y0 Y1 (cell_index c gh).
  Proof. apply box_touch_is_rect, OK. Qed.

  Lemma bt_start : touch_rect X0 X1 Y0 Y1 (cell_index c (encode c start len)) = true.
  Proof.
    rewrite <- bt_rect by (apply encode_len_alphabet, OK). now apply start_touched.
  Qed.

  Lemma bt_interior gh r : valid_len c len gh ->
    touch_rect X0 X1 Y0 Y1 (cell_index c gh) = true -> decode c gh = Ok r -> interior3 c r.
  Proof. intros V T D. apply (touched_interior gh r V); [now rewrite bt_rect|exact D]. Qed.

  (* the geometric test characterises its own reachable set (FloodP6/P7) *)
  Lemma bt_reach gh :
    nreach c bt (encode c start len) gh <-> valid_len c len gh /\ bt gh = true.
  Proof.
    split.
    - intro R. destruct (nreach_valid_rect c OK len bt X0 X1 Y0 Y1 bt_rect start bt_start gh R) as [V T].
      split; [exact V|now rewrite bt_rect].
    - intros [V T]. apply (niemeyer_rect_reach c OK len bt X0 X1 Y0 Y1 bt_rect bt_interior start bt_start gh V).
      now rewrite <- bt_rect.
  Qed.

  (* wherever the loop evaluates the test, the implementation model and the geometry agree *)
  Lemma tests_agree c0 n :
    nreach c bt (encode c start len) c0 -> In n (get_surrounding c c0) -> bt n = it n.
  Proof.
    intros R Hn. apply bt_reach in R. destruct R as [V0 T0].
    destruct (decode_valid c OK c0 (proj2 V0)) as ([[[x y] ex] ey] & D0 & _).
    pose proof (touched_interior c0 _ V0 T0 D0) as I0.
    destruct (surrounding_valid c OK _ _ Hn) as [Ln Vn].
    assert (V : valid_len c len n) by (split; [destruct V0; congruence|exact Vn]).
    destruct (decode_valid c OK n Vn) as ([[[x' y'] ex'] ey'] & D & _).
    symmetry. apply (impl_touch_eq c OK w s Hs a b ya yb Hab Hy Ia Ib Iya Iyb n x' y' ex' ey' D).
    - exact (nbr_plain_box c OK c0 x y ex ey n _ D0 I0 Hn D).
    - exact (cells_integral n _ V D).
  Qed.

  Theorem niemeyer_box_exact_impl fuel r :
    niemeyer_flood c len start it fuel = Some r ->
    forall gh, In gh r <-> valid_len c len gh /\ bt gh = true.
  Proof.
    intros H gh. rewrite (proj1 (niemeyer_flood_result c len it start fuel r H) gh).
    unfold nreach. rewrite <- (reach_congr (list Z) (get_surrounding c) bt it (encode c start len) tests_agree gh).
    apply bt_reach.
  Qed.

  Theorem niemeyer_box_terminates_impl fuel :
    (length (all_strs (charset c) len) + 2 <= fuel)%nat ->
    exists r, niemeyer_flood c len start it fuel = Some r /\
              forall gh, In gh r <-> valid_len c len gh /\ bt gh = true.
  Proof.
    intro F. destruct (niemeyer_flood_terminates c OK len it start fuel F) as (r & Hr & _).
    exists r. split; [exact Hr|]. now apply niemeyer_box_exact_impl with (fuel := fuel).
  Qed.
End Compose.

(* ------------------------------------------------------------------ index-only hypotheses (base 32) *)
Open Scope Q_scope.
Lemma border_hi_strict (N I : Z) (W mn mx lo hi : Q) :
  (0 < N)%Z -> 0 < W -> (I + 2 < N)%Z -> mx - mn == W ->
  inject_Z N * (lo - mn) == inject_Z I * W -> inject_Z N * (hi - lo) == W ->
  hi + (hi - lo) < mx.
Proof.
  intros HN HW HI M A B. pose proof (inject_pos N HN) as Hn.
  assert (Hi : inject_Z I + 3 <= inject_Z N).
  { change 3 with (inject_Z 3). rewrite <- inject_Z_plus, <- Zle_Qle. lia. }
  set (n := inject_Z N) in *. set (i := inject_Z I) in *.
  assert (X : (i + 3) * W <= n * W) by (apply Qmult_le_compat_r; lra).
  assert (M' : n * (mx - mn) == n * W) by (rewrite M; reflexivity).
  apply (Qmult_lt_r _ _ n Hn). lra.
Qed.

Lemma interior3s_of_index c gh r : cfg_ok c -> cfg_geo c -> decode c gh = Ok r ->
  (0 < fst (cell_index c gh) < grid_nx c (length gh) - 2)%Z ->
  (0 < snd (cell_index c gh) < grid_ny c (length gh) - 1)%Z -> interior3s c r.
Proof.
  intros OK G D Hi Hj. split; [apply (interior3_of_index c OK gh r G D); lia|].
  destruct r as [[[x y] ex] ey]. destruct G as (G1 & G2 & G3 & G4).
  destruct (decode_ok c OK _ _ D) as [V C]. destruct C as (_ & C1 & C2 & C3 & C4).
  destruct (gi_of_dims c OK gh V) as [N1 N2]. rewrite <- N1 in Hi.
  pose proof (gi_of_inv c gh) as (_ & (R1x & R1y) & (A1 & B1) & _).
  destruct (range_pos c OK) as [Wx Wy]. unfold cell_index in Hi. cbn [fst] in Hi.
  assert (P1 : (0 < gnx (gi_of c gh))%Z) by lia.
  assert (P5 : (gx (gi_of c gh) + 2 < gnx (gi_of c gh))%Z) by lia.
  pose proof (border_hi_strict _ _ _ _ (maxx c) _ _ P1 Wx P5 (Qeq_refl _) A1 B1) as L. lra.
Qed.
Close Scope Q_scope.

Theorem niemeyer_box_exact_impl_geo c len w s a b ya yb start fuel r :
  cfg_ok c -> cfg_geo c -> 0 < s -> (a < b)%Q -> (ya < yb)%Q ->
  integral s a -> integral s b -> integral s ya -> integral s yb ->
  (forall gh r, valid_len c len gh -> decode c gh = Ok r -> cell_integral s r) ->
  (0 < box_x0 c len a /\ box_x1 c len b < grid_nx c len - 2) ->
  (0 < box_y0 c len ya /\ box_y1 c len yb < grid_ny c len - 1) ->
  in_range c start -> FloodP7.in_box a b ya yb start ->
  niemeyer_flood c len start (impl_touch c w s a b ya yb) fuel = Some r ->
  forall gh, In gh r <-> valid_len c len gh /\ box_touch c a b ya yb gh = true.
Proof.
  intros OK G Hs Hab Hy Ia Ib Iya Iyb CI Hx Hyy SR SB.
  apply (niemeyer_box_exact_impl c OK len w s Hs a b ya yb Hab Hy Ia Ib Iya Iyb CI); try assumption.
  intros gh r' [L V] T D. rewrite (box_touch_is_rect c OK len a b ya yb gh (conj L V)) in T.
  destruct (cell_index c gh) as [i j] eqn:E. apply touch_rect_spec in T.
  apply (interior3s_of_index c gh r' OK G D); rewrite E, L; cbn [fst snd]; lia.
Qed.

Theorem niemeyer_box_terminates_impl_geo c len w s a b ya yb start fuel :
  cfg_ok c -> cfg_geo c -> 0 < s -> (a < b)%Q -> (ya < yb)%Q ->
  integral s a -> integral s b -> integral s ya -> integral s yb ->
  (forall gh r, valid_len c len gh -> decode c gh = Ok r -> cell_integral s r) ->
  (0 < box_x0 c len a /\ box_x1 c len b < grid_nx c len - 2) ->
  (0 < box_y0 c len ya /\ box_y1 c len yb < grid_ny c len - 1) ->
  in_range c start -> FloodP7.in_box a b ya yb start ->
  (length (all_strs (charset c) len) + 2 <= fuel)%nat ->
  exists r, niemeyer_flood c len start (impl_touch c w s a b ya yb) fuel = Some r /\
            forall gh, In gh r <-> valid_len c len gh /\ box_touch c a b ya yb gh = true.
Proof.
  intros OK G Hs Hab Hy Ia Ib Iya Iyb CI Hx Hyy SR SB F.
  destruct (niemeyer_flood_terminates c OK len (impl_touch c w s a b ya yb) start fuel F) as (r & Hr & _).
  exists r. split; [exact Hr|].
  exact (niemeyer_box_exact_impl_geo c len w s a b ya yb start fuel r OK G Hs Hab Hy Ia Ib Iya Iyb CI Hx Hyy SR SB Hr).
Qed.

(* ------------------------------------------------------------------ a scale that always works *)
(* configurations whose coordinate ranges are integers (all three tables): every multiple of
   grid_nx * grid_ny makes every bound of every cell of that length an integer *)
Open Scope Q_scope.
Definition cfg_int (c : cfg) : Prop :=
  exists x0 x1 y0 y1 : Z, minx c == inject_Z x0 /\ maxx c == inject_Z x1 /\
                          miny c == inject_Z y0 /\ maxy c == inject_Z y1.

Lemma int1 (N I k m0 wz : Z) (W mn lo hi p q : Q) :
  inject_Z N * (lo - mn) == inject_Z I * W -> inject_Z N * (hi - lo) == W ->
  mn == inject_Z m0 -> W == inject_Z wz -> p == lo -> q == hi ->
  integral (k * N) p /\ integral (k * N) q.
Proof.
  intros A B Em Ew Ep Eq.
  split.
  - apply (integral_of_eq _ _ (k * (N * m0 + I * wz))).
    rewrite !inject_Z_mult, inject_Z_plus, !inject_Z_mult, Ep, <- Em, <- Ew.
    set (n := inject_Z N) in *. set (i := inject_Z I) in *. set (kk := inject_Z k).
    assert (X : kk * (n * (lo - mn)) == kk * (i * W)) by (rewrite A; reflexivity). lra.
  - apply (integral_of_eq _ _ (k * (N * m0 + I * wz + wz))).
    rewrite !inject_Z_mult, !inject_Z_plus, !inject_Z_mult, Eq, <- Em, <- Ew.
    set (n := inject_Z N) in *. set (i := inject_Z I) in *. set (kk := inject_Z k).
    assert (X : kk * (n * (lo - mn)) == kk * (i * W)) by (rewrite A; reflexivity).
    assert (Y : kk * (n * (hi - lo)) == kk * W) by (rewrite B; reflexivity). lra.
Qed.

Lemma grid_scale_ok c len k : cfg_ok c -> cfg_int c ->
  forall gh r, valid_len c len gh -> decode c gh = Ok r ->
  cell_integral (k * grid_nx c len * grid_ny c len) r.
Proof.
  intros OK (x0 & x1 & y0 & y1 & E1 & E2 & E3 & E4) gh [[[x y] ex] ey] [L V] D.
  destruct (decode_ok c OK _ _ D) as [_ C]. destruct C as (_ & C1 & C2 & C3 & C4).
  destruct (gi_of_dims c OK gh V) as [N1 N2]. rewrite L in N1, N2.
  pose proof (gi_of_inv c gh) as (_ & _ & (A1 & B1) & (A2 & B2)). rewrite N1 in A1, B1. rewrite N2 in A2, B2.
  assert (Wx : maxx c - minx c == inject_Z (x1 - x0)) by (unfold Zminus; rewrite inject_Z_plus, inject_Z_opp, E1, E2; ring).
  assert (Wy : maxy c - miny c == inject_Z (y1 - y0)) by (unfold Zminus; rewrite inject_Z_plus, inject_Z_opp, E3, E4; ring).
  destruct (int1 _ _ (k * grid_ny c len) _ _ _ _ _ _ (x - ex) (x + ex) A1 B1 E1 Wx C1 C2) as [J1 J2].
  destruct (int1 _ _ (k * grid_nx c len) _ _ _ _ _ _ (y - ey) (y + ey) A2 B2 E3 Wy C3 C4) as [J3 J4].
  replace (k * grid_ny c len * grid_nx c len)%Z with (k * grid_nx c len * grid_ny c len)%Z in J1, J2 by ring.
  unfold cell_integral. auto.
Qed.

Lemma cfg_int_tables : cfg_int cfg16 /\ cfg_int cfg32 /\ cfg_int cfg64.
Proof.
  repeat split; [exists (-180)%Z, 180%Z, (-180)%Z, 180%Z|exists (-180)%Z, 180%Z, (-90)%Z, 90%Z|
                 exists (-180)%Z, 180%Z, (-180)%Z, 180%Z]; repeat split; reflexivity.
Qed.
Close Scope Q_scope.

(* ------------------------------------------------------------------ the end-to-end statement *)
Lemma grid_pos c len : 0 < grid_nx c len /\ 0 < grid_ny c len.
Proof. unfold grid_nx, grid_ny. split; apply Z.pow_pos_nonneg; lia. Qed.

(* hash_shape(GeoBox) with whole-degree corners at base 32 (any configuration with integer ranges
   inside the coordinate range), per-cell test = the implementation models of niemeyer_to_geobox
   and GeoBox.intersects_shape on data scaled by grid_nx * grid_ny: exactly the cells of the
   hasher's length that share a point with the closed query box.  No connectivity hypothesis, no
   hypothesis on the per-cell test. *)
Theorem hash_int_box_exact_impl c len w (A B YA YB : Z) start fuel r :
  cfg_ok c -> cfg_geo c -> cfg_int c -> A < B -> YA < YB ->
  let a := inject_Z A in let b := inject_Z B in let ya := inject_Z YA in let yb := inject_Z YB in
  let s := grid_nx c len * grid_ny c len in
  (0 < box_x0 c len a /\ box_x1 c len b < grid_nx c len - 2) ->
  (0 < box_y0 c len ya /\ box_y1 c len yb < grid_ny c len - 1) ->
  in_range c start -> FloodP7.in_box a b ya yb start ->
  niemeyer_flood c len start (impl_touch c w s a b ya yb) fuel = Some r ->
  forall gh, In gh r <->
    valid_len c len gh /\
    exists rr, decode c gh = Ok rr /\ exists p, in_cell p rr /\ FloodP7.in_box a b ya yb p.
Proof.
  intros OK G CI HAB HY a b ya yb s Hx Hyy SR SB H gh.
  destruct (grid_pos c len) as [Px Py].
  assert (Hs : 0 < s) by (unfold s; nia).
  assert (Qab : (a < b)%Q) by (unfold a, b; now rewrite <- Zlt_Qlt).
  assert (Qy : (ya < yb)%Q) by (unfold ya, yb; now rewrite <- Zlt_Qlt).
  assert (CIs : forall g rr, valid_len c len g -> decode c g = Ok rr -> cell_integral s rr).
  { intros g rr Vg Dg. unfold s. replace (grid_nx c len * grid_ny c len) with (1 * grid_nx c len * grid_ny c len) by ring.
    exact (grid_scale_ok c len 1 OK CI g rr Vg Dg). }
  rewrite (niemeyer_box_exact_impl_geo c len w s a b ya yb start fuel r OK G Hs Qab Qy
             (integral_int s A) (integral_int s B) (integral_int s YA) (integral_int s YB)
             CIs Hx Hyy SR SB H gh).
  rewrite (box_touch_spec c OK a b ya yb gh) by (apply Qlt_le_weak; assumption). reflexivity.
Qed.
