(* The inverse problem followed by the direct problem: travelling along the computed bearing
   for the computed distance arrives at the second point (so the bearing IS the initial
   great-circle azimuth); the bound of dist_range is attained exactly at antipodal points. *)
From GV Require Import Prelude SphereM SphereP1 SphereP2 SphereP3.
From Coq Require Import Reals Lra Nsatz.
Open Scope R_scope.

(* the bound of dist_range is attained exactly at antipodal points *)
Lemma hdist_antipode l f : hdist (l, f) (l + 180, - f) = PI * Rearth.
Proof.
  rewrite hdist_unwrap. unfold hdist_raw, lon, lat; cbn [fst snd].
  assert (E : hav_a (rad l) (rad f) (rad (l + 180)) (rad (- f)) = 1).
  { rewrite hav_a_cos. rewrite rad_plus.
    replace (rad l + rad 180 - rad l) with PI by (unfold rad; field).
    replace (rad (- f) - rad f) with (- (2 * rad f)) by (unfold rad; field).
    replace (rad (- f)) with (- rad f) by (unfold rad; field).
    rewrite !cos_neg, cos_PI, cos_2a_cos. pose proof (sc1 (rad f)). field_simplify. lra. }
  rewrite E. replace (1 - 1) with 0 by ring. rewrite Rmax_left by lra.
  rewrite sqrt_0, sqrt_1, atan2_0_pos by lra. field.
Qed.

Lemma inv_norm (s1 c1 s2 c2 sd cd : R) :
  s1 * s1 + c1 * c1 = 1 -> s2 * s2 + c2 * c2 = 1 -> sd * sd + cd * cd = 1 ->
  let x := c2 * sd in let y := c1 * s2 - s1 * c2 * cd in let z := s1 * s2 + c1 * c2 * cd in
  x * x + y * y + z * z = 1.
Proof. intros H1 H2 H3 x y z. unfold x, y, z. nsatz. Qed.

(* reduce any angle into (-PI, PI] by whole turns *)
Lemma angle_reduce t : exists m : Z, - PI < t + 2 * IZR m * PI <= PI.
Proof.
  pose proof PI_RGT_0 as HP.
  set (m := Int_part ((PI - t) / (2 * PI))).
  destruct (base_Int_part ((PI - t) / (2 * PI))) as [B1 B2]. fold m in B1, B2.
  assert (Em : PI - t = 2 * PI * ((PI - t) / (2 * PI))) by (field; lra).
  set (q := (PI - t) / (2 * PI)) in *. exists m. split; nra.
Qed.

(* following the computed bearing for the computed distance arrives at the second point *)
Theorem inverse_then_direct p q :
  -90 < lat p < 90 -> -90 < lat q < 90 -> 0 < hdist p q < PI * Rearth ->
  exists m : Z,
    dest_rad p (rad (bearing_raw p q)) (hdist p q) = (lon q + 360 * IZR m, lat q).
Proof.
  intros Hp Hq Hd. pose proof PI_RGT_0 as HP. pose proof Rearth_pos as HR.
  set (f1 := rad (lat p)). set (f2 := rad (lat q)). set (dl := rad (lon q) - rad (lon p)).
  assert (Hc1 : 0 < cos f1) by (apply cos_lat_pos; exact Hp).
  assert (Hc2 : 0 < cos f2) by (apply cos_lat_pos; exact Hq).
  (* the angular distance *)
  rewrite hdist_unwrap in *.
  destruct (hdist_raw_angle p q) as [Hr Hcr]. cbv zeta in Hr, Hcr.
  set (r := hdist_raw p q / Rearth) in *.
  assert (Hr' : 0 < r < PI).
  { unfold r. assert (0 < / Rearth) by (apply Rinv_0_lt_compat; lra). unfold Rdiv. split; [nra|].
    apply Rmult_lt_reg_r with Rearth; [lra|]. rewrite Rmult_assoc, Rinv_l by lra. lra. }
  assert (Hsr : 0 < sin r) by (apply sin_gt_0; lra).
  unfold hav_of in Hcr. rewrite hav_a_dot in Hcr. fold f1 f2 dl in Hcr.
  set (z := sin f1 * sin f2 + cos f1 * cos f2 * cos dl) in *.
  (* the bearing *)
  set (x := cos f2 * sin dl). set (y := cos f1 * sin f2 - sin f1 * cos f2 * cos dl).
  assert (Exy : bearing_xy p q = (x, y)).
  { unfold bearing_xy, x, y, f1, f2, dl. rewrite rad_minus. reflexivity. }
  assert (N : x * x + y * y = sin r * sin r).
  { pose proof (inv_norm _ _ _ _ _ _ (sc1 f1) (sc1 f2) (sc1 dl)) as E. cbv zeta in E.
    fold x y z in E. pose proof (sc1 r) as F. rewrite Hcr in F. lra. }
  assert (Hne : y <> 0 \/ x <> 0).
  { destruct (Req_dec y 0) as [E|E]; [right|left; exact E]. intro F. rewrite E, F in N. nra. }
  set (th := atan2 x y).
  assert (Cth : cos th = y / sin r).
  { unfold th. rewrite cos_atan2 by exact Hne. replace (y * y + x * x) with (sin r * sin r) by lra.
    rewrite sqrt_square by lra. reflexivity. }
  assert (Sth : sin th = x / sin r).
  { unfold th. rewrite sin_atan2 by exact Hne. replace (y * y + x * x) with (sin r * sin r) by lra.
    rewrite sqrt_square by lra. reflexivity. }
  (* rad (bearing_raw) = th + whole turns *)
  assert (Eb : exists j : Z, rad (bearing_raw p q) = th + 2 * IZR j * PI).
  { unfold bearing_raw. rewrite Exy. cbn [fst snd]. fold th. unfold Rmod.
    set (j := Int_part _). exists (1 - j)%Z. rewrite minus_IZR. unfold rad, deg. field. lra. }
  destruct Eb as [j Eb].
  assert (Cb : cos (rad (bearing_raw p q)) = y / sin r) by (rewrite Eb, cos_period_Z; exact Cth).
  assert (Sb : sin (rad (bearing_raw p q)) = x / sin r) by (rewrite Eb, sin_period_Z; exact Sth).
  (* the destination *)
  destruct (angle_reduce dl) as [m Hm].
  exists m.
  unfold dest_rad. fold r. rewrite !rad_alt. fold f1. rewrite Cb, Sb.
  assert (Es2 : sin f1 * cos r + cos f1 * sin r * (y / sin r) = sin f2).
  { rewrite Hcr. replace (cos f1 * sin r * (y / sin r)) with (cos f1 * y) by (field; lra).
    unfold z, y. pose proof (sc1 f1) as E1.
    transitivity ((sin f1 * sin f1 + cos f1 * cos f1) * sin f2); [ring|rewrite E1; ring]. }
  rewrite Es2.
  assert (Ef2 : asin (sin f2) = f2).
  { apply asin_sin. unfold f2, rad. split; nra. }
  rewrite Ef2.
  assert (EY : x / sin r * sin r * cos f1 = cos f1 * cos f2 * sin (dl + 2 * IZR m * PI)).
  { rewrite sin_period_Z. unfold x. field. lra. }
  assert (EX : cos r - sin f1 * sin f2 = cos f1 * cos f2 * cos (dl + 2 * IZR m * PI)).
  { rewrite cos_period_Z, Hcr. unfold z. ring. }
  rewrite EY, EX, atan2_polar by (try nra; exact Hm).
  rewrite !deg_alt. f_equal.
  - unfold dl. unfold deg, rad. field. lra.
  - unfold f2. apply deg_rad_id.
Qed.
