(* Facts about the FLOAT model CoordF.v that hold for every pair of binary64 inputs (finite or
   not) and every fuel.  They follow from the exit conditions of the two loops and from
   evaluating float comparisons on literals; nothing about rounding is needed, so no float
   axiom is used (Print Assumptions shows only the kernel's primitive float type/operations).
   Termination (that some fuel gives Some) is NOT here: see CoordFT.v. *)
From Coq Require Import PrimFloat Uint63.
From GV Require Import Prelude CoordF.

(* ---- the loops stop exactly when their condition holds *)
Lemma pole_loopf_exit : forall fuel p q, pole_loopf fuel p = Some q -> lat_okf (snd q) = true.
Proof.
  induction fuel as [|f IH]; intros p q H; cbn [pole_loopf] in H;
    destruct (lat_okf (snd p)) eqn:E; try discriminate.
  - injection H as <-. exact E.
  - injection H as <-. exact E.
  - eapply IH; eauto.
Qed.

Lemma wrap_loopf_exit : forall fuel x y, wrap_loopf fuel x = Some y -> lon_okf y = true.
Proof.
  induction fuel as [|f IH]; intros x y H; cbn [wrap_loopf] in H;
    destruct (lon_okf x) eqn:E; try discriminate.
  - injection H as <-. exact E.
  - injection H as <-. exact E.
  - eapply IH; eauto.
Qed.

Lemma pole_loopf_fix : forall fuel p, lat_okf (snd p) = true -> pole_loopf fuel p = Some p.
Proof. intros [|f] p H; cbn [pole_loopf]; rewrite H; reflexivity. Qed.

Lemma wrap_loopf_fix : forall fuel x, lon_okf x = true -> wrap_loopf fuel x = Some x.
Proof. intros [|f] x H; cbn [wrap_loopf]; rewrite H; reflexivity. Qed.

(* ---- more fuel never changes a result *)
Lemma pole_loopf_mono : forall f1 f2 p q, (f1 <= f2)%nat ->
  pole_loopf f1 p = Some q -> pole_loopf f2 p = Some q.
Proof.
  induction f1 as [|f1 IH]; intros f2 p q Hle H.
  - cbn [pole_loopf] in H. destruct (lat_okf (snd p)) eqn:E; [|discriminate].
    rewrite pole_loopf_fix by exact E. exact H.
  - destruct f2 as [|f2]; [inversion Hle|].
    cbn [pole_loopf] in *. destruct (lat_okf (snd p)); [exact H|].
    apply IH; [apply le_S_n; exact Hle|exact H].
Qed.

Lemma wrap_loopf_mono : forall f1 f2 x y, (f1 <= f2)%nat ->
  wrap_loopf f1 x = Some y -> wrap_loopf f2 x = Some y.
Proof.
  induction f1 as [|f1 IH]; intros f2 x y Hle H.
  - cbn [wrap_loopf] in H. destruct (lon_okf x) eqn:E; [|discriminate].
    rewrite wrap_loopf_fix by exact E. exact H.
  - destruct f2 as [|f2]; [inversion Hle|].
    cbn [wrap_loopf] in *. destruct (lon_okf x); [exact H|].
    apply IH; [apply le_S_n; exact Hle|exact H].
Qed.

(* ---- 180 -> -180 *)
Lemma canon180f_not180 : forall x, PrimFloat.eqb (canon180f x) 180%float = false.
Proof.
  intros x. unfold canon180f. destruct (PrimFloat.eqb x 180%float) eqn:E; [reflexivity|exact E].
Qed.

Lemma canon180f_ok : forall x, lon_okf x = true -> lon_okf (canon180f x) = true.
Proof.
  intros x H. unfold canon180f. destruct (PrimFloat.eqb x 180%float); [reflexivity|exact H].
Qed.

Lemma canon180f_id : forall x, PrimFloat.eqb x 180%float = false -> canon180f x = x.
Proof. intros x H. unfold canon180f. rewrite H. reflexivity. Qed.

(* ---- decomposition of a successful bounded construction *)
Lemma mkf_true_inv : forall fuel lon lat lon' lat',
  mkf fuel lon lat true = Some (lon', lat') ->
  exists lon1 lon2,
    pole_loopf fuel (lon, lat) = Some (lon1, lat') /\
    wrap_loopf fuel lon1 = Some lon2 /\ lon' = canon180f lon2.
Proof.
  intros fuel lon lat lon' lat' H. unfold mkf in H.
  destruct (pole_loopf fuel (lon, lat)) as [[lon1 lat1]|] eqn:E1; [|discriminate].
  destruct (wrap_loopf fuel lon1) as [lon2|] eqn:E2; [|discriminate].
  injection H as <- <-. exists lon1, lon2. auto.
Qed.

(* RANGE: the stored longitude is in [-180, 180) and the stored latitude in [-90, 90], as IEEE
   comparisons (in particular neither is a nan) *)
Lemma mkf_range : forall fuel lon lat lon' lat',
  mkf fuel lon lat true = Some (lon', lat') ->
  (PrimFloat.leb (-90)%float lat' && PrimFloat.leb lat' 90%float)%bool = true /\
  (PrimFloat.leb (-180)%float lon' && PrimFloat.leb lon' 180%float)%bool = true /\
  PrimFloat.eqb lon' 180%float = false.
Proof.
  intros fuel lon lat lon' lat' H.
  destruct (mkf_true_inv _ _ _ _ _ H) as (lon1 & lon2 & H1 & H2 & ->).
  split; [|split].
  - exact (pole_loopf_exit _ _ _ H1).
  - apply (canon180f_ok lon2). exact (wrap_loopf_exit _ _ _ H2).
  - apply canon180f_not180.
Qed.

(* a pair in range with longitude != 180 is stored as it is, whatever the fuel (0 included) *)
Lemma mkf_in_range_id : forall fuel lon lat,
  lat_okf lat = true -> lon_okf lon = true -> PrimFloat.eqb lon 180%float = false ->
  mkf fuel lon lat true = Some (lon, lat).
Proof.
  intros fuel lon lat Ha Ho He. unfold mkf.
  rewrite pole_loopf_fix by exact Ha. rewrite wrap_loopf_fix by exact Ho.
  rewrite canon180f_id by exact He. reflexivity.
Qed.

(* in-range input: only the 180 -> -180 fold happens *)
Lemma mkf_in_range : forall fuel lon lat,
  lat_okf lat = true -> lon_okf lon = true ->
  mkf fuel lon lat true = Some (canon180f lon, lat).
Proof.
  intros fuel lon lat Ha Ho. unfold mkf.
  rewrite pole_loopf_fix by exact Ha. rewrite wrap_loopf_fix by exact Ho. reflexivity.
Qed.

(* IDEMPOTENCE: normalising the stored pair again returns it, bit for bit, with any fuel *)
Lemma mkf_idempotent : forall fuel lon lat lon' lat',
  mkf fuel lon lat true = Some (lon', lat') ->
  forall fuel2, mkf fuel2 lon' lat' true = Some (lon', lat').
Proof.
  intros fuel lon lat lon' lat' H fuel2.
  destruct (mkf_range _ _ _ _ _ H) as (Ha & Ho & He).
  apply mkf_in_range_id; assumption.
Qed.

(* FUEL: more fuel never changes a result *)
Lemma mkf_fuel_mono : forall f1 f2 lon lat bounded r, (f1 <= f2)%nat ->
  mkf f1 lon lat bounded = Some r -> mkf f2 lon lat bounded = Some r.
Proof.
  intros f1 f2 lon lat [|] r Hle H; [|exact H].
  unfold mkf in *.
  destruct (pole_loopf f1 (lon, lat)) as [[lon1 lat1]|] eqn:E1; [|discriminate].
  rewrite (pole_loopf_mono _ _ _ _ Hle E1).
  destruct (wrap_loopf f1 lon1) as [lon2|] eqn:E2; [|discriminate].
  rewrite (wrap_loopf_mono _ _ _ _ Hle E2). exact H.
Qed.

(* two fuels that both give a result give the same one *)
Lemma mkf_fuel_agree : forall f1 f2 lon lat bounded r1 r2,
  mkf f1 lon lat bounded = Some r1 -> mkf f2 lon lat bounded = Some r2 -> r1 = r2.
Proof.
  intros f1 f2 lon lat bounded r1 r2 H1 H2.
  destruct (Nat.le_ge_cases f1 f2) as [L|L].
  - rewrite (mkf_fuel_mono _ _ _ _ _ _ L H1) in H2. injection H2 as <-. reflexivity.
  - rewrite (mkf_fuel_mono _ _ _ _ _ _ L H2) in H1. injection H1 as <-. reflexivity.
Qed.

(* UNBOUNDED: with _bounded=False only the 180 -> -180 fold is applied, no fuel is used *)
Lemma mkf_unbounded : forall fuel lon lat,
  mkf fuel lon lat false = Some (if PrimFloat.eqb lon 180%float then (-180)%float else lon, lat).
Proof. reflexivity. Qed.

Lemma mkf_unbounded_not180 : forall fuel lon lat lon' lat',
  mkf fuel lon lat false = Some (lon', lat') -> PrimFloat.eqb lon' 180%float = false /\ lat' = lat.
Proof.
  intros fuel lon lat lon' lat' H. cbn in H. injection H as <- <-.
  split; [apply canon180f_not180|reflexivity].
Qed.

(* ---- the bound on the inputs in the termination theorem (CoordFT.v) cannot simply be dropped:
   on a FINITE double as large as 2^61 the first loop of the float code makes no progress
   (lat - 90 rounds back to lat, 90 - lat to -lat, ...): a cycle of period 2, for every fuel *)
Lemma pole_loopf_cycle2 : forall p,
  lat_okf (snd p) = false -> lat_okf (snd (pole_stepf p)) = false ->
  pole_stepf (pole_stepf p) = p ->
  forall fuel, pole_loopf fuel p = None /\ pole_loopf fuel (pole_stepf p) = None.
Proof.
  intros p H1 H2 Hc. induction fuel as [|f [IH1 IH2]]; cbn [pole_loopf]; rewrite H1, H2.
  - split; reflexivity.
  - rewrite Hc. split; assumption.
Qed.

Lemma mkf_diverges_2p61 : forall fuel, mkf fuel 0%float 0x1p+61%float true = None.
Proof.
  intros fuel. unfold mkf.
  destruct (pole_loopf_cycle2 (0%float, 0x1p+61%float)) with (fuel := fuel) as [H _];
    try (vm_compute; reflexivity).
  rewrite H. reflexivity.
Qed.
