(* Foundations for the spherical model: the case-defined atan2, the float modulo, the decimal
   rounding.  No axioms beyond those of the standard library's real numbers. *)
From GV Require Import Prelude SphereM.
From Coq Require Import Reals Lra.
Open Scope R_scope.

(* ---------------------------------------------------------------- boolean comparisons *)
Lemma rltb_true a b : rltb a b = true <-> a < b.
Proof. unfold rltb; destruct (Rlt_dec a b); split; intros; try easy. Qed.
Lemma rltb_false a b : rltb a b = false <-> b <= a.
Proof. unfold rltb; destruct (Rlt_dec a b); split; intros; try easy; lra. Qed.
Lemma reqb_true a b : reqb a b = true <-> a = b.
Proof. unfold reqb; destruct (Req_EM_T a b); split; intros; try easy. Qed.
Lemma reqb_false a b : reqb a b = false <-> a <> b.
Proof. unfold reqb; destruct (Req_EM_T a b); split; intros; try easy. Qed.

(* ---------------------------------------------------------------- radians / degrees *)
Lemma PI_neq0' : PI <> 0. Proof. pose proof PI_RGT_0; lra. Qed.
Lemma rad_deg_id x : rad (deg x) = x.
Proof. unfold rad, deg. field. apply PI_neq0'. Qed.
Lemma deg_rad_id x : deg (rad x) = x.
Proof. unfold rad, deg. field. apply PI_neq0'. Qed.
Lemma rad_plus x y : rad (x + y) = rad x + rad y. Proof. unfold rad; ring. Qed.
Lemma rad_minus x y : rad (x - y) = rad x - rad y. Proof. unfold rad; ring. Qed.
Lemma rad_360 k : rad (360 * k) = 2 * k * PI. Proof. unfold rad; field. Qed.
Lemma rad_alt x : x * PI / 180 = rad x. Proof. unfold rad; field. Qed.
Lemma deg_alt x : x * 180 / PI = deg x. Proof. unfold deg; field. apply PI_neq0'. Qed.

(* ---------------------------------------------------------------- atan2 by quadrant *)
Lemma atan2_pos y x : 0 < x -> atan2 y x = atan (y / x).
Proof. intros; unfold atan2; destruct (Rlt_dec 0 x); [reflexivity|lra]. Qed.
Lemma atan2_neg_nonneg y x : x < 0 -> 0 <= y -> atan2 y x = atan (y / x) + PI.
Proof.
  intros; unfold atan2; destruct (Rlt_dec 0 x); [lra|].
  destruct (Rlt_dec x 0); [|lra]. destruct (Rle_dec 0 y); [reflexivity|lra].
Qed.
Lemma atan2_neg_neg y x : x < 0 -> y < 0 -> atan2 y x = atan (y / x) - PI.
Proof.
  intros; unfold atan2; destruct (Rlt_dec 0 x); [lra|].
  destruct (Rlt_dec x 0); [|lra]. destruct (Rle_dec 0 y); [lra|reflexivity].
Qed.
Lemma atan2_0_pos y : 0 < y -> atan2 y 0 = PI / 2.
Proof.
  intros; unfold atan2; destruct (Rlt_dec 0 0); [lra|].
  destruct (Rlt_dec 0 y); [reflexivity|lra].
Qed.
Lemma atan2_0_neg y : y < 0 -> atan2 y 0 = - (PI / 2).
Proof.
  intros; unfold atan2; destruct (Rlt_dec 0 0); [lra|].
  destruct (Rlt_dec 0 y); [lra|]. destruct (Rlt_dec y 0); [reflexivity|lra].
Qed.
Lemma atan2_0_0 : atan2 0 0 = 0.
Proof.
  unfold atan2; destruct (Rlt_dec 0 0); [lra|]. reflexivity.
Qed.

Lemma atan_nonneg t : 0 <= t -> 0 <= atan t.
Proof.
  intros [H | <-]; [|rewrite atan_0; lra].
  apply atan_increasing in H. rewrite atan_0 in H. lra.
Qed.
Lemma atan_nonpos t : t <= 0 -> atan t <= 0.
Proof.
  intros [H | ->]; [|rewrite atan_0; lra].
  apply atan_increasing in H. rewrite atan_0 in H. lra.
Qed.
Lemma atan_pos t : 0 < t -> 0 < atan t.
Proof. intros H; apply atan_increasing in H. rewrite atan_0 in H. lra. Qed.

Lemma div_neg_nonneg y x : x < 0 -> 0 <= y -> y / x <= 0.
Proof.
  intros Hx Hy. unfold Rdiv. assert (/ x < 0) by (apply Rinv_lt_0_compat; lra). nra.
Qed.
Lemma div_neg_neg y x : x < 0 -> y < 0 -> 0 < y / x.
Proof.
  intros Hx Hy. unfold Rdiv. assert (/ x < 0) by (apply Rinv_lt_0_compat; lra). nra.
Qed.
Lemma div_pos_nonneg y x : 0 < x -> 0 <= y -> 0 <= y / x.
Proof.
  intros Hx Hy. unfold Rdiv. assert (0 < / x) by (apply Rinv_0_lt_compat; lra). nra.
Qed.

Lemma atan2_bounds y x : - PI < atan2 y x <= PI.
Proof.
  pose proof PI_RGT_0 as HP. unfold atan2.
  destruct (Rlt_dec 0 x).
  { pose proof (atan_bound (y / x)). lra. }
  destruct (Rlt_dec x 0).
  { destruct (Rle_dec 0 y).
    - pose proof (atan_nonpos _ (div_neg_nonneg y x r r0)). pose proof (atan_bound (y / x)). lra.
    - assert (y < 0) by lra.
      pose proof (atan_pos _ (div_neg_neg y x r H)). pose proof (atan_bound (y / x)). lra. }
  destruct (Rlt_dec 0 y); [lra|]. destruct (Rlt_dec y 0); lra.
Qed.

(* atan2 of a point of the closed first quadrant *)
Lemma atan2_first_quadrant y x : 0 <= y -> 0 <= x -> 0 <= atan2 y x <= PI / 2.
Proof.
  intros Hy Hx. pose proof PI_RGT_0 as HP. unfold atan2.
  destruct (Rlt_dec 0 x).
  { pose proof (atan_nonneg _ (div_pos_nonneg y x r Hy)). pose proof (atan_bound (y / x)). lra. }
  destruct (Rlt_dec x 0); [lra|].
  destruct (Rlt_dec 0 y); [lra|]. destruct (Rlt_dec y 0); lra.
Qed.

(* ---------------------------------------------------------------- cos / sin of atan2 *)
Lemma sqrt_1_t2 y x : x <> 0 -> sqrt (1 + (y / x)²) = sqrt (x * x + y * y) / Rabs x.
Proof.
  intros Hx.
  assert (Hx2 : 0 < x * x) by nra.
  replace (1 + (y / x)²) with ((x * x + y * y) / (x * x)) by (unfold Rsqr; field; exact Hx).
  rewrite sqrt_div by nra. f_equal.
  replace (x * x) with (x²) by reflexivity. apply sqrt_Rsqr_abs.
Qed.

Lemma norm_pos y x : x <> 0 \/ y <> 0 -> 0 < sqrt (x * x + y * y).
Proof. intros H. apply sqrt_lt_R0. destruct H; nra. Qed.

Lemma cos_atan2 y x : x <> 0 \/ y <> 0 -> cos (atan2 y x) = x / sqrt (x * x + y * y).
Proof.
  intros H. pose proof (norm_pos y x H) as Hn. unfold atan2.
  destruct (Rlt_dec 0 x).
  { rewrite cos_atan, sqrt_1_t2 by lra. rewrite Rabs_pos_eq by lra. field. lra. }
  destruct (Rlt_dec x 0).
  { assert (E : cos (atan (y / x)) = - x / sqrt (x * x + y * y)).
    { rewrite cos_atan, sqrt_1_t2 by lra. rewrite Rabs_left by lra. field. lra. }
    destruct (Rle_dec 0 y).
    - rewrite neg_cos, E. field. lra.
    - unfold Rminus. rewrite cos_plus, cos_neg, sin_neg, cos_PI, sin_PI, E. field. lra. }
  assert (x = 0) by lra. subst x.
  destruct (Rlt_dec 0 y); [rewrite cos_PI2; field; lra|].
  destruct (Rlt_dec y 0); [rewrite cos_neg, cos_PI2; field; lra|].
  exfalso. destruct H; lra.
Qed.

Lemma sin_atan2 y x : x <> 0 \/ y <> 0 -> sin (atan2 y x) = y / sqrt (x * x + y * y).
Proof.
  intros H. pose proof (norm_pos y x H) as Hn. unfold atan2.
  destruct (Rlt_dec 0 x).
  { rewrite sin_atan, sqrt_1_t2 by lra. rewrite Rabs_pos_eq by lra. field. lra. }
  destruct (Rlt_dec x 0).
  { assert (E : sin (atan (y / x)) = - y / sqrt (x * x + y * y)).
    { rewrite sin_atan, sqrt_1_t2 by lra. rewrite Rabs_left by lra. field. lra. }
    destruct (Rle_dec 0 y).
    - rewrite neg_sin, E. field. lra.
    - unfold Rminus. rewrite sin_plus, cos_neg, sin_neg, cos_PI, sin_PI, E. field. lra. }
  assert (x = 0) by lra. subst x.
  assert (Es : forall z, 0 < z -> sqrt (0 * 0 + z * z) = z).
  { intros z Hz. replace (0 * 0 + z * z) with (z * z) by ring. apply sqrt_square; lra. }
  destruct (Rlt_dec 0 y); [rewrite sin_PI2, Es by lra; field; lra|].
  destruct (Rlt_dec y 0).
  { rewrite sin_neg, sin_PI2. replace (0 * 0 + y * y) with ((- y) * (- y)) by ring.
    rewrite sqrt_square by lra. field. lra. }
  exfalso. destruct H; lra.
Qed.

(* an angle of (-PI, PI] is determined by its cosine and sine *)
Lemma angle_unique a b :
  - PI < a <= PI -> - PI < b <= PI -> cos a = cos b -> sin a = sin b -> a = b.
Proof.
  intros Ha Hb Hc Hs.
  assert (C : cos (a - b) = 1).
  { rewrite cos_minus, Hc, Hs. pose proof (sin2_cos2 b) as E. unfold Rsqr in E. lra. }
  assert (S : sin ((a - b) / 2) = 0).
  { pose proof (cos_2a_sin ((a - b) / 2)) as E.
    replace (2 * ((a - b) / 2)) with (a - b) in E by field. rewrite C in E.
    assert (sin ((a - b) / 2) * sin ((a - b) / 2) = 0) by lra. nra. }
  destruct (Rtotal_order ((a - b) / 2) 0) as [L|[E|G]]; [|lra|].
  - assert (0 < sin (- ((a - b) / 2))) by (apply sin_gt_0; lra).
    rewrite sin_neg in H. lra.
  - assert (0 < sin ((a - b) / 2)) by (apply sin_gt_0; lra). lra.
Qed.

(* polar form: atan2 recovers the angle *)
Lemma atan2_polar rho t : 0 < rho -> - PI < t <= PI -> atan2 (rho * sin t) (rho * cos t) = t.
Proof.
  intros Hr Ht.
  assert (Hne : rho * cos t <> 0 \/ rho * sin t <> 0).
  { destruct (Req_dec (cos t) 0) as [E|E].
    - right. intro F. apply (cos_sin_0 t). split; [exact E|]. nra.
    - left. intro F. apply E. nra. }
  assert (Hn : sqrt (rho * cos t * (rho * cos t) + rho * sin t * (rho * sin t)) = rho).
  { replace (rho * cos t * (rho * cos t) + rho * sin t * (rho * sin t))
      with (rho * rho * ((sin t)² + (cos t)²)) by (unfold Rsqr; ring).
    rewrite sin2_cos2, Rmult_1_r. apply sqrt_square; lra. }
  apply angle_unique; [apply atan2_bounds|exact Ht| |].
  - rewrite cos_atan2, Hn by exact Hne. field; lra.
  - rewrite sin_atan2, Hn by exact Hne. field; lra.
Qed.

(* ---------------------------------------------------------------- float modulo *)
Lemma Int_part_spec r k : IZR k <= r < IZR k + 1 -> Int_part r = k.
Proof.
  intros [H1 H2]. unfold Int_part.
  assert ((k + 1)%Z = up r) by (apply up_tech; [exact H1|rewrite plus_IZR; exact H2]).
  lia.
Qed.

Lemma Rmod_range x m : 0 < m -> 0 <= Rmod x m < m.
Proof.
  intros Hm. unfold Rmod. destruct (base_Int_part (x / m)) as [H1 H2].
  set (k := IZR (Int_part (x / m))) in *.
  assert (E : x = m * (x / m)) by (field; lra).
  set (t := x / m) in *. rewrite E. split; nra.
Qed.

Lemma Rmod_eq x m k : 0 < m -> 0 <= x - m * IZR k < m -> Rmod x m = x - m * IZR k.
Proof.
  intros Hm [H1 H2]. unfold Rmod. rewrite (Int_part_spec (x / m) k); [reflexivity|].
  assert (E : x = m * (x / m)) by (field; lra).
  set (t := x / m) in *. rewrite E in H1, H2. split; nra.
Qed.

Lemma Rmod_small x m : 0 <= x < m -> Rmod x m = x.
Proof.
  intros H. rewrite (Rmod_eq x m 0); [ring|lra|]. rewrite Rmult_0_r, Rminus_0_r. exact H.
Qed.

Lemma Rmod_wrap x m : m <= x < 2 * m -> Rmod x m = x - m.
Proof.
  intros H. rewrite (Rmod_eq x m 1); [ring|lra|]. lra.
Qed.

(* ---------------------------------------------------------------- decimal rounding *)
Lemma pow10_pos p : 0 < 10 ^ p. Proof. apply pow_lt; lra. Qed.

Lemma round_half_up_err v p :
  - (/ 2 / 10 ^ p) + / 10 ^ (p + 12) < round_half_up v p - v <= / 2 / 10 ^ p + / 10 ^ (p + 12).
Proof.
  unfold round_half_up.
  pose proof (pow10_pos p) as Hp. pose proof (pow10_pos (p + 12)) as Hq.
  set (P := 10 ^ p) in *. set (e := / 10 ^ (p + 12)) in *.
  destruct (base_Int_part ((v + e) * P + / 2)) as [H1 H2].
  set (k := IZR (Int_part ((v + e) * P + / 2))) in *.
  assert (HiP : 0 < / P) by (apply Rinv_0_lt_compat; exact Hp).
  assert (E1 : k / P - v = (k - ((v + e) * P + / 2)) * / P + e + / 2 / P) by (field; lra).
  rewrite E1. split.
  - assert (- / P < (k - ((v + e) * P + / 2)) * / P) by nra.
    replace (/ 2 / P) with (/ 2 * / P) by (field; lra). lra.
  - assert ((k - ((v + e) * P + / 2)) * / P <= 0) by nra. lra.
Qed.
