(* Link between C11 and C08: the Coordinate constructor as the geohash model (GeohashM.coordinate, used by
   niemeyer_to_geobox) sees it IS the constructor model of C08 (CoordM.norm) wherever its fixed iteration
   budget suffices - so C08's theorems (range, same point, idempotence) apply to the corners of every cell box. *)
From Coq Require Import QArith Lqa.
From GV Require Import Prelude CoordM CoordP CoordP2 GeohashM.
Open Scope Q_scope.

Lemma wrap_lat_pole_loop : forall f lon lat q,
  pole_loop f (lon, lat) = Ok q -> wrap_lat f lon lat = q.
Proof.
  induction f as [|f IH]; intros lon lat q H; cbn [pole_loop wrap_lat snd] in *;
    unfold lat_ok, qleb in *; destruct (Qle_bool (-90) lat && Qle_bool lat 90) eqn:E.
  - inversion H. reflexivity.
  - discriminate.
  - inversion H. reflexivity.
  - cbn [pole_step] in H. unfold qltb. unfold Qltb in H. apply IH. exact H.
Qed.

Lemma wrap_lon_wrap_loop : forall f lon q, wrap_loop f lon = Ok q -> wrap_lon f lon = q.
Proof.
  induction f as [|f IH]; intros lon q H; cbn [wrap_loop wrap_lon] in *;
    unfold lon_ok, qleb in *; destruct (Qle_bool (-180) lon && Qle_bool lon 180) eqn:E.
  - inversion H. reflexivity.
  - discriminate.
  - inversion H. reflexivity.
  - unfold wrap_step, Qltb in H. unfold qltb. apply IH. exact H.
Qed.

(* whenever eight iterations of each loop suffice, the geohash model's Coordinate is C08's *)
Theorem geohash_coordinate_is_norm : forall lon lat lon1 lat1 lon2,
  pole_loop 8 (lon, lat) = Ok (lon1, lat1) -> wrap_loop 8 lon1 = Ok lon2 ->
  norm lon lat = Ok (coordinate lon lat).
Proof.
  intros lon lat lon1 lat1 lon2 H1 H2.
  rewrite (norm_fuel_irrelevant lon lat 8 8 lon1 lat1 lon2 H1 H2).
  unfold coordinate. rewrite (wrap_lat_pole_loop 8 lon lat _ H1), (wrap_lon_wrap_loop 8 lon1 _ H2).
  reflexivity.
Qed.

(* the longitude leaves the pole loop within 180 per iteration of where it entered *)
Lemma pole_loop_lon_drift : forall f lon lat lon1 lat1,
  pole_loop f (lon, lat) = Ok (lon1, lat1) -> lon - 180 * qn f <= lon1 /\ lon1 <= lon + 180 * qn f.
Proof.
  induction f as [|f IH]; intros lon lat lon1 lat1 H; cbn [pole_loop snd] in H.
  - destruct (lat_ok lat); [|discriminate]. inversion H; subst. pose proof qn_0. lra.
  - pose proof (qn_S f) as HS. pose proof (qn_nonneg f) as HN.
    destruct (lat_ok lat); [inversion H; subst; lra|].
    destruct (pole_step (lon, lat)) as [lon' lat'] eqn:EP.
    pose proof (pole_step_lon lon lat) as HL. rewrite EP in HL. cbn [fst] in HL.
    specialize (IH _ _ _ _ H). destruct HL as [[_ ->]|[_ ->]]; lra.
Qed.

(* in particular for every raw pair within +-1000 degrees - far more than the corners of any cell box need
   (centre +- error: |lon| <= 360, |lat| <= 180) *)
Theorem geohash_coordinate_is_norm_1000 : forall lon lat,
  -1000 <= lon -> lon <= 1000 -> -1000 <= lat -> lat <= 1000 ->
  norm lon lat = Ok (coordinate lon lat).
Proof.
  intros lon lat L1 L2 B1 B2.
  assert (Q8 : qn 8 == 8) by reflexivity.
  destruct (pole_loop_total 8 lon lat) as [[lon1 lat1] H1]; [lra|lra|].
  destruct (pole_loop_lon_drift 8 lon lat lon1 lat1 H1) as [D1 D2].
  destruct (wrap_loop_total 8 lon1) as [lon2 H2]; [lra|lra|].
  exact (geohash_coordinate_is_norm lon lat lon1 lat1 lon2 H1 H2).
Qed.
