(* Proofs about the monotone-chain model (HullM.v): the ring made of the two chains, and the
   theorems about [hull] exported by Props/C10.v.   Stdlib only; no axioms. *)
From Coq Require Import Sorted.
From GV Require Import Prelude HullM HullP HullP2 HullP3.
Open Scope Z_scope.

Lemma cross_swap o a b : cross o b a = - cross o a b.
Proof. unfold cross. ring. Qed.
Lemma cross_cycle o a b : cross a b o = cross o a b.
Proof. unfold cross. ring. Qed.
Lemma cross_flip a b p : cross b a p = - cross a b p.
Proof. unfold cross. ring. Qed.
Lemma cross_rep1 a b : cross a a b = 0.
Proof. unfold cross. ring. Qed.
Lemma cross_rep2 a b : cross a b a = 0.
Proof. unfold cross. ring. Qed.
Lemma cross_rep3 a b : cross a b b = 0.
Proof. unfold cross. ring. Qed.

(* all points on the line through two distinct points: every triple is collinear *)
Lemma collinear_with_base a m p q r : a <> m ->
  cross a m p = 0 -> cross a m q = 0 -> cross a m r = 0 -> cross p q r = 0.
Proof.
  intros Hne Hp Hq Hr.
  set (d := (fst m - fst a, snd m - snd a)).
  set (P := (fst p - fst a, snd p - snd a)).
  set (Q := (fst q - fst a, snd q - snd a)).
  set (Rv := (fst r - fst a, snd r - snd a)).
  assert (Hd : d <> (0, 0)).
  { unfold d. intros E. injection E as E1 E2. apply Hne.
    destruct a, m; cbn in *. f_equal; lia. }
  assert (dP : vx d P = 0) by (unfold vx, d, P, cross in *; cbn; lia).
  assert (dQ : vx d Q = 0) by (unfold vx, d, Q, cross in *; cbn; lia).
  assert (dR : vx d Rv = 0) by (unfold vx, d, Rv, cross in *; cbn; lia).
  pose proof (parallel_trans d P Q Hd dP dQ) as PQ.
  pose proof (parallel_trans d P Rv Hd dP dR) as PR.
  pose proof (parallel_trans d Q Rv Hd dQ dR) as QR.
  unfold vx, P, Q, Rv, cross in *. cbn in *. lia.
Qed.

Lemma CChain_ext R (S S' : pt -> Prop) f z ch :
  (forall p, S p <-> S' p) -> CChain R S f z ch -> CChain R S' f z ch.
Proof.
  intros H [Ht He Hs Hm Hsh]. constructor; try assumption.
  - intros l1 a b l2 E p Hp. apply (He l1 a b l2 E p). apply H, Hp.
  - intros y Hy. apply H, Hm, Hy.
Qed.

(* ------------------------------------------------------------------ the ring *)
Section Ring.
  Variable S : pt -> Prop.
  Variables x0 xm : pt.
  Variables L U : list pt.
  Variable HL : CChain lt2 S x0 xm (x0 :: L ++ [xm]).
  Variable HU : CChain gt2 S xm x0 (xm :: U ++ [x0]).
  Variable S0 : S x0.
  Variable Sm : S xm.
  Variable Hlt : lt2 x0 xm.
  Variable Hmin : forall p, S p -> p = x0 \/ lt2 x0 p.
  Variable Hmax : forall p, S p -> p = xm \/ lt2 p xm.

  Definition ring : list pt := x0 :: L ++ xm :: U ++ [x0].

  Lemma L_inner q : In q L -> cross x0 xm q < 0.
  Proof. apply (lower_inner S x0 xm L HL S0 Sm Hmin Hmax). Qed.

  Lemma U_inner q : In q U -> cross xm x0 q < 0.
  Proof. apply (upper_inner S xm x0 U HU Sm S0 Hmax Hmin). Qed.

  Lemma L_between q : In q L -> lt2 x0 q /\ lt2 q xm.
  Proof.
    intros Hq. pose proof (cc_sorted _ _ _ _ _ HL) as Hs. split.
    - apply (sorted_app_lt lt2 [x0] (L ++ [xm])); [exact Hs|left; reflexivity|].
      apply in_or_app; auto.
    - apply (sorted_app_lt lt2 (x0 :: L) [xm]).
      + rewrite <- app_comm_cons. exact Hs.
      + right; exact Hq.
      + left; reflexivity.
  Qed.

  Lemma U_between q : In q U -> lt2 x0 q /\ lt2 q xm.
  Proof.
    intros Hq. pose proof (cc_sorted _ _ _ _ _ HU) as Hs. split.
    - apply (sorted_app_lt gt2 (xm :: U) [x0]).
      + rewrite <- app_comm_cons. exact Hs.
      + right; exact Hq.
      + left; reflexivity.
    - apply (sorted_app_lt gt2 [xm] (U ++ [x0])); [exact Hs|left; reflexivity|].
      apply in_or_app; auto.
  Qed.

  (* containment: every point of S is on or to the left of every edge of the ring *)
  Lemma ring_edges : Edges S ring.
  Proof.
    unfold ring, Edges. rewrite app_comm_cons.
    apply Consec2_glue.
    - rewrite <- app_comm_cons. apply (cc_edges _ _ _ _ _ HL).
    - apply (cc_edges _ _ _ _ _ HU).
  Qed.

  (* no vertex is repeated (apart from the closing one) *)
  Lemma ring_nodup : NoDup (x0 :: L ++ xm :: U).
  Proof.
    rewrite app_comm_cons. apply NoDup_app2.
    - assert (H : NoDup ((x0 :: L) ++ [xm])).
      { rewrite <- app_comm_cons. apply (sorted_NoDup lt2 lt2_irrefl), (cc_sorted _ _ _ _ _ HL). }
      apply NoDup_remove_1 in H. rewrite app_nil_r in H. exact H.
    - assert (H : NoDup ((xm :: U) ++ [x0])).
      { rewrite <- app_comm_cons. apply (sorted_NoDup gt2 gt2_irrefl), (cc_sorted _ _ _ _ _ HU). }
      apply NoDup_remove_1 in H. rewrite app_nil_r in H. exact H.
    - intros x [<-|HxL] [E|HxU].
      + subst xm. apply (lt2_irrefl x0 Hlt).
      + apply U_between in HxU. apply (lt2_irrefl x0). tauto.
      + subst x. apply L_between in HxL. apply (lt2_irrefl xm). tauto.
      + apply L_inner in HxL. apply U_inner in HxU. rewrite cross_flip in HxU. lia.
  Qed.

  (* exact description of the degenerate ring *)
  Lemma ring_collinear_nil :
    (forall p q r, S p -> S q -> S r -> cross p q r = 0) -> L = [] /\ U = [].
  Proof.
    intros Hc. split.
    - destruct L as [|y L']; [reflexivity|]. exfalso.
      assert (cross x0 xm y < 0) by (apply L_inner; left; reflexivity).
      rewrite Hc in H; [lia|assumption|assumption|].
      apply (cc_mem _ _ _ _ _ HL). right. left. reflexivity.
    - destruct U as [|y U']; [reflexivity|]. exfalso.
      assert (cross xm x0 y < 0) by (apply U_inner; left; reflexivity).
      rewrite Hc in H; [lia|assumption|assumption|].
      apply (cc_mem _ _ _ _ _ HU). right. left. reflexivity.
  Qed.

  Lemma ring_nil_collinear :
    L = [] -> U = [] -> forall p q r, S p -> S q -> S r -> cross p q r = 0.
  Proof.
    intros EL EU.
    assert (H0 : forall p, S p -> cross x0 xm p = 0).
    { intros p Hp.
      assert (cross x0 xm p >= 0).
      { apply (cc_edges _ _ _ _ _ HL [] x0 xm []); [rewrite EL; reflexivity|exact Hp]. }
      assert (cross xm x0 p >= 0).
      { apply (cc_edges _ _ _ _ _ HU [] xm x0 []); [rewrite EU; reflexivity|exact Hp]. }
      rewrite cross_flip in H1. lia. }
    intros p q r Hp Hq Hr. apply (collinear_with_base x0 xm); auto.
    intros E. subst xm. apply (lt2_irrefl x0 Hlt).
  Qed.

  (* every vertex of the ring is a strict left turn, including the two where the chains meet
     and the closing one *)
  Lemma ring_turns :
    (exists p q r, S p /\ S q /\ S r /\ cross p q r <> 0) ->
    Turns (ring ++ [hd d0 (L ++ [xm])]).
  Proof.
    intros (p0 & q0 & r0 & Hp0 & Hq0 & Hr0 & Hnc).
    assert (Hnn : ~ (L = [] /\ U = [])).
    { intros [EL EU]. apply Hnc. apply ring_nil_collinear; assumption. }
    (* the vertex before xm and the vertex after xm *)
    destruct (exists_last (l := x0 :: L)) as (Af & a & EA); [discriminate|].
    destruct (U ++ [x0]) as [|q Br] eqn:EB; [destruct U; discriminate|].
    (* the vertex before the closing x0 and the vertex after the opening x0 *)
    destruct (exists_last (l := xm :: U)) as (Cf & b & EC); [discriminate|].
    destruct (L ++ [xm]) as [|sec Dr] eqn:ED; [destruct L; discriminate|].
    cbn [hd].
    assert (Ha : a = x0 /\ L = [] \/ In a L).
    { destruct L as [|y L'].
      - left. split; [|reflexivity]. destruct Af as [|? [|? ?]]; cbn in EA; try discriminate.
        injection EA as <-. reflexivity.
      - right. assert (In a (x0 :: y :: L')) by (rewrite EA; apply in_or_app; right; left; reflexivity).
        destruct H as [<-|H]; [|exact H]. exfalso.
        assert (NoDup (Af ++ [x0])) by (rewrite <- EA; apply (NoDup_app_remove_r _ (xm :: U)); rewrite <- app_comm_cons; apply ring_nodup).
        destruct Af as [|h Af']; cbn in EA; [discriminate|]. injection EA as <- EA.
        inversion H as [|? ? Hn _]. apply Hn. apply in_or_app. right. left. reflexivity. }
    assert (Hq : q = x0 /\ U = [] \/ In q U).
    { destruct U as [|y U']; cbn in EB.
      - left. injection EB as <- _. auto.
      - right. injection EB as <- _. left; reflexivity. }
    assert (Hb : b = xm /\ U = [] \/ In b U).
    { destruct U as [|y U'].
      - left. split; [|reflexivity]. destruct Cf as [|? [|? ?]]; cbn in EC; try discriminate.
        injection EC as <-. reflexivity.
      - right. assert (In b (xm :: y :: U')) by (rewrite EC; apply in_or_app; right; left; reflexivity).
        destruct H as [<-|H]; [|exact H]. exfalso.
        assert (NoDup ((xm :: y :: U') ++ [x0])) by (rewrite <- app_comm_cons; apply (sorted_NoDup gt2 gt2_irrefl), (cc_sorted _ _ _ _ _ HU)).
        apply NoDup_remove_1 in H. rewrite app_nil_r, EC in H.
        destruct Cf as [|h Cf']; cbn in EC; [discriminate|]. injection EC as <- EC.
        inversion H as [|? ? Hn _]. apply Hn. apply in_or_app. right. left. reflexivity. }
    assert (Hsec : sec = xm /\ L = [] \/ In sec L).
    { destruct L as [|y L']; cbn in ED.
      - left. injection ED as <- _. auto.
      - right. injection ED as <- _. left; reflexivity. }
    (* the turn at xm *)
    assert (Jm : cross a xm q > 0).
    { apply (geoJ_lt x0 xm a q Hlt).
      - destruct Ha as [[-> _]|Ha]; [auto|]. right. apply L_inner, Ha.
      - destruct Hq as [[-> _]|Hq]; [auto|]. right. apply U_inner, Hq.
      - destruct Ha as [[-> _]|Ha]; [exact Hlt|]. apply L_between, Ha.
      - destruct Hq as [[-> _]|Hq]; [exact Hlt|]. apply U_between, Hq.
      - intros [E1 E2]. apply Hnn. split.
        + destruct Ha as [[_ ?]|Ha]; [assumption|]. subst a.
          apply L_between in Ha. exfalso. apply (lt2_irrefl x0). tauto.
        + destruct Hq as [[_ ?]|Hq]; [assumption|]. subst q.
          apply U_between in Hq. exfalso. apply (lt2_irrefl x0). tauto. }
    (* the turn at the closing x0 *)
    assert (J0 : cross b x0 sec > 0).
    { apply (geoJ_gt xm x0 b sec Hlt).
      - destruct Hb as [[-> _]|Hb]; [auto|]. right. apply U_inner, Hb.
      - destruct Hsec as [[-> _]|Hsec]; [auto|]. right. apply L_inner, Hsec.
      - destruct Hb as [[-> _]|Hb]; [exact Hlt|]. apply U_between, Hb.
      - destruct Hsec as [[-> _]|Hsec]; [exact Hlt|]. apply L_between, Hsec.
      - intros [E1 E2]. apply Hnn. split.
        + destruct Hsec as [[_ ?]|Hsec]; [assumption|]. subst sec.
          apply L_between in Hsec. exfalso. apply (lt2_irrefl xm). tauto.
        + destruct Hb as [[_ ?]|Hb]; [assumption|]. subst b.
          apply U_between in Hb. exfalso. apply (lt2_irrefl xm). tauto. }
    (* assemble: lower ; turn at xm ; upper ; closing turn *)
    assert (T1 : Turns ((xm :: U ++ [x0]) ++ [sec])).
    { rewrite app_comm_cons, EC, <- !app_assoc. cbn [app].
      apply Consec3_snoc; [|exact J0].
      pose proof (cc_turns _ _ _ _ _ HU) as H.
      rewrite app_comm_cons, EC, <- app_assoc in H. exact H. }
    assert (T2 : Turns (a :: xm :: q :: Br ++ [sec])).
    { apply Consec3_cons; [exact Jm|].
      rewrite EB in T1. exact T1. }
    assert (T3 : Turns (Af ++ a :: xm :: q :: Br ++ [sec])).
    { apply Consec3_glue; [|exact T2].
      pose proof (cc_turns _ _ _ _ _ HL) as H.
      rewrite app_comm_cons, EA, <- app_assoc in H. exact H. }
    replace (ring ++ [sec]) with (Af ++ a :: xm :: q :: Br ++ [sec]); [exact T3|].
    unfold ring. rewrite app_comm_cons, EA, EB, <- !app_assoc. reflexivity.
  Qed.
End Ring.
