(* Proofs about the monotone-chain model (HullM.v): the ring made of the two chains, and the
   theorems about [hull] exported by Props/C10.v.   Stdlib only; no axioms. *)
From Coq Require Import Sorted.
From GV Require Import Prelude HullM HullP HullP2 HullP3.
Open Scope Z_scope.

Lemma cross_swap o a b : cross o b a = - cross o a b.
Proof. unfold cross. ring. Qed.
Lemma cross_cycle o a b : cross a b o = cross o a b.
Proof. unfold cross. ring. Qed.
Lemma cross_flip a b p : cross b a p = - cross a b p.
Proof. unfold cross. ring. Qed.
Lemma cross_rep1 a b : cross a a b = 0.
Proof. unfold cross. ring. Qed.
Lemma cross_rep2 a b : cross a b a = 0.
Proof. unfold cross. ring. Qed.
Lemma cross_rep3 a b : cross a b b = 0.
Proof. unfold cross. ring. Qed.

(* all points on the line through two distinct points: every triple is collinear *)
Lemma collinear_with_base a m p q r : a <> m ->
  cross a m p = 0 -> cross a m q = 0 -> cross a m r = 0 -> cross p q r = 0.
Proof.
  intros Hne Hp Hq Hr.
  set (d := (fst m - fst a, snd m - snd a)).
  set (P := (fst p - fst a, snd p - snd a)).
  set (Q := (fst q - fst a, snd q - snd a)).
  set (Rv := (fst r - fst a, snd r - snd a)).
  assert (Hd : d <> (0, 0)).
  { unfold d. intros E. injection E as E1 E2. apply Hne.
    destruct a, m; cbn in *. f_equal; lia. }
  assert (dP : vx d P = 0) by (unfold vx, d, P, cross in *; cbn; lia).
  assert (dQ : vx d Q = 0) by (unfold vx, d, Q, cross in *; cbn; lia).
  assert (dR : vx d Rv = 0) by (unfold vx, d, Rv, cross in *; cbn; lia).
  pose proof (parallel_trans d P Q Hd dP dQ) as PQ.
  pose proof (parallel_trans d P Rv Hd dP dR) as PR.
  pose proof (parallel_trans d Q Rv Hd dQ dR) as QR.
  unfold vx, P, Q, Rv, cross in *. cbn in *. lia.
Qed.

Lemma CChain_ext R (S S' : pt -> Prop) f z ch :
  (forall p, S p <-> S' p) -> CChain R S f z ch -> CChain R S' f z ch.
Proof.
  intros H [Ht He Hs Hm Hsh]. constructor; try assumption.
  - intros l1 a b l2 E p Hp. apply (He l1 a b l2 E p). apply H, Hp.
  - intros y Hy. apply H, Hm, Hy.
Qed.

Lemma last_cases (x : pt) l Af a : x :: l = Af ++ [a] -> (a = x /\ l = []) \/ In a l.
Proof.
  destruct Af as [|h Af']; cbn; intros E.
  - injection E as -> ->. auto.
  - injection E as _ ->. right. apply in_or_app. right. left. reflexivity.
Qed.

Lemma hd_cases (l : list pt) x q Br : l ++ [x] = q :: Br -> (q = x /\ l = []) \/ In q l.
Proof.
  destruct l as [|h l']; cbn; intros E.
  - injection E as -> _. auto.
  - injection E as -> _. right. left. reflexivity.
Qed.

Lemma app_last_cons (l : list pt) x : exists q r, l ++ [x] = q :: r.
Proof. destruct l; cbn; eauto. Qed.

Lemma nil_or_cons (l : list pt) : l = [] \/ exists y l', l = y :: l'.
Proof. destruct l; eauto. Qed.

(* ------------------------------------------------------------------ the ring *)
Section Ring.
  Variable S : pt -> Prop.
  Variables x0 xm : pt.
  Variables L U : list pt.
  Variable HL : CChain lt2 S x0 xm (x0 :: L ++ [xm]).
  Variable HU : CChain gt2 S xm x0 (xm :: U ++ [x0]).
  Variable S0 : S x0.
  Variable Sm : S xm.
  Variable Hlt : lt2 x0 xm.
  Variable Hmin : forall p, S p -> p = x0 \/ lt2 x0 p.
  Variable Hmax : forall p, S p -> p = xm \/ lt2 p xm.

  Definition ring : list pt := x0 :: L ++ xm :: U ++ [x0].

  Lemma L_inner q : In q L -> cross x0 xm q < 0.
  Proof. apply (lower_inner S x0 xm L HL S0 Sm Hmin Hmax). Qed.

  Lemma U_inner q : In q U -> cross xm x0 q < 0.
  Proof. apply (upper_inner S xm x0 U HU Sm S0 Hmax Hmin). Qed.

  Lemma L_between q : In q L -> lt2 x0 q /\ lt2 q xm.
  Proof.
    intros Hq. pose proof (cc_sorted _ _ _ _ _ HL) as Hs. split.
    - apply (sorted_app_lt lt2 [x0] (L ++ [xm])); [exact Hs|left; reflexivity|].
      apply in_or_app; auto.
    - apply (sorted_app_lt lt2 (x0 :: L) [xm]).
      + rewrite <- app_comm_cons. exact Hs.
      + right; exact Hq.
      + left; reflexivity.
  Qed.

  Lemma U_between q : In q U -> lt2 x0 q /\ lt2 q xm.
  Proof.
    intros Hq. pose proof (cc_sorted _ _ _ _ _ HU) as Hs. split.
    - apply (sorted_app_lt gt2 (xm :: U) [x0]).
      + rewrite <- app_comm_cons. exact Hs.
      + right; exact Hq.
      + left; reflexivity.
    - apply (sorted_app_lt gt2 [xm] (U ++ [x0])); [exact Hs|left; reflexivity|].
      apply in_or_app; auto.
  Qed.

  (* containment: every point of S is on or to the left of every edge of the ring *)
  Lemma ring_edges : Edges S ring.
  Proof.
    unfold ring, Edges. rewrite app_comm_cons.
    apply Consec2_glue.
    - rewrite <- app_comm_cons. apply (cc_edges _ _ _ _ _ HL).
    - apply (cc_edges _ _ _ _ _ HU).
  Qed.

  (* no vertex is repeated (apart from the closing one) *)
  Lemma ring_nodup : NoDup (x0 :: L ++ xm :: U).
  Proof.
    rewrite app_comm_cons. apply NoDup_app2.
    - assert (H : NoDup ((x0 :: L) ++ [xm])).
      { rewrite <- app_comm_cons. apply (sorted_NoDup lt2 lt2_irrefl), (cc_sorted _ _ _ _ _ HL). }
      apply NoDup_remove_1 in H. rewrite app_nil_r in H. exact H.
    - assert (H : NoDup ((xm :: U) ++ [x0])).
      { rewrite <- app_comm_cons. apply (sorted_NoDup gt2 gt2_irrefl), (cc_sorted _ _ _ _ _ HU). }
      apply NoDup_remove_1 in H. rewrite app_nil_r in H. exact H.
    - intros x [<-|HxL] [E|HxU].
      + subst xm. apply (lt2_irrefl x0 Hlt).
      + apply U_between in HxU. apply (lt2_irrefl x0). tauto.
      + subst x. apply L_between in HxL. apply (lt2_irrefl xm). tauto.
      + apply L_inner in HxL. apply U_inner in HxU. rewrite cross_flip in HxU. lia.
  Qed.

  (* exact description of the degenerate ring *)
  Lemma ring_collinear_nil :
    (forall p q r, S p -> S q -> S r -> cross p q r = 0) -> L = [] /\ U = [].
  Proof.
    intros Hc. split.
    - destruct (nil_or_cons L) as [E|(y & L' & E)]; [exact E|]. exfalso.
      assert (Hy : In y L) by (rewrite E; left; reflexivity).
      assert (cross x0 xm y < 0) by (apply L_inner, Hy).
      rewrite Hc in H; [lia|assumption|assumption|].
      apply (cc_mem _ _ _ _ _ HL). right. apply in_or_app. auto.
    - destruct (nil_or_cons U) as [E|(y & U' & E)]; [exact E|]. exfalso.
      assert (Hy : In y U) by (rewrite E; left; reflexivity).
      assert (cross xm x0 y < 0) by (apply U_inner, Hy).
      rewrite Hc in H; [lia|assumption|assumption|].
      apply (cc_mem _ _ _ _ _ HU). right. apply in_or_app. auto.
  Qed.

  Lemma ring_nil_collinear :
    L = [] -> U = [] -> forall p q r, S p -> S q -> S r -> cross p q r = 0.
  Proof.
    intros EL EU.
    assert (H0 : forall p, S p -> cross x0 xm p = 0).
    { intros p Hp.
      assert (G1 : cross x0 xm p >= 0).
      { apply (cc_edges _ _ _ _ _ HL [] x0 xm []); [rewrite EL; reflexivity|exact Hp]. }
      assert (G2 : cross xm x0 p >= 0).
      { apply (cc_edges _ _ _ _ _ HU [] xm x0 []); [rewrite EU; reflexivity|exact Hp]. }
      rewrite cross_flip in G2. lia. }
    intros p q r Hp Hq Hr. apply (collinear_with_base x0 xm); auto.
    intros E. subst xm. apply (lt2_irrefl x0 Hlt).
  Qed.

  (* every vertex of the ring is a strict left turn, including the two where the chains meet
     and the closing one *)
  Lemma ring_turns :
    (exists p q r, S p /\ S q /\ S r /\ cross p q r <> 0) ->
    Turns (ring ++ [hd d0 (L ++ [xm])]).
  Proof.
    intros (p0 & q0 & r0 & Hp0 & Hq0 & Hr0 & Hnc).
    assert (Hnn : ~ (L = [] /\ U = [])).
    { intros [EL EU]. apply Hnc. apply ring_nil_collinear; assumption. }
    (* the vertex before xm and the vertex after xm *)
    destruct (exists_last (l := x0 :: L)) as (Af & a & EA); [discriminate|].
    destruct (app_last_cons U x0) as (q & Br & EB).
    (* the vertex before the closing x0 and the vertex after the opening x0 *)
    destruct (exists_last (l := xm :: U)) as (Cf & b & EC); [discriminate|].
    destruct (app_last_cons L xm) as (sec & Dr & ED). rewrite ED.
    cbn [hd].
    assert (Ha : a = x0 /\ L = [] \/ In a L) by (apply (last_cases x0 L Af a EA)).
    assert (Hq : q = x0 /\ U = [] \/ In q U) by (apply (hd_cases U x0 q Br EB)).
    assert (Hb : b = xm /\ U = [] \/ In b U) by (apply (last_cases xm U Cf b EC)).
    assert (Hsec : sec = xm /\ L = [] \/ In sec L) by (apply (hd_cases L xm sec Dr ED)).
    (* the turn at xm *)
    assert (Jm : cross a xm q > 0).
    { apply (geoJ_lt x0 xm a q Hlt).
      - destruct Ha as [[-> _]|Ha]; [auto|]. right. apply L_inner, Ha.
      - destruct Hq as [[-> _]|Hq]; [auto|]. right. apply U_inner, Hq.
      - destruct Ha as [[-> _]|Ha]; [exact Hlt|]. apply L_between, Ha.
      - destruct Hq as [[-> _]|Hq]; [exact Hlt|]. apply U_between, Hq.
      - intros [E1 E2]. apply Hnn. split.
        + destruct Ha as [[_ ?]|Ha]; [assumption|]. subst a.
          apply L_between in Ha. exfalso. apply (lt2_irrefl x0). tauto.
        + destruct Hq as [[_ ?]|Hq]; [assumption|]. subst q.
          apply U_between in Hq. exfalso. apply (lt2_irrefl x0). tauto. }
    (* the turn at the closing x0 *)
    assert (J0 : cross b x0 sec > 0).
    { apply (geoJ_gt xm x0 b sec Hlt).
      - destruct Hb as [[-> _]|Hb]; [auto|]. right. apply U_inner, Hb.
      - destruct Hsec as [[-> _]|Hsec]; [auto|]. right. apply L_inner, Hsec.
      - destruct Hb as [[-> _]|Hb]; [exact Hlt|]. apply U_between, Hb.
      - destruct Hsec as [[-> _]|Hsec]; [exact Hlt|]. apply L_between, Hsec.
      - intros [E1 E2]. apply Hnn. split.
        + destruct Hsec as [[_ ?]|Hsec]; [assumption|]. subst sec.
          apply L_between in Hsec. exfalso. apply (lt2_irrefl xm). tauto.
        + destruct Hb as [[_ ?]|Hb]; [assumption|]. subst b.
          apply U_between in Hb. exfalso. apply (lt2_irrefl xm). tauto. }
    (* assemble: lower ; turn at xm ; upper ; closing turn *)
    assert (T1 : Turns ((xm :: U ++ [x0]) ++ [sec])).
    { rewrite app_comm_cons, EC, <- !app_assoc. cbn [app].
      apply Consec3_snoc; [|exact J0].
      pose proof (cc_turns _ _ _ _ _ HU) as H.
      rewrite app_comm_cons, EC, <- app_assoc in H. exact H. }
    assert (T2 : Turns (a :: xm :: q :: Br ++ [sec])).
    { apply Consec3_cons; [exact Jm|].
      rewrite EB in T1. exact T1. }
    assert (T3 : Turns (Af ++ a :: xm :: q :: Br ++ [sec])).
    { apply Consec3_glue; [|exact T2].
      pose proof (cc_turns _ _ _ _ _ HL) as H.
      rewrite app_comm_cons, EA, <- app_assoc in H. exact H. }
    replace (ring ++ [sec]) with (Af ++ a :: xm :: q :: Br ++ [sec]); [exact T3|].
    unfold ring. change (x0 :: L ++ xm :: U ++ [x0]) with ((x0 :: L) ++ xm :: U ++ [x0]).
    rewrite EA, EB, <- !app_assoc. reflexivity.
  Qed.
End Ring.

Record IsRing (S : pt -> Prop) (x0 xm : pt) (L U : list pt) : Prop := {
  ir_L : CChain lt2 S x0 xm (x0 :: L ++ [xm]);
  ir_U : CChain gt2 S xm x0 (xm :: U ++ [x0]);
  ir_0 : S x0;
  ir_m : S xm;
  ir_lt : lt2 x0 xm;
  ir_min : forall p, S p -> p = x0 \/ lt2 x0 p;
  ir_max : forall p, S p -> p = xm \/ lt2 p xm
}.

Lemma hd_rev (l : list pt) : hd d0 (rev l) = last l d0.
Proof.
  destruct (nil_or_cons l) as [->|(y & l' & ->)]; [reflexivity|].
  destruct (exists_last (l := y :: l')) as (l1 & z & ->); [discriminate|].
  rewrite rev_app_distr, last_last. reflexivity.
Qed.

Lemma last_rev (l : list pt) : last (rev l) d0 = hd d0 l.
Proof. rewrite <- (rev_involutive l) at 2. rewrite hd_rev. reflexivity. Qed.

(* the body of convex_hull on a strictly increasing list of at least two points *)
Lemma hull_sorted_ring x y t :
  StronglySorted lt2 (x :: y :: t) ->
  exists xm L U, IsRing (fun p => In p (x :: y :: t)) x xm L U /\
                 hull_sorted (x :: y :: t) = ring x xm L U.
Proof.
  intros Hs. set (s := x :: y :: t) in *.
  assert (Hl : CChain lt2 (fun p => In p s) x (last s d0) (chain s)).
  { apply lower_cchain; [exact Hs|discriminate]. }
  assert (Hr : StronglySorted gt2 (rev s)) by (apply (sorted_rev lt2), Hs).
  assert (Hu : CChain gt2 (fun p => In p s) (last s d0) x (chain (rev s))).
  { destruct (rev s) as [|r0 rl] eqn:Er.
    - exfalso. apply (f_equal (@length pt)) in Er. rewrite rev_length in Er. discriminate.
    - assert (E0 : r0 = last s d0) by (rewrite <- hd_rev, Er; reflexivity).
      assert (E1 : last (r0 :: rl) d0 = x) by (rewrite <- Er, last_rev; reflexivity).
      assert (Hne : rl <> []).
      { intros ->. apply (f_equal (@length pt)) in Er. rewrite rev_length in Er. discriminate. }
      pose proof (upper_cchain r0 rl Hr Hne) as H. rewrite E1 in H.
      rewrite <- E0.
      apply (CChain_ext gt2 (fun p => In p (r0 :: rl))); [|exact H].
      intros p. rewrite <- Er. symmetry. apply in_rev. }
  destruct (cc_shape _ _ _ _ _ Hl) as (L & EL).
  destruct (cc_shape _ _ _ _ _ Hu) as (U & EU).
  exists (last s d0), L, U. split.
  - assert (Hx : In x s) by (left; reflexivity).
    assert (Hz : In (last s d0) s) by (apply last_In; discriminate).
    constructor.
    + rewrite <- EL. exact Hl.
    + rewrite <- EU. exact Hu.
    + exact Hx.
    + exact Hz.
    + destruct (sorted_last_max lt2 s x Hs Hx) as [E|?]; [|assumption].
      exfalso. assert (Hy : In (last s d0) (y :: t)).
      { unfold s. change (last (x :: y :: t) d0) with (last (y :: t) d0). apply last_In. discriminate. }
      inversion Hs as [|? ? _ Hf]. rewrite Forall_forall in Hf.
      apply (lt2_irrefl x). rewrite E at 2. apply Hf, Hy.
    + intros p Hp. apply (sorted_hd_min lt2 x (y :: t) p Hs Hp).
    + intros p Hp. apply (sorted_last_max lt2 s p Hs Hp).
  - change (hull_sorted s) with (removelast (chain s) ++ chain (rev s)).
    rewrite EL, EU. rewrite app_comm_cons, removelast_last. unfold ring.
    rewrite <- app_comm_cons. reflexivity.
Qed.

Lemma IsRing_ext (S S' : pt -> Prop) x0 xm L U :
  (forall p, S p <-> S' p) -> IsRing S x0 xm L U -> IsRing S' x0 xm L U.
Proof.
  intros H [H1 H2 H3 H4 H5 H6 H7]. constructor.
  - apply (CChain_ext lt2 S); assumption.
  - apply (CChain_ext gt2 S); assumption.
  - apply H, H3.
  - apply H, H4.
  - exact H5.
  - intros p Hp. apply H6, H, Hp.
  - intros p Hp. apply H7, H, Hp.
Qed.

(* the three shapes of the result *)
Lemma hull_cases l :
  (l = [] /\ hull l = []) \/
  (exists x, In x l /\ (forall p, In p l -> p = x) /\ hull l = [x]) \/
  (exists x0 xm L U, IsRing (fun p => In p l) x0 xm L U /\ hull l = ring x0 xm L U).
Proof.
  unfold hull. pose proof (dedup_sort_sorted l) as Hs. pose proof (dedup_sort_In l) as Hm.
  destruct (dedup_sort l) as [|x [|y t]].
  - left. split; [|reflexivity]. destruct l as [|a l']; [reflexivity|].
    exfalso. apply (Hm a). left; reflexivity.
  - right; left. exists x. split; [apply Hm; left; reflexivity|]. split; [|reflexivity].
    intros p Hp. apply Hm in Hp. destruct Hp as [<-|[]]. reflexivity.
  - right; right. destruct (hull_sorted_ring x y t Hs) as (xm & L & U & HR & E).
    exists x, xm, L, U. split; [|exact E].
    apply (IsRing_ext (fun p => In p (x :: y :: t))); [exact Hm|exact HR].
Qed.

(* ------------------------------------------------------------------ the exported statements *)
Lemma hull_nil : hull [] = [].
Proof. reflexivity. Qed.

(* one distinct point *)
Lemma hull_one_point l x : In x l -> (forall p, In p l -> p = x) -> hull l = [x].
Proof.
  intros Hx Hall. destruct (hull_cases l) as [[-> _]|[(x' & Hx' & _ & E)|(x0 & xm & L & U & HR & _)]].
  - destruct Hx.
  - rewrite E. f_equal. apply Hall, Hx'.
  - exfalso. destruct HR as [_ _ H0 Hm Hlt _ _].
    apply Hall in H0, Hm. subst. apply (lt2_irrefl x Hlt).
Qed.

Lemma hull_ring l a b : In a l -> In b l -> a <> b ->
  exists x0 xm L U, IsRing (fun p => In p l) x0 xm L U /\ hull l = ring x0 xm L U.
Proof.
  intros Ha Hb Hab. destruct (hull_cases l) as [[-> _]|[(x & _ & Hall & _)|H]].
  - destruct Ha.
  - exfalso. apply Hab. rewrite (Hall a Ha), (Hall b Hb). reflexivity.
  - exact H.
Qed.

(* closed: first vertex = last vertex, as soon as there are two distinct inputs; and the ring
   starts at the lexicographically smallest input *)
Lemma hull_closed l a b : In a l -> In b l -> a <> b ->
  exists v mid, hull l = v :: mid ++ [v] /\ mid <> [] /\ In v l /\ (forall p, In p l -> le2 v p).
Proof.
  intros Ha Hb Hab. destruct (hull_ring l a b Ha Hb Hab) as (x0 & xm & L & U & HR & E).
  exists x0, (L ++ xm :: U). split; [|split; [|split]].
  - rewrite E. unfold ring. rewrite <- app_assoc. reflexivity.
  - intros H. apply app_eq_nil in H. destruct H; discriminate.
  - apply (ir_0 _ _ _ _ _ HR).
  - intros p Hp. destruct (ir_min _ _ _ _ _ HR p Hp) as [->|H]; [right; reflexivity|left; exact H].
Qed.

Lemma removelast_ring x0 xm L U : removelast (ring x0 xm L U) = x0 :: L ++ xm :: U.
Proof.
  unfold ring.
  replace (x0 :: L ++ xm :: U ++ [x0]) with ((x0 :: L ++ xm :: U) ++ [x0]).
  - apply removelast_last.
  - cbn. rewrite <- app_assoc. reflexivity.
Qed.

(* no repeated vertex *)
Lemma hull_nodup l : NoDup (removelast (hull l)).
Proof.
  destruct (hull_cases l) as [[_ E]|[(x & _ & _ & E)|(x0 & xm & L & U & HR & E)]]; rewrite E.
  - constructor.
  - constructor.
  - rewrite removelast_ring. destruct HR. eapply ring_nodup; eassumption.
Qed.

(* containment: every input is on or to the left of every edge of the ring *)
Lemma hull_contains l p : In p l ->
  forall l1 a b l2, hull l = l1 ++ a :: b :: l2 -> cross a b p >= 0.
Proof.
  intros Hp l1 a b l2 E0.
  destruct (hull_cases l) as [[_ E]|[(x & _ & _ & E)|(x0 & xm & L & U & HR & E)]]; rewrite E in E0.
  - destruct l1; discriminate.
  - destruct l1 as [|? [|? ?]]; discriminate.
  - destruct HR. apply (ring_edges _ x0 xm L U ir_L0 ir_U0 l1 a b l2 E0 p Hp).
Qed.

(* strictly convex: every consecutive triple of the closed ring, continued by its second vertex,
   is a strict left turn, as soon as the inputs are not all collinear *)
Lemma hull_strict_left l :
  (exists p q r, In p l /\ In q l /\ In r l /\ cross p q r <> 0) ->
  Turns (hull l ++ [nth 1 (hull l) d0]).
Proof.
  intros Hnc. assert (Hnc' := Hnc). destruct Hnc' as (p & q & r & Hp & Hq & Hr & Hc).
  destruct (hull_cases l) as [[-> _]|[(x & _ & Hall & _)|(x0 & xm & L & U & HR & E)]].
  - destruct Hp.
  - exfalso. apply Hc. rewrite (Hall p Hp), (Hall q Hq). apply cross_rep1.
  - rewrite E.
    replace (nth 1 (ring x0 xm L U) d0) with (hd d0 (L ++ [xm])).
    + destruct HR. eapply ring_turns; eassumption.
    + unfold ring. destruct L; reflexivity.
Qed.

(* the collinear case, exactly *)
Lemma hull_collinear l a b : In a l -> In b l -> a <> b ->
  (forall p q r, In p l -> In q l -> In r l -> cross p q r = 0) ->
  exists lo hi, In lo l /\ In hi l /\ lt2 lo hi /\
                (forall p, In p l -> le2 lo p /\ le2 p hi) /\ hull l = [lo; hi; lo].
Proof.
  intros Ha Hb Hab Hc. destruct (hull_ring l a b Ha Hb Hab) as (x0 & xm & L & U & HR & E).
  exists x0, xm. destruct HR as [H1 H2 H3 H4 H5 H6 H7].
  destruct (ring_collinear_nil _ x0 xm L U H1 H2 H3 H4 H6 H7 Hc) as [-> ->].
  repeat split; try assumption.
  - destruct (H6 p H) as [->|?]; [right; reflexivity|left; assumption].
  - destruct (H7 p H) as [->|?]; [right; reflexivity|left; assumption].
Qed.

Lemma hull_three_collinear l a b c : hull l = [a; b; c] ->
  forall p q r, In p l -> In q l -> In r l -> cross p q r = 0.
Proof.
  intros E0. destruct (hull_cases l) as [[_ E]|[(x & _ & _ & E)|(x0 & xm & L & U & HR & E)]];
    rewrite E in E0; try discriminate.
  destruct HR as [H1 H2 H3 H4 H5 H6 H7].
  assert (L = [] /\ U = []) as [EL EU].
  { unfold ring in E0. apply (f_equal (@length pt)) in E0. cbn in E0.
    rewrite !app_length in E0. cbn in E0. rewrite app_length in E0. cbn in E0.
    split; apply length_zero_iff_nil; lia. }
  apply (ring_nil_collinear _ x0 xm L U H1 H2 H4 H5 H6 H7 EL EU).
Qed.

(* two distinct points *)
Lemma hull_two_points l a b : In a l -> In b l -> lt2 a b ->
  (forall p, In p l -> p = a \/ p = b) -> hull l = [a; b; a].
Proof.
  intros Ha Hb Hab Hall.
  assert (Hne : a <> b) by (intros ->; apply (lt2_irrefl b Hab)).
  destruct (hull_collinear l a b Ha Hb Hne) as (lo & hi & Hlo & Hhi & Hlt & Hbd & E).
  - intros p q r Hp Hq Hr.
    destruct (Hall p Hp) as [->| ->], (Hall q Hq) as [->| ->], (Hall r Hr) as [->| ->];
      first [apply cross_rep1|apply cross_rep2|apply cross_rep3].
  - rewrite E.
    assert (lo = a /\ hi = b) as [-> ->]; [|reflexivity].
    destruct (Hall lo Hlo) as [->| ->], (Hall hi Hhi) as [->| ->]; auto.
    + exfalso. apply (lt2_irrefl a Hlt).
    + exfalso. apply (lt2_asym a b Hab Hlt).
    + exfalso. apply (lt2_irrefl b Hlt).
Qed.
