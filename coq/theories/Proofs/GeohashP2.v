(* Proofs about the Niemeyer codec model, part 2: strings.  Everything is for an arbitrary
   configuration [c] with [cfg_ok c]; no bound on lengths. *)
From Coq Require Import QArith Qreduction Lqa.
From GV Require Import Prelude GeohashM GeohashP.
Open Scope Z_scope.

(* specification vocabulary used by the theorems ------------------------------------------- *)
Open Scope Q_scope.
(* a decode result (x, y, ex, ey) denotes the closed box [x-ex, x+ex] x [y-ey, y+ey] *)
Definition in_cell (p : Q * Q) (r : Q * Q * Q * Q) : Prop :=
  let '(x, y, ex, ey) := r in
  (x - ex <= fst p /\ fst p <= x + ex) /\ (y - ey <= snd p /\ snd p <= y + ey).
(* its interior *)
Definition oin_cell (p : Q * Q) (r : Q * Q * Q * Q) : Prop :=
  let '(x, y, ex, ey) := r in
  (x - ex < fst p /\ fst p < x + ex) /\ (y - ey < snd p /\ snd p < y + ey).
(* the half-open part (west and south edges excluded) *)
Definition hin_cell (p : Q * Q) (r : Q * Q * Q * Q) : Prop :=
  let '(x, y, ex, ey) := r in
  (x - ex < fst p /\ fst p <= x + ex) /\ (y - ey < snd p /\ snd p <= y + ey).
Definition sub_cell (k r : Q * Q * Q * Q) : Prop :=
  let '(x, y, ex, ey) := r in let '(x', y', ex', ey') := k in
  (x - ex <= x' - ex' /\ x' + ex' <= x + ex) /\ (y - ey <= y' - ey' /\ y' + ey' <= y + ey).
Definition cell_area (r : Q * Q * Q * Q) : Q := let '(_, _, ex, ey) := r in (2 * ex) * (2 * ey).

(* the decode result describes the cell state [st] *)
Definition cell_res (st : cs) (r : Q * Q * Q * Q) : Prop :=
  let '(x, y, ex, ey) := r in
  (x, y) = centre st /\
  x - ex == fst (lonI st) /\ x + ex == snd (lonI st) /\
  y - ey == fst (latI st) /\ y + ey == snd (latI st).
Close Scope Q_scope.

Lemma firstn_app_exact {A} (l1 l2 : list A) : firstn (length l1) (l1 ++ l2) = l1.
Proof. induction l1 as [|a l IH]; cbn; [reflexivity|now rewrite IH]. Qed.

Section Str.
  Variable c : cfg.

  Definition valid (s : list Z) : Prop := forall ch, In ch s -> In ch (charset c).

  Definition char_bits (ch : Z) : list bool :=
    match lookup ch (inverse c) with Some v => val_bits c v | None => [] end.
  Definition str_bits (s : list Z) : list bool := flat_map char_bits s.
  Definition cell_st (s : list Z) : cs := run_bits (str_bits s) (init_cs c).

  (* state of the encoder after n characters *)
  Fixpoint enc_state (n : nat) (p : Q * Q) (s : cs) : cs :=
    match n with
    | O => s
    | S n' => enc_state n' p (snd (enc_char (bits c) p s 0))
    end.

  (* ---------------------------------------------------------------- facts that need no cfg_ok *)
  Lemma enc_loop_length n p s : length (enc_loop c n p s) = n.
  Proof.
    revert s. induction n as [|n IH]; intro s; cbn; [reflexivity|].
    destruct (enc_char (bits c) p s 0) as [v s']. cbn. now rewrite IH.
  Qed.

  Lemma enc_loop_app n m p s :
    enc_loop c (n + m) p s = enc_loop c n p s ++ enc_loop c m p (enc_state n p s).
  Proof.
    revert s. induction n as [|n IH]; intro s; cbn; [reflexivity|].
    destruct (enc_char (bits c) p s 0) as [v s']. cbn. now rewrite IH.
  Qed.

  Lemma encode_prefix p n m : (n <= m)%nat -> firstn n (encode c p m) = encode c p n.
  Proof.
    intro H. unfold encode. replace m with (n + (m - n))%nat by lia.
    rewrite enc_loop_app.
    rewrite <- (enc_loop_length n p (init_cs c)) at 1. apply firstn_app_exact.
  Qed.

  Lemma dec_loop_ok_valid s : forall d d', dec_loop c s d = Ok d' -> valid s.
  Proof.
    induction s as [|ch s IH]; intros d d' H; [intros x []|].
    cbn in H. destruct (in_charset ch (charset c)) eqn:E; cbn in H; [|discriminate].
    destruct (lookup ch (inverse c)) as [v|]; [|discriminate].
    intros x [<-|Hx]; [now apply in_charset_In|]. eapply IH; eauto.
  Qed.

  Lemma dec_loop_app s t d :
    dec_loop c (s ++ t) d = match dec_loop c s d with Ok d' => dec_loop c t d' | Err e => Err e end.
  Proof.
    revert d. induction s as [|ch s IH]; intro d; cbn; [reflexivity|].
    destruct (in_charset ch (charset c)); cbn; [|reflexivity].
    destruct (lookup ch (inverse c)); [apply IH|reflexivity].
  Qed.

  (* ---------------------------------------------------------------- with cfg_ok *)
  Hypothesis OK : cfg_ok c.
  Let b := length (bits c).

  Lemma char_bits_ok ch : In ch (charset c) ->
    length (char_bits ch) = b /\ pair_ok c ch (char_bits ch).
  Proof.
    intro H. destruct (cfg_ok_char c OK ch H) as (bl & L & P).
    assert (E : char_bits ch = bl).
    { destruct P as (_ & (v & Hv & Hb) & _). unfold char_bits. now rewrite Hv. }
    rewrite E. split; assumption.
  Qed.

  Lemma dec_loop_valid s : forall d, valid s -> dec_loop c s d = Ok (run_dbits (str_bits s) d).
  Proof.
    induction s as [|ch s IH]; intros d V; [reflexivity|].
    assert (Hc : In ch (charset c)) by (apply V; now left).
    cbn [dec_loop]. rewrite (proj2 (in_charset_In _ _) Hc). cbn [negb].
    destruct (char_bits_ok ch Hc) as (_ & _ & (v & Hv & Hb) & _).
    rewrite Hv. rewrite IH by (intros x Hx; apply V; now right).
    f_equal. unfold str_bits. cbn [flat_map]. rewrite run_dbits_app. f_equal.
    rewrite dec_char_bits. unfold char_bits. now rewrite Hv.
  Qed.

  Lemma dec_loop_reject s : forall d,
    (exists ch, In ch s /\ ~ In ch (charset c)) -> dec_loop c s d = Err ValueError.
  Proof.
    induction s as [|ch s IH]; intros d (x & Hx & Hn); [destruct Hx|].
    cbn [dec_loop]. destruct (in_charset ch (charset c)) eqn:E; [|reflexivity]. cbn [negb].
    apply in_charset_In in E.
    destruct (char_bits_ok ch E) as (_ & _ & (v & Hv & _) & _). rewrite Hv.
    apply IH. exists x. split; [|exact Hn]. destruct Hx as [->|Hx]; [contradiction|exact Hx].
  Qed.

  Lemma init_swf : swf_cs (init_cs c).
  Proof.
    destruct (cfg_ok_parts c OK) as (_ & _ & _ & Hx & Hy & Px & Py).
    unfold swf_cs, init_cs. cbn. lra.
  Qed.

  Lemma init_err : err_inv (init_ds c).
  Proof.
    destruct (cfg_ok_parts c OK) as (_ & _ & _ & Hx & Hy & Px & Py).
    unfold err_inv, init_ds, init_cs. cbn. lra.
  Qed.

  Lemma cell_st_swf s : swf_cs (cell_st s).
  Proof. apply run_bits_swf, init_swf. Qed.

  Lemma cell_res_of_ds d st :
    err_inv d -> dcs d = st ->
    cell_res st (fst (centre (dcs d)), snd (centre (dcs d)), lonE d, latE d).
  Proof.
    intros [E1 E2] <-. unfold cell_res. split; [now destruct (centre (dcs d))|].
    unfold centre. cbn [fst snd].
    pose proof (qmid_spec (fst (lonI (dcs d))) (snd (lonI (dcs d)))).
    pose proof (qmid_spec (fst (latI (dcs d))) (snd (latI (dcs d)))).
    repeat split; lra.
  Qed.

  Lemma decode_valid s : valid s -> exists r, decode c s = Ok r /\ cell_res (cell_st s) r.
  Proof.
    intro V. unfold decode. rewrite (dec_loop_valid s _ V).
    eexists. split; [reflexivity|]. apply cell_res_of_ds.
    - apply run_dbits_err, init_err.
    - now rewrite dcs_run_dbits.
  Qed.

  Lemma decode_ok s r : decode c s = Ok r -> valid s /\ cell_res (cell_st s) r.
  Proof.
    intro H. assert (V : valid s).
    { unfold decode in H. destruct (dec_loop c s (init_ds c)) eqn:E; [|discriminate].
      eapply dec_loop_ok_valid; eauto. }
    split; [exact V|]. destruct (decode_valid s V) as (r' & E & R). congruence.
  Qed.

  Lemma decode_rejects s :
    (exists ch, In ch s /\ ~ In ch (charset c)) -> decode c s = Err ValueError.
  Proof. intro H. unfold decode. now rewrite dec_loop_reject. Qed.

  Lemma in_cell_cs st r p : cell_res st r -> (in_cell p r <-> in_cs p st).
  Proof. destruct r as [[[x y] ex] ey]. unfold cell_res, in_cell, in_cs. intros (_ & ? & ? & ? & ?). split; intro; lra. Qed.

  Lemma oin_cell_cs st r p : cell_res st r -> (oin_cell p r <-> oin_cs p st).
  Proof. destruct r as [[[x y] ex] ey]. unfold cell_res, oin_cell, oin_cs. intros (_ & ? & ? & ? & ?). split; intro; lra. Qed.

  Lemma hin_cell_cs st r p : cell_res st r -> (hin_cell p r <-> hin_cs p st).
  Proof. destruct r as [[[x y] ex] ey]. unfold cell_res, hin_cell, hin_cs. intros (_ & ? & ? & ? & ?). split; intro; lra. Qed.

  Lemma sub_cell_cs st st' r r' : cell_res st r -> cell_res st' r' -> (sub_cell r' r <-> sub_cs st' st).
  Proof.
    destruct r as [[[x y] ex] ey], r' as [[[x' y'] ex'] ey']. unfold cell_res, sub_cell, sub_cs.
    intros (_ & ? & ? & ? & ?) (_ & ? & ? & ? & ?). split; intro; lra.
  Qed.

  (* ---------------------------------------------------------------- the encoder, bit view *)
  Lemma enc_loop_bits n : forall p s,
    valid (enc_loop c n p s) /\ str_bits (enc_loop c n p s) = enc_bits (n * b) p s.
  Proof.
    induction n as [|n IH]; intros p s; [split; [intros x []|reflexivity]|].
    cbn [enc_loop]. rewrite enc_char_bits. fold b.
    set (bl := enc_bits b p s).
    destruct (cfg_ok_bits c OK bl (enc_bits_length _ _ _)) as (ch & Hc & (v & Hv & Hb) & Hch).
    rewrite Hch. destruct (IH p (run_bits bl s)) as [V B]. split.
    - intros x [<-|Hx]; [exact Hc|now apply V].
    - unfold str_bits in *. cbn [flat_map]. rewrite B. unfold char_bits. rewrite Hv, Hb.
      replace (S n * b)%nat with (b + n * b)%nat by lia. now rewrite enc_bits_app.
  Qed.

  Lemma encode_len_alphabet p n :
    length (encode c p n) = n /\ forall ch, In ch (encode c p n) -> In ch (charset c).
  Proof. split; [apply enc_loop_length|apply enc_loop_bits]. Qed.

  Definition in_range (p : Q * Q) : Prop :=
    (minx c <= fst p /\ fst p <= maxx c)%Q /\ (miny c <= snd p /\ snd p <= maxy c)%Q.

  Lemma decode_encode_contains p n :
    in_range p -> exists r, decode c (encode c p n) = Ok r /\ in_cell p r.
  Proof.
    intro R. destruct (enc_loop_bits n p (init_cs c)) as [V B].
    destruct (decode_valid _ V) as (r & E & C). exists r. split; [exact E|].
    apply (in_cell_cs _ _ p C). unfold cell_st, encode. rewrite B. apply enc_bits_in. exact R.
  Qed.

  (* the encoder is constant on the half-open part of every cell *)
  Lemma reenc_str s : forall p st,
    valid s -> wf_cs st -> hin_cs p (run_bits (str_bits s) st) -> enc_loop c (length s) p st = s.
  Proof.
    induction s as [|ch s IH]; intros p st V W H; [reflexivity|].
    assert (Hc : In ch (charset c)) by (apply V; now left).
    destruct (char_bits_ok ch Hc) as (L & _ & _ & Hch).
    unfold str_bits in H. cbn [flat_map] in H. rewrite run_bits_app in H. fold (str_bits s) in H.
    set (bl := char_bits ch) in *.
    assert (E : enc_bits b p st = bl).
    { rewrite <- L. apply reenc_bits; [exact W|]. eapply hin_sub; [exact H|].
      apply run_bits_sub, run_bits_wf, W. }
    cbn [length enc_loop]. rewrite enc_char_bits. fold b. rewrite E, Hch. f_equal.
    apply IH; [intros x Hx; apply V; now right|apply run_bits_wf, W|exact H].
  Qed.

  Lemma reencode_halfopen s r p :
    decode c s = Ok r -> hin_cell p r -> encode c p (length s) = s.
  Proof.
    intros D H. destruct (decode_ok s r D) as [V C].
    apply reenc_str; [exact V|apply swf_wf, init_swf|]. now apply (hin_cell_cs _ _ p C).
  Qed.

  Lemma reencode_centre s x y ex ey :
    decode c s = Ok (x, y, ex, ey) -> encode c (x, y) (length s) = s.
  Proof.
    intros D. eapply reencode_halfopen; [exact D|].
    destruct (decode_ok _ _ D) as [V C]. apply (hin_cell_cs _ _ (x, y) C).
    destruct C as (-> & _). apply oin_hin, centre_oin, cell_st_swf.
  Qed.

  (* ---------------------------------------------------------------- children *)
  Lemma child_cell s ch : cell_st (s ++ [ch]) = run_bits (char_bits ch) (cell_st s).
  Proof.
    unfold cell_st, str_bits. rewrite flat_map_app, run_bits_app. cbn [flat_map]. now rewrite app_nil_r.
  Qed.

  Lemma child_valid s ch : valid s -> In ch (charset c) -> valid (s ++ [ch]).
  Proof. intros V H x Hx. apply in_app_iff in Hx. destruct Hx as [Hx|[<-|[]]]; auto. Qed.

  Lemma subhashes_in s k : In k (subhashes c s) <-> exists ch, In ch (charset c) /\ k = s ++ [ch].
  Proof.
    unfold subhashes. rewrite in_map_iff. split; intros (ch & A & B); exists ch; auto.
  Qed.

  Lemma children_count s :
    length (subhashes c s) = Nat.pow 2 b /\ NoDup (subhashes c s).
  Proof.
    split.
    - unfold subhashes. rewrite map_length. apply charset_length, OK.
    - unfold subhashes. destruct (cfg_ok_parts c OK) as (_ & N & _).
      induction N as [|x l Hx N IH]; cbn; constructor; [|exact IH].
      rewrite in_map_iff. intros (y & E & Hy). apply app_inv_head in E. injection E as ->. contradiction.
  Qed.

  Lemma children_inside s r k :
    decode c s = Ok r -> In k (subhashes c s) -> exists r', decode c k = Ok r' /\ sub_cell r' r.
  Proof.
    intros D Hk. destruct (decode_ok _ _ D) as [V C].
    apply subhashes_in in Hk. destruct Hk as (ch & Hc & ->).
    destruct (decode_valid _ (child_valid s ch V Hc)) as (r' & E & C'). exists r'. split; [exact E|].
    apply (sub_cell_cs _ _ _ _ C C'). rewrite child_cell. apply run_bits_sub, swf_wf, cell_st_swf.
  Qed.

  Lemma children_cover s r p :
    decode c s = Ok r -> in_cell p r ->
    exists k r', In k (subhashes c s) /\ decode c k = Ok r' /\ in_cell p r'.
  Proof.
    intros D H. destruct (decode_ok _ _ D) as [V C].
    apply (in_cell_cs _ _ p C) in H.
    set (bl := enc_bits b p (cell_st s)).
    destruct (cfg_ok_bits c OK bl (enc_bits_length _ _ _)) as (ch & Hc & (v & Hv & Hb) & Hch).
    destruct (decode_valid _ (child_valid s ch V Hc)) as (r' & E & C').
    exists (s ++ [ch]), r'. split; [apply subhashes_in; eauto|]. split; [exact E|].
    apply (in_cell_cs _ _ p C'). rewrite child_cell. unfold char_bits. rewrite Hv, Hb.
    apply enc_bits_in, H.
  Qed.

  Lemma children_disjoint s r k1 k2 r1 r2 p :
    decode c s = Ok r -> In k1 (subhashes c s) -> In k2 (subhashes c s) ->
    decode c k1 = Ok r1 -> decode c k2 = Ok r2 -> oin_cell p r1 -> oin_cell p r2 -> k1 = k2.
  Proof.
    intros D H1 H2 D1 D2 O1 O2. destruct (decode_ok _ _ D) as [V C].
    apply subhashes_in in H1, H2. destruct H1 as (c1 & Hc1 & ->), H2 as (c2 & Hc2 & ->).
    destruct (decode_ok _ _ D1) as [_ C1]. destruct (decode_ok _ _ D2) as [_ C2].
    apply (oin_cell_cs _ _ p C1) in O1. apply (oin_cell_cs _ _ p C2) in O2.
    rewrite child_cell in O1, O2.
    destruct (char_bits_ok c1 Hc1) as (L1 & _ & _ & E1).
    destruct (char_bits_ok c2 Hc2) as (L2 & _ & _ & E2).
    assert (W : wf_cs (cell_st s)) by apply swf_wf, cell_st_swf.
    pose proof (reenc_bits _ p _ W (oin_hin _ _ O1)) as R1.
    pose proof (reenc_bits _ p _ W (oin_hin _ _ O2)) as R2.
    rewrite L1 in R1. rewrite L2 in R2. rewrite R1 in R2.
    f_equal. f_equal. rewrite <- E1, <- E2, R2. reflexivity.
  Qed.
End Str.
