(* Family C18b: algebra of the collection filters, consequences of C18_filter_is_list_filter
   (every filter is the list filter of the members, re-wrapped in the same class, for well-formed collections). *)
From Coq Require Import Permutation.
From GV Require Import Prelude CollM CollP CollP2 FilterM FilterP.
Open Scope Z_scope.

Definition bind_coll (x : res coll) (f : coll -> res coll) : res coll :=
  match x with Ok c => f c | Err e => Err e end.

Lemma wf_filtered p c : wf_coll c -> wf_coll (mkcoll (ckind c) (filter p (members c))).
Proof.
  intros W. destruct (filter_kind p c _ W (filter_with_ok p c W)) as [_ H]. exact H.
Qed.

Lemma filter_filter {A} (p q : A -> bool) l : filter q (filter p l) = filter (fun x => p x && q x) l.
Proof.
  induction l as [|x l IH]; cbn; [reflexivity|].
  destruct (p x); cbn; [destruct (q x); cbn; rewrite IH; reflexivity|exact IH].
Qed.

(* filtering twice = filtering by the conjunction *)
Lemma filter_compose p q c : wf_coll c ->
  bind_coll (filter_with p c) (filter_with q) = filter_with (fun x => p x && q x) c.
Proof.
  intros W. rewrite (filter_with_ok p c W). cbn [bind_coll].
  rewrite (filter_with_ok q _ (wf_filtered p c W)). rewrite (filter_with_ok _ c W). cbn [ckind members].
  rewrite filter_filter. reflexivity.
Qed.

Lemma filter_commute p q c : wf_coll c ->
  bind_coll (filter_with p c) (filter_with q) = bind_coll (filter_with q c) (filter_with p).
Proof.
  intros W. rewrite !filter_compose by exact W. rewrite !(filter_with_ok _ c W).
  f_equal. f_equal. apply filter_ext. intros x. apply andb_comm.
Qed.

Lemma filter_idem p c : wf_coll c -> bind_coll (filter_with p c) (filter_with p) = filter_with p c.
Proof.
  intros W. rewrite filter_compose by exact W. rewrite !(filter_with_ok _ c W).
  f_equal. f_equal. apply filter_ext. intros x. destruct (p x); reflexivity.
Qed.

Lemma filter_true_list {A} (l : list A) : filter (fun _ => true) l = l.
Proof. induction l as [|x l IH]; cbn; [reflexivity|rewrite IH; reflexivity]. Qed.

Lemma filter_true_id c : wf_coll c -> filter_with (fun _ => true) c = Ok c.
Proof.
  intros W. rewrite (filter_with_ok _ c W). rewrite filter_true_list. destruct c as [k l]. reflexivity.
Qed.

Lemma filter_false_empty c : wf_coll c -> filter_with (fun _ => false) c = Ok (mkcoll (ckind c) []).
Proof.
  intros W. rewrite (filter_with_ok _ c W). f_equal. f_equal.
  induction (members c) as [|x l IH]; cbn; [reflexivity|exact IH].
Qed.

Lemma filter_mono_list {A} (p q : A -> bool) l :
  (forall x, In x l -> p x = true -> q x = true) -> sublist (filter p l) (filter q l).
Proof.
  induction l as [|x l IH]; intros H; cbn; [constructor|].
  assert (IH' : sublist (filter p l) (filter q l)) by (apply IH; intros y Hy; apply H; right; exact Hy).
  destruct (p x) eqn:P.
  - rewrite (H x (or_introl eq_refl) P). constructor. exact IH'.
  - destruct (q x); [constructor|]; exact IH'.
Qed.

(* a stronger predicate selects a sub-sequence of what a weaker one selects *)
Lemma filter_mono p q c o1 o2 : wf_coll c ->
  (forall x, In x (members c) -> p x = true -> q x = true) ->
  filter_with p c = Ok o1 -> filter_with q c = Ok o2 -> sublist (members o1) (members o2).
Proof.
  intros W H. rewrite !(filter_with_ok _ c W). intros E1 E2.
  apply ok_inj in E1. apply ok_inj in E2. subst. cbn. apply filter_mono_list. exact H.
Qed.

Lemma filter_partition_list {A} (p : A -> bool) l :
  Permutation (filter p l ++ filter (fun x => negb (p x)) l) l.
Proof.
  induction l as [|x l IH]; cbn; [constructor|].
  destruct (p x); cbn.
  - constructor. exact IH.
  - apply Permutation_sym. apply Permutation_cons_app. apply Permutation_sym. exact IH.
Qed.

(* a filter and its complement split the collection *)
Lemma filter_partition p c o1 o2 : wf_coll c ->
  filter_with p c = Ok o1 -> filter_with (fun x => negb (p x)) c = Ok o2 ->
  Permutation (members o1 ++ members o2) (members c) /\
  (length (members o1) + length (members o2) = length (members c))%nat /\
  (forall x, In x (members o1) -> In x (members o2) -> False).
Proof.
  intros W. rewrite !(filter_with_ok _ c W). intros E1 E2.
  apply ok_inj in E1. apply ok_inj in E2. subst. cbn.
  pose proof (filter_partition_list p (members c)) as P. split; [exact P|]. split.
  - rewrite <- app_length. apply Permutation_length. exact P.
  - intros x H1 H2. apply filter_In in H1. apply filter_In in H2.
    destruct H1 as [_ H1]. destruct H2 as [_ H2]. rewrite H1 in H2. discriminate.
Qed.

Lemma filter_length p c out : wf_coll c -> filter_with p c = Ok out ->
  (length (members out) <= length (members c))%nat.
Proof.
  intros W E. apply sublist_length. apply (filter_order p c out W E).
Qed.

(* predicates that agree on the members select the same collection *)
Lemma filter_ext_coll p q c : wf_coll c -> (forall x, In x (members c) -> p x = q x) ->
  filter_with p c = filter_with q c.
Proof.
  intros W H. rewrite !(filter_with_ok _ c W). f_equal. f_equal. apply filter_ext_in. exact H.
Qed.
