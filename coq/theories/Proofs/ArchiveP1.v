(* Proofs about the shapefile geometry path of ArchiveM.v: the family partition of
   to_shapefile, ESRI ring orientation of what to_pyshp emits, and from_pyshp o (ESRI geo
   interface) o to_pyshp = identity, Z values included. *)
From Coq Require Import String Permutation.
From GV Require Import Prelude RingM RingP GeoJsonM GeoJsonP WktM ArchiveM.
Open Scope list_scope.
Open Scope Z_scope.

(* ====================== (a) families ====================== *)

Lemma group_fold : forall l acc,
  fold_left group_step l acc =
  mkgroups (g_points acc ++ members_of FPoints l) (g_multipoints acc ++ members_of FMultipoints l)
           (g_lines acc ++ members_of FLines l) (g_shapes acc ++ members_of FShapes l).
Proof.
  induction l as [|s l IH]; intros [a b c d].
  - cbn. rewrite !app_nil_r. reflexivity.
  - cbn [fold_left]. rewrite IH. unfold group_step, members_of. cbn [filter].
    destruct (family_of (sgeom s)); cbn [family_eqb g_points g_multipoints g_lines g_shapes];
      rewrite <- ?app_assoc; reflexivity.
Qed.

(* the four lists are the four filters of the collection, each in collection order *)
Lemma group_shapes_spec : forall l,
  group_shapes l = mkgroups (members_of FPoints l) (members_of FMultipoints l)
                            (members_of FLines l) (members_of FShapes l).
Proof. intros l. unfold group_shapes. rewrite group_fold. reflexivity. Qed.

Lemma members_In : forall f l s, In s (members_of f l) <-> In s l /\ family_of (sgeom s) = f.
Proof.
  intros f l s. unfold members_of. rewrite filter_In. split; intros [H1 H2]; split; try exact H1.
  - destruct (family_of (sgeom s)), f; cbn in H2; try discriminate; reflexivity.
  - rewrite H2. destruct f; reflexivity.
Qed.

Lemma four_filters_perm : forall l,
  Permutation (members_of FPoints l ++ members_of FMultipoints l ++ members_of FLines l ++ members_of FShapes l) l.
Proof.
  induction l as [|s l IH]; [constructor|].
  unfold members_of in *. cbn [filter].
  destruct (family_of (sgeom s)); cbn [family_eqb].
  - cbn. constructor. exact IH.
  - apply Permutation_sym, Permutation_cons_app, Permutation_sym. exact IH.
  - apply Permutation_sym. rewrite app_assoc. apply Permutation_cons_app. rewrite <- app_assoc.
    apply Permutation_sym. exact IH.
  - apply Permutation_sym. rewrite !app_assoc. apply Permutation_cons_app. rewrite <- !app_assoc.
    apply Permutation_sym. exact IH.
Qed.

(* every shape is written to exactly one layer *)
Lemma archive_is_permutation : forall l, Permutation (archive_order (group_shapes l)) l.
Proof. intros l. rewrite group_shapes_spec. unfold archive_order. cbn. apply four_filters_perm. Qed.

Lemma members_members : forall f g l,
  members_of f (members_of g l) = if family_eqb f g then members_of f l else [].
Proof.
  intros f g l. unfold members_of. induction l as [|s l IH]; [destruct (family_eqb f g); reflexivity|].
  cbn [filter]. destruct (family_of (sgeom s)) eqn:E; destruct f, g; cbn [family_eqb filter] in *;
    rewrite ?E; cbn [family_eqb]; rewrite ?IH; reflexivity.
Qed.

(* reading the layers back in archive order: within each family the original order *)
Lemma family_order_kept : forall f l,
  members_of f (archive_order (group_shapes l)) = members_of f l.
Proof.
  intros f l. rewrite group_shapes_spec. unfold archive_order. cbn [g_points g_multipoints g_lines g_shapes].
  unfold members_of at 1. rewrite !filter_app. fold (members_of f (members_of FPoints l)).
  fold (members_of f (members_of FMultipoints l)). fold (members_of f (members_of FLines l)).
  fold (members_of f (members_of FShapes l)). rewrite !members_members.
  destruct f; cbn [family_eqb]; rewrite ?app_nil_r; reflexivity.
Qed.

Inductive sublist {A} : list A -> list A -> Prop :=
| sl_nil : sublist [] []
| sl_skip a l m : sublist l m -> sublist l (a :: m)
| sl_keep a l m : sublist l m -> sublist (a :: l) (a :: m).

Lemma filter_sublist {A} (p : A -> bool) : forall l, sublist (filter p l) l.
Proof. induction l as [|a l IH]; cbn; [constructor|]. destruct (p a); constructor; exact IH. Qed.

Lemma family_is_sublist : forall f l, sublist (members_of f l) l.
Proof. intros. apply filter_sublist. Qed.

(* the archive lists families in the order points, multipoints, lines, shapes *)
Lemma archive_family_blocks : forall l,
  archive_order (group_shapes l) =
  members_of FPoints l ++ members_of FMultipoints l ++ members_of FLines l ++ members_of FShapes l.
Proof. intros l. rewrite group_shapes_spec. reflexivity. Qed.

(* ====================== 2-D areas ====================== *)

Lemma cross_c2 : forall a b, cross (c2 (xy_of a)) (c2 (xy_of b)) = cross a b.
Proof. intros. reflexivity. Qed.

Lemma area2_c2_xy : forall r, area2 (map c2 (map xy_of r)) = area2 r.
Proof.
  induction r as [|a l IH]; [reflexivity|].
  cbn [map]. rewrite !area2_cons, IH. f_equal.
  destruct l as [|b l]; reflexivity.
Qed.

Lemma area2xy_of : forall r, area2xy (map xy_of r) = area2 r.
Proof. intros. apply area2_c2_xy. Qed.

Lemma is_cw_of : forall r, is_cw (map xy_of r) = (area2 r <? 0).
Proof. intros. unfold is_cw. rewrite area2xy_of. reflexivity. Qed.

(* ====================== sequential grouping ====================== *)

Lemma seq_group_holes : forall hs rest p, Forall (fun h => is_cw h = false) hs ->
  seq_group (hs ++ rest) (Some p) = seq_group rest (Some (p ++ hs)).
Proof.
  induction hs as [|h hs IH]; intros rest p H.
  - rewrite app_nil_r. reflexivity.
  - inversion H as [|? ? Hh Hr]; subst. cbn [app seq_group]. rewrite Hh.
    rewrite IH by exact Hr. rewrite <- app_assoc. reflexivity.
Qed.

Definition gpoly := (list xy * list (list xy))%type.
Definition gp_rings (p : gpoly) : list (list xy) := fst p :: snd p.
Definition gp_ok (p : gpoly) : Prop := is_cw (fst p) = true /\ Forall (fun h => is_cw h = false) (snd p).

Lemma seq_group_polys : forall ps c, Forall gp_ok ps ->
  seq_group (flat_map gp_rings ps) (Some c) = c :: map gp_rings ps.
Proof.
  induction ps as [|p ps IH]; intros c H; [reflexivity|].
  inversion H as [|? ? [Hs Hh] Hr]; subst. cbn [flat_map]. unfold gp_rings at 1. cbn [app seq_group].
  rewrite Hs. cbn [flush app]. f_equal.
  rewrite seq_group_holes by exact Hh. rewrite IH by exact Hr. reflexivity.
Qed.

Lemma seq_group_polys0 : forall ps, Forall gp_ok ps ->
  seq_group (flat_map gp_rings ps) None = map gp_rings ps.
Proof.
  intros [|p ps] H; [reflexivity|].
  inversion H as [|? ? [Hs Hh] Hr]; subst. cbn [flat_map]. unfold gp_rings at 1. cbn [app seq_group].
  rewrite Hs. cbn [flush app]. rewrite seq_group_holes by exact Hh. rewrite seq_group_polys by exact Hr.
  reflexivity.
Qed.

(* ====================== z threading ====================== *)

Definition z_none (r : ring) : Prop := Forall (fun c => cz c = None) r.
Definition z_some (r : ring) : Prop := Forall (fun c => exists v, cz c = Some v /\ v <> 0) r.

(* Z uniformly: with the flag, every vertex has a non-zero Z; without it, none has *)
Definition zmode_ok (b : bool) (rs : list ring) : Prop :=
  if b then Forall z_some rs else Forall z_none rs.

Lemma attach_none : forall r, z_none r -> attach (map xy_of r) None = (r, None).
Proof.
  induction r as [|c r IH]; intros H; [reflexivity|].
  inversion H as [|? ? Hc Hr]; subst. cbn [map attach zpop]. rewrite IH by exact Hr.
  destruct c as [x y z]. cbn in *. subst. reflexivity.
Qed.

Lemma attach_some : forall r rest, z_some r ->
  attach (map xy_of r) (Some (map zval r ++ rest)) = (r, Some rest).
Proof.
  induction r as [|c r IH]; intros rest H; [reflexivity|].
  inversion H as [|? ? (v & Hv & Hn) Hr]; subst. cbn [map attach app zpop]. rewrite IH by exact Hr.
  destruct c as [x y z]. cbn in *. subst. unfold zval, truthy_z. cbn.
  destruct (v =? 0) eqn:E; [lia|reflexivity].
Qed.

Lemma attach2_none : forall rs, Forall z_none rs -> attach2 (map (map xy_of) rs) None = (rs, None).
Proof.
  induction rs as [|r rs IH]; intros H; [reflexivity|].
  inversion H; subst. cbn [map attach2]. rewrite attach_none by assumption. rewrite IH by assumption. reflexivity.
Qed.

Lemma attach2_some : forall rs rest, Forall z_some rs ->
  attach2 (map (map xy_of) rs) (Some (flat_map (map zval) rs ++ rest)) = (rs, Some rest).
Proof.
  induction rs as [|r rs IH]; intros rest H; [reflexivity|].
  inversion H; subst. cbn [map attach2 flat_map]. rewrite <- app_assoc.
  rewrite attach_some by assumption. rewrite IH by assumption. reflexivity.
Qed.

Lemma attach3_none : forall pss, Forall (Forall z_none) pss ->
  attach3 (map (map (map xy_of)) pss) None = (pss, None).
Proof.
  induction pss as [|p pss IH]; intros H; [reflexivity|].
  inversion H; subst. cbn [map attach3]. rewrite attach2_none by assumption. rewrite IH by assumption. reflexivity.
Qed.

Lemma attach3_some : forall pss rest, Forall (Forall z_some) pss ->
  attach3 (map (map (map xy_of)) pss) (Some (flat_map (map zval) (concat pss) ++ rest)) = (pss, Some rest).
Proof.
  induction pss as [|p pss IH]; intros rest H; [reflexivity|].
  inversion H; subst. cbn [map attach3 concat]. rewrite flat_map_app, <- app_assoc.
  rewrite attach2_some by assumption. rewrite IH by assumption. reflexivity.
Qed.

Lemma attach2_zs : forall b rs, zmode_ok b rs -> fst (attach2 (map (map xy_of) rs) (zs_of b rs)) = rs.
Proof.
  intros [|] rs H; unfold zs_of; cbn in H.
  - rewrite <- (app_nil_r (flat_map _ rs)). rewrite attach2_some by exact H. reflexivity.
  - rewrite attach2_none by exact H. reflexivity.
Qed.

Lemma Forall_concat {A} (P : A -> Prop) : forall ls, Forall P (concat ls) -> Forall (Forall P) ls.
Proof.
  induction ls as [|l ls IH]; intros H; [constructor|].
  cbn in H. apply Forall_app in H as [H1 H2]. constructor; [exact H1|apply IH; exact H2].
Qed.

Lemma attach3_zs : forall b pss, zmode_ok b (concat pss) ->
  fst (attach3 (map (map (map xy_of)) pss) (zs_of b (concat pss))) = pss.
Proof.
  intros [|] pss H; unfold zs_of; cbn in H; apply Forall_concat in H.
  - rewrite <- (app_nil_r (flat_map _ (concat pss))). rewrite attach3_some by exact H. reflexivity.
  - rewrite attach3_none by exact H. reflexivity.
Qed.

(* ====================== well-oriented stored rings ====================== *)

(* an outline as GeoPolygon stores it, of non-zero area *)
Definition shell_ok (half : Z) (r : ring) : Prop := ring_wf half r /\ span_ok half r /\ 0 < area2 r.
(* a hole as stored (the hole shape's own counter-clockwise outline) *)
Definition hole_ok (half : Z) (h : ring) : Prop := ring_wf half h /\ span_ok half h.

Definition esri_ok (half : Z) (p : polygon) : Prop :=
  shell_ok half (outline p) /\ Forall (hole_ok half) (pholes p).

Lemma hole_ok_not_cw : forall half h, hole_ok half h -> is_cw (map xy_of h) = false.
Proof.
  intros half h [(L & C & O) S]. rewrite is_cw_of.
  apply (is_ccw_area half h S (closedb_xy _ C)) in O. lia.
Qed.

Lemma shell_rev_cw : forall half r, shell_ok half r -> is_cw (map xy_of (rev r)) = true.
Proof. intros half r (_ & _ & A). rewrite is_cw_of, area2_rev. lia. Qed.

Lemma shell_hole_wf : forall half r, shell_ok half r -> hole_wf half r.
Proof.
  intros half r (W & S & A). split; [exact W|]. destruct W as (_ & C & _).
  apply strict_ccw_rev; assumption.
Qed.

Lemma assemble_stored : forall half shell hs, shell_ok half shell -> Forall (hole_ok half) hs ->
  assemble_poly half (rev shell :: hs) = Ok (mkpoly shell hs).
Proof.
  intros half shell hs Hs Hh. unfold assemble_poly.
  rewrite mapM_ok_id.
  - rewrite ctor_ring_rev_hole by (apply shell_hole_wf; exact Hs). reflexivity.
  - intros h Hin. rewrite Forall_forall in Hh. destruct (Hh h Hin) as [W _]. apply ctor_ring_wf. exact W.
Qed.

(* the rings a stored polygon sends to pyshp *)
Definition stored_rings (p : polygon) : list ring := rev (outline p) :: pholes p.

Lemma map_rev_rev {A} : forall (l : list (list A)), map (@rev A) (map (@rev A) l) = l.
Proof. induction l as [|a l IH]; cbn; [reflexivity|]. rewrite rev_involutive, IH. reflexivity. Qed.

Lemma rev_linear_rings : forall p, map (@rev coord) (linear_rings p) = stored_rings p.
Proof. intros [o hs]. unfold linear_rings, rings_of, stored_rings. cbn. rewrite map_rev_rev. reflexivity. Qed.

Lemma esri_rings_poly : forall orc p, esri_rings orc (GPoly p) = stored_rings p.
Proof. intros. cbn. apply rev_linear_rings. Qed.

Lemma map_flat_map {A B C} (f : B -> C) (g : A -> list B) : forall l,
  map f (flat_map g l) = flat_map (fun x => map f (g x)) l.
Proof. induction l as [|a l IH]; cbn; [reflexivity|]. rewrite map_app, IH. reflexivity. Qed.

Lemma flat_map_ext' {A B} (f g : A -> list B) : forall l, (forall a, f a = g a) -> flat_map f l = flat_map g l.
Proof. intros l H. induction l as [|a l IH]; cbn; [reflexivity|]. rewrite H, IH. reflexivity. Qed.

Lemma esri_rings_mpoly : forall orc ps, esri_rings orc (GMPoly ps) = flat_map stored_rings ps.
Proof.
  intros. cbn. rewrite map_flat_map. apply flat_map_ext'. intros p. apply rev_linear_rings.
Qed.

(* a MultiGeoPolygon is emitted part by part *)
Lemma esri_rings_mpoly_parts : forall orc ps,
  esri_rings orc (GMPoly ps) = flat_map (fun p => esri_rings orc (GPoly p)) ps.
Proof.
  intros. rewrite esri_rings_mpoly. apply flat_map_ext'. intros p. symmetry. apply esri_rings_poly.
Qed.

(* ====================== (b) ESRI orientation of what is emitted ====================== *)

Lemma norm_ring_strict : forall half r, span_ok half r -> area2 (close_ring r) <> 0 ->
  shell_ok half (norm_ring half false r) \/ (length r < 2)%nat.
Proof.
  intros half r S A. destruct (le_lt_dec 2 (length r)) as [L|L]; [left|right; exact L].
  destruct (norm_ring_spec half false r S) as (C & Sp & Ln & A0 & O).
  repeat split; try assumption; [lia|].
  destruct (norm_ring_area half false r) as [E|E]; lia.
Qed.

(* exterior clockwise, holes counter-clockwise, all closed: ESRI's rule, for a polygon built by
   the constructors from any vertex lists (non-zero areas), with any number of holes *)
Lemma esri_orientation : forall half orc o hs,
  span_ok half o -> Forall (span_ok half) hs ->
  area2 (close_ring o) <> 0 -> Forall (fun h => area2 (close_ring h) <> 0) hs ->
  match esri_rings orc (GPoly (mk_polygon half o (map (mk_hole half) hs))) with
  | [] => False
  | shell :: holes =>
      closedb shell = true /\ area2 shell < 0 /\
      Forall (fun h => closedb h = true /\ 0 < area2 h) holes
  end.
Proof.
  intros half orc o hs So Sh Ao Ah. rewrite esri_rings_poly. unfold stored_rings, mk_polygon. cbn [outline pholes].
  destruct (norm_ring_spec half false o So) as (C & _ & _ & A0 & _).
  split; [apply closedb_rev; exact C|]. split.
  - rewrite area2_rev. destruct (norm_ring_area half false o) as [E|E]; lia.
  - apply Forall_forall. intros h Hin. apply in_map_iff in Hin as (r & <- & Hr).
    rewrite Forall_forall in Sh, Ah. specialize (Sh r Hr). specialize (Ah r Hr).
    destruct (norm_ring_spec half false r Sh) as (C' & _ & _ & A' & _). unfold mk_hole.
    split; [exact C'|]. destruct (norm_ring_area half false r) as [E|E]; lia.
Qed.

(* the same in terms of stored polygons, and for multipolygons part by part *)
Lemma esri_orientation_stored : forall half p, esri_ok half p ->
  area2 (rev (outline p)) < 0 /\ closedb (rev (outline p)) = true /\
  Forall (fun h => closedb h = true /\ 0 <= area2 h) (pholes p).
Proof.
  intros half p [(W & S & A) Hh]. destruct W as (_ & C & _).
  split; [rewrite area2_rev; lia|]. split; [apply closedb_rev; exact C|].
  apply Forall_forall. intros h Hin. rewrite Forall_forall in Hh. destruct (Hh h Hin) as [(L & Ch & O) Sh].
  split; [exact Ch|]. apply (is_ccw_area half h Sh (closedb_xy _ Ch)). exact O.
Qed.

Lemma constructed_esri_ok : forall half o hs,
  span_ok half o -> (2 <= length o)%nat -> area2 (close_ring o) <> 0 ->
  Forall (fun h => span_ok half h /\ (2 <= length h)%nat) hs ->
  esri_ok half (mk_polygon half o (map (mk_hole half) hs)).
Proof.
  intros half o hs So Lo Ao Hh. split; cbn [mk_polygon outline pholes].
  - destruct (norm_ring_strict half o So Ao) as [H|H]; [exact H|lia].
  - apply Forall_forall. intros h Hin. apply in_map_iff in Hin as (r & <- & Hr).
    rewrite Forall_forall in Hh. destruct (Hh r Hr) as [S L]. split.
    + apply mk_ring_wf; assumption.
    + destruct (norm_ring_spec half false r S) as (_ & Sp & _). exact Sp.
Qed.

(* ====================== (c) from_pyshp o geo interface o to_pyshp ====================== *)

Lemma seq_group_stored : forall half shell hs, shell_ok half shell -> Forall (hole_ok half) hs ->
  seq_group (map (map xy_of) (rev shell :: hs)) None = [map (map xy_of) (rev shell :: hs)].
Proof.
  intros half shell hs Hs Hh.
  change (map (map xy_of) (rev shell :: hs)) with (gp_rings (map xy_of (rev shell), map (map xy_of) hs)).
  rewrite <- (app_nil_r (gp_rings _)).
  change (gp_rings (map xy_of (rev shell), map (map xy_of) hs) ++ [])
    with (flat_map gp_rings [(map xy_of (rev shell), map (map xy_of) hs)]).
  rewrite seq_group_polys0; [cbn [map flat_map]; rewrite app_nil_r; reflexivity|].
  constructor; [|constructor]. split; cbn [fst snd].
  - eapply shell_rev_cw. exact Hs.
  - apply Forall_forall. intros x Hx. apply in_map_iff in Hx as (h & <- & Hin).
    rewrite Forall_forall in Hh. eapply hole_ok_not_cw. apply Hh. exact Hin.
Qed.

(* the core: rings [shell reversed; stored holes] written, classified by ESRI's rule, read back *)
Lemma read_stored_rings : forall half shell hs b,
  shell_ok half shell -> Forall (hole_ok half) hs -> zmode_ok b (rev shell :: hs) ->
  let w := mkps LPolygon (map (map xy_of) (rev shell :: hs)) (zs_of b (rev shell :: hs)) in
  esri_gi w = GiPolygon (map (map xy_of) (rev shell :: hs)) /\
  from_pyshp half (esri_gi w) (ps_z w) = Ok (GPoly (mkpoly shell hs)).
Proof.
  intros half shell hs b Hs Hh Hz w.
  assert (E : esri_gi w = GiPolygon (map (map xy_of) (rev shell :: hs))).
  { unfold esri_gi, w. cbn [ps_kind ps_parts]. rewrite (seq_group_stored half) by assumption. reflexivity. }
  split; [exact E|]. rewrite E. unfold w. cbn [ps_z from_pyshp].
  rewrite attach2_zs by exact Hz. rewrite assemble_stored by assumption. reflexivity.
Qed.

Section ShpCodec.
(* pyshp as a black box: the geo interface and the Z list of a written-then-read shape *)
Variable gi_of : pshape -> gi.
Variable z_of : pshape -> zstate.
Variable half : Z.
Variable orc : oracle.

(* a stored GeoPolygon with any number of holes comes back as literally the same value *)
Lemma shp_polygon_roundtrip : forall p,
  esri_ok half p -> zmode_ok (has_z (GPoly p)) (esri_rings orc (GPoly p)) ->
  let w := to_pyshp orc (GPoly p) in
  gi_of w = esri_gi w -> z_of w = ps_z w ->
  from_pyshp half (gi_of w) (z_of w) = Ok (GPoly p).
Proof.
  intros p [Hs Hh] Hz w G Zq. rewrite G, Zq. unfold w, to_pyshp.
  rewrite esri_rings_poly in *. unfold stored_rings in *.
  change (layer_of (GPoly p)) with LPolygon.
  destruct (read_stored_rings half (outline p) (pholes p) (has_z (GPoly p)) Hs Hh Hz) as [_ R].
  cbn zeta in R. rewrite R. destruct p; reflexivity.
Qed.

(* any single polygon-like (box, circle, ellipse, ring, wedge: whatever linear_rings returns),
   provided its rings are oriented the GeoJSON way: read back as the GeoPolygon with exactly
   those linear rings *)
Definition polylike (g : geom) : Prop :=
  match g with
  | GPoly _ | GBox _ _ _ | GRound _ _ | GRingFull _ _ | GWedge _ _ => True
  | _ => False
  end.

Lemma shp_polylike_roundtrip : forall g shell holes,
  polylike g -> geom_rings orc None g = shell :: holes ->
  shell_ok half shell -> Forall (fun h => hole_ok half (rev h)) holes ->
  zmode_ok (has_z g) (esri_rings orc g) ->
  let w := to_pyshp orc g in
  gi_of w = esri_gi w -> z_of w = ps_z w ->
  exists p, from_pyshp half (gi_of w) (z_of w) = Ok (GPoly p) /\ linear_rings p = geom_rings orc None g.
Proof.
  intros g shell holes P R Hs Hh Hz w G Zq. exists (mkpoly shell (map (@rev coord) holes)).
  assert (Er : esri_rings orc g = rev shell :: map (@rev coord) holes).
  { destruct g; cbn in P; try contradiction; cbn [esri_rings]; rewrite R; reflexivity. }
  assert (El : layer_of g = LPolygon) by (destruct g; cbn in P; try contradiction; reflexivity).
  split.
  - rewrite G, Zq. unfold w, to_pyshp. rewrite Er in *. rewrite El.
    assert (Hh' : Forall (hole_ok half) (map (@rev coord) holes)).
    { apply Forall_forall. intros x Hx. apply in_map_iff in Hx as (h & <- & Hin).
      rewrite Forall_forall in Hh. apply Hh. exact Hin. }
    destruct (read_stored_rings half shell (map (@rev coord) holes) (has_z g) Hs Hh' Hz) as [_ Q].
    exact Q.
  - rewrite R. unfold linear_rings, rings_of. cbn. rewrite map_rev_rev. reflexivity.
Qed.

(* a MultiGeoPolygon with at least two parts, each with any number of holes *)
Lemma shp_multipolygon_roundtrip : forall ps,
  (2 <= length ps)%nat -> Forall (esri_ok half) ps ->
  zmode_ok (has_z (GMPoly ps)) (esri_rings orc (GMPoly ps)) ->
  let w := to_pyshp orc (GMPoly ps) in
  gi_of w = esri_gi w -> z_of w = ps_z w ->
  from_pyshp half (gi_of w) (z_of w) = Ok (GMPoly ps).
Proof.
  intros ps L Hp Hz w G Zq. rewrite G, Zq. unfold w, to_pyshp.
  rewrite esri_rings_mpoly in *. change (layer_of (GMPoly ps)) with LPolygon.
  set (b := has_z (GMPoly ps)) in *.
  assert (Eg : seq_group (map (map xy_of) (flat_map stored_rings ps)) None =
               map (fun p => map (map xy_of) (stored_rings p)) ps).
  { transitivity (seq_group (flat_map gp_rings
        (map (fun p => (map xy_of (rev (outline p)), map (map xy_of) (pholes p))) ps)) None).
    - f_equal. rewrite map_flat_map. rewrite flat_map_concat_map, (flat_map_concat_map gp_rings), map_map.
      reflexivity.
    - rewrite seq_group_polys0.
      + rewrite map_map. reflexivity.
      + apply Forall_forall. intros x Hx. apply in_map_iff in Hx as (p & <- & Hin).
        rewrite Forall_forall in Hp. destruct (Hp p Hin) as [Hs Hh]. split; cbn [fst snd].
        * eapply shell_rev_cw. exact Hs.
        * apply Forall_forall. intros y Hy. apply in_map_iff in Hy as (h & <- & Hh').
          rewrite Forall_forall in Hh. eapply hole_ok_not_cw. apply Hh. exact Hh'. }
  unfold esri_gi. cbn [ps_kind ps_parts ps_z]. rewrite Eg.
  assert (Em : map (fun p => map (map xy_of) (stored_rings p)) ps =
               map (map (map xy_of)) (map stored_rings ps)) by (rewrite map_map; reflexivity).
  rewrite Em.
  assert (Ez : flat_map stored_rings ps = concat (map stored_rings ps)) by apply flat_map_concat_map.
  assert (R : from_pyshp half (GiMultiPolygon (map (map (map xy_of)) (map stored_rings ps)))
                         (zs_of b (flat_map stored_rings ps)) = Ok (GMPoly ps)).
  { cbn [from_pyshp]. rewrite Ez. rewrite attach3_zs by (rewrite <- Ez; exact Hz).
    rewrite (mapM_map_ok (assemble_poly half) stored_rings).
    - reflexivity.
    - intros p Hin. rewrite Forall_forall in Hp. destruct (Hp p Hin) as [Hs Hh]. unfold stored_rings.
      rewrite assemble_stored by assumption. destruct p; reflexivity. }
  destruct ps as [|p1 [|p2 ps']]; cbn in L; try lia. exact R.
Qed.

(* every polygon-like emits its linear rings, each reversed *)
Lemma esri_rings_reversed : forall g, polylike g ->
  esri_rings orc g = map (@rev coord) (geom_rings orc None g).
Proof. intros g P. destruct g; cbn in P; try contradiction; reflexivity. Qed.

(* lines: one part comes back as a LineString, two or more as a MultiLineString *)
Lemma shp_line_roundtrip : forall vs,
  zmode_ok (has_z (GLine vs)) [vs] ->
  let w := to_pyshp orc (GLine vs) in
  gi_of w = esri_gi w -> z_of w = ps_z w ->
  from_pyshp half (gi_of w) (z_of w) = Ok (GLine vs).
Proof.
  intros vs Hz w G Zq. rewrite G, Zq. unfold w, to_pyshp, esri_gi. cbn [esri_rings ps_kind ps_parts ps_z layer_of family_of map from_pyshp].
  pose proof (attach2_zs (has_z (GLine vs)) [vs] Hz) as A. cbn [map attach2] in A.
  destruct (attach (map xy_of vs) (zs_of (has_z (GLine vs)) [vs])) as [r z1] eqn:E. cbn in A.
  cbn [fst]. inversion A. reflexivity.
Qed.

Lemma shp_multiline_roundtrip : forall ls,
  (2 <= length ls)%nat -> zmode_ok (has_z (GMLine ls)) ls ->
  let w := to_pyshp orc (GMLine ls) in
  gi_of w = esri_gi w -> z_of w = ps_z w ->
  from_pyshp half (gi_of w) (z_of w) = Ok (GMLine ls).
Proof.
  intros ls L Hz w G Zq. rewrite G, Zq. unfold w, to_pyshp, esri_gi. cbn [esri_rings ps_kind ps_parts ps_z layer_of family_of].
  destruct ls as [|l1 [|l2 ls']]; cbn in L; try lia.
  cbn [map from_pyshp]. change (map xy_of l1 :: map xy_of l2 :: map (map xy_of) ls') with (map (map xy_of) (l1 :: l2 :: ls')).
  rewrite attach2_zs by exact Hz. reflexivity.
Qed.

Lemma shp_multipoint_roundtrip : forall cs,
  zmode_ok (has_z (GMPoint cs)) [cs] ->
  let w := to_pyshp orc (GMPoint cs) in
  gi_of w = esri_gi w -> z_of w = ps_z w ->
  from_pyshp half (gi_of w) (z_of w) = Ok (GMPoint cs).
Proof.
  intros cs Hz w G Zq. rewrite G, Zq. unfold w, to_pyshp, esri_gi. cbn [esri_rings ps_kind ps_parts ps_z layer_of family_of map concat from_pyshp].
  rewrite app_nil_r.
  pose proof (attach2_zs (has_z (GMPoint cs)) [cs] Hz) as A. cbn [map attach2] in A.
  destruct (attach (map xy_of cs) (zs_of (has_z (GMPoint cs)) [cs])) as [r z1] eqn:E. cbn in A.
  cbn [fst]. inversion A. reflexivity.
Qed.

Lemma shp_point_roundtrip : forall c, z_ok c ->
  let w := to_pyshp orc (GPoint c) in
  gi_of w = esri_gi w -> z_of w = ps_z w ->
  from_pyshp half (gi_of w) (z_of w) = Ok (GPoint c).
Proof.
  intros [x y z] Hz w G Zq. rewrite G, Zq. unfold w, to_pyshp, esri_gi, z_ok in *. cbn in *.
  destruct z as [v|]; cbn; [|reflexivity].
  unfold zval, truthy_z. cbn. destruct (v =? 0) eqn:E; [exfalso; apply Hz; f_equal; lia|reflexivity].
Qed.
End ShpCodec.

(* the format cannot tell a one-member multi-shape from the simple shape: type is not kept *)
Definition tri : ring := [mkc 0 0 None; mkc 4 0 None; mkc 4 4 None].
Definition noorc : oracle := mkoracle (fun _ _ => []) (fun _ _ => []).

Lemma shp_single_member_multi_refuted :
  (exists p, esri_ok 720 p /\
     from_pyshp 720 (esri_gi (to_pyshp noorc (GMPoly [p]))) (ps_z (to_pyshp noorc (GMPoly [p]))) = Ok (GPoly p)) /\
  (exists l, from_pyshp 720 (esri_gi (to_pyshp noorc (GMLine [l]))) (ps_z (to_pyshp noorc (GMLine [l]))) = Ok (GLine l)).
Proof.
  split.
  - exists (mk_polygon 720 tri []). split; [|vm_compute; reflexivity].
    apply (constructed_esri_ok 720 tri []); [|cbn; lia|vm_compute; discriminate|constructor].
    intros a b Ha Hb. cbn in Ha, Hb.
    repeat (destruct Ha as [<-|Ha]; [repeat (destruct Hb as [<-|Hb]; [cbn; lia|]); destruct Hb|]). destruct Ha.
  - exists [mkc 0 0 None; mkc 4 4 None]. vm_compute. reflexivity.
Qed.
