(* Curved shapes: the membership tests are the documented definitions; the generated boundary
   points lie on the defined curve, at the scheduled bearings, in angular order. *)
From GV Require Import Prelude SphereM SphereP1 SphereP2 SphereP3 CurveM.
From Coq Require Import Reals Lra.
Open Scope R_scope.

(* ---------------------------------------------------------------- booleans *)
Lemma rleb_true a b : rleb a b = true <-> a <= b.
Proof. unfold rleb; destruct (Rle_dec a b); split; intros; try easy. Qed.
Lemma rleb_false a b : rleb a b = false <-> b < a.
Proof. unfold rleb; destruct (Rle_dec a b); split; intros; try easy; lra. Qed.

Lemma in_holes_false hs p : in_holes hs p = false <-> forall h, In h hs -> h p = false.
Proof.
  unfold in_holes. induction hs as [|h hs IH]; cbn.
  - split; [intros _ h []|reflexivity].
  - rewrite orb_false_iff, IH. split.
    + intros [H1 H2] g [<-|Hg]; auto.
    + intros H. split; [apply H; left; reflexivity|intros g Hg; apply H; right; exact Hg].
Qed.

(* ---------------------------------------------------------------- contains = the definition *)
Theorem circle_contains_def s p :
  circle_contains s p = true <->
  hdist (c_center s) p <= c_radius s /\ (forall h, In h (c_holes s) -> h p = false).
Proof.
  unfold circle_contains. rewrite (hdist_sym p).
  destruct (rleb (hdist (c_center s) p) (c_radius s)) eqn:E; cbn [negb].
  - apply rleb_true in E. rewrite negb_true_iff, in_holes_false. tauto.
  - apply rleb_false in E. split; [discriminate|]. intros [H _]. lra.
Qed.

Theorem ellipse_contains_def s p :
  ellipse_contains s p = true <->
  hdist (e_center s) p <= radius_at s (rad (bearing (e_center s) p - e_rotation s)) /\
  (forall h, In h (e_holes s) -> h p = false).
Proof.
  unfold ellipse_contains. cbv zeta.
  destruct (rleb (hdist (e_center s) p) _) eqn:E; cbn [negb].
  - apply rleb_true in E. rewrite negb_true_iff, in_holes_false. tauto.
  - apply rleb_false in E. split; [discriminate|]. intros [H _]. lra.
Qed.

Theorem ring_contains_def s p :
  ring_contains s p = true <->
  (r_amax s - r_amin s < 360 -> Rmod (bearing (r_center s) p - r_amin s) 360 <= r_amax s - r_amin s) /\
  r_inner s <= hdist (r_center s) p <= r_outer s /\
  (forall h, In h (r_holes s) -> h p = false).
Proof.
  unfold ring_contains. cbv zeta.
  set (b := Rmod (bearing (r_center s) p - r_amin s) 360). set (d := hdist (r_center s) p).
  destruct (rltb (r_amax s - r_amin s) 360) eqn:W;
    destruct (rltb (r_amax s - r_amin s) b) eqn:B1;
    destruct (rleb (r_inner s) d) eqn:D1; destruct (rleb d (r_outer s)) eqn:D2; cbn;
    try apply rltb_true in W; try apply rltb_false in W;
    try apply rltb_true in B1; try apply rltb_false in B1;
    try apply rleb_true in D1; try apply rleb_false in D1;
    try apply rleb_true in D2; try apply rleb_false in D2;
    rewrite ?negb_true_iff, ?in_holes_false;
    (split; [try discriminate; intros H; repeat split; try assumption; try lra; intros; lra
            |intros (H1 & H2 & H3); try assumption; try (specialize (H1 W)); lra]).
Qed.

(* what the modular comparison means: the bearing, read modulo full turns, lies in the angle range
   (ranges through north such as 350..370 or -10..10 included) *)
Theorem wedge_angle_spec (amin amax b : R) :
  0 <= amax - amin < 360 ->
  (Rmod (b - amin) 360 <= amax - amin <-> exists n : Z, amin <= b + 360 * IZR n <= amax).
Proof.
  intros Hw. split.
  - intros H. exists (- Int_part ((b - amin) / 360))%Z. unfold Rmod in H.
    pose proof (Rmod_range (b - amin) 360 ltac:(lra)) as R0. unfold Rmod in R0.
    rewrite opp_IZR. lra.
  - intros [n Hn]. rewrite (Rmod_eq (b - amin) 360 (- n)%Z); [|lra|]; rewrite opp_IZR; lra.
Qed.

(* with a range inside one turn starting in [0, 360) and a bearing in [0, 360), this is the plain
   comparison the documentation describes *)
Corollary wedge_angle_plain (amin amax b : R) :
  0 <= amin -> amin <= amax -> amax <= 360 -> amax - amin < 360 -> 0 <= b < 360 ->
  (Rmod (b - amin) 360 <= amax - amin <-> (amin <= b <= amax \/ amin <= b + 360 <= amax)).
Proof.
  intros H0 H1 H2 Hw Hb. rewrite (wedge_angle_spec amin amax b) by lra. split.
  - intros [n Hn].
    assert (Hn' : (n = 0 \/ n = 1)%Z).
    { assert (-1 < IZR n < 2) by lra. destruct H as [Ha Hc].
      apply lt_IZR in Hc. change (-1) with (IZR (-1)) in Ha. apply lt_IZR in Ha. lia. }
    destruct Hn' as [->| ->]; [left|right]; lra.
  - intros [H|H]; [exists 0%Z|exists 1%Z]; lra.
Qed.

(* ---------------------------------------------------------------- the ellipse radius *)
Section Radius.
  Variable e : ellipse.
  Variable Hb : 0 < e_minor e.
  Variable Hab : e_minor e <= e_major e.

  Lemma radius_den_bounds t :
    e_minor e * e_minor e
    <= e_major e * e_major e * (sin t * sin t) + e_minor e * e_minor e * (cos t * cos t)
    <= e_major e * e_major e.
  Proof.
    pose proof (sc1 t) as E. set (s2 := sin t * sin t) in *. set (c2 := cos t * cos t) in *.
    assert (0 <= s2) by (unfold s2; nra). assert (0 <= c2) by (unfold c2; nra).
    assert (e_minor e * e_minor e <= e_major e * e_major e) by nra.
    replace c2 with (1 - s2) by lra. split; nra.
  Qed.

  Lemma radius_at_bounds t : e_minor e <= radius_at e t <= e_major e.
  Proof.
    unfold radius_at. destruct (radius_den_bounds t) as [L U].
    set (D := e_major e * e_major e * (sin t * sin t) + e_minor e * e_minor e * (cos t * cos t)) in *.
    assert (HD : 0 < D) by nra.
    assert (Hs : 0 < sqrt D) by (apply sqrt_lt_R0; exact HD).
    assert (L' : e_minor e <= sqrt D).
    { rewrite <- (sqrt_square (e_minor e)) by lra. apply sqrt_le_1_alt. exact L. }
    assert (U' : sqrt D <= e_major e).
    { rewrite <- (sqrt_square (e_major e)) by lra. apply sqrt_le_1_alt. exact U. }
    split.
    - apply Rmult_le_reg_r with (sqrt D); [exact Hs|].
      unfold Rdiv. rewrite Rmult_assoc, Rinv_l, Rmult_1_r by lra. nra.
    - apply Rmult_le_reg_r with (sqrt D); [exact Hs|].
      unfold Rdiv. rewrite Rmult_assoc, Rinv_l, Rmult_1_r by lra. nra.
  Qed.

  Lemma radius_at_0 : radius_at e 0 = e_major e.
  Proof.
    unfold radius_at. rewrite sin_0, cos_0.
    replace (e_major e * e_major e * (0 * 0) + e_minor e * e_minor e * (1 * 1)) with (e_minor e * e_minor e) by ring.
    rewrite sqrt_square by lra. field. lra.
  Qed.

  Lemma radius_at_PI2 : radius_at e (PI / 2) = e_minor e.
  Proof.
    unfold radius_at. rewrite sin_PI2, cos_PI2.
    replace (e_major e * e_major e * (1 * 1) + e_minor e * e_minor e * (0 * 0)) with (e_major e * e_major e) by ring.
    rewrite sqrt_square by lra. field. lra.
  Qed.
End Radius.

Lemma radius_at_period e t k : radius_at e (t + 2 * IZR k * PI) = radius_at e t.
Proof. unfold radius_at. rewrite sin_period_Z, cos_period_Z. reflexivity. Qed.

(* ---------------------------------------------------------------- bearings of destinations, any angle *)
Lemma dest_rad_period_Z p t d k : dest_rad p (t + 2 * IZR k * PI) d = dest_rad p t d.
Proof. unfold dest_rad. rewrite cos_period_Z, sin_period_Z. reflexivity. Qed.

Lemma dest_bearing_rad2 p t d :
  -90 < lat p < 90 -> 0 < d < PI * Rearth -> 0 <= t < 2 * PI ->
  -90 < lat (dest_rad p t d) < 90 ->
  bearing_raw p (dest_rad p t d) = deg t.
Proof.
  intros H1 H2 H3 H4. pose proof PI_RGT_0 as HP.
  assert (E : dest_rad p t d = dest_deg p (deg t) d) by (unfold dest_deg; rewrite rad_deg_id; reflexivity).
  rewrite E in *. apply dest_bearing_deg; try assumption.
  unfold deg. assert (0 < 180 / PI) by (apply Rdiv_lt_0_compat; lra).
  split; [nra|]. replace 360 with (2 * PI * (180 / PI)) by (field; lra). nra.
Qed.

Lemma dest_bearing_any p t d :
  -90 < lat p < 90 -> 0 < d < PI * Rearth ->
  -90 < lat (dest_rad p t d) < 90 ->
  exists k : Z, bearing_raw p (dest_rad p t d) = deg t + 360 * IZR k.
Proof.
  intros H1 H2 H4. pose proof PI_RGT_0 as HP.
  set (m := Int_part ((PI - t) / (2 * PI))).
  destruct (base_Int_part ((PI - t) / (2 * PI))) as [B1 B2]. fold m in B1, B2.
  assert (Em : PI - t = 2 * PI * ((PI - t) / (2 * PI))) by (field; lra).
  set (q := (PI - t) / (2 * PI)) in *.
  assert (Ht : - PI < t + 2 * IZR m * PI <= PI) by (split; nra).
  rewrite <- (dest_rad_period_Z p t d m) in *.
  rewrite dest_bearing_rad by assumption.
  unfold Rmod. set (j := Int_part _).
  exists (m + 1 - j)%Z. rewrite minus_IZR, plus_IZR. unfold deg. field. lra.
Qed.

(* ---------------------------------------------------------------- circle boundary *)
Theorem circle_pt_on_curve s k i :
  -90 <= lat (c_center s) <= 90 -> 0 <= c_radius s <= PI * Rearth ->
  hdist (c_center s) (circle_pt s k i) = c_radius s.
Proof. intros. apply dest_dist; assumption. Qed.

(* a generated boundary point passes the analytic test (unless a hole takes it) *)
Theorem circle_pt_accepted s k i :
  -90 <= lat (c_center s) <= 90 -> 0 <= c_radius s <= PI * Rearth ->
  (forall h, In h (c_holes s) -> h (circle_pt s k i) = false) ->
  circle_contains s (circle_pt s k i) = true.
Proof.
  intros H1 H2 H3. apply circle_contains_def. split; [|exact H3].
  rewrite circle_pt_on_curve by assumption. lra.
Qed.

Lemma INR_pos k : (0 < k)%nat -> 0 < INR k.
Proof. intros. apply lt_0_INR. assumption. Qed.

Lemma circle_angle_deg k i : (0 < k)%nat -> circle_angle k i = rad (360 * INR i / INR k).
Proof. intros Hk. apply INR_pos in Hk. unfold circle_angle, rad. field. lra. Qed.

Theorem circle_pt_bearing s k i :
  -90 < lat (c_center s) < 90 -> 0 < c_radius s < PI * Rearth ->
  (i < k)%nat -> -90 < lat (circle_pt s k i) < 90 ->
  bearing_raw (c_center s) (circle_pt s k i) = 360 * INR i / INR k.
Proof.
  intros H1 H2 Hik H4. assert (Hk : (0 < k)%nat) by lia.
  unfold circle_pt in *. rewrite circle_angle_deg in * by exact Hk.
  fold (dest_deg (c_center s) (360 * INR i / INR k) (c_radius s)) in *.
  apply dest_bearing_deg; try assumption.
  apply lt_INR in Hik. apply INR_pos in Hk. pose proof (pos_INR i).
  assert (0 < / INR k) by (apply Rinv_0_lt_compat; lra).
  unfold Rdiv. split; [nra|].
  apply Rmult_lt_reg_r with (INR k); [lra|]. rewrite Rmult_assoc, Rinv_l by lra. lra.
Qed.

(* the first generated point (i = k) is the last one (i = 0): the ring is closed *)
Theorem circle_first_last s k : (0 < k)%nat -> circle_pt s k k = circle_pt s k 0.
Proof.
  intros Hk. apply INR_pos in Hk. unfold circle_pt, circle_angle.
  replace (PI * 2 / INR k * INR k) with (0 + 2 * IZR 1 * PI) by (field; lra).
  rewrite dest_rad_period_Z. f_equal. simpl. ring.
Qed.

(* list shape: k+1 points, the j-th of which is the point of index k-j *)
Lemma schedule_length k : length (schedule k) = S k.
Proof. unfold schedule. rewrite rev_length, seq_length. reflexivity. Qed.

Lemma schedule_nth k j : (j <= k)%nat -> nth j (schedule k) 0%nat = (k - j)%nat.
Proof.
  intros H. unfold schedule. rewrite rev_nth by (rewrite seq_length; lia).
  rewrite seq_length, seq_nth by lia. lia.
Qed.

Theorem circle_pts_shape s k :
  length (circle_pts s k) = S k /\
  forall j, (j <= k)%nat -> nth j (circle_pts s k) (circle_pt s k 0) = circle_pt s k (k - j).
Proof.
  unfold circle_pts. rewrite map_length, schedule_length. split; [reflexivity|].
  intros j Hj. rewrite <- (schedule_nth k j Hj).
  rewrite <- (map_nth (circle_pt s k)). apply nth_indep. rewrite map_length, schedule_length. lia.
Qed.

(* pts_angular_order: after the first point, bearings strictly decrease along the list *)
Theorem circle_pts_angular_order s k j1 j2 :
  -90 < lat (c_center s) < 90 -> 0 < c_radius s < PI * Rearth ->
  (forall i, -90 < lat (circle_pt s k i) < 90) ->
  (1 <= j1)%nat -> (j1 < j2)%nat -> (j2 <= k)%nat ->
  bearing_raw (c_center s) (nth j2 (circle_pts s k) (circle_pt s k 0))
  < bearing_raw (c_center s) (nth j1 (circle_pts s k) (circle_pt s k 0)).
Proof.
  intros H1 H2 H3 Ha Hb Hc. destruct (circle_pts_shape s k) as [_ N].
  rewrite !N by lia. rewrite !circle_pt_bearing by (try assumption; try lia; apply H3).
  assert (Hk : 0 < INR k) by (apply INR_pos; lia).
  assert (INR (k - j2) < INR (k - j1)) by (apply lt_INR; lia).
  assert (0 < / INR k) by (apply Rinv_0_lt_compat; lra).
  unfold Rdiv. nra.
Qed.

(* ---------------------------------------------------------------- ellipse boundary *)
Theorem ellipse_pt_on_curve s k i :
  -90 < lat (e_center s) < 90 ->
  0 < e_minor s -> e_minor s <= e_major s -> e_major s < PI * Rearth ->
  -90 < lat (ellipse_pt s k i) < 90 ->
  hdist (e_center s) (ellipse_pt s k i)
  = radius_at s (rad (bearing_raw (e_center s) (ellipse_pt s k i) - e_rotation s)).
Proof.
  intros H1 Hb Hab Ha H4. unfold ellipse_pt in *.
  set (t := ellipse_angle k i) in *.
  pose proof (radius_at_bounds s Hb Hab t) as [R1 R2].
  rewrite dest_dist by lra.
  destruct (dest_bearing_any (e_center s) (t + rad (e_rotation s)) (radius_at s t)) as [z E];
    [assumption|lra|assumption|].
  rewrite E.
  replace (rad (deg (t + rad (e_rotation s)) + 360 * IZR z - e_rotation s)) with (t + 2 * IZR z * PI).
  - rewrite radius_at_period. reflexivity.
  - rewrite rad_minus, rad_plus, rad_deg_id, rad_360. ring.
Qed.

Theorem ellipse_first_last s k : (0 < k)%nat -> ellipse_pt s k k = ellipse_pt s k 0.
Proof.
  intros Hk. apply INR_pos in Hk. unfold ellipse_pt, ellipse_angle.
  replace (PI * 2 / INR k * INR k) with (0 + 2 * IZR 1 * PI) by (field; lra).
  replace (PI * 2 / INR k * INR 0) with 0 by (simpl; field; lra).
  rewrite radius_at_period.
  replace (0 + 2 * IZR 1 * PI + rad (e_rotation s)) with (0 + rad (e_rotation s) + 2 * IZR 1 * PI) by ring.
  rewrite dest_rad_period_Z. reflexivity.
Qed.

Theorem ellipse_pts_shape s k :
  length (ellipse_pts s k) = S k /\
  forall j, (j <= k)%nat -> nth j (ellipse_pts s k) (ellipse_pt s k 0) = ellipse_pt s k (k - j).
Proof.
  unfold ellipse_pts. rewrite map_length, schedule_length. split; [reflexivity|].
  intros j Hj. rewrite <- (schedule_nth k j Hj).
  rewrite <- (map_nth (ellipse_pt s k)). apply nth_indep. rewrite map_length, schedule_length. lia.
Qed.

(* ---------------------------------------------------------------- ring / wedge boundary *)
Lemma ring_angle_rad s k i : ring_angle s k i = rad (ring_angle_deg s k i).
Proof. unfold ring_angle, rad. field. Qed.

Theorem ring_pts_on_curve s k i :
  -90 <= lat (r_center s) <= 90 -> 0 <= r_inner s <= r_outer s -> r_outer s <= PI * Rearth ->
  hdist (r_center s) (ring_outer_pt s k i) = r_outer s /\
  hdist (r_center s) (ring_inner_pt s k i) = r_inner s.
Proof. intros H1 H2 H3. split; apply dest_dist; try assumption; lra. Qed.

Lemma ring_angle_deg_range s k i :
  (0 < k)%nat -> (i <= k)%nat -> r_amin s <= r_amax s ->
  r_amin s <= ring_angle_deg s k i <= r_amax s.
Proof.
  intros Hk Hi Hm. unfold ring_angle_deg. apply INR_pos in Hk. apply le_INR in Hi. pose proof (pos_INR i).
  set (w := r_amax s - r_amin s). assert (0 <= w) by (unfold w; lra).
  assert (E : w / INR k * INR i = w * (INR i / INR k)) by (field; lra). rewrite E.
  assert (0 <= INR i / INR k <= 1).
  { assert (0 < / INR k) by (apply Rinv_0_lt_compat; lra). unfold Rdiv. split; [nra|].
    apply Rmult_le_reg_r with (INR k); [lra|]. rewrite Rmult_assoc, Rinv_l by lra. lra. }
  unfold w in *. split; nra.
Qed.

(* every generated wedge point has its bearing at the scheduled angle, hence inside
   [angle_min, angle_max] (angle_max < 360: at 360 the bearing is 0) *)
Theorem ring_pts_bearing s k i :
  -90 < lat (r_center s) < 90 -> 0 < r_inner s <= r_outer s -> r_outer s < PI * Rearth ->
  (0 < k)%nat -> (i <= k)%nat -> 0 <= r_amin s <= r_amax s -> r_amax s < 360 ->
  -90 < lat (ring_outer_pt s k i) < 90 -> -90 < lat (ring_inner_pt s k i) < 90 ->
  bearing_raw (r_center s) (ring_outer_pt s k i) = ring_angle_deg s k i /\
  bearing_raw (r_center s) (ring_inner_pt s k i) = ring_angle_deg s k i /\
  r_amin s <= ring_angle_deg s k i <= r_amax s.
Proof.
  intros H1 H2 H3 Hk Hi Hm Hx Ho Hn.
  pose proof (ring_angle_deg_range s k i Hk Hi (proj2 Hm)) as Hr.
  unfold ring_outer_pt, ring_inner_pt in *. rewrite ring_angle_rad in *.
  fold (dest_deg (r_center s) (ring_angle_deg s k i) (r_outer s)) in *.
  fold (dest_deg (r_center s) (ring_angle_deg s k i) (r_inner s)) in *.
  split; [|split; [|exact Hr]]; apply dest_bearing_deg; try assumption; lra.
Qed.

(* the scheduled angle grows strictly with the index: along the outer arc (walked from index k down to 0)
   and along the inner arc the bearings are strictly monotone, i.e. the points come in angular order *)
Lemma ring_angle_deg_mono s k i1 i2 :
  (0 < k)%nat -> (i1 < i2)%nat -> r_amin s < r_amax s -> ring_angle_deg s k i1 < ring_angle_deg s k i2.
Proof.
  intros Hk Hi Hm. unfold ring_angle_deg. apply INR_pos in Hk.
  assert (INR i1 < INR i2) by (apply lt_INR; exact Hi).
  assert (0 < / INR k) by (apply Rinv_0_lt_compat; lra).
  assert (0 < (r_amax s - r_amin s) * / INR k) by (apply Rmult_lt_0_compat; lra).
  unfold Rdiv. apply Rplus_lt_compat_l. apply Rmult_lt_compat_l; assumption.
Qed.

Theorem ring_pts_angular_order s k i1 i2 :
  -90 < lat (r_center s) < 90 -> 0 < r_inner s <= r_outer s -> r_outer s < PI * Rearth ->
  (0 < k)%nat -> (i1 < i2)%nat -> (i2 <= k)%nat -> 0 <= r_amin s -> r_amin s < r_amax s -> r_amax s < 360 ->
  (forall i, -90 < lat (ring_outer_pt s k i) < 90) -> (forall i, -90 < lat (ring_inner_pt s k i) < 90) ->
  bearing_raw (r_center s) (ring_outer_pt s k i1) < bearing_raw (r_center s) (ring_outer_pt s k i2) /\
  bearing_raw (r_center s) (ring_inner_pt s k i1) < bearing_raw (r_center s) (ring_inner_pt s k i2).
Proof.
  intros H1 H2 H3 Hk Hi Hi2 Ha Hm Hx Ho Hn.
  destruct (ring_pts_bearing s k i1 H1 H2 H3 Hk ltac:(lia) ltac:(lra) Hx (Ho i1) (Hn i1)) as (A1 & B1 & _).
  destruct (ring_pts_bearing s k i2 H1 H2 H3 Hk Hi2 ltac:(lra) Hx (Ho i2) (Hn i2)) as (A2 & B2 & _).
  rewrite A1, A2, B1, B2. split; apply ring_angle_deg_mono; assumption.
Qed.

(* full ring: first generated point = last *)
Theorem ring_first_last s k :
  (0 < k)%nat -> r_amin s = 0 -> r_amax s = 360 ->
  ring_outer_pt s k k = ring_outer_pt s k 0 /\ ring_inner_pt s k k = ring_inner_pt s k 0.
Proof.
  intros Hk E1 E2. apply INR_pos in Hk. unfold ring_outer_pt, ring_inner_pt, ring_angle, ring_angle_deg.
  rewrite E1, E2.
  replace (PI * (0 + (360 - 0) / INR k * INR k) / 180) with (0 + 2 * IZR 1 * PI) by (field; lra).
  replace (PI * (0 + (360 - 0) / INR k * INR 0) / 180) with 0 by (simpl; field; lra).
  rewrite !dest_rad_period_Z. split; reflexivity.
Qed.

(* the wedge outline: outer arc, inner arc backwards, closing point; 2(k+1)+1 points *)
Theorem ring_pts_shape s k :
  (ring_is_full s = true -> ring_pts s k = ring_outer_pts s k /\ length (ring_pts s k) = S k) /\
  (ring_is_full s = false ->
     length (ring_pts s k) = S (2 * S k) /\
     hd (0, 0) (ring_pts s k) = last (ring_pts s k) (0, 0)).
Proof.
  unfold ring_pts. split; intros E; rewrite E.
  - split; [reflexivity|]. unfold ring_outer_pts. rewrite map_length, schedule_length. reflexivity.
  - split.
    + rewrite !app_length, rev_length. unfold ring_outer_pts, ring_inner_pts.
      rewrite !map_length, schedule_length. cbn. lia.
    + rewrite app_assoc, last_last.
      destruct (ring_outer_pts s k) eqn:F; [|reflexivity].
      unfold ring_outer_pts in F. apply (f_equal (@length _)) in F.
      rewrite map_length, schedule_length in F. discriminate.
Qed.

(* ---------------------------------------------------------------- the rounded boundary point *)
Lemma boundary_rounded c theta d :
  -90 <= lat c <= 90 -> 0 <= d <= PI * Rearth ->
  exists q, hdist c q = d /\
    Rabs (lon (dest_rad_rounded c theta d) - lon q) <= / 2 / 10 ^ 7 + / 10 ^ 19 /\
    Rabs (lat (dest_rad_rounded c theta d) - lat q) <= / 2 / 10 ^ 7 + / 10 ^ 19.
Proof.
  intros H1 H2. exists (dest_rad c theta d). split; [apply dest_dist; assumption|].
  apply dest_rounding.
Qed.

Lemma PI_gt_3 : 3 < PI.
Proof. pose proof PI2_3_2. lra. Qed.

Lemma nonvacuous_circle : let s := mkcircle (10, 45) 5000 [] in
  (-90 < lat (c_center s) < 90) /\ (0 < c_radius s < PI * Rearth) /\
  hdist (c_center s) (circle_pt s 36 7) = 5000 /\ circle_contains s (circle_pt s 36 7) = true.
Proof.
  intros s. pose proof PI_gt_3 as HP.
  assert (A : -90 <= lat (c_center s) <= 90) by (unfold s, lat; cbn; lra).
  assert (B : 0 <= c_radius s <= PI * Rearth) by (unfold s, Rearth; cbn; nra).
  split; [unfold s, lat; cbn; lra|]. split; [unfold s, Rearth; cbn; nra|].
  split; [apply circle_pt_on_curve; assumption|].
  apply circle_pt_accepted; try assumption. intros h [].
Qed.

Lemma radius_at_axes e : 0 < e_minor e -> e_minor e <= e_major e ->
  radius_at e 0 = e_major e /\ radius_at e (PI / 2) = e_minor e /\
  (forall t, e_minor e <= radius_at e t <= e_major e).
Proof.
  intros Hb Hab. split; [apply radius_at_0; assumption|].
  split; [apply radius_at_PI2; assumption|]. intros t. apply radius_at_bounds; assumption.
Qed.
(* the ellipse boundary point of index i lies at bearing (2*pi*i/k in degrees) + rotation, mod 360 *)
Theorem ellipse_pt_bearing s k i :
  -90 < lat (e_center s) < 90 ->
  0 < e_minor s -> e_minor s <= e_major s -> e_major s < PI * Rearth ->
  -90 < lat (ellipse_pt s k i) < 90 ->
  exists z : Z,
    bearing_raw (e_center s) (ellipse_pt s k i) = deg (ellipse_angle k i) + e_rotation s + 360 * IZR z.
Proof.
  intros H1 Hb Hab Ha H4. unfold ellipse_pt in *.
  set (t := ellipse_angle k i) in *.
  pose proof (radius_at_bounds s Hb Hab t) as [R1 R2].
  destruct (dest_bearing_any (e_center s) (t + rad (e_rotation s)) (radius_at s t)) as [z E];
    [assumption|lra|assumption|].
  exists z. rewrite E. unfold deg, rad. field. apply PI_neq0'.
Qed.
