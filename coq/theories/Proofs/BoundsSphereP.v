(* C09 / finding D10, instantiated with the real haversine of SphereM (C07): for the box
   GeoBox((0,61),(2,60)) the circumscribing circle's radius — the distance from the centroid
   (1, 60.5) to the NW corner — is SMALLER than the distance to the SE (and SW) corner, so the
   equator-side corners lie outside the "circumscribing" circle.  Real-number statement about the
   formula the code contains (translator tie of C07), proved with `interval`. *)
From GV Require Import Prelude SphereM SphereP1 SphereP2 SphereP3 SphereK.
From Coq Require Import Reals Lra.
From Interval Require Import Tactic.
Open Scope R_scope.

Definition d10_nw : coord := (0, 61).
Definition d10_se : coord := (2, 60).
Definition d10_sw : coord := (0, 60).
Definition d10_centroid : coord := (1, 121 / 2).

Lemma d10_nw_bound : Rabs (hdist d10_nw d10_centroid - 77735) <= 10.
Proof. unfold d10_nw, d10_centroid. apply (K_hdist Wnone); [k_side | k_ivl | k_ivl]. Qed.

Lemma d10_se_bound : Rabs (hdist d10_se d10_centroid - 78328) <= 10.
Proof. unfold d10_se, d10_centroid. apply (K_hdist Wnone); [k_side | k_ivl | k_ivl]. Qed.

Lemma d10_sw_bound : Rabs (hdist d10_sw d10_centroid - 78328) <= 10.
Proof. unfold d10_sw, d10_centroid. apply (K_hdist Wnone); [k_side | k_ivl | k_ivl]. Qed.

Lemma rabs_le_inv x a : Rabs x <= a -> - a <= x <= a.
Proof. unfold Rabs. destruct (Rcase_abs x); lra. Qed.

(* the far corners are more than 500 m outside a radius of about 77.7 km: 0.7 % of the radius,
   far beyond the 1e-6 r the property allows *)
Lemma box_circle_refuted_haversine :
  hdist d10_nw d10_centroid + 500 < hdist d10_se d10_centroid /\
  hdist d10_nw d10_centroid + 500 < hdist d10_sw d10_centroid.
Proof.
  pose proof d10_nw_bound as H1. pose proof d10_se_bound as H2. pose proof d10_sw_bound as H3.
  apply rabs_le_inv in H1, H2, H3. lra.
Qed.
