(* The Niemeyer instance of the flood fill / group-by model: cells are strings, equality is
   [str_eqb], the queue is popped at the head, neighbours come from the C11 codec model. *)
From Coq Require Import QArith.
From GV Require Import Prelude GeohashM GeohashP GeohashP2 FloodM FloodP FloodP2.
Open Scope nat_scope.

Lemma str_eqb_spec a b : str_eqb a b = true <-> a = b.
Proof.
  unfold str_eqb. revert b. induction a as [|x a IH]; intros [|y b]; cbn; try (split; congruence).
  rewrite andb_true_iff, Z.eqb_eq, IH. split; [intros [-> ->]; reflexivity|intros [= -> ->]; auto].
Qed.

Lemma pop_head_none {A} (q : list A) : pop_head q = None -> q = [].
Proof. destruct q; [reflexivity|discriminate]. Qed.

Lemma pop_head_some {A} (q : list A) x q' : pop_head q = Some (x, q') ->
  In x q /\ (forall y, In y q -> y = x \/ In y q') /\ (forall y, In y q' -> In y q) /\
  length q' < length q.
Proof.
  destruct q as [|a q]; [discriminate|]. intros [= -> ->]. cbn. repeat split; auto.
  intros y [->|H]; auto.
Qed.

Section Niemeyer.
  Variable c : cfg.
  Variable len : nat.
  Variable touch : list Z -> bool.

  Definition nreach := reach (list Z) (get_surrounding c) touch.

  (* hash_shape of a single line/polygon-like shape = the cells reachable from the cell of its
     first vertex through touching cells along _get_surrounding *)
  Lemma niemeyer_flood_result start fuel r :
    niemeyer_flood c len start touch fuel = Some r ->
    (forall x, In x r <-> nreach (encode c start len) x) /\ NoDup r.
  Proof.
    unfold niemeyer_flood. apply flood_result; [apply str_eqb_spec|apply @pop_head_none|apply @pop_head_some].
  Qed.

  Lemma niemeyer_flood_exact_partial start fuel r :
    (forall x, touch x = true -> nreach (encode c start len) x) -> touch (encode c start len) = true ->
    niemeyer_flood c len start touch fuel = Some r -> forall x, In x r <-> touch x = true.
  Proof.
    unfold niemeyer_flood. apply hash_exact_partial; [apply str_eqb_spec|apply @pop_head_none|apply @pop_head_some].
  Qed.

  (* hash_shape(GeoPoint) is the single cell that contains the point (through C11) *)
  Lemma niemeyer_point_spec p :
    cfg_ok c -> in_range c p ->
    exists cell r, niemeyer_point c len p = [cell] /\ length cell = len /\
                   decode c cell = Ok r /\ in_cell p r.
  Proof.
    intros OK R. destruct (decode_encode_contains c OK p len R) as (r & D & I).
    exists (encode c p len), r. repeat split; auto. apply encode_len_alphabet, OK.
  Qed.

  (* hash_coordinates: each cell maps to the aggregation of exactly the coordinates that encode
     to it, in input order; with the default agg_fn, their number *)
  Lemma niemeyer_hash_coordinates_spec {val} (agg : list (Q * Q) -> val) pts cell :
    dfind str_eqb cell (niemeyer_hash_coordinates c len agg pts) =
    match filter (fun p => str_eqb cell (encode c p len)) pts with
    | [] => None
    | l => Some (agg l)
    end.
  Proof.
    unfold niemeyer_hash_coordinates. rewrite hash_collection_spec.
    - assert (E : forall l, filter (fun x => cmem (list Z) str_eqb cell (niemeyer_point c len x)) l =
                            filter (fun p => str_eqb cell (encode c p len)) l).
      { intro l. apply filter_ext. intro p. unfold cmem, niemeyer_point. cbn. apply orb_false_r. }
      now rewrite E.
    - apply str_eqb_spec.
    - intro p. unfold niemeyer_point. constructor; [intros []|constructor].
  Qed.
End Niemeyer.
