(* C09, curved shapes: the circumscribing circles the code builds for circles, ellipses and full
   rings contain every generated boundary point, for every number of boundary points k and every
   index i - real-number statements about the formulas of the code (translator ties of C07 / C03),
   corollaries of "every generated boundary point lies on the defined curve" (C03).
     GeoCircle.circumscribing_circle    returns self
     GeoEllipse.circumscribing_circle   GeoCircle(center, semi_major)
     GeoRing.circumscribing_circle      GeoCircle(center, outer_radius)   (full ring; a wedge uses the
                                        centroid + farthest-vertex circle of BoundsM: the C09 far-circle theorems) *)
From GV Require Import Prelude SphereM SphereP1 SphereP2 SphereP3 CurveM CurveP.
From Coq Require Import Reals Lra.
Open Scope R_scope.

Definition ellipse_cc (s : ellipse) : circle := mkcircle (e_center s) (e_major s) [].
Definition ring_cc (s : ring) : circle := mkcircle (r_center s) (r_outer s) [].

(* circle: its own circumscribing circle; a boundary point is accepted unless a hole of the circle takes it *)
Theorem circle_cc_contains_boundary s k i :
  -90 <= lat (c_center s) <= 90 -> 0 <= c_radius s <= PI * Rearth ->
  (forall h, In h (c_holes s) -> h (circle_pt s k i) = false) ->
  circle_contains s (circle_pt s k i) = true.
Proof. exact (circle_pt_accepted s k i). Qed.

(* ellipse: every boundary point is within semi_major of the centre *)
Theorem ellipse_cc_contains_boundary s k i :
  -90 < lat (e_center s) < 90 ->
  0 < e_minor s -> e_minor s <= e_major s -> e_major s < PI * Rearth ->
  -90 < lat (ellipse_pt s k i) < 90 ->
  circle_contains (ellipse_cc s) (ellipse_pt s k i) = true.
Proof.
  intros H1 H2 H3 H4 H5. apply circle_contains_def. unfold ellipse_cc; cbn [c_center c_radius c_holes].
  split; [|intros h []].
  rewrite (ellipse_pt_on_curve s k i H1 H2 H3 H4 H5).
  destruct (radius_at_axes s H2 H3) as (_ & _ & B). apply B.
Qed.

(* the bound is attained on the major axis (radius_at 0 = semi_major): no smaller circle about the centre would do *)
Theorem ellipse_cc_radius_attained s :
  0 < e_minor s -> e_minor s <= e_major s -> radius_at s 0 = c_radius (ellipse_cc s).
Proof. intros H1 H2. destruct (radius_at_axes s H1 H2) as (A & _ & _). exact A. Qed.

(* full ring: outer boundary points at exactly the radius, inner ones inside *)
Theorem ring_cc_contains_boundary s k i :
  -90 <= lat (r_center s) <= 90 -> 0 <= r_inner s <= r_outer s -> r_outer s <= PI * Rearth ->
  circle_contains (ring_cc s) (ring_outer_pt s k i) = true /\
  circle_contains (ring_cc s) (ring_inner_pt s k i) = true /\
  hdist (r_center s) (ring_outer_pt s k i) = c_radius (ring_cc s).
Proof.
  intros H1 H2 H3. destruct (ring_pts_on_curve s k i H1 H2 H3) as [O I].
  unfold ring_cc; cbn [c_center c_radius c_holes].
  repeat split; try exact O; apply circle_contains_def; cbn [c_center c_radius c_holes];
    (split; [|intros h []]); [rewrite O|rewrite I]; lra.
Qed.
