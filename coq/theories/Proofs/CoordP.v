(* Proofs about the rational model of Coordinate.__init__ / __eq__ / __hash__ (CoordM.v). *)
From Coq Require Import QArith Qround Qabs Lqa.
From GV Require Import Prelude CoordM.
Open Scope Q_scope.

(* ------------------------------------------------------------------ comparisons *)
Lemma Qltb_true a b : Qltb a b = true -> a < b.
Proof.
  unfold Qltb. intro H. apply negb_true_iff in H.
  destruct (Qlt_le_dec a b) as [L|L]; [exact L|].
  apply Qle_bool_iff in L. congruence.
Qed.

Lemma Qltb_false a b : Qltb a b = false -> b <= a.
Proof.
  unfold Qltb. intro H. apply negb_false_iff in H. now apply Qle_bool_iff.
Qed.

Lemma Qle_bool_false a b : Qle_bool a b = false -> b < a.
Proof.
  intro H. destruct (Qlt_le_dec b a) as [L|L]; [exact L|].
  apply Qle_bool_iff in L. congruence.
Qed.

Lemma lat_ok_true x : lat_ok x = true -> -90 <= x /\ x <= 90.
Proof.
  unfold lat_ok. intro H. apply andb_true_iff in H. destruct H as [A B].
  apply Qle_bool_iff in A, B. split; assumption.
Qed.

Lemma lat_ok_false x : lat_ok x = false -> x < -90 \/ 90 < x.
Proof.
  unfold lat_ok. intro H. apply andb_false_iff in H. destruct H as [A|A];
    apply Qle_bool_false in A; [left|right]; exact A.
Qed.

Lemma lat_ok_intro x : -90 <= x -> x <= 90 -> lat_ok x = true.
Proof.
  intros A B. unfold lat_ok. apply andb_true_iff. split; apply Qle_bool_iff; assumption.
Qed.

Lemma lon_ok_true x : lon_ok x = true -> -180 <= x /\ x <= 180.
Proof.
  unfold lon_ok. intro H. apply andb_true_iff in H. destruct H as [A B].
  apply Qle_bool_iff in A, B. split; assumption.
Qed.

Lemma lon_ok_false x : lon_ok x = false -> x < -180 \/ 180 < x.
Proof.
  unfold lon_ok. intro H. apply andb_false_iff in H. destruct H as [A|A];
    apply Qle_bool_false in A; [left|right]; exact A.
Qed.

Lemma lon_ok_intro x : -180 <= x -> x <= 180 -> lon_ok x = true.
Proof.
  intros A B. unfold lon_ok. apply andb_true_iff. split; apply Qle_bool_iff; assumption.
Qed.

(* ------------------------------------------------------------------ one iteration *)
(* the latitude after one pole iteration, by cases *)
Lemma pole_step_lat lon lat :
  (90 < lat /\ snd (pole_step (lon, lat)) == 180 - lat) \/
  (lat <= 90 /\ snd (pole_step (lon, lat)) == -180 - lat).
Proof.
  unfold pole_step. cbn [snd]. destruct (Qltb 90 lat) eqn:E.
  - left. apply Qltb_true in E. split; [exact E|]. ring.
  - right. apply Qltb_false in E. split; [exact E|]. ring.
Qed.

Lemma pole_step_lon lon lat :
  (lon < 0 /\ fst (pole_step (lon, lat)) = lon + 180) \/
  (0 <= lon /\ fst (pole_step (lon, lat)) = lon - 180).
Proof.
  unfold pole_step. cbn [fst]. destruct (Qltb lon 0) eqn:E.
  - left. apply Qltb_true in E. split; [exact E|reflexivity].
  - right. apply Qltb_false in E. split; [exact E|reflexivity].
Qed.

Lemma wrap_step_cases lon :
  (180 < lon /\ wrap_step lon = lon - 360) \/ (lon <= 180 /\ wrap_step lon = lon + 360).
Proof.
  unfold wrap_step. destruct (Qltb 180 lon) eqn:E.
  - left. apply Qltb_true in E. split; [exact E|reflexivity].
  - right. apply Qltb_false in E. split; [exact E|reflexivity].
Qed.

(* ------------------------------------------------------------------ totality *)
Definition qn (n : nat) : Q := inject_Z (Z.of_nat n).

Lemma qn_S n : qn (S n) == qn n + 1.
Proof.
  unfold qn. rewrite Nat2Z.inj_succ. unfold Z.succ. rewrite inject_Z_plus. reflexivity.
Qed.

Lemma qn_0 : qn 0 == 0.
Proof. reflexivity. Qed.

Lemma qn_nonneg n : 0 <= qn n.
Proof.
  unfold qn. change 0 with (inject_Z 0). rewrite <- Zle_Qle. apply Nat2Z.is_nonneg.
Qed.

Lemma pole_loop_total f : forall lon lat,
  -(90 + 180 * qn f) <= lat -> lat <= 90 + 180 * qn f ->
  exists p, pole_loop f (lon, lat) = Ok p.
Proof.
  induction f as [|f IH]; intros lon lat L U; cbn [pole_loop snd].
  - destruct (lat_ok lat) eqn:E; [eexists; reflexivity|].
    apply lat_ok_false in E. pose proof qn_0. lra.
  - destruct (lat_ok lat) eqn:E; [eexists; reflexivity|].
    apply lat_ok_false in E. pose proof (qn_S f) as HS. pose proof (qn_nonneg f) as HN.
    destruct (pole_step (lon, lat)) as [lon' lat'] eqn:EP.
    pose proof (pole_step_lat lon lat) as HL. rewrite EP in HL. cbn [snd] in HL.
    clear EP. destruct HL as [[H1 H2]|[H1 H2]]; destruct E as [E|E]; apply IH; clear IH; lra.
Qed.

Lemma wrap_loop_total f : forall lon,
  -(180 + 360 * qn f) <= lon -> lon <= 180 + 360 * qn f ->
  exists l, wrap_loop f lon = Ok l.
Proof.
  induction f as [|f IH]; intros lon L U; cbn [wrap_loop].
  - destruct (lon_ok lon) eqn:E; [eexists; reflexivity|].
    apply lon_ok_false in E. pose proof qn_0. lra.
  - destruct (lon_ok lon) eqn:E; [eexists; reflexivity|].
    apply lon_ok_false in E. pose proof (qn_S f) as HS. pose proof (qn_nonneg f) as HN.
    destruct (wrap_step_cases lon) as [[A ->]|[A ->]]; destruct E as [E|E]; apply IH; clear IH; lra.
Qed.

(* the budget formula: n = ceil(|x|/d) + 1 satisfies |x| <= d * n *)
Lemma fuel_bound x d : 0 < d ->
  let n := Z.to_nat (Qceiling (Qabs x / d) + 1) in
  - (d * qn n) <= x /\ x <= d * qn n.
Proof.
  intros Hd n.
  assert (H0 : 0 <= Qabs x / d).
  { apply Qle_shift_div_l; [exact Hd|]. rewrite Qmult_0_l. apply Qabs_nonneg. }
  pose proof (Qle_ceiling (Qabs x / d)) as HC.
  assert (Hc : (0 <= Qceiling (Qabs x / d))%Z).
  { rewrite Zle_Qle. change (inject_Z 0) with 0. lra. }
  assert (Hn : qn n == inject_Z (Qceiling (Qabs x / d)) + 1).
  { unfold qn, n. rewrite Z2Nat.id by lia. rewrite inject_Z_plus. reflexivity. }
  assert (Hx : Qabs x <= d * qn n).
  { rewrite Hn.
    assert (Qabs x == d * (Qabs x / d)) as E by (field; lra).
    rewrite E at 1. apply Qle_trans with (d * inject_Z (Qceiling (Qabs x / d))).
    - apply Qmult_le_l; [exact Hd|exact HC].
    - lra. }
  pose proof (Qle_Qabs x) as A1. pose proof (Qle_Qabs (- x)) as A2.
  rewrite Qabs_opp in A2. split; lra.
Qed.

Lemma norm_total lon lat : exists p, norm lon lat = Ok p.
Proof.
  unfold norm.
  destruct (fuel_bound lat 180 ltac:(lra)) as [A B]. cbv zeta in A, B.
  fold (fuel_pole lat) in A, B.
  pose proof (qn_nonneg (fuel_pole lat)) as N1.
  destruct (pole_loop_total (fuel_pole lat) lon lat) as [[lon1 lat1] ->]; [lra|lra|].
  destruct (fuel_bound lon1 360 ltac:(lra)) as [C D]. cbv zeta in C, D.
  fold (fuel_wrap lon1) in C, D.
  pose proof (qn_nonneg (fuel_wrap lon1)) as N2.
  destruct (wrap_loop_total (fuel_wrap lon1) lon1) as [l ->]; [lra|lra|].
  eexists; reflexivity.
Qed.

(* ------------------------------------------------------------------ range *)
Lemma pole_loop_lat_ok f : forall p q, pole_loop f p = Ok q -> lat_ok (snd q) = true.
Proof.
  induction f as [|f IH]; intros p q; cbn [pole_loop]; destruct (lat_ok (snd p)) eqn:E;
    intro H; try discriminate.
  - injection H as <-. exact E.
  - injection H as <-. exact E.
  - eapply IH; eauto.
Qed.

Lemma wrap_loop_lon_ok f : forall l r, wrap_loop f l = Ok r -> lon_ok r = true.
Proof.
  induction f as [|f IH]; intros l r; cbn [wrap_loop]; destruct (lon_ok l) eqn:E;
    intro H; try discriminate.
  - injection H as <-. exact E.
  - injection H as <-. exact E.
  - eapply IH; eauto.
Qed.

Lemma canon180_range l : -180 <= l -> l <= 180 -> -180 <= canon180 l /\ canon180 l < 180.
Proof.
  intros A B. unfold canon180. destruct (Qeq_bool l 180) eqn:E.
  - split; lra.
  - apply Qeq_bool_neq in E. split; [exact A|].
    destruct (Qlt_le_dec l 180) as [L|L]; [exact L|]. exfalso. apply E. lra.
Qed.

Lemma norm_inv lon lat a b : norm lon lat = Ok (a, b) ->
  exists lon1 lon2, pole_loop (fuel_pole lat) (lon, lat) = Ok (lon1, b) /\
                    wrap_loop (fuel_wrap lon1) lon1 = Ok lon2 /\ a = canon180 lon2.
Proof.
  unfold norm. destruct (pole_loop _ _) as [[lon1 lat1]|] eqn:E1; [|discriminate].
  destruct (wrap_loop _ _) as [lon2|] eqn:E2; [|discriminate].
  intro H. injection H as <- <-. exists lon1, lon2. repeat split; assumption.
Qed.

Lemma norm_range lon lat a b : norm lon lat = Ok (a, b) ->
  (-180 <= a /\ a < 180) /\ (-90 <= b /\ b <= 90).
Proof.
  intro H. apply norm_inv in H. destruct H as (lon1 & lon2 & H1 & H2 & ->).
  apply pole_loop_lat_ok in H1. cbn [snd] in H1. apply lat_ok_true in H1.
  apply wrap_loop_lon_ok in H2. apply lon_ok_true in H2.
  split; [apply canon180_range; tauto|exact H1].
Qed.

(* ------------------------------------------------------------------ canonical values are fixed *)
Lemma pole_loop_fix f p : lat_ok (snd p) = true -> pole_loop f p = Ok p.
Proof. intro H. destruct f; cbn [pole_loop]; rewrite H; reflexivity. Qed.

Lemma wrap_loop_fix f l : lon_ok l = true -> wrap_loop f l = Ok l.
Proof. intro H. destruct f; cbn [wrap_loop]; rewrite H; reflexivity. Qed.

Lemma canon180_fix l : l < 180 -> canon180 l = l.
Proof.
  intro H. unfold canon180. destruct (Qeq_bool l 180) eqn:E; [|reflexivity].
  apply Qeq_bool_eq in E. lra.
Qed.

Lemma norm_fix a b : -180 <= a -> a < 180 -> -90 <= b -> b <= 90 -> norm a b = Ok (a, b).
Proof.
  intros A1 A2 B1 B2. unfold norm.
  rewrite pole_loop_fix by (cbn [snd]; apply lat_ok_intro; assumption).
  rewrite wrap_loop_fix by (apply lon_ok_intro; lra).
  rewrite canon180_fix by exact A2. reflexivity.
Qed.

Lemma norm_idem lon lat a b : norm lon lat = Ok (a, b) -> norm a b = Ok (a, b).
Proof.
  intro H. apply norm_range in H. destruct H as [[A1 A2] [B1 B2]]. now apply norm_fix.
Qed.

(* ------------------------------------------------------------------ same point *)
(* least equivalence (up to == of the components) generated by a full turn in longitude and
   the reflections over the north and the south pole *)
Inductive same_pt : Q * Q -> Q * Q -> Prop :=
| sp_eq p q : fst p == fst q -> snd p == snd q -> same_pt p q
| sp_sym p q : same_pt p q -> same_pt q p
| sp_trans p q r : same_pt p q -> same_pt q r -> same_pt p r
| sp_turn l f : same_pt (l, f) (l + 360, f)
| sp_north l f : same_pt (l, f) (l + 180, 180 - f)
| sp_south l f : same_pt (l, f) (l + 180, -180 - f).

Lemma sp_refl p : same_pt p p.
Proof. apply sp_eq; reflexivity. Qed.

Lemma sp_turn_back l f : same_pt (l, f) (l - 360, f).
Proof.
  apply sp_sym. eapply sp_trans; [apply sp_turn|]. apply sp_eq; cbn; ring.
Qed.

Lemma sp_north_back l f : same_pt (l, f) (l - 180, 180 - f).
Proof.
  eapply sp_trans; [apply sp_north|]. eapply sp_trans; [apply sp_turn_back|].
  apply sp_eq; cbn; ring.
Qed.

Lemma sp_south_back l f : same_pt (l, f) (l - 180, -180 - f).
Proof.
  eapply sp_trans; [apply sp_south|]. eapply sp_trans; [apply sp_turn_back|].
  apply sp_eq; cbn; ring.
Qed.

Lemma pole_step_same lon lat : same_pt (lon, lat) (pole_step (lon, lat)).
Proof.
  unfold pole_step. destruct (Qltb 90 lat), (Qltb lon 0).
  - eapply sp_trans; [apply sp_north|]. apply sp_eq; cbn; ring.
  - eapply sp_trans; [apply sp_north_back|]. apply sp_eq; cbn; ring.
  - eapply sp_trans; [apply sp_south|]. apply sp_eq; cbn; ring.
  - eapply sp_trans; [apply sp_south_back|]. apply sp_eq; cbn; ring.
Qed.

Lemma pole_loop_same f : forall p q, pole_loop f p = Ok q -> same_pt p q.
Proof.
  induction f as [|f IH]; intros p q; cbn [pole_loop]; destruct (lat_ok (snd p));
    intro H; try discriminate.
  - injection H as <-. apply sp_refl.
  - injection H as <-. apply sp_refl.
  - eapply sp_trans; [|apply IH; exact H]. destruct p. apply pole_step_same.
Qed.

Lemma wrap_loop_same f : forall l r b, wrap_loop f l = Ok r -> same_pt (l, b) (r, b).
Proof.
  induction f as [|f IH]; intros l r b; cbn [wrap_loop]; destruct (lon_ok l);
    intro H; try discriminate.
  - injection H as <-. apply sp_refl.
  - injection H as <-. apply sp_refl.
  - eapply sp_trans; [|apply IH; exact H]. unfold wrap_step.
    destruct (Qltb 180 l); [apply sp_turn_back|apply sp_turn].
Qed.

Lemma canon180_same l b : same_pt (l, b) (canon180 l, b).
Proof.
  unfold canon180. destruct (Qeq_bool l 180) eqn:E; [|apply sp_refl].
  apply Qeq_bool_eq in E. eapply sp_trans; [apply sp_turn_back|].
  apply sp_eq; cbn; [rewrite E|]; ring.
Qed.

Lemma norm_same_pt lon lat p : norm lon lat = Ok p -> same_pt (lon, lat) p.
Proof.
  destruct p as [a b]. intro H. apply norm_inv in H.
  destruct H as (lon1 & lon2 & H1 & H2 & ->).
  eapply sp_trans; [eapply pole_loop_same; exact H1|].
  eapply sp_trans; [eapply wrap_loop_same; exact H2|]. apply canon180_same.
Qed.

(* ------------------------------------------------------------------ the constructor *)
Lemma mk_total lon lat z m bd : exists c, mk lon lat z m bd = Ok c.
Proof.
  unfold mk. destruct bd; [|eexists; reflexivity].
  destruct (norm_total lon lat) as [[a b] ->]. eexists; reflexivity.
Qed.

Lemma mk_bounded_spec lon lat z m c : mk lon lat z m true = Ok c ->
  norm lon lat = Ok (clon c, clat c) /\ cz c = z /\ cm c = m.
Proof.
  unfold mk. destruct (norm lon lat) as [[a b]|]; [|discriminate].
  intro H. injection H as <-. cbn. repeat split.
Qed.

Lemma z_survives lon lat z m bd c : mk lon lat z m bd = Ok c -> cz c = z /\ cm c = m.
Proof.
  unfold mk. destruct bd.
  - destruct (norm lon lat) as [[a b]|]; [|discriminate]. intro H. injection H as <-. now cbn.
  - intro H. injection H as <-. now cbn.
Qed.

(* ------------------------------------------------------------------ == and hash *)
Lemma oq_eqb_red a b : oq_eqb a b = true -> option_map Qred a = option_map Qred b.
Proof.
  destruct a, b; cbn; try discriminate; [|reflexivity].
  intro H. apply Qeq_bool_eq in H. f_equal. now apply Qred_complete.
Qed.

Lemma eq_hkey a b : ceqb a b = true -> hkey a = hkey b.
Proof.
  unfold ceqb, hkey. intro H. apply andb_true_iff in H. destruct H as [H Hz].
  apply andb_true_iff in H. destruct H as [Hlat Hlon].
  apply Qeq_bool_eq in Hlat, Hlon.
  rewrite (Qred_complete _ _ Hlat), (Qred_complete _ _ Hlon), (oq_eqb_red _ _ Hz). reflexivity.
Qed.

(* == is exactly equality of (longitude, latitude, z) as numbers, whatever M is *)
Definition oq_eq (a b : option Q) : Prop :=
  match a, b with Some x, Some y => x == y | None, None => True | _, _ => False end.

Lemma ceqb_spec a b :
  ceqb a b = true <-> (clon a == clon b /\ clat a == clat b /\ oq_eq (cz a) (cz b)).
Proof.
  unfold ceqb. rewrite !andb_true_iff, !Qeq_bool_iff.
  assert (oq_eqb (cz a) (cz b) = true <-> oq_eq (cz a) (cz b)) as ->.
  { destruct (cz a), (cz b); cbn; try rewrite Qeq_bool_iff; intuition discriminate. }
  tauto.
Qed.

(* the key hashed before repair D9 separated coordinates that compare equal *)
Lemma eq_hkey_preD9_refuted :
  exists a b, ceqb a b = true /\ hkey_preD9 a <> hkey_preD9 b.
Proof.
  exists (mkc 1 2 None (Some 5)), (mkc 1 2 None (Some 6)). split; [reflexivity|discriminate].
Qed.

(* hash keys agree exactly when == holds: the key carries nothing but what == compares *)
Lemma hkey_eq_ceqb a b : hkey a = hkey b -> ceqb a b = true.
Proof.
  unfold hkey. intro H. injection H as H1 H2 H3. apply ceqb_spec.
  repeat split.
  - rewrite <- (Qred_correct (clon a)), <- (Qred_correct (clon b)), H1. reflexivity.
  - rewrite <- (Qred_correct (clat a)), <- (Qred_correct (clat b)), H2. reflexivity.
  - destruct (cz a) as [x|], (cz b) as [y|]; cbn in *; try discriminate; [|exact I].
    injection H3 as H3. rewrite <- (Qred_correct x), <- (Qred_correct y), H3. reflexivity.
Qed.

(* a pair inside the closed ranges enters neither loop: only the 180 -> -180 step applies *)
Lemma norm_closed_range a b : -180 <= a -> a <= 180 -> -90 <= b -> b <= 90 ->
  norm a b = Ok (canon180 a, b).
Proof.
  intros A1 A2 B1 B2. unfold norm.
  rewrite pole_loop_fix by (cbn [snd]; apply lat_ok_intro; assumption).
  rewrite wrap_loop_fix by (apply lon_ok_intro; assumption). reflexivity.
Qed.

Lemma canon180_cases a : a <= 180 ->
  (a < 180 /\ canon180 a = a) \/ (a == 180 /\ canon180 a = -180).
Proof.
  intro H. unfold canon180. destruct (Qeq_bool a 180) eqn:E.
  - right. apply Qeq_bool_eq in E. split; [exact E|reflexivity].
  - left. apply Qeq_bool_neq in E. split; [|reflexivity].
    destruct (Qlt_le_dec a 180) as [L|L]; [exact L|]. exfalso. apply E. lra.
Qed.
