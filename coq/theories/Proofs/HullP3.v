(* Proofs about the monotone-chain model (HullM.v): from the stack invariant (HullP2.v) to the
   two finished chains, and from the two chains to the ring returned by [hull].
   Stdlib only; no axioms. *)
From Coq Require Import Sorted.
From GV Require Import Prelude HullM HullP HullP2.
Open Scope Z_scope.

(* ------------------------------------------------------------------ more vector facts *)
Lemma hp_strict1 u v w : lexpos u -> lexpos v -> lexpos w ->
  vx u v >= 0 -> vx v w > 0 -> vx u w > 0.
Proof.
  intros Hu Hv Hw H1 H2.
  pose proof (vx_id u v w) as I. pose proof (vy_id u v w) as J.
  unfold lexpos in *.
  destruct Hv as [Hv|[Hv1 Hv2]].
  - destruct Hu as [Hu|[Hu1 Hu2]].
    + assert (fst w >= 0) by lia. nia.
    + unfold vx in *. nia.
  - unfold vx in *. nia.
Qed.

Lemma hp_strict2 u v w : lexpos u -> lexpos v -> lexpos w ->
  vx u v > 0 -> vx v w >= 0 -> vx u w > 0.
Proof.
  intros Hu Hv Hw H1 H2.
  pose proof (vx_id u v w) as I. pose proof (vy_id u v w) as J.
  unfold lexpos in *.
  destruct Hv as [Hv|[Hv1 Hv2]].
  - destruct Hw as [Hw|[Hw1 Hw2]].
    + assert (fst u >= 0) by lia. nia.
    + unfold vx in *. nia.
  - unfold vx in *. nia.
Qed.

Lemma fan4 a u w b : lexpos a -> lexpos u -> lexpos w -> lexpos b ->
  vx a u >= 0 -> vx u w > 0 -> vx w b >= 0 -> vx a b > 0.
Proof.
  intros. apply (hp_strict2 a w b); try assumption.
  apply (hp_strict1 a u w); assumption.
Qed.

Ltac concl_of T := lazymatch T with (_ -> ?B) => concl_of B | _ => T end.
Ltac geo_fin V :=
  unfold lexpos, vx in V; geo_setup;
  let T := type of V in let C := concl_of T in
  let G := fresh "G" in assert (G : C) by (apply V; lia); lia.

(* I: an inner vertex q of a chain that starts at f and ends at z, with neighbours a and b,
   is strictly to the right of f -> z *)
Lemma geoI_lt f a q b z : (f = a \/ lt2 f a) -> lt2 a q -> lt2 q b -> (b = z \/ lt2 b z) ->
  cross a q f >= 0 -> cross q b z >= 0 -> cross a q b > 0 -> cross f z q < 0.
Proof.
  intros Hf H1 H2 Hz C1 C2 C3.
  assert (Hfq : lt2 f q) by (destruct Hf as [->|Hf]; [assumption|eapply lt2_trans; eauto]).
  assert (Hqz : lt2 q z) by (destruct Hz as [<-|Hz]; [assumption|eapply lt2_trans; eauto]).
  clear Hf Hz.
  pose proof (fan4 (fst q - fst f, snd q - snd f) (fst q - fst a, snd q - snd a)
                (fst b - fst q, snd b - snd q) (fst z - fst q, snd z - snd q)) as V.
  geo_fin V.
Qed.

Lemma geoI_gt f a q b z : (f = a \/ gt2 f a) -> gt2 a q -> gt2 q b -> (b = z \/ gt2 b z) ->
  cross a q f >= 0 -> cross q b z >= 0 -> cross a q b > 0 -> cross f z q < 0.
Proof.
  intros Hf H1 H2 Hz C1 C2 C3.
  assert (Hfq : gt2 f q) by (destruct Hf as [->|Hf]; [assumption|unfold gt2 in *; eapply lt2_trans; eauto]).
  assert (Hqz : gt2 q z) by (destruct Hz as [<-|Hz]; [assumption|unfold gt2 in *; eapply lt2_trans; eauto]).
  clear Hf Hz.
  pose proof (fan4 (fst f - fst q, snd f - snd q) (fst a - fst q, snd a - snd q)
                (fst q - fst b, snd q - snd b) (fst q - fst z, snd q - snd z)) as V.
  geo_fin V.
Qed.

(* J: the turn at the common end z of two chains *)
Lemma geoJ_lt f z a q : lt2 f z ->
  (a = f \/ cross f z a < 0) -> (q = f \/ cross z f q < 0) -> lt2 a z -> lt2 q z ->
  ~ (a = f /\ q = f) -> cross a z q > 0.
Proof.
  intros Hfz Ha Hq Haz Hqz Hn.
  pose proof (hp_strict2 (fst z - fst q, snd z - snd q) (fst z - fst f, snd z - snd f)
                (fst z - fst a, snd z - snd a)) as V.
  destruct Ha as [->|Ha]; destruct Hq as [->|Hq].
  - tauto.
  - clear V Hn. geo_setup. lia.
  - clear V Hn. geo_setup. lia.
  - clear Hn. geo_fin V.
Qed.

Lemma geoJ_gt f z a q : gt2 f z ->
  (a = f \/ cross f z a < 0) -> (q = f \/ cross z f q < 0) -> gt2 a z -> gt2 q z ->
  ~ (a = f /\ q = f) -> cross a z q > 0.
Proof.
  intros Hfz Ha Hq Haz Hqz Hn.
  pose proof (hp_strict2 (fst q - fst z, snd q - snd z) (fst f - fst z, snd f - snd z)
                (fst a - fst z, snd a - snd z)) as V.
  destruct Ha as [->|Ha]; destruct Hq as [->|Hq].
  - tauto.
  - clear V Hn. geo_setup. lia.
  - clear V Hn. geo_setup. lia.
  - clear Hn. geo_fin V.
Qed.

(* ------------------------------------------------------------------ consecutive elements of a list *)
Definition Consec2 (T : pt -> pt -> Prop) (l : list pt) : Prop :=
  forall l1 a b l2, l = l1 ++ a :: b :: l2 -> T a b.
Definition Consec3 (T : pt -> pt -> pt -> Prop) (l : list pt) : Prop :=
  forall l1 a b c l2, l = l1 ++ a :: b :: c :: l2 -> T a b c.

Definition left_turn (a b c : pt) : Prop := cross a b c > 0.
Definition Turns : list pt -> Prop := Consec3 left_turn.
Definition left_of_edge (P : pt -> Prop) (a b : pt) : Prop := forall p, P p -> cross a b p >= 0.
Definition Edges (P : pt -> Prop) : list pt -> Prop := Consec2 (left_of_edge P).

Lemma Consec2_tail (T : pt -> pt -> Prop) x l : Consec2 T (x :: l) -> Consec2 T l.
Proof. intros H l1 a b l2 E. apply (H (x :: l1) a b l2). cbn. f_equal. exact E. Qed.

Lemma Consec3_tail (T : pt -> pt -> pt -> Prop) x l : Consec3 T (x :: l) -> Consec3 T l.
Proof. intros H l1 a b c l2 E. apply (H (x :: l1) a b c l2). cbn. f_equal. exact E. Qed.

Lemma Consec3_cons (T : pt -> pt -> pt -> Prop) a m q Z : T a m q -> Consec3 T (m :: q :: Z) -> Consec3 T (a :: m :: q :: Z).
Proof.
  intros Hj H l1 x y z l2 E. destruct l1 as [|h l1]; cbn in E.
  - injection E as -> -> -> _. exact Hj.
  - injection E as _ E. apply (H l1 x y z l2 E).
Qed.

(* two lists overlapping in two elements *)
Lemma Consec3_glue (T : pt -> pt -> pt -> Prop) X a m Y :
  Consec3 T (X ++ [a; m]) -> Consec3 T (a :: m :: Y) -> Consec3 T (X ++ a :: m :: Y).
Proof.
  induction X as [|x X IH]; intros H1 H2; [exact H2|].
  intros l1 p q r l2 E. destruct l1 as [|h l1]; cbn in E.
  - injection E as <- E.
    destruct X as [|x1 [|x2 X]]; cbn in E.
    + injection E as <- <- _. apply (H1 [] x a m []). reflexivity.
    + injection E as <- <- _. apply (H1 [] x x1 a [m]). reflexivity.
    + injection E as <- <- _. apply (H1 [] x x1 x2 (X ++ [a; m])). reflexivity.
  - injection E as _ E. apply (IH (Consec3_tail _ _ _ H1) H2 l1 p q r l2 E).
Qed.

(* two lists overlapping in one element *)
Lemma Consec2_glue (T : pt -> pt -> Prop) X m Y :
  Consec2 T (X ++ [m]) -> Consec2 T (m :: Y) -> Consec2 T (X ++ m :: Y).
Proof.
  induction X as [|x X IH]; intros H1 H2; [exact H2|].
  intros l1 p q l2 E. destruct l1 as [|h l1]; cbn in E.
  - injection E as <- E.
    destruct X as [|x1 X]; cbn in E.
    + injection E as <- _. apply (H1 [] x m []). reflexivity.
    + injection E as <- _. apply (H1 [] x x1 (X ++ [m])). reflexivity.
  - injection E as _ E. apply (IH (Consec2_tail _ _ _ H1) H2 l1 p q l2 E).
Qed.

Lemma rev_decomp3 (st : list pt) l1 a b c l2 :
  rev st = l1 ++ a :: b :: c :: l2 -> st = rev l2 ++ c :: b :: a :: rev l1.
Proof.
  intros E. rewrite <- (rev_involutive st), E, rev_app_distr. cbn.
  rewrite <- !app_assoc. reflexivity.
Qed.

Lemma rev_decomp2 (st : list pt) l1 a b l2 :
  rev st = l1 ++ a :: b :: l2 -> st = rev l2 ++ b :: a :: rev l1.
Proof.
  intros E. rewrite <- (rev_involutive st), E, rev_app_distr. cbn.
  rewrite <- !app_assoc. reflexivity.
Qed.

Lemma Consec3_rev (T : pt -> pt -> pt -> Prop) l : Consec3 T l -> Consec3 (fun a b c => T c b a) (rev l).
Proof. intros H l1 a b c l2 E. apply rev_decomp3 in E. apply (H _ _ _ _ _ E). Qed.

(* one more element at the end *)
Lemma Consec3_snoc (T : pt -> pt -> pt -> Prop) Z b z s : Consec3 T (Z ++ [b; z]) -> T b z s -> Consec3 T (Z ++ [b; z; s]).
Proof.
  intros H Hj.
  assert (G : Consec3 (fun a b c => T c b a) (rev (Z ++ [b; z; s]))).
  { rewrite rev_app_distr. cbn. apply Consec3_cons; [exact Hj|].
    apply Consec3_rev in H. rewrite rev_app_distr in H. exact H. }
  apply Consec3_rev in G. rewrite rev_involutive in G. exact G.
Qed.

(* an inner element has two neighbours *)
Lemma inner_decomp (q : pt) : forall mid f z, In q mid ->
  exists l1 a b l2, f :: mid ++ [z] = l1 ++ a :: q :: b :: l2.
Proof.
  induction mid as [|m mid IH]; intros f z H; [destruct H|].
  destruct H as [->|H].
  - destruct mid as [|m' mid].
    + exists [], f, z, []. reflexivity.
    + exists [], f, m', (mid ++ [z]). reflexivity.
  - destruct (IH m z H) as (l1 & a & b & l2 & E).
    exists (f :: l1), a, b, l2. cbn. f_equal. exact E.
Qed.

Lemma shape_of_ends (l : list pt) a z :
  l <> [] -> hd d0 l = a -> last l d0 = z -> a <> z -> exists mid, l = a :: mid ++ [z].
Proof.
  intros Hne Ha Hz Hd. destruct l as [|x l]; [tauto|]. cbn in Ha. subst x.
  destruct (exists_last (l := l)) as (mid & y & E).
  - intros ->. cbn in Hz. congruence.
  - subst l. exists mid. f_equal. f_equal.
    rewrite app_comm_cons, last_last in Hz. congruence.
Qed.

Lemma NoDup_app2 (A B : list pt) :
  NoDup A -> NoDup B -> (forall x, In x A -> In x B -> False) -> NoDup (A ++ B).
Proof.
  induction 1 as [|a A Ha HA IH]; intros HB Hd; [exact HB|].
  cbn. constructor.
  - intros H. apply in_app_or in H. destruct H as [H|H]; [tauto|].
    apply (Hd a); [left; reflexivity|exact H].
  - apply IH; [exact HB|]. intros x H1 H2. apply (Hd x); [right; exact H1|exact H2].
Qed.

(* ------------------------------------------------------------------ sorted lists *)
Lemma sorted_snoc (R : pt -> pt -> Prop) l x :
  StronglySorted R l -> (forall y, In y l -> R y x) -> StronglySorted R (l ++ [x]).
Proof.
  induction 1 as [|a l Hs IH Hf]; intros Hx; cbn.
  - constructor; constructor.
  - constructor.
    + apply IH. intros y Hy. apply Hx. right; exact Hy.
    + apply Forall_forall. intros y Hy. apply in_app_or in Hy. destruct Hy as [Hy|[<-|[]]].
      * rewrite Forall_forall in Hf. auto.
      * apply Hx. left; reflexivity.
Qed.

Lemma sorted_rev (R : pt -> pt -> Prop) l :
  StronglySorted R l -> StronglySorted (fun x y => R y x) (rev l).
Proof.
  induction 1 as [|a l Hs IH Hf]; cbn; [constructor|].
  apply sorted_snoc; [exact IH|].
  rewrite Forall_forall in Hf. intros y Hy. apply Hf. apply in_rev. exact Hy.
Qed.

Section Sorted.
  Variable R : pt -> pt -> Prop.
  Variable R_trans : forall a b c, R a b -> R b c -> R a c.
  Variable R_irrefl : forall a, ~ R a a.

  Lemma sorted_NoDup l : StronglySorted R l -> NoDup l.
  Proof.
    induction 1 as [|a l Hs IH Hf]; constructor; [|exact IH].
    rewrite Forall_forall in Hf. intros H. apply (R_irrefl a). apply Hf, H.
  Qed.

  Lemma sorted_app_lt l1 l2 x y :
    StronglySorted R (l1 ++ l2) -> In x l1 -> In y l2 -> R x y.
  Proof.
    induction l1 as [|a l1 IH]; intros Hs Hx Hy; [destruct Hx|].
    cbn in Hs. inversion Hs as [|? ? Hs' Hf]; subst. destruct Hx as [->|Hx].
    - rewrite Forall_forall in Hf. apply Hf. apply in_or_app. auto.
    - apply IH; assumption.
  Qed.

  Lemma sorted_consec l1 a b l2 : StronglySorted R (l1 ++ a :: b :: l2) -> R a b.
  Proof.
    intros H. apply (sorted_app_lt (l1 ++ [a]) (b :: l2)).
    - rewrite <- app_assoc. exact H.
    - apply in_or_app. right. left. reflexivity.
    - left. reflexivity.
  Qed.

  Lemma sorted_hd_min x l p : StronglySorted R (x :: l) -> In p (x :: l) -> p = x \/ R x p.
  Proof.
    intros Hs [->|Hp]; [auto|]. right. inversion Hs as [|? ? _ Hf]; subst.
    rewrite Forall_forall in Hf. auto.
  Qed.

  Lemma sorted_last_max l p : StronglySorted R l -> In p l -> p = last l d0 \/ R p (last l d0).
  Proof.
    intros Hs Hp. destruct (exists_last (l := l)) as (l' & z & ->).
    - intros ->. destruct Hp.
    - rewrite last_last. apply in_app_or in Hp. destruct Hp as [Hp|[<-|[]]]; [|auto].
      right. apply (sorted_app_lt l' [z]); [exact Hs|exact Hp|left; reflexivity].
  Qed.
End Sorted.

(* ------------------------------------------------------------------ a finished chain *)
(* [ch] runs from f to z in R-increasing order, turns strictly left at every inner vertex, has
   every point of S on or to the left of each of its edges, and only uses points of S *)
Record CChain (R : pt -> pt -> Prop) (S : pt -> Prop) (f z : pt) (ch : list pt) : Prop := {
  cc_turns : Turns ch;
  cc_edges : Edges S ch;
  cc_sorted : StronglySorted R ch;
  cc_mem : forall y, In y ch -> S y;
  cc_shape : exists mid, ch = f :: mid ++ [z]
}.

Section ChainFacts.
  Variable R : pt -> pt -> Prop.
  Variable R_trans : forall a b c, R a b -> R b c -> R a c.
  Variable R_irrefl : forall a, ~ R a a.
  Variable R_total : forall a b, R a b \/ a = b \/ R b a.
  Variable geoT : forall o b c p, R o b -> R o c -> (p = o \/ R o p) ->
    cross o b p >= 0 -> cross o b c <= 0 -> cross o c p >= 0.
  Variable geoA : forall p q r s, R p q -> R q r -> R r s ->
    cross p q r > 0 -> cross q r s >= 0 -> cross p q s > 0.
  Variable geoB : forall a b c p, R a b -> R b c -> R p b ->
    cross a b p >= 0 -> cross a b c > 0 -> cross b c p >= 0.
  Variable geoI : forall f a q b z, (f = a \/ R f a) -> R a q -> R q b -> (b = z \/ R b z) ->
    cross a q f >= 0 -> cross q b z >= 0 -> cross a q b > 0 -> cross f z q < 0.

  Lemma chain_cchain x l :
    StronglySorted R (x :: l) -> l <> [] ->
    CChain R (fun p => In p (x :: l)) x (last (x :: l) d0) (chain (x :: l)).
  Proof.
    intros Hs Hl.
    pose proof (chain_stack_inv R R_trans R_irrefl R_total geoT geoA geoB x l Hs) as HI.
    unfold chain. remember (chain_stack (x :: l)) as st eqn:Est in *. clear Est.
    destruct HI as [Hne Ht Hd He Htop Hbot Hmem].
    remember (x :: l) as s eqn:Es in *.
    assert (Hx : In x s) by (subst s; left; reflexivity).
    assert (Hz : In (last s d0) s) by (apply last_In; subst s; discriminate).
    (* the bottom of the stack is the first point, the top is the last *)
    assert (Ebot : last st d0 = x).
    { assert (Hin : In (last st d0) s) by (apply Hmem, last_In, Hne).
      destruct (Hbot x Hx) as [E|Hr]; [auto|].
      rewrite Es in Hs, Hin.
      destruct (sorted_hd_min R x l _ Hs Hin) as [E|Hr']; [auto|].
      exfalso. apply (R_irrefl x). eapply R_trans; eauto. }
    assert (Etop : hd d0 st = last s d0).
    { assert (Hin : In (hd d0 st) s).
      { apply Hmem. destruct st; [tauto|left; reflexivity]. }
      destruct (Htop _ Hz) as [E|Hr]; [auto|].
      destruct (sorted_last_max R s _ Hs Hin) as [E|Hr']; [auto|].
      exfalso. apply (R_irrefl (hd d0 st)). eapply R_trans; eauto. }
    constructor.
    - intros l1 a b c l2 E. apply rev_decomp3 in E. apply (Ht _ _ _ _ _ E).
    - intros l1 a b l2 E p Hp. apply rev_decomp2 in E. apply (He _ _ _ _ E p Hp).
    - apply sorted_rev in Hd. exact Hd.
    - intros y Hy. apply Hmem. apply in_rev. exact Hy.
    - apply shape_of_ends.
      + intros E. apply Hne. rewrite <- (rev_involutive st), E. reflexivity.
      + rewrite <- Ebot. destruct (exists_last Hne) as (st' & t & ->).
        rewrite rev_app_distr, last_last. reflexivity.
      + rewrite <- Etop. destruct st as [|t st']; [tauto|]. cbn [rev hd].
        rewrite last_last. reflexivity.
      + (* first <> last because l is not empty *)
        intros E. destruct l as [|y l']; [tauto|]. subst s.
        assert (Hy : In (last (x :: y :: l') d0) (y :: l')).
        { change (last (x :: y :: l') d0) with (last (y :: l') d0).
          apply last_In. discriminate. }
        inversion Hs as [|? ? _ Hf]. rewrite Forall_forall in Hf.
        apply (R_irrefl x). rewrite E at 2. apply Hf, Hy.
  Qed.

  (* inner vertices are strictly to the right of the segment from the first to the last vertex *)
  Lemma cchain_inner S f z mid :
    CChain R S f z (f :: mid ++ [z]) -> S f -> S z ->
    (forall p, S p -> p = f \/ R f p) -> (forall p, S p -> p = z \/ R p z) ->
    forall q, In q mid -> cross f z q < 0.
  Proof.
    intros [Ht He Hs Hm _] Sf Sz Hmin Hmax q Hq.
    destruct (inner_decomp q mid f z Hq) as (l1 & a & b & l2 & E).
    assert (Sa : S a). { apply Hm. rewrite E. apply in_or_app. right. left. reflexivity. }
    assert (Sb : S b). { apply Hm. rewrite E. apply in_or_app. right. right. right. left. reflexivity. }
    apply (geoI f a q b z).
    - destruct (Hmin a Sa); auto.
    - rewrite E in Hs. apply (sorted_consec R l1 a q (b :: l2) Hs).
    - rewrite E in Hs. apply (sorted_consec R (l1 ++ [a]) q b l2).
      rewrite <- app_assoc. exact Hs.
    - destruct (Hmax b Sb); auto.
    - apply (He l1 a q (b :: l2) E f Sf).
    - apply (He (l1 ++ [a]) q b l2); [rewrite <- app_assoc; exact E|exact Sz].
    - apply (Ht l1 a q b l2 E).
  Qed.
End ChainFacts.

Lemma gt2_trans a b c : gt2 a b -> gt2 b c -> gt2 a c.
Proof. unfold gt2. intros. eapply lt2_trans; eauto. Qed.
Lemma gt2_irrefl a : ~ gt2 a a.
Proof. apply lt2_irrefl. Qed.
Lemma gt2_total a b : gt2 a b \/ a = b \/ gt2 b a.
Proof. unfold gt2. destruct (lt2_total a b) as [?|[?|?]]; auto. Qed.

Definition lower_cchain := chain_cchain lt2 lt2_trans lt2_irrefl lt2_total geoT_lt geoA_lt geoB_lt.
Definition upper_cchain := chain_cchain gt2 gt2_trans gt2_irrefl gt2_total geoT_gt geoA_gt geoB_gt.
Definition lower_inner := cchain_inner lt2 geoI_lt.
Definition upper_inner := cchain_inner gt2 geoI_gt.
