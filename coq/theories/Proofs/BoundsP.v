From GV Require Import Prelude ShapeM ShapeP BoundsM.
Open Scope Z_scope.

(* the bounds are EXACTLY the minimum and maximum of the vertices: every vertex is within
   them and every bound is attained by some vertex *)
Lemma bounds_exact vs r : bounds_of vs = Ok r ->
  (forall v, In v vs -> b_minlon r <= fst v <= b_maxlon r /\ b_minlat r <= snd v <= b_maxlat r) /\
  (exists v, In v vs /\ fst v = b_minlon r) /\ (exists v, In v vs /\ snd v = b_minlat r) /\
  (exists v, In v vs /\ fst v = b_maxlon r) /\ (exists v, In v vs /\ snd v = b_maxlat r).
Proof.
  unfold bounds_of.
  destruct (minl (map fst vs)) as [a|] eqn:E1; [|discriminate].
  destruct (minl (map snd vs)) as [b|] eqn:E2; [|discriminate].
  destruct (maxl (map fst vs)) as [c|] eqn:E3; [|discriminate].
  destruct (maxl (map snd vs)) as [d|] eqn:E4; [|discriminate].
  intros H; injection H as <-. cbn.
  apply minl_spec in E1, E2. apply maxl_spec in E3, E4.
  destruct E1 as [I1 L1], E2 as [I2 L2], E3 as [I3 L3], E4 as [I4 L4].
  split; [|repeat split].
  - intros v Hv. repeat split.
    + apply L1, in_map, Hv.
    + apply L3, in_map, Hv.
    + apply L2, in_map, Hv.
    + apply L4, in_map, Hv.
  - apply in_map_iff in I1. destruct I1 as [x [E Hx]]. exists x. auto.
  - apply in_map_iff in I2. destruct I2 as [x [E Hx]]. exists x. auto.
  - apply in_map_iff in I3. destruct I3 as [x [E Hx]]. exists x. auto.
  - apply in_map_iff in I4. destruct I4 as [x [E Hx]]. exists x. auto.
Qed.

Lemma bounds_defined v vs : exists r, bounds_of (v :: vs) = Ok r.
Proof. unfold bounds_of. cbn. eexists. reflexivity. Qed.

Lemma bounds_empty : bounds_of [] = Err ValueError.
Proof. reflexivity. Qed.

(* order / multiplicity of the vertices is irrelevant: bounds depend on the vertex SET *)
Lemma bounds_same_set vs ws r s :
  (forall v, In v vs <-> In v ws) -> bounds_of vs = Ok r -> bounds_of ws = Ok s -> r = s.
Proof.
  intros S Hr Hs. apply bounds_exact in Hr, Hs.
  destruct Hr as [R0 [[v1 [I1 E1]] [[v2 [I2 E2]] [[v3 [I3 E3]] [v4 [I4 E4]]]]]].
  destruct Hs as [S0 [[w1 [J1 F1]] [[w2 [J2 F2]] [[w3 [J3 F3]] [w4 [J4 F4]]]]]].
  destruct r as [[[a b] c] d], s as [[[a' b'] c'] d']. cbn in *.
  pose proof (S0 _ (proj1 (S _) I1)). pose proof (S0 _ (proj1 (S _) I2)).
  pose proof (S0 _ (proj1 (S _) I3)). pose proof (S0 _ (proj1 (S _) I4)).
  pose proof (R0 _ (proj2 (S _) J1)). pose proof (R0 _ (proj2 (S _) J2)).
  pose proof (R0 _ (proj2 (S _) J3)). pose proof (R0 _ (proj2 (S _) J4)).
  repeat f_equal; lia.
Qed.

Lemma point_bounds_exact p : bounds_of [p] = Ok (point_bounds p).
Proof. reflexivity. Qed.

(* the circumscribing rectangle has exactly the shape's bounds *)
Lemma rect_has_bounds b : let '(nw, se) := rect_of_bounds b in box_bounds nw se = b.
Proof. destruct b as [[[a b'] c] d]. reflexivity. Qed.

(* a box's bounds are the min/max of its corner ring, for a well-oriented box *)
Lemma box_bounds_exact nw se : fst nw <= fst se -> snd se <= snd nw ->
  bounds_of (box_corners nw se) = Ok (box_bounds nw se).
Proof.
  intros H1 H2. destruct nw as [x1 y1], se as [x2 y2]. cbn in *.
  unfold bounds_of, box_bounds. cbn. repeat f_equal; lia.
Qed.

(* union over several vertex lists = bounds of the concatenation (multi-shapes, collections) *)
Lemma bounds_concat_union (vss : list (list pt)) bs r s :
  Forall2 (fun vs b => bounds_of vs = Ok b) vss bs ->
  multi_bounds bs = Ok r -> bounds_of (concat vss) = Ok s -> r = s.
Proof.
  intros F Hr Hs. apply multi_bounds_union in Hr. apply bounds_exact in Hs.
  destruct Hr as [R0 [[b1 [I1 E1]] [[b2 [I2 E2]] [[b3 [I3 E3]] [b4 [I4 E4]]]]]].
  destruct Hs as [S0 [[w1 [J1 F1]] [[w2 [J2 F2]] [[w3 [J3 F3]] [w4 [J4 F4]]]]]].
  (* every vertex of the concatenation belongs to some member whose bounds are in bs *)
  assert (A : forall v, In v (concat vss) -> exists vs b, In v vs /\ In b bs /\ bounds_of vs = Ok b).
  { intros v Hv. apply in_concat in Hv. destruct Hv as [vs [Hvs Hv]].
    clear -F Hvs Hv. induction F as [|x y l l' Hxy F IH]; [destruct Hvs|].
    destruct Hvs as [->|Hvs].
    - exists vs, y. cbn. auto.
    - destruct (IH Hvs) as [vs' [b [? [? ?]]]]. exists vs', b. cbn. auto. }
  (* every member's bound is attained by a vertex of the concatenation *)
  assert (B : forall b, In b bs -> exists vs, In vs vss /\ bounds_of vs = Ok b).
  { intros b Hb. clear -F Hb. induction F as [|x y l l' Hxy F IH]; [destruct Hb|].
    destruct Hb as [->|Hb]; [exists x; cbn; auto|].
    destruct (IH Hb) as [vs [? ?]]. exists vs. cbn. auto. }
  assert (lo : forall v, In v (concat vss) ->
            b_minlon r <= fst v <= b_maxlon r /\ b_minlat r <= snd v <= b_maxlat r).
  { intros v Hv. destruct (A v Hv) as [vs [b [Hv' [Hb Eb]]]].
    apply bounds_exact in Eb. destruct Eb as [Eb _]. specialize (Eb v Hv').
    specialize (R0 b Hb). lia. }
  assert (att : forall b, In b bs -> forall (f : bnd -> Z) (g : pt -> Z),
            True -> True). { auto. }
  clear att.
  (* attained bounds of r come from a member, whose bounds are attained by a vertex *)
  assert (Xmin : exists v, In v (concat vss) /\ fst v = b_minlon r).
  { destruct (B b1 I1) as [vs [Hvs Eb]]. apply bounds_exact in Eb.
    destruct Eb as [_ [[v [Hv Ev]] _]]. exists v. split; [apply in_concat; eauto|congruence]. }
  assert (Ymin : exists v, In v (concat vss) /\ snd v = b_minlat r).
  { destruct (B b2 I2) as [vs [Hvs Eb]]. apply bounds_exact in Eb.
    destruct Eb as [_ [_ [[v [Hv Ev]] _]]]. exists v. split; [apply in_concat; eauto|congruence]. }
  assert (Xmax : exists v, In v (concat vss) /\ fst v = b_maxlon r).
  { destruct (B b3 I3) as [vs [Hvs Eb]]. apply bounds_exact in Eb.
    destruct Eb as [_ [_ [_ [[v [Hv Ev]] _]]]]. exists v. split; [apply in_concat; eauto|congruence]. }
  assert (Ymax : exists v, In v (concat vss) /\ snd v = b_maxlat r).
  { destruct (B b4 I4) as [vs [Hvs Eb]]. apply bounds_exact in Eb.
    destruct Eb as [_ [_ [_ [_ [v [Hv Ev]]]]]]. exists v. split; [apply in_concat; eauto|congruence]. }
  destruct Xmin as [x1 [X1 X1']], Ymin as [x2 [X2 X2']], Xmax as [x3 [X3 X3']], Ymax as [x4 [X4 X4']].
  pose proof (S0 _ X1). pose proof (S0 _ X2). pose proof (S0 _ X3). pose proof (S0 _ X4).
  pose proof (lo _ J1). pose proof (lo _ J2). pose proof (lo _ J3). pose proof (lo _ J4).
  destruct r as [[[a b] c] d], s as [[[a' b'] c'] d']. cbn in *.
  repeat f_equal; lia.
Qed.

(* ---- centroid + farthest vertex circles ---- *)
Section FarP.
  Variable V : Type.
  Variable dist : V -> V -> Z.

  Lemma far_circle_encloses c vs r : far_radius V dist c vs = Ok r ->
    (forall v, In v vs -> circle_contains V dist c r v = true) /\
    (exists v, In v vs /\ dist v c = r).
  Proof.
    unfold far_radius, circle_contains. intros H. apply maxl_spec in H. destruct H as [I L].
    split.
    - intros v Hv. apply Z.leb_le. apply L. apply in_map_iff. exists v. auto.
    - apply in_map_iff in I. destruct I as [v [E Hv]]. exists v. auto.
  Qed.

  (* no smaller radius about the same centre encloses all vertices *)
  Lemma far_circle_minimal c vs r r' : far_radius V dist c vs = Ok r ->
    (forall v, In v vs -> circle_contains V dist c r' v = true) -> r <= r'.
  Proof.
    intros H A. apply far_circle_encloses in H. destruct H as [_ [v [Hv E]]].
    specialize (A v Hv). unfold circle_contains in A. apply Z.leb_le in A. lia.
  Qed.

  Lemma far_radius_defined c v vs : exists r, far_radius V dist c (v :: vs) = Ok r.
  Proof. unfold far_radius. cbn. eexists. reflexivity. Qed.

  (* GeoBox: the circle through the NW corner encloses exactly the corners that are not
     farther from the centroid than the NW corner (D10: away from the equator the
     equator-side corners ARE farther) *)
  Lemma box_circle_encloses_partial c nw v :
    dist v c <= dist nw c -> circle_contains V dist c (box_radius V dist c nw) v = true.
  Proof. unfold circle_contains, box_radius. intros H. apply Z.leb_le. exact H. Qed.

  Lemma box_circle_refuted_if c nw v :
    dist nw c < dist v c -> circle_contains V dist c (box_radius V dist c nw) v = false.
  Proof. unfold circle_contains, box_radius. intros H. apply Z.leb_gt. exact H. Qed.
End FarP.
