(* C09, last clause, WEDGES: the longitude part.  At angular radius e about a centre of latitude phi the
   longitude offset of the curve point at bearing t is atan (z t),
        z t = sin t * sin e / G t,    G t = M - B cos t,   M = cos phi cos e,  B = sin phi sin e
   (BoundsCurveP4.lon_offset_eq).  For t between two consecutive samples t-u and t+v let W be the larger of
   z (t-u), z (t+v).  From  sin (t-+..) * sin e = z * G <= W * G  and the two weighted identities of
   BoundsCurveP7 (weighted_sin, weighted_cos):
        sin e * sin (u+v) * sin t <= W * (M * (sin u + sin v) - B * sin (u+v) * cos t)
   i.e.  (z t - W) * G t * sin (u+v) <= W * M * (sin u + sin v - sin (u+v)) <= W * M * 0.0039 * sin (u+v).
   With W <= tan (half-extent) (BoundsCurveP4.z_le_b, Cauchy-Schwarz) and M <= 1.01 G this gives
   cos phi * (z t - W) <= 0.00394 e; atan is 1-Lipschitz.  No case analysis on the position of the extreme
   bearing, no derivative. *)
From GV Require Import Prelude SphereM SphereP1 SphereP2 SphereP3 SphereP5 CurveM CurveP BoundsCurveM
  BoundsCurveP2 BoundsCurveP3 BoundsCurveP4 BoundsCurveP5 BoundsCurveP6 BoundsWedgeM BoundsCurveP7.
From Coq Require Import Reals Lra Lia.
Open Scope R_scope.

(* atan is 1-Lipschitz on the whole line (one-sided form) *)
Lemma atan_sub_le v u : v <= u -> atan u - atan v <= u - v.
Proof.
  intros H. destruct (Rle_or_lt 0 v) as [Pv|Nv].
  - apply (atan_lip_ordered v u). lra.
  - destruct (Rle_or_lt u 0) as [Nu|Pu].
    + destruct (atan_lip_ordered (- u) (- v) ltac:(lra)) as [_ K]. rewrite !atan_opp in K. lra.
    + pose proof (atan_le_x u ltac:(lra)) as A. pose proof (atan_le_x (- v) ltac:(lra)) as B.
      rewrite atan_opp in B. lra.
Qed.

Section WLon.
  Variables phi e : R.
  Hypothesis Hc : cmin <= cos phi <= 1.
  Hypothesis He : 0 <= e <= emax.

  Let Hc' : 2588 / 10000 <= cos phi <= 1. Proof. exact Hc. Qed.
  Let He' : 0 <= e <= 157 / 100000. Proof. exact He. Qed.
  Let Hs : -1 <= sin phi <= 1. Proof. apply SIN_bound. Qed.
  Let Hse : 0 <= sin e <= e.
  Proof. split; [apply sin_ge_0; pose proof PI_gt_3; lra|apply sin_le_x; lra]. Qed.
  Let Hce : 999 / 1000 <= cos e <= 1.
  Proof. pose proof (cos_ge_quad e). pose proof (cos_le_1 e). split; [nra|lra]. Qed.

  (* the tangent of the longitude offset at bearing t *)
  Definition ztan (t : R) : R := sin t * sin e / (cos phi * cos e - sin phi * sin e * cos t).

  Lemma ztan_G t : ztan t * (cos phi * cos e - sin phi * sin e * cos t) = sin t * sin e.
  Proof. pose proof (G_pos phi e Hc He t). unfold ztan. field. lra. Qed.

  Lemma ztan_neg t : ztan (- t) = - ztan t.
  Proof. pose proof (G_pos phi e Hc He t). unfold ztan. rewrite sin_neg, cos_neg. field. lra. Qed.

  Lemma z_sample t u v :
    0 <= u -> 0 <= v -> 0 < u + v <= 175 / 1000 ->
    cos phi * (ztan t - ztan (t - u)) <= e / 100 \/ cos phi * (ztan t - ztan (t + v)) <= e / 100.
  Proof.
    intros Hu Hv [Hh0 Hh]. pose proof PI_gt_3 as P3.
    destruct (rho_bound u v Hu Hv Hh) as [R0 R1].
    assert (Su : 0 <= sin u) by (apply sin_ge_0; lra).
    assert (Sv : 0 <= sin v) by (apply sin_ge_0; lra).
    assert (Sh : 0 < sin (u + v)) by (apply sin_gt_0; lra).
    pose proof (G_pos phi e Hc He t) as G0. pose proof (G_pos phi e Hc He (t - u)) as Gm0.
    pose proof (G_pos phi e Hc He (t + v)) as Gp0.
    pose proof (ztan_G t) as Ea. pose proof (ztan_G (t - u)) as Em. pose proof (ztan_G (t + v)) as Ep.
    pose proof (z_le_b phi e Hc He (t - u)) as Bm. pose proof (z_le_b phi e Hc He (t + v)) as Bp.
    fold (ztan (t - u)) in Bm. fold (ztan (t + v)) in Bp.
    destruct (cb_bounds (sin phi) (cos phi) e Hs Hc He) as [_ CB].
    set (b := sin e / cos phi / sqrt (1 - (sin e / cos phi)²)) in *.
    set (M := cos phi * cos e) in *. set (B := sin phi * sin e) in *.
    set (Gt := M - B * cos t) in *. set (Gm := M - B * cos (t - u)) in *. set (Gp := M - B * cos (t + v)) in *.
    set (a := ztan t) in *. set (am := ztan (t - u)) in *. set (ap := ztan (t + v)) in *.
    set (W := Rmax am ap).
    pose proof (Rmax_l am ap) as W1. pose proof (Rmax_r am ap) as W2. fold W in W1, W2.
    assert (Wb : W <= b) by (unfold W; apply Rmax_lub; assumption).
    set (h := u + v) in *. set (D := sin u + sin v - sin h) in *.
    assert (K1 : sin (t - u) * sin e <= W * Gm) by (rewrite <- Em; apply Rmult_le_compat_r; lra).
    assert (K2 : sin (t + v) * sin e <= W * Gp) by (rewrite <- Ep; apply Rmult_le_compat_r; lra).
    assert (GG : sin v * Gm + sin u * Gp = M * (sin h + D) - B * (sin h * cos t)).
    { unfold Gm, Gp, D, h. rewrite <- (weighted_cos t u v). ring. }
    pose proof (weighted_sin t u v) as WS. fold h in WS.
    assert (K : sin e * (sin h * sin t) <= W * (sin v * Gm + sin u * Gp)).
    { rewrite <- WS.
      assert (sin v * (sin (t - u) * sin e) <= sin v * (W * Gm)) by (apply Rmult_le_compat_l; lra).
      assert (sin u * (sin (t + v) * sin e) <= sin u * (W * Gp)) by (apply Rmult_le_compat_l; lra).
      lra. }
    rewrite GG in K.
    (* (a - W) * Gt * sin h <= W * M * D *)
    assert (K' : (a - W) * (Gt * sin h) <= W * (M * D)).
    { assert (Ea' : sin e * (sin h * sin t) = a * (Gt * sin h)) by (rewrite <- (Rmult_assoc a), Ea; ring).
      rewrite Ea' in K. unfold Gt in K |- *. nra. }
    assert (M0 : 1 / 4 < M) by (unfold M; nra).
    assert (MG : M <= 101 / 100 * Gt).
    { assert (- e <= B <= e) by (unfold B; nra). pose proof (COS_bound t) as [C1 C2].
      assert (- e <= B * cos t <= e) by nra. unfold Gt. lra. }
    assert (GS : 0 < Gt * sin h) by (apply Rmult_lt_0_compat; lra).
    assert (Goal' : cos phi * (a - W) <= e / 100).
    { destruct (Rle_or_lt W 0) as [Wn|Wp].
      - assert (W * (M * D) <= 0).
        { assert (0 <= M * D) by (apply Rmult_le_pos; lra). nra. }
        assert (a - W <= 0).
        { destruct (Rle_or_lt (a - W) 0) as [L|L]; [exact L|exfalso].
          assert (0 < (a - W) * (Gt * sin h)) by (apply Rmult_lt_0_compat; assumption). lra. }
        nra.
      - (* (a - W) Gt sin h <= b M 0.0039 sin h *)
        assert (Q1 : W * (M * D) <= b * (M * (39 / 10000 * sin h))).
        { apply Rmult_le_compat; [lra| |exact Wb|].
          - apply Rmult_le_pos; lra.
          - apply Rmult_le_compat_l; lra. }
        assert (Q2 : (a - W) * Gt <= 39 / 10000 * (b * M)).
        { apply (Rmult_le_reg_r (sin h)); [exact Sh|]. lra. }
        assert (b0 : 0 < b) by lra.
        assert (Q3 : cos phi * ((a - W) * Gt) <= 39 / 10000 * ((cos phi * b) * M)).
        { replace (39 / 10000 * ((cos phi * b) * M)) with (cos phi * (39 / 10000 * (b * M))) by ring.
          apply Rmult_le_compat_l; lra. }
        assert (Q4 : cos phi * b * M <= 100011 / 100000 * e * (101 / 100 * Gt)).
        { apply Rmult_le_compat; [|lra|exact CB|exact MG]. apply Rmult_le_pos; lra. }
        apply (Rmult_le_reg_r Gt); [lra|].
        assert (0 <= e * Gt) by (apply Rmult_le_pos; lra).
        lra. }
    unfold W, Rmax in Goal'. destruct (Rle_dec am ap); [right|left]; exact Goal'.
  Qed.

  Lemma z_sample_min t u v :
    0 <= u -> 0 <= v -> 0 < u + v <= 175 / 1000 ->
    cos phi * (ztan (t - u) - ztan t) <= e / 100 \/ cos phi * (ztan (t + v) - ztan t) <= e / 100.
  Proof.
    intros Hu Hv Hh.
    destruct (z_sample (- t) v u Hv Hu ltac:(lra)) as [H|H]; [right|left].
    - replace (- t - v) with (- (t + v)) in H by ring. rewrite !ztan_neg in H. lra.
    - replace (- t + u) with (- (t - u)) in H by ring. rewrite !ztan_neg in H. lra.
  Qed.

  (* from tangents to longitude offsets *)
  Lemma lon_step t t' :
    cos phi * (ztan t - ztan t') <= e / 100 ->
    cos phi * (lon_offset phi e t - lon_offset phi e t') <= e / 100.
  Proof.
    intros H. rewrite !(lon_offset_eq phi e Hc He). fold (ztan t) (ztan t').
    destruct (Rle_or_lt (ztan t') (ztan t)) as [L|L].
    - pose proof (atan_sub_le _ _ L). nra.
    - pose proof (atan_increasing _ _ L). nra.
  Qed.
End WLon.

(* ------------------------------------------------------------------ every arc longitude is matched by a sample *)
Section WedgeLon.
  Variable s : ring.
  Variable k : nat.
  Hypothesis Hlat : Rabs (lat (r_center s)) <= 75.
  Hypothesis Hk : (1 <= k)%nat.
  Hypothesis Hspan : 0 < r_amax s - r_amin s.
  Hypothesis Hstep : (r_amax s - r_amin s) / INR k <= 10.

  Lemma arc_lon_sampled_max r t :
    0 <= r <= 10000 -> on_arc s t ->
    exists i, (i <= k)%nat /\
      cos (rad (lat (r_center s))) *
        (curve_lon (r_center s) r t - curve_lon (r_center s) r (ring_angle s k i)) <= r / Rearth / 100.
  Proof.
    intros Hr Ht. destruct (centre_facts' _ Hlat) as (Hc & _). pose proof (radius_facts r Hr) as He.
    destruct (arc_bracket s k t Hk Ht) as (j & u & v & Hj & Hu & Hv & Huv & Ej & ESj).
    pose proof (wedge_step_bounds s k Hk Hspan Hstep) as Hh. rewrite <- Huv in Hh.
    unfold curve_lon. rewrite lon_of_dest'.
    destruct (z_sample _ _ Hc He t u v Hu Hv Hh) as [H|H].
    - exists j. split; [lia|]. rewrite lon_of_dest', Ej.
      pose proof (lon_step _ _ Hc He _ _ H). lra.
    - exists (S j). split; [lia|]. rewrite lon_of_dest', ESj.
      pose proof (lon_step _ _ Hc He _ _ H). lra.
  Qed.

  Lemma arc_lon_sampled_min r t :
    0 <= r <= 10000 -> on_arc s t ->
    exists i, (i <= k)%nat /\
      cos (rad (lat (r_center s))) *
        (curve_lon (r_center s) r (ring_angle s k i) - curve_lon (r_center s) r t) <= r / Rearth / 100.
  Proof.
    intros Hr Ht. destruct (centre_facts' _ Hlat) as (Hc & _). pose proof (radius_facts r Hr) as He.
    destruct (arc_bracket s k t Hk Ht) as (j & u & v & Hj & Hu & Hv & Huv & Ej & ESj).
    pose proof (wedge_step_bounds s k Hk Hspan Hstep) as Hh. rewrite <- Huv in Hh.
    unfold curve_lon. rewrite lon_of_dest'.
    destruct (z_sample_min _ _ Hc He t u v Hu Hv Hh) as [H|H].
    - exists j. split; [lia|]. rewrite lon_of_dest', Ej.
      pose proof (lon_step _ _ Hc He _ _ H). lra.
    - exists (S j). split; [lia|]. rewrite lon_of_dest', ESj.
      pose proof (lon_step _ _ Hc He _ _ H). lra.
  Qed.
End WedgeLon.
