(* The haversine distance: range, symmetry, great-circle meaning, antimeridian un-wrapping,
   longitude shifts; the unit-vector distance; bearing range; planar rotation. *)
From GV Require Import Prelude SphereM SphereP1.
From Coq Require Import Reals Lra.
Open Scope R_scope.

(* ---------------------------------------------------------------- trigonometric helpers *)
Lemma sin_half_sq x : sin (x / 2) * sin (x / 2) = (1 - cos x) / 2.
Proof.
  pose proof (cos_2a_sin (x / 2)) as E. replace (2 * (x / 2)) with x in E by field. lra.
Qed.

Lemma cos_period_Z x k : cos (x + 2 * IZR k * PI) = cos x.
Proof.
  destruct (Z_le_gt_dec 0 k) as [H|H].
  - rewrite <- (Z2Nat.id k H), <- INR_IZR_INZ. apply cos_period.
  - assert (Hk : (0 <= - k)%Z) by lia.
    rewrite <- (cos_period (x + 2 * IZR k * PI) (Z.to_nat (- k))).
    rewrite INR_IZR_INZ, (Z2Nat.id _ Hk), opp_IZR. f_equal. ring.
Qed.
Lemma sin_period_Z x k : sin (x + 2 * IZR k * PI) = sin x.
Proof.
  destruct (Z_le_gt_dec 0 k) as [H|H].
  - rewrite <- (Z2Nat.id k H), <- INR_IZR_INZ. apply sin_period.
  - assert (Hk : (0 <= - k)%Z) by lia.
    rewrite <- (sin_period (x + 2 * IZR k * PI) (Z.to_nat (- k))).
    rewrite INR_IZR_INZ, (Z2Nat.id _ Hk), opp_IZR. f_equal. ring.
Qed.

Lemma cos_range x : -1 <= cos x <= 1. Proof. apply COS_bound. Qed.

(* ---------------------------------------------------------------- the haversine term *)
Lemma hav_a_cos l1 f1 l2 f2 :
  hav_a l1 f1 l2 f2 = (1 - cos (f2 - f1)) / 2 + cos f1 * cos f2 * ((1 - cos (l2 - l1)) / 2).
Proof. unfold hav_a. rewrite !sin_half_sq. reflexivity. Qed.

(* 1 - 2a is the spherical law of cosines, i.e. the dot product of the unit vectors *)
Lemma hav_a_dot l1 f1 l2 f2 :
  1 - 2 * hav_a l1 f1 l2 f2 = sin f1 * sin f2 + cos f1 * cos f2 * cos (l2 - l1).
Proof. rewrite hav_a_cos, (cos_minus f2 f1). field. Qed.

Lemma hav_a_range l1 f1 l2 f2 : 0 <= hav_a l1 f1 l2 f2 <= 1.
Proof.
  rewrite hav_a_cos.
  pose proof (cos_range (f2 - f1)) as HA. pose proof (cos_range (f2 + f1)) as HB.
  pose proof (cos_range (l2 - l1)) as HL.
  assert (E : cos f1 * cos f2 = (cos (f2 - f1) + cos (f2 + f1)) / 2).
  { rewrite cos_minus, cos_plus. field. }
  rewrite E.
  set (A := cos (f2 - f1)) in *. set (B := cos (f2 + f1)) in *.
  set (u := (1 - cos (l2 - l1)) / 2).
  assert (Hu : 0 <= u <= 1) by (unfold u; lra).
  replace ((1 - A) / 2 + (A + B) / 2 * u) with ((1 - u) * ((1 - A) / 2) + u * ((1 + B) / 2)) by field.
  split; nra.
Qed.

Lemma hav_a_sym l1 f1 l2 f2 : hav_a l1 f1 l2 f2 = hav_a l2 f2 l1 f1.
Proof.
  rewrite !hav_a_cos.
  replace (f1 - f2) with (- (f2 - f1)) by ring. replace (l1 - l2) with (- (l2 - l1)) by ring.
  rewrite !cos_neg. ring.
Qed.

Lemma hav_a_lon_period l1 f1 l2 f2 k :
  hav_a l1 f1 (l2 + 2 * IZR k * PI) f2 = hav_a l1 f1 l2 f2.
Proof.
  rewrite !hav_a_cos. replace (l2 + 2 * IZR k * PI - l1) with (l2 - l1 + 2 * IZR k * PI) by ring.
  rewrite cos_period_Z. reflexivity.
Qed.

(* ---------------------------------------------------------------- the half angle *)
Lemma half_angle a : 0 <= a <= 1 ->
  let h := atan2 (sqrt a) (sqrt (1 - a)) in
  0 <= h <= PI / 2 /\ sin h = sqrt a /\ cos h = sqrt (1 - a).
Proof.
  intros Ha h.
  assert (N : sqrt (1 - a) * sqrt (1 - a) + sqrt a * sqrt a = 1).
  { rewrite !sqrt_def by lra. ring. }
  assert (Hne : sqrt (1 - a) <> 0 \/ sqrt a <> 0).
  { destruct (Req_dec (sqrt (1 - a)) 0) as [E|E]; [right|left; exact E].
    intro F. rewrite E, F in N. lra. }
  split; [apply atan2_first_quadrant; apply sqrt_pos|].
  unfold h. rewrite sin_atan2, cos_atan2 by exact Hne. rewrite N, sqrt_1. split; field.
Qed.

Definition hav_of (c1 c2 : coord) : R :=
  hav_a (rad (lon c1)) (rad (lat c1)) (rad (lon c2)) (rad (lat c2)).

Lemma Rearth_pos : 0 < Rearth. Proof. unfold Rearth; lra. Qed.

Lemma hdist_raw_angle c1 c2 :
  let t := hdist_raw c1 c2 / Rearth in
  0 <= t <= PI /\ cos t = 1 - 2 * hav_of c1 c2.
Proof.
  intros t. pose proof (hav_a_range (rad (lon c1)) (rad (lat c1)) (rad (lon c2)) (rad (lat c2))) as Ha.
  destruct (half_angle _ Ha) as (Hh & Hs & Hc).
  assert (E : t = 2 * atan2 (sqrt (hav_of c1 c2)) (sqrt (1 - hav_of c1 c2))).
  { unfold t, hdist_raw, hav_of. rewrite Rmax_right by lra. field. pose proof Rearth_pos; lra. }
  fold (hav_of c1 c2) in Ha, Hh, Hs, Hc.
  rewrite E. split; [lra|].
  rewrite cos_2a_sin, Hs. rewrite Rmult_assoc, sqrt_def by lra. reflexivity.
Qed.

(* dist_range *)
Lemma hdist_raw_range c1 c2 : 0 <= hdist_raw c1 c2 <= PI * Rearth.
Proof.
  destruct (hdist_raw_angle c1 c2) as [[H1 H2] _]. pose proof Rearth_pos as HR.
  assert (E : hdist_raw c1 c2 = hdist_raw c1 c2 / Rearth * Rearth) by (field; lra).
  rewrite E. split; nra.
Qed.

(* the haversine value is the central angle of the two unit vectors times the radius *)
Lemma dot3_uvec c1 c2 :
  dot3 (uvec c1) (uvec c2)
  = sin (rad (lat c1)) * sin (rad (lat c2))
    + cos (rad (lat c1)) * cos (rad (lat c2)) * cos (rad (lon c2) - rad (lon c1)).
Proof. unfold dot3, uvec; cbn [fst snd]. rewrite cos_minus. ring. Qed.

Lemma hav_is_great_circle c1 c2 :
  cos (hdist_raw c1 c2 / Rearth) = dot3 (uvec c1) (uvec c2).
Proof.
  destruct (hdist_raw_angle c1 c2) as [_ E]. rewrite E, dot3_uvec. unfold hav_of. apply hav_a_dot.
Qed.

Lemma dot3_uvec_range c1 c2 : -1 <= dot3 (uvec c1) (uvec c2) <= 1.
Proof. rewrite <- hav_is_great_circle. apply cos_range. Qed.

Lemma hdist_raw_acos c1 c2 : hdist_raw c1 c2 = Rearth * acos (dot3 (uvec c1) (uvec c2)).
Proof.
  rewrite <- hav_is_great_circle. destruct (hdist_raw_angle c1 c2) as [H _].
  rewrite acos_cos by exact H. field. pose proof Rearth_pos; lra.
Qed.

(* the unit-vector distance is the haversine distance (the clamp never acts on exact values) *)
Lemma dist_xyz_eq c1 c2 : dist_xyz c1 c2 = hdist_raw c1 c2.
Proof.
  unfold dist_xyz. pose proof (dot3_uvec_range c1 c2) as [H1 H2].
  rewrite Rmin_right by exact H2. rewrite Rmax_right by exact H1.
  rewrite hdist_raw_acos. ring.
Qed.

(* ---------------------------------------------------------------- symmetry, identity *)
Lemma hdist_raw_sym c1 c2 : hdist_raw c1 c2 = hdist_raw c2 c1.
Proof. unfold hdist_raw. rewrite hav_a_sym. reflexivity. Qed.

Lemma hdist_raw_refl c : hdist_raw c c = 0.
Proof.
  unfold hdist_raw.
  assert (E : hav_a (rad (lon c)) (rad (lat c)) (rad (lon c)) (rad (lat c)) = 0).
  { rewrite hav_a_cos. replace (rad (lat c) - rad (lat c)) with 0 by ring.
    replace (rad (lon c) - rad (lon c)) with 0 by ring. rewrite cos_0. field. }
  rewrite E, Rminus_0_r, Rmax_right, sqrt_0, sqrt_1, atan2_pos by lra.
  replace (0 / 1) with 0 by field. rewrite atan_0. ring.
Qed.

(* ---------------------------------------------------------------- un-wrapping changes nothing *)
Lemma hdist_raw_lon_period c1 l2 f2 k :
  hdist_raw c1 (l2 + 360 * IZR k, f2) = hdist_raw c1 (l2, f2).
Proof.
  unfold hdist_raw, lon, lat; cbn [fst snd].
  rewrite rad_plus, rad_360. replace (2 * IZR k * PI) with (2 * IZR k * PI) by ring.
  rewrite hav_a_lon_period. reflexivity.
Qed.

Lemma hdist_raw_lon_period_l l1 f1 c2 k :
  hdist_raw (l1 + 360 * IZR k, f1) c2 = hdist_raw (l1, f1) c2.
Proof. rewrite hdist_raw_sym, hdist_raw_lon_period. apply hdist_raw_sym. Qed.

(* the second coordinate returned by ensure_edge_bounds differs by a whole number of turns *)
Lemma ensure_edge_bounds_shape c1 c2 :
  fst (ensure_edge_bounds c1 c2) = c1 /\
  exists k : Z, snd (ensure_edge_bounds c1 c2) = (lon c2 + 360 * IZR k, lat c2).
Proof.
  unfold ensure_edge_bounds, mk_unbounded.
  destruct (rltb 180 (Rabs (lon c1 - lon c2))).
  2:{ split; [reflexivity|]. exists 0%Z. cbn [snd]. destruct c2; unfold lon, lat; cbn. f_equal. ring. }
  split; [reflexivity|]. cbn [snd].
  destruct (rltb (lon c1) 0).
  - destruct (reqb (lon c2 - 360) 180) eqn:E.
    + apply reqb_true in E. exists (-2)%Z. f_equal. lra.
    + exists (-1)%Z. f_equal. lra.
  - destruct (reqb (lon c2 + 360) 180) eqn:E.
    + apply reqb_true in E. exists 0%Z. f_equal. lra.
    + exists 1%Z. f_equal. lra.
Qed.

(* unwrap_noop *)
Lemma hdist_unwrap c1 c2 : hdist c1 c2 = hdist_raw c1 c2.
Proof.
  unfold hdist. destruct (ensure_edge_bounds_shape c1 c2) as [E1 [k E2]].
  rewrite E1, E2, hdist_raw_lon_period. destruct c2; reflexivity.
Qed.

Lemma hdist_sym c1 c2 : hdist c1 c2 = hdist c2 c1.
Proof. rewrite !hdist_unwrap. apply hdist_raw_sym. Qed.

Lemma hdist_refl c : hdist c c = 0.
Proof. rewrite hdist_unwrap. apply hdist_raw_refl. Qed.

Lemma hdist_range c1 c2 : 0 <= hdist c1 c2 <= PI * Rearth.
Proof. rewrite hdist_unwrap. apply hdist_raw_range. Qed.

(* dist_lon_shift: the same shift of both longitudes, each then re-normalised by any whole
   number of turns (in particular across the antimeridian), leaves the distance unchanged *)
Lemma hdist_lon_shift l1 f1 l2 f2 s k1 k2 :
  hdist (l1 + s + 360 * IZR k1, f1) (l2 + s + 360 * IZR k2, f2) = hdist (l1, f1) (l2, f2).
Proof.
  rewrite !hdist_unwrap, hdist_raw_lon_period, hdist_raw_lon_period_l.
  unfold hdist_raw, lon, lat; cbn [fst snd]. rewrite !hav_a_cos, !rad_plus.
  replace (rad l2 + rad s - (rad l1 + rad s)) with (rad l2 - rad l1) by ring. reflexivity.
Qed.

Lemma hdist_great_circle c1 c2 : hdist c1 c2 = Rearth * acos (dot3 (uvec c1) (uvec c2)).
Proof. rewrite hdist_unwrap. apply hdist_raw_acos. Qed.

Lemma dist_xyz_hdist c1 c2 : dist_xyz c1 c2 = hdist c1 c2.
Proof. rewrite hdist_unwrap. apply dist_xyz_eq. Qed.

(* ---------------------------------------------------------------- bearing range *)
Lemma bearing_raw_range c1 c2 : 0 <= bearing_raw c1 c2 < 360.
Proof. unfold bearing_raw. apply Rmod_range. lra. Qed.

Lemma bearing_range c1 c2 : 0 <= bearing c1 c2 < 360.
Proof. unfold bearing. apply Rmod_range. lra. Qed.

(* the returned bearing is the un-rounded one up to half a unit of the fifth decimal (mod 360) *)
Lemma bearing_rounding c1 c2 :
  exists k : Z, Rabs (bearing c1 c2 + 360 * IZR k - bearing_raw c1 c2) <= / 2 / 10 ^ 5 + / 10 ^ 17.
Proof.
  unfold bearing, Rmod at 1.
  exists (Int_part (round_half_up (bearing_raw c1 c2) 5 / 360)).
  pose proof (round_half_up_err (bearing_raw c1 c2) 5) as H. replace (5 + 12)%nat with 17%nat in H by reflexivity.
  set (k := IZR _).
  replace (round_half_up (bearing_raw c1 c2) 5 - 360 * k + 360 * k - bearing_raw c1 c2)
    with (round_half_up (bearing_raw c1 c2) 5 - bearing_raw c1 c2) by ring.
  apply Rabs_le. assert (0 < / 10 ^ 17) by (apply Rinv_0_lt_compat, pow_lt; lra). lra.
Qed.

(* ---------------------------------------------------------------- planar rotation *)
Lemma rot_raw_zero o p : rot_raw o p 0 = p.
Proof.
  unfold rot_raw, rad. rewrite Rmult_0_l, cos_0, sin_0. destruct p; unfold lon, lat; cbn [fst snd].
  f_equal; ring.
Qed.

Lemma rot_raw_compose o p a b : rot_raw o (rot_raw o p b) a = rot_raw o p (a + b).
Proof.
  unfold rot_raw, lon, lat; cbn [fst snd]. rewrite rad_plus, cos_plus, sin_plus. f_equal; ring.
Qed.

Lemma rot_raw_isometry o p a : pdist2 o (rot_raw o p a) = pdist2 o p.
Proof.
  unfold pdist2, rot_raw, lon, lat; cbn [fst snd].
  pose proof (sin2_cos2 (rad a)) as E. unfold Rsqr in E.
  set (s := sin (rad a)) in *. set (c := cos (rad a)) in *.
  replace (c * (fst p - fst o) + - s * (snd p - snd o) + fst o - fst o)
    with (c * (fst p - fst o) - s * (snd p - snd o)) by ring.
  replace (s * (fst p - fst o) + c * (snd p - snd o) + snd o - snd o)
    with (s * (fst p - fst o) + c * (snd p - snd o)) by ring.
  replace ((c * (fst p - fst o) - s * (snd p - snd o)) * (c * (fst p - fst o) - s * (snd p - snd o)) +
           (s * (fst p - fst o) + c * (snd p - snd o)) * (s * (fst p - fst o) + c * (snd p - snd o)))
    with ((s * s + c * c) * ((fst p - fst o) * (fst p - fst o) + (snd p - snd o) * (snd p - snd o))) by ring.
  rewrite E. ring.
Qed.

(* a full turn is the identity; rotation by the opposite angle undoes a rotation *)
Lemma rot_raw_inverse o p a : rot_raw o (rot_raw o p a) (- a) = p.
Proof. rewrite rot_raw_compose. replace (- a + a) with 0 by ring. apply rot_raw_zero. Qed.

(* rot: the input is first un-wrapped towards the origin; the un-wrapped point differs from the
   input by whole turns of longitude *)
Lemma rot_unfold o p a :
  exists k : Z, rot o p a = rot_raw o (lon p + 360 * IZR k, lat p) a.
Proof.
  unfold rot. destruct (ensure_edge_bounds_shape o p) as [_ [k E]]. exists k. rewrite E. reflexivity.
Qed.
