(* TERMINATION of the float model CoordF.mkf within an explicit fuel, for all binary64 inputs with
   -1e5 <= lon <= 1e5 and -1e5 <= lat <= 1e5 (IEEE comparisons: so finite, no nan).

   Unlike CoordFP.v this needs what float + and - compute: the stdlib's FloatAxioms (the
   specification of the primitive operations by SpecFloat), read through Flocq
   (IEEE754.PrimFloat / BinarySingleNaN: x + y is the rounding to nearest-even of the real sum).
   Rounding is only used through three facts: it is monotone, it fixes doubles, and it moves
   a real of magnitude <= 2^18 by at most 1/4 (in fact 2^-35).  Hence
     first loop:  a step maps lat > 90 into [180 - lat - 1/2, 90], lat < -90 into
                  [-90, -180 - lat + 1/2]: |lat| drops by at least 179 per iteration, and
                  |lon| stays <= 1e5;
     second loop: a step maps lon > 180 into [-180, lon - 359.75] (symmetrically below -180).
   559 iterations of each loop are enough below 1e5 (the harness observes at most 556). *)
From Coq Require Import ZArith Reals Lra Lia Floats.
From Flocq Require Import Core BinarySingleNaN PrimFloat Relative.
From GV Require Import CoordF CoordFP.
Open Scope R_scope.

Notation pfloat := Floats.PrimFloat.float.

Definition FR (x : pfloat) : R := B2R (Prim2B x).
Definition fin (x : pfloat) : Prop := is_finite (Prim2B x) = true.
Definition rnd (r : R) : R := round radix2 (fexp prec emax) (round_mode mode_NE) r.

(* ---- literals *)
Lemma FR_lit : forall x, FR x = SF2R radix2 (Prim2SF x).
Proof. intros. unfold FR, Prim2B. apply B2R_SF2B. Qed.

Lemma fin_lit : forall x, is_finite_SF (Prim2SF x) = true -> fin x.
Proof. intros. unfold fin, Prim2B. rewrite is_finite_SF2B. assumption. Qed.

Ltac lit := rewrite FR_lit; vm_compute Prim2SF; unfold SF2R, F2R; simpl; lra.
Ltac flit := apply fin_lit; vm_compute; reflexivity.

Lemma FR_0 : FR 0%float = 0. Proof. lit. Qed.
Lemma FR_90 : FR 90%float = 90. Proof. lit. Qed.
Lemma FR_m90 : FR (-90)%float = -90. Proof. lit. Qed.
Lemma FR_180 : FR 180%float = 180. Proof. lit. Qed.
Lemma FR_m180 : FR (-180)%float = -180. Proof. lit. Qed.
Lemma FR_360 : FR 360%float = 360. Proof. lit. Qed.
Lemma FR_1e5 : FR 100000%float = 100000. Proof. lit. Qed.
Lemma FR_m1e5 : FR (-100000)%float = -100000. Proof. lit. Qed.
Lemma FR_2p18 : FR 262144%float = 262144. Proof. lit. Qed.
Lemma FR_m2p18 : FR (-262144)%float = -262144. Proof. lit. Qed.
Lemma fin_0 : fin 0%float. Proof. flit. Qed.
Lemma fin_90 : fin 90%float. Proof. flit. Qed.
Lemma fin_m90 : fin (-90)%float. Proof. flit. Qed.
Lemma fin_180 : fin 180%float. Proof. flit. Qed.
Lemma fin_m180 : fin (-180)%float. Proof. flit. Qed.
Lemma fin_360 : fin 360%float. Proof. flit. Qed.
Lemma fin_1e5 : fin 100000%float. Proof. flit. Qed.
Lemma fin_m1e5 : fin (-100000)%float. Proof. flit. Qed.

(* ---- rounding: monotone, fixes doubles, small error *)
Lemma rnd_le : forall x y, x <= y -> rnd x <= rnd y.
Proof. intros. unfold rnd. apply round_le; [apply (fexp_correct prec emax Hprec)|apply valid_rnd_round_mode|assumption]. Qed.

Lemma fmt_FR : forall x, generic_format radix2 (fexp prec emax) (FR x).
Proof. intros. apply generic_format_B2R. Qed.

Lemma rnd_FR : forall x, rnd (FR x) = FR x.
Proof. intros. unfold rnd. apply round_generic; [apply valid_rnd_round_mode|apply fmt_FR]. Qed.

Lemma rnd_ge : forall c x, FR c <= x -> FR c <= rnd x.
Proof. intros. rewrite <- (rnd_FR c). apply rnd_le. assumption. Qed.

Lemma rnd_le' : forall c x, x <= FR c -> rnd x <= FR c.
Proof. intros. rewrite <- (rnd_FR c). apply rnd_le. assumption. Qed.

Lemma rnd_ge_c : forall c r x, FR c = r -> r <= x -> r <= rnd x.
Proof. intros c r x <- H. apply rnd_ge. assumption. Qed.

Lemma rnd_le_c : forall c r x, FR c = r -> x <= r -> rnd x <= r.
Proof. intros c r x <- H. apply rnd_le'. assumption. Qed.

Lemma rnd_err : forall x, -262144 <= x <= 262144 -> x - /4 <= rnd x <= x + /4.
Proof.
  intros x Hx.
  destruct (error_N_FLT radix2 (3 - emax - prec) prec eq_refl (fun n => negb (Z.even n)) x)
    as (eps & eta & He & Ha & _ & Hr).
  unfold rnd. change (fexp prec emax) with (FLT_exp (3 - emax - prec) prec). simpl round_mode.
  rewrite Hr.
  assert (E1 : Rabs (x * eps) <= bpow radix2 (-5)).
  { rewrite Rabs_mult.
    replace (bpow radix2 (-5)) with (bpow radix2 18 * bpow radix2 (-23)) by (rewrite <- bpow_plus; reflexivity).
    apply Rmult_le_compat; try apply Rabs_pos.
    - change (bpow radix2 18) with 262144. apply Rabs_le. lra.
    - eapply Rle_trans; [exact He|].
      assert (bpow radix2 (- prec + 1) <= bpow radix2 (-23)) by (apply bpow_le; vm_compute; discriminate).
      pose proof (bpow_ge_0 radix2 (-prec + 1)). lra. }
  assert (E2 : Rabs eta <= bpow radix2 (-5)).
  { eapply Rle_trans; [exact Ha|].
    assert (bpow radix2 (3 - emax - prec) <= bpow radix2 (-5)) by (apply bpow_le; vm_compute; discriminate).
    pose proof (bpow_ge_0 radix2 (3 - emax - prec)). lra. }
  change (bpow radix2 (-5)) with (/ 32) in E1, E2.
  apply Rabs_le_inv in E1. apply Rabs_le_inv in E2. lra.
Qed.

Lemma rnd_no_overflow : forall x, -262144 <= x <= 262144 -> Rabs (rnd x) < bpow radix2 emax.
Proof.
  intros x Hx.
  assert (H : FR (-262144)%float <= rnd x <= FR 262144%float)
    by (split; [apply rnd_ge|apply rnd_le']; rewrite ?FR_m2p18, ?FR_2p18; lra).
  rewrite FR_m2p18, FR_2p18 in H.
  apply Rle_lt_trans with 262144.
  - apply Rabs_le. lra.
  - change 262144 with (bpow radix2 18). apply bpow_lt. vm_compute. reflexivity.
Qed.

(* ---- the primitive operations on finite doubles *)
Lemma add_ok : forall x y, fin x -> fin y -> -262144 <= FR x + FR y <= 262144 ->
  fin (x + y)%float /\ FR (x + y)%float = rnd (FR x + FR y).
Proof.
  intros x y Hx Hy Hb. unfold fin, FR in *. rewrite add_equiv.
  pose proof (Bplus_correct prec emax Hprec Hmax mode_NE _ _ Hx Hy) as H.
  rewrite Rlt_bool_true in H.
  - destruct H as (H1 & H2 & _). split; assumption.
  - fold (rnd (B2R (Prim2B x) + B2R (Prim2B y))).
    apply rnd_no_overflow. assumption.
Qed.

Lemma sub_ok : forall x y, fin x -> fin y -> -262144 <= FR x - FR y <= 262144 ->
  fin (x - y)%float /\ FR (x - y)%float = rnd (FR x - FR y).
Proof.
  intros x y Hx Hy Hb. unfold fin, FR in *. rewrite sub_equiv.
  pose proof (Bminus_correct prec emax Hprec Hmax mode_NE _ _ Hx Hy) as H.
  rewrite Rlt_bool_true in H.
  - destruct H as (H1 & H2 & _). split; assumption.
  - fold (rnd (B2R (Prim2B x) - B2R (Prim2B y))).
    apply rnd_no_overflow. assumption.
Qed.

Lemma ltb_R : forall x y, fin x -> fin y -> (x <? y)%float = Rlt_bool (FR x) (FR y).
Proof. intros. rewrite ltb_equiv. apply Bltb_correct; assumption. Qed.

Lemma leb_R : forall x y, fin x -> fin y -> (x <=? y)%float = Rle_bool (FR x) (FR y).
Proof. intros. rewrite leb_equiv. apply Bleb_correct; assumption. Qed.

(* a <= x <= b as IEEE comparisons with a, b finite: x is finite *)
Lemma fin_between : forall a b x, fin a -> fin b ->
  (a <=? x)%float = true -> (x <=? b)%float = true -> fin x.
Proof.
  intros a b x Ha Hb H1 H2. unfold fin in *. rewrite leb_equiv in H1, H2.
  destruct (Prim2B x) as [s|[|]| |s m e He]; try reflexivity.
  - destruct (Prim2B a) as [sa|sa| |sa ma ea Hea]; try discriminate; destruct sa; discriminate.
  - destruct (Prim2B b) as [sa|sa| |sa ma ea Hea]; try discriminate; destruct sa; discriminate.
  - destruct (Prim2B a) as [sa|sa| |sa ma ea Hea]; try discriminate; destruct sa; discriminate.
Qed.

Lemma between_R : forall a b x, fin a -> fin b ->
  (a <=? x)%float = true -> (x <=? b)%float = true -> fin x /\ FR a <= FR x <= FR b.
Proof.
  intros a b x Ha Hb H1 H2. pose proof (fin_between _ _ _ Ha Hb H1 H2) as Hx.
  split; [exact Hx|].
  rewrite leb_R in H1, H2 by assumption.
  split; [revert H1|revert H2]; case Rle_bool_spec; intros; (lra || discriminate).
Qed.

(* ---- loop conditions on finite doubles *)
Lemma lat_okf_R : forall lat, fin lat ->
  lat_okf lat = (Rle_bool (-90) (FR lat) && Rle_bool (FR lat) 90)%bool.
Proof.
  intros lat H. unfold lat_okf.
  rewrite !leb_R by (assumption || apply fin_m90 || apply fin_90).
  rewrite FR_m90, FR_90. reflexivity.
Qed.

Lemma lon_okf_R : forall lon, fin lon ->
  lon_okf lon = (Rle_bool (-180) (FR lon) && Rle_bool (FR lon) 180)%bool.
Proof.
  intros lon H. unfold lon_okf.
  rewrite !leb_R by (assumption || apply fin_m180 || apply fin_180).
  rewrite FR_m180, FR_180. reflexivity.
Qed.

Lemma okf_false : forall a x b, (Rle_bool a x && Rle_bool x b)%bool = false -> x < a \/ b < x.
Proof.
  intros a x b. case (Rle_bool_spec a x); case (Rle_bool_spec x b); simpl; intros; try discriminate; lra.
Qed.

Lemma okf_true : forall a x b, a <= x <= b -> (Rle_bool a x && Rle_bool x b)%bool = true.
Proof. intros a x b [H1 H2]. rewrite !Rle_bool_true by assumption. reflexivity. Qed.

(* ---- one iteration of the first loop.  k is the slack: |lat| <= 90 + 179 + k before, <= 90 + k after *)
Lemma pole_stepf_ok : forall lon lat k, fin lon -> fin lat ->
  -100000 <= FR lon <= 100000 -> 0 <= k -> 269 + k <= 131072 ->
  - (269 + k) <= FR lat <= 269 + k -> lat_okf lat = false ->
  fin (fst (pole_stepf (lon, lat))) /\ fin (snd (pole_stepf (lon, lat))) /\
  -100000 <= FR (fst (pole_stepf (lon, lat))) <= 100000 /\
  - (90 + k) <= FR (snd (pole_stepf (lon, lat))) <= 90 + k.
Proof.
  intros lon lat k Flon Flat Blon Hk Hk2 Blat Hno.
  rewrite lat_okf_R in Hno by assumption. apply okf_false in Hno.
  unfold pole_stepf. cbn [fst snd].
  (* longitude *)
  assert (Hlon : fin (if (lon <? 0)%float then (lon + 180)%float else (lon - 180)%float) /\
                 -100000 <= FR (if (lon <? 0)%float then (lon + 180)%float else (lon - 180)%float) <= 100000).
  { rewrite ltb_R by (assumption || apply fin_0). rewrite FR_0.
    case (Rlt_bool_spec (FR lon) 0); intros Hs.
    - destruct (add_ok lon 180%float Flon fin_180) as [F E]; [rewrite FR_180; lra|].
      split; [exact F|]. rewrite E, FR_180. split.
      + apply (rnd_ge_c _ _ _ FR_m1e5). lra.
      + apply Rle_trans with 180; [apply (rnd_le_c _ _ _ FR_180)|]; lra.
    - destruct (sub_ok lon 180%float Flon fin_180) as [F E]; [rewrite FR_180; lra|].
      split; [exact F|]. rewrite E, FR_180. split.
      + apply Rle_trans with (-180); [lra|]. apply (rnd_ge_c _ _ _ FR_m180). lra.
      + apply (rnd_le_c _ _ _ FR_1e5). lra. }
  destruct Hlon as [Hlon1 Hlon2].
  split; [exact Hlon1|]. rewrite and_comm, and_assoc. split; [exact Hlon2|]. rewrite and_comm.
  (* latitude *)
  rewrite ltb_R by (assumption || apply fin_90). rewrite FR_90.
  case (Rlt_bool_spec 90 (FR lat)); intros Hs.
  - destruct (sub_ok lat 90%float Flat fin_90) as [F1 E1]; [rewrite FR_90; lra|]. rewrite FR_90 in E1.
    pose proof (rnd_err (FR lat - 90)) as R1. rewrite <- E1 in R1.
    assert (P1 : 0 <= FR (lat - 90)%float).
    { rewrite E1. apply (rnd_ge_c _ _ _ FR_0). lra. }
    destruct (sub_ok 90%float (lat - 90)%float fin_90 F1) as [F2 E2]; [rewrite FR_90; lra|]. rewrite FR_90 in E2.
    pose proof (rnd_err (90 - FR (lat - 90)%float)) as R2. rewrite <- E2 in R2.
    assert (P2 : FR (90 - (lat - 90))%float <= 90).
    { rewrite E2. apply (rnd_le_c _ _ _ FR_90). lra. }
    split; [exact F2|]. lra.
  - destruct Hno as [Hno|Hno]; [|lra].
    destruct (add_ok lat 90%float Flat fin_90) as [F1 E1]; [rewrite FR_90; lra|]. rewrite FR_90 in E1.
    pose proof (rnd_err (FR lat + 90)) as R1. rewrite <- E1 in R1.
    assert (P1 : FR (lat + 90)%float <= 0).
    { rewrite E1. apply (rnd_le_c _ _ _ FR_0). lra. }
    destruct (sub_ok (-90)%float (lat + 90)%float fin_m90 F1) as [F2 E2]; [rewrite FR_m90; lra|]. rewrite FR_m90 in E2.
    pose proof (rnd_err (-90 - FR (lat + 90)%float)) as R2. rewrite <- E2 in R2.
    assert (P2 : -90 <= FR (-90 - (lat + 90))%float).
    { rewrite E2. apply (rnd_ge_c _ _ _ FR_m90). lra. }
    split; [exact F2|]. lra.
Qed.

(* ---- one iteration of the second loop: |lon| <= 180 + 359 + k before, <= 180 + k after *)
Lemma wrap_stepf_ok : forall lon k, fin lon -> 0 <= k -> 539 + k <= 131072 ->
  - (539 + k) <= FR lon <= 539 + k -> lon_okf lon = false ->
  fin (wrap_stepf lon) /\ - (180 + k) <= FR (wrap_stepf lon) <= 180 + k.
Proof.
  intros lon k Flon Hk Hk2 Blon Hno.
  rewrite lon_okf_R in Hno by assumption. apply okf_false in Hno.
  unfold wrap_stepf. rewrite ltb_R by (assumption || apply fin_180). rewrite FR_180.
  case (Rlt_bool_spec 180 (FR lon)); intros Hs.
  - destruct (sub_ok lon 360%float Flon fin_360) as [F E]; [rewrite FR_360; lra|]. rewrite FR_360 in E.
    pose proof (rnd_err (FR lon - 360)) as R1. rewrite <- E in R1.
    assert (P : -180 <= FR (lon - 360)%float).
    { rewrite E. apply (rnd_ge_c _ _ _ FR_m180). lra. }
    split; [exact F|]. lra.
  - destruct Hno as [Hno|Hno]; [|lra].
    destruct (add_ok lon 360%float Flon fin_360) as [F E]; [rewrite FR_360; lra|]. rewrite FR_360 in E.
    pose proof (rnd_err (FR lon + 360)) as R1. rewrite <- E in R1.
    assert (P : FR (lon + 360)%float <= 180).
    { rewrite E. apply (rnd_le_c _ _ _ FR_180). lra. }
    split; [exact F|]. lra.
Qed.

(* ---- the loops end within n iterations when |lat| <= 90 + 179 n, resp. |lon| <= 180 + 359 n *)
Lemma pole_loopf_total : forall n lon lat, fin lon -> fin lat ->
  -100000 <= FR lon <= 100000 -> 90 + 179 * INR n <= 131072 ->
  - (90 + 179 * INR n) <= FR lat <= 90 + 179 * INR n ->
  exists lon' lat', pole_loopf n (lon, lat) = Some (lon', lat') /\
                    fin lon' /\ -100000 <= FR lon' <= 100000.
Proof.
  induction n as [|n IH]; intros lon lat Flon Flat Blon Hn Blat.
  - exists lon, lat. cbn [pole_loopf snd]. rewrite lat_okf_R by assumption.
    rewrite okf_true by (simpl in Blat; lra). auto.
  - cbn [pole_loopf snd]. destruct (lat_okf lat) eqn:E.
    + exists lon, lat. auto.
    + rewrite S_INR in Hn, Blat. pose proof (pos_INR n) as Pn.
      destruct (pole_stepf_ok lon lat (179 * INR n) Flon Flat Blon) as (F1 & F2 & B1 & B2);
        try lra; try exact E.
      destruct (pole_stepf (lon, lat)) as [lon1 lat1]. cbn [fst snd] in *.
      apply IH; (assumption || lra).
Qed.

Lemma wrap_loopf_total : forall n lon, fin lon -> 180 + 359 * INR n <= 131072 ->
  - (180 + 359 * INR n) <= FR lon <= 180 + 359 * INR n ->
  exists lon', wrap_loopf n lon = Some lon'.
Proof.
  induction n as [|n IH]; intros lon Flon Hn Blon.
  - exists lon. cbn [wrap_loopf]. rewrite lon_okf_R by assumption.
    rewrite okf_true by (simpl in Blon; lra). reflexivity.
  - cbn [wrap_loopf]. destruct (lon_okf lon) eqn:E.
    + exists lon. reflexivity.
    + rewrite S_INR in Hn, Blon. pose proof (pos_INR n) as Pn.
      destruct (wrap_stepf_ok lon (359 * INR n) Flon) as (F1 & B1); try lra; try exact E.
      apply IH; (assumption || lra).
Qed.

(* TERMINATION: every double pair with -1e5 <= lon, lat <= 1e5 (IEEE comparisons) is stored
   after at most 559 iterations of each loop *)
Lemma INR_559 : INR 559 = 559.
Proof. rewrite INR_IZR_INZ. reflexivity. Qed.
Lemma INR_279 : INR 279 = 279.
Proof. rewrite INR_IZR_INZ. reflexivity. Qed.

Lemma mkf_terminates : forall lon lat,
  ((-100000 <=? lon) && (lon <=? 100000))%float%bool = true ->
  ((-100000 <=? lat) && (lat <=? 100000))%float%bool = true ->
  exists lon' lat', mkf 559 lon lat true = Some (lon', lat').
Proof.
  intros lon lat Hlon Hlat.
  apply Bool.andb_true_iff in Hlon. apply Bool.andb_true_iff in Hlat.
  destruct Hlon as [Ho1 Ho2]. destruct Hlat as [Ha1 Ha2].
  destruct (between_R _ _ _ fin_m1e5 fin_1e5 Ho1 Ho2) as [Flon Blon].
  destruct (between_R _ _ _ fin_m1e5 fin_1e5 Ha1 Ha2) as [Flat Blat].
  rewrite FR_m1e5, FR_1e5 in Blon, Blat.
  destruct (pole_loopf_total 559 lon lat Flon Flat Blon) as (lon1 & lat1 & E1 & F1 & B1);
    try (rewrite INR_559; lra).
  destruct (wrap_loopf_total 279 lon1 F1) as (lon2 & E2); try (rewrite INR_279; lra).
  apply (wrap_loopf_mono 279 559) in E2; [|lia].
  exists (canon180f lon2), lat1. unfold mkf. rewrite E1, E2. reflexivity.
Qed.

(* with any larger fuel (the correspondence uses 2000) *)
Lemma mkf_terminates_fuel : forall fuel lon lat, (559 <= fuel)%nat ->
  ((-100000 <=? lon) && (lon <=? 100000))%float%bool = true ->
  ((-100000 <=? lat) && (lat <=? 100000))%float%bool = true ->
  exists lon' lat', mkf fuel lon lat true = Some (lon', lat').
Proof.
  intros fuel lon lat Hf Hlon Hlat.
  destruct (mkf_terminates lon lat Hlon Hlat) as (a & b & H).
  exists a, b. exact (mkf_fuel_mono _ _ _ _ _ _ Hf H).
Qed.

(* the whole clause for the fuel the correspondence runs the model with: on -1e5 <= lon, lat <= 1e5
   the model returns, what it returns is in range, and is a fixed point *)
Lemma mkf_total_2000 : forall lon lat,
  ((-100000 <=? lon) && (lon <=? 100000))%float%bool = true ->
  ((-100000 <=? lat) && (lat <=? 100000))%float%bool = true ->
  exists lon' lat', mkf 2000 lon lat true = Some (lon', lat') /\
    ((-90 <=? lat') && (lat' <=? 90))%float%bool = true /\
    ((-180 <=? lon') && (lon' <=? 180))%float%bool = true /\ (lon' =? 180)%float = false /\
    forall fuel2, mkf fuel2 lon' lat' true = Some (lon', lat').
Proof.
  intros lon lat Hlon Hlat.
  destruct (mkf_terminates_fuel 2000 lon lat) as (a & b & H); [lia|assumption|assumption|].
  exists a, b. split; [exact H|].
  destruct (mkf_range _ _ _ _ _ H) as (R1 & R2 & R3).
  repeat split; try assumption. exact (mkf_idempotent _ _ _ _ _ H).
Qed.
