(* Proofs about StateM (C16): reads are pure and repeatable, caches stay coherent under every
   operation, observations after any history equal those of a freshly built object,
   inplace=False leaves the receiver untouched.  Everything is proved for arbitrary
   geometry-derived functions (Section variables). *)
From GV Require Import Prelude StateM.
Open Scope Z_scope.

Section Proofs.
  Variables G B C A S J W : Type.
  Variable bounds_of : kind -> G -> B.
  Variable centroid_of : kind -> G -> C.
  Variable area_of : kind -> G -> list G -> A.
  Variable shapely_of : kind -> G -> list G -> S.
  Variable gj_of : kind -> G -> list G -> J.
  Variable wkt_of : kind -> G -> list G -> W.
  Variable poly_geom : kind -> G -> G.
  Variable poly_holes : kind -> G -> list G -> list G.

  Local Notation state := (st G B C A S).
  Local Notation stepf :=
    (step G B C A S J W bounds_of centroid_of area_of shapely_of gj_of wkt_of poly_geom poly_holes).
  Local Notation runf :=
    (run G B C A S J W bounds_of centroid_of area_of shapely_of gj_of wkt_of poly_geom poly_holes).
  Local Notation absf := (abs G B C A S).
  Local Notation freshf := (fresh G B C A S).
  Local Notation copyf := (copy G B C A S).

  (* every filled cache holds the value computed from the (immutable) geometry *)
  Definition Coherent (s : state) : Prop :=
    (c_bounds _ _ _ _ _ s = None \/ c_bounds _ _ _ _ _ s = Some (bounds_of (kd _ _ _ _ _ s) (geom _ _ _ _ _ s))) /\
    (c_centroid _ _ _ _ _ s = None \/ c_centroid _ _ _ _ _ s = Some (centroid_of (kd _ _ _ _ _ s) (geom _ _ _ _ _ s))) /\
    (c_area _ _ _ _ _ s = None \/
     c_area _ _ _ _ _ s = Some (area_of (kd _ _ _ _ _ s) (geom _ _ _ _ _ s) (holes _ _ _ _ _ s))) /\
    (c_shapely _ _ _ _ _ s = None \/
     c_shapely _ _ _ _ _ s = Some (shapely_of (kd _ _ _ _ _ s) (geom _ _ _ _ _ s) (holes _ _ _ _ _ s))).

  Definition is_read (o : op) : bool := match o with Read _ | ToPolygon => true | _ => false end.

  Ltac unf := unfold step, read, to_polygon, update, fill_bounds, fill_centroid, fill_area, fill_shapely,
                     with_caches, with_dt, with_props, copy, fresh_st, abs, fresh in *.

  (* read-only operations (to_polygon included) leave the observable state alone, also when they fail *)
  Lemma read_pure s o : is_read o = true -> absf (fst (stepf s o)) = absf s.
  Proof.
    destruct s as [k g hs d p cb cc ca cs].
    destruct o as [r| | | | |]; try discriminate; intros _.
    - destruct r; unf; cbn;
        repeat match goal with |- context [if ?b then _ else _] => destruct b; cbn end;
        try (destruct d; cbn);
        repeat match goal with |- context [if ?b then _ else _] => destruct b; cbn end;
        try (destruct ca; cbn); reflexivity.
    - unf. cbn. destruct k; reflexivity.
  Qed.

  (* a failing operation changes nothing at all *)
  Lemma err_untouched s o e : snd (stepf s o) = Err e -> fst (stepf s o) = s.
  Proof.
    destruct o as [r| |d ip|x ip|ip|k v ip]; unf.
    - destruct r; cbn; try discriminate;
        destruct (has_volume (kd _ _ _ _ _ s)); cbn; try discriminate; try reflexivity.
      destruct (dt _ _ _ _ _ s); discriminate.
    - destruct (kd _ _ _ _ _ s); cbn; try discriminate; reflexivity.
    - destruct ip; discriminate.
    - destruct (dt _ _ _ _ _ s) as [[a b]|]; [|reflexivity].
      destruct (b + x <? a - x); [reflexivity|]. destruct ip; discriminate.
    - destruct ip; discriminate.
    - destruct ip; discriminate.
  Qed.

  (* asking twice gives the same answer (no coherence needed: a hit returns what the miss stored) *)
  Lemma read_repeat s r :
    snd (stepf (fst (stepf s (Read r))) (Read r)) = snd (stepf s (Read r)).
  Proof.
    destruct s as [k g hs d p cb cc ca cs].
    destruct r; unf; unfold v_bounds, v_centroid, v_area, v_shapely, cached; cbn; try reflexivity.
    - destruct (caches_bounds k); reflexivity.
    - destruct (caches_centroid k); reflexivity.
    - destruct (has_volume k) eqn:E; cbn; rewrite ?E; [|reflexivity].
      destruct (is_area k); cbn; rewrite ?E; [|reflexivity].
      destruct ca; cbn; rewrite ?E; reflexivity.
    - destruct (has_volume k) eqn:E; cbn; rewrite ?E; [|reflexivity].
      destruct d; cbn; rewrite ?E; [|reflexivity].
      destruct (is_area k); cbn; rewrite ?E; [|reflexivity].
      destruct ca; cbn; rewrite ?E; reflexivity.
    - destruct (has_volume k) eqn:E; cbn; rewrite ?E; reflexivity.
    - destruct (has_volume k) eqn:E; cbn; rewrite ?E; reflexivity.
  Qed.

  Lemma fresh_coherent a : Coherent (freshf a).
  Proof. destruct a as [[[[k g] hs] d] p]. unfold Coherent; cbn. auto. Qed.

  Lemma copy_coherent s : Coherent (copyf s).
  Proof. unfold Coherent, copy; cbn. auto. Qed.

  (* coherence is preserved by every operation, for the receiver and for a returned new object *)
  Lemma coherent_inv s o : Coherent s ->
    Coherent (fst (stepf s o)) /\
    (forall s' ob, snd (stepf s o) = Ok (RNew _ _ _ _ _ s', ob) -> Coherent s').
  Proof.
    destruct s as [k g hs d p cb cc ca cs]. unfold Coherent. cbn. intros (Hb & Hc & Ha & Hs).
    assert (T : forall (X : Type) (c : option X) (f : X), (c = None \/ c = Some f) ->
                Some (cached c f) = None \/ Some (cached c f) = Some f).
    { intros X c f [-> | ->]; cbn; auto. }
    destruct o as [r| |d' ip|x ip|ip|k' v ip]; unf.
    - split.
      + destruct r; cbn; unfold v_bounds, v_centroid, v_area, v_shapely; cbn;
          repeat match goal with |- context [if ?b then _ else _] => destruct b; cbn end;
          try (destruct d; cbn);
          repeat match goal with |- context [if ?b then _ else _] => destruct b; cbn end;
          try (destruct ca eqn:Eca; cbn); repeat split; auto.
      + intros s' ob H. destruct r; cbn in H;
          repeat match type of H with context [if ?b then _ else _] => destruct b; cbn in H end;
          try (destruct d; cbn in H);
          repeat match type of H with context [if ?b then _ else _] => destruct b; cbn in H end;
          inversion H.
    - split; [destruct k; cbn; auto|].
      intros s' ob H. destruct k; cbn in H; inversion H; subst; cbn; auto.
    - destruct ip; cbn; split; auto; intros s' ob H; inversion H; subst; cbn; auto.
    - cbn. destruct d as [[a b]|]; [|cbn; split; [auto | intros ? ? H; inversion H]].
      destruct (b + x <? a - x); [cbn; split; [auto | intros ? ? H; inversion H]|].
      destruct ip; cbn; split; auto; intros s' ob H; inversion H; subst; cbn; auto.
    - destruct ip; cbn; split; auto; intros s' ob H; inversion H; subst; cbn; auto.
    - destruct ip; cbn; split; auto; intros s' ob H; inversion H; subst; cbn; auto.
  Qed.

  Lemma run_coherent ops : forall s, Coherent s -> Coherent (runf ops s).
  Proof.
    induction ops as [|o ops IH]; intros s H; [exact H|]. cbn. apply IH. now apply coherent_inv.
  Qed.

  (* with coherent caches, every read answers what a freshly built object would answer *)
  Lemma obs_coherent s r : Coherent s ->
    snd (stepf s (Read r)) = snd (stepf (freshf (absf s)) (Read r)).
  Proof.
    intros (Hb & Hc & Ha & Hs).
    destruct r; unf; unfold v_bounds, v_centroid, v_area, v_shapely, cached; cbn; try reflexivity.
    - destruct Hb as [-> | ->]; reflexivity.
    - destruct Hc as [-> | ->]; reflexivity.
    - destruct (has_volume (kd _ _ _ _ _ s)); cbn; [|reflexivity]. destruct Ha as [-> | ->]; reflexivity.
    - destruct (has_volume (kd _ _ _ _ _ s)); cbn; [|reflexivity].
      destruct (dt _ _ _ _ _ s); cbn; [|reflexivity]. destruct Ha as [-> | ->]; reflexivity.
    - destruct Hs as [-> | ->]; reflexivity.
    - destruct (has_volume (kd _ _ _ _ _ s)); reflexivity.
    - destruct (has_volume (kd _ _ _ _ _ s)); reflexivity.
  Qed.

  (* after ANY history from a fresh object, every observation (volume included) is that of a fresh
     object with the same geometry, time and properties *)
  Theorem obs_as_fresh a ops r :
    let s := runf ops (freshf a) in
    snd (stepf s (Read r)) = snd (stepf (freshf (absf s)) (Read r)).
  Proof. cbn zeta. apply obs_coherent, run_coherent, fresh_coherent. Qed.

  (* the same for to_polygon's result *)
  Lemma to_polygon_as_fresh s : snd (stepf s ToPolygon) = snd (stepf (freshf (absf s)) ToPolygon) \/
    (kd _ _ _ _ _ s = KPolygon).
  Proof. unf. destruct (kd _ _ _ _ _ s); cbn; auto. Qed.

  (* inplace=False: the receiver is untouched (caches included) and the returned object is what the
     in-place update makes of a copy *)
  Theorem not_inplace_untouched s o : ip_of o = Some false ->
    fst (stepf s o) = s /\
    match snd (stepf s o) with
    | Ok (RNew _ _ _ _ _ s', _) =>
        s' = fst (stepf (copyf s) (force_ip o)) /\
        exists ob, snd (stepf (copyf s) (force_ip o)) = Ok (RSame _ _ _ _ _, ob)
    | Ok _ => False
    | Err e => snd (stepf (copyf s) (force_ip o)) = Err e
    end.
  Proof.
    destruct o as [r| |d ip|x ip|ip|k v ip]; cbn [ip_of]; try discriminate; intro H; inversion H; subst; unf.
    - cbn. split; [reflexivity|]. split; [reflexivity|eauto].
    - cbn. destruct (dt _ _ _ _ _ s) as [[a b]|]; cbn; [|auto].
      destruct (b + x <? a - x); cbn; [auto|]. split; [reflexivity|]. split; [reflexivity|eauto].
    - cbn. split; [reflexivity|]. split; [reflexivity|eauto].
    - cbn. split; [reflexivity|]. split; [reflexivity|eauto].
  Qed.

  (* inplace=True: the receiver is the returned object *)
  Lemma inplace_returns_self s o r ob : ip_of o = Some true -> snd (stepf s o) = Ok (r, ob) ->
    r = RSame _ _ _ _ _.
  Proof.
    destruct o as [q| |d ip|x ip|ip|k v ip]; cbn [ip_of]; try discriminate; intro H; inversion H; subst; unf; cbn.
    - intro K; inversion K; reflexivity.
    - destruct (dt _ _ _ _ _ s) as [[a b]|]; [|discriminate].
      destruct (b + x <? a - x); [discriminate|]. intro K; inversion K; reflexivity.
    - intro K; inversion K; reflexivity.
    - intro K; inversion K; reflexivity.
  Qed.

  (* what the in-place updates do to the observable state (their specification) *)
  Lemma update_spec s :
    (forall d, absf (fst (stepf s (SetDt d true))) = (kd _ _ _ _ _ s, geom _ _ _ _ _ s, holes _ _ _ _ _ s, d, props _ _ _ _ _ s)) /\
    (absf (fst (stepf s (StripDt true))) = (kd _ _ _ _ _ s, geom _ _ _ _ _ s, holes _ _ _ _ _ s, None, props _ _ _ _ _ s)) /\
    (forall k v, absf (fst (stepf s (SetProp k v true))) =
                 (kd _ _ _ _ _ s, geom _ _ _ _ _ s, holes _ _ _ _ _ s, dt _ _ _ _ _ s, set_assoc k v (props _ _ _ _ _ s))) /\
    (forall x a b, dt _ _ _ _ _ s = Some (a, b) -> a - x <= b + x ->
                   absf (fst (stepf s (BufferDt x true))) =
                   (kd _ _ _ _ _ s, geom _ _ _ _ _ s, holes _ _ _ _ _ s, Some (a - x, b + x), props _ _ _ _ _ s)) /\
    (forall x ip, dt _ _ _ _ _ s = None -> stepf s (BufferDt x ip) = (s, Err ValueError)).
  Proof.
    repeat split; intros; unf; cbn; try reflexivity.
    - rewrite H. destruct (b + x <? a - x) eqn:E; [lia|]. reflexivity.
    - rewrite H. reflexivity.
  Qed.

  (* set_assoc is dict assignment: afterwards the key maps to the value, other keys are unchanged *)
  Fixpoint get (k : Z) (p : pdict) : option Z :=
    match p with [] => None | (k', v) :: t => if k' =? k then Some v else get k t end.
  Lemma get_set_assoc k v p k' :
    get k' (set_assoc k v p) = if k' =? k then Some v else get k' p.
  Proof.
    induction p as [|[a b] p IH]; cbn.
    - destruct (k =? k') eqn:E, (k' =? k) eqn:F; try reflexivity; lia.
    - destruct (a =? k) eqn:E; cbn.
      + destruct (k =? k') eqn:F, (k' =? k) eqn:F', (a =? k') eqn:F''; try reflexivity; lia.
      + destruct (a =? k') eqn:F; [|exact IH]. destruct (k' =? k) eqn:F'; [lia | reflexivity].
  Qed.
End Proofs.
