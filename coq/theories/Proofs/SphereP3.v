(* The direct problem (inverse_haversine_radians, inverse_haversine_degrees): the destination lies at the requested distance and
   on the requested initial bearing. *)
From GV Require Import Prelude SphereM SphereP1 SphereP2.
From Coq Require Import Reals Lra Nsatz.
Open Scope R_scope.

Lemma hdist_great_circle_full p q :
  cos (hdist p q / Rearth) = dot3 (uvec p) (uvec q) /\
  hdist p q = Rearth * acos (dot3 (uvec p) (uvec q)) /\ Rearth = 6371000.
Proof.
  rewrite hdist_unwrap. split; [apply hav_is_great_circle|]. split; [apply hdist_raw_acos|reflexivity].
Qed.

Lemma deg_rad_same p a d :
  dest_deg p a d = dest_rad p (a * PI / 180) d /\
  dest_deg_rounded p a d = dest_rad_rounded p (a * PI / 180) d.
Proof. unfold dest_deg, dest_deg_rounded. rewrite rad_alt. split; reflexivity. Qed.

Lemma dest_rounding p theta d :
  Rabs (lon (dest_rad_rounded p theta d) - lon (dest_rad p theta d)) <= / 2 / 10 ^ 7 + / 10 ^ 19 /\
  Rabs (lat (dest_rad_rounded p theta d) - lat (dest_rad p theta d)) <= / 2 / 10 ^ 7 + / 10 ^ 19.
Proof.
  unfold dest_rad_rounded, lon, lat; cbn [fst snd].
  assert (0 < / 10 ^ 19) by (apply Rinv_0_lt_compat, pow_lt; lra).
  split.
  - pose proof (round_half_up_err (fst (dest_rad p theta d)) 7) as E.
    replace (7 + 12)%nat with 19%nat in E by reflexivity. apply Rabs_le. lra.
  - pose proof (round_half_up_err (snd (dest_rad p theta d)) 7) as E.
    replace (7 + 12)%nat with 19%nat in E by reflexivity. apply Rabs_le. lra.
Qed.

(* ---------------------------------------------------------------- algebra of the direct problem *)
Lemma dest_norm (s1 c1 sr cr st ct : R) :
  s1 * s1 + c1 * c1 = 1 -> sr * sr + cr * cr = 1 -> st * st + ct * ct = 1 ->
  let s2 := s1 * cr + c1 * sr * ct in let X := cr - s1 * s2 in let Y := st * sr * c1 in
  X * X + Y * Y = c1 * c1 * (1 - s2 * s2).
Proof. intros H1 H2 H3 s2 X Y. unfold X, Y, s2. nsatz. Qed.

Lemma s2_compl (s1 c1 sr cr st ct : R) :
  s1 * s1 + c1 * c1 = 1 -> sr * sr + cr * cr = 1 -> st * st + ct * ct = 1 ->
  let s2 := s1 * cr + c1 * sr * ct in
  1 - s2 * s2 = (sr * st) * (sr * st) + (c1 * cr - s1 * sr * ct) * (c1 * cr - s1 * sr * ct).
Proof. intros H1 H2 H3 s2. unfold s2. nsatz. Qed.

Lemma sc1 x : sin x * sin x + cos x * cos x = 1.
Proof. pose proof (sin2_cos2 x) as E. unfold Rsqr in E. exact E. Qed.

(* the sine of the destination latitude is a sine *)
Definition s2_of (f1 r t : R) : R := sin f1 * cos r + cos f1 * sin r * cos t.

Lemma s2_range f1 r t : -1 <= s2_of f1 r t <= 1.
Proof.
  pose proof (s2_compl _ _ _ _ _ _ (sc1 f1) (sc1 r) (sc1 t)) as E. cbv zeta in E.
  fold (s2_of f1 r t) in E. set (s := s2_of f1 r t) in *.
  assert (s * s <= 1).
  { pose proof (Rle_0_sqr (sin r * sin t)) as A.
    pose proof (Rle_0_sqr (cos f1 * cos r - sin f1 * sin r * cos t)) as B.
    unfold Rsqr in A, B. lra. }
  split; nra.
Qed.

Section Direct.
  Variables f1 r t : R.                 (* start latitude (rad), angular distance, bearing (rad) *)
  Let s2 := s2_of f1 r t.
  Let f2 := asin s2.
  Let X := cos r - sin f1 * sin f2.
  Let Y := sin t * sin r * cos f1.
  Let dl := atan2 Y X.

  Lemma sin_f2 : sin f2 = s2.
  Proof. apply sin_asin, s2_range. Qed.

  Lemma cos_f2 : cos f2 = sqrt (1 - s2 * s2).
  Proof. unfold f2. rewrite cos_asin by apply s2_range. reflexivity. Qed.

  Lemma cos_f2_nonneg : 0 <= cos f2.
  Proof. rewrite cos_f2. apply sqrt_pos. Qed.

  Lemma cos_f2_sq : cos f2 * cos f2 = 1 - s2 * s2.
  Proof. pose proof (sc1 f2) as E. rewrite sin_f2 in E. lra. Qed.

  Lemma XY_norm : X * X + Y * Y = (cos f1 * cos f2) * (cos f1 * cos f2).
  Proof.
    unfold X, Y. rewrite sin_f2.
    pose proof (dest_norm _ _ _ _ _ _ (sc1 f1) (sc1 r) (sc1 t)) as E. cbv zeta in E.
    fold (s2_of f1 r t) in E. fold s2 in E. rewrite E.
    replace (cos f1 * cos f2 * (cos f1 * cos f2)) with (cos f1 * cos f1 * (cos f2 * cos f2)) by ring.
    rewrite cos_f2_sq. reflexivity.
  Qed.

  (* the law of cosines at the destination gives back cos r *)
  Lemma dest_cos_angle : 0 <= cos f1 ->
    sin f1 * sin f2 + cos f1 * cos f2 * cos dl = cos r.
  Proof.
    intros Hc. pose proof cos_f2_nonneg as Hc2. pose proof XY_norm as N.
    set (rho := cos f1 * cos f2) in *.
    assert (Hrho : 0 <= rho) by (unfold rho; nra).
    destruct (Req_dec rho 0) as [Z|NZ].
    - assert (X = 0) by nra. assert (Y = 0) by nra.
      unfold dl. rewrite H, H0, atan2_0_0, cos_0, Z. unfold X in H. lra.
    - assert (Hne : X <> 0 \/ Y <> 0).
      { destruct (Req_dec X 0) as [EX|EX]; [right|left; exact EX]. intro EY.
        rewrite EX, EY in N. nra. }
      unfold dl. rewrite cos_atan2 by exact Hne. rewrite N, sqrt_square by exact Hrho.
      replace (rho * (X / rho)) with X by (field; exact NZ). unfold X. ring.
  Qed.

  (* the bearing formula evaluated at the destination *)
  Lemma dest_bearing_xy : 0 < cos f1 -> 0 < cos f2 ->
    cos f2 * sin dl = sin r * sin t /\
    cos f1 * sin f2 - sin f1 * cos f2 * cos dl = sin r * cos t.
  Proof.
    intros Hc Hc2. pose proof XY_norm as N.
    set (rho := cos f1 * cos f2) in *.
    assert (Hrho : 0 < rho) by (unfold rho; nra).
    assert (Hne : X <> 0 \/ Y <> 0).
    { destruct (Req_dec X 0) as [EX|EX]; [right|left; exact EX]. intro EY.
      rewrite EX, EY in N. nra. }
    unfold dl. rewrite cos_atan2, sin_atan2 by exact Hne. rewrite N, sqrt_square by lra.
    unfold rho. split.
    - unfold Y. field. lra.
    - replace (sin f1 * cos f2 * (X / (cos f1 * cos f2))) with (sin f1 * X / cos f1) by (field; lra).
      unfold X. rewrite sin_f2. unfold s2, s2_of.
      pose proof (sc1 f1) as E.
      replace (cos f1 * (sin f1 * cos r + cos f1 * sin r * cos t) -
               sin f1 * (cos r - sin f1 * (sin f1 * cos r + cos f1 * sin r * cos t)) / cos f1)
        with ((cos f1 * cos f1 + sin f1 * sin f1) * (sin f1 * cos r + cos f1 * sin r * cos t) / cos f1
              - sin f1 * cos r / cos f1) by (field; lra).
      replace (cos f1 * cos f1 + sin f1 * sin f1) with 1 by lra. field. lra.
  Qed.
End Direct.

(* ---------------------------------------------------------------- unfolding dest_rad *)
Lemma dest_rad_lat p t d :
  rad (lat (dest_rad p t d)) = asin (s2_of (rad (lat p)) (d / Rearth) t).
Proof.
  unfold dest_rad, lat; cbn [snd]. rewrite deg_alt, rad_deg_id, rad_alt. reflexivity.
Qed.

Lemma dest_rad_lon p t d :
  rad (lon (dest_rad p t d)) - rad (lon p) =
  atan2 (sin t * sin (d / Rearth) * cos (rad (lat p)))
        (cos (d / Rearth) - sin (rad (lat p)) * sin (asin (s2_of (rad (lat p)) (d / Rearth) t))).
Proof.
  unfold dest_rad, lon, lat; cbn [fst snd]. rewrite deg_alt, rad_deg_id, !rad_alt.
  unfold s2_of. ring.
Qed.

Lemma cos_lat_nonneg x : -90 <= x <= 90 -> 0 <= cos (rad x).
Proof. intros H. pose proof PI_RGT_0. apply cos_ge_0; unfold rad; nra. Qed.
Lemma cos_lat_pos x : -90 < x < 90 -> 0 < cos (rad x).
Proof. intros H. pose proof PI_RGT_0. apply cos_gt_0; unfold rad; nra. Qed.

(* ---------------------------------------------------------------- dest_dist *)
Theorem dest_dist p theta d :
  -90 <= lat p <= 90 -> 0 <= d <= PI * Rearth ->
  hdist p (dest_rad p theta d) = d.
Proof.
  intros Hlat Hd. rewrite hdist_unwrap. pose proof Rearth_pos as HR.
  destruct (hdist_raw_angle p (dest_rad p theta d)) as [Ht Hc]. cbv zeta in Ht, Hc.
  assert (Hr : 0 <= d / Rearth <= PI).
  { assert (E : d = d / Rearth * Rearth) by (field; lra).
    assert (0 < / Rearth) by (apply Rinv_0_lt_compat; lra).
    unfold Rdiv. split; [nra|]. apply Rmult_le_reg_r with Rearth; [lra|].
    rewrite Rmult_assoc, Rinv_l by lra. lra. }
  assert (Heq : hdist_raw p (dest_rad p theta d) / Rearth = d / Rearth).
  { apply cos_inj; [exact Ht|exact Hr|]. rewrite Hc. unfold hav_of. rewrite hav_a_dot.
    rewrite dest_rad_lon, dest_rad_lat. apply dest_cos_angle. apply cos_lat_nonneg, Hlat. }
  apply Rmult_eq_reg_r with (/ Rearth); [exact Heq|]. apply Rinv_neq_0_compat; lra.
Qed.

(* ---------------------------------------------------------------- dest_bearing *)
Lemma bearing_xy_dest p t d :
  0 < cos (rad (lat p)) -> 0 < cos (rad (lat (dest_rad p t d))) ->
  bearing_xy p (dest_rad p t d) = (sin (d / Rearth) * sin t, sin (d / Rearth) * cos t).
Proof.
  intros H1 H2. unfold bearing_xy. rewrite rad_minus, dest_rad_lon.
  rewrite dest_rad_lat in *.
  destruct (dest_bearing_xy (rad (lat p)) (d / Rearth) t H1 H2) as [E1 E2].
  rewrite E1, E2. reflexivity.
Qed.

Lemma sin_ang_pos d : 0 < d < PI * Rearth -> 0 < sin (d / Rearth).
Proof.
  intros Hd. pose proof Rearth_pos as HR. assert (0 < / Rearth) by (apply Rinv_0_lt_compat; lra).
  apply sin_gt_0; unfold Rdiv; [nra|].
  apply Rmult_lt_reg_r with Rearth; [lra|]. rewrite Rmult_assoc, Rinv_l by lra. lra.
Qed.

Theorem dest_bearing_rad p t d :
  -90 < lat p < 90 -> 0 < d < PI * Rearth -> - PI < t <= PI ->
  -90 < lat (dest_rad p t d) < 90 ->
  bearing_raw p (dest_rad p t d) = Rmod (deg t + 360) 360.
Proof.
  intros Hlat Hd Ht Hlat2. unfold bearing_raw.
  rewrite bearing_xy_dest by (apply cos_lat_pos; assumption). cbn [fst snd].
  rewrite atan2_polar; [reflexivity|apply sin_ang_pos; exact Hd|exact Ht].
Qed.

(* dest_rad depends on the bearing only through its sine and cosine *)
Lemma dest_rad_period p t d : dest_rad p (t - 2 * PI) d = dest_rad p t d.
Proof.
  unfold dest_rad.
  replace (t - 2 * PI) with (t + 2 * IZR (-1) * PI) by (simpl; ring).
  rewrite cos_period_Z, sin_period_Z. reflexivity.
Qed.

Theorem dest_bearing_deg p b d :
  -90 < lat p < 90 -> 0 < d < PI * Rearth -> 0 <= b < 360 ->
  -90 < lat (dest_deg p b d) < 90 ->
  bearing_raw p (dest_deg p b d) = b.
Proof.
  intros Hlat Hd Hb Hlat2. unfold dest_deg in *. pose proof PI_RGT_0 as HP.
  destruct (Rle_dec b 180) as [L|G].
  - rewrite dest_bearing_rad; try assumption.
    + rewrite deg_rad_id. rewrite Rmod_wrap; lra.
    + unfold rad. split; nra.
  - rewrite <- dest_rad_period in *. rewrite dest_bearing_rad; try assumption.
    + replace (rad b - 2 * PI) with (rad (b - 360)) by (unfold rad; field).
      rewrite deg_rad_id. rewrite Rmod_small; lra.
    + unfold rad. split; nra.
Qed.

(* ---------------------------------------------------------------- a concrete instance *)
Lemma nonvacuous_dest : let p := (10, 45) in
  (-90 < lat p < 90) /\ (0 < 1000000 < PI * Rearth) /\ (0 <= 30 < 360) /\
  hdist p (dest_deg p 30 1000000) = 1000000.
Proof.
  intros p. pose proof PI_RGT_0. pose proof PI_4 as P4. unfold p, lat, Rearth; cbn [snd].
  assert (3 < PI) by (pose proof PI_ineq 0%nat; pose proof (PI_4); pose proof PI2_3_2; lra).
  split; [lra|]. split; [nra|]. split; [lra|].
  unfold dest_deg. apply dest_dist; unfold lat, Rearth; cbn [snd]; [lra|nra].
Qed.
