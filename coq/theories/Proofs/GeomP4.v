(* C01: independence of the start vertex and of the winding direction, including the
   constructor's closing and right-hand-rule normalisation. *)
From Coq Require Import Permutation.
From GV Require Import Prelude GeomM GeomP GeomP2 GeomP3.
Open Scope Z_scope.

Definition rot (k : nat) (o : list pt) : list pt := skipn k o ++ firstn k o.
Definition swap_seg (e : seg) : seg := (snd e, fst e).

(* a closed outline [v0; ...; vn-1; v0] as the constructor expects it, from the open one *)
Definition reclose (o : list pt) : list pt :=
  match o with [] => [] | v :: _ => o ++ [v] end.

(* ------------------------------------------------------------------ consecutive pairs *)

Fixpoint pairs (l : list pt) : list seg :=
  match l with
  | a :: (b :: _) as t => (a, b) :: pairs t
  | _ => []
  end.

Lemma combine_pairs tl : forall v u, combine (v :: tl) (tl ++ [u]) = pairs (v :: tl ++ [u]).
Proof.
  induction tl as [|x tl IH]; intros v u; [reflexivity|].
  change (combine (v :: x :: tl) ((x :: tl) ++ [u])) with ((v, x) :: combine (x :: tl) (tl ++ [u])).
  rewrite IH. reflexivity.
Qed.

Lemma cyc_edges_pairs r :
  cyc_edges r = match r with [] => [] | v :: _ => pairs (r ++ [v]) end.
Proof. destruct r as [|v tl]; [reflexivity|]. cbn [cyc_edges]. apply combine_pairs. Qed.

Lemma pairs_app l1 : forall x l2, pairs (l1 ++ x :: l2) = pairs (l1 ++ [x]) ++ pairs (x :: l2).
Proof.
  induction l1 as [|a l1 IH]; intros x l2; [reflexivity|].
  destruct l1 as [|b l1].
  - reflexivity.
  - change (pairs ((a :: b :: l1) ++ x :: l2)) with ((a, b) :: pairs ((b :: l1) ++ x :: l2)).
    rewrite IH. reflexivity.
Qed.

Lemma pairs_rev l : forall a, pairs (rev (a :: l)) = rev (map swap_seg (pairs (a :: l))).
Proof.
  induction l as [|b t IH]; intros a; [reflexivity|].
  change (rev (a :: b :: t)) with (rev (b :: t) ++ [a]).
  cbn [rev] in *. rewrite <- app_assoc. cbn [app]. rewrite pairs_app.
  change (pairs (a :: b :: t)) with ((a, b) :: pairs (b :: t)).
  cbn [map rev]. rewrite <- IH. reflexivity.
Qed.

(* ------------------------------------------------------------------ the edge multiset *)

Lemma cyc_edges_app_comm l1 l2 : Permutation (cyc_edges (l2 ++ l1)) (cyc_edges (l1 ++ l2)).
Proof.
  destruct l1 as [|a l1]; [rewrite app_nil_r; reflexivity|].
  destruct l2 as [|b l2]; [rewrite app_nil_r; reflexivity|].
  rewrite !cyc_edges_pairs. cbn [app].
  rewrite <- !app_assoc. cbn [app].
  change (pairs (b :: l2 ++ a :: l1 ++ [b])) with (pairs ((b :: l2) ++ a :: l1 ++ [b])).
  change (pairs (a :: l1 ++ b :: l2 ++ [a])) with (pairs ((a :: l1) ++ b :: l2 ++ [a])).
  rewrite (pairs_app (b :: l2) a (l1 ++ [b])), (pairs_app (a :: l1) b (l2 ++ [a])).
  apply Permutation_app_comm.
Qed.

Lemma cyc_edges_rot k o : Permutation (cyc_edges (rot k o)) (cyc_edges o).
Proof.
  unfold rot. rewrite <- (firstn_skipn k o) at 3. apply cyc_edges_app_comm.
Qed.

Lemma cyc_edges_rev r : Permutation (cyc_edges (rev r)) (map swap_seg (cyc_edges r)).
Proof.
  destruct r as [|v tl]; [reflexivity|].
  destruct (rev tl) as [|z m] eqn:E.
  - assert (tl = []) by (destruct tl; [reflexivity|]; cbn in E; destruct (rev tl); discriminate).
    subst tl. reflexivity.
  - transitivity (rev (map swap_seg (cyc_edges (v :: tl)))); [|symmetry; apply Permutation_rev].
    rewrite (cyc_edges_pairs (v :: tl)).
    assert (Hr : rev ((v :: tl) ++ [v]) = v :: z :: m ++ [v]).
    { rewrite rev_app_distr. cbn [rev app]. rewrite E. reflexivity. }
    destruct ((v :: tl) ++ [v]) as [|a l] eqn:El; [discriminate|].
    rewrite <- pairs_rev, Hr.
    cbn [rev]. rewrite E. rewrite cyc_edges_pairs. cbn [app].
    change (z :: (m ++ [v]) ++ [z]) with ((z :: m ++ [v]) ++ [z]).
    replace ((z :: m ++ [v]) ++ [z]) with ((z :: m) ++ v :: [z])
      by (cbn [app]; rewrite <- app_assoc; reflexivity).
    rewrite (pairs_app (z :: m) v [z]).
    change (pairs [v; z]) with [(v, z)].
    change (pairs (v :: z :: m ++ [v])) with ((v, z) :: pairs (z :: m ++ [v])).
    cbn [app]. symmetry. apply Permutation_cons_append.
Qed.

Lemma cyc_edges_reclose o : cyc_edges (reclose o) =
  match o with [] => [] | v :: _ => cyc_edges o ++ [(v, v)] end.
Proof.
  destruct o as [|v tl]; [reflexivity|]. cbn [reclose].
  rewrite !cyc_edges_pairs. cbn [app].
  change (v :: (tl ++ [v]) ++ [v]) with ((v :: tl ++ [v]) ++ [v]).
  replace ((v :: tl ++ [v]) ++ [v]) with ((v :: tl) ++ v :: [v])
    by (cbn [app]; rewrite <- app_assoc; reflexivity).
  rewrite (pairs_app (v :: tl) v [v]). reflexivity.
Qed.

(* ------------------------------------------------------------------ the specification is a function of the multiset *)

Lemma par_perm {A} (f : A -> bool) l l' : Permutation l l' -> par f l = par f l'.
Proof.
  induction 1; cbn [par fold_right] in *.
  - reflexivity.
  - fold (par f l) (par f l'). rewrite IHPermutation. reflexivity.
  - fold (par f l). destruct (f x), (f y), (par f l); reflexivity.
  - congruence.
Qed.

Lemma par_map {A B} (f : B -> bool) (g : A -> B) l : par f (map g l) = par (fun x => f (g x)) l.
Proof.
  induction l as [|x l IH]; [reflexivity|]. cbn [map par fold_right].
  fold (par f (map g l)) (par (fun x => f (g x)) l). rewrite IH. reflexivity.
Qed.

Lemma par_app {A} (f : A -> bool) l1 l2 : par f (l1 ++ l2) = xorb (par f l1) (par f l2).
Proof.
  induction l1 as [|x l1 IH]; cbn [app par fold_right].
  - fold (par f l2). destruct (par f l2); reflexivity.
  - fold (par f (l1 ++ l2)) (par f l1). rewrite IH.
    destruct (f x), (par f l1), (par f l2); reflexivity.
Qed.

Lemma cross_swap a b p : cross b a p = - cross a b p.
Proof. unfold cross. ring. Qed.

Lemma on_seg_swap p a b : on_seg p b a <-> on_seg p a b.
Proof.
  unfold on_seg. rewrite cross_swap.
  rewrite (Z.min_comm (px b)), (Z.max_comm (px b)), (Z.min_comm (py b)), (Z.max_comm (py b)). lia.
Qed.

Lemma straddles_swap p a b : straddles p b a = straddles p a b.
Proof. unfold straddles. destruct (py p <? py a), (py p <? py b); reflexivity. Qed.

Lemma east_z_swap p e : east_z p (swap_seg e) = east_z p e.
Proof.
  destruct e as [a b]. unfold swap_seg, east_z. cbn [fst snd].
  rewrite straddles_swap, cross_swap.
  replace (- cross a b p * (py a - py b)) with (cross a b p * (py b - py a)) by ring. reflexivity.
Qed.

Definition bnd_in (p : pt) (es : list seg) : Prop := exists e, In e es /\ on_seg p (fst e) (snd e).

Lemma bnd_in_perm p l l' : Permutation l l' -> (bnd_in p l <-> bnd_in p l').
Proof.
  intros H. split; intros (e & He & Ho); exists e; split; auto.
  - eapply Permutation_in; eauto.
  - eapply Permutation_in; [symmetry|]; eauto.
Qed.

Lemma bnd_in_swap p l : bnd_in p (map swap_seg l) <-> bnd_in p l.
Proof.
  split.
  - intros (e & He & Ho). apply in_map_iff in He. destruct He as (e' & <- & He').
    exists e'. split; [assumption|]. apply on_seg_swap. exact Ho.
  - intros (e & He & Ho). exists (swap_seg e). split; [apply in_map; assumption|].
    apply on_seg_swap. exact Ho.
Qed.

Lemma on_seg_end a b : on_seg a a b.
Proof. unfold on_seg, cross. split; [ring|lia]. Qed.

Section Invariance.
  Variable p : pt.

  Lemma on_boundary_rot k o : on_boundary p (rot k o) <-> on_boundary p o.
  Proof. apply bnd_in_perm, cyc_edges_rot. Qed.

  Lemma evenodd_rot k o : evenodd p (rot k o) <-> evenodd p o.
  Proof. rewrite !evenodd_par, (par_perm _ _ _ (cyc_edges_rot k o)). reflexivity. Qed.

  Lemma on_boundary_rev o : on_boundary p (rev o) <-> on_boundary p o.
  Proof.
    unfold on_boundary. fold (bnd_in p (cyc_edges (rev o))) (bnd_in p (cyc_edges o)).
    rewrite (bnd_in_perm _ _ _ (cyc_edges_rev o)). apply bnd_in_swap.
  Qed.

  Lemma evenodd_rev o : evenodd p (rev o) <-> evenodd p o.
  Proof.
    rewrite !evenodd_par, (par_perm _ _ _ (cyc_edges_rev o)), par_map.
    rewrite (par_ext _ (east_z p)); [reflexivity|]. intros e _. apply east_z_swap.
  Qed.

  Lemma on_boundary_reclose o : on_boundary p (reclose o) <-> on_boundary p o.
  Proof.
    unfold on_boundary. rewrite cyc_edges_reclose. destruct o as [|v tl]; [reflexivity|].
    split.
    - intros (e & He & Ho). apply in_app_or in He. destruct He as [He|[<-|[]]].
      + exists e; auto.
      + cbn [fst snd] in Ho.
        assert (p = v).
        { destruct Ho as (_ & Hx & Hy). rewrite Z.min_id, Z.max_id in *.
          destruct p, v. cbn [px py fst snd] in *. f_equal; lia. }
        subst p. cbn [cyc_edges].
        destruct (tl ++ [v]) as [|x t] eqn:E; [destruct tl; discriminate|].
        exists (v, x). split; [left; reflexivity|apply on_seg_end].
    - intros (e & He & Ho). exists e. split; [apply in_or_app; left; assumption|assumption].
  Qed.

  Lemma evenodd_reclose o : evenodd p (reclose o) <-> evenodd p o.
  Proof.
    rewrite !evenodd_par, cyc_edges_reclose. destruct o as [|v tl]; [reflexivity|].
    rewrite par_app. cbn [par fold_right east_z].
    replace (straddles p v v) with false
      by (unfold straddles; destruct (py p <? py v); reflexivity).
    cbn [andb xorb]. destruct (par (east_z p) (cyc_edges (v :: tl))); reflexivity.
  Qed.

  Lemma strict_in_rot k o : strict_in p (rot k o) <-> strict_in p o.
  Proof. unfold strict_in. rewrite on_boundary_rot, evenodd_rot. reflexivity. Qed.
  Lemma strict_in_rev o : strict_in p (rev o) <-> strict_in p o.
  Proof. unfold strict_in. rewrite on_boundary_rev, evenodd_rev. reflexivity. Qed.
  Lemma strict_in_reclose o : strict_in p (reclose o) <-> strict_in p o.
  Proof. unfold strict_in. rewrite on_boundary_reclose, evenodd_reclose. reflexivity. Qed.

  (* GeoPolygon.__init__ on an already closed outline: identity or reversal *)
  Lemma close_ring_reclose o : close_ring (reclose o) = reclose o.
  Proof.
    destruct o as [|v tl]; [reflexivity|]. cbn [reclose app close_ring].
    change (v :: tl ++ [v]) with ((v :: tl) ++ [v]). rewrite last_last.
    unfold pt_eqb. rewrite !Z.eqb_refl. reflexivity.
  Qed.

  Lemma strict_in_norm h o : strict_in p (norm_outline h (reclose o)) <-> strict_in p o.
  Proof.
    unfold norm_outline. rewrite close_ring_reclose.
    destruct (negb _); [rewrite strict_in_rev|]; apply strict_in_reclose.
  Qed.
End Invariance.

(* ------------------------------------------------------------------ the same for the code *)

Lemma in_rot k o v : In v (rot k o) <-> In v o.
Proof.
  unfold rot. rewrite in_app_iff. rewrite <- (firstn_skipn k o) at 3. rewrite in_app_iff. tauto.
Qed.

Lemma in_reclose o v : In v (reclose o) <-> In v o.
Proof.
  destruct o as [|x tl]; [reflexivity|]. cbn [reclose]. rewrite in_app_iff. cbn [In]. tauto.
Qed.

Lemma in_norm h o v : In v (norm_outline h (reclose o)) <-> In v o.
Proof.
  unfold norm_outline. rewrite close_ring_reclose.
  destruct (negb _); [rewrite <- in_rev|]; apply in_reclose.
Qed.

Lemma west_ok_norm w h o : west_ok w o -> west_ok w (norm_outline h (reclose o)).
Proof. intros H v Hv. apply H. apply in_norm in Hv. exact Hv. Qed.

Lemma bool_eq_iff (a b : bool) : (a = true <-> b = true) -> a = b.
Proof. destruct a, b; intuition congruence. Qed.

(* the stored outline built from any rotation / the reversal of the open outline, whatever
   orientation flag, gives the same answers *)
Theorem pip_norm w p h o : west_ok w o -> w <= px p ->
  (pip w p (norm_outline h (reclose o)) = true <-> strict_in p o).
Proof.
  intros Hw Hp. rewrite (pip_true_iff w p _ (west_ok_norm w h o Hw) Hp). apply strict_in_norm.
Qed.

Theorem pip_rotation w p h h' k o : west_ok w o -> w <= px p ->
  pip w p (norm_outline h (reclose (rot k o))) = pip w p (norm_outline h' (reclose o)).
Proof.
  intros Hw Hp. apply bool_eq_iff. rewrite !pip_norm; auto.
  - apply strict_in_rot.
  - intros v Hv. apply Hw. apply in_rot in Hv. exact Hv.
Qed.

Theorem pip_reversal w p h h' o : west_ok w o -> w <= px p ->
  pip w p (norm_outline h (reclose (rev o))) = pip w p (norm_outline h' (reclose o)).
Proof.
  intros Hw Hp. apply bool_eq_iff. rewrite !pip_norm; auto.
  - apply strict_in_rev.
  - intros v Hv. apply Hw. apply in_rev in Hv. exact Hv.
Qed.

Theorem poly_contains_norm w p h o hs :
  west_ok w o -> (forall x, In x hs -> hole_ok w x) -> w <= px p ->
  (poly_contains w (norm_outline h (reclose o)) hs p = true <->
   strict_in p o /\ forall x, In x hs -> ~ hole_mem x p).
Proof.
  intros Hw Hh Hp.
  rewrite (poly_contains_spec w _ hs p (west_ok_norm w h o Hw) Hh Hp), strict_in_norm. reflexivity.
Qed.

Theorem poly_contains_rotation w p h h' k o hs :
  west_ok w o -> (forall x, In x hs -> hole_ok w x) -> w <= px p ->
  poly_contains w (norm_outline h (reclose (rot k o))) hs p =
  poly_contains w (norm_outline h' (reclose o)) hs p.
Proof.
  intros Hw Hh Hp. apply bool_eq_iff. rewrite !poly_contains_norm; auto.
  - rewrite strict_in_rot. reflexivity.
  - intros v Hv. apply Hw. apply in_rot in Hv. exact Hv.
Qed.

Theorem poly_contains_reversal w p h h' o hs :
  west_ok w o -> (forall x, In x hs -> hole_ok w x) -> w <= px p ->
  poly_contains w (norm_outline h (reclose (rev o))) hs p =
  poly_contains w (norm_outline h' (reclose o)) hs p.
Proof.
  intros Hw Hh Hp. apply bool_eq_iff. rewrite !poly_contains_norm; auto.
  - rewrite strict_in_rev. reflexivity.
  - intros v Hv. apply Hw. apply in_rev in Hv. exact Hv.
Qed.

(* ------------------------------------------------------------------ concrete instances (non-vacuity) *)

Ltac west_ok_tac :=
  let v := fresh "v" in let Hv := fresh "Hv" in
  intros v Hv; cbn in Hv; repeat (destruct Hv as [<-|Hv]; [cbn; lia|]); destruct Hv.

Definition ex_diamond : list pt := [(0, 2); (2, 0); (0, -2); (-2, 0)].

Lemma nonvacuous_diamond_centre :
  west_ok (-360) ex_diamond /\ -360 <= px (0, 0) /\ ~ on_boundary (0, 0) ex_diamond /\
  evenodd (0, 0) ex_diamond /\ pip (-360) (0, 0) (norm_outline false (reclose ex_diamond)) = true.
Proof.
  assert (Hw : west_ok (-360) ex_diamond) by west_ok_tac.
  assert (Hs : strict_in (0, 0) ex_diamond).
  { apply (pip_true_iff (-360)); [exact Hw|cbn; lia|vm_compute; reflexivity]. }
  destruct Hs as [Hb He].
  split; [exact Hw|]. split; [cbn; lia|]. split; [exact Hb|]. split; [exact He|].
  vm_compute; reflexivity.
Qed.

Lemma nonvacuous_boundary :
  on_boundary (1, 1) ex_diamond /\ on_boundary (2, 0) ex_diamond /\
  pip (-360) (1, 1) ex_diamond = false /\ pip (-360) (2, 0) ex_diamond = false.
Proof.
  split; [apply on_boundary_existsb; vm_compute; reflexivity|].
  split; [apply on_boundary_existsb; vm_compute; reflexivity|].
  split; vm_compute; reflexivity.
Qed.

Lemma nonvacuous_hole :
  let o := [(0, 0); (16, 0); (16, 16); (0, 16)] in
  let ho := [(4, 4); (8, 12); (12, 4)] in
  west_ok (-360) o /\ west_ok (-360) ho /\ strict_in (8, 12) o /\ on_boundary (8, 12) ho /\
  strict_in (8, 8) ho /\
  poly_contains (-360) (reclose o) [HPoly (reclose ho)] (8, 12) = true /\
  poly_contains (-360) (reclose o) [HPoly (reclose ho)] (8, 8) = false.
Proof.
  intros o ho.
  assert (Hw : west_ok (-360) o) by west_ok_tac.
  assert (Hh : west_ok (-360) ho) by west_ok_tac.
  split; [exact Hw|]. split; [exact Hh|].
  split; [apply (pip_true_iff (-360)); [exact Hw|cbn; lia|vm_compute; reflexivity]|].
  split; [apply on_boundary_existsb; vm_compute; reflexivity|].
  split; [apply (pip_true_iff (-360)); [exact Hh|cbn; lia|vm_compute; reflexivity]|].
  split; vm_compute; reflexivity.
Qed.

(* an outline handed over open (first <> last) is closed by the constructor: same answers *)
Lemma norm_outline_open h v tl : pt_eqb v (last (v :: tl) v) = false ->
  norm_outline h (v :: tl) = norm_outline h (reclose (v :: tl)).
Proof.
  intros H. unfold norm_outline. rewrite close_ring_reclose.
  assert (E : close_ring (v :: tl) = reclose (v :: tl)) by (unfold close_ring; rewrite H; reflexivity).
  rewrite E. reflexivity.
Qed.

Theorem pip_norm_open w p h v tl : west_ok w (v :: tl) -> w <= px p ->
  pt_eqb v (last (v :: tl) v) = false ->
  (pip w p (norm_outline h (v :: tl)) = true <-> strict_in p (v :: tl)).
Proof. intros Hw Hp H. rewrite norm_outline_open by assumption. apply pip_norm; assumption. Qed.
