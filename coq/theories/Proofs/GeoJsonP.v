(* Proofs about the GeoJSON model (C14). *)
From Coq Require Import String.
From GV Require Import Prelude RingM GeoJsonM.
Open Scope string_scope.
Open Scope Z_scope.

(* importing never changes the caller's document (model after repair D15) *)
Lemma import_pure : forall half k doc s doc', from_geojson half k doc = Ok (s, doc') -> doc' = doc.
Proof.
  intros half k doc s doc'. unfold from_geojson, from_geojson_gen.
  destruct doc; try discriminate.
  destruct (geom_member l); try discriminate.
  destruct (jget "type" d) as [[]|]; try discriminate.
  destruct (negb _); try discriminate.
  destruct (pre_geom _ _ _); try discriminate.
  destruct (match jget "properties" l with None => _ | _ => _ end) as [pp|]; try discriminate.
  destruct (get_dt pp) as [[? ?]|]; try discriminate.
  destruct (post_geom _ _ _); try discriminate.
  intros H. inversion H. reflexivity.
Qed.
