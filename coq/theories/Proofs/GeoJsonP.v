(* Proofs about the GeoJSON model (C14). *)
From Coq Require Import String.
From GV Require Import Prelude RingM RingP GeoJsonM.
Open Scope string_scope.
Open Scope Z_scope.

(* ---------- induction on json (nested through lists) ---------- *)

Lemma json_ind' (P : json -> Prop)
  (Hnull : P JNull) (Hbool : forall b, P (JBool b)) (Hint : forall n, P (JInt n))
  (Hfloat : forall z, P (JFloat z)) (Hstr : forall s, P (JStr s)) (Htime : forall t, P (JTime t))
  (Hdt : forall t, P (JDt t))
  (Harr : forall l, Forall P l -> P (JArr l))
  (Hobj : forall l, Forall (fun kv => P (snd kv)) l -> P (JObj l)) : forall j, P j.
Proof.
  fix IH 1. intros [ |b|n|z|s|t|t|l|l];
    [apply Hnull|apply Hbool|apply Hint|apply Hfloat|apply Hstr|apply Htime|apply Hdt| | ].
  - apply Harr. revert l. fix aux 1. intros [|a l]; constructor; [apply IH|apply aux].
  - apply Hobj. revert l. fix aux 1. intros [|[k a] l]; constructor; [apply IH|apply aux].
Qed.

(* no datetime object anywhere: what json.dumps can serialise *)
Fixpoint json_pure (j : json) : bool :=
  match j with
  | JDt _ => false
  | JArr l => forallb json_pure l
  | JObj l => forallb (fun kv => json_pure (snd kv)) l
  | _ => true
  end.

Definition dict_pure (d : dict) : bool := forallb (fun kv => json_pure (snd kv)) d.

Lemma sanitize_pure : forall j, json_pure (sanitize j) = true.
Proof.
  induction j using json_ind'; cbn; try reflexivity.
  - rewrite forallb_forall. intros x Hx. apply in_map_iff in Hx as (y & <- & Hy).
    rewrite Forall_forall in H. apply H. exact Hy.
  - rewrite forallb_forall. intros x Hx. apply in_map_iff in Hx as (y & <- & Hy).
    rewrite Forall_forall in H. cbn. apply H. exact Hy.
Qed.

Lemma sanitize_id : forall j, json_pure j = true -> sanitize j = j.
Proof.
  induction j using json_ind'; cbn; intros Hp; try reflexivity; try discriminate.
  - f_equal. rewrite forallb_forall in Hp. rewrite Forall_forall in H.
    rewrite <- (map_id l) at 2. apply map_ext_in. intros a Ha. apply H; [exact Ha|apply Hp; exact Ha].
  - f_equal. rewrite forallb_forall in Hp. rewrite Forall_forall in H.
    rewrite <- (map_id l) at 2. apply map_ext_in. intros [k a] Ha. cbn. f_equal.
    apply (H (k, a) Ha). apply (Hp (k, a) Ha).
Qed.

Lemma sanitize_dict_pure : forall d, dict_pure (sanitize_dict d) = true.
Proof.
  intros d. unfold dict_pure, sanitize_dict. rewrite forallb_forall. intros x Hx.
  apply in_map_iff in Hx as (y & <- & _). cbn. apply sanitize_pure.
Qed.

Lemma sanitize_dict_id : forall d, dict_pure d = true -> sanitize_dict d = d.
Proof.
  intros d Hp. unfold dict_pure in Hp. rewrite forallb_forall in Hp. unfold sanitize_dict.
  rewrite <- (map_id d) at 2. apply map_ext_in. intros [k a] Ha. cbn. f_equal.
  apply sanitize_id. apply (Hp (k, a) Ha).
Qed.

(* ---------- dictionaries ---------- *)

Lemma jget_dset : forall k k' v d,
  jget k (dset k' v d) = if String.eqb k k' then Some v else jget k d.
Proof.
  intros k k' v. induction d as [|[h x] d IH]; cbn.
  - destruct (String.eqb k k'); reflexivity.
  - destruct (String.eqb k' h) eqn:E.
    + apply String.eqb_eq in E. subst h. cbn. destruct (String.eqb k k'); reflexivity.
    + cbn. destruct (String.eqb k h) eqn:F.
      * apply String.eqb_eq in F. subst h. rewrite String.eqb_sym in E. rewrite E. reflexivity.
      * exact IH.
Qed.

Lemma jget_dmerge_fresh : forall k u d, jget k u = None -> jget k (dmerge d u) = jget k d.
Proof.
  intros k. unfold dmerge. induction u as [|[k1 v1] u IH]; intros d H; cbn in *; [reflexivity|].
  destruct (String.eqb k k1) eqn:E; [discriminate|].
  rewrite IH by exact H. rewrite jget_dset, E. reflexivity.
Qed.

Lemma jget_notin : forall k d, ~ In k (map fst d) -> jget k d = None.
Proof.
  intros k. induction d as [|[h x] d IH]; cbn; intros H; [reflexivity|].
  destruct (String.eqb k h) eqn:E.
  - apply String.eqb_eq in E. subst. exfalso. apply H. left. reflexivity.
  - apply IH. intros Hin. apply H. right. exact Hin.
Qed.

(* {**d, **u}: u's binding wins, otherwise d's *)
Lemma jget_dmerge : forall k u d, NoDup (map fst u) ->
  jget k (dmerge d u) = match jget k u with Some v => Some v | None => jget k d end.
Proof.
  intros k. unfold dmerge. induction u as [|[k1 v1] u IH]; intros d N; cbn in *; [reflexivity|].
  inversion N as [|? ? Hnot N']; subst.
  rewrite IH by exact N'. rewrite jget_dset.
  destruct (String.eqb k k1) eqn:E.
  - apply String.eqb_eq in E. subst k1. rewrite (jget_notin _ _ Hnot). reflexivity.
  - reflexivity.
Qed.

Lemma dpop_dset_other : forall k k' v d, String.eqb k k' = false ->
  dpop k (dset k' v d) = dset k' v (dpop k d).
Proof.
  intros k k' v d N. induction d as [|[h x] d IH]; cbn.
  - rewrite N. reflexivity.
  - destruct (String.eqb k' h) eqn:E; destruct (String.eqb k h) eqn:F; cbn; rewrite ?E, ?F.
    + apply String.eqb_eq in E, F. subst. rewrite String.eqb_refl in N. discriminate.
    + reflexivity.
    + reflexivity.
    + rewrite IH. reflexivity.
Qed.

Lemma dpop_dmerge_fresh : forall k u d, jget k u = None ->
  dpop k (dmerge d u) = dmerge (dpop k d) u.
Proof.
  intros k. unfold dmerge. induction u as [|[k1 v1] u IH]; intros d H; cbn in *; [reflexivity|].
  destruct (String.eqb k k1) eqn:E; [discriminate|].
  rewrite IH by exact H. rewrite dpop_dset_other by exact E. reflexivity.
Qed.

Lemma dpop_dset_fresh : forall k v d, jget k d = None -> dpop k (dset k v d) = d.
Proof.
  intros k v. induction d as [|[h x] d IH]; cbn; intros H.
  - rewrite String.eqb_refl. reflexivity.
  - destruct (String.eqb k h) eqn:E; [discriminate|]. cbn. rewrite E. f_equal. apply IH. exact H.
Qed.

Lemma dpop_fresh : forall k d, jget k d = None -> dpop k d = d.
Proof.
  intros k. induction d as [|[h x] d IH]; cbn; intros H; [reflexivity|].
  destruct (String.eqb k h) eqn:E; [discriminate|]. f_equal. apply IH. exact H.
Qed.

Lemma jget_sanitize_dict : forall k d, jget k (sanitize_dict d) = option_map sanitize (jget k d).
Proof.
  intros k. induction d as [|[h x] d IH]; cbn; [reflexivity|].
  destruct (String.eqb k h); [reflexivity|exact IH].
Qed.

Lemma sanitize_dict_dset : forall k v d,
  sanitize_dict (dset k v d) = dset k (sanitize v) (sanitize_dict d).
Proof.
  intros k v. induction d as [|[h x] d IH]; cbn; [reflexivity|].
  destruct (String.eqb k h); cbn; [reflexivity|]. f_equal. exact IH.
Qed.

(* ---------- the properties member (props_merge) ---------- *)

Definition exported_props (s : shape) (ups : option dict) : dict :=
  dmerge (sanitize_dict (properties s)) (match ups with Some u => u | None => [] end).

(* caller-supplied properties override; everything else is the shape's own (sanitised)
   properties, the dt fields included *)
Lemma props_merge : forall s u k, NoDup (map fst u) ->
  jget k (exported_props s (Some u)) =
  match jget k u with
  | Some v => Some v
  | None => option_map sanitize (jget k (properties s))
  end.
Proof.
  intros s u k N. unfold exported_props. rewrite jget_dmerge by exact N.
  rewrite jget_sanitize_dict. reflexivity.
Qed.

Lemma props_dt_fields : forall g a b p,
  jget "datetime_start" (properties (mkshape g (Some (a, b)) p)) = Some (JDt a) /\
  jget "datetime_end" (properties (mkshape g (Some (a, b)) p)) = Some (JDt b).
Proof.
  intros. unfold properties; cbn [sdt sprops]. rewrite !jget_dset. cbn. split; reflexivity.
Qed.

Lemma props_user_fields : forall g dt p k,
  String.eqb k "datetime_start" = false -> String.eqb k "datetime_end" = false ->
  jget k (properties (mkshape g dt p)) = jget k p.
Proof.
  intros g [[a b]|] p k H1 H2; unfold properties; cbn [sdt sprops]; [|reflexivity].
  rewrite !jget_dset, H1, H2. reflexivity.
Qed.

(* ---------- reading back the time fields ---------- *)

Definition no_reserved (d : dict) : Prop :=
  jget "datetime_start" d = None /\ jget "datetime_end" d = None.

Definition dt_wf (dt : option (Z * Z)) : Prop :=
  match dt with Some (a, b) => a <= b | None => True end.

Lemma get_dt_exported : forall g dt p u,
  dt_wf dt -> dict_pure p = true -> no_reserved p -> no_reserved u ->
  get_dt (exported_props (mkshape g dt p) (Some u)) = Ok (dt, dmerge p u).
Proof.
  intros g dt p u Hw Hp [Hs He] [Us Ue]. unfold exported_props, get_dt.
  rewrite !jget_dmerge_fresh by assumption.
  destruct dt as [[a b]|]; unfold properties; cbn [sdt sprops].
  - rewrite !sanitize_dict_dset. cbn [sanitize]. rewrite (sanitize_dict_id p Hp).
    rewrite !jget_dset. cbn [String.eqb Ascii.eqb Bool.eqb conv falsy].
    change (String.eqb "datetime_start" "datetime_end") with false. cbn iota.
    rewrite dpop_dmerge_fresh by exact Us.
    rewrite (dpop_dset_other "datetime_start" "datetime_end") by reflexivity.
    rewrite dpop_dset_fresh by exact Hs.
    rewrite jget_dmerge_fresh by exact Ue.
    rewrite jget_dset. rewrite String.eqb_refl. cbn [conv falsy].
    rewrite dpop_dmerge_fresh by exact Ue.
    rewrite dpop_dset_fresh by exact He.
    cbn in Hw. destruct (b <? a) eqn:E; [lia|reflexivity].
  - rewrite (sanitize_dict_id p Hp). rewrite Hs. cbn [conv].
    rewrite dpop_dmerge_fresh by exact Us. rewrite (dpop_fresh _ _ Hs).
    rewrite jget_dmerge_fresh by exact Ue. rewrite He. cbn [conv].
    rewrite dpop_dmerge_fresh by exact Ue. rewrite (dpop_fresh _ _ He). reflexivity.
Qed.

(* ---------- positions ---------- *)

Lemma parse_pos_position : forall half c,
  parse_pos half (position c) = Ok (mkc (lon c) (lat c) (truthy_z (cz c))).
Proof.
  intros half [x y [z|]]; unfold position, truthy_z; cbn; [|reflexivity].
  destruct (z =? 0); reflexivity.
Qed.

Lemma parse_pos_ok : forall half c, z_ok c -> parse_pos half (position c) = Ok c.
Proof.
  intros half [x y z] H. rewrite parse_pos_position. cbn. f_equal. f_equal.
  unfold z_ok in H. cbn in H. destruct z as [z|]; cbn; [|reflexivity].
  destruct (z =? 0) eqn:E; [|reflexivity]. apply Z.eqb_eq in E. subst. contradiction.
Qed.

Lemma mapM_map_ok {A B} (f : B -> res A) (g : A -> B) : forall l,
  (forall a, In a l -> f (g a) = Ok a) -> mapM f (map g l) = Ok l.
Proof.
  induction l as [|a l IH]; intros H; cbn; [reflexivity|].
  rewrite (H a (or_introl eq_refl)). rewrite IH; [reflexivity|].
  intros b Hb. apply H. right. exact Hb.
Qed.

Lemma parse_ring_jring : forall half r, ring_zok r -> parse_ring half (jring r) = Ok r.
Proof.
  intros half r H. unfold parse_ring, jring. apply mapM_map_ok.
  intros a Ha. apply parse_pos_ok. unfold ring_zok in H. rewrite Forall_forall in H. apply H. exact Ha.
Qed.

Lemma parse_rings_jrings : forall half rs, Forall ring_zok rs ->
  parse_rings half (JArr (map jring rs)) = Ok rs.
Proof.
  intros half rs H. unfold parse_rings. apply mapM_map_ok.
  intros a Ha. apply parse_ring_jring. rewrite Forall_forall in H. apply H. exact Ha.
Qed.

(* positions always decode to the same longitude / latitude (also when z = 0 is dropped) *)
Lemma position_lonlat : forall half c, exists c',
  parse_pos half (position c) = Ok c' /\ lon c' = lon c /\ lat c' = lat c.
Proof. intros half c. eexists. rewrite parse_pos_position. repeat split. Qed.

Lemma position_shape : forall c,
  position c = JArr [JFloat (lon c); JFloat (lat c)] \/
  exists z, cz c = Some z /\ z <> 0 /\ position c = JArr [JFloat (lon c); JFloat (lat c); JFloat z].
Proof.
  intros [x y [z|]]; unfold position, truthy_z; cbn; [|left; reflexivity].
  destruct (z =? 0) eqn:E; [left; reflexivity|]. right. exists z. repeat split. lia.
Qed.

(* ---------- well-formed (constructed) geometries ---------- *)

Definition kind_of (g : geom) : option skind :=
  match g with
  | GPoint _ => Some KPoint | GLine _ => Some KLine | GPoly _ => Some KPoly
  | GMPoint _ => Some KMPoint | GMLine _ => Some KMLine | GMPoly _ => Some KMPoly
  | _ => None
  end.

Definition geom_wf (half : Z) (g : geom) : Prop :=
  match g with
  | GPoint c => z_ok c
  | GLine vs => ring_zok vs
  | GMPoint cs => ring_zok cs
  | GMLine ls => Forall ring_zok ls
  | GPoly p => polygon_wf half true p
  | GMPoly ps => Forall (polygon_wf half false) ps
  | _ => False
  end.

Lemma ctor_ring_wf : forall half r, ring_wf half r -> ctor_ring half r = Ok r.
Proof.
  intros half r H. pose proof (ring_wf_nonempty _ _ H) as N. destruct H as (_ & C & O).
  unfold ctor_ring. destruct r; [contradiction|]. rewrite norm_ring_fix by assumption. reflexivity.
Qed.

Lemma ctor_ring_nonempty : forall half r, r <> [] -> ctor_ring half r = Ok (norm_ring half false r).
Proof. intros half [|a t] H; [contradiction|reflexivity]. Qed.

Lemma ctor_ring_rev_hole : forall half h, hole_wf half h -> ctor_ring half (rev h) = Ok h.
Proof.
  intros half h [H R]. pose proof (ring_wf_nonempty _ _ H) as N. destruct H as (_ & C & O).
  rewrite ctor_ring_nonempty.
  - rewrite norm_ring_rev by assumption. reflexivity.
  - intros E. apply (f_equal (@rev coord)) in E. rewrite rev_involutive in E. cbn in E. contradiction.
Qed.

Lemma ctor_ring_revrev : forall half h, ring_wf half h -> ctor_ring half (rev (rev h)) = Ok h.
Proof. intros. rewrite rev_involutive. apply ctor_ring_wf. assumption. Qed.

Lemma mapM_ok_id {A} (f : A -> res A) : forall l, (forall a, In a l -> f a = Ok a) -> mapM f l = Ok l.
Proof. intros l H. rewrite <- (map_id l) at 1. apply mapM_map_ok. exact H. Qed.

Lemma mapM_in_map {A B} (f : B -> res A) (g : A -> B) : forall l,
  (forall a, In a l -> f (g a) = Ok a) -> mapM f (map g l) = Ok l.
Proof. exact (mapM_map_ok f g). Qed.

Lemma polygon_zok_rings : forall half st p, polygon_wf half st p -> Forall ring_zok (linear_rings p).
Proof.
  intros half st p (_ & Z & H). unfold linear_rings, rings_of. constructor; [exact Z|].
  rewrite Forall_forall in *. intros r Hr. apply in_map_iff in Hr as (h & <- & Hh).
  destruct (H h Hh) as [_ Zh]. unfold ring_zok in *. rewrite Forall_forall in *.
  intros c Hc. apply Zh. apply in_rev. exact Hc.
Qed.

Lemma mpoly_member_ok : forall half p, polygon_wf half false p ->
  mpoly_member half (JArr (map jring (linear_rings p))) = Ok p.
Proof.
  intros half p W. unfold mpoly_member.
  rewrite parse_rings_jrings by (eapply polygon_zok_rings; exact W).
  destruct W as (Wo & _ & Wh). unfold linear_rings, rings_of.
  rewrite (mapM_map_ok (fun h => ctor_ring half (rev h)) (@rev coord)).
  - rewrite ctor_ring_wf by exact Wo. destruct p; reflexivity.
  - intros h Hh. rewrite Forall_forall in Wh. destruct (Wh h Hh) as [R _].
    apply ctor_ring_revrev. exact R.
Qed.

(* ---------- the round trip ---------- *)

Lemma geom_type_kind : forall g kd, kind_of g = Some kd -> geom_type g = kind_name kd.
Proof. intros [] kd H; cbn in H; inversion H; reflexivity. Qed.

(* from_geojson on a Feature whose three standard members are known *)
Lemma from_feature : forall half kd doc t C P,
  has_key "coordinates" doc = false ->
  jget "geometry" doc = Some (JObj [("type", JStr t); ("coordinates", C)]) ->
  jget "properties" doc = Some (JObj P) ->
  String.eqb t (kind_name kd) = true ->
  from_geojson half kd (JObj doc) =
  match pre_geom half kd [("type", JStr t); ("coordinates", C)] with
  | Err e => Err e
  | Ok gm => match get_dt P with
             | Err e => Err e
             | Ok (dt, p') => match post_geom half kd gm with
                              | Err e => Err e
                              | Ok gm' => Ok (mkshape gm' dt p', JObj doc)
                              end
             end
  end.
Proof.
  intros half kd doc t C P Hc Hg Hp Ht. unfold from_geojson, from_geojson_gen, geom_member.
  rewrite Hc, Hg. cbn [jget String.eqb Ascii.eqb Bool.eqb]. rewrite Ht. cbn [negb].
  rewrite Hp. reflexivity.
Qed.

Lemma pre_post_geom : forall half orc k g kd, kind_of g = Some kd -> geom_wf half g ->
  exists C, geometry orc k g = JObj [("type", JStr (geom_type g)); ("coordinates", C)] /\
  exists gm, pre_geom half kd [("type", JStr (geom_type g)); ("coordinates", C)] = Ok gm /\
             post_geom half kd gm = Ok g.
Proof.
  intros half orc k g kd K W. destruct g; cbn in K; inversion K; subst kd; clear K;
    eexists; (split; [reflexivity|]); cbn in W.
  - (* point *) eexists. unfold pre_geom. cbn [jget String.eqb Ascii.eqb Bool.eqb].
    rewrite parse_pos_ok by exact W. split; reflexivity.
  - eexists. unfold pre_geom, coords_or_empty. cbn [jget String.eqb Ascii.eqb Bool.eqb].
    rewrite parse_ring_jring by exact W. split; reflexivity.
  - (* polygon *)
    pose proof (polygon_zok_rings _ _ _ W) as Zr. destruct W as (Wo & Zo & Wh).
    eexists. unfold pre_geom, coords_or_empty. cbn [jget String.eqb Ascii.eqb Bool.eqb geom_rings].
    rewrite parse_rings_jrings by exact Zr.
    unfold linear_rings, rings_of. cbn [tl hd].
    rewrite (mapM_map_ok (ctor_ring half) (@rev coord)).
    + split; [reflexivity|]. unfold post_geom. cbn [outline pholes].
      rewrite ctor_ring_wf by exact Wo. destruct p; reflexivity.
    + intros h Hh. rewrite Forall_forall in Wh. destruct (Wh h Hh) as [R _].
      apply ctor_ring_rev_hole. exact R.
  - eexists. unfold pre_geom, coords_or_empty. cbn [jget String.eqb Ascii.eqb Bool.eqb].
    rewrite parse_ring_jring by exact W. split; reflexivity.
  - eexists. unfold pre_geom, coords_or_empty. cbn [jget String.eqb Ascii.eqb Bool.eqb].
    rewrite parse_rings_jrings by exact W. split; reflexivity.
  - eexists. unfold pre_geom, coords_or_empty. cbn [jget String.eqb Ascii.eqb Bool.eqb].
    rewrite (mapM_map_ok (mpoly_member half) (fun p => JArr (map jring (linear_rings p)))).
    + split; reflexivity.
    + intros p Hp. apply mpoly_member_ok. rewrite Forall_forall in W. apply W. exact Hp.
Qed.

Definition kw_ok (kw : dict) : Prop :=
  jget "coordinates" kw = None /\ jget "geometry" kw = None /\
  jget "properties" kw = None /\ jget "type" kw = None.

Definition ups_dict (ups : option dict) : dict := match ups with Some u => u | None => [] end.

Lemma exported_props_ups : forall s ups, exported_props s ups = exported_props s (Some (ups_dict ups)).
Proof. intros s [u|]; reflexivity. Qed.

(* export then import: the same geometry, dt and properties (merged with the override), and the
   document is returned untouched *)
Lemma geojson_roundtrip : forall half orc s ups k kw kd,
  kind_of (sgeom s) = Some kd -> geom_wf half (sgeom s) -> dt_wf (sdt s) ->
  dict_pure (sprops s) = true -> no_reserved (sprops s) -> no_reserved (ups_dict ups) -> kw_ok kw ->
  from_geojson half kd (to_geojson orc s ups k kw) =
  Ok (mkshape (sgeom s) (sdt s) (dmerge (sprops s) (ups_dict ups)), to_geojson orc s ups k kw).
Proof.
  intros half orc [g dt p] ups k kw kd K W D Pp Rp Ru (K1 & K2 & K3 & K4). cbn [sgeom sdt sprops] in *.
  destruct (pre_post_geom half orc k g kd K W) as (C & EG & gm & Epre & Epost).
  unfold to_geojson. cbn [sgeom sdt sprops].
  rewrite (from_feature half kd _ (geom_type g) C (exported_props (mkshape g dt p) ups)).
  - rewrite Epre. rewrite exported_props_ups.
    rewrite get_dt_exported by assumption. rewrite Epost. reflexivity.
  - unfold has_key. rewrite jget_dmerge_fresh by exact K1. reflexivity.
  - rewrite jget_dmerge_fresh by exact K2. cbn [jget String.eqb Ascii.eqb Bool.eqb]. f_equal. exact EG.
  - rewrite jget_dmerge_fresh by exact K3. cbn [jget String.eqb Ascii.eqb Bool.eqb]. reflexivity.
  - rewrite (geom_type_kind _ _ K). apply String.eqb_refl.
Qed.

(* ---------- `==` is reflexive on well-formed shapes, hence the imported shape == the original ---------- *)

Lemma dt_eqb_refl : forall d, dt_eqb d d = true.
Proof. intros [[a b]|]; cbn; [rewrite !Z.eqb_refl|]; reflexivity. Qed.

Lemma geom_eqb_refl : forall half g kd, kind_of g = Some kd -> geom_wf half g -> geom_eqb g g = true.
Proof.
  intros half g kd K W. destruct g; cbn in K; inversion K; cbn in W |- *.
  - apply coord_eqb_refl.
  - apply ring_eqb_refl.
  - destruct W as ((L & _) & _). apply polygon_eqb_refl. exact L.
  - apply seteq_b_refl. intros a _. apply coord_eqb_refl.
  - apply seteq_b_refl. intros a _. apply ring_eqb_refl.
  - apply seteq_b_refl. intros p Hp. rewrite Forall_forall in W. destruct (W p Hp) as ((L & _) & _).
    apply polygon_eqb_refl. exact L.
Qed.

Lemma geojson_roundtrip_eq : forall half orc s ups k kw kd,
  kind_of (sgeom s) = Some kd -> geom_wf half (sgeom s) -> dt_wf (sdt s) ->
  dict_pure (sprops s) = true -> no_reserved (sprops s) -> no_reserved (ups_dict ups) -> kw_ok kw ->
  exists s', from_geojson half kd (to_geojson orc s ups k kw) = Ok (s', to_geojson orc s ups k kw) /\
             shape_eqb s' s = true /\ shape_eqb s s' = true /\ sdt s' = sdt s /\
             sprops s' = dmerge (sprops s) (ups_dict ups).
Proof.
  intros half orc s ups k kw kd K W D Pp Rp Ru Kw.
  eexists. split; [apply geojson_roundtrip; eassumption|].
  unfold shape_eqb. cbn [sgeom sdt sprops].
  rewrite (geom_eqb_refl half _ kd K W), dt_eqb_refl. repeat split.
Qed.

(* the type-dispatching parser takes an exported Feature to the right from_geojson *)
Lemma parse_dispatch : forall half orc s ups k kw kd,
  kind_of (sgeom s) = Some kd -> kw_ok kw ->
  parse_geojson half (to_geojson orc s ups k kw) =
  match from_geojson half kd (to_geojson orc s ups k kw) with
  | Ok (s', d) => Ok (PShape s', d)
  | Err e => Err e
  end.
Proof.
  intros half orc [g dt p] ups k kw kd K (K1 & K2 & K3 & K4). cbn [sgeom] in K.
  unfold parse_geojson, to_geojson, dispatch. cbn [sgeom sdt sprops].
  rewrite (jget_dmerge_fresh "type") by exact K4. rewrite (jget_dmerge_fresh "geometry") by exact K2.
  cbn [jget String.eqb Ascii.eqb Bool.eqb].
  change (parser_of "Feature") with (@None parser). cbn iota.
  unfold geometry. cbn [jget String.eqb Ascii.eqb Bool.eqb].
  rewrite (geom_type_kind _ _ K).
  destruct kd; reflexivity.
Qed.

(* ---------- purity of the import; importing twice ---------- *)

Lemma import_pure : forall half k doc s doc', from_geojson half k doc = Ok (s, doc') -> doc' = doc.
Proof.
  intros half k doc s doc'. unfold from_geojson, from_geojson_gen.
  destruct doc; try discriminate.
  destruct (geom_member l); try discriminate.
  destruct (jget "type" d) as [[]|]; try discriminate.
  destruct (negb _); try discriminate.
  destruct (pre_geom _ _ _); try discriminate.
  destruct (match jget "properties" l with None => _ | _ => _ end) as [pp|]; try discriminate.
  destruct (get_dt pp) as [[? ?]|]; try discriminate.
  destruct (post_geom _ _ _); try discriminate.
  intros H. inversion H. reflexivity.
Qed.

Lemma import_twice_equal : forall half k doc s doc',
  from_geojson half k doc = Ok (s, doc') -> from_geojson half k doc' = Ok (s, doc').
Proof. intros half k doc s doc' H. pose proof (import_pure _ _ _ _ _ H) as E. subst. exact H. Qed.

Lemma mapM_parse_feature_pure : forall half fs l,
  mapM (parse_feature half) fs = Ok l -> map snd l = fs.
Proof.
  induction fs as [|f fs IH]; intros l H; cbn in H.
  - inversion H. reflexivity.
  - destruct (parse_feature half f) as [[s d]|] eqn:E; try discriminate.
    destruct (mapM (parse_feature half) fs) as [bs|] eqn:F; try discriminate.
    inversion H; subst. cbn. f_equal; [|apply IH; reflexivity].
    unfold parse_feature in E. destruct f; try discriminate.
    destruct (dispatch l) as [[[kk|]|]|]; try discriminate.
    apply import_pure in E. exact E.
Qed.

Lemma parse_pure : forall half doc p doc', parse_geojson half doc = Ok (p, doc') -> doc' = doc.
Proof.
  intros half doc p doc'. unfold parse_geojson. destruct doc; try discriminate.
  destruct (dispatch l) as [[[kk|]|]|]; try discriminate.
  - destruct (from_geojson half kk (JObj l)) as [[s d]|] eqn:E; try discriminate.
    intros H. inversion H; subst. eapply import_pure. exact E.
  - unfold fc_from_geojson.
    destruct (jget "type" l) as [[]|]; try discriminate.
    destruct (match s with "FeatureCollection" => _ | _ => _ end) as [[x y]|] eqn:E; try discriminate.
    intros H. inversion H; subst. clear H.
    revert E. repeat (match goal with |- context [match ?x with _ => _ end] => destruct x; try discriminate end).
    all: intros E; inversion E; reflexivity.
Qed.

(* the pinned code (properties popped in place) is NOT pure: the second import loses dt *)
Lemma import_pure_refuted_without_copy :
  exists doc s doc' s2 doc2,
    from_geojson_gen 720 false KPoint doc = Ok (s, doc') /\ doc' <> doc /\
    from_geojson_gen 720 false KPoint doc' = Ok (s2, doc2) /\ sdt s = Some (5, 5) /\ sdt s2 = None.
Proof.
  exists (JObj [("type", JStr "Feature");
                ("geometry", JObj [("type", JStr "Point"); ("coordinates", JArr [JFloat 4; JFloat 8])]);
                ("properties", JObj [("datetime_start", JTime 5); ("a", JInt 1)])]).
  do 4 eexists. vm_compute. repeat split; try reflexivity. discriminate.
Qed.

(* D14: a coordinate with z = 0 does not survive *)
Lemma z_zero_roundtrip_refuted :
  exists orc s s' d, kind_of (sgeom s) = Some KPoint /\
    from_geojson 720 KPoint (to_geojson orc s None None []) = Ok (s', d) /\ shape_eqb s' s = false.
Proof.
  exists (mkoracle (fun _ _ => []) (fun _ _ => [])), (mkshape (GPoint (mkc 4 8 (Some 0))) None []).
  do 2 eexists. vm_compute. repeat split.
Qed.

(* ---------- shape of the export ---------- *)

Lemma export_feature : forall orc s ups k kw, kw_ok kw ->
  exists doc, to_geojson orc s ups k kw = JObj doc /\
    jget "type" doc = Some (JStr "Feature") /\
    jget "geometry" doc = Some (geometry orc k (sgeom s)) /\
    jget "properties" doc = Some (JObj (exported_props s ups)) /\
    (forall key v, jget key kw = Some v -> NoDup (map fst kw) -> jget key doc = Some v).
Proof.
  intros orc s ups k kw (K1 & K2 & K3 & K4). eexists. split; [reflexivity|].
  rewrite !jget_dmerge_fresh by assumption. repeat split.
  intros key v H N. rewrite jget_dmerge by exact N. rewrite H. reflexivity.
Qed.

Lemma export_geometry_type : forall orc k g, exists C,
  geometry orc k g = JObj [("type", JStr (geom_type g)); ("coordinates", C)].
Proof. intros. eexists. reflexivity. Qed.

Lemma features_from_nth : forall orc l ups k i0 (n : nat),
  nth_error (features_from orc i0 l ups k) n =
  option_map (fun s => to_geojson orc s ups k [("id", JInt (i0 + Z.of_nat n))]) (nth_error l n).
Proof.
  intros orc. induction l as [|s l IH]; intros ups k i0 n.
  - destruct n; reflexivity.
  - destruct n as [|n]; cbn [features_from nth_error option_map].
    + rewrite Z.add_0_r. reflexivity.
    + rewrite IH. replace (i0 + 1 + Z.of_nat n) with (i0 + Z.of_nat (S n)) by lia. reflexivity.
Qed.

(* the feature at position n of an exported collection is the n-th shape's Feature with id = n *)
Lemma export_collection : forall orc l ups k, exists fs,
  fc_to_geojson orc l ups k = JObj [("type", JStr "FeatureCollection"); ("features", JArr fs)] /\
  length fs = length l /\
  forall n s, nth_error l n = Some s ->
    nth_error fs n = Some (to_geojson orc s ups k [("id", JInt (Z.of_nat n))]) /\
    exists doc, to_geojson orc s ups k [("id", JInt (Z.of_nat n))] = JObj doc /\
                jget "id" doc = Some (JInt (Z.of_nat n)) /\ jget "type" doc = Some (JStr "Feature").
Proof.
  intros orc l ups k. eexists. split; [reflexivity|]. split.
  - generalize 0. induction l as [|s l IH]; intros i; cbn; [reflexivity|]. f_equal. apply IH.
  - intros n s H. rewrite features_from_nth, H. cbn [option_map Z.add]. split; [reflexivity|].
    eexists. split; [reflexivity|]. split; reflexivity.
Qed.

(* every exported value is JSON (no datetime objects) when the caller's additions are *)
Lemma jring_pure : forall r, json_pure (jring r) = true.
Proof.
  intros r. unfold jring. cbn. rewrite forallb_forall. intros x Hx.
  apply in_map_iff in Hx as (c & <- & _). unfold position. destruct (truthy_z (cz c)); reflexivity.
Qed.

Lemma jrings_pure : forall rs, forallb json_pure (map jring rs) = true.
Proof.
  intros rs. rewrite forallb_forall. intros x Hx. apply in_map_iff in Hx as (r & <- & _). apply jring_pure.
Qed.

Lemma geometry_pure : forall orc k g, json_pure (geometry orc k g) = true.
Proof.
  intros orc k g. unfold geometry. cbn [json_pure forallb snd]. rewrite andb_true_r. cbn [json_pure andb].
  destruct g; try apply jring_pure; try (cbn [json_pure]; apply jrings_pure).
  - unfold position. destruct (truthy_z (cz c)); reflexivity.
  - cbn [json_pure]. rewrite forallb_forall. intros x Hx. apply in_map_iff in Hx as (p & <- & _).
    cbn [json_pure]. apply jrings_pure.
Qed.

Lemma dset_pure : forall k v d, json_pure v = true -> dict_pure d = true -> dict_pure (dset k v d) = true.
Proof.
  intros k v. induction d as [|[h x] d IH]; intros Hv Hd; cbn in *.
  - rewrite Hv. reflexivity.
  - apply andb_true_iff in Hd as [Hx Hd]. destruct (String.eqb k h); cbn; rewrite ?Hv, ?Hx, ?Hd; cbn; auto.
Qed.

Lemma dmerge_pure : forall u d, dict_pure u = true -> dict_pure d = true -> dict_pure (dmerge d u) = true.
Proof.
  unfold dmerge. induction u as [|[k v] u IH]; intros d Hu Hd; cbn in *; [exact Hd|].
  apply andb_true_iff in Hu as [Hv Hu]. apply IH; [exact Hu|]. apply dset_pure; assumption.
Qed.

Lemma export_serialisable : forall orc s ups k kw,
  dict_pure (ups_dict ups) = true -> dict_pure kw = true ->
  json_pure (to_geojson orc s ups k kw) = true.
Proof.
  intros orc s ups k kw Hu Hk. unfold to_geojson. cbn [json_pure].
  change (forallb (fun kv => json_pure (snd kv)) ?d) with (dict_pure d).
  apply dmerge_pure; [exact Hk|]. cbn [dict_pure forallb snd json_pure].
  rewrite geometry_pure. cbn [andb]. rewrite andb_true_r.
  change (forallb (fun kv => json_pure (snd kv)) ?d) with (dict_pure d).
  destruct ups as [u|]; cbn [ups_dict] in Hu; apply dmerge_pure; try exact Hu; try reflexivity;
    apply sanitize_dict_pure.
Qed.

(* ---------- closed rings ---------- *)

Definition all_closed (rs : list ring) : Prop := Forall (fun r => closedb r = true) rs.

Lemma rings_of_closed : forall shell hs, closedb shell = true -> all_closed hs ->
  all_closed (rings_of shell hs).
Proof.
  intros shell hs C H. unfold rings_of, all_closed in *. constructor; [exact C|].
  rewrite Forall_forall in *. intros r Hr. apply in_map_iff in Hr as (h & <- & Hh).
  apply closedb_rev. apply H. exact Hh.
Qed.

Lemma mk_holes_closed : forall half hs, Forall (span_ok half) hs -> all_closed (map (mk_hole half) hs).
Proof.
  intros half hs H. unfold all_closed. rewrite Forall_forall in *. intros r Hr.
  apply in_map_iff in Hr as (h & <- & Hh). destruct (norm_ring_spec half false h (H h Hh)) as (C & _). exact C.
Qed.

(* vertex-defined shapes: every exported ring is closed *)
Lemma rings_closed_polygon : forall half orc k o hs, span_ok half o -> Forall (span_ok half) hs ->
  all_closed (geom_rings orc k (GPoly (mk_polygon half o (map (mk_hole half) hs)))).
Proof.
  intros half orc k o hs So Sh. cbn. apply rings_of_closed; [|apply mk_holes_closed; exact Sh].
  destruct (norm_ring_spec half false o So) as (C & _). exact C.
Qed.

Lemma rings_closed_box : forall orc k nw se hs, all_closed hs -> all_closed (geom_rings orc k (GBox nw se hs)).
Proof.
  intros orc k nw se hs H. cbn. apply rings_of_closed; [|exact H].
  unfold box_ring, closedb. cbn. apply coord_eqb_refl.
Qed.

(* curved shapes: conditional on the sampled boundary being closed (circle, ellipse); by
   construction for rings and wedges *)
Lemma rings_closed_round : forall orc k id hs, closedb (o_outer orc id k) = true -> all_closed hs ->
  all_closed (geom_rings orc k (GRound id hs)).
Proof. intros orc k id hs C H. cbn. apply rings_of_closed; assumption. Qed.

Lemma rings_closed_ringfull : forall orc k id hs, all_closed hs ->
  all_closed (geom_rings orc k (GRingFull id hs)).
Proof.
  intros orc k id hs H. cbn. constructor; [apply closedb_app_first|].
  constructor; [apply closedb_rev; apply closedb_app_first|].
  unfold all_closed in *. rewrite Forall_forall in *. intros r Hr. apply in_map_iff in Hr as (h & <- & Hh).
  apply closedb_rev. apply H. exact Hh.
Qed.

Lemma rings_closed_wedge : forall orc k id hs, o_outer orc id k <> [] -> all_closed hs ->
  all_closed (geom_rings orc k (GWedge id hs)).
Proof. intros orc k id hs N H. cbn. apply rings_of_closed; [apply closedb_wedge; exact N|exact H]. Qed.

(* ---------- collections ---------- *)

Definition shape_ok (half : Z) (s : shape) : Prop :=
  (exists kd, kind_of (sgeom s) = Some kd) /\ geom_wf half (sgeom s) /\ dt_wf (sdt s) /\
  dict_pure (sprops s) = true /\ no_reserved (sprops s).

Definition reimported (ups : option dict) (s : shape) : shape :=
  mkshape (sgeom s) (sdt s) (dmerge (sprops s) (ups_dict ups)).

Lemma parse_feature_dispatch : forall half orc s ups k kw kd,
  kind_of (sgeom s) = Some kd -> kw_ok kw ->
  parse_feature half (to_geojson orc s ups k kw) = from_geojson half kd (to_geojson orc s ups k kw).
Proof.
  intros half orc [g dt p] ups k kw kd K (K1 & K2 & K3 & K4). cbn [sgeom] in K.
  unfold parse_feature, to_geojson, dispatch. cbn [sgeom sdt sprops].
  rewrite (jget_dmerge_fresh "type") by exact K4. rewrite (jget_dmerge_fresh "geometry") by exact K2.
  cbn [jget String.eqb Ascii.eqb Bool.eqb].
  change (parser_of "Feature") with (@None parser). cbn iota.
  unfold geometry. cbn [jget String.eqb Ascii.eqb Bool.eqb].
  rewrite (geom_type_kind _ _ K).
  destruct kd; reflexivity.
Qed.

Lemma features_roundtrip : forall half orc ups k l i,
  Forall (shape_ok half) l -> no_reserved (ups_dict ups) ->
  exists lr, mapM (parse_feature half) (features_from orc i l ups k) = Ok lr /\
             map fst lr = map (reimported ups) l.
Proof.
  intros half orc ups k. induction l as [|s l IH]; intros i H U.
  - exists []. split; reflexivity.
  - inversion H as [|? ? Hs Hl]; subst. destruct Hs as ((kd & K) & W & D & P & R).
    destruct (IH (i + 1) Hl U) as (lr & E & M).
    assert (Kw : kw_ok [("id", JInt i)]) by (repeat split).
    cbn [features_from mapM].
    rewrite (parse_feature_dispatch half orc s ups k _ kd K Kw).
    rewrite (geojson_roundtrip half orc s ups k _ kd K W D P R U Kw).
    rewrite E. eexists. split; [reflexivity|]. cbn [map fst]. rewrite M. reflexivity.
Qed.

Lemma collection_roundtrip : forall half orc l ups k,
  Forall (shape_ok half) l -> no_reserved (ups_dict ups) ->
  fc_from_geojson half (fc_to_geojson orc l ups k) =
  Ok (map (reimported ups) l, fc_to_geojson orc l ups k).
Proof.
  intros half orc l ups k H U. unfold fc_from_geojson, fc_to_geojson.
  cbn [jget String.eqb Ascii.eqb Bool.eqb].
  destruct (features_roundtrip half orc ups k l 0 H U) as (lr & E & M).
  rewrite E, M. reflexivity.
Qed.
