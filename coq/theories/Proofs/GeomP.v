(* C01: specification (independent of the code), algebra of the intersection routine on the
   membership test ray, and the characterisation of the ray-casting loop. *)
From GV Require Import Prelude GeomM.
Open Scope Z_scope.

(* ------------------------------------------------------------------ specification *)

(* the closed box with north-west corner nw and south-east corner se *)
Definition box_closed (nw se p : pt) : Prop :=
  px nw <= px p <= px se /\ py se <= py p <= py nw.

Lemma box_in_spec nw se p : box_in nw se p = true <-> box_closed nw se p.
Proof. unfold box_in, box_closed. lia. Qed.

(* p lies on the closed segment [a,b] (exact) *)
Definition on_seg (p a b : pt) : Prop :=
  cross a b p = 0 /\
  Z.min (px a) (px b) <= px p <= Z.max (px a) (px b) /\
  Z.min (py a) (py b) <= py p <= Z.max (py a) (py b).

Definition on_segb (p a b : pt) : bool :=
  (cross a b p =? 0) &&
  (Z.min (px a) (px b) <=? px p) && (px p <=? Z.max (px a) (px b)) &&
  (Z.min (py a) (py b) <=? py p) && (py p <=? Z.max (py a) (py b)).

Lemma on_segb_spec p a b : on_segb p a b = true <-> on_seg p a b.
Proof. unfold on_segb, on_seg. lia. Qed.

(* half-open straddling of the horizontal line through p: exactly one endpoint strictly above *)
Definition straddles (p a b : pt) : bool := negb (Bool.eqb (py p <? py a) (py p <? py b)).

(* For a straddling edge the crossing abscissa is x* = ax + (py-ay)(bx-ax)/(by-ay), and
   x* - px = cross a b p / (by - ay); so x* > px iff cross a b p and (by - ay) have the same sign. *)
Definition east_z (p : pt) (e : seg) : bool :=
  let '(a, b) := e in straddles p a b && (0 <? cross a b p * (py b - py a)).
Definition west_z (p : pt) (e : seg) : bool :=
  let '(a, b) := e in straddles p a b && (cross a b p * (py b - py a) <? 0).

(* parity of the number of elements satisfying f *)
Definition par {A} (f : A -> bool) (l : list A) : bool :=
  fold_right (fun e acc => xorb (f e) acc) false l.

Definition on_boundary (p : pt) (r : list pt) : Prop :=
  exists e, In e (cyc_edges r) /\ on_seg p (fst e) (snd e).

(* crossing-number (even-odd) interior, ray cast EAST, half-open rule *)
Definition evenodd (p : pt) (r : list pt) : Prop :=
  Nat.odd (length (filter (east_z p) (cyc_edges r))) = true.

Lemma par_odd {A} (f : A -> bool) l : par f l = Nat.odd (length (filter f l)).
Proof.
  induction l as [|x l IH]; [reflexivity|]. cbn [par fold_right filter].
  fold (par f l). rewrite IH. destruct (f x); cbn [length]; [|destruct (Nat.odd _); reflexivity].
  rewrite Nat.odd_succ, <- Nat.negb_odd. destruct (Nat.odd _); reflexivity.
Qed.

(* ------------------------------------------------------------------ the loop, edge by edge *)

Definition b2z (b : bool) : Z := if b then 1 else 0.

(* what one iteration does: None = return False (boundary), Some c = add c to the counter *)
Definition estep (w : Z) (p : pt) (e : seg) : option bool :=
  let '(a, b) := e in
  if (py a =? py b) && (py b =? py p) &&
     (Z.min (px a) (px b) <=? px p) && (px p <=? Z.max (px a) (px b))
  then None
  else
    match fliZ (p, (w, py p)) (a, b) with
    | None => Some false
    | Some (xn, yn, dv, flag) =>
        if flag then
          if (xn =? px p * dv) && (yn =? py p * dv) then None
          else if Z.max (py a) (py b) <=? py p then Some false else Some true
        else Some true
    end.

Lemma pip_loop_step w p e rest cnt :
  pip_loop w p (e :: rest) cnt =
  match estep w p e with None => false | Some c => pip_loop w p rest (cnt + b2z c) end.
Proof.
  destruct e as [a b]. cbn [pip_loop]. unfold estep.
  destruct ((py a =? py b) && (py b =? py p) && (Z.min (px a) (px b) <=? px p) &&
            (px p <=? Z.max (px a) (px b))); [reflexivity|].
  destruct (fliZ (p, (w, py p)) (a, b)) as [[[[xn yn] dv] flag]|];
    [|cbn [b2z]; rewrite Z.add_0_r; reflexivity].
  destruct flag; [|reflexivity].
  destruct ((xn =? px p * dv) && (yn =? py p * dv)); [reflexivity|].
  destruct (Z.max (py a) (py b) <=? py p); cbn [b2z]; [rewrite Z.add_0_r|]; reflexivity.
Qed.

Definition is_bnd (w : Z) (p : pt) (e : seg) : bool :=
  match estep w p e with None => true | Some _ => false end.
Definition is_cnt (w : Z) (p : pt) (e : seg) : bool :=
  match estep w p e with Some true => true | _ => false end.

Lemma odd_base cnt : 0 <= cnt -> (0 <? cnt) && negb (cnt mod 2 =? 0) = Z.odd cnt.
Proof.
  intros H. rewrite Zmod_odd. destruct (Z.odd cnt) eqn:E.
  - assert (cnt <> 0) by (intros ->; discriminate). lia.
  - lia.
Qed.

Lemma pip_loop_char w p es : forall cnt, 0 <= cnt ->
  pip_loop w p es cnt =
  if existsb (is_bnd w p) es then false else xorb (Z.odd cnt) (par (is_cnt w p) es).
Proof.
  induction es as [|e es IH]; intros cnt Hc.
  - cbn. rewrite xorb_false_r. apply odd_base; exact Hc.
  - rewrite pip_loop_step. cbn [existsb par fold_right]. fold (par (is_cnt w p) es).
    unfold is_bnd at 1, is_cnt at 1. destruct (estep w p e) as [c|]; [|reflexivity].
    cbn [orb]. rewrite IH by (destruct c; cbn; lia).
    destruct (existsb (is_bnd w p) es); [reflexivity|].
    destruct c; cbn [b2z].
    + rewrite Z.add_1_r, Z.odd_succ, <- Z.negb_odd.
      destruct (Z.odd cnt), (par (is_cnt w p) es); reflexivity.
    + rewrite Z.add_0_r. destruct (Z.odd cnt), (par (is_cnt w p) es); reflexivity.
Qed.

Lemma pip_char w p r :
  pip w p r = if existsb (is_bnd w p) (cyc_edges r) then false else par (is_cnt w p) (cyc_edges r).
Proof.
  unfold pip. rewrite pip_loop_char by lia. change (Z.odd 0) with false.
  destruct (existsb _ _); [reflexivity|]. destruct (par _ _); reflexivity.
Qed.

(* ------------------------------------------------------------------ algebra of fli_core *)

Lemma sgn_fix_opp d v : d <> 0 -> sgn_fix (- d) (- v) = sgn_fix d v.
Proof. unfold sgn_fix. intros. destruct (d <? 0) eqn:?, (- d <? 0) eqn:?; lia. Qed.

(* swapping the endpoints of the second segment changes nothing *)
Lemma core_swap2 a1 a2 b1 b2 : fli_core a1 a2 b2 b1 = fli_core a1 a2 b1 b2.
Proof.
  unfold fli_core.
  rewrite (Z.min_comm (px b2)), (Z.max_comm (px b2)), (Z.min_comm (py b2)), (Z.max_comm (py b2)).
  destruct (negb _); [reflexivity|].
  set (div := (px a1 - px a2) * (py b1 - py b2) - (px b1 - px b2) * (py a1 - py a2)).
  replace ((px a1 - px a2) * (py b2 - py b1) - (px b2 - px b1) * (py a1 - py a2)) with (- div)
    by (unfold div; ring).
  replace (- div =? 0) with (div =? 0) by lia.
  destruct (div =? 0) eqn:Ed; [reflexivity|].
  rewrite Z.abs_opp.
  replace (det2 a1 a2 * (px b2 - px b1) - det2 b2 b1 * (px a1 - px a2))
    with (- (det2 a1 a2 * (px b1 - px b2) - det2 b1 b2 * (px a1 - px a2)))
    by (unfold det2; ring).
  replace (det2 a1 a2 * (py b2 - py b1) - det2 b2 b1 * (py a1 - py a2))
    with (- (det2 a1 a2 * (py b1 - py b2) - det2 b1 b2 * (py a1 - py a2)))
    by (unfold det2; ring).
  rewrite !sgn_fix_opp by lia.
  destruct (_ && _); [|reflexivity].
  f_equal. f_equal.
  set (i1 := _ && _). set (i2 := _ && _). set (i3 := _ && _). set (i4 := _ && _).
  destruct i1, i2, i3, i4; reflexivity.
Qed.

(* ------------------------------------------------------------------ the test ray against one edge *)

Lemma wavg_bounds k u v ax bx : 0 < k -> 0 <= u -> 0 <= v -> 0 < u + v ->
  Z.min ax bx * (k * (u + v)) <= k * (ax * v + bx * u) <= Z.max ax bx * (k * (u + v)).
Proof.
  intros Hk Hu Hv Huv.
  assert (0 <= k * u) by (apply Z.mul_nonneg_nonneg; lia).
  assert (0 <= k * v) by (apply Z.mul_nonneg_nonneg; lia).
  destruct (Z.le_ge_cases ax bx) as [L|L].
  - rewrite Z.min_l, Z.max_r by lia.
    assert (0 <= (bx - ax) * (k * u)) by (apply Z.mul_nonneg_nonneg; lia).
    assert (0 <= (bx - ax) * (k * v)) by (apply Z.mul_nonneg_nonneg; lia).
    lia.
  - rewrite Z.min_r, Z.max_l by lia.
    assert (0 <= (ax - bx) * (k * u)) by (apply Z.mul_nonneg_nonneg; lia).
    assert (0 <= (ax - bx) * (k * v)) by (apply Z.mul_nonneg_nonneg; lia).
    lia.
Qed.

Lemma core_ray_up w qx qy ax ay bx by_ : w < qx -> w <= ax -> w <= bx -> ay < by_ ->
  let c := cross (ax, ay) (bx, by_) (qx, qy) in
  match fli_core (w, qy) (qx, qy) (ax, ay) (bx, by_) with
  | None => ~ (ay <= qy <= by_) \/ 0 < c
  | Some (xn, yn, dv, flag) =>
      ay <= qy <= by_ /\ c <= 0 /\
      ((xn =? qx * dv) && (yn =? qy * dv)) = (c =? 0) /\
      flag = ((xn =? w * dv) || (c =? 0) || (ay =? qy) || (by_ =? qy))
  end.
Proof.
  intros Hq Ha Hb Hab c.
  unfold fli_core. cbn [px py fst snd]. unfold det2, bounds_overlap. cbn [px py fst snd].
  set (k := qx - w). set (u := qy - ay). set (v := by_ - qy).
  assert (Hk : 0 < k) by (unfold k; lia).
  assert (Hc : c = bx * u + ax * v - qx * (u + v)) by (unfold c, cross, u, v; cbn [px py fst snd]; ring).
  replace ((w - qx) * (ay - by_) - (ax - bx) * (qy - qy)) with (k * (u + v)) by (unfold k, u, v; ring).
  replace ((w * qy - qy * qx) * (ax - bx) - (ax * by_ - ay * bx) * (w - qx)) with (k * (ax * v + bx * u))
    by (unfold k, u, v; ring).
  replace ((w * qy - qy * qx) * (ay - by_) - (ax * by_ - ay * bx) * (qy - qy)) with (qy * (k * (u + v)))
    by (unfold k, u, v; ring).
  assert (Huv : 0 < u + v) by (unfold u, v; lia).
  assert (Hdv : 0 < k * (u + v)) by (apply Z.mul_pos_pos; lia).
  unfold sgn_fix. replace (k * (u + v) <? 0) with false by lia.
  rewrite Z.abs_eq by lia.
  set (dv := k * (u + v)) in *.
  assert (Hxc : k * (ax * v + bx * u) - qx * dv = k * c) by (rewrite Hc; unfold dv; ring).
  set (xn := k * (ax * v + bx * u)) in *.
  rewrite !Z.min_id, !Z.max_id.
  rewrite (Z.min_l w qx), (Z.max_r w qx), (Z.min_l ay by_), (Z.max_r ay by_) by lia.
  assert (Hya : ay * dv <= qy * dv <-> 0 <= u).
  { unfold u. split; intros. - assert (ay <= qy) by (apply (Z.mul_le_mono_pos_r _ _ dv); lia). lia.
    - apply Z.mul_le_mono_nonneg_r; lia. }
  assert (Hyb : qy * dv <= by_ * dv <-> 0 <= v).
  { unfold v. split; intros. - assert (qy <= by_) by (apply (Z.mul_le_mono_pos_r _ _ dv); lia). lia.
    - apply Z.mul_le_mono_nonneg_r; lia. }
  assert (Hya' : qy * dv = ay * dv <-> u = 0).
  { unfold u. split; intros. - assert (qy = ay) by (apply (Z.mul_reg_r _ _ dv); lia). lia.
    - replace qy with ay by lia. reflexivity. }
  assert (Hyb' : qy * dv = by_ * dv <-> v = 0).
  { unfold v. split; intros. - assert (qy = by_) by (apply (Z.mul_reg_r _ _ dv); lia). lia.
    - replace qy with by_ by lia. reflexivity. }
  assert (Hxa : u = 0 -> xn = ax * dv) by (intros E; unfold xn, dv; rewrite E; ring).
  assert (Hxb : v = 0 -> xn = bx * dv) by (intros E; unfold xn, dv; rewrite E; ring).
  assert (Hsgn : (0 < c -> 0 < k * c) /\ (c < 0 -> k * c < 0) /\ (c = 0 -> k * c = 0)).
  { repeat split; intros. - apply Z.mul_pos_pos; lia. - apply Z.mul_pos_neg; lia. - subst c. lia. }
  assert (Hw : 0 <= u -> 0 <= v -> Z.min ax bx * dv <= xn <= Z.max ax bx * dv).
  { intros. apply wavg_bounds; lia. }
  assert (Hwm : w * dv <= Z.min ax bx * dv) by (apply Z.mul_le_mono_nonneg_r; lia).
  assert (Hmq : 0 <= u -> 0 <= v -> Z.min ax bx <= qx \/ 0 < c).
  { intros. destruct (Z.lt_ge_cases 0 c); [right; assumption|left].
    assert (k * c <= 0) by (destruct (Z.eq_dec c 0); [lia|]; assert (k * c < 0) by (apply Hsgn; lia); lia).
    assert (Z.min ax bx * dv <= qx * dv) by lia.
    apply (Z.mul_le_mono_pos_r _ _ dv); lia. }
  clearbody xn dv c k. unfold u, v in *. clear u v.
  destruct (negb _) eqn:E1; [lia|].
  destruct (dv =? 0) eqn:E2; [lia|].
  match goal with |- context [if ?b then Some _ else None] => destruct b eqn:E3 end.
  - repeat split; try lia.
  - lia.
Qed.

Lemma core_ray w p a b : w < px p -> w <= px a -> w <= px b ->
  let c := cross a b p in
  match fli_core (w, py p) p a b with
  | None => py a = py b \/ ~ (Z.min (py a) (py b) <= py p <= Z.max (py a) (py b)) \/
            0 < c * (py b - py a)
  | Some (xn, yn, dv, flag) =>
      py a <> py b /\ Z.min (py a) (py b) <= py p <= Z.max (py a) (py b) /\
      c * (py b - py a) <= 0 /\
      ((xn =? px p * dv) && (yn =? py p * dv)) = (c =? 0) /\
      flag = ((xn =? w * dv) || (c =? 0) || (py a =? py p) || (py b =? py p))
  end.
Proof.
  destruct p as [qx qy], a as [ax ay], b as [bx by_]. cbn [px py fst snd]. intros Hq Ha Hb. set (c := cross (ax, ay) (bx, by_) (qx, qy)).
  destruct (Z.lt_trichotomy ay by_) as [L|[L|L]].
  - pose proof (core_ray_up w qx qy ax ay bx by_ Hq Ha Hb L) as H. cbv zeta in H. fold c in H.
    destruct (fli_core _ _ _ _) as [[[[xn yn] dv] flag]|].
    + destruct H as (H1 & H2 & H3 & H4).
      assert (c * (by_ - ay) <= 0) by (apply Z.mul_nonpos_nonneg; lia).
      repeat split; try lia; assumption.
    + destruct H as [H|H]; [right; left; lia|right; right; apply Z.mul_pos_pos; lia].
  - subst by_. unfold fli_core. cbn [px py fst snd]. destruct (negb _); [left; reflexivity|].
    replace ((w - qx) * (ay - ay) - (ax - bx) * (qy - qy)) with 0 by ring.
    cbn [Z.eqb]. left; reflexivity.
  - rewrite <- core_swap2.
    pose proof (core_ray_up w qx qy bx by_ ax ay Hq Hb Ha L) as H. cbv zeta in H.
    assert (Ec : cross (bx, by_) (ax, ay) (qx, qy) = - c) by (unfold c, cross; cbn [px py fst snd]; ring).
    rewrite Ec in H.
    destruct (fli_core _ _ _ _) as [[[[xn yn] dv] flag]|].
    + destruct H as (H1 & H2 & H3 & H4).
      assert (c * (by_ - ay) <= 0) by (apply Z.mul_nonneg_nonpos; lia).
      split; [lia|]. split; [lia|]. split; [assumption|]. split.
      * rewrite H3. lia.
      * rewrite H4. destruct (xn =? w * dv), (- c =? 0) eqn:?, (c =? 0) eqn:?, (by_ =? qy), (ay =? qy); try reflexivity; lia.
    + destruct H as [H|H]; [right; left; lia|right; right; apply Z.mul_neg_neg; lia].
Qed.

Lemma on_line_x p a b : cross a b p = 0 -> py a <> py b ->
  Z.min (py a) (py b) <= py p <= Z.max (py a) (py b) ->
  Z.min (px a) (px b) <= px p <= Z.max (px a) (px b).
Proof.
  destruct p as [qx qy], a as [ax ay], b as [bx by_]. unfold cross. cbn [px py fst snd].
  intros Hc Hne Hy.
  assert (E1 : (by_ - ay) * (qx - ax) = (bx - ax) * (qy - ay)) by lia.
  assert (E2 : (by_ - ay) * (bx - qx) = (bx - ax) * (by_ - qy)) by lia.
  destruct (Z.lt_ge_cases ay by_) as [L|L]; destruct (Z.le_ge_cases ax bx) as [M|M].
  - assert (0 <= (bx - ax) * (qy - ay)) by (apply Z.mul_nonneg_nonneg; lia).
    assert (0 <= (bx - ax) * (by_ - qy)) by (apply Z.mul_nonneg_nonneg; lia).
    assert (0 <= qx - ax) by (apply (Z.mul_le_mono_pos_l _ _ (by_ - ay)); lia).
    assert (0 <= bx - qx) by (apply (Z.mul_le_mono_pos_l _ _ (by_ - ay)); lia).
    lia.
  - assert ((bx - ax) * (qy - ay) <= 0) by (apply Z.mul_nonpos_nonneg; lia).
    assert ((bx - ax) * (by_ - qy) <= 0) by (apply Z.mul_nonpos_nonneg; lia).
    assert (qx - ax <= 0) by (apply (Z.mul_le_mono_pos_l _ _ (by_ - ay)); lia).
    assert (bx - qx <= 0) by (apply (Z.mul_le_mono_pos_l _ _ (by_ - ay)); lia).
    lia.
  - assert ((bx - ax) * (qy - ay) <= 0) by (apply Z.mul_nonneg_nonpos; lia).
    assert ((bx - ax) * (by_ - qy) <= 0) by (apply Z.mul_nonneg_nonpos; lia).
    assert (0 <= qx - ax) by (apply (Z.mul_le_mono_neg_l _ _ (by_ - ay)); lia).
    assert (0 <= bx - qx) by (apply (Z.mul_le_mono_neg_l _ _ (by_ - ay)); lia).
    lia.
  - assert (0 <= (bx - ax) * (qy - ay)) by (apply Z.mul_nonpos_nonpos; lia).
    assert (0 <= (bx - ax) * (by_ - qy)) by (apply Z.mul_nonpos_nonpos; lia).
    assert (qx - ax <= 0) by (apply (Z.mul_le_mono_neg_l _ _ (by_ - ay)); lia).
    assert (bx - qx <= 0) by (apply (Z.mul_le_mono_neg_l _ _ (by_ - ay)); lia).
    lia.
Qed.

Lemma straddles_cases p a b : straddles p a b = true <->
  (py a <= py p < py b) \/ (py b <= py p < py a).
Proof. unfold straddles. destruct (py p <? py a) eqn:?, (py p <? py b) eqn:?; cbn; lia. Qed.

(* a straddling edge strictly east of p crosses the line east of p *)
Lemma west_side_pos p a b : px p < px a -> px p < px b -> straddles p a b = true ->
  0 < cross a b p * (py b - py a).
Proof.
  rewrite straddles_cases.
  destruct p as [qx qy], a as [ax ay], b as [bx by_]. unfold cross. cbn [px py fst snd].
  intros Ha Hb H.
  replace ((bx - ax) * (qy - ay) - (by_ - ay) * (qx - ax))
    with ((bx - qx) * (qy - ay) + (ax - qx) * (by_ - qy)) by ring.
  destruct H as [H|H].
  - assert (0 <= (bx - qx) * (qy - ay)) by (apply Z.mul_nonneg_nonneg; lia).
    assert (0 < (ax - qx) * (by_ - qy)) by (apply Z.mul_pos_pos; lia).
    apply Z.mul_pos_pos; lia.
  - assert ((bx - qx) * (qy - ay) < 0) by (apply Z.mul_pos_neg; lia).
    assert ((ax - qx) * (by_ - qy) <= 0) by (apply Z.mul_nonneg_nonpos; lia).
    apply Z.mul_neg_neg; lia.
Qed.

Lemma east_side_neg p a b : px a < px p -> px b < px p -> straddles p a b = true ->
  cross a b p * (py b - py a) < 0.
Proof.
  rewrite straddles_cases.
  destruct p as [qx qy], a as [ax ay], b as [bx by_]. unfold cross. cbn [px py fst snd].
  intros Ha Hb H.
  replace ((bx - ax) * (qy - ay) - (by_ - ay) * (qx - ax))
    with ((bx - qx) * (qy - ay) + (ax - qx) * (by_ - qy)) by ring.
  destruct H as [H|H].
  - assert ((bx - qx) * (qy - ay) <= 0) by (apply Z.mul_nonpos_nonneg; lia).
    assert ((ax - qx) * (by_ - qy) < 0) by (apply Z.mul_neg_pos; lia).
    apply Z.mul_neg_pos; lia.
  - assert (0 < (bx - qx) * (qy - ay)) by (apply Z.mul_neg_neg; lia).
    assert (0 <= (ax - qx) * (by_ - qy)) by (apply Z.mul_nonpos_nonpos; lia).
    apply Z.mul_pos_neg; lia.
Qed.

Lemma fliZ_ray_lt w p a b : w < px p -> fliZ (p, (w, py p)) (a, b) = fli_core (w, py p) p a b.
Proof.
  intros H. unfold fliZ, ordx. cbn [px py fst snd].
  replace (w <? px p) with true by lia.
  destruct (px b <? px a); [apply core_swap2|reflexivity].
Qed.

(* a degenerate ray (query on the line lon = w) meets nothing: div = 0 *)
Lemma fliZ_ray_deg p a b : fliZ (p, (px p, py p)) (a, b) = None.
Proof.
  unfold fliZ, ordx. cbn [px py fst snd].
  replace (px p <? px p) with false by lia.
  destruct (px b <? px a); unfold fli_core; cbn [px py fst snd];
    (destruct (negb _); [reflexivity|]);
    match goal with |- (if ?d =? 0 then _ else _) = _ => replace d with 0 by ring end; reflexivity.
Qed.

(* weak forms: edge not west of p *)
Lemma west_side_nonneg p a b : px p <= px a -> px p <= px b -> straddles p a b = true ->
  0 <= cross a b p * (py b - py a).
Proof.
  rewrite straddles_cases.
  destruct p as [qx qy], a as [ax ay], b as [bx by_]. unfold cross. cbn [px py fst snd].
  intros Ha Hb H.
  replace ((bx - ax) * (qy - ay) - (by_ - ay) * (qx - ax))
    with ((bx - qx) * (qy - ay) + (ax - qx) * (by_ - qy)) by ring.
  destruct H as [H|H].
  - assert (0 <= (bx - qx) * (qy - ay)) by (apply Z.mul_nonneg_nonneg; lia).
    assert (0 <= (ax - qx) * (by_ - qy)) by (apply Z.mul_nonneg_nonneg; lia).
    apply Z.mul_nonneg_nonneg; lia.
  - assert ((bx - qx) * (qy - ay) <= 0) by (apply Z.mul_nonneg_nonpos; lia).
    assert ((ax - qx) * (by_ - qy) <= 0) by (apply Z.mul_nonneg_nonpos; lia).
    apply Z.mul_nonpos_nonpos; lia.
Qed.

Lemma estep_geo w p a b : w < px p -> w <= px a -> w <= px b ->
  estep w p (a, b) = if on_segb p a b then None else Some (west_z p (a, b)).
Proof.
  intros Hp Ha Hb. unfold estep.
  destruct ((py a =? py b) && (py b =? py p) && (Z.min (px a) (px b) <=? px p) &&
            (px p <=? Z.max (px a) (px b))) eqn:Eh.
  { replace (on_segb p a b) with true; [reflexivity|]. symmetry. apply on_segb_spec.
    unfold on_seg, cross. assert (py a = py b) by lia. assert (py b = py p) by lia.
    replace (py p - py a) with 0 by lia. replace (py b - py a) with 0 by lia. lia. }
  rewrite fliZ_ray_lt by lia.
  pose proof (core_ray w p a b Hp Ha Hb) as H.
  set (c := cross a b p) in *.
  pose proof (straddles_cases p a b) as Hs.
  assert (Hol : c = 0 -> py a <> py b ->
                Z.min (py a) (py b) <= py p <= Z.max (py a) (py b) ->
                Z.min (px a) (px b) <= px p <= Z.max (px a) (px b))
    by (apply on_line_x).
  assert (Hz : c * (py b - py a) = 0 -> c = 0 \/ py b - py a = 0) by (apply Z.mul_eq_0).
  assert (Hz0 : c = 0 -> c * (py b - py a) = 0) by (intros ->; reflexivity).
  unfold west_z, on_segb. fold c.
  destruct (fli_core _ _ _ _) as [[[[xn yn] dv] flag]|].
  + destruct H as (H1 & H2 & H3 & H4 & H5). rewrite H4, H5.
    clearbody c.
    destruct (c =? 0) eqn:Ec.
    * rewrite orb_true_r. cbn [orb]. replace (_ && _) with true by lia. reflexivity.
    * rewrite orb_false_r. cbn [andb].
      destruct ((py a =? py p) || (py b =? py p)) eqn:Ef.
      -- rewrite <- orb_assoc, Ef, orb_true_r.
         destruct (Z.max (py a) (py b) <=? py p) eqn:Em; f_equal.
         ++ destruct (straddles p a b); [exfalso; destruct (proj1 Hs eq_refl); lia|reflexivity].
         ++ destruct (straddles p a b); [cbn [andb]; lia|].
            exfalso.
            assert (false = true) by (apply Hs; lia). discriminate.
      -- rewrite <- orb_assoc, Ef, orb_false_r.
         assert (Hst : straddles p a b = true) by (apply Hs; lia).
         assert (Hmx : (Z.max (py a) (py b) <=? py p) = false) by lia.
         rewrite Hst, Hmx. cbn [andb].
         destruct (xn =? w * dv); f_equal; lia.
  + clearbody c.
    destruct ((c =? 0) && _ && _ && _ && _) eqn:Eo.
    * exfalso. destruct H as [H|[H|H]]; lia.
    * f_equal. destruct (straddles p a b); [|reflexivity]. cbn [andb].
      destruct (proj1 Hs eq_refl); destruct H as [H|[H|H]]; lia.
Qed.

(* query on the line lon = w, no vertex west of it: nothing is counted, and a boundary hit is
   reported only on a horizontal edge *)
Lemma estep_deg p a b : estep (px p) p (a, b) = None \/ estep (px p) p (a, b) = Some false.
Proof.
  unfold estep. destruct (_ && _ && _ && _); [left; reflexivity|].
  rewrite fliZ_ray_deg. right; reflexivity.
Qed.
