(* C01: specification (independent of the code), algebra of the intersection routine on the
   membership test ray, and the characterisation of the ray-casting loop. *)
From GV Require Import Prelude GeomM.
Open Scope Z_scope.

(* ------------------------------------------------------------------ specification *)

(* the closed box with north-west corner nw and south-east corner se *)
Definition box_closed (nw se p : pt) : Prop :=
  px nw <= px p <= px se /\ py se <= py p <= py nw.

Lemma box_in_spec nw se p : box_in nw se p = true <-> box_closed nw se p.
Proof. unfold box_in, box_closed. lia. Qed.

(* p lies on the closed segment [a,b] (exact) *)
Definition on_seg (p a b : pt) : Prop :=
  cross a b p = 0 /\
  Z.min (px a) (px b) <= px p <= Z.max (px a) (px b) /\
  Z.min (py a) (py b) <= py p <= Z.max (py a) (py b).

Definition on_segb (p a b : pt) : bool :=
  (cross a b p =? 0) &&
  (Z.min (px a) (px b) <=? px p) && (px p <=? Z.max (px a) (px b)) &&
  (Z.min (py a) (py b) <=? py p) && (py p <=? Z.max (py a) (py b)).

Lemma on_segb_spec p a b : on_segb p a b = true <-> on_seg p a b.
Proof. unfold on_segb, on_seg. lia. Qed.

(* half-open straddling of the horizontal line through p: exactly one endpoint strictly above *)
Definition straddles (p a b : pt) : bool := negb (Bool.eqb (py p <? py a) (py p <? py b)).

(* For a straddling edge the crossing abscissa is x* = ax + (py-ay)(bx-ax)/(by-ay), and
   x* - px = cross a b p / (by - ay); so x* > px iff cross a b p and (by - ay) have the same sign. *)
Definition east_z (p : pt) (e : seg) : bool :=
  let '(a, b) := e in straddles p a b && (0 <? cross a b p * (py b - py a)).
Definition west_z (p : pt) (e : seg) : bool :=
  let '(a, b) := e in straddles p a b && (cross a b p * (py b - py a) <? 0).

(* parity of the number of elements satisfying f *)
Definition par {A} (f : A -> bool) (l : list A) : bool :=
  fold_right (fun e acc => xorb (f e) acc) false l.

Definition on_boundary (p : pt) (r : list pt) : Prop :=
  exists e, In e (cyc_edges r) /\ on_seg p (fst e) (snd e).

(* crossing-number (even-odd) interior, ray cast EAST, half-open rule *)
Definition evenodd (p : pt) (r : list pt) : Prop :=
  Nat.odd (length (filter (east_z p) (cyc_edges r))) = true.

Lemma par_odd {A} (f : A -> bool) l : par f l = Nat.odd (length (filter f l)).
Proof.
  induction l as [|x l IH]; [reflexivity|]. cbn [par fold_right filter].
  fold (par f l). rewrite IH. destruct (f x); cbn [length]; [|destruct (Nat.odd _); reflexivity].
  rewrite Nat.odd_succ, <- Nat.negb_odd. destruct (Nat.odd _); reflexivity.
Qed.

(* ------------------------------------------------------------------ the loop, edge by edge *)

Definition b2z (b : bool) : Z := if b then 1 else 0.

(* what one iteration does: None = return False (boundary), Some c = add c to the counter *)
Definition estep (w : Z) (p : pt) (e : seg) : option bool :=
  let '(a, b) := e in
  if (py a =? py b) && (py b =? py p) &&
     (Z.min (px a) (px b) <=? px p) && (px p <=? Z.max (px a) (px b))
  then None
  else
    match fliZ (p, (w, py p)) (a, b) with
    | None => Some false
    | Some (xn, yn, dv, flag) =>
        if flag then
          if (xn =? px p * dv) && (yn =? py p * dv) then None
          else if Z.max (py a) (py b) <=? py p then Some false else Some true
        else Some true
    end.

Lemma pip_loop_step w p e rest cnt :
  pip_loop w p (e :: rest) cnt =
  match estep w p e with None => false | Some c => pip_loop w p rest (cnt + b2z c) end.
Proof.
  destruct e as [a b]. cbn [pip_loop]. unfold estep.
  destruct ((py a =? py b) && (py b =? py p) && (Z.min (px a) (px b) <=? px p) &&
            (px p <=? Z.max (px a) (px b))); [reflexivity|].
  destruct (fliZ (p, (w, py p)) (a, b)) as [[[[xn yn] dv] flag]|];
    [|cbn [b2z]; rewrite Z.add_0_r; reflexivity].
  destruct flag; [|reflexivity].
  destruct ((xn =? px p * dv) && (yn =? py p * dv)); [reflexivity|].
  destruct (Z.max (py a) (py b) <=? py p); cbn [b2z]; [rewrite Z.add_0_r|]; reflexivity.
Qed.

Definition is_bnd (w : Z) (p : pt) (e : seg) : bool :=
  match estep w p e with None => true | Some _ => false end.
Definition is_cnt (w : Z) (p : pt) (e : seg) : bool :=
  match estep w p e with Some true => true | _ => false end.

Lemma odd_base cnt : 0 <= cnt -> (0 <? cnt) && negb (cnt mod 2 =? 0) = Z.odd cnt.
Proof.
  intros H. rewrite Zmod_odd. destruct (Z.odd cnt) eqn:E.
  - assert (cnt <> 0) by (intros ->; discriminate). lia.
  - lia.
Qed.

Lemma pip_loop_char w p es : forall cnt, 0 <= cnt ->
  pip_loop w p es cnt =
  if existsb (is_bnd w p) es then false else xorb (Z.odd cnt) (par (is_cnt w p) es).
Proof.
  induction es as [|e es IH]; intros cnt Hc.
  - cbn. rewrite xorb_false_r. apply odd_base; exact Hc.
  - rewrite pip_loop_step. cbn [existsb par fold_right]. fold (par (is_cnt w p) es).
    unfold is_bnd at 1, is_cnt at 1. destruct (estep w p e) as [c|]; [|reflexivity].
    cbn [orb]. rewrite IH by (destruct c; cbn; lia).
    destruct (existsb (is_bnd w p) es); [reflexivity|].
    destruct c; cbn [b2z].
    + rewrite Z.add_1_r, Z.odd_succ, <- Z.negb_odd.
      destruct (Z.odd cnt), (par (is_cnt w p) es); reflexivity.
    + rewrite Z.add_0_r. destruct (Z.odd cnt), (par (is_cnt w p) es); reflexivity.
Qed.

Lemma pip_char w p r :
  pip w p r = if existsb (is_bnd w p) (cyc_edges r) then false else par (is_cnt w p) (cyc_edges r).
Proof.
  unfold pip. rewrite pip_loop_char by lia. change (Z.odd 0) with false.
  destruct (existsb _ _); [reflexivity|]. destruct (par _ _); reflexivity.
Qed.

(* ------------------------------------------------------------------ algebra of fli_core *)

Lemma sgn_fix_opp d v : d <> 0 -> sgn_fix (- d) (- v) = sgn_fix d v.
Proof. unfold sgn_fix. intros. destruct (d <? 0) eqn:?, (- d <? 0) eqn:?; lia. Qed.

(* swapping the endpoints of the second segment changes nothing *)
Lemma core_swap2 a1 a2 b1 b2 : fli_core a1 a2 b2 b1 = fli_core a1 a2 b1 b2.
Proof.
  unfold fli_core.
  rewrite (Z.min_comm (px b2)), (Z.max_comm (px b2)), (Z.min_comm (py b2)), (Z.max_comm (py b2)).
  destruct (negb _); [reflexivity|].
  set (div := (px a1 - px a2) * (py b1 - py b2) - (px b1 - px b2) * (py a1 - py a2)).
  replace ((px a1 - px a2) * (py b2 - py b1) - (px b2 - px b1) * (py a1 - py a2)) with (- div)
    by (unfold div; ring).
  replace (- div =? 0) with (div =? 0) by lia.
  destruct (div =? 0) eqn:Ed; [reflexivity|].
  rewrite Z.abs_opp.
  replace (det2 a1 a2 * (px b2 - px b1) - det2 b2 b1 * (px a1 - px a2))
    with (- (det2 a1 a2 * (px b1 - px b2) - det2 b1 b2 * (px a1 - px a2)))
    by (unfold det2; ring).
  replace (det2 a1 a2 * (py b2 - py b1) - det2 b2 b1 * (py a1 - py a2))
    with (- (det2 a1 a2 * (py b1 - py b2) - det2 b1 b2 * (py a1 - py a2)))
    by (unfold det2; ring).
  rewrite !sgn_fix_opp by lia.
  destruct (_ && _); [|reflexivity].
  f_equal. f_equal.
  set (i1 := _ && _). set (i2 := _ && _). set (i3 := _ && _). set (i4 := _ && _).
  destruct i1, i2, i3, i4; reflexivity.
Qed.
