(* Proofs about the token-level WKT model (C13). *)
From GV Require Import Prelude RingM RingP WktM.
Open Scope Z_scope.

Lemma wrong_tag_rejected : forall half t w,
  w_tag w <> Some t -> read half t w = Err ValueError.
Proof.
  intros half t w H. unfold read, gate. destruct (w_tag w) as [t'|]; [|reflexivity].
  destruct (wtag_eqb t t') eqn:E; [|reflexivity].
  exfalso. apply H. destruct t, t'; try discriminate; reflexivity.
Qed.
