(* Proofs about the WKT model (C13): token-level round trip, dispatch, rejection; the
   character-level facts are closed computations on fixed texts. *)
From Coq Require Import String Ascii.
From GV Require Import Prelude RingM RingP WktM.
Open Scope Z_scope.

(* ---------- coordinates ---------- *)

Lemma coord_of_tuple_of : forall c, z_ok c -> coord_of [] (tuple_of c) = Ok c.
Proof.
  intros [x y z] H. unfold z_ok in H. cbn in H. unfold tuple_of, coord_of, truthy_z. cbn.
  destruct z as [z|]; [|reflexivity].
  destruct (z =? 0) eqn:E; [apply Z.eqb_eq in E; subst; contradiction|reflexivity].
Qed.

Lemma mapR_map_ok {A B} (f : B -> res A) (g : A -> B) : forall l,
  (forall a, In a l -> f (g a) = Ok a) -> mapR f (map g l) = Ok l.
Proof.
  induction l as [|a l IH]; intros H; cbn; [reflexivity|].
  rewrite (H a (or_introl eq_refl)). rewrite IH; [reflexivity|].
  intros b Hb. apply H. right. exact Hb.
Qed.

Lemma read_ring : forall r, ring_zok r -> mapR (coord_of []) (wring r) = Ok r.
Proof.
  intros r H. unfold wring. apply mapR_map_ok. intros c Hc. apply coord_of_tuple_of.
  unfold ring_zok in H. rewrite Forall_forall in H. apply H. exact Hc.
Qed.

Lemma read_rings : forall rs, Forall ring_zok rs -> mapR (mapR (coord_of [])) (map wring rs) = Ok rs.
Proof.
  intros rs H. apply mapR_map_ok. intros r Hr. apply read_ring. rewrite Forall_forall in H. apply H. exact Hr.
Qed.

Lemma arity_tuple_of : forall c, arity_ok (tuple_of c) = true.
Proof. intros c. unfold tuple_of. destruct (truthy_z (cz c)); reflexivity. Qed.

Lemma arity_wring : forall r, forallb arity_ok (wring r) = true.
Proof.
  intros r. apply forallb_forall. intros t Ht. apply in_map_iff in Ht as (c & <- & _). apply arity_tuple_of.
Qed.

Lemma nonempty_map {A B} (f : A -> B) : forall l, l <> [] -> nonempty (map f l) = true.
Proof. intros [|a l] H; [contradiction|reflexivity]. Qed.

Lemma gate_rings : forall rs, rs <> [] -> Forall (fun r => r <> []) rs ->
  nonempty (map wring rs) && forallb (fun r => nonempty r && forallb arity_ok r) (map wring rs) = true.
Proof.
  intros rs N H. rewrite nonempty_map by exact N. cbn [andb].
  apply forallb_forall. intros t Ht. apply in_map_iff in Ht as (r & <- & Hr).
  rewrite Forall_forall in H. unfold wring at 1. rewrite nonempty_map by (apply H; exact Hr).
  apply arity_wring.
Qed.

(* ---------- polygons ---------- *)

Lemma ctor_wf : forall half r, ring_wf half r -> ctor half r = Ok r.
Proof.
  intros half r H. pose proof (ring_wf_nonempty _ _ H) as N. destruct H as (_ & C & O).
  unfold ctor. destruct r; [contradiction|]. rewrite norm_ring_fix by assumption. reflexivity.
Qed.

Lemma ctor_rev_hole : forall half h, hole_wf half h -> ctor half (rev h) = Ok h.
Proof.
  intros half h [H R]. pose proof (ring_wf_nonempty _ _ H) as N. destruct H as (_ & C & O).
  unfold ctor. destruct (rev h) as [|a t] eqn:E.
  - apply (f_equal (@rev coord)) in E. rewrite rev_involutive in E. cbn in E. contradiction.
  - rewrite <- E in *. rewrite norm_ring_rev by assumption. reflexivity.
Qed.

Lemma assemble_polygon_rings : forall half p, polygon_wf half true p ->
  assemble_polygon half (linear_rings p) = Ok p.
Proof.
  intros half p (Wo & _ & Wh). unfold linear_rings, rings_of, assemble_polygon.
  rewrite (mapR_map_ok (ctor half) (@rev coord)).
  - rewrite ctor_wf by exact Wo. destruct p; reflexivity.
  - intros h Hh. rewrite Forall_forall in Wh. destruct (Wh h Hh) as [R _]. apply ctor_rev_hole. exact R.
Qed.

Lemma polygon_rings_zok : forall half st p, polygon_wf half st p -> Forall ring_zok (linear_rings p).
Proof.
  intros half st p (_ & Z & H). unfold linear_rings, rings_of. constructor; [exact Z|].
  rewrite Forall_forall in *. intros r Hr. apply in_map_iff in Hr as (h & <- & Hh).
  destruct (H h Hh) as [_ Zh]. unfold ring_zok in *. rewrite Forall_forall in *.
  intros c Hc. apply Zh. apply in_rev. exact Hc.
Qed.

Lemma polygon_rings_nonempty : forall half p, polygon_wf half true p ->
  linear_rings p <> [] /\ Forall (fun r => r <> []) (linear_rings p).
Proof.
  intros half p (Wo & _ & Wh). unfold linear_rings, rings_of. split; [discriminate|].
  constructor; [eapply ring_wf_nonempty; exact Wo|].
  rewrite Forall_forall in *. intros r Hr. apply in_map_iff in Hr as (h & <- & Hh).
  destruct (Wh h Hh) as [[R _] _]. pose proof (ring_wf_nonempty _ _ R) as N.
  intros E. apply N. apply (f_equal (@rev coord)) in E. rewrite rev_involutive in E. exact E.
Qed.

Lemma read_polys : forall half ps, Forall (polygon_wf half true) ps ->
  mapR (mapR (mapR (coord_of []))) (map (fun p => map wring (linear_rings p)) ps) = Ok (map linear_rings ps).
Proof.
  intros half. induction ps as [|p ps IH]; intros H; [reflexivity|].
  inversion H as [|? ? Hp Hps]; subst. cbn [map mapR].
  rewrite read_rings by (eapply polygon_rings_zok; exact Hp). rewrite IH by exact Hps. reflexivity.
Qed.

(* ---------- round trip ---------- *)

(* shapes whose text the gate accepts and the reader turns back: no empty part, z never 0
   (finding D14), polygons as the constructor leaves them with holes of non-zero area *)
Definition wkt_wf (half : Z) (g : geom) : Prop :=
  match g with
  | GPoint c => z_ok c
  | GLine vs => vs <> [] /\ ring_zok vs
  | GMPoint cs => cs <> [] /\ ring_zok cs
  | GMLine ls => ls <> [] /\ Forall (fun l => l <> [] /\ ring_zok l) ls
  | GPoly p => polygon_wf half true p
  | GMPoly ps => ps <> [] /\ Forall (polygon_wf half true) ps
  | _ => False
  end.

Lemma wkt_roundtrip : forall half orc k g t,
  kind_tag g = Some t -> wkt_wf half g -> read half t (write orc k g) = Ok g.
Proof.
  intros half orc k g t K W. destruct g; cbn in K; inversion K; subst t; clear K; cbn in W; unfold read, gate; cbn [write w_tag w_body w_zm wtag_eqb andb].
  - (* point *) rewrite arity_tuple_of. cbn [parse_body mapR]. rewrite coord_of_tuple_of by exact W. reflexivity.
  - destruct W as [N Z]. unfold wring at 1. rewrite nonempty_map by exact N. rewrite arity_wring. cbn [andb parse_body].
    rewrite read_ring by exact Z. reflexivity.
  - (* polygon *)
    destruct (polygon_rings_nonempty _ _ W) as [N1 N2].
    cbn [geom_rings]. rewrite gate_rings by assumption. cbn [parse_body].
    rewrite read_rings by (eapply polygon_rings_zok; exact W). cbn [assemble].
    rewrite assemble_polygon_rings by exact W. reflexivity.
  - destruct W as [N Z]. unfold wring at 1. rewrite nonempty_map by exact N. rewrite arity_wring. cbn [andb parse_body].
    rewrite read_ring by exact Z. reflexivity.
  - destruct W as [N H]. rewrite gate_rings; [|exact N|].
    + cbn [parse_body]. rewrite read_rings; [reflexivity|].
      rewrite Forall_forall in *. intros l Hl. apply (H l Hl).
    + rewrite Forall_forall in *. intros l Hl. apply (H l Hl).
  - (* multipolygon *)
    destruct W as [N H]. rewrite nonempty_map by exact N. cbn [andb].
    assert (G : forallb (fun p0 => nonempty p0 && forallb (fun r => nonempty r && forallb arity_ok r) p0)
                        (map (fun p => map wring (linear_rings p)) ps) = true).
    { apply forallb_forall. intros x Hx. apply in_map_iff in Hx as (p & <- & Hp).
      rewrite Forall_forall in H. destruct (polygon_rings_nonempty _ _ (H p Hp)) as [N1 N2].
      apply gate_rings; assumption. }
    rewrite G. cbn [parse_body].
    rewrite (read_polys half ps H).
    cbn [assemble].
    rewrite (mapR_map_ok (assemble_polygon half) linear_rings).
    + reflexivity.
    + intros p Hp. apply assemble_polygon_rings. rewrite Forall_forall in H. apply (H p Hp).
Qed.

(* ---------- dispatch ---------- *)

Lemma parse_wkt_dispatch : forall half orc k g t,
  kind_tag g = Some t -> parse_wkt half (write orc k g) = read half t (write orc k g).
Proof. intros half orc k g t K. destruct g; cbn in K; inversion K; reflexivity. Qed.

(* every shape without a WKT type of its own is written, and dispatched, as a POLYGON *)
Lemma shapeless_dispatch : forall half orc k g,
  kind_tag g = None -> w_tag (write orc k g) = Some TPoly /\
  parse_wkt half (write orc k g) = read half TPoly (write orc k g).
Proof. intros half orc k g K. destruct g; cbn in K; try discriminate; split; reflexivity. Qed.

Lemma lowercase_not_dispatched : forall half w, w_upper w = false -> parse_wkt half w = Err ValueError.
Proof. intros half w H. unfold parse_wkt. rewrite H. destruct (w_tag w); reflexivity. Qed.

Lemma unknown_keyword_rejected : forall half w, w_tag w = None ->
  parse_wkt half w = Err ValueError /\ forall t, read half t w = Err ValueError.
Proof.
  intros half w H. split; [unfold parse_wkt; rewrite H; reflexivity|].
  intros t. unfold read, gate. rewrite H. reflexivity.
Qed.

(* ---------- rejection ---------- *)

Lemma wrong_tag_rejected : forall half t w,
  w_tag w <> Some t -> read half t w = Err ValueError.
Proof.
  intros half t w H. unfold read, gate. destruct (w_tag w) as [t'|]; [|reflexivity].
  destruct (wtag_eqb t t') eqn:E; [|reflexivity].
  exfalso. apply H. destruct t, t'; try discriminate; reflexivity.
Qed.

Definition depth_of (t : wtag) : nat :=
  match t with TPoint | TLine | TMPoint => 1 | TPoly | TMLine => 2 | TMPoly => 3 end%nat.

Definition body_depth (b : wbody) : nat := match b with W1 _ => 1 | W2 _ => 2 | W3 _ => 3 end%nat.

Definition all_tuples (b : wbody) : list tuple :=
  match b with
  | W1 l => l
  | W2 l => concat l
  | W3 l => concat (concat l)
  end.

(* anything the reader does not refuse with ValueError at the gate has the right keyword, the
   right nesting depth, and 2..4 numbers in every coordinate *)
(* nesting depths a reader accepts: the one of its type, and for MULTIPOINT also the OGC form with
   one parenthesised coordinate per point (repair D41) *)
Definition depth_ok (t : wtag) (d : nat) : Prop := d = depth_of t \/ (t = TMPoint /\ d = 2%nat).

Lemma gate_inv : forall t w, gate t w = true ->
  w_tag w = Some t /\ depth_ok t (body_depth (w_body w)) /\
  Forall (fun c => (2 <= length c <= 4)%nat) (all_tuples (w_body w)).
Proof.
  intros t w. unfold gate. destruct (w_tag w) as [t'|]; [|discriminate].
  destruct (wtag_eqb t t') eqn:E; [|discriminate].
  assert (t' = t) by (destruct t, t'; try discriminate; reflexivity). subst t'. cbn [andb].
  assert (A : forall c, arity_ok c = true -> (2 <= length c <= 4)%nat).
  { intros c Hc. unfold arity_ok in Hc. apply andb_true_iff in Hc as [H1 H2].
    apply Nat.leb_le in H1, H2. lia. }
  assert (F1 : forall l, forallb arity_ok l = true -> Forall (fun c => (2 <= length c <= 4)%nat) l).
  { intros l Hl. rewrite forallb_forall in Hl. apply Forall_forall. intros c Hc. apply A, Hl, Hc. }
  assert (F2 : forall l, forallb (fun r => nonempty r && forallb arity_ok r) l = true ->
                         Forall (fun c => (2 <= length c <= 4)%nat) (concat l)).
  { intros l Hl. rewrite forallb_forall in Hl. apply Forall_forall. intros c Hc.
    apply in_concat in Hc as (r & Hr & Hc). specialize (Hl r Hr). apply andb_true_iff in Hl as [_ Hl].
    rewrite forallb_forall in Hl. apply A, Hl, Hc. }
  destruct t; destruct (w_body w) as [l|l|l]; try discriminate; intros H; (split; [reflexivity|]);
    (split; [first [left; reflexivity | right; split; reflexivity]|]); cbn [all_tuples].
  - destruct l as [|c [|? ?]]; try discriminate. constructor; [apply A; exact H|constructor].
  - apply andb_true_iff in H as [_ H]. apply F1, H.
  - apply andb_true_iff in H as [_ H]. apply F2, H.
  - apply andb_true_iff in H as [_ H]. apply F1, H.
  - apply andb_true_iff in H as [_ H]. rewrite forallb_forall in H. apply Forall_forall. intros c Hc.
    apply in_concat in Hc as (r & Hr & Hc). specialize (H r Hr).
    destruct r as [|c0 [|? ?]]; try discriminate. destruct Hc as [<-|[]]. apply A, H.
  - apply andb_true_iff in H as [_ H]. apply F2, H.
  - apply andb_true_iff in H as [_ H]. rewrite forallb_forall in H. apply Forall_forall. intros c Hc.
    apply in_concat in Hc as (r & Hr & Hc). apply in_concat in Hr as (p & Hp & Hr).
    specialize (H p Hp). apply andb_true_iff in H as [_ H].
    pose proof (F2 p H) as F. rewrite Forall_forall in F. apply F. apply in_concat. exists r. split; assumption.
Qed.

Lemma read_gate : forall half t w, gate t w = false -> read half t w = Err ValueError.
Proof. intros half t w H. unfold read. rewrite H. reflexivity. Qed.

Lemma bad_arity_rejected : forall half t w c,
  In c (all_tuples (w_body w)) -> ~ (2 <= length c <= 4)%nat -> read half t w = Err ValueError.
Proof.
  intros half t w c Hc Hn. apply read_gate. destruct (gate t w) eqn:G; [|reflexivity].
  exfalso. destruct (gate_inv _ _ G) as (_ & _ & F). rewrite Forall_forall in F. apply Hn, F, Hc.
Qed.

Lemma wrong_depth_rejected : forall half t w,
  ~ depth_ok t (body_depth (w_body w)) -> read half t w = Err ValueError.
Proof.
  intros half t w Hn. apply read_gate. destruct (gate t w) eqn:G; [|reflexivity].
  exfalso. destruct (gate_inv _ _ G) as (_ & D & _). contradiction.
Qed.

(* the OGC multipoint form reads as the flat form does: one parenthesised coordinate per point *)
Lemma multipoint_nested_reads : forall half zm up (ts : list tuple),
  read half TMPoint (mkwkt (Some TMPoint) up zm (W2 (map (fun t => [t]) ts))) =
  read half TMPoint (mkwkt (Some TMPoint) up zm (W1 ts)).
Proof.
  intros half zm up ts. unfold read, gate. cbn [w_tag w_body w_zm wtag_eqb andb].
  assert (G : forallb (fun r : list tuple => match r with [c] => arity_ok c | _ => false end) (map (fun t => [t]) ts)
              = forallb arity_ok ts).
  { induction ts as [|t ts IH]; cbn; [reflexivity|]. rewrite IH. reflexivity. }
  assert (N : nonempty (map (fun t : tuple => [t]) ts) = nonempty ts) by (destruct ts; reflexivity).
  rewrite G, N. destruct (nonempty ts && forallb arity_ok ts); [|reflexivity].
  unfold parse_body.
  assert (M : mapR (mapR (coord_of zm)) (map (fun t => [t]) ts) =
              match mapR (coord_of zm) ts with Ok l => Ok (map (fun c => [c]) l) | Err e => Err e end).
  { clear G N. induction ts as [|t ts IH]; cbn [map mapR]; [reflexivity|].
    destruct (coord_of zm t) as [c|e]; [|reflexivity].
    rewrite IH. destruct (mapR (coord_of zm) ts); reflexivity. }
  rewrite M. destruct (mapR (coord_of zm) ts) as [l|e]; [|reflexivity].
  cbn [assemble]. f_equal. f_equal. clear. induction l as [|c l IH]; cbn [map concat app]; [reflexivity|]. rewrite IH. reflexivity.
Qed.

(* ---------- shapes without a WKT type write the WKT of their polygon form ---------- *)

Lemma is_ccw_box : forall half nw se, lon nw <= lon se -> lat se <= lat nw -> lon se - lon nw <= half ->
  is_ccw half (box_ring nw se) = true.
Proof.
  intros half nw se Hx Hy Hs.
  destruct (box_ring_ccw nw se Hx Hy) as [C A].
  apply is_ccw_area; [|apply closedb_xy; exact C|exact A].
  intros a b Ha Hb. unfold box_ring in Ha, Hb. cbn in Ha, Hb.
  repeat (destruct Ha as [<-|Ha]; [repeat (destruct Hb as [<-|Hb]; [cbn; lia|]); destruct Hb|]). destruct Ha.
Qed.

(* GeoBox.to_wkt() = GeoBox.to_polygon().to_wkt() *)
Lemma shapeless_write_box : forall half orc k nw se hs,
  lon nw <= lon se -> lat se <= lat nw -> lon se - lon nw <= half ->
  write orc k (GBox nw se hs) = write orc k (GPoly (mk_polygon half (box_ring nw se) hs)).
Proof.
  intros half orc k nw se hs Hx Hy Hs. unfold write, mk_polygon. cbn [geom_rings linear_rings outline pholes].
  rewrite norm_ring_fix; [reflexivity| |apply is_ccw_box; assumption].
  destruct (box_ring_ccw nw se Hx Hy) as [C _]. exact C.
Qed.

(* circle / ellipse / wedge: CONDITIONAL on the sampled boundary being closed and counter-clockwise *)
Lemma shapeless_write_round : forall half orc k id hs,
  closedb (o_outer orc id k) = true -> is_ccw half (o_outer orc id k) = true ->
  write orc k (GRound id hs) = write orc k (GPoly (mk_polygon half (o_outer orc id k) hs)).
Proof.
  intros half orc k id hs C O. unfold write, mk_polygon. cbn [geom_rings linear_rings outline pholes].
  rewrite norm_ring_fix by assumption. reflexivity.
Qed.

Lemma shapeless_write_wedge : forall half orc k id hs,
  let r := (o_outer orc id k ++ rev (o_inner orc id k) ++ firstn 1 (o_outer orc id k))%list in
  is_ccw half r = true -> o_outer orc id k <> [] ->
  write orc k (GWedge id hs) = write orc k (GPoly (mk_polygon half r hs)).
Proof.
  intros half orc k id hs r O N. unfold write, mk_polygon. cbn [geom_rings linear_rings outline pholes].
  fold r. rewrite norm_ring_fix; [reflexivity| |exact O]. apply closedb_wedge. exact N.
Qed.

(* ---------- refutations (known findings) ---------- *)

Definition noorc : oracle := mkoracle (fun _ _ => []) (fun _ _ => []).

(* D14: z = 0 is not written *)
Lemma z_zero_wkt_refuted :
  exists g g', kind_tag g = Some TPoint /\ read 720 TPoint (write noorc None g) = Ok g' /\ g' <> g.
Proof.
  exists (GPoint (mkc 4 8 (Some 0))), (GPoint (mkc 4 8 None)). repeat split. discriminate.
Qed.

Definition chars (s : string) : str := list_ascii_of_string s.

(* D26: a digit run that the gate splits into two numbers reaches Coordinate() with one part *)
Lemma digit_run_split_refuted :
  from_wkt_chars TPoint (chars "POINT(1234)") = inr (Err TypeError) /\
  parse_wkt_chars (chars "POINT(1234)") = inr (Err TypeError).
Proof. vm_compute. split; reflexivity. Qed.

(* regression for repair D33: a Z value with four and more integer digits is one number of the
   grammar; the library's own text 'POINT(1.0 2.0 1500.5)' reads back exactly (units of 0.1) *)
Lemma z_four_digits_read_exactly :
  from_wkt_chars TPoint (chars "POINT(1.0 2.0 1500.5)") = inr (Ok (GPoint (mkc 10 20 (Some 15005)), -1)) /\
  from_wkt_chars TMPoint (chars "MULTIPOINT(6.5 0.1 12345.678, 1.0 0.5)") =
  inr (Ok (GMPoint [mkc 6500 100 (Some 12345678); mkc 1000 500 None], -3)).
Proof. vm_compute. split; reflexivity. Qed.

(* the same text with a three-digit Z is read exactly; exponent form (repair D13) is accepted *)
Lemma char_level_examples :
  from_wkt_chars TPoint (chars "POINT(1.0 2.0 150.5)") = inr (Ok (GPoint (mkc 10 20 (Some 1505)), -1)) /\
  from_wkt_chars TPoint (chars "POINT(1e-05 5.0)") = inr (Ok (GPoint (mkc 1 500000 None), -5)) /\
  from_wkt_chars TLine (chars "POINT(1.0 2.0)") = inr (Err ValueError) /\
  parse_wkt_chars (chars "point(1.0 2.0)") = inr (Err ValueError) /\
  from_wkt_chars TPoint (chars "POINT(1.0 2.0") = inr (Err ValueError).
Proof. vm_compute. repeat split; reflexivity. Qed.

(* regression for repair D41 (character level): the text Shapely 2 writes for a MultiPoint *)
Lemma multipoint_nested_chars :
  from_wkt_chars TMPoint (chars "MULTIPOINT ((0.5 1.0), (2.0 3.5))") =
  from_wkt_chars TMPoint (chars "MULTIPOINT(0.5 1.0, 2.0 3.5)") /\
  from_wkt_chars TMPoint (chars "MULTIPOINT Z ((0.5 1.0 7.0), (2.0 3.5 8.0))") =
  inr (Ok (GMPoint [mkc 5 10 (Some 70); mkc 20 35 (Some 80)], -1)) /\
  from_wkt_chars TMPoint (chars "MULTIPOINT((0.5 1.0, 2.0 3.5))") = inr (Err ValueError) /\
  parse_wkt_chars (chars "MULTIPOINT ((0.5 1.0), (2.0 3.5))") = from_wkt_chars TMPoint (chars "MULTIPOINT(0.5 1.0, 2.0 3.5)").
Proof. vm_compute. repeat split; reflexivity. Qed.
