(* C09, last clause, for what the code RETURNS: inverse_haversine_degrees rounds the corner destinations to
   7 decimals, so each number of `bounds` is the unrounded formula of BoundsCurveM.circle_bounds /
   ellipse_bounds moved by at most 5e-8 + 1e-19 degrees (SphereP3.dest_rounding), i.e. at most 5.6 mm on the
   ground.  Hence the `_rounded` bounds - the definitions the translator tie (geneq/CurveBoundsGenEq.v) proves
   equal to the source - are within r/100 + 0.0056 m of the true extents.  (PI < 3.15 from Machin's formula in
   the standard library: no Interval.) *)
From GV Require Import Prelude SphereM SphereP1 SphereP2 SphereP3 SphereP5 CurveM BoundsCurveM
  BoundsCurveP2 BoundsCurveP3 BoundsCurveP4 BoundsCurveP5.
From Coq Require Import Reals Lra Machin.
Open Scope R_scope.

Lemma PI_lt_315 : PI < 315 / 100.
Proof.
  destruct (PI_2_3_7_ineq 1) as [_ U].
  unfold sum_f_R0, tg_alt, PI_2_3_7_tg, Ratan_seq in U. simpl in U. lra.
Qed.

(* the rounding step of inverse_haversine_radians, in degrees *)
Definition round_step : R := / 2 / 10 ^ 7 + / 10 ^ 19.

Lemma round_step_bounds : 0 <= round_step <= 50001 / 10 ^ 12.
Proof.
  unfold round_step. assert (0 < / 10 ^ 19) by (apply Rinv_0_lt_compat, pow_lt; lra).
  assert (/ 10 ^ 19 <= / 10 ^ 12) by (apply Rinv_le_contravar; [apply pow_lt; lra|simpl; lra]).
  split; simpl in *; lra.
Qed.

(* ... is at most 5.6 mm along a meridian (and less along a parallel) *)
Lemma round_step_metres : Rearth * rad round_step <= 56 / 10000.
Proof.
  pose proof round_step_bounds as [B0 B1]. pose proof PI_lt_315 as P. pose proof PI_RGT_0 as P0.
  unfold rad, Rearth. simpl in B1.
  assert (round_step * PI <= 50001 / 1000000000000 * (315 / 100)) by nra.
  lra.
Qed.

Lemma rad_le x y : x <= y -> rad x <= rad y.
Proof. intros H. unfold rad. pose proof PI_RGT_0. apply Rmult_le_compat_r; lra. Qed.

Lemma dest_rounding_rad p theta d :
  Rabs (rad (lon (dest_rad_rounded p theta d)) - rad (lon (dest_rad p theta d))) <= rad round_step /\
  Rabs (rad (lat (dest_rad_rounded p theta d)) - rad (lat (dest_rad p theta d))) <= rad round_step.
Proof.
  destruct (dest_rounding p theta d) as [A B]. fold round_step in A, B.
  rewrite <- !rad_minus, !rad_abs. split; apply rad_le; assumption.
Qed.

(* moving one bound by the rounding step costs at most 5.6 mm in the comparison with an extent N *)
Lemma bound_shift k x xr N T :
  0 <= k <= Rearth -> Rabs (rad xr - rad x) <= rad round_step -> k * Rabs (rad x - N) <= T ->
  k * Rabs (rad xr - N) <= T + 56 / 10000.
Proof.
  intros Hk Hr HT. pose proof round_step_metres as M.
  assert (Tr : Rabs (rad xr - N) <= Rabs (rad xr - rad x) + Rabs (rad x - N)).
  { replace (rad xr - N) with ((rad xr - rad x) + (rad x - N)) by ring. apply Rabs_triang. }
  assert (0 <= rad round_step) by (pose proof (Rabs_pos (rad xr - rad x)); lra).
  assert (k * Rabs (rad xr - rad x) <= Rearth * rad round_step).
  { apply Rle_trans with (k * rad round_step); [apply Rmult_le_compat_l; lra|apply Rmult_le_compat_r; lra]. }
  assert (k * Rabs (rad xr - N) <= k * (Rabs (rad xr - rad x) + Rabs (rad x - N))) by (apply Rmult_le_compat_l; lra).
  lra.
Qed.

Lemma k_lat : 0 <= Rearth <= Rearth.
Proof. unfold Rearth; lra. Qed.
Lemma k_lon x : Rabs x <= 75 -> 0 <= Rearth * cos (rad x) <= Rearth.
Proof.
  intros H. destruct (centre_facts' x H) as [[C1 C2] _]. unfold cmin in C1. unfold Rearth. split; nra.
Qed.

(* ------------------------------------------------------------------ the four numbers, rounded against unrounded *)
Lemma circle_bounds_rounding c r :
  let b := circle_bounds c r in let br := circle_bounds_rounded c r in
  Rabs (rad (rb_minlon br) - rad (rb_minlon b)) <= rad round_step /\
  Rabs (rad (rb_minlat br) - rad (rb_minlat b)) <= rad round_step /\
  Rabs (rad (rb_maxlon br) - rad (rb_maxlon b)) <= rad round_step /\
  Rabs (rad (rb_maxlat br) - rad (rb_maxlat b)) <= rad round_step.
Proof.
  cbv zeta. unfold circle_bounds, circle_bounds_rounded, rb_minlon, rb_minlat, rb_maxlon, rb_maxlat; cbn [fst snd].
  unfold dest_deg, dest_deg_rounded.
  destruct (dest_rounding_rad c (rad 315) (r * sqrt 2)) as [A1 A2].
  destruct (dest_rounding_rad c (rad 135) (r * sqrt 2)) as [B1 B2].
  repeat split; assumption.
Qed.

Lemma ellipse_bounds_rounding s :
  let b := ellipse_bounds s in let br := ellipse_bounds_rounded s in
  Rabs (rad (rb_minlon br) - rad (rb_minlon b)) <= rad round_step /\
  Rabs (rad (rb_minlat br) - rad (rb_minlat b)) <= rad round_step /\
  Rabs (rad (rb_maxlon br) - rad (rb_maxlon b)) <= rad round_step /\
  Rabs (rad (rb_maxlat br) - rad (rb_maxlat b)) <= rad round_step.
Proof.
  cbv zeta. unfold ellipse_bounds, ellipse_bounds_rounded, ellipse_centroid, rb_minlon, rb_minlat, rb_maxlon, rb_maxlat;
    cbn [fst snd]. unfold dest_deg, dest_deg_rounded.
  destruct (dest_rounding_rad (e_center s) (rad 0) (ellipse_dy s)) as [_ A].
  destruct (dest_rounding_rad (e_center s) (rad 90) (ellipse_dx s)) as [B _].
  destruct (dest_rounding_rad (e_center s) (rad 180) (ellipse_dy s)) as [_ C].
  destruct (dest_rounding_rad (e_center s) (rad 270) (ellipse_dx s)) as [D _].
  repeat split; assumption.
Qed.

(* ------------------------------------------------------------------ the clause for the returned bounds *)
Theorem circle_bounds_rounded_match_extents c r N S E W :
  Rabs (lat c) <= 75 -> 0 <= r <= 10000 ->
  is_max_of (curve_lat c r) N -> is_min_of (curve_lat c r) S ->
  is_max_of (curve_lon c r) E -> is_min_of (curve_lon c r) W ->
  let b := circle_bounds_rounded c r in
  Rearth * Rabs (rad (rb_maxlat b) - N) <= r / 100 + 56 / 10000 /\
  Rearth * Rabs (rad (rb_minlat b) - S) <= r / 100 + 56 / 10000 /\
  Rearth * cos (rad (lat c)) * Rabs (rad (rb_maxlon b) - E) <= r / 100 + 56 / 10000 /\
  Rearth * cos (rad (lat c)) * Rabs (rad (rb_minlon b) - W) <= r / 100 + 56 / 10000.
Proof.
  intros Hl Hr HN HS HE HW b.
  destruct (circle_bounds_match_extents c r N S E W Hl Hr HN HS HE HW) as (A & B & C & D).
  destruct (circle_bounds_rounding c r) as (R1 & R2 & R3 & R4).
  unfold b. repeat split.
  - exact (bound_shift _ _ _ _ _ k_lat R4 A).
  - exact (bound_shift _ _ _ _ _ k_lat R2 B).
  - exact (bound_shift _ _ _ _ _ (k_lon _ Hl) R3 C).
  - exact (bound_shift _ _ _ _ _ (k_lon _ Hl) R1 D).
Qed.

(* GeoRing.bounds: whenever the code takes its first branch (angle_max - angle_min >= 360) *)
Theorem ring_bounds_rounded_match_extents (s : ring) b N S E W :
  ring_bounds_full_opt s = Some b ->
  Rabs (lat (r_center s)) <= 75 -> 0 <= r_outer s <= 10000 ->
  is_max_of (curve_lat (r_center s) (r_outer s)) N -> is_min_of (curve_lat (r_center s) (r_outer s)) S ->
  is_max_of (curve_lon (r_center s) (r_outer s)) E -> is_min_of (curve_lon (r_center s) (r_outer s)) W ->
  Rearth * Rabs (rad (rb_maxlat b) - N) <= r_outer s / 100 + 56 / 10000 /\
  Rearth * Rabs (rad (rb_minlat b) - S) <= r_outer s / 100 + 56 / 10000 /\
  Rearth * cos (rad (lat (r_center s))) * Rabs (rad (rb_maxlon b) - E) <= r_outer s / 100 + 56 / 10000 /\
  Rearth * cos (rad (lat (r_center s))) * Rabs (rad (rb_minlon b) - W) <= r_outer s / 100 + 56 / 10000.
Proof.
  unfold ring_bounds_full_opt. destruct (rleb 360 (r_amax s - r_amin s)); [|discriminate].
  intros Eb. injection Eb as <-. intros. apply circle_bounds_rounded_match_extents; assumption.
Qed.

(* ... which it does exactly when the angle range is at least 360 degrees *)
Lemma ring_bounds_full_opt_spec s :
  (360 <= r_amax s - r_amin s -> ring_bounds_full_opt s = Some (circle_bounds_rounded (r_center s) (r_outer s))) /\
  (r_amax s - r_amin s < 360 -> ring_bounds_full_opt s = None).
Proof.
  unfold ring_bounds_full_opt, rleb. destruct (Rle_dec 360 (r_amax s - r_amin s)); split; intros; try reflexivity; lra.
Qed.

Theorem ellipse_bounds_rounded_match_extents el N S E W :
  Rabs (lat (e_center el)) <= 75 -> 0 < e_minor el -> e_minor el <= e_major el -> e_major el <= 10000 ->
  is_sup_of (ecurve_lat el) N -> is_inf_of (ecurve_lat el) S ->
  is_sup_of (ecurve_lon el) E -> is_inf_of (ecurve_lon el) W ->
  let b := ellipse_bounds_rounded el in
  Rearth * Rabs (rad (rb_maxlat b) - N) <= e_major el / 100 + 56 / 10000 /\
  Rearth * Rabs (rad (rb_minlat b) - S) <= e_major el / 100 + 56 / 10000 /\
  Rearth * cos (rad (lat (e_center el))) * Rabs (rad (rb_maxlon b) - E) <= e_major el / 100 + 56 / 10000 /\
  Rearth * cos (rad (lat (e_center el))) * Rabs (rad (rb_minlon b) - W) <= e_major el / 100 + 56 / 10000.
Proof.
  intros Hl Hb Hab Ha HN HS HE HW b.
  destruct (ellipse_bounds_match_extents el N S E W Hl Hb Hab Ha HN HS HE HW) as (A & B & C & D).
  destruct (ellipse_bounds_rounding el) as (R1 & R2 & R3 & R4).
  unfold b. repeat split.
  - exact (bound_shift _ _ _ _ _ k_lat R4 A).
  - exact (bound_shift _ _ _ _ _ k_lat R2 B).
  - exact (bound_shift _ _ _ _ _ (k_lon _ Hl) R3 C).
  - exact (bound_shift _ _ _ _ _ (k_lon _ Hl) R1 D).
Qed.
