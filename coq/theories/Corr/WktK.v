(* Correspondence checker for C13: token level (write / read / parse_wkt against the harness's
   independent tokenizer and the implementation's from_wkt) and character level (the regex
   gate, findall, split, float lexing and assembly against from_wkt / parse_wkt on raw text). *)
From Coq Require Import String Ascii.
From GV Require Import Prelude RingM WktM.
Open Scope Z_scope.

Definition half : Z := 720.      (* token-level cases use quarter degrees *)

Definition polygon_same (a b : polygon) : bool :=
  ring_eqb (outline a) (outline b) && list_eqb ring_eqb (pholes a) (pholes b).

Definition geom_same (a b : geom) : bool :=
  match a, b with
  | GPoint c, GPoint d => coord_eqb c d
  | GLine u, GLine v => ring_eqb u v
  | GPoly p, GPoly q => polygon_same p q
  | GMPoint u, GMPoint v => ring_eqb u v
  | GMLine u, GMLine v => list_eqb ring_eqb u v
  | GMPoly u, GMPoly v => list_eqb polygon_same u v
  | _, _ => false
  end.

Definition tuple_eqb : tuple -> tuple -> bool := list_eqb Z.eqb.
Definition zml_eqb (a b : zml) : bool := match a, b with LZ, LZ | LM, LM => true | _, _ => false end.

Definition wbody_eqb (a b : wbody) : bool :=
  match a, b with
  | W1 x, W1 y => list_eqb tuple_eqb x y
  | W2 x, W2 y => list_eqb (list_eqb tuple_eqb) x y
  | W3 x, W3 y => list_eqb (list_eqb (list_eqb tuple_eqb)) x y
  | _, _ => false
  end.

Definition wkt_eqb (a b : wkt) : bool :=
  option_eqb wtag_eqb (w_tag a) (w_tag b) && Bool.eqb (w_upper a) (w_upper b) &&
  list_eqb zml_eqb (w_zm a) (w_zm b) && wbody_eqb (w_body a) (w_body b).

Fixpoint lookup (id : Z) (t : list (Z * ring)) : ring :=
  match t with
  | [] => []
  | (i, r) :: t' => if i =? id then r else lookup id t'
  end.

Definition orc_of (outer inner : list (Z * ring)) : oracle :=
  mkoracle (fun id _ => lookup id outer) (fun id _ => lookup id inner).

(* ---- character level: bring model and implementation to one power of ten ---- *)
Definition sc (f : Z) (c : coord) : coord := mkc (lon c * f) (lat c * f) (option_map (fun z => z * f) (cz c)).
Definition sc_poly (f : Z) (p : polygon) : polygon := mkpoly (map (sc f) (outline p)) (map (map (sc f)) (pholes p)).
Definition sc_geom (f : Z) (g : geom) : geom :=
  match g with
  | GPoint c => GPoint (sc f c)
  | GLine l => GLine (map (sc f) l)
  | GPoly p => GPoly (sc_poly f p)
  | GMPoint l => GMPoint (map (sc f) l)
  | GMLine l => GMLine (map (map (sc f)) l)
  | GMPoly l => GMPoly (map (sc_poly f) l)
  | _ => g
  end.

Definition poly_coords (p : polygon) : list coord := outline p ++ concat (pholes p).
Definition geom_coords (g : geom) : list coord :=
  match g with
  | GPoint c => [c]
  | GLine l | GMPoint l => l
  | GPoly p => poly_coords p
  | GMLine l => concat l
  | GMPoly l => flat_map poly_coords l
  | _ => []
  end.

(* strictly inside the canonical range, where Coordinate.__init__ is the identity *)
Definition in_range (h : Z) (c : coord) : bool :=
  (- h <? lon c) && (lon c <? h) && (- h <=? 2 * lat c) && (2 * lat c <=? h).

Inductive wcase :=
| KWrite (outer inner : list (Z * ring)) (g : geom) (k : option Z) (out : wkt)
| KRead (t : wtag) (w : wkt) (out : res geom)
| KParseTok (w : wkt) (out : res geom)
| KChars (t : option wtag) (text : string) (out : res (geom * Z))
| KFloat (text : string) (out : option (Z * Z)).

Definition res_geom_same (x y : res geom) : bool := res_eqb geom_same x y.

Definition dec_eqb (a b : Z * Z) : bool :=
  let e := Z.min (snd a) (snd b) in (fst a * 10 ^ (snd a - e) =? fst b * 10 ^ (snd b - e)).

Definition check (c : wcase) : bool :=
  match c with
  | KWrite outer inner g k out => wkt_eqb (write (orc_of outer inner) k g) out
  | KRead t w out => res_geom_same (read half t w) out
  | KParseTok w out => res_geom_same (parse_wkt half w) out
  | KChars t text out =>
      let s := list_ascii_of_string text in
      match (match t with Some t' => from_wkt_chars t' s | None => parse_wkt_chars s end), out with
      | inr (Ok (g, e)), Ok (g', e') =>
          let m := Z.min e e' in
          if forallb (in_range (180 * 10 ^ (- e))) (geom_coords g)
          then geom_same (sc_geom (10 ^ (e - m)) g) (sc_geom (10 ^ (e' - m)) g')
          else true       (* out of canonical range: Coordinate wraps (C08); only the verdict is compared *)
      | inr (Err x), Err y => errk_eqb x y
      | _, _ => false
      end
  | KFloat text out =>
      match float_lex (list_ascii_of_string text), out with
      | Some a, Some b => dec_eqb a b
      | None, None => true
      | _, _ => false
      end
  end.
