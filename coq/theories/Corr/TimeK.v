(* Correspondence checker for C06: the harness writes the implementation's outputs as
   literals; [check] compares them with the model by computation. *)
From GV Require Import Prelude TimeM.
Open Scope Z_scope.

Definition ivp := (Z * Z)%type.
Definition to_iv (p : ivp) : iv := mkiv (fst p) (snd p).
Definition of_iv (i : iv) : ivp := (st i, en i).
Definition ivp_eqb (a b : ivp) : bool := (fst a =? fst b) && (snd a =? snd b).

Inductive tcase :=
| KMk (s e : Z) (out : res ivp)
| KMkDelta (s d : Z) (out : res ivp)
| KContains (a : ivp) (t : Z) (o_in o_intersects : bool)
| KRel (a b : ivp) (o_sub o_sup o_dis o_int o_in o_eq o_hasheq : bool)
       (o_inter : res (option ivp)) (o_union : res ivp).

Definition res_iv_eqb (x : res iv) (y : res ivp) : bool :=
  res_eqb ivp_eqb (match x with Ok i => Ok (of_iv i) | Err e => Err e end) y.

Definition check (c : tcase) : bool :=
  match c with
  | KMk s e out => res_iv_eqb (mk s e) out
  | KMkDelta s d out => res_iv_eqb (mk_delta s d) out
  | KContains a t o1 o2 =>
      eqb (contains_dt (to_iv a) t) o1 && eqb (intersects_dt (to_iv a) t) o2
  | KRel a b o_sub o_sup o_dis o_int o_in o_eq o_hasheq o_inter o_union =>
      let x := to_iv a in let y := to_iv b in
      eqb (issubset x y) o_sub && eqb (issuperset x y) o_sup && eqb (isdisjoint x y) o_dis &&
      eqb (intersects x y) o_int && eqb (contains_iv x y) o_in && eqb (iv_eqb x y) o_eq &&
      implb (iv_eqb x y) o_hasheq &&
      res_eqb (option_eqb ivp_eqb)
        (match intersection x y with
         | Ok (Some i) => Ok (Some (of_iv i)) | Ok None => Ok None | Err e => Err e end) o_inter &&
      res_iv_eqb (union x y) o_union
  end.
