(* Correspondence checker for the curved `bounds` (C09, last sentence; Model/BoundsCurveM.v): the harness
   (harness/c09c.py) writes, per sampled shape, a lemma
       | rb_* (circle_bounds / ring_full_bounds / ellipse_bounds <rational inputs>) - [360 k] - <shape.bounds float> | <= eps
   for the four numbers, and proves it with the reduction lemmas below followed by `interval`.  As in SphereK.v
   the reductions replace what `interval` cannot evaluate (atan2 by its right-half-plane case - the corner
   destinations of a shape of at most 10 km never leave it -, asin by atan) under side conditions proved by
   `interval` on the case's numbers.  k accounts for the Coordinate constructor's wrap of the longitude. *)
From GV Require Import Prelude SphereM SphereP1 SphereP2 SphereP3 CurveM BoundsCurveM.
From Coq Require Import Reals Lra.
From Interval Require Import Tactic.
Open Scope R_scope.

Definition K_lat_ok (f t d vlat eps : R) : Prop :=
  let s2 := s2_of (rad f) (d / Rearth) t in
  -1 < s2 < 1 /\ Rabs (deg (atan (s2 / sqrt (1 - s2²))) - vlat) <= eps.

Definition K_lon_ok (k : Z) (l f t d vlon eps : R) : Prop :=
  let s2 := s2_of (rad f) (d / Rearth) t in
  let Y := sin t * sin (d / Rearth) * cos (rad f) in
  let X := cos (d / Rearth) - sin (rad f) * s2 in
  0 < X /\ Rabs (deg (rad l + atan (Y / X)) - 360 * IZR k - vlon) <= eps.

Lemma K_dest_lat l f t d vlat eps :
  K_lat_ok f t d vlat eps -> Rabs (lat (dest_rad (l, f) t d) - vlat) <= eps.
Proof.
  unfold K_lat_ok. cbv zeta. intros [Hs H].
  unfold dest_rad, lat; cbn [fst snd]. rewrite !deg_alt, !rad_alt.
  fold (s2_of (rad f) (d / Rearth) t). rewrite asin_atan by exact Hs. exact H.
Qed.

Lemma K_dest_lon k l f t d vlon eps :
  K_lon_ok k l f t d vlon eps -> Rabs (lon (dest_rad (l, f) t d) - 360 * IZR k - vlon) <= eps.
Proof.
  unfold K_lon_ok. cbv zeta. intros [HX H].
  unfold dest_rad, lon, lat; cbn [fst snd]. rewrite !deg_alt, !rad_alt.
  fold (s2_of (rad f) (d / Rearth) t). rewrite sin_asin by apply s2_range.
  rewrite atan2_pos by exact HX. exact H.
Qed.

Lemma K_circle_bounds kw ke l f r vw vs ve vn eps :
  K_lon_ok kw l f (rad 315) (r * sqrt 2) vw eps -> K_lat_ok f (rad 135) (r * sqrt 2) vs eps ->
  K_lon_ok ke l f (rad 135) (r * sqrt 2) ve eps -> K_lat_ok f (rad 315) (r * sqrt 2) vn eps ->
  let b := circle_bounds (l, f) r in
  Rabs (rb_minlon b - 360 * IZR kw - vw) <= eps /\ Rabs (rb_minlat b - vs) <= eps /\
  Rabs (rb_maxlon b - 360 * IZR ke - ve) <= eps /\ Rabs (rb_maxlat b - vn) <= eps.
Proof.
  intros H1 H2 H3 H4. cbv zeta.
  unfold circle_bounds, rb_minlon, rb_minlat, rb_maxlon, rb_maxlat; cbn [fst snd]. unfold dest_deg.
  repeat split; [apply K_dest_lon|apply K_dest_lat|apply K_dest_lon|apply K_dest_lat]; assumption.
Qed.

(* a ring whose angle range is at least 360 degrees: the code's first branch, with the outer radius *)
Lemma K_ring_bounds kw ke l f rin rout amin amax vw vs ve vn eps :
  360 <= amax - amin ->
  K_lon_ok kw l f (rad 315) (rout * sqrt 2) vw eps -> K_lat_ok f (rad 135) (rout * sqrt 2) vs eps ->
  K_lon_ok ke l f (rad 135) (rout * sqrt 2) ve eps -> K_lat_ok f (rad 315) (rout * sqrt 2) vn eps ->
  let s := mkring (l, f) rin rout amin amax [] in
  ring_bounds_full_opt s = Some (circle_bounds_rounded (l, f) rout) /\
  let b := ring_full_bounds s in
  Rabs (rb_minlon b - 360 * IZR kw - vw) <= eps /\ Rabs (rb_minlat b - vs) <= eps /\
  Rabs (rb_maxlon b - 360 * IZR ke - ve) <= eps /\ Rabs (rb_maxlat b - vn) <= eps.
Proof.
  intros Ha H1 H2 H3 H4. cbv zeta. split.
  - unfold ring_bounds_full_opt, rleb; cbn [r_amax r_amin r_center r_outer].
    destruct (Rle_dec 360 (amax - amin)); [reflexivity|contradiction].
  - apply (K_circle_bounds kw ke l f rout); assumption.
Qed.

Lemma K_ellipse_bounds kw ke l f a b rot vw vs ve vn eps :
  let s := mkellipse (l, f) a b rot [] in
  K_lon_ok kw l f (rad 270) (ellipse_dx s) vw eps -> K_lat_ok f (rad 180) (ellipse_dy s) vs eps ->
  K_lon_ok ke l f (rad 90) (ellipse_dx s) ve eps -> K_lat_ok f (rad 0) (ellipse_dy s) vn eps ->
  let bb := ellipse_bounds s in
  Rabs (rb_minlon bb - 360 * IZR kw - vw) <= eps /\ Rabs (rb_minlat bb - vs) <= eps /\
  Rabs (rb_maxlon bb - 360 * IZR ke - ve) <= eps /\ Rabs (rb_maxlat bb - vn) <= eps.
Proof.
  intros s H1 H2 H3 H4. cbv zeta.
  unfold ellipse_bounds, rb_minlon, rb_minlat, rb_maxlon, rb_maxlat; cbn [fst snd]. unfold dest_deg.
  unfold s; cbn [e_center]. fold s.
  repeat split; [apply K_dest_lon|apply K_dest_lat|apply K_dest_lon|apply K_dest_lat]; assumption.
Qed.

Ltac kb_ivl :=
  cbv zeta;
  cbv [K_lon_ok K_lat_ok ellipse_dx ellipse_dy e_major e_minor e_rotation s2_of lon lat fst snd rad deg Rearth Rsqr];
  repeat split; interval with (i_prec 80).

(* self-test: a circle at (10, 60) of 5 km against numbers computed independently (python, unrounded) *)
Lemma K_selftest :
  let b := circle_bounds (10, 60) 5000 in
  Rabs (rb_minlon b - 360 * IZR 0 - 9909945463 / 1000000000) <= 1 / 10000000 /\
  Rabs (rb_minlat b - 59955003404 / 1000000000) <= 1 / 10000000 /\
  Rabs (rb_maxlon b - 360 * IZR 0 - 10089810043 / 1000000000) <= 1 / 10000000 /\
  Rabs (rb_maxlat b - 60044935472 / 1000000000) <= 1 / 10000000.
Proof. apply (K_circle_bounds 0 0); kb_ivl. Qed.
