(* Correspondence checker for C19: the harness writes inputs and the implementation's outputs as
   literals (exact rationals of floats; decimal floats as their integer k after checking
   value == k / 10**p; strings as strings); [check] compares them with the model by computation. *)
From Coq Require Import QArith Qabs String Ascii.
From GV Require Import Prelude CoordM CoordK FormatM.
Open Scope Z_scope.

Definition dms_eqb (t : dms) (d m k5 : Z) (ps : bool) : bool :=
  (dg t =? d) && (mn t =? m) && (s5 t =? k5) && eqb (pos t) ps.

Definition kq (k p : Z) : Q := (inject_Z k / p10 p)%Q.

Inductive fcase :=
(* f'{h/100:.2f}' == s  (Python's fixed-point formatting on the hundredths domain) *)
| KFmt (h : Z) (s : string)
(* round_half_up(k5 / 1e5, 2) == h / 100  (second rounding of to_qdms, on decimal floats) *)
| KHund (k5 h : Z)
(* round_half_up(v, p) == k / 10**p, v the exact rational of a float for which the harness
   found the float addition `v + 10**-(p+12)` harmless (same rounding as the exact sum) *)
| KRhu (v : Q) (p k : Z)
(* one axis of to_dms: dd stored value, x = the float product abs(dd)*3600 (rational), xtol = 0
   when that product is exact else half an ulp of x; observed (d, m, k5, hemisphere>=0) *)
| KDms (dd x xtol : Q) (d m k5 : Z) (ps : bool)
(* from_dms((d,m,s,hemi) x 2): stored pair within tol (longitude modulo 360) of the model *)
| KFromDms (d1 m1 : Z) (s1 : Q) (p1 : bool) (d2 m2 : Z) (s2 : Q) (p2 : bool) (tol olon olat : Q)
(* one axis of to_qdms given the to_dms tuple of that axis *)
| KQdmsAxis (is_lon : bool) (d m k5 : Z) (ps : bool) (s : string)
(* whole to_qdms(reverse) on a coordinate whose two float products are exact *)
| KQdms (lon lat : Q) (reverse : bool) (s1 s2 : string)
(* from_qdms(slon, slat): stored pair within tol of the model (the stored float is the double
   nearest to the model's 6-decimal value, moved by exact float steps when it is wrapped) *)
| KFromQdms (slon slat : string) (tol olon olat : Q)
(* to_projection / from_projection with pyproj's value (x, y) at this point observed:
   stored pair within tol (a few ulp of the projected magnitude) and z *)
| KToProj (lon lat x y : Q) (tol olon olat : Q) (oz : option Q)
| KFromProj (lon lat x y : Q) (tol olon olat : Q) (oz : option Q).

Definition coord_close (r : res coord) (tol olon olat : Q) (oz : option Q) : bool :=
  match r with
  | Ok c => close360 tol (clon c) olon && close tol (clat c) olat && oq_eqb (cz c) oz &&
            in_range olon olat
  | Err _ => false
  end.

Definition check (c : fcase) : bool :=
  match c with
  | KFmt h s => String.eqb (str2 h) s
  | KHund k5 h => hund k5 =? h
  | KRhu v p k => rhu_k v p =? k
  | KDms dd x xtol d m k5 ps =>
      dms_eqb (dms_of_x x (Qle_bool 0 dd)) d m k5 ps &&
      Qle_bool (Qabs (x - Qabs dd * 3600)) xtol &&
      (if Qeq_bool xtol 0 then dms_eqb (to_dms_axis dd) d m k5 ps else true)
  | KFromDms d1 m1 s1 p1 d2 m2 s2 p2 tol olon olat =>
      match mk (dms_value (inject_Z d1) (inject_Z m1) s1 p1)
               (dms_value (inject_Z d2) (inject_Z m2) s2 p2) None None true with
      | Ok c => close360 tol (clon c) olon && close tol (clat c) olat && in_range olon olat
      | Err _ => false
      end
  | KQdmsAxis is_lon d m k5 ps s =>
      String.eqb (if is_lon then qdms_axis 3 EW (mkdms d m k5 ps)
                  else qdms_axis 2 NS (mkdms d m k5 ps)) s
  | KQdms lon lat reverse s1 s2 =>
      let (a, b) := to_qdms (mkc lon lat None None) reverse in
      String.eqb a s1 && String.eqb b s2
  | KFromQdms slon slat tol olon olat =>
      match from_qdms slon slat with
      | Some r => coord_close r tol olon olat None
      | None => false
      end
  | KToProj lon lat x y tol olon olat oz =>
      coord_close (to_projection (fun _ _ => (x, y)) (mkc lon lat None None)) tol olon olat oz
  | KFromProj lon lat x y tol olon olat oz =>
      coord_close (from_projection (fun _ _ => (x, y)) lon lat) tol olon olat oz
  end.
