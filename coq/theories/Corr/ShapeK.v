(* Correspondence checkers for C05 (gate) and C04 (multi-shape loops): the abstract spatial
   predicates are instantiated with the tables of answers the implementation itself returned. *)
From GV Require Import Prelude TimeM TimeK ShapeM.
Open Scope Z_scope.

Definition odt (o : option ivp) : option iv := option_map to_iv o.

(* ------------------------------------------------------------------ C05 *)
Inductive gcase :=
| KGate (adt bdt : option ivp) (sp_int sp_cont : bool) (o_int o_cont o_in : bool)
| KTime (adt : option ivp) (b : ivp) (o_ctime o_itime : bool)
| KTimeDt (adt : option ivp) (t : Z) (o_ctime o_itime : bool)
| KCoord (adt : option ivp) (cc o : bool)
| KNorm (d : dtarg) (o : res (option ivp)).

Definition gcheck (c : gcase) : bool :=
  match c with
  | KGate adt bdt si sc oi oc oin =>
      let a := mkshp (odt adt) 0 in let b := mkshp (odt bdt) 1 in
      eqb (ShapeM.intersects (fun _ _ => si) a b) oi &&
      eqb (contains (fun _ _ => sc) a b) oc && eqb (contains (fun _ _ => sc) a b) oin
  | KTime adt b oc oi =>
      let a := mkshp (odt adt) 0 in
      eqb (contains_time a (to_iv b)) oc && eqb (intersects_time a (to_iv b)) oi
  | KTimeDt adt t oc oi =>
      let a := mkshp (odt adt) 0 in
      eqb (contains_time_dt a t) oc && eqb (intersects_time_dt a t) oi
  | KCoord adt cc o => eqb (contains_coord (fun _ _ => cc) (mkshp (odt adt) 0) 0) o
  | KNorm d o =>
      res_eqb (option_eqb ivp_eqb)
        (match norm_dt d with Ok x => Ok (option_map of_iv x) | Err e => Err e end) o
  end.

(* ------------------------------------------------------------------ C04 *)
Definition tab (t : list (list bool)) (i j : nat) : bool := nth j (nth i t []) false.

Definition obnd := res bnd.
Definition bnd_eqb (a b : bnd) : bool :=
  let '(a1, a2, a3, a4) := a in let '(b1, b2, b3, b4) := b in
  (a1 =? b1) && (a2 =? b2) && (a3 =? b3) && (a4 =? b4).

Definition mrec_eqb (a b : Z * option ivp * Z) : bool :=
  let '(g, d, p) := a in let '(g', d', p') := b in
  (g =? g') && option_eqb ivp_eqb d d' && (p =? p').

Inductive mcase :=
(* receiver is the multi-shape with n members; the argument has k parts (multi_arg says
   whether it is itself a multi-shape); tables are member x part *)
| KRecv (n k : nat) (multi_arg : bool) (ctab itab : list (list bool)) (o_cs o_is : bool)
(* receiver is a single shape x; the argument is a multi-shape with parts p_j *)
| KArg (xi xc : list bool) (o_is o_cs : bool)
| KCC (ccs : list bool) (o : bool)
| KBounds (bs : list bnd) (o : res bnd)
| KSplit (pdt : option ivp) (pprops : Z) (ms : list (Z * option ivp * Z)) (o : list (Z * option ivp * Z)).

Definition mcheck (c : mcase) : bool :=
  match c with
  | KRecv n k multi_arg ctab itab ocs ois =>
      let ms := seq 0 n in let ps := seq 0 k in
      let a := if multi_arg then Parts ps else Single 0%nat in
      eqb (multi_cs nat nat (tab ctab) ms a) ocs && eqb (multi_is nat nat (tab itab) ms a) ois
  | KArg xi xc ois ocs =>
      let ps := seq 0 (length xi) in
      eqb (single_is_multi nat (fun j => nth j xi false) ps) ois &&
      eqb (single_cs_multi nat (fun j => nth j xc false) ps) ocs
  | KCC ccs o => eqb (multi_cc nat unit (fun i _ => nth i ccs false) (seq 0 (length ccs)) tt) o
  | KBounds bs o => res_eqb bnd_eqb (multi_bounds bs) o
  | KSplit pdt pp ms o =>
      list_eqb mrec_eqb
        (map (fun m => let '(g, d, p) := m in (g, option_map of_iv d, p))
             (split Z (odt pdt) pp (map (fun m => let '(g, d, p) := m in (g, odt d, p)) ms))) o
  end.
