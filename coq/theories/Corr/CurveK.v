(* Correspondence checker for C03 (curved shapes, real-valued model): reduction lemmas that turn
   a per-case statement about CurveM (a boundary coordinate within eps of the implementation's,
   a membership decision equal to the implementation's) into goals `interval` can prove. *)
From GV Require Import Prelude SphereM SphereP1 SphereP2 SphereP3 SphereK CurveM CurveP.
From Coq Require Import Reals Lra.
From Interval Require Import Tactic.
Open Scope R_scope.

Lemma Rabs_le_inv x a : Rabs x <= a -> - a <= x <= a.
Proof. intros H. unfold Rabs in H. destruct (Rcase_abs x); lra. Qed.

Lemma INR_lit n (r : R) : IZR (Z.of_nat n) = r -> INR n = r.
Proof. intros <-. apply INR_IZR_INZ. Qed.

(* ---------------------------------------------------------------- boundary points *)
(* all three generators are destinations: (start, bearing in radians, distance) *)
Lemma K_dest_at c t d q (k : Z) vlon vlat eps t' d' :
  t = t' -> d = d' ->
  (let s2 := s2_of (rad (lat c)) (d' / Rearth) t' in
   let Y := sin t' * sin (d' / Rearth) * cos (rad (lat c)) in
   let X := cos (d' / Rearth) - sin (rad (lat c)) * s2 in
   -1 < s2 < 1 /\ quad_ok q Y X /\
   Rabs (deg (rad (lon c) + atan2_q q Y X) - 360 * IZR k - vlon) <= eps /\
   Rabs (deg (atan (s2 / sqrt (1 - s2²))) - vlat) <= eps) ->
  Rabs (lon (dest_rad c t d) - 360 * IZR k - vlon) <= eps /\
  Rabs (lat (dest_rad c t d) - vlat) <= eps.
Proof.
  intros -> -> H. cbv zeta in H. destruct H as (H1 & H2 & H3 & H4).
  destruct c as [l f]. unfold lon, lat in *; cbn [fst snd] in *.
  apply (K_dest q k l f t' d' vlon vlat eps); assumption.
Qed.

Lemma K_circle_pt s k i kr ir q z vlon vlat eps :
  INR k = kr -> INR i = ir ->
  (let t := PI * 2 / kr * ir in let d := c_radius s in let c := c_center s in
   let s2 := s2_of (rad (lat c)) (d / Rearth) t in
   let Y := sin t * sin (d / Rearth) * cos (rad (lat c)) in
   let X := cos (d / Rearth) - sin (rad (lat c)) * s2 in
   -1 < s2 < 1 /\ quad_ok q Y X /\
   Rabs (deg (rad (lon c) + atan2_q q Y X) - 360 * IZR z - vlon) <= eps /\
   Rabs (deg (atan (s2 / sqrt (1 - s2²))) - vlat) <= eps) ->
  Rabs (lon (circle_pt s k i) - 360 * IZR z - vlon) <= eps /\
  Rabs (lat (circle_pt s k i) - vlat) <= eps.
Proof.
  intros Hk Hi H. unfold circle_pt, circle_angle.
  apply (K_dest_at _ _ _ q z vlon vlat eps (PI * 2 / kr * ir) (c_radius s)); [rewrite Hk, Hi; reflexivity|reflexivity|exact H].
Qed.

Lemma K_ellipse_pt s k i kr ir q z vlon vlat eps :
  INR k = kr -> INR i = ir ->
  (let a := PI * 2 / kr * ir in
   let t := a + rad (e_rotation s) in let d := radius_at s a in let c := e_center s in
   let s2 := s2_of (rad (lat c)) (d / Rearth) t in
   let Y := sin t * sin (d / Rearth) * cos (rad (lat c)) in
   let X := cos (d / Rearth) - sin (rad (lat c)) * s2 in
   -1 < s2 < 1 /\ quad_ok q Y X /\
   Rabs (deg (rad (lon c) + atan2_q q Y X) - 360 * IZR z - vlon) <= eps /\
   Rabs (deg (atan (s2 / sqrt (1 - s2²))) - vlat) <= eps) ->
  Rabs (lon (ellipse_pt s k i) - 360 * IZR z - vlon) <= eps /\
  Rabs (lat (ellipse_pt s k i) - vlat) <= eps.
Proof.
  intros Hk Hi H. unfold ellipse_pt, ellipse_angle.
  apply (K_dest_at _ _ _ q z vlon vlat eps (PI * 2 / kr * ir + rad (e_rotation s)) (radius_at s (PI * 2 / kr * ir)));
    [rewrite Hk, Hi; reflexivity|rewrite Hk, Hi; reflexivity|exact H].
Qed.

Lemma K_ring_pt (outer : bool) s k i kr ir q z vlon vlat eps :
  INR k = kr -> INR i = ir ->
  (let t := PI * (r_amin s + (r_amax s - r_amin s) / kr * ir) / 180 in
   let d := if outer then r_outer s else r_inner s in let c := r_center s in
   let s2 := s2_of (rad (lat c)) (d / Rearth) t in
   let Y := sin t * sin (d / Rearth) * cos (rad (lat c)) in
   let X := cos (d / Rearth) - sin (rad (lat c)) * s2 in
   -1 < s2 < 1 /\ quad_ok q Y X /\
   Rabs (deg (rad (lon c) + atan2_q q Y X) - 360 * IZR z - vlon) <= eps /\
   Rabs (deg (atan (s2 / sqrt (1 - s2²))) - vlat) <= eps) ->
  let p := if outer then ring_outer_pt s k i else ring_inner_pt s k i in
  Rabs (lon p - 360 * IZR z - vlon) <= eps /\ Rabs (lat p - vlat) <= eps.
Proof.
  intros Hk Hi H. destruct outer; cbv zeta; unfold ring_outer_pt, ring_inner_pt, ring_angle, ring_angle_deg.
  - apply (K_dest_at _ _ _ q z vlon vlat eps (PI * (r_amin s + (r_amax s - r_amin s) / kr * ir) / 180) (r_outer s));
      [rewrite Hk, Hi; reflexivity|reflexivity|exact H].
  - apply (K_dest_at _ _ _ q z vlon vlat eps (PI * (r_amin s + (r_amax s - r_amin s) / kr * ir) / 180) (r_inner s));
      [rewrite Hk, Hi; reflexivity|reflexivity|exact H].
Qed.

(* ---------------------------------------------------------------- distances as expressions *)
Lemma hdist_is_expr w l1 f1 l2 f2 :
  wrap_ok w l1 l2 ->
  0 < 1 - hav_a (rad l1) (rad f1) (rad (wrap_lon w l2)) (rad f2) ->
  hdist (l1, f1) (l2, f2) = hdist_expr l1 f1 (wrap_lon w l2) f2.
Proof.
  intros Hw Hpos. unfold hdist. rewrite (ensure_edge_bounds_w w) by exact Hw. cbn [fst snd].
  unfold hdist_raw, lon, lat; cbn [fst snd]. rewrite Rmax_right by lra.
  rewrite atan2_pos by (apply sqrt_lt_R0; exact Hpos). reflexivity.
Qed.

(* ---------------------------------------------------------------- circle membership (no holes) *)
Lemma K_circle_dec w l1 f1 r l2 f2 (b : bool) :
  wrap_ok w l1 l2 ->
  0 < 1 - hav_a (rad l1) (rad f1) (rad (wrap_lon w l2)) (rad f2) ->
  (if b then hdist_expr l1 f1 (wrap_lon w l2) f2 <= r else r < hdist_expr l1 f1 (wrap_lon w l2) f2) ->
  circle_contains (mkcircle (l1, f1) r []) (l2, f2) = b.
Proof.
  intros Hw Hp H. unfold circle_contains; cbn [c_center c_radius c_holes in_holes existsb negb].
  rewrite hdist_sym, (hdist_is_expr w) by assumption.
  destruct b.
  - apply rleb_true in H. rewrite H. reflexivity.
  - apply rleb_false in H. rewrite H. reflexivity.
Qed.

(* ---------------------------------------------------------------- the rounded bearing *)
(* away from the 0/360 seam the returned bearing is within 5.0000001e-6 of the un-rounded one *)
Lemma bearing_near_raw c p :
  / 1000 <= bearing_raw c p <= 360 - / 1000 ->
  Rabs (bearing c p - bearing_raw c p) <= / 2 / 10 ^ 5 + / 10 ^ 17.
Proof.
  intros H. unfold bearing.
  pose proof (round_half_up_err (bearing_raw c p) 5) as E. replace (5 + 12)%nat with 17%nat in E by reflexivity.
  assert (P5 : / 2 / 10 ^ 5 + / 10 ^ 17 < / 1000) by (simpl; lra).
  assert (0 < / 10 ^ 17) by (apply Rinv_0_lt_compat, pow_lt; lra).
  rewrite Rmod_small by lra. apply Rabs_le. lra.
Qed.

(* bearing enclosure from the quadrant reduction *)
Lemma K_bearing_encl q (w : Z) l1 f1 l2 f2 B0 :
  let x := fst (bearing_xy (l1, f1) (l2, f2)) in
  let y := snd (bearing_xy (l1, f1) (l2, f2)) in
  quad_ok q x y ->
  0 <= deg (atan2_q q x y) + 360 - 360 * IZR w < 360 ->
  Rabs (deg (atan2_q q x y) + 360 - 360 * IZR w - B0) <= / 10 ^ 7 ->
  / 100 <= B0 <= 360 - / 100 ->
  Rabs (bearing (l1, f1) (l2, f2) - B0) <= / 10 ^ 5.
Proof.
  intros x y Hq Hr H HB.
  pose proof (K_bearing_raw q w l1 f1 l2 f2 B0 (/ 10 ^ 7) Hq Hr H) as E.
  assert (P7 : / 10 ^ 7 < / 1000) by (simpl; lra).
  assert (P5 : / 2 / 10 ^ 5 + / 10 ^ 17 + / 10 ^ 7 <= / 10 ^ 5) by (simpl; lra).
  assert (N : / 1000 <= bearing_raw (l1, f1) (l2, f2) <= 360 - / 1000).
  { apply Rabs_le_inv in E. lra. }
  pose proof (bearing_near_raw _ _ N) as F.
  apply Rabs_le_inv in E. apply Rabs_le_inv in F. apply Rabs_le. lra.
Qed.

(* ---------------------------------------------------------------- ring / wedge membership (no holes) *)
Lemma K_ring_dec_full w l1 f1 rin rout amin amax l2 f2 (b : bool) :
  360 <= amax - amin ->
  wrap_ok w l1 l2 ->
  0 < 1 - hav_a (rad l1) (rad f1) (rad (wrap_lon w l2)) (rad f2) ->
  (let d := hdist_expr l1 f1 (wrap_lon w l2) f2 in
   if b then rin <= d <= rout else (d < rin \/ rout < d)) ->
  ring_contains (mkring (l1, f1) rin rout amin amax []) (l2, f2) = b.
Proof.
  intros Ha Hw Hp H. unfold ring_contains; cbn [r_center r_inner r_outer r_amin r_amax r_holes in_holes existsb].
  assert (E : rltb (amax - amin) 360 = false) by (apply rltb_false; exact Ha). rewrite E. cbn [andb].
  cbv zeta in *. rewrite (hdist_is_expr w) by assumption.
  set (d := hdist_expr l1 f1 (wrap_lon w l2) f2) in *.
  destruct b.
  - destruct H as [H1 H2]. apply rleb_true in H1, H2. rewrite H1, H2. reflexivity.
  - destruct H as [H|H]; apply rleb_false in H; rewrite H; cbn; [reflexivity|].
    destruct (rleb rin d); reflexivity.
Qed.

(* wedge: bearing strictly inside or strictly outside the angle range, modulo 360 (after repair D36):
   v = B0 - amin + 360 n is the enclosure centre reduced to [0, 360) by the whole number of turns n the
   harness supplies; the decision is proved for every bearing of the enclosure B0 +- 1e-5 *)
Lemma K_wedge_dec w l1 f1 rin rout amin amax l2 f2 B0 (n : Z) (inang b : bool) :
  0 <= amax - amin < 360 ->
  Rabs (bearing (l1, f1) (l2, f2) - B0) <= / 10 ^ 5 ->
  (let v := B0 - amin + 360 * IZR n in
   if inang then / 10 ^ 5 <= v <= amax - amin - / 10 ^ 5 else amax - amin + / 10 ^ 5 < v < 360 - / 10 ^ 5) ->
  wrap_ok w l1 l2 ->
  0 < 1 - hav_a (rad l1) (rad f1) (rad (wrap_lon w l2)) (rad f2) ->
  (let d := hdist_expr l1 f1 (wrap_lon w l2) f2 in
   if inang then (if b then rin <= d <= rout else (d < rin \/ rout < d)) else b = false) ->
  ring_contains (mkring (l1, f1) rin rout amin amax []) (l2, f2) = b.
Proof.
  intros Ha HB Hang Hw Hp H. unfold ring_contains; cbn [r_center r_inner r_outer r_amin r_amax r_holes in_holes existsb].
  assert (E : rltb (amax - amin) 360 = true) by (apply rltb_true; apply Ha). rewrite E. cbn [andb].
  apply Rabs_le_inv in HB. set (bb := bearing (l1, f1) (l2, f2)) in *.
  assert (P5 : 0 < / 10 ^ 5) by (apply Rinv_0_lt_compat, pow_lt; lra).
  cbv zeta in *.
  assert (M : Rmod (bb - amin) 360 = bb - amin + 360 * IZR n).
  { rewrite (Rmod_eq (bb - amin) 360 (- n)%Z); [rewrite opp_IZR; ring|lra|].
    rewrite opp_IZR. clearbody bb. set (t := IZR n) in *. clearbody t. set (e := / 10 ^ 5) in *. clearbody e.
    destruct inang; cbv iota in Hang; lra. }
  rewrite M. destruct inang.
  - assert (E1 : rltb (amax - amin) (bb - amin + 360 * IZR n) = false) by (apply rltb_false; lra).
    rewrite E1. rewrite (hdist_is_expr w) by assumption.
    set (d := hdist_expr l1 f1 (wrap_lon w l2) f2) in *.
    destruct b.
    + destruct H as [H1 H2]. apply rleb_true in H1, H2. rewrite H1, H2. reflexivity.
    + destruct H as [H|H]; apply rleb_false in H; rewrite H; cbn; [reflexivity|].
      destruct (rleb rin d); reflexivity.
  - subst b.
    assert (E1 : rltb (amax - amin) (bb - amin + 360 * IZR n) = true) by (apply rltb_true; lra).
    rewrite E1. reflexivity.
Qed.

(* ---------------------------------------------------------------- ellipse membership (no holes) *)
(* the radius is evaluated at the rounded bearing; the decision is proved for every bearing of the
   enclosure B0 +- 1e-5 *)
Lemma K_ellipse_dec w l1 f1 a b0 rot l2 f2 B0 (b : bool) :
  Rabs (bearing (l1, f1) (l2, f2) - B0) <= / 10 ^ 5 ->
  wrap_ok w l1 l2 ->
  0 < 1 - hav_a (rad l1) (rad f1) (rad (wrap_lon w l2)) (rad f2) ->
  (forall bb, B0 - / 10 ^ 5 <= bb <= B0 + / 10 ^ 5 ->
     let d := hdist_expr l1 f1 (wrap_lon w l2) f2 in
     let r := a * b0 / sqrt (a * a * (sin (rad (bb - rot)) * sin (rad (bb - rot)))
                              + b0 * b0 * (cos (rad (bb - rot)) * cos (rad (bb - rot)))) in
     if b then d <= r else r < d) ->
  ellipse_contains (mkellipse (l1, f1) a b0 rot []) (l2, f2) = b.
Proof.
  intros HB Hw Hp H. unfold ellipse_contains; cbn [e_center e_rotation e_holes in_holes existsb negb].
  cbv zeta. unfold radius_at; cbn [e_major e_minor].
  apply Rabs_le_inv in HB. specialize (H (bearing (l1, f1) (l2, f2))). cbv zeta in H.
  rewrite (hdist_is_expr w) by assumption.
  destruct b.
  - assert (E := H ltac:(lra)). apply rleb_true in E. rewrite E. reflexivity.
  - assert (E := H ltac:(lra)). apply rleb_false in E. rewrite E. reflexivity.
Qed.

Ltac c_unf := cbv zeta; cbv [hdist_expr hav_a bearing_xy atan2_q quad_ok wrap_lon s2_of rot_raw uvec dot3
                            lon lat fst snd rad deg Rearth Rsqr radius_at
                            c_center c_radius c_holes e_center e_major e_minor e_rotation e_holes
                            r_center r_inner r_outer r_amin r_amax r_holes].
Ltac c_ivl := c_unf; repeat split; interval with (i_prec 80).
Ltac c_inr := apply INR_lit; reflexivity.
