(* Correspondence checker for C12.  The per-cell test [touch] is the table of answers the
   implementation itself gave (niemeyer_to_geobox(cell).intersects_shape(shape)) for every cell
   of an enlarged window; neighbours, start cell and the loop are the model's. *)
From Coq Require Import QArith String.
From GV Require Import Prelude GeohashM GeohashK FloodM.
Open Scope Z_scope.

Record kitem := mkitem { kid : Z; ksecs : Z; kent : option Z; kkeys : list (list Z) }.

(* the aggregation functions used by the harness: len (default), utils.agg_functions.total_time
   (whole seconds), utils.agg_functions.unique_entities, and a custom one returning the ids of
   the shapes in the order they were appended *)
Inductive aggk := AggLen | AggTotalTime | AggUnique | AggIds.
Inductive aggv := VZ (z : Z) | VL (l : list Z).

Definition aggv_eqb (a b : aggv) : bool :=
  match a, b with
  | VZ x, VZ y => x =? y
  | VL x, VL y => list_eqb Z.eqb x y
  | _, _ => false
  end.

Fixpoint zdedup (l : list Z) : list Z :=
  match l with
  | [] => []
  | x :: l' => if existsb (Z.eqb x) l' then zdedup l' else x :: zdedup l'
  end.

Definition agg_model (a : aggk) (l : list kitem) : aggv :=
  match a with
  | AggLen => VZ (Z.of_nat (length l))
  | AggTotalTime => VZ (fold_left (fun acc i => acc + ksecs i) l 0)
  | AggUnique => VZ (Z.of_nat (length (zdedup (flat_map (fun i => match kent i with Some e => [e] | None => [] end) l))))
  | AggIds => VL (map kid l)
  end.

Definition keys_nodupb (l : list (list Z)) : bool :=
  (fix go (l : list (list Z)) := match l with [] => true | x :: l' => negb (mem_str x l') && go l' end) l.

(* a Python dict {cell: value} against the model's association list, order ignored *)
Definition dict_eqb {V} (veqb : V -> V -> bool) (model out : list (list Z * V)) : bool :=
  (length model =? length out)%nat && keys_nodupb (map fst out) &&
  forallb (fun kv => match dfind str_eqb (fst kv) model with
                     | Some v => veqb v (snd kv)
                     | None => false
                     end) out.

Definition qpairs_eqb (a b : list (Q * Q)) : bool := list_eqb q2_eqb a b.

Inductive fcase :=
  (* NiemeyerHasher._get_surrounding(gh, base): ordered *)
| KSurround (base : Z) (gh : list Z) (out : list (list Z))
  (* hash_shape(single line/polygon-like shape): start coordinate, the implementation's per-cell
     answers over the window, the returned set *)
| KFlood (base len : Z) (slon slat : Q) (table : list (list Z * bool)) (out : list (list Z))
  (* hash_shape(point) *)
| KPoint (base len : Z) (lon lat : Q) (out : list (list Z))
  (* hash_shape(multi-shape) against the sets returned for its members *)
| KMulti (members : list (list (list Z))) (out : list (list Z))
  (* hash_collection(FeatureCollection, agg_fn): items carry the implementation's own hash set *)
| KCollection (a : aggk) (items : list kitem) (out : list (list Z * aggv))
  (* hash_coordinates: default agg_fn (count) and a custom agg_fn returning the coordinates *)
| KCoords (base len : Z) (pts : list (Q * Q)) (out : list (list Z * Z)) (out_pts : list (list Z * list (Q * Q)))
  (* an answer the harness could not encode: always a mismatch *)
| KBad.

Definition check (k : fcase) : bool :=
  match k with
  | KSurround base gh out =>
      match cfg_of_base base with
      | None => false
      | Some c => list_eqb str_eqb (get_surrounding c gh) out
      end
  | KFlood base len slon slat table out =>
      match cfg_of_base base with
      | None => false
      | Some c =>
          let touch gh := match dfind str_eqb gh table with Some b => b | None => false end in
          let known gh := match dfind str_eqb gh table with Some _ => true | None => false end in
          match niemeyer_flood c (Z.to_nat len) (slon, slat) touch (2 * length table + 8) with
          | None => false
          | Some v => strset_eqb v out && forallb (fun x => forallb known (get_surrounding c x)) v
          end
      end
  | KPoint base len lon lat out =>
      match cfg_of_base base with
      | None => false
      | Some c => strset_eqb (niemeyer_point c (Z.to_nat len) (lon, lat)) out
      end
  | KMulti members out => strset_eqb (hash_multi (list Z) str_eqb members) out
  | KCollection a items out =>
      dict_eqb aggv_eqb (hash_collection (list Z) kitem aggv str_eqb kkeys (agg_model a) items) out
  | KCoords base len pts out out_pts =>
      match cfg_of_base base with
      | None => false
      | Some c =>
          dict_eqb Z.eqb (niemeyer_hash_coordinates c (Z.to_nat len) (fun l => Z.of_nat (length l)) pts) out &&
          dict_eqb qpairs_eqb (niemeyer_hash_coordinates c (Z.to_nat len) (fun l => l) pts) out_pts
      end
  | KBad => false
  end.
