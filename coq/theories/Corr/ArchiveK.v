(* Correspondence checker for C20.  The harness really runs pyshp / geopandas+shapely / fastkml
   and writes, per case, the library-level inputs, the CODEC OUTPUTS IT OBSERVED and the
   implementation's final answer as literals.  [check] decides by computation, per case:
     (1) the model of the writer glue produces what the codec was handed / stored;
     (2) the codec contract of the theorems holds on this instance (observed = reference);
     (3) the model of the reader glue, fed the observed codec output, returns the
         implementation's shape.
   Scale: 1e-7 degree units (every coordinate the library produces is rounded to 7 decimals),
   so 180 degrees = 1 800 000 000; floats in properties and Z use the same unit. *)
From Coq Require Import String.
From GV Require Import Prelude RingM GeoJsonM WktM ArchiveM GeoJsonK.
Open Scope string_scope.
Open Scope list_scope.
Open Scope Z_scope.

Definition hf : Z := 1800000000.
Definition sc : Z := 10000000.

(* ---------- shapefile ---------- *)

Definition pshape_eqb (a b : pshape) : bool :=
  layer_kind_eqb (ps_kind a) (ps_kind b) &&
  list_eqb (list_eqb xy_eqb) (ps_parts a) (ps_parts b) &&
  option_eqb (list_eqb Z.eqb) (ps_z a) (ps_z b).

Definition res_shape_same (a b : res shape) : bool :=
  match a, b with
  | Ok s, Ok t => shape_same s t
  | Err e, Err f => errk_eqb e f
  | _, _ => false
  end.

Record member_obs := mkmo {
  mo_shape : shape;        (* the member: model constructors applied to the constructor arguments *)
  mo_written : pshape;     (* what pyshp stored and returned: layer type, parts, z *)
  mo_gi : gi;              (* shape.__geo_interface__ of the record read back *)
  mo_record : dict;        (* record.as_dict() *)
  mo_result : res shape }. (* what from_shapefile built from it *)

Fixpoint number_from {A} (i : Z) (l : list A) : list (Z * A) :=
  match l with [] => [] | a :: l' => (i, a) :: number_from (i + 1) l' end.

Definition same_set (a b : list string) : bool :=
  Nat.eqb (length a) (length b) && forallb (fun k => mem_str k b) a && forallb (fun k => mem_str k a) b.

Definition check_member (orc : oracle) (keys : list string) (grp : list shape) (im : Z * member_obs) : bool :=
  let (idx, m) := im in
  let s := mo_shape m in
  (* (1) to_pyshp hands pyshp what pyshp stored *)
  pshape_eqb (to_pyshp orc (sgeom s)) (mo_written m) &&
  (* (2) contract: ESRI's rule, sequentially, is what __geo_interface__ returned *)
  gi_eqb (esri_gi (mo_written m)) (mo_gi m) &&
  (* (1)+(2) the record: field typing, _convert_dt, the DBF reference codec *)
  dict_eqb (shp_record trunc10 (dbf_cell_ref sc) keys (group_type grp) s idx) (mo_record m) &&
  (* (3) the reader glue on the observed codec output *)
  res_shape_same (shp_read_shape hf (mo_gi m) (ps_z (mo_written m)) (mo_record m)) (mo_result m).

(* ---------- GeoPandas ---------- *)

Definition prow_eqb (a b : prow) : bool :=
  list_eqb (fun x y => String.eqb (fst x) (fst y) && pcell_eqb (snd x) (snd y)) a b.

(* the dtype pandas infers for a column, from the values the members have for the key *)
Fixpoint col_values (grp : list shape) (k : string) : list (option json) :=
  match grp with [] => [] | s :: g' => jget k (properties s) :: col_values g' k end.

Definition col_kind (grp : list shape) (k : string) : colkind :=
  let vs := col_values grp k in
  let missing := existsb (fun v => negb (is_some v)) vs in
  match group_type grp k with
  | FL => CKObj
  | FN => CKNum missing
  | FC => if existsb (fun v => match v with Some (JDt _) => true | _ => false end) vs then CKDt else CKStr
  end.

Record grow_obs := mkgo {
  go_shape : shape;
  go_row : prow;                (* the record of df.to_dict('records'), geometry column left out *)
  go_wkt : wkt;                 (* token tree of record['geometry'].wkt (Shapely) *)
  go_result : res gshape }.

Definition gshape_same (a b : res gshape) : bool :=
  match a, b with
  | Ok s, Ok t => geom_same (gs_geom s) (gs_geom t) && dt_eqb (gs_dt s) (gs_dt t) && prow_eqb (gs_props s) (gs_props t)
  | Err e, Err f => errk_eqb e f
  | _, _ => false
  end.

Definition wbody_eqb (a b : wbody) : bool :=
  match a, b with
  | W1 x, W1 y => list_eqb (list_eqb Z.eqb) x y
  | W2 x, W2 y => list_eqb (list_eqb (list_eqb Z.eqb)) x y
  | W3 x, W3 y => list_eqb (list_eqb (list_eqb (list_eqb Z.eqb))) x y
  | _, _ => false
  end.

Definition wtag_opt_eqb (a b : option wtag) : bool := option_eqb wtag_eqb a b.

(* contract on Shapely: same keyword and same nested coordinate tuples as the library's to_wkt
   (the Z marker alone may be added: C20_gpd_geometry_roundtrip_z); for a multipoint Shapely 2 writes one parenthesised coordinate per point (read back since repair D41) *)
Definition shapely_contract (orc : oracle) (g : geom) (w : wkt) : bool :=
  let mine := write orc None g in
  wtag_opt_eqb (w_tag w) (w_tag mine) && w_upper w &&
  match w_zm w with [] | [LZ] => true | _ => false end &&
  match g with
  | GMPoint cs => wbody_eqb (w_body w) (w_body (shapely_multipoint cs))
  | _ => wbody_eqb (w_body w) (w_body mine)
  end.

Definition check_grow (orc : oracle) (keys : list string) (grp : list shape) (o : grow_obs) : bool :=
  let s := go_shape o in
  prow_eqb (gpd_record (fun k => pd_cell_ref sc (col_kind grp k)) keys s) (go_row o) &&
  shapely_contract orc (sgeom s) (go_wkt o) &&
  gshape_same (gpd_read_shape hf (go_wkt o) (go_row o)) (go_result o).

(* ---------- KML ---------- *)

Definition opt_ktime_eqb (a b : option ktime) : bool := option_eqb ktime_eqb a b.

Definition jget_eqb (k : string) (a b : json) : bool :=
  match a, b with
  | JObj x, JObj y => option_eqb json_eqb (jget k x) (jget k y)
  | _, _ => false
  end.

Definition no_member (k : string) (a : json) : bool :=
  match a with JObj x => negb (has_key k x) | _ => false end.

Inductive kcase_out :=
| KWriteErr (e : errk)                               (* to_fastkml_placemark raised *)
| KRead (pm : placemark) (out : res shape).          (* the placemark observed, and the shape read from it *)

Definition check_kml (orc : oracle) (folder : string) (s : shape) (o : kcase_out) : bool :=
  match to_placemark orc s, o with
  | Err e, KWriteErr f => errk_eqb e f
  | Ok pm, KRead obs out =>
      (* contract: type and coordinates kept, no 'properties' member, times and data unchanged *)
      jget_eqb "type" (pm_geo pm) (pm_geo obs) && jget_eqb "coordinates" (pm_geo pm) (pm_geo obs) &&
      no_member "properties" (pm_geo obs) &&
      opt_ktime_eqb (pm_times pm) (pm_times obs) && dict_eqb (pm_data pm) (pm_data obs) &&
      res_shape_same (kml_read_placemark hf folder obs) out
  | _, _ => false
  end.

(* ---------- cases ---------- *)

Inductive acase :=
(* the order in which from_shapefile returns the members of a collection (by original index) *)
| KOrder (gs : list geom) (observed : list Z)
(* one layer of an archive *)
| KLayer (outer inner : list (Z * ring)) (keys : list string) (types : list ftype) (members : list member_obs)
(* one frame *)
| KGpd (outer inner : list (Z * ring)) (keys : list string) (rows : list grow_obs)
(* one placemark of a folder *)
| KKml (outer inner : list (Z * ring)) (folder : string) (s : shape) (o : kcase_out).

Definition tag_of (kv : list (string * json)) : Z :=
  match jget "i" kv with Some (JInt n) => n | _ => -1 end.

Definition check (c : acase) : bool :=
  match c with
  | KOrder gs observed =>
      let l := map (fun ig => mkshape (snd ig) None [("i", JInt (fst ig))]) (number_from 0 gs) in
      list_eqb Z.eqb (map (fun s => tag_of (sprops s)) (archive_order (group_shapes l))) observed
  | KLayer outer inner keys types members =>
      let orc := orc_of outer inner in
      let grp := map mo_shape members in
      same_set (group_keys grp) keys &&
      list_eqb ftype_eqb (map (group_type grp) keys) types &&
      forallb (check_member orc keys grp) (number_from 0 members)
  | KGpd outer inner keys rows =>
      let orc := orc_of outer inner in
      let grp := map go_shape rows in
      same_set (group_keys grp) keys &&
      forallb (check_grow orc keys grp) rows
  | KKml outer inner folder s o => check_kml (orc_of outer inner) folder s o
  end.
