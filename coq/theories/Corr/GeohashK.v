(* Correspondence checker for C11: the harness writes the implementation's outputs as literals
   (floats exactly, through float.as_integer_ratio); [check] compares them with the model by
   computation. *)
From Coq Require Import QArith Ascii String.
From GV Require Import Prelude GeohashM.
Open Scope Z_scope.

(* a printable-ASCII Python string as the list of its code points *)
Fixpoint codes (s : string) : list Z :=
  match s with
  | EmptyString => []
  | String a s' => Z.of_N (N_of_ascii a) :: codes s'
  end.

Definition q2_eqb (a b : Q * Q) : bool := Qeq_bool (fst a) (fst b) && Qeq_bool (snd a) (snd b).
Definition q4_eqb (a b : Q * Q * Q * Q) : bool :=
  let '(a1, a2, a3, a4) := a in let '(b1, b2, b3, b4) := b in
  Qeq_bool a1 b1 && Qeq_bool a2 b2 && Qeq_bool a3 b3 && Qeq_bool a4 b4.
Definition box_eqb (a b : (Q * Q) * (Q * Q)) : bool := q2_eqb (fst a) (fst b) && q2_eqb (snd a) (snd b).

Definition str_eqb : list Z -> list Z -> bool := list_eqb Z.eqb.
Definition mem_str (s : list Z) (l : list (list Z)) : bool := existsb (str_eqb s) l.
(* equality of two duplicate-free collections of strings, order ignored (a Python set) *)
Definition strset_eqb (a b : list (list Z)) : bool :=
  (length a =? length b)%nat && forallb (fun s => mem_str s b) a && forallb (fun s => mem_str s a) b.

Inductive gcase :=
  (* _decode_niemeyer(s, base) *)
| KDecode (base : Z) (s : list Z) (out : res (Q * Q * Q * Q))
  (* _coord_to_niemeyer(Coordinate(lon, lat), len, base), also through hash_coordinates,
     hash_shape(GeoPoint); lon/lat are the already-normalised Coordinate's fields *)
| KEncode (base : Z) (lon lat : Q) (len : Z) (out : res (list Z))
  (* _get_niemeyer_subhashes(s, base) as a set *)
| KChildren (base : Z) (s : list Z) (out : res (list (list Z)))
  (* niemeyer_to_geobox(s, base): (nw, se) as (lon, lat) pairs, and whether the box contains
     the coordinate (plon, plat) *)
| KBox (base : Z) (s : list Z) (out : res ((Q * Q) * (Q * Q))) (plon plat : Q) (o_in : bool)
  (* Coordinate(lon, lat).longitude/.latitude *)
| KCoord (lon lat : Q) (out : Q * Q)
  (* an answer of a shape the harness could not encode (wrong type, Ok where an error was
     expected, ...): always a mismatch; the replay carries the raw answer *)
| KMalformed.

Definition check (c : gcase) : bool :=
  match c with
  | KDecode base s out => res_eqb q4_eqb (decode_niemeyer base s) out
  | KEncode base lon lat len out => res_eqb str_eqb (coord_to_niemeyer base (lon, lat) len) out
  | KChildren base s out => res_eqb strset_eqb (get_subhashes base s) out
  | KBox base s out plon plat o_in =>
      res_eqb box_eqb (niemeyer_to_geobox base s) out &&
      match niemeyer_to_geobox base s with
      | Ok bx => eqb (box_contains bx (plon, plat)) o_in
      | Err _ => true
      end
  | KCoord lon lat out => q2_eqb (coordinate lon lat) out
  | KMalformed => false
  end.
