From GV Require Import Prelude ShapeM BoundsM ShapeK.
Open Scope Z_scope.

Inductive bcase :=
| KBnd (vs : list pt) (o : res bnd)                       (* vertex shape bounds *)
| KBox (nw se : pt) (o : bnd)                             (* GeoBox.bounds *)
| KRectB (b : bnd) (onw ose : pt) (ob : bnd)              (* circumscribing_rectangle corners and its bounds *)
| KUnion (bs : list bnd) (o : res bnd)                    (* multi-shape / collection bounds *)
(* centroid + farthest vertex circle: distances of the vertices to the centroid (integer
   image of the doubles), the radius returned, and circle.contains_coordinate per vertex *)
| KFarC (ds : list Z) (o_r : Z) (o_contains : list bool)
| KBoxC (d_nw : Z) (ds : list Z) (o_r : Z) (o_contains : list bool).

Definition bcheck (c : bcase) : bool :=
  match c with
  | KBnd vs o => res_eqb bnd_eqb (bounds_of vs) o
  | KBox nw se o => bnd_eqb (box_bounds nw se) o
  | KRectB b onw ose ob =>
      let '(nw, se) := rect_of_bounds b in
      (fst nw =? fst onw) && (snd nw =? snd onw) && (fst se =? fst ose) && (snd se =? snd ose) &&
      bnd_eqb (box_bounds nw se) ob && bnd_eqb b ob
  | KUnion bs o => res_eqb bnd_eqb (multi_bounds bs) o
  | KFarC ds r oc =>
      (* vertices are indices; dist i _ = nth i ds *)
      let vs := seq 0 (length ds) in
      let d := fun (i _ : nat) => nth i ds 0 in
      res_eqb Z.eqb (far_radius nat d 0%nat vs) (Ok r) &&
      list_eqb eqb (map (circle_contains nat d 0%nat r) vs) oc
  | KBoxC dnw ds r oc =>
      let vs := seq 0 (length ds) in
      let d := fun (i _ : nat) => nth i ds 0 in
      (dnw =? r) && list_eqb eqb (map (circle_contains nat d 0%nat r) vs) oc
  end.
