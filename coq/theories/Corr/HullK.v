(* Correspondence checker for C10: the harness writes the inputs and the implementation's
   outputs as literals; [check] compares them with the model by computation (vm_compute). *)
From GV Require Import Prelude HullM.
Open Scope Z_scope.

Inductive hcase :=
(* _geometry.convex_hull(coords) = out *)
| KHull (l : list pt) (out : list pt)
(* a public entry point (multi-shape or collection) whose members have these vertex lists:
   the outline of the returned GeoPolygon, or the exception *)
| KEntry (members : list (list pt)) (out : res (list pt)).

Definition pts_eqb : list pt -> list pt -> bool := list_eqb pt_eqb.

Definition check (c : hcase) : bool :=
  match c with
  | KHull l out => pts_eqb (hull l) out
  | KEntry ms out => res_eqb pts_eqb (hull_of_members ms) out
  end.
