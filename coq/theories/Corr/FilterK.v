(* Correspondence checker for C18 (collection filters, bounds, list protocol).  The harness
   writes the member shapes in construction order, the class, what the constructor left, and
   steps all applied to that one collection.  Per-shape predicates are the tables of the
   implementation's own per-shape answers (x.intersects(q), x.contains(q), q.contains(x),
   func(x.properties[key]), y == x), observed member by member, NOT through the filter. *)
From Coq Require Import QArith.
From GV Require Import Prelude CollM FilterM.
Open Scope Z_scope.

Definition ib (a b c d : Z) : box := (inject_Z a, inject_Z b, inject_Z c, inject_Z d).
Definition S := mkshape.

Fixpoint lookup_b (tab : list (Z * bool)) (i : Z) : bool :=
  match tab with
  | [] => false
  | (k, v) :: tab' => if k =? i then v else lookup_b tab' i
  end.
Fixpoint lookup_ob (tab : list (Z * option bool)) (i : Z) : option bool :=
  match tab with
  | [] => None
  | (k, v) :: tab' => if k =? i then v else lookup_ob tab' i
  end.

Definition out := res (kind * list Z).
Definition kind_eqb (a b : kind) : bool := match a, b with FC, FC | TR, TR => true | _, _ => false end.
Definition out_of (r : res coll) : out :=
  match r with Ok c => Ok (ckind c, map sid (members c)) | Err e => Err e end.
Definition out_eqb (r : res coll) (o : out) : bool :=
  res_eqb (fun a b => kind_eqb (fst a) (fst b) && list_eqb Z.eqb (snd a) (snd b)) (out_of r) o.

Definition box_eqb (a b : box) : bool :=
  Qeq_bool (b0 a) (b0 b) && Qeq_bool (b1 a) (b1 b) && Qeq_bool (b2 a) (b2 b) && Qeq_bool (b3 a) (b3 b).

Inductive fstep :=
| FDt (d : Z) (o : out)
| FIv (a b : Z) (o : out)
| FDtOther (o : out)
| FInt (tab : list (Z * bool)) (o : out)
| FContains (tab : list (Z * bool)) (o : out)
| FContainedBy (tab : list (Z * bool)) (o : out)
| FProp (tab : list (Z * option bool)) (o : out)
| FLen (n : Z) (b : bool) (ids : list Z)
| FGet (i : Z) (o : res Z)
| FIn (x : Z) (tab : list (Z * bool)) (o : bool)
| FAdd (k : kind) (other : list shape) (o : out)
| FBounds (o : res box) (span : res Q)
(* derived attributes read on a RESULT (of a filter, +, a time slice, a chained filter) whose
   members are the shapes named [ids] (members of the case's collection or [extra]):
   result.bounds and len(result) *)
| FRes (ids : list Z) (extra : list shape) (rb : res box) (n : Z).

Fixpoint pick (ids : list Z) (pool : list shape) : list shape :=
  match ids with
  | [] => []
  | i :: ids' => match find (fun x => sid x =? i) pool with
                 | Some x => x :: pick ids' pool
                 | None => pick ids' pool
                 end
  end.

Definition by_tab (tab : list (Z * bool)) (_ : unit) (x : shape) : bool := lookup_b tab (sid x).

Definition check_step (c : coll) (s : fstep) : bool :=
  match s with
  | FDt d o => out_eqb (filter_by_dt_instant c d) o
  | FIv a b o => out_eqb (filter_by_dt_interval c a b) o
  | FDtOther o => out_eqb (filter_by_dt_other c) o
  | FInt tab o => out_eqb (filter_by_intersection unit (by_tab tab) c tt) o
  | FContains tab o => out_eqb (filter_contains unit (by_tab tab) c tt) o
  | FContainedBy tab o => out_eqb (filter_contained_by unit (by_tab tab) c tt) o
  | FProp tab o => out_eqb (filter_by_property (fun _ x => lookup_ob tab (sid x)) c 0) o
  | FLen n b ids => (coll_len c =? n) && eqb (coll_bool c) b && list_eqb Z.eqb (map sid (coll_iter c)) ids
  | FGet i o => res_eqb Z.eqb (match fc_getitem c i with Ok x => Ok (sid x) | Err e => Err e end) o
  | FIn x tab o =>
      eqb (coll_contains (fun y _ => lookup_b tab (sid y)) c (mkshape x None (ib 0 0 0 0))) o
  | FAdd k other o =>
      match rewrap_as k other with
      | Ok oc => out_eqb (coll_add c oc) o
      | Err _ => false
      end
  | FBounds o span =>
      res_eqb box_eqb (coll_bounds c) o && res_eqb Qeq_bool (coll_geospan c) span
  | FRes ids extra rb n =>
      let ms := pick ids (members c ++ extra) in
      (Z.of_nat (length ms) =? n) && (Z.of_nat (length ids) =? n) &&
      res_eqb box_eqb (coll_bounds (mkcoll FC ms)) rb
  end.

Record fcase := FK { f_kind : kind; f_shapes : list shape; f_first : out; f_steps : list fstep }.

Definition check (c : fcase) : bool :=
  let r := rewrap_as (f_kind c) (f_shapes c) in
  out_eqb r (f_first c) &&
  match r with
  | Ok cl => forallb (check_step cl) (f_steps c)
  | Err _ => true
  end.
