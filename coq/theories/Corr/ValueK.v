(* Correspondence checker for C15: the harness writes shapes (as the implementation stored them),
   the implementation's answers, and the bounding coordinates it produced for curved holes; [check]
   compares them with the model by computation. *)
From GV Require Import Prelude ValueM.
Open Scope Z_scope.

(* structural equality of model values (for comparing a model output with an observed value) *)
Definition geom_same (a b : geom) : bool :=
  match a, b with
  | GPoly o1, GPoly o2 => clist_eqb o1 o2
  | GBox a1 b1, GBox a2 b2 => coord_eqb a1 a2 && coord_eqb b1 b2
  | GCircle c1 r1, GCircle c2 r2 => coord_eqb c1 c2 && (r1 =? r2)
  | GEllipse c1 a1 b1 t1, GEllipse c2 a2 b2 t2 =>
      coord_eqb c1 c2 && (a1 =? a2) && (b1 =? b2) && (t1 =? t2)
  | GRing c1 i1 o1 m1 x1, GRing c2 i2 o2 m2 x2 =>
      coord_eqb c1 c2 && (i1 =? i2) && (o1 =? o2) && (m1 =? m2) && (x1 =? x2)
  | _, _ => false
  end.
Definition hole_same (a b : hole) : bool := geom_same (hgeom a) (hgeom b) && dt_eqb (hdt a) (hdt b).
Definition single_same (a b : single) : bool :=
  match a, b with
  | SPoint c1 d1, SPoint c2 d2 => coord_eqb c1 c2 && dt_eqb d1 d2
  | SLine v1 d1, SLine v2 d2 => clist_eqb v1 v2 && dt_eqb d1 d2
  | SArea g1 h1 d1, SArea g2 h2 d2 => geom_same g1 g2 && list_eqb hole_same h1 h2 && dt_eqb d1 d2
  | _, _ => false
  end.
Definition mkind_same (a b : mkind) : bool :=
  match a, b with MPoint, MPoint | MLine, MLine | MPoly, MPoly => true | _, _ => false end.
Definition shape_same (a b : shape) : bool :=
  match a, b with
  | One x, One y => single_same x y
  | Multi k1 m1 d1, Multi k2 m2 d2 => mkind_same k1 k2 && list_eqb single_same m1 m2 && dt_eqb d1 d2
  | _, _ => false
  end.

Definition ocell_same (a b : ocell) : bool :=
  (oid a =? oid b) && (oprops a =? oprops b) && list_eqb Z.eqb (onest a) (onest b) &&
  option_eqb Z.eqb (odt a) (odt b).
Definition sobj_same (a b : sobj) : bool :=
  ocell_same (s_own a) (s_own b) && list_eqb ocell_same (s_holes a) (s_holes b).
Definition obj_same (a b : obj) : bool :=
  match a, b with
  | O1 x, O1 y => sobj_same x y
  | OM x, OM y => ocell_same (m_own x) (m_own y) && list_eqb sobj_same (m_members x) (m_members y)
  | _, _ => false
  end.

(* the table of bounding coordinates the implementation produced for the curved geometries of a case *)
Definition ctable := list (geom * list coord).
Fixpoint lookup (t : ctable) (g : geom) : list coord :=
  match t with
  | [] => []
  | (g', l) :: r => if geom_same g' g then l else lookup r g
  end.

Inductive vcase :=
(* a == b, b == a, hash(a) == hash(b), len({a, b}), b found in {a: 1} *)
| KPair (t : ctable) (a b : shape) (o_ab o_ba o_hasheq : bool) (o_setlen : Z) (o_dict : bool)
(* GeoPolygon(outline).outline, or the exception *)
| KMk (o : list coord) (out : res (list coord))
(* value of copy() and of the pickle round trip *)
| KCopyVal (a o_copy o_pickle : shape)
(* object identities: original, next free location, copy, pickled *)
| KCopyObj (o : obj) (n : loc) (o_copy o_pickle : obj)
(* value after set_dt(d) *)
| KWithDt (a : shape) (d : dtv) (out : shape).

Definition check (c : vcase) : bool :=
  match c with
  | KPair t a b o_ab o_ba o_h o_len o_dict =>
      let cv := lookup t in
      let e := shape_eqb cv a b in
      eqb e o_ab && eqb (shape_eqb cv b a) o_ba &&
      implb (key_eqv (hkey a) (hkey b)) o_h &&
      (o_len =? (if e then 1 else 2)) && eqb e o_dict
  | KMk o out =>
      res_eqb clist_eqb
        (match mk_poly o [] None with
         | Ok (SArea (GPoly l) _ _) => Ok l
         | Ok _ => Err OtherError
         | Err e => Err e
         end) out
  | KCopyVal a oc op => shape_same (copy_val a) oc && shape_same (pickle_val a) op
  | KCopyObj o n oc op =>
      obj_same (fst (copy_obj n o)) oc && obj_same (fst (pickle_obj n o)) op
  | KWithDt a d out => shape_same (with_dt a d) out
  end.
