(* Correspondence checker for the float model of C08: the harness writes the converted inputs
   (float(longitude), float(latitude)) and the values the implementation stored as hexadecimal
   float literals (Python float.hex(): exact), and [check] compares them BIT for bit with
   CoordF.mkf by computation. *)
From Coq Require Import PrimFloat Uint63 FloatClass.
From GV Require Import Prelude CoordF.

Definition class_eqb (a b : float_class) : bool :=
  match a, b with
  | PNormal, PNormal | NNormal, NNormal | PSubn, PSubn | NSubn, NSubn
  | PZero, PZero | NZero, NZero | PInf, PInf | NInf, NInf | NaN, NaN => true
  | _, _ => false
  end.

(* the same double: numerically equal (IEEE ==, so neither is a nan) and of the same class, which
   tells -0.0 from 0.0 - the only two different doubles that compare equal; two nans count as the
   same (payloads are not observable from Python arithmetic) *)
Definition biteq (a b : float) : bool :=
  (PrimFloat.eqb a b && class_eqb (PrimFloat.classify a) (PrimFloat.classify b))
  || (PrimFloat.is_nan a && PrimFloat.is_nan b).

(* fuel given to each loop of the model: 1e5/180 < 556 iterations are needed on the harness's
   inputs; CoordFT.v proves a bound *)
Definition kfuel : nat := 2000.

Inductive fcase :=
(* Coordinate(lon, lat, _bounded=bounded) stored (olon, olat) *)
| FMk (lon lat : float) (bounded : bool) (olon olat : float)
(* the constructor did not return within the harness's time limit *)
| FHang (lon lat : float).

Definition check (c : fcase) : bool :=
  match c with
  | FMk lon lat bounded olon olat =>
      match mkf kfuel lon lat bounded with
      | Some (a, b) =>
          biteq a olon && biteq b olat &&
          (* the proved facts (CoordFP), demanded of the implementation's own output *)
          (if bounded then
             lat_okf olat && lon_okf olon && negb (PrimFloat.eqb olon 180%float) &&
             match mkf 0 olon olat true with
             | Some (a2, b2) => biteq a2 olon && biteq b2 olat
             | None => false
             end
           else negb (PrimFloat.eqb olon 180%float))
      | None => false
      end
  | FHang lon lat =>
      match mkf kfuel lon lat true with
      | None => true
      | Some _ => false
      end
  end.
