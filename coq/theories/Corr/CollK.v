(* Correspondence checker for C17 (Track).  The harness writes, per case: the shapes handed
   to Track(...), the implementation's own distance table between the payloads occurring in the
   case, the payloads of the pings created by convolve, the ids of Track(...).geoshapes (or the
   exception), and a list of steps (operation, whether the chain advances to the result, the
   ids of the result or the exception; for convolve also the created pings in full).  [check]
   replays the chain on the MODEL's own states and compares every step by computation. *)
From Coq Require Import QArith.
From GV Require Import Prelude CollM.
Open Scope Z_scope.

Definition I := mkitem.
Definition T (i s e os oe p : Z) : raw := Timed (mkitem i s e os oe p).
Definition U := Untimed.

Definition item_eqb (x y : item) : bool :=
  (id x =? id y) && (st x =? st y) && (en x =? en y) && (ost x =? ost y) && (oen x =? oen y) &&
  (pl x =? pl y).

Fixpoint lookup_dist (tab : list (Z * Z * Q)) (i j : Z) : Q :=
  match tab with
  | [] => (-1)%Q
  | (a, b, d) :: tab' => if (a =? i) && (b =? j) then d else lookup_dist tab' i j
  end.

Fixpoint lookup_merge (tab : list (list Z * Z)) (k : list Z) : Z :=
  match tab with
  | [] => -1
  | (k', v) :: tab' => if list_eqb Z.eqb k' k then v else lookup_merge tab' k
  end.

(* step = (operation, advance?, expected ids or exception, created pings among the result,
           track.has_duplicate_timestamps when observed) *)
Definition step := (op * bool * res (list Z) * list item * option bool)%type.

Record kcase := K {
  k_raws : list raw;
  k_dist : list (Z * Z * Q);
  k_merge : list (list Z * Z);
  k_first : res (list Z);
  k_steps : list step }.

Definition ids_eqb (r : res track) (e : res (list Z)) : bool :=
  res_eqb (list_eqb Z.eqb) (match r with Ok t => Ok (map id t) | Err k => Err k end) e.

Definition created (r : res track) : list item :=
  match r with Ok t => filter (fun x => id x <? 0) t | Err _ => [] end.

Section Run.
  Variable dist : Z -> Z -> Q.
  Variable merge : list Z -> Z.
  Fixpoint run_steps (cur : track) (steps : list step) : bool :=
    match steps with
    | [] => true
    | (o, adv, expected, news, hd) :: rest =>
        let r := apply_op dist merge cur o in
        ids_eqb r expected &&
        (match o with OConvolve => list_eqb item_eqb (created r) news | _ => true end) &&
        (match hd with Some b => eqb (has_dup cur) b | None => true end) &&
        run_steps (match r with Ok t' => if adv then t' else cur | Err _ => cur end) rest
    end.
End Run.

Definition check (c : kcase) : bool :=
  let r := mk_track (k_raws c) in
  ids_eqb r (k_first c) &&
  match r with
  | Ok t => run_steps (lookup_dist (k_dist c)) (lookup_merge (k_merge c)) t (k_steps c)
  | Err _ => true
  end.
