(* Correspondence checker for C01 (and the segment-intersection routine shared with C02): the
   harness writes the implementation's outputs as literals; [check] compares them with the
   model by computation.  Coordinates are the implementation's coordinates times [scale]
   (2 in the harness, so that half-grid queries are integers); [w] = -180 * scale. *)
From Coq Require Import QArith Qabs.
From GV Require Import Prelude GeomM.
Open Scope Z_scope.

Definition pt_list_eqb := list_eqb pt_eqb.

Fixpoint zrange_fuel (n : nat) (lo : Z) : list Z :=
  match n with O => [] | S k => lo :: zrange_fuel k (lo + 1) end.
Definition zrange (lo hi : Z) : list Z := zrange_fuel (Z.to_nat (hi - lo + 1)) lo.

(* row-major grid of query points: for y in ylo..yhi, for x in xlo..xhi *)
Definition grid (xlo xhi ylo yhi : Z) : list pt :=
  flat_map (fun y => map (fun x => (x, y)) (zrange xlo xhi)) (zrange ylo yhi).

Definition bool_list_eqb := list_eqb Bool.eqb.

(* implementation's intersection point as exact rationals (float.as_integer_ratio); it is
   compared with the model's exact point up to the code's 1e-10 snapping (1e-9 allowed) *)
Definition qclose (a b : Q) : bool := Qle_bool (Qabs (a - b)) (1 # 1000000000).

Definition fli_out_eqb (m o : option (Q * Q * bool)) : bool :=
  match m, o with
  | None, None => true
  | Some (x, y, f), Some (x', y', f') => qclose x x' && qclose y y' && Bool.eqb f f'
  | _, _ => false
  end.

Inductive gcase :=
(* GeoPolygon(raw, _is_hole=is_hole).outline = stored *)
| KNorm (is_hole : bool) (raw stored : list pt)
(* GeoPolygon(stored ring, holes): _point_in_polygon(q, outline) and contains_coordinate(q)
   for every q of the grid, row-major *)
| KGrid (w : Z) (ring : list pt) (holes : list hole) (xlo xhi ylo yhi : Z)
        (o_pip o_contains : list bool)
(* the same for an explicit list of queries *)
| KPts (w : Z) (ring : list pt) (holes : list hole) (qs : list (pt * bool * bool))
(* GeoBox(nw, se, holes).contains_coordinate(q) on a grid *)
| KBoxGrid (w : Z) (nw se : pt) (holes : list hole) (xlo xhi ylo yhi : Z) (o_contains : list bool)
(* find_line_intersection(s1, s2) *)
| KFli (s1 s2 : seg) (out : option (Q * Q * bool)).

Definition check (c : gcase) : bool :=
  match c with
  | KNorm h raw stored => pt_list_eqb (norm_outline h raw) stored
  | KGrid w ring holes xlo xhi ylo yhi o1 o2 =>
      let g := grid xlo xhi ylo yhi in
      bool_list_eqb (map (fun q => pip w q ring) g) o1 &&
      bool_list_eqb (map (fun q => poly_contains w ring holes q) g) o2
  | KPts w ring holes qs =>
      forallb (fun '(q, o1, o2) =>
                 Bool.eqb (pip w q ring) o1 && Bool.eqb (poly_contains w ring holes q) o2) qs
  | KBoxGrid w nw se holes xlo xhi ylo yhi o =>
      bool_list_eqb (map (fun q => box_contains w nw se holes q) (grid xlo xhi ylo yhi)) o
  | KFli s1 s2 out => fli_out_eqb (fli s1 s2) out
  end.
