(* Correspondence checker for C07 (real-valued model): the harness writes, per case, a lemma
     Rabs (<model function> <rational inputs> - <implementation's output>) <= eps
   and proves it with the reduction lemmas below followed by `interval`.  The reduction lemmas
   replace what `interval` cannot evaluate (the case-defined atan2, the if-then-else of
   ensure_edge_bounds, asin, the float modulo) by elementary expressions, under side conditions
   (signs, ranges) that are themselves proved by `interval`/`lra` on the case's numbers. *)
From GV Require Import Prelude SphereM SphereP1 SphereP2 SphereP3.
From Coq Require Import Reals Lra.
From Interval Require Import Tactic.
Open Scope R_scope.

(* ---------------------------------------------------------------- atan2 by quadrant *)
Inductive quad := Qpos | Qnegnn | Qnegneg.
Definition quad_ok (q : quad) (y x : R) : Prop :=
  match q with Qpos => 0 < x | Qnegnn => x < 0 /\ 0 <= y | Qnegneg => x < 0 /\ y < 0 end.
Definition atan2_q (q : quad) (y x : R) : R :=
  match q with Qpos => atan (y / x) | Qnegnn => atan (y / x) + PI | Qnegneg => atan (y / x) - PI end.
Lemma atan2_quad q y x : quad_ok q y x -> atan2 y x = atan2_q q y x.
Proof.
  destruct q; cbn; intros H.
  - apply atan2_pos, H.
  - apply atan2_neg_nonneg; apply H.
  - apply atan2_neg_neg; apply H.
Qed.

(* ---------------------------------------------------------------- ensure_edge_bounds by case *)
Inductive wrapk := Wnone | Wminus | Wplus | Wplus180.
Definition wrap_ok (w : wrapk) (l1 l2 : R) : Prop :=
  match w with
  | Wnone => -180 <= l1 - l2 <= 180
  | Wminus => (180 < l1 - l2 \/ l1 - l2 < -180) /\ l1 < 0 /\ l2 - 360 <> 180
  | Wplus => (180 < l1 - l2 \/ l1 - l2 < -180) /\ 0 <= l1 /\ l2 + 360 <> 180
  | Wplus180 => (180 < l1 - l2 \/ l1 - l2 < -180) /\ 0 <= l1 /\ l2 + 360 = 180
  end.
Definition wrap_lon (w : wrapk) (l2 : R) : R :=
  match w with Wnone => l2 | Wminus => l2 - 360 | Wplus => l2 + 360 | Wplus180 => -180 end.

Lemma Rabs_gt_180 x : 180 < x \/ x < -180 -> 180 < Rabs x.
Proof. intros [H|H]; [rewrite Rabs_pos_eq by lra; lra|rewrite Rabs_left by lra; lra]. Qed.

Lemma ensure_edge_bounds_w w l1 f1 l2 f2 : wrap_ok w l1 l2 ->
  ensure_edge_bounds (l1, f1) (l2, f2) = ((l1, f1), (wrap_lon w l2, f2)).
Proof.
  unfold ensure_edge_bounds, mk_unbounded, lon, lat; cbn [fst snd].
  destruct w; cbn [wrap_ok wrap_lon].
  - intros H. assert (E : rltb 180 (Rabs (l1 - l2)) = false).
    { apply rltb_false. apply Rabs_le. lra. }
    rewrite E. reflexivity.
  - intros (H1 & H2 & H3). apply Rabs_gt_180 in H1. apply rltb_true in H1. rewrite H1.
    assert (E : rltb l1 0 = true) by (apply rltb_true; lra). rewrite E.
    assert (F : reqb (l2 - 360) 180 = false) by (apply reqb_false; exact H3). rewrite F. reflexivity.
  - intros (H1 & H2 & H3). apply Rabs_gt_180 in H1. apply rltb_true in H1. rewrite H1.
    assert (E : rltb l1 0 = false) by (apply rltb_false; lra). rewrite E.
    assert (F : reqb (l2 + 360) 180 = false) by (apply reqb_false; exact H3). rewrite F. reflexivity.
  - intros (H1 & H2 & H3). apply Rabs_gt_180 in H1. apply rltb_true in H1. rewrite H1.
    assert (E : rltb l1 0 = false) by (apply rltb_false; lra). rewrite E.
    assert (F : reqb (l2 + 360) 180 = true) by (apply reqb_true; exact H3). rewrite F. reflexivity.
Qed.

(* ---------------------------------------------------------------- haversine *)
Definition hdist_expr (l1 f1 l2 f2 : R) : R :=
  Rearth * 2 * atan (sqrt (hav_a (rad l1) (rad f1) (rad l2) (rad f2))
                     / sqrt (1 - hav_a (rad l1) (rad f1) (rad l2) (rad f2))).

Lemma K_hdist w l1 f1 l2 f2 v eps :
  wrap_ok w l1 l2 ->
  0 < 1 - hav_a (rad l1) (rad f1) (rad (wrap_lon w l2)) (rad f2) ->
  Rabs (hdist_expr l1 f1 (wrap_lon w l2) f2 - v) <= eps ->
  Rabs (hdist (l1, f1) (l2, f2) - v) <= eps.
Proof.
  intros Hw Hpos H. unfold hdist. rewrite (ensure_edge_bounds_w w) by exact Hw. cbn [fst snd].
  unfold hdist_raw, lon, lat; cbn [fst snd]. rewrite Rmax_right by lra.
  rewrite atan2_pos by (apply sqrt_lt_R0; exact Hpos).
  exact H.
Qed.

(* identical points: exact *)
Lemma K_hdist_same c v eps : Rabs (0 - v) <= eps -> Rabs (hdist c c - v) <= eps.
Proof. rewrite hdist_refl. trivial. Qed.

(* the unit-vector distance, evaluated through the (proved) equality with the haversine value,
   which is the better conditioned expression *)
Lemma K_dist_xyz w l1 f1 l2 f2 v eps :
  wrap_ok w l1 l2 ->
  0 < 1 - hav_a (rad l1) (rad f1) (rad (wrap_lon w l2)) (rad f2) ->
  Rabs (hdist_expr l1 f1 (wrap_lon w l2) f2 - v) <= eps ->
  Rabs (dist_xyz (l1, f1) (l2, f2) - v) <= eps.
Proof. rewrite dist_xyz_hdist. apply K_hdist. Qed.
Lemma K_dist_xyz_same c v eps : Rabs (0 - v) <= eps -> Rabs (dist_xyz c c - v) <= eps.
Proof. rewrite dist_xyz_hdist, hdist_refl. trivial. Qed.

(* the unit-vector distance, evaluated directly from its own formula (away from 0 and PI) *)
Lemma K_dist_xyz_direct_pos l1 f1 l2 f2 v eps :
  let x := dot3 (uvec (l1, f1)) (uvec (l2, f2)) in
  0 < x ->
  Rabs (atan (sqrt (1 - x²) / x) * Rearth - v) <= eps ->
  Rabs (dist_xyz (l1, f1) (l2, f2) - v) <= eps.
Proof.
  intros x Hx H. unfold dist_xyz. fold x. pose proof (dot3_uvec_range (l1, f1) (l2, f2)) as [H1 H2].
  fold x in H1, H2. rewrite Rmin_right, Rmax_right by assumption. rewrite acos_atan by exact Hx. exact H.
Qed.
Lemma K_dist_xyz_direct_neg l1 f1 l2 f2 v eps :
  let x := dot3 (uvec (l1, f1)) (uvec (l2, f2)) in
  x < 0 ->
  Rabs ((PI - atan (sqrt (1 - x²) / - x)) * Rearth - v) <= eps ->
  Rabs (dist_xyz (l1, f1) (l2, f2) - v) <= eps.
Proof.
  intros x Hx H. unfold dist_xyz. fold x. pose proof (dot3_uvec_range (l1, f1) (l2, f2)) as [H1 H2].
  fold x in H1, H2. rewrite Rmin_right, Rmax_right by assumption.
  replace x with (- - x) at 1 by ring. rewrite acos_opp, acos_atan by lra.
  replace ((- x)²) with (x²) by (unfold Rsqr; ring). exact H.
Qed.

(* ---------------------------------------------------------------- bearing (before rounding) *)
Lemma K_bearing_raw q (w : Z) l1 f1 l2 f2 v eps :
  let x := fst (bearing_xy (l1, f1) (l2, f2)) in
  let y := snd (bearing_xy (l1, f1) (l2, f2)) in
  quad_ok q x y ->
  0 <= deg (atan2_q q x y) + 360 - 360 * IZR w < 360 ->
  Rabs (deg (atan2_q q x y) + 360 - 360 * IZR w - v) <= eps ->
  Rabs (bearing_raw (l1, f1) (l2, f2) - v) <= eps.
Proof.
  intros x y Hq Hr H. unfold bearing_raw. cbv zeta. fold x y.
  rewrite (atan2_quad q) by exact Hq. rewrite (Rmod_eq _ 360 w); [exact H|lra|exact Hr].
Qed.

(* same meridian: exact *)
Lemma bearing_raw_meridian l f1 f2 :
  (0 < sin (rad f2 - rad f1) -> bearing_raw (l, f1) (l, f2) = 0) /\
  (sin (rad f2 - rad f1) < 0 -> bearing_raw (l, f1) (l, f2) = 180).
Proof.
  unfold bearing_raw, bearing_xy, lon, lat; cbn [fst snd].
  replace (l - l) with 0 by ring. assert (R0 : rad 0 = 0) by (unfold rad; ring).
  rewrite R0, sin_0, cos_0.
  replace (cos (rad f2) * 0) with 0 by ring.
  replace (cos (rad f1) * sin (rad f2) - sin (rad f1) * cos (rad f2) * 1) with (sin (rad f2 - rad f1))
    by (rewrite sin_minus; ring).
  pose proof PI_RGT_0 as HP. split; intros H.
  - rewrite atan2_pos by exact H. replace (0 / sin (rad f2 - rad f1)) with 0 by (field; lra).
    rewrite atan_0. unfold deg. rewrite Rmult_0_l, Rplus_0_l. rewrite Rmod_wrap; lra.
  - rewrite atan2_neg_nonneg by lra. replace (0 / sin (rad f2 - rad f1)) with 0 by (field; lra).
    rewrite atan_0, Rplus_0_l. replace (deg PI) with 180 by (unfold deg; field; lra).
    rewrite Rmod_wrap; lra.
Qed.
Lemma K_bearing_north l f1 f2 v eps :
  0 < sin (rad f2 - rad f1) -> Rabs (0 - v) <= eps -> Rabs (bearing_raw (l, f1) (l, f2) - v) <= eps.
Proof. intros H. rewrite (proj1 (bearing_raw_meridian l f1 f2) H). trivial. Qed.
Lemma K_bearing_south l f1 f2 v eps :
  sin (rad f2 - rad f1) < 0 -> Rabs (180 - v) <= eps -> Rabs (bearing_raw (l, f1) (l, f2) - v) <= eps.
Proof. intros H. rewrite (proj2 (bearing_raw_meridian l f1 f2) H). trivial. Qed.

(* ---------------------------------------------------------------- destination *)
Lemma K_dest q (k : Z) l1 f1 t d vlon vlat eps :
  let s2 := s2_of (rad f1) (d / Rearth) t in
  let Y := sin t * sin (d / Rearth) * cos (rad f1) in
  let X := cos (d / Rearth) - sin (rad f1) * s2 in
  -1 < s2 < 1 ->
  quad_ok q Y X ->
  Rabs (deg (rad l1 + atan2_q q Y X) - 360 * IZR k - vlon) <= eps ->
  Rabs (deg (atan (s2 / sqrt (1 - s2²))) - vlat) <= eps ->
  Rabs (lon (dest_rad (l1, f1) t d) - 360 * IZR k - vlon) <= eps /\
  Rabs (lat (dest_rad (l1, f1) t d) - vlat) <= eps.
Proof.
  intros s2 Y X Hs Hq H1 H2.
  unfold dest_rad, lon, lat; cbn [fst snd]. rewrite !deg_alt, !rad_alt.
  fold (s2_of (rad f1) (d / Rearth) t). fold s2.
  rewrite sin_asin by lra. fold X Y. rewrite (atan2_quad q) by exact Hq.
  rewrite asin_atan by exact Hs. split; assumption.
Qed.

(* ---------------------------------------------------------------- rotation *)
Lemma K_rot w (k : Z) lo fo lp fp a vlon vlat eps :
  wrap_ok w lo lp ->
  Rabs (lon (rot_raw (lo, fo) (wrap_lon w lp, fp) a) - 360 * IZR k - vlon) <= eps ->
  Rabs (lat (rot_raw (lo, fo) (wrap_lon w lp, fp) a) - vlat) <= eps ->
  Rabs (lon (rot (lo, fo) (lp, fp) a) - 360 * IZR k - vlon) <= eps /\
  Rabs (lat (rot (lo, fo) (lp, fp) a) - vlat) <= eps.
Proof.
  intros Hw H1 H2. unfold rot. rewrite (ensure_edge_bounds_w w) by exact Hw. cbn [snd].
  split; assumption.
Qed.

(* ---------------------------------------------------------------- tactics used by the cases *)
Ltac k_side := cbn [wrap_ok quad_ok]; repeat split; try lra; try (left; lra); try (right; lra).
Ltac k_unf := cbv zeta; cbv [hdist_expr hav_a bearing_xy atan2_q quad_ok wrap_lon s2_of rot_raw uvec dot3
                            lon lat fst snd rad deg Rearth Rsqr].
Ltac k_ivl := k_unf; repeat split; interval with (i_prec 80).
