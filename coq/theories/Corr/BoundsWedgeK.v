(* Correspondence checker for the WEDGE branch of GeoRing.bounds (C09, last sentence; Model/BoundsWedgeM.v):
   the harness (harness/c09d.py) writes, per sampled wedge, a lemma

       let b := wedge_bounds_default (mkring (l, f) rin rout amin amax []) in
       | rb_minlon b - 360 kz - <bounds[0]> | <= eps /\ | rb_minlat b - <bounds[1]> | <= eps /\ ... (four numbers)

   and proves it with K_wedge_bounds below.  The min / max folds are never evaluated symbolically: the harness
   hands over the implementation's own samples (bounding_coords(): vo = outer arc, vi = inner arc, by sample index)
   and the index at which each of the four extremes is attained; Coq proves
     (1) ring_default_k = k                                        (K_default_k; rational arithmetic, lra)
     (2) every model sample i <= k is within eps of the implementation's sample i, latitude and longitude
         (K_lat_near / K_lon_near below -> K_lat_ok / K_lon_ok of Corr/BoundsCurveK.v; by `interval`, one goal per
         coordinate; 2 * (k+1) samples)
     (3) every implementation sample is <= / >= the reported bound, and the indicated one equals it   (lra)
   whence | extreme of the model list - reported bound | <= eps (K_rmax / K_rmin with BoundsCurveP7.in_wedge_pts).
   kz accounts for the Coordinate constructor's wrap of the longitude (one integer per wedge: wedges whose sampled
   outline straddles +-180 are not generated). *)
From GV Require Import Prelude SphereM SphereP1 SphereP2 SphereP3 SphereP5 CurveM CurveP BoundsCurveM BoundsCurveK
  BoundsCurveP2 BoundsCurveP3 BoundsCurveP4 BoundsWedgeM BoundsCurveP7.
From Coq Require Import Reals Lra Lia.
From Interval Require Import Tactic.
Open Scope R_scope.

(* finite conjunction P 0 /\ ... /\ P k *)
Fixpoint all_upto (k : nat) (P : nat -> Prop) : Prop :=
  match k with O => P O | S n => all_upto n P /\ P (S n) end.

Lemma all_upto_spec k P : all_upto k P -> forall i, (i <= k)%nat -> P i.
Proof.
  induction k as [|k IH]; cbn [all_upto].
  - intros H i Hi. replace i with 0%nat by lia. exact H.
  - intros [A B] i Hi. destruct (Nat.eq_dec i (S k)) as [->|N]; [exact B|apply IH; [exact A|lia]].
Qed.

(* the bearing of sample i, written with integer literals (IZR (Zpos ..) is what `interval` reads) *)
Definition wangle (amin amax : R) (k i : nat) : R :=
  PI * (amin + (amax - amin) / IZR (Z.of_nat k) * IZR (Z.of_nat i)) / 180.

Lemma ring_angle_wangle l f rin rout amin amax k i :
  ring_angle (mkring (l, f) rin rout amin amax []) k i = wangle amin amax k i.
Proof. unfold ring_angle, ring_angle_deg, wangle; cbn [r_amin r_amax]. rewrite !INR_IZR_INZ. reflexivity. Qed.

(* (1) the default number of segments *)
Lemma K_default_k l f rin rout amin amax (c : Z) :
  IZR c - 1 < (amax - amin) / 10 <= IZR c ->
  ring_default_k (mkring (l, f) rin rout amin amax []) = Z.to_nat (Z.max c 10).
Proof.
  intros [A B]. unfold ring_default_k, Rceil; cbn [r_amin r_amax].
  assert (E : Int_part (- ((amax - amin) / 10)) = (- c)%Z).
  { apply Int_part_spec. rewrite opp_IZR. lra. }
  rewrite E, Z.opp_involutive. reflexivity.
Qed.

(* (2)+(3) -> extreme of the model list against the reported bound *)
Section Extreme.
  Variable s : ring.
  Variable k : nat.
  Hypothesis Hfull : ring_is_full s = false.
  Variable pr : coord -> R.
  Variables fo fi : nat -> R.          (* the implementation's samples *)
  Variables shift eps v : R.
  Hypothesis Hclose : forall i, (i <= k)%nat ->
    Rabs (pr (ring_outer_pt s k i) - shift - fo i) <= eps /\ Rabs (pr (ring_inner_pt s k i) - shift - fi i) <= eps.

  Let l := map pr (ring_pts s k).

  Lemma l_ne : l <> [].
  Proof.
    intros F. apply (f_equal (@length _)) in F. unfold l in F. rewrite map_length in F.
    pose proof (wedge_pts_nonempty s k) as NE. destruct (ring_pts s k); [contradiction|discriminate].
  Qed.

  Lemma l_elem x : In x l -> exists i, (i <= k)%nat /\ (x = pr (ring_outer_pt s k i) \/ x = pr (ring_inner_pt s k i)).
  Proof.
    intros H. apply in_map_iff in H as (p & <- & Hp). apply (in_wedge_pts s k p Hfull) in Hp as (i & Hi & [-> | ->]);
      exists i; (split; [exact Hi|]); [left|right]; reflexivity.
  Qed.
  Lemma l_outer i : (i <= k)%nat -> In (pr (ring_outer_pt s k i)) l.
  Proof. intros Hi. apply in_map, (in_wedge_pts s k _ Hfull). exists i. split; [exact Hi|left; reflexivity]. Qed.
  Lemma l_inner i : (i <= k)%nat -> In (pr (ring_inner_pt s k i)) l.
  Proof. intros Hi. apply in_map, (in_wedge_pts s k _ Hfull). exists i. split; [exact Hi|right; reflexivity]. Qed.

  Lemma K_rmax :
    (forall i, (i <= k)%nat -> fo i <= v /\ fi i <= v) ->
    (exists i, (i <= k)%nat /\ (fo i = v \/ fi i = v)) ->
    Rabs (rmax_list l - shift - v) <= eps.
  Proof.
    intros Hle (i0 & Hi0 & Hat). apply Rabs_le. split.
    - destruct (Hclose i0 Hi0) as [A B]. apply Rabs_le_inv in A, B.
      pose proof (rmax_list_ge l _ (l_outer i0 Hi0)). pose proof (rmax_list_ge l _ (l_inner i0 Hi0)).
      destruct Hat as [E|E]; lra.
    - destruct (l_elem _ (rmax_list_in l l_ne)) as (i & Hi & Hx).
      destruct (Hclose i Hi) as [A B]. apply Rabs_le_inv in A, B. destruct (Hle i Hi) as [C D].
      destruct Hx as [-> | ->]; lra.
  Qed.

  Lemma K_rmin :
    (forall i, (i <= k)%nat -> v <= fo i /\ v <= fi i) ->
    (exists i, (i <= k)%nat /\ (fo i = v \/ fi i = v)) ->
    Rabs (rmin_list l - shift - v) <= eps.
  Proof.
    intros Hle (i0 & Hi0 & Hat). apply Rabs_le. split.
    - destruct (l_elem _ (rmin_list_in l l_ne)) as (i & Hi & Hx).
      destruct (Hclose i Hi) as [A B]. apply Rabs_le_inv in A, B. destruct (Hle i Hi) as [C D].
      destruct Hx as [-> | ->]; lra.
    - destruct (Hclose i0 Hi0) as [A B]. apply Rabs_le_inv in A, B.
      pose proof (rmin_list_le l _ (l_outer i0 Hi0)). pose proof (rmin_list_le l _ (l_inner i0 Hi0)).
      destruct Hat as [E|E]; lra.
  Qed.
End Extreme.

(* the side conditions of K_lat_ok / K_lon_ok (-1 < sin(lat) < 1, destination in the right half plane) hold for
   every centre within 75 degrees of the equator and every distance up to 10 km: proved once here
   (BoundsCurveP4.lat_le / lat_ge / G_pos), so that `interval` is left with ONE goal per coordinate of a sample *)
Definition K_lat_near (f t d vlat eps : R) : Prop :=
  let s2 := s2_of (rad f) (d / Rearth) t in
  Rabs (deg (atan (s2 / sqrt (1 - s2²))) - vlat) <= eps.
Definition K_lon_near (k : Z) (l f t d vlon eps : R) : Prop :=
  let s2 := s2_of (rad f) (d / Rearth) t in
  let Y := sin t * sin (d / Rearth) * cos (rad f) in
  let X := cos (d / Rearth) - sin (rad f) * s2 in
  Rabs (deg (rad l + atan (Y / X)) - 360 * IZR k - vlon) <= eps.

Lemma K_lat_near_ok f t d vlat eps :
  -75 <= f <= 75 -> 0 <= d <= 10000 -> K_lat_near f t d vlat eps -> K_lat_ok f t d vlat eps.
Proof.
  intros Hf Hd H. unfold K_lat_ok, K_lat_near in *. cbv zeta in *. split; [|exact H].
  assert (Hl : Rabs f <= 75) by (apply Rabs_le; lra).
  pose proof (radius_facts d Hd) as He. destruct (lat_bounds_pi f Hl _ He) as [L U].
  destruct (centre_facts f Hl) as (Hphi & _). pose proof half_pi_gt as HP.
  assert (He' : 0 <= d / Rearth <= 157 / 100000) by exact He.
  pose proof (lat_le (rad f) (d / Rearth) (proj1 He) L U t) as A.
  pose proof (lat_ge (rad f) (d / Rearth) (proj1 He) L U t) as B.
  pose proof (s2_range (rad f) (d / Rearth) t) as Rg.
  rewrite <- (sin_asin _ Rg). set (a := asin _) in *.
  assert (S1 : sin (- (PI / 2)) < sin a) by (apply sin_increasing_1; lra).
  assert (S2 : sin a < sin (PI / 2)) by (apply sin_increasing_1; lra).
  rewrite sin_neg, sin_PI2 in S1. rewrite sin_PI2 in S2. lra.
Qed.

Lemma K_lon_near_ok k l f t d vlon eps :
  -75 <= f <= 75 -> 0 <= d <= 10000 -> K_lon_near k l f t d vlon eps -> K_lon_ok k l f t d vlon eps.
Proof.
  intros Hf Hd H. unfold K_lon_ok, K_lon_near in *. cbv zeta in *. split; [|exact H].
  assert (Hl : Rabs f <= 75) by (apply Rabs_le; lra).
  pose proof (radius_facts d Hd) as He. destruct (centre_facts' f Hl) as (Hc & _).
  pose proof (G_pos (rad f) (d / Rearth) Hc He t) as G0.
  assert (Hc' : 2588 / 10000 <= cos (rad f) <= 1) by exact Hc.
  pose proof (sc1 (rad f)) as SC. unfold s2_of.
  set (s := sin (rad f)) in *. set (c := cos (rad f)) in *.
  replace (cos (d / Rearth) - s * (s * cos (d / Rearth) + c * sin (d / Rearth) * cos t))
    with (c * (c * cos (d / Rearth) - s * sin (d / Rearth) * cos t)).
  - apply Rmult_lt_0_compat; lra.
  - replace (s * (s * cos (d / Rearth) + c * sin (d / Rearth) * cos t))
      with (s * s * cos (d / Rearth) + s * c * sin (d / Rearth) * cos t) by ring.
    replace (s * s) with (1 - c * c) by lra. ring.
Qed.

(* sample i of the implementation: (lon, lat) *)
Definition smp (vs : list (R * R)) (i : nat) : R * R := nth i vs (0, 0).

(* where an extreme is attained: (true, i) = outer sample i, (false, i) = inner sample i *)
Definition at_idx (vo vi : list (R * R)) (pr : R * R -> R) (w : bool * nat) : R :=
  pr (smp (if fst w then vo else vi) (snd w)).

Lemma K_wedge_bounds (kz c : Z) (k : nat) l f rin rout amin amax (vo vi : list (R * R))
      (iw is_ ie in_ : bool * nat) vw vs ve vn eps :
  amax - amin < 360 ->
  (-75 <= f <= 75 /\ 0 <= rin <= 10000 /\ 0 <= rout <= 10000) ->
  IZR c - 1 < (amax - amin) / 10 <= IZR c -> Z.to_nat (Z.max c 10) = k ->
  (* (2) every sample *)
  all_upto k (fun i =>
    (K_lon_near kz l f (wangle amin amax k i) rout (fst (smp vo i)) eps /\ K_lat_near f (wangle amin amax k i) rout (snd (smp vo i)) eps) /\
    (K_lon_near kz l f (wangle amin amax k i) rin (fst (smp vi i)) eps /\ K_lat_near f (wangle amin amax k i) rin (snd (smp vi i)) eps)) ->
  (* (3) the reported bounds are the extremes of the implementation's samples *)
  all_upto k (fun i =>
    (vw <= fst (smp vo i) <= ve /\ vs <= snd (smp vo i) <= vn) /\
    (vw <= fst (smp vi i) <= ve /\ vs <= snd (smp vi i) <= vn)) ->
  ((snd iw <= k)%nat /\ at_idx vo vi fst iw = vw) -> ((snd is_ <= k)%nat /\ at_idx vo vi snd is_ = vs) ->
  ((snd ie <= k)%nat /\ at_idx vo vi fst ie = ve) -> ((snd in_ <= k)%nat /\ at_idx vo vi snd in_ = vn) ->
  let b := wedge_bounds_default (mkring (l, f) rin rout amin amax []) in
  Rabs (rb_minlon b - 360 * IZR kz - vw) <= eps /\ Rabs (rb_minlat b - vs) <= eps /\
  Rabs (rb_maxlon b - 360 * IZR kz - ve) <= eps /\ Rabs (rb_maxlat b - vn) <= eps.
Proof.
  intros Hspan (Hf & Hri & Hro) Hc Hk H2 H3 Iw Is Ie In_. cbv zeta.
  set (s := mkring (l, f) rin rout amin amax []).
  assert (Hfull : ring_is_full s = false) by (apply wedge_not_full; unfold s; cbn [r_amin r_amax]; exact Hspan).
  unfold wedge_bounds_default.
  replace (ring_default_k s) with k by (unfold s; rewrite (K_default_k l f rin rout amin amax c Hc); symmetry; exact Hk).
  unfold wedge_bounds, rb_minlon, rb_minlat, rb_maxlon, rb_maxlat; cbn [fst snd].
  pose proof (all_upto_spec _ _ H2) as S2. pose proof (all_upto_spec _ _ H3) as S3. cbv beta in S2, S3.
  assert (Clon : forall i, (i <= k)%nat ->
            Rabs (lon (ring_outer_pt s k i) - 360 * IZR kz - fst (smp vo i)) <= eps /\
            Rabs (lon (ring_inner_pt s k i) - 360 * IZR kz - fst (smp vi i)) <= eps).
  { intros i Hi. destruct (S2 i Hi) as [[A _] [B _]]. unfold ring_outer_pt, ring_inner_pt, s; cbn [r_center r_outer r_inner].
    fold s. unfold s. rewrite ring_angle_wangle. split; apply K_dest_lon, K_lon_near_ok; assumption. }
  assert (Clat : forall i, (i <= k)%nat ->
            Rabs (lat (ring_outer_pt s k i) - 0 - snd (smp vo i)) <= eps /\
            Rabs (lat (ring_inner_pt s k i) - 0 - snd (smp vi i)) <= eps).
  { intros i Hi. destruct (S2 i Hi) as [[_ A] [_ B]]. unfold ring_outer_pt, ring_inner_pt, s; cbn [r_center r_outer r_inner].
    fold s. unfold s. rewrite ring_angle_wangle, !Rminus_0_r. split; apply K_dest_lat, K_lat_near_ok; assumption. }
  assert (At : forall (pr : R * R -> R) w v, (snd w <= k)%nat /\ at_idx vo vi pr w = v ->
            exists i, (i <= k)%nat /\ (pr (smp vo i) = v \/ pr (smp vi i) = v)).
  { intros pr [o i] v [Hi E]. exists i. split; [exact Hi|]. unfold at_idx in E; cbn [fst snd] in E.
    destruct o; [left|right]; exact E. }
  split; [|split; [|split]].
  - apply (K_rmin s k Hfull lon (fun i => fst (smp vo i)) (fun i => fst (smp vi i)) _ _ _ Clon).
    + intros i Hi. destruct (S3 i Hi) as [[A _] [B _]]. lra.
    + exact (At fst iw vw Iw).
  - pose proof (K_rmin s k Hfull lat (fun i => snd (smp vo i)) (fun i => snd (smp vi i)) _ _ vs Clat) as K.
    rewrite Rminus_0_r in K. apply K.
    + intros i Hi. destruct (S3 i Hi) as [[_ A] [_ B]]. lra.
    + exact (At snd is_ vs Is).
  - apply (K_rmax s k Hfull lon (fun i => fst (smp vo i)) (fun i => fst (smp vi i)) _ _ _ Clon).
    + intros i Hi. destruct (S3 i Hi) as [[A _] [B _]]. lra.
    + exact (At fst ie ve Ie).
  - pose proof (K_rmax s k Hfull lat (fun i => snd (smp vo i)) (fun i => snd (smp vi i)) _ _ vn Clat) as K.
    rewrite Rminus_0_r in K. apply K.
    + intros i Hi. destruct (S3 i Hi) as [[_ A] [_ B]]. lra.
    + exact (At snd in_ vn In_).
Qed.

(* ---- the same with the implementation's floats given as exact fractions (numerator, denominator): the order
   conditions (3) become ONE boolean computed on integers ---- *)
Definition qp := (Z * positive)%type.
Definition rq (q : qp) : R := IZR (fst q) / IZR (Zpos (snd q)).
Definition rq2 (p : qp * qp) : R * R := (rq (fst p), rq (snd p)).
Definition qle (a b : qp) : bool := (fst a * Zpos (snd b) <=? fst b * Zpos (snd a))%Z.

Lemma qle_ok a b : qle a b = true -> rq a <= rq b.
Proof.
  unfold qle, rq. intros H. apply Z.leb_le in H. apply IZR_le in H. rewrite !mult_IZR in H.
  assert (0 < IZR (Zpos (snd a))) by (apply IZR_lt; lia). assert (0 < IZR (Zpos (snd b))) by (apply IZR_lt; lia).
  apply (Rmult_le_reg_r (IZR (Zpos (snd a)) * IZR (Zpos (snd b)))); [apply Rmult_lt_0_compat; assumption|].
  replace (IZR (fst a) / IZR (Zpos (snd a)) * (IZR (Zpos (snd a)) * IZR (Zpos (snd b)))) with (IZR (fst a) * IZR (Zpos (snd b))) by (field; lra).
  replace (IZR (fst b) / IZR (Zpos (snd b)) * (IZR (Zpos (snd a)) * IZR (Zpos (snd b)))) with (IZR (fst b) * IZR (Zpos (snd a))) by (field; lra).
  exact H.
Qed.

Definition inside (qw qs qe qn : qp) (p : qp * qp) : bool :=
  qle qw (fst p) && qle (fst p) qe && qle qs (snd p) && qle (snd p) qn.

Lemma inside_ok qw qs qe qn p : inside qw qs qe qn p = true ->
  (rq qw <= fst (rq2 p) <= rq qe) /\ (rq qs <= snd (rq2 p) <= rq qn).
Proof.
  unfold inside. intros H. apply andb_prop in H as [H H4]. apply andb_prop in H as [H H3]. apply andb_prop in H as [H1 H2].
  unfold rq2; cbn [fst snd]. repeat split; apply qle_ok; assumption.
Qed.

Lemma K_wedge_bounds_q (kz c : Z) (k : nat) l f rin rout amin amax (qo qi : list (qp * qp))
      (iw is_ ie in_ : bool * nat) (qw qs qe qn : qp) eps :
  amax - amin < 360 ->
  (-75 <= f <= 75 /\ 0 <= rin <= 10000 /\ 0 <= rout <= 10000) ->
  IZR c - 1 < (amax - amin) / 10 <= IZR c -> Z.to_nat (Z.max c 10) = k ->
  length qo = S k -> length qi = S k ->
  all_upto k (fun i =>
    (K_lon_near kz l f (wangle amin amax k i) rout (fst (smp (map rq2 qo) i)) eps /\ K_lat_near f (wangle amin amax k i) rout (snd (smp (map rq2 qo) i)) eps) /\
    (K_lon_near kz l f (wangle amin amax k i) rin (fst (smp (map rq2 qi) i)) eps /\ K_lat_near f (wangle amin amax k i) rin (snd (smp (map rq2 qi) i)) eps)) ->
  forallb (inside qw qs qe qn) (qo ++ qi) = true ->
  ((snd iw <= k)%nat /\ at_idx (map rq2 qo) (map rq2 qi) fst iw = rq qw) -> ((snd is_ <= k)%nat /\ at_idx (map rq2 qo) (map rq2 qi) snd is_ = rq qs) ->
  ((snd ie <= k)%nat /\ at_idx (map rq2 qo) (map rq2 qi) fst ie = rq qe) -> ((snd in_ <= k)%nat /\ at_idx (map rq2 qo) (map rq2 qi) snd in_ = rq qn) ->
  let b := wedge_bounds_default (mkring (l, f) rin rout amin amax []) in
  Rabs (rb_minlon b - 360 * IZR kz - rq qw) <= eps /\ Rabs (rb_minlat b - rq qs) <= eps /\
  Rabs (rb_maxlon b - 360 * IZR kz - rq qe) <= eps /\ Rabs (rb_maxlat b - rq qn) <= eps.
Proof.
  intros Hspan Hr Hc Hk Lo Li H2 H3 Iw Is Ie In_.
  set (vo := map rq2 qo) in *. set (vi := map rq2 qi) in *.
  apply (K_wedge_bounds kz c k l f rin rout amin amax vo vi iw is_ ie in_); try assumption.
  assert (F : forall p, In p (qo ++ qi) -> inside qw qs qe qn p = true) by (apply forallb_forall; exact H3).
  assert (G : forall i, (i <= k)%nat ->
            ((rq qw <= fst (smp (map rq2 qo) i) <= rq qe) /\ (rq qs <= snd (smp (map rq2 qo) i) <= rq qn)) /\
            ((rq qw <= fst (smp (map rq2 qi) i) <= rq qe) /\ (rq qs <= snd (smp (map rq2 qi) i) <= rq qn))).
  { intros i Hi. unfold smp, vo, vi.
    replace (0, 0) with (rq2 ((0%Z, 1%positive), (0%Z, 1%positive))) by (unfold rq2, rq; cbn [fst snd]; f_equal; field).
    rewrite !map_nth. split; apply inside_ok, F, in_or_app; [left|right]; apply nth_In; lia. }
  clear - G. induction k as [|n IH]; cbn [all_upto].
  - apply (G 0%nat). lia.
  - split; [apply IH; intros i Hi; apply G; lia|apply G; lia].
Qed.

(* side goals: sample closeness by interval (one sample at a time: the conjunction is split while the
   predicate is still folded), orderings by computation on integers, indices by computation *)
Ltac kw_red :=
  cbv zeta;
  cbv [all_upto smp at_idx nth map rq2 rq fst snd wangle Z.of_nat Pos.of_succ_nat Pos.succ
       K_lon_near K_lat_near s2_of lon lat rad deg Rearth Rsqr].
Ltac kw_ivl :=
  cbv zeta;
  match goal with
  | |- all_upto _ ?P =>
      let PP := fresh "PP" in
      set (PP := P); cbv [all_upto];
      repeat (match goal with |- _ /\ _ => split end);
      subst PP; kw_red; repeat split; interval with (i_prec 60)
  end.
Ltac kw_ord := vm_compute; reflexivity.
Ltac kw_idx := kw_red; split; [lia|reflexivity].
