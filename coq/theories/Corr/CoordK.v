(* Correspondence checker for C08: the harness writes the inputs and the implementation's
   outputs (exact rationals of the floats) as literals; [check] compares them with the model
   by computation. *)
From Coq Require Import QArith Qabs.
From GV Require Import Prelude CoordM.
Open Scope Q_scope.

Definition Qleb (a b : Q) : bool := Qle_bool a b.

(* stored values are canonical: -180 <= lon < 180, -90 <= lat <= 90 *)
Definition in_range (lon lat : Q) : bool :=
  Qleb (-180) lon && Qltb lon 180 && Qleb (-90) lat && Qleb lat 90.

(* |a - b| <= tol, longitudes compared modulo a full turn *)
Definition close (tol a b : Q) : bool := Qleb (Qabs (a - b)) tol.
Definition close360 (tol a b : Q) : bool :=
  close tol a b || close tol (a + 360) b || close tol (a - 360) b.

Definition oq_same (a b : option Q) : bool := oq_eqb a b.

Inductive ccase :=
(* Coordinate(lon, lat, z, m, _bounded=bounded) stored (olon, olat, oz, om).
   exact = every float operation of the loops was exact on this input (decided by the harness
   with fractions.Fraction), so the model must agree exactly; otherwise within tol. *)
| KMk (lon lat : Q) (z m : option Q) (bounded exact : bool) (tol : Q)
      (olon olat : Q) (oz om : option Q)
(* a == b, hash(a) == hash(b) for a = Coordinate(lon1,lat1,z1,m1), b likewise *)
| KEq (lon1 lat1 : Q) (z1 m1 : option Q) (lon2 lat2 : Q) (z2 m2 : option Q)
      (o_eq o_hasheq : bool)
(* the same observations, with the two coordinates given by the values the implementation
   STORED (exact rationals of the stored floats): a == b, b == a, hash(a) == hash(b), len({a, b}) *)
| KEqStored (lon1 lat1 : Q) (z1 m1 : option Q) (lon2 lat2 : Q) (z2 m2 : option Q)
      (o_eq o_eq_sym o_hasheq : bool) (o_setlen : Z).

Definition check (c : ccase) : bool :=
  match c with
  | KMk lon lat z m bounded exact tol olon olat oz om =>
      match mk lon lat z m bounded with
      | Err _ => false
      | Ok c =>
          oq_same (cz c) oz && oq_same (cm c) om &&
          (if exact then Qeq_bool (clon c) olon && Qeq_bool (clat c) olat
           else close360 tol (clon c) olon && close tol (clat c) olat) &&
          (* the proved facts, demanded of the implementation's own output *)
          (if bounded then
             in_range olon olat &&
             match norm olon olat with
             | Ok (a, b) => Qeq_bool a olon && Qeq_bool b olat
             | Err _ => false
             end
           else negb (Qeq_bool olon 180))
      end
  | KEq lon1 lat1 z1 m1 lon2 lat2 z2 m2 o_eq o_hasheq =>
      match mk lon1 lat1 z1 m1 true, mk lon2 lat2 z2 m2 true with
      | Ok a, Ok b =>
          eqb (ceqb a b) o_eq && implb (hkey_eqb a b) o_hasheq && implb o_eq o_hasheq
      | _, _ => false
      end
  | KEqStored lon1 lat1 z1 m1 lon2 lat2 z2 m2 o_eq o_eq_sym o_hasheq o_setlen =>
      let a := mkc lon1 lat1 z1 m1 in
      let b := mkc lon2 lat2 z2 m2 in
      eqb (ceqb a b) o_eq && eqb (ceqb b a) o_eq_sym && implb (hkey_eqb a b) o_hasheq &&
      (o_setlen =? (if ceqb a b then 1 else 2))%Z
  end.
