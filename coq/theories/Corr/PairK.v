(* Correspondence checker for C02: the harness writes the implementation's answers as literals;
   [check] compares them with the model by computation (vm_compute in the generated files).
   Coordinates are the implementation's coordinates times the harness scale; [w] = -180*scale. *)
From GV Require Import Prelude TimeM GeomM SweepM PairM.
Open Scope Z_scope.

Definition rb_eqb (x y : res bool) : bool := res_eqb Bool.eqb x y.

Inductive pcase :=
(* do_edges_intersect(edges_a, edges_b) called directly *)
| KSweep (ea eb : list seg) (out : res bool)
(* a.intersects_shape(b), a.contains_shape(b) *)
| KPair (w : Z) (a b : shape) (o_int o_con : res bool)
(* is_sub_list(a, b) *)
| KSub (a b : list pt) (out : bool)
(* shape.edges() / [shape.segments] flattened, as the implementation builds it *)
| KEdges (a : shape) (out : list seg).

Definition seg_eqb (a b : seg) : bool := pt_eqb (fst a) (fst b) && pt_eqb (snd a) (snd b).

Definition check (c : pcase) : bool :=
  match c with
  | KSweep ea eb out => rb_eqb (sweep hit ea eb) out
  | KPair w a b o_int o_con =>
      rb_eqb (intersects_shape w a b) o_int && rb_eqb (contains_shape w a b) o_con
  | KSub a b out => Bool.eqb (is_sub_list a b) out
  | KEdges a out => list_eqb seg_eqb (all_edges a) out
  end.
