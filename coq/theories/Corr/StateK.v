(* Correspondence checker for C16: a history is run through the model; after every operation the
   model's abstract state (dt, properties, hole count, which caches are filled) and the returned
   object are compared with what the implementation showed.  Geometry-valued observations are
   compared in the harness against a freshly constructed implementation object (the property's
   own right-hand side); here geometry is an opaque number. *)
From GV Require Import Prelude StateM.
Open Scope Z_scope.

Definition ph (k : kind) (g : Z) (hs : list Z) : list Z :=
  match k with KRing => g :: hs | _ => hs end.     (* a full ring's inner circle becomes a hole *)
Definition id1 (_ : kind) (g : Z) : Z := g.
Definition id2 (_ : kind) (g : Z) (_ : list Z) : Z := g.
Definition kst := st Z Z Z Z Z.
Definition kstep : kst -> op -> kst * res (ret Z Z Z Z Z * obsv Z Z Z Z Z Z) :=
  step Z Z Z Z Z Z Z id1 id1 id2 id2 id2 id2 id1 ph.

Definition pdict_eqb : pdict -> pdict -> bool :=
  list_eqb (fun a b => (fst a =? fst b) && (snd a =? snd b)).
Definition dtv_eqb : dtv -> dtv -> bool :=
  option_eqb (fun a b => (fst a =? fst b) && (snd a =? snd b)).
Definition is_some {X} (o : option X) : bool := match o with Some _ => true | None => false end.

(* what the harness saw after one operation *)
Record seen := mkseen {
  e_err : option errk;                                   (* None: the call returned *)
  e_dt : dtv; e_props : pdict; e_holes : Z;              (* receiver afterwards *)
  e_cb : bool; e_cc : bool; e_ca : bool; e_cs : bool;    (* bounds / centroid / area / to_shapely cached *)
  e_ret : option (bool * dtv * pdict * Z);               (* returned shape: is the receiver?, dt, props, holes *)
  e_obs : bool }.                                        (* the harness then took all observations on the receiver *)

Definition recv_ok (s : kst) (e : seen) : bool :=
  dtv_eqb (dt _ _ _ _ _ s) (e_dt e) && pdict_eqb (props _ _ _ _ _ s) (e_props e) &&
  (Z.of_nat (length (holes _ _ _ _ _ s)) =? e_holes e) &&
  eqb (is_some (c_bounds _ _ _ _ _ s)) (e_cb e) && eqb (is_some (c_centroid _ _ _ _ _ s)) (e_cc e) &&
  eqb (is_some (c_area _ _ _ _ _ s)) (e_ca e) && eqb (is_some (c_shapely _ _ _ _ _ s)) (e_cs e).

Definition ret_ok (s1 : kst) (r : ret Z Z Z Z Z) (e : option (bool * dtv * pdict * Z)) : bool :=
  match r, e with
  | RNoShape _ _ _ _ _, None => true
  | RSame _ _ _ _ _, Some (true, d, p, n) =>
      dtv_eqb (dt _ _ _ _ _ s1) d && pdict_eqb (props _ _ _ _ _ s1) p && (Z.of_nat (length (holes _ _ _ _ _ s1)) =? n)
  | RNew _ _ _ _ _ s', Some (false, d, p, n) =>
      dtv_eqb (dt _ _ _ _ _ s') d && pdict_eqb (props _ _ _ _ _ s') p && (Z.of_nat (length (holes _ _ _ _ _ s')) =? n)
  | _, _ => false
  end.

(* after recording each step the harness takes all ten observations on the receiver (to compare them
   with a fresh object's); the model performs the same reads *)
Definition all_reads : list rd :=
  [RBounds; RCentroid; RArea; RVolume; RProps; RGeoJson; RWkt; RShapely; RDt; RHoles].
Definition observe_all (s : kst) : kst := fold_left (fun x r => fst (kstep x (Read r))) all_reads s.

Fixpoint replay (s : kst) (ops : list op) (tr : list seen) : bool :=
  match ops, tr with
  | [], [] => true
  | o :: ops', e :: tr' =>
      let (s1, r) := kstep s o in
      recv_ok s1 e &&
      match r, e_err e with
      | Ok (rt, _), None => ret_ok s1 rt (e_ret e)
      | Err k, Some k' => errk_eqb k k'
      | _, _ => false
      end && replay (if e_obs e then observe_all s1 else s1) ops' tr'
  | _, _ => false
  end.

Inductive hcase :=
| KHist (k : kind) (nholes : nat) (d0 : dtv) (p0 : pdict) (ops : list op) (tr : list seen).

Definition check (c : hcase) : bool :=
  match c with
  | KHist k nh d0 p0 ops tr => replay (fresh_st Z Z Z Z Z k 1 (repeat 0 nh) d0 p0) ops tr
  end.
