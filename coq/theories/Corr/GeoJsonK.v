(* Correspondence checker for C14 (and the ring machinery shared with C13): the harness writes
   the inputs and the implementation's outputs as literals; [check] compares them with the
   model by computation.  Scale: quarter degrees, so 180 degrees = 720. *)
From Coq Require Import String.
From GV Require Import Prelude RingM GeoJsonM.
Open Scope string_scope.
Open Scope Z_scope.

Definition half : Z := 720.

(* structural (not `==`) comparison of observed shapes *)
Definition polygon_same (a b : polygon) : bool :=
  ring_eqb (outline a) (outline b) && list_eqb ring_eqb (pholes a) (pholes b).

Definition geom_same (a b : geom) : bool :=
  match a, b with
  | GPoint c, GPoint d => coord_eqb c d
  | GLine u, GLine v => ring_eqb u v
  | GPoly p, GPoly q => polygon_same p q
  | GMPoint u, GMPoint v => ring_eqb u v
  | GMLine u, GMLine v => list_eqb ring_eqb u v
  | GMPoly u, GMPoly v => list_eqb polygon_same u v
  | _, _ => false
  end.

Definition shape_same (a b : shape) : bool :=
  geom_same (sgeom a) (sgeom b) && dt_eqb (sdt a) (sdt b) && dict_eqb (sprops a) (sprops b).

Fixpoint lookup (id : Z) (t : list (Z * ring)) : ring :=
  match t with
  | [] => []
  | (i, r) :: t' => if i =? id then r else lookup id t'
  end.

(* the oracle of a case: the rings the implementation's bounding_coords/_draw_bounds returned
   on this run for the k of the case *)
Definition orc_of (outer inner : list (Z * ring)) : oracle :=
  mkoracle (fun id _ => lookup id outer) (fun id _ => lookup id inner).

Inductive gcase :=
| KCcw (r : ring) (out : bool)
| KCtor (r : ring) (is_hole : bool) (out : ring)
| KExport (outer inner : list (Z * ring)) (s : shape) (ups : option dict) (k : option Z)
          (kw : dict) (out : json)
| KFcExport (outer inner : list (Z * ring)) (l : list shape) (ups : option dict) (k : option Z)
            (out : json)
| KImport (k : skind) (doc : json) (out : res shape) (doc_after : json)
| KParse (doc : json) (out : res parsed) (doc_after : json)
| KEq (a b : shape) (out : bool).

Definition parsed_same (a b : parsed) : bool :=
  match a, b with
  | PShape s, PShape t => shape_same s t
  | PShapes l, PShapes m => list_eqb shape_same l m
  | _, _ => false
  end.

Definition check (c : gcase) : bool :=
  match c with
  | KCcw r out => Bool.eqb (is_ccw half r) out
  | KCtor r h out => ring_eqb (norm_ring half h r) out
  | KExport outer inner s ups k kw out => json_eqb (to_geojson (orc_of outer inner) s ups k kw) out
  | KFcExport outer inner l ups k out => json_eqb (fc_to_geojson (orc_of outer inner) l ups k) out
  | KImport k doc out after =>
      match from_geojson half k doc, out with
      | Ok (s, d), Ok s' => shape_same s s' && json_eqb d after
      | Err e, Err f => errk_eqb e f && json_eqb doc after
      | _, _ => false
      end
  | KParse doc out after =>
      match parse_geojson half doc, out with
      | Ok (p, d), Ok p' => parsed_same p p' && json_eqb d after
      | Err e, Err f => errk_eqb e f && json_eqb doc after
      | _, _ => false
      end
  | KEq a b out => Bool.eqb (shape_eqb a b) out
  end.
