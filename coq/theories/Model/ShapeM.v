(* Executable models for C05 (space-time gate of _base.py) and C04 (multi-shape member loops).
   The spatial member-level predicates are abstract (Section variables): the theorems hold for
   every instantiation, and the correspondence instantiates them with the answers the
   implementation itself gave.  No proofs in this file. *)
From GV Require Import Prelude TimeM.
Open Scope Z_scope.

(* ------------------------------------------------------------------ C05 *)
(* what the gate looks at: a shape's optional time bounds; [sid] only identifies the shape
   for the abstract spatial predicates *)
Record shp := mkshp { sdt : option iv; sid : Z }.

(* the dt argument of a constructor / set_dt *)
Inductive dtarg := NoDt | Instant (t : Z) | Interval (s e : Z).

(* BaseShape.__init__ / set_dt: a datetime becomes the zero-length interval at that instant
   (default_to_zulu is the identity on UTC microseconds); a TimeInterval is stored as is *)
Definition norm_dt (d : dtarg) : res (option iv) :=
  match d with
  | NoDt => Ok None
  | Instant t => match mk t t with Ok i => Ok (Some i) | Err e => Err e end
  | Interval s e => match mk s e with Ok i => Ok (Some i) | Err e => Err e end
  end.

Section Gate.
  Variable contains_coordinate : shp -> Z -> bool.
  Variable contains_shape : shp -> shp -> bool.
  Variable intersects_shape : shp -> shp -> bool.

  (* BaseShapeProtocol.contains_time(TimeInterval) / (datetime) *)
  Definition contains_time (self : shp) (dt : iv) : bool :=
    match sdt self with None => false | Some d => contains_iv d dt end.
  Definition contains_time_dt (self : shp) (t : Z) : bool :=
    match sdt self with None => false | Some d => contains_dt d t end.

  Definition intersects_time (self : shp) (dt : iv) : bool :=
    match sdt self with None => false | Some d => intersects d dt end.
  Definition intersects_time_dt (self : shp) (t : Z) : bool :=
    match sdt self with None => false | Some d => intersects_dt d t end.

  (* BaseShapeProtocol.contains(shape) ; `other in self` is the same call *)
  Definition contains (self shape : shp) : bool :=
    match sdt self, sdt shape with
    | Some _, Some o => if negb (contains_time self o) then false else contains_shape self shape
    | _, _ => contains_shape self shape
    end.

  (* BaseShapeProtocol.contains(Coordinate): the coordinate shortcut, no time gate *)
  Definition contains_coord (self : shp) (c : Z) : bool := contains_coordinate self c.

  Definition intersects (self shape : shp) : bool :=
    match sdt self, sdt shape with
    | Some _, Some o => if negb (intersects_time self o) then false else intersects_shape self shape
    | _, _ => intersects_shape self shape
    end.
End Gate.

(* ------------------------------------------------------------------ C04 *)
Section Multi.
  Variables member shape coord : Type.
  Variable cc : member -> coord -> bool.        (* member.contains_coordinate(coord) *)
  Variable cs : member -> shape -> bool.        (* member.contains_shape(single shape) *)
  Variable is_ : member -> shape -> bool.       (* member.intersects_shape(single shape) *)

  (* the argument of a shape-level predicate: a single shape or a multi-shape's parts *)
  Inductive arg := Single (s : shape) | Parts (ps : list shape).

  (* `for x in xs: if f x: return True` ... `return False` *)
  Fixpoint loop_any {A} (f : A -> bool) (xs : list A) : bool :=
    match xs with [] => false | x :: r => if f x then true else loop_any f r end.
  (* `for x in xs: if not f x: return False` ... `return True`  /  all(...) *)
  Fixpoint loop_all {A} (f : A -> bool) (xs : list A) : bool :=
    match xs with [] => true | x :: r => if f x then loop_all f r else false end.

  (* MultiShapeBase.contains_coordinate *)
  Definition multi_cc (ms : list member) (c : coord) : bool := loop_any (fun m => cc m c) ms.

  (* MultiShapeBase.contains_shape *)
  Definition multi_cs (ms : list member) (a : arg) : bool :=
    match a with
    | Parts ps => loop_all (fun p => loop_any (fun m => cs m p) ms) ps
    | Single s => loop_any (fun m => cs m s) ms
    end.

  (* MultiShapeBase.intersects_shape (after repair D6) *)
  Definition multi_is (ms : list member) (a : arg) : bool :=
    match a with
    | Parts ps => loop_any (fun p => loop_any (fun m => is_ m p) ms) ps
    | Single s => loop_any (fun m => is_ m s) ms
    end.

  (* a single shape x as receiver, the multi-shape as argument
     (PolygonBase / GeoLineString / GeoPoint: the `isinstance(shape, MultiShape)` loops);
     [xi p] / [xc p] are x.intersects_shape(p) / x.contains_shape(p) for a single part p *)
  Definition single_is_multi (xi : shape -> bool) (ps : list shape) : bool := loop_any xi ps.
  Definition single_cs_multi (xc : shape -> bool) (ps : list shape) : bool := loop_all xc ps.
End Multi.
Arguments Single {shape} _.
Arguments Parts {shape} _.

(* MultiShapeBase.bounds : (min lon, min lat, max lon, max lat) over the members' bounds.
   Python's min()/max() of an empty sequence raises ValueError. *)
Definition bnd := (Z * Z * Z * Z)%type.
Definition minl (l : list Z) : res Z :=
  match l with [] => Err ValueError | x :: r => Ok (fold_left Z.min r x) end.
Definition maxl (l : list Z) : res Z :=
  match l with [] => Err ValueError | x :: r => Ok (fold_left Z.max r x) end.
Definition b_minlon (b : bnd) := let '(a, _, _, _) := b in a.
Definition b_minlat (b : bnd) := let '(_, a, _, _) := b in a.
Definition b_maxlon (b : bnd) := let '(_, _, a, _) := b in a.
Definition b_maxlat (b : bnd) := let '(_, _, _, a) := b in a.
Definition multi_bounds (bs : list bnd) : res bnd :=
  match minl (map b_minlon bs), minl (map b_minlat bs),
        maxl (map b_maxlon bs), maxl (map b_maxlat bs) with
  | Ok a, Ok b, Ok c, Ok d => Ok (a, b, c, d)
  | _, _, _, _ => Err ValueError
  end.

(* MultiShapeBase.split : the members in order, each with the parent's dt and a copy of the
   parent's properties.  A member is (geometry id, dt, properties); properties abstract. *)
Section Split.
  Variable props : Type.
  Definition mrec := (Z * option iv * props)%type.
  Definition split (pdt : option iv) (pprops : props) (ms : list mrec) : list mrec :=
    map (fun m => let '(g, _, _) := m in (g, pdt, pprops)) ms.
End Split.
