(* Executable model of geostructures/_geometry.py [convex_hull] (Andrew's monotone chain) and of
   the wrapping done by its public callers (MultiGeoPoint/MultiGeoLineString/MultiGeoPolygon
   .convex_hull(), CollectionBase.convex_hull), in exact arithmetic over Z (DESIGN section 3:
   the algorithm only uses sign tests of cross products, which are invariant under uniform
   scaling, so all integer coordinates stand for all rational coordinates).
   A point is (longitude, latitude); coordinates carry no Z value.  No proofs in this file. *)
From GV Require Import Prelude.
Open Scope Z_scope.

Definition pt := (Z * Z)%type.

(* coordinate_vector_cross_product(o, a, b) *)
Definition cross (o a b : pt) : Z :=
  (fst a - fst o) * (snd b - snd o) - (snd a - snd o) * (fst b - fst o).

Definition pt_eqb (a b : pt) : bool := (fst a =? fst b) && (snd a =? snd b).

(* order of the sort key (x.longitude, x.latitude) *)
Definition pt_ltb (a b : pt) : bool :=
  (fst a <? fst b) || ((fst a =? fst b) && (snd a <? snd b)).

(* sorted(set(coordinates), key=(lon, lat)): the set removes repeats, distinct coordinates have
   distinct keys, so the result is THE strictly increasing list of the distinct inputs, whatever
   the iteration order of the set.  Modelled as insertion into a strictly increasing list that
   drops an element already present. *)
Fixpoint insert (p : pt) (l : list pt) : list pt :=
  match l with
  | [] => [p]
  | q :: l' => if pt_ltb p q then p :: l
               else if pt_eqb p q then l
               else q :: insert p l'
  end.

Definition dedup_sort (l : list pt) : list pt := fold_right insert [] l.

(* The stack is kept with its top at the head: [b :: a :: _] is Python's lower[-1] = b,
   lower[-2] = a.
     while len(lower) >= 2 and cross(lower[-2], lower[-1], coord) <= 0: lower.pop() *)
Fixpoint pop_while (c : pt) (st : list pt) : list pt :=
  match st with
  | b :: st' =>
      match st' with
      | a :: _ => if cross a b c <=? 0 then pop_while c st' else st
      | [] => st
      end
  | [] => st
  end.

(* one iteration of the for loop: the pops, then lower.append(coord) *)
Definition push (st : list pt) (c : pt) : list pt := c :: pop_while c st.

(* the whole loop, top at the head *)
Definition chain_stack (l : list pt) : list pt := fold_left push l [].

(* the Python list [lower] / [upper] *)
Definition chain (l : list pt) : list pt := rev (chain_stack l).

(* the body of convex_hull after the sort *)
Definition hull_sorted (s : list pt) : list pt :=
  match s with
  | [] => s
  | [_] => s                                   (* len(coordinates) <= 1: return coordinates *)
  | _ => removelast (chain s) ++ chain (rev s) (* lower[:-1] + upper *)
  end.

(* _geometry.convex_hull *)
Definition hull (l : list pt) : list pt := hull_sorted (dedup_sort l).

(* ---- GeoPolygon.__init__ applied to the hull by every public entry point ------------------
   outline[0] raises IndexError on an empty list; an unclosed outline gets its first point
   appended; an outline that is not counter-clockwise by the shoelace sign is reversed.
   [is_counter_clockwise] pairs every vertex with its successor, the last with the first.
   (ensure_edge_bounds, which shifts a longitude by 360 when two consecutive vertices are more
   than 180 degrees apart, is outside the model: inputs span less than 180 degrees.) *)
Fixpoint shoelace_from (first : pt) (l : list pt) : Z :=
  match l with
  | [] => 0
  | x :: l' =>
      let y := match l' with [] => first | y :: _ => y end in
      (fst y - fst x) * (snd y + snd x) + shoelace_from first l'
  end.

Definition shoelace (l : list pt) : Z :=
  match l with [] => 0 | x :: _ => shoelace_from x l end.

Definition is_ccw (l : list pt) : bool := shoelace l <=? 0.

Definition poly_outline (o : list pt) : res (list pt) :=
  match o with
  | [] => Err IndexError
  | x :: _ =>
      let o1 := if pt_eqb x (last o x) then o else o ++ [x] in
      Ok (if is_ccw o1 then o1 else rev o1)
  end.

(* Multi*.convex_hull() / collection.convex_hull: the vertices of all members, concatenated,
   hulled, wrapped in a GeoPolygon; the observable is the polygon's outline. *)
Definition hull_of_members (members : list (list pt)) : res (list pt) :=
  poly_outline (hull (concat members)).
