(* Executable model of the in-library glue of the three archive paths of geostructures (C20):

     shapefile  collections.py to_shapefile / from_shapefile, the per-type to_pyshp / from_pyshp
                adapters (structures.py, multistructures.py), field typing, time columns;
     GeoPandas  collections.py to_geopandas / from_geopandas (WKT of C13 + property columns);
     KML        _base.py to_fastkml_placemark / from_fastkml_placemark, time.py _to_fastkml /
                _from_fastkml, parsers.parse_fastkml, collections.py to/from_fastkml_folder.

   The third-party codecs (pyshp's binary shp/dbf writer and reader and its __geo_interface__,
   pandas / shapely, fastkml / pygeoif) are NOT modelled.  Where the glue consumes a codec's
   output, the model function takes that output as an ARGUMENT (a [gi] value, a Z list, a record
   dictionary, a cell, a geo-interface document).  The reference functions [esri_gi], [dbf_cell_ref],
   [trunc10], [pd_cell_ref] below state what the codecs are EXPECTED to return (their contract);
   theorems quantify over the codec as a Section variable constrained by such a contract, and
   the correspondence (Corr/ArchiveK.v, harness/c20.py) checks on every generated case that the
   real codec output equals the reference on that instance.  No proofs in this file.

   Numbers as in RingM / GeoJsonM: coordinates and float property values are integers in units
   of 1/scale (the harness uses scale = 4); instants are microseconds. *)
From Coq Require Import String Ascii.
From GV Require Import Prelude RingM GeoJsonM WktM.
Open Scope string_scope.
Open Scope list_scope.
Open Scope Z_scope.

(* ====================================================================================== *)
(* (a) the isinstance cascade of to_shapefile: four families, four layers                  *)
(* ====================================================================================== *)

Inductive family := FPoints | FMultipoints | FLines | FShapes.

Definition family_eqb (a b : family) : bool :=
  match a, b with
  | FPoints, FPoints | FMultipoints, FMultipoints | FLines, FLines | FShapes, FShapes => true
  | _, _ => false
  end.

(* GeoPoint / MultiGeoPoint / LineLikeMixin / PolygonLikeMixin (every other kind of RingM.geom) *)
Definition family_of (g : geom) : family :=
  match g with
  | GPoint _ => FPoints
  | GMPoint _ => FMultipoints
  | GLine _ | GMLine _ => FLines
  | _ => FShapes
  end.

Record groups := mkgroups {
  g_points : list shape; g_multipoints : list shape; g_lines : list shape; g_shapes : list shape }.

(* one iteration of `for shape in self.geoshapes:` : append to the list of the first matching test *)
Definition group_step (acc : groups) (s : shape) : groups :=
  match family_of (sgeom s) with
  | FPoints => mkgroups (g_points acc ++ [s]) (g_multipoints acc) (g_lines acc) (g_shapes acc)
  | FMultipoints => mkgroups (g_points acc) (g_multipoints acc ++ [s]) (g_lines acc) (g_shapes acc)
  | FLines => mkgroups (g_points acc) (g_multipoints acc) (g_lines acc ++ [s]) (g_shapes acc)
  | FShapes => mkgroups (g_points acc) (g_multipoints acc) (g_lines acc) (g_shapes acc ++ [s])
  end.

Definition group_shapes (l : list shape) : groups := fold_left group_step l (mkgroups [] [] [] []).

(* layers are written (and ZipFile.namelist() lists them) in this order; empty ones are skipped *)
Definition archive_order (g : groups) : list shape :=
  g_points g ++ g_multipoints g ++ g_lines g ++ g_shapes g.

Definition members_of (f : family) (l : list shape) : list shape :=
  filter (fun s => family_eqb (family_of (sgeom s)) f) l.

(* ====================================================================================== *)
(* (b) to_pyshp: what is handed to writer.point/multipoint/line/poly (and their z variants) *)
(* ====================================================================================== *)

Definition xy := (Z * Z)%type.
Definition xy_of (c : coord) : xy := (lon c, lat c).
Definition xy_eqb (a b : xy) : bool := (fst a =? fst b) && (snd a =? snd b).

Definition is_some {A} (o : option A) : bool := match o with Some _ => true | None => false end.

(* Coordinate.to_float() drops a falsy z; pyshp stores 0 for a point given without z in a Z layer *)
Definition zval (c : coord) : Z := match truthy_z (cz c) with Some v => v | None => 0 end.

Definition ring_has_z (r : ring) : bool := existsb (fun c => is_some (cz c)) r.

(* has_z per type: GeoPoint centroid.z; GeoLineString any vertex; GeoPolygon any OUTLINE vertex;
   multi-shapes any member.  Boxes and curved shapes are modelled without Z (domain of the
   correspondence). *)
Definition has_z (g : geom) : bool :=
  match g with
  | GPoint c => is_some (cz c)
  | GLine vs => ring_has_z vs
  | GPoly p => ring_has_z (outline p)
  | GMPoint cs => ring_has_z cs
  | GMLine ls => existsb ring_has_z ls
  | GMPoly ps => existsb (fun p => ring_has_z (outline p)) ps
  | _ => false
  end.

Inductive layer_kind := LPoint | LMultiPoint | LPolyline | LPolygon.

Definition layer_kind_eqb (a b : layer_kind) : bool :=
  match a, b with
  | LPoint, LPoint | LMultiPoint, LMultiPoint | LPolyline, LPolyline | LPolygon, LPolygon => true
  | _, _ => false
  end.

Definition layer_of (g : geom) : layer_kind :=
  match family_of g with
  | FPoints => LPoint | FMultipoints => LMultiPoint | FLines => LPolyline | FShapes => LPolygon
  end.

Section Emit.
Variable orc : oracle.

(* the `formatted` argument, with its 3-D coordinates.  Polygon-likes: EVERY linear ring
   reversed (`ring[::-1]`, "ESRI defines right hand rule as opposite of GeoJSON"); a
   MultiGeoPolygon flattens the rings of its members in order. *)
Definition esri_rings (g : geom) : list ring :=
  match g with
  | GPoint c => [[c]]
  | GMPoint cs => [cs]
  | GLine vs => [vs]
  | GMLine ls => ls
  | GMPoly ps => map (@rev coord) (flat_map linear_rings ps)
  | _ => map (@rev coord) (geom_rings orc None g)
  end.

(* the pyshp shape as written: parts of 2-D points, and the Z list in written order (Z layer only) *)
Record pshape := mkps { ps_kind : layer_kind; ps_parts : list (list xy); ps_z : option (list Z) }.

Definition zs_of (b : bool) (rs : list ring) : option (list Z) :=
  if b then Some (flat_map (map zval) rs) else None.

Definition to_pyshp (g : geom) : pshape :=
  let rs := esri_rings g in
  mkps (layer_of g) (map (map xy_of) rs) (zs_of (has_z g) rs).
End Emit.

(* ====================================================================================== *)
(* (c) pyshp's __geo_interface__ (CONTRACT, reference form) and the from_pyshp adapters    *)
(* ====================================================================================== *)

Inductive gi :=
| GiPoint (c : xy)
| GiMultiPoint (l : list xy)
| GiLineString (l : list xy)
| GiMultiLineString (ls : list (list xy))
| GiPolygon (rs : list (list xy))
| GiMultiPolygon (ps : list (list (list xy))).

(* doubled signed area of a 2-D ring (positive = counter-clockwise) *)
Definition c2 (p : xy) : coord := mkc (fst p) (snd p) None.
Definition area2xy (r : list xy) : Z := area2 (map c2 r).

(* pyshp is_cw: negatively signed area *)
Definition is_cw (r : list xy) : bool := area2xy r <? 0.

Definition flush (cur : option (list (list xy))) : list (list (list xy)) :=
  match cur with Some p => [p] | None => [] end.

(* ESRI's rule read sequentially: a clockwise ring opens a polygon, every following ring that
   is not clockwise is a hole of the polygon opened last (a hole before any exterior stands alone).
   pyshp groups holes by CONTAINMENT; on rings emitted for valid polygons (holes inside their
   shell, shells disjoint) both agree — that agreement is the contract the harness checks. *)
Fixpoint seq_group (rs : list (list xy)) (cur : option (list (list xy))) : list (list (list xy)) :=
  match rs with
  | [] => flush cur
  | r :: rs' =>
      if is_cw r then flush cur ++ seq_group rs' (Some [r])
      else match cur with
           | Some p => seq_group rs' (Some (p ++ [r]))
           | None => [r] :: seq_group rs' None
           end
  end.

Definition esri_gi (s : pshape) : gi :=
  match ps_kind s with
  | LPoint => GiPoint (hd (0, 0) (concat (ps_parts s)))
  | LMultiPoint => GiMultiPoint (concat (ps_parts s))
  | LPolyline => match ps_parts s with [l] => GiLineString l | ls => GiMultiLineString ls end
  | LPolygon => match seq_group (ps_parts s) None with [p] => GiPolygon p | ps => GiMultiPolygon ps end
  end.

Definition gi_eqb (a b : gi) : bool :=
  match a, b with
  | GiPoint c, GiPoint d => xy_eqb c d
  | GiMultiPoint u, GiMultiPoint v => list_eqb xy_eqb u v
  | GiLineString u, GiLineString v => list_eqb xy_eqb u v
  | GiMultiLineString u, GiMultiLineString v => list_eqb (list_eqb xy_eqb) u v
  | GiPolygon u, GiPolygon v => list_eqb (list_eqb xy_eqb) u v
  | GiMultiPolygon u, GiMultiPolygon v => list_eqb (list_eqb (list_eqb xy_eqb)) u v
  | _, _ => false
  end.

(* `z = shape.z if hasattr(shape, 'z') else None`, then `z.pop(0) if z else None` per vertex,
   in the traversal order of the geo-interface coordinates *)
Definition zstate := option (list Z).

Definition zpop (z : zstate) : option Z * zstate :=
  match z with
  | Some (v :: t) => (Some v, Some t)
  | _ => (None, z)
  end.

Fixpoint attach (l : list xy) (z : zstate) : ring * zstate :=
  match l with
  | [] => ([], z)
  | p :: l' =>
      let (v, z1) := zpop z in
      let (r, z2) := attach l' z1 in
      (mkc (fst p) (snd p) v :: r, z2)
  end.

Fixpoint attach2 (ls : list (list xy)) (z : zstate) : list ring * zstate :=
  match ls with
  | [] => ([], z)
  | l :: ls' =>
      let (r, z1) := attach l z in
      let (rs, z2) := attach2 ls' z1 in
      (r :: rs, z2)
  end.

Fixpoint attach3 (ps : list (list (list xy))) (z : zstate) : list (list ring) * zstate :=
  match ps with
  | [] => ([], z)
  | p :: ps' =>
      let (rs, z1) := attach2 p z in
      let (pss, z2) := attach3 ps' z1 in
      (rs :: pss, z2)
  end.

Section FromPyshp.
Variable half : Z.

(* GeoPolygon(rings[0], holes=[GeoPolygon(x) for x in rings[1:]]) — holes are built first *)
Definition assemble_poly (rings : list ring) : res polygon :=
  match rings with
  | [] => Err IndexError
  | shell :: hs =>
      match mapM (ctor_ring half) hs with
      | Err e => Err e
      | Ok holes => match ctor_ring half shell with
                    | Err e => Err e
                    | Ok o => Ok (mkpoly o holes)
                    end
      end
  end.

(* Type.from_pyshp(shape) with Type chosen by conv_map[shape.__geo_interface__['type']] *)
Definition from_pyshp (g : gi) (z : zstate) : res geom :=
  match g with
  | GiPoint p =>
      match z with
      | Some [] => Err IndexError                   (* shape.z[0] *)
      | Some (v :: _) => Ok (GPoint (mkc (fst p) (snd p) (Some v)))
      | None => Ok (GPoint (mkc (fst p) (snd p) None))
      end
  | GiMultiPoint l => Ok (GMPoint (fst (attach l z)))
  | GiLineString l => Ok (GLine (fst (attach l z)))
  | GiMultiLineString ls => Ok (GMLine (fst (attach2 ls z)))
  | GiPolygon rs =>
      match assemble_poly (fst (attach2 rs z)) with Ok p => Ok (GPoly p) | Err e => Err e end
  | GiMultiPolygon ps =>
      match mapM assemble_poly (fst (attach3 ps z)) with Ok l => Ok (GMPoly l) | Err e => Err e end
  end.
End FromPyshp.

(* ====================================================================================== *)
(* (d, e) records: field typing, _convert_dt, the DBF contract, _get_dt                     *)
(* ====================================================================================== *)

Inductive ftype := FL | FN | FC.

Definition ftype_eqb (a b : ftype) : bool :=
  match a, b with FL, FL | FN, FN | FC, FC => true | _, _ => false end.

(* the issubclass cascade on type(value): bool -> 'L'; int, float -> 'N' (declared with
   decimal = 0); everything else (str, datetime, None, ...) -> 'C' *)
Definition ftype_of (v : json) : ftype :=
  match v with
  | JBool _ => FL
  | JInt _ | JFloat _ => FN
  | _ => FC
  end.

(* _convert_dt: datetime -> isoformat() *)
Definition convert_dt (v : json) : json := match v with JDt t => JTime t | _ => v end.

Fixpoint take_str (n : nat) (s : string) : string :=
  match n, s with
  | S n', String c s' => String c (take_str n' s')
  | _, _ => EmptyString
  end.

(* CONTRACT (DBF): a field name is cut to 10 characters — that is where the reader's default
   column names 'datetime_s' / 'datetime_e' come from *)
Definition trunc10 (s : string) : string := take_str 10 s.

(* CONTRACT (DBF), reference form: what a value written into a field of the given type reads
   back as.  'N' fields are declared with decimal 0, so pyshp writes int(value): a float is
   truncated toward zero.  A missing value (None) reads back as '' in a 'C' field and as None in
   'N' / 'L' fields.  [scale]: a float is [JFloat z] = z / scale. *)
Definition dbf_cell_ref (scale : Z) (t : ftype) (v : option json) : json :=
  match t, v with
  | FC, Some (JStr s) => JStr s
  | FC, Some (JTime t) => JTime t
  | FC, _ => JStr ""
  | FN, Some (JInt n) => JInt n
  | FN, Some (JFloat q) => JInt (Z.quot q scale)
  | FN, _ => JNull
  | FL, Some (JBool b) => JBool b
  | FL, _ => JNull
  end.

Fixpoint mem_str (k : string) (l : list string) : bool :=
  match l with [] => false | a :: l' => String.eqb k a || mem_str k l' end.

(* keys of the members' `properties` (user properties + datetime_start / datetime_end when dt
   is set), each once.  The code collects them in a SET of (key, type) pairs, so the field order
   is an accident of hashing: the model takes the order as an argument wherever it matters. *)
Definition add_keys (acc : list string) (d : dict) : list string :=
  fold_left (fun a kv => if mem_str (fst kv) a then a else a ++ [fst kv]) d acc.

Definition group_keys (grp : list shape) : list string :=
  fold_left (fun a s => add_keys a (properties s)) grp [].

(* typemap[key] for keys of uniform type: the type of any member's value *)
Fixpoint group_type (grp : list shape) (k : string) : ftype :=
  match grp with
  | [] => FC
  | s :: grp' => match jget k (properties s) with Some v => ftype_of v | None => group_type grp' k end
  end.

Section Records.
(* the DBF codec: field-name mapping and per-cell behaviour *)
Variable dbf_name : string -> string.
Variable dbf_cell : ftype -> option json -> json.

(* writer.record( *[_convert_dt(props.get(k)) for k in typemap], idx) as read back by
   record.as_dict(): one entry per declared field, then 'ID' *)
Definition shp_record (keys : list string) (ty : string -> ftype) (s : shape) (idx : Z) : dict :=
  map (fun k => (dbf_name k, dbf_cell (ty k) (option_map convert_dt (jget k (properties s))))) keys
  ++ [("ID", JInt idx)].
End Records.

(* from_shapefile._get_dt: `rec.get(f) or None`, fromisoformat, then
   `if not (s and e) or s == e: return s or e` (a datetime; BaseShape makes it the instant) *)
Definition shp_get_dt (fs fe : string) (rec : dict) : res (option (Z * Z)) :=
  match conv (jget fs rec) with
  | Err e => Err e
  | Ok s =>
      match conv (jget fe rec) with
      | Err e => Err e
      | Ok e =>
          match s, e with
          | None, None => Ok None
          | Some a, None => Ok (Some (a, a))
          | None, Some b => Ok (Some (b, b))
          | Some a, Some b =>
              if a =? b then Ok (Some (a, a))
              else if b <? a then Err ValueError else Ok (Some (a, b))
          end
      end
  end.

Definition is_time_col (fs fe k : string) : bool := String.eqb k fs || String.eqb k fe.

(* one (shape, record) pair of from_shapefile *)
Definition shp_read_shape (half : Z) (g : gi) (z : zstate) (rec : dict) : res shape :=
  match shp_get_dt "datetime_s" "datetime_e" rec with
  | Err e => Err e
  | Ok dt =>
      let props := filter (fun kv => negb (is_time_col "datetime_s" "datetime_e" (fst kv))) rec in
      match from_pyshp half g z with
      | Err e => Err e
      | Ok gm => Ok (mkshape gm dt props)
      end
  end.

(* ====================================================================================== *)
(* (f) GeoPandas                                                                           *)
(* ====================================================================================== *)

(* a cell of df.to_dict('records') *)
Inductive pcell :=
| PNone                 (* None (object column) *)
| PNaN                  (* float nan: a missing value in a numeric or string column *)
| PNaT                  (* missing value of a datetime column *)
| PDt (t : Z)           (* pandas.Timestamp, a datetime instance *)
| PV (v : json).        (* any other Python value *)

Definition pcell_eqb (a b : pcell) : bool :=
  match a, b with
  | PNone, PNone | PNaN, PNaN | PNaT, PNaT => true
  | PDt x, PDt y => x =? y
  | PV x, PV y => json_eqb x y
  | _, _ => false
  end.

Definition prow := list (string * pcell).

Fixpoint pget (k : string) (d : prow) : option pcell :=
  match d with
  | [] => None
  | (k', v) :: d' => if String.eqb k k' then Some v else pget k d'
  end.

(* to_geopandas: one row per shape, {key: x.properties.get(key) for key in keys} *)
Definition gpd_row (keys : list string) (s : shape) : list (string * option json) :=
  map (fun k => (k, jget k (properties s))) keys.

(* CONTRACT (pandas), reference form, per cell given whether the column holds datetimes,
   whether it has a missing entry and whether it is numeric *)
Inductive colkind := CKDt | CKNum (has_missing : bool) | CKObj | CKStr.

Definition pd_cell_ref (scale : Z) (ck : colkind) (v : option json) : pcell :=
  match ck, v with
  | CKDt, Some (JDt t) => PDt t
  | CKDt, _ => PNaT
  | CKNum true, Some (JInt n) => PV (JFloat (n * scale))      (* int column with a hole: float64 *)
  | CKNum _, Some x => PV x
  | CKNum _, None => PNaN
  | CKStr, Some x => PV x
  | CKStr, None => PNaN
  | CKObj, Some x => PV x
  | CKObj, None => PNone
  end.

(* the row of shape s as df.to_dict('records') returns it, for a pandas codec [pd_cell] that
   may depend on the column *)
Definition gpd_record (pd_cell : string -> option json -> pcell) (keys : list string) (s : shape) : prow :=
  map (fun kv => (fst kv, pd_cell (fst kv) (snd kv))) (gpd_row keys s).

Definition is_pdt (o : option pcell) : bool := match o with Some (PDt _) => true | _ => false end.

(* from_geopandas._get_dt.  Only the combinations to_geopandas can produce are modelled
   precisely (both cells Timestamps, or neither); one Timestamp next to a missing cell is
   `s or e` when the other cell is None / absent, and a TypeError from TimeInterval otherwise *)
Definition gpd_get_dt (fs fe : string) (rec : prow) : res (option (Z * Z)) :=
  let s := pget fs rec in let e := pget fe rec in
  if negb (is_pdt s || is_pdt e) then Ok None
  else match s, e with
       | Some (PDt a), Some (PDt b) =>
           if a =? b then Ok (Some (a, a)) else if b <? a then Err ValueError else Ok (Some (a, b))
       | Some (PDt a), (None | Some PNone) => Ok (Some (a, a))
       | (None | Some PNone), Some (PDt b) => Ok (Some (b, b))
       | _, _ => Err TypeError
       end.

Definition gpd_props (fs fe : string) (rec : prow) : prow :=
  filter (fun kv => negb (is_time_col fs fe (fst kv) || String.eqb (fst kv) "geometry")) rec.

(* one record of from_geopandas: dt, then conv_map[geom_type].from_wkt(shapely's wkt) *)
Record gshape := mkgshape { gs_geom : geom; gs_dt : option (Z * Z); gs_props : prow }.

Definition gpd_read_shape (half : Z) (w : wkt) (rec : prow) : res gshape :=
  match w_tag w with
  | None => Err ValueError
  | Some t =>
      match gpd_get_dt "datetime_start" "datetime_end" rec with
      | Err e => Err e
      | Ok dt =>
          match WktM.read half t w with
          | Err e => Err e
          | Ok g => Ok (mkgshape g dt (gpd_props "datetime_start" "datetime_end" rec))
          end
      end
  end.

(* what Shapely 2 writes for a multipoint: every point in its own parentheses *)
Definition shapely_multipoint (cs : list coord) : wkt :=
  mkwkt (Some TMPoint) true [] (W2 (map (fun c => [tuple_of c]) cs)).

(* ====================================================================================== *)
(* (g) KML                                                                                  *)
(* ====================================================================================== *)

Inductive ktime := KStamp (t : Z) | KSpan (a b : Z).

Definition ktime_eqb (x y : ktime) : bool :=
  match x, y with
  | KStamp a, KStamp b => a =? b
  | KSpan a b, KSpan c d => (a =? c) && (b =? d)
  | _, _ => false
  end.

(* TimeInterval._to_fastkml *)
Definition to_fastkml_time (d : Z * Z) : ktime :=
  if fst d =? snd d then KStamp (fst d) else KSpan (fst d) (snd d).

(* TimeInterval._from_fastkml (the TimeInterval constructor rejects end < start) *)
Definition from_fastkml_time (k : ktime) : res (Z * Z) :=
  match k with
  | KStamp t => Ok (t, t)
  | KSpan a b => if b <? a then Err ValueError else Ok (a, b)
  end.

(* Data(name=k, value=v): fastkml's clean_string is `value.strip() or None if value else None`:
   a falsy value becomes None, a string is stripped (identity on the clean strings of the
   contract), any other truthy value has no .strip -> AttributeError *)
Definition kml_value (v : json) : res json :=
  if falsy v then Ok JNull
  else match v with
       | JStr s => Ok (JStr s)
       | _ => Err OtherError
       end.

(* ExtendedData(elements=[Data(name=k, value=v) ...]): an element whose value became None is
   falsy and fastkml drops it from the element list *)
Fixpoint kml_data (p : dict) : res dict :=
  match p with
  | [] => Ok []
  | (k, v) :: p' =>
      match kml_value v with
      | Err e => Err e
      | Ok JNull => kml_data p'
      | Ok w => match kml_data p' with Ok d => Ok ((k, w) :: d) | Err e => Err e end
      end
  end.

Record placemark := mkpm { pm_geo : json; pm_times : option ktime; pm_data : dict }.

Section Kml.
Variable orc : oracle.

(* shape.to_fastkml_placemark(): geometry through __geo_interface__, ExtendedData from
   _properties (NOT properties: no datetime_* keys), times from dt *)
Definition to_placemark (s : shape) : res placemark :=
  match kml_data (sprops s) with
  | Err e => Err e
  | Ok d => Ok (mkpm (geometry orc None (sgeom s)) (option_map to_fastkml_time (sdt s)) d)
  end.
End Kml.

Definition kind_of_name (t : string) : option skind :=
  match parser_of t with
  | Some (PShapeK k) => Some k
  | _ => None
  end.

(* parse_fastkml on one Placemark inside Folder `folder` (depth 0):
   from_fastkml_placemark = times -> dt, extended data -> props, from_geojson(geo interface),
   set_dt, _properties = props; then `props = shape._properties or {}; props.update(_props)`:
   the folder name is injected only when the shape already has a property *)
Definition kml_read_placemark (half : Z) (folder : string) (pm : placemark) : res shape :=
  match pm_geo pm with
  | JObj doc =>
      match jget "type" doc with
      | Some (JStr t) =>
          match kind_of_name t with
          | None => Err KeyError
          | Some kd =>
              match (match pm_times pm with
                     | None => Ok None
                     | Some k => match from_fastkml_time k with Ok d => Ok (Some d) | Err e => Err e end
                     end) with
              | Err e => Err e
              | Ok dt =>
                  match from_geojson half kd (pm_geo pm) with
                  | Err e => Err e
                  | Ok (s, _) =>
                      let props := pm_data pm in
                      Ok (mkshape (sgeom s) dt
                            (match props with
                             | [] => []
                             | _ => dset "sub_folder_0" (JStr folder) props
                             end))
                  end
              end
          end
      | _ => Err KeyError
      end
  | _ => Err TypeError
  end.

(* to_fastkml_folder / from_fastkml_folder: placemarks in collection order *)
Definition to_folder (orc : oracle) (l : list shape) : res (list placemark) := mapM (to_placemark orc) l.
Definition from_folder (half : Z) (folder : string) (l : list placemark) : res (list shape) :=
  mapM (kml_read_placemark half folder) l.
