(* Executable model of the mutable state of a geostructures shape (property C16): the public
   attributes (dt, _properties, holes), the per-instance caches (cached_property bounds / centroid /
   area, the lru_cache of to_shapely) and the operations that read or update them, after repair
   D17 (GeoRing.to_polygon builds a new hole list; volume is a plain property) and D32
   (GeoRing.to_polygon deep-copies _properties).  No proofs here.

   Geometry is immutable through the public API; everything computed from it (bounds, centroid,
   area, the Shapely object, the geometry part of GeoJSON / WKT, the polygonised outline) is an
   abstract function of (kind, geometry, holes): Section variables.  The theorems hold for every
   such function; the correspondence compares the abstract state (dt, properties, hole count, which
   caches are filled, returned object) with the implementation and takes geometry-valued
   observations from a freshly constructed implementation object.
   Anchors: _base.py 132-151 (properties), 192-216 (buffer_dt), 337-395 (set_dt, set_property,
   strip_dt), 499 (lru_cache), 608-623 (volume); structures.py 68-73 (area), 325-350, 836, 953,
   1202, 1389-1397 (cached bounds / centroid), 643, 787, 883, 1117, 1322, 1592 (to_polygon). *)
From GV Require Import Prelude.
Open Scope Z_scope.

Inductive kind := KPolygon | KBox | KCircle | KEllipse | KRing | KWedge | KLine | KPoint
                | KMPoint | KMLine | KMPoly.
Definition dtv := option (Z * Z).                 (* None | TimeInterval(start, end), microseconds *)
Definition pdict := list (Z * Z).                 (* _properties: insertion-ordered key -> value *)

Inductive rd := RBounds | RCentroid | RArea | RVolume | RProps | RGeoJson | RWkt | RShapely
              | RDt | RHoles
              (* reads called WITH their documented arguments *)
              | RGeoJsonArgs (extra : pdict)      (* to_geojson(properties={...}, k=...) *)
              | RWktK                             (* to_wkt(k=...) *)
              | RCoordsK                          (* bounding_coords(k=...) *)
              | RRingsK.                          (* linear_rings(k=...) *)
Inductive op :=
| Read (r : rd)
| ToPolygon
| SetDt (d : dtv) (ip : bool)
| BufferDt (delta : Z) (ip : bool)
| StripDt (ip : bool)
| SetProp (k v : Z) (ip : bool).

(* which class caches what *)
Definition caches_bounds (k : kind) : bool :=
  match k with KPolygon | KCircle | KEllipse | KRing | KWedge | KLine => true | _ => false end.
Definition caches_centroid (k : kind) : bool :=
  match k with KPolygon | KLine | KMPoint | KMLine | KMPoly => true | _ => false end.
(* PolygonBase: has holes, a cached area, to_polygon *)
Definition is_area (k : kind) : bool :=
  match k with KPolygon | KBox | KCircle | KEllipse | KRing | KWedge => true | _ => false end.
(* PolygonLikeMixin: area and volume exist *)
Definition has_volume (k : kind) : bool := is_area k || match k with KMPoly => true | _ => false end.
Definition has_to_polygon (k : kind) : bool := is_area k || match k with KLine => true | _ => false end.

(* dict[key] = value: replace in place, or append *)
Fixpoint set_assoc (k v : Z) (p : pdict) : pdict :=
  match p with
  | [] => [(k, v)]
  | (k', v') :: t => if k' =? k then (k, v) :: t else (k', v') :: set_assoc k v t
  end.

Section State.
  Variables G B C A S J W : Type.
  Variable bounds_of : kind -> G -> B.
  Variable centroid_of : kind -> G -> C.
  Variable area_of : kind -> G -> list G -> A.
  Variable shapely_of : kind -> G -> list G -> S.
  Variable gj_of : kind -> G -> list G -> J.
  Variable wkt_of : kind -> G -> list G -> W.
  Variable poly_geom : kind -> G -> G.                     (* outline drawn by to_polygon *)
  Variable poly_holes : kind -> G -> list G -> list G.     (* holes of to_polygon's result *)

  Record st := mkst {
    kd : kind; geom : G; holes : list G; dt : dtv; props : pdict;
    c_bounds : option B; c_centroid : option C; c_area : option A; c_shapely : option S }.

  Inductive obsv :=
  | OBounds (b : B) | OCentroid (c : C) | OArea (a : A)
  | OVolume (v : option (A * Z))                 (* None: 0.0; Some (a, us): a * elapsed *)
  | OProps (p : pdict) (d : dtv)                 (* _properties.copy() + datetime_start / _end if dt *)
  | OGeoJson (j : J) (p : pdict) (d : dtv)
  | OWkt (w : W) | OShapely (s : S) | ODt (d : dtv) | OHoles (n : nat) | ONone.

  (* what an operation returns: the receiver itself, a new object, or not a shape *)
  Inductive ret := RSame | RNew (s : st) | RNoShape.

  Definition cached {X} (c : option X) (v : X) : X := match c with Some x => x | None => v end.

  Definition with_caches (s : st) cb cc ca cs : st :=
    mkst (kd s) (geom s) (holes s) (dt s) (props s) cb cc ca cs.
  Definition with_dt (s : st) (d : dtv) : st :=
    mkst (kd s) (geom s) (holes s) d (props s) (c_bounds s) (c_centroid s) (c_area s) (c_shapely s).
  Definition with_props (s : st) (p : pdict) : st :=
    mkst (kd s) (geom s) (holes s) (dt s) p (c_bounds s) (c_centroid s) (c_area s) (c_shapely s).

  (* a newly constructed object: no cache is filled *)
  Definition fresh_st (k : kind) (g : G) (hs : list G) (d : dtv) (p : pdict) : st :=
    mkst k g hs d p None None None None.
  (* copy(): constructor call on the same fields (holes list copied, dt.copy(), deepcopy(props)) *)
  Definition copy (s : st) : st := fresh_st (kd s) (geom s) (holes s) (dt s) (props s).

  (* the values the reads return, given what is cached *)
  Definition v_bounds (s : st) : B := cached (c_bounds s) (bounds_of (kd s) (geom s)).
  Definition v_centroid (s : st) : C := cached (c_centroid s) (centroid_of (kd s) (geom s)).
  Definition v_shapely (s : st) : S := cached (c_shapely s) (shapely_of (kd s) (geom s) (holes s)).
  (* PolygonBase.area: cached; computed from self.to_shapely().  MultiGeoPolygon.area: plain sum *)
  Definition v_area (s : st) : A := cached (c_area s) (area_of (kd s) (geom s) (holes s)).

  (* filling the caches *)
  Definition fill_bounds (s : st) : st :=
    if caches_bounds (kd s) then with_caches s (Some (v_bounds s)) (c_centroid s) (c_area s) (c_shapely s) else s.
  Definition fill_centroid (s : st) : st :=
    if caches_centroid (kd s) then with_caches s (c_bounds s) (Some (v_centroid s)) (c_area s) (c_shapely s) else s.
  Definition fill_shapely (s : st) : st :=
    with_caches s (c_bounds s) (c_centroid s) (c_area s) (Some (v_shapely s)).
  (* area of a PolygonBase: a hit returns the cached number; a miss calls to_shapely() (filling
     that cache) and stores the result.  MultiGeoPolygon.area touches only its members. *)
  Definition fill_area (s : st) : st :=
    if is_area (kd s) then
      match c_area s with
      | Some _ => s
      | None => with_caches s (c_bounds s) (c_centroid s) (Some (v_area s)) (Some (v_shapely s))
      end
    else s.

  Definition elapsed (d : Z * Z) : Z := snd d - fst d.

  Definition read (s : st) (r : rd) : st * res (ret * obsv) :=
    match r with
    | RBounds => (fill_bounds s, Ok (RNoShape, OBounds (v_bounds s)))
    | RCentroid => (fill_centroid s, Ok (RNoShape, OCentroid (v_centroid s)))
    | RArea => if has_volume (kd s) then (fill_area s, Ok (RNoShape, OArea (v_area s)))
               else (s, Err OtherError)                                   (* AttributeError *)
    | RVolume => if has_volume (kd s) then
                   match dt s with
                   | None => (s, Ok (RNoShape, OVolume None))
                   | Some d => (fill_area s, Ok (RNoShape, OVolume (Some (v_area s, elapsed d))))
                   end
                 else (s, Err OtherError)
    | RProps => (s, Ok (RNoShape, OProps (props s) (dt s)))
    | RGeoJson => (s, Ok (RNoShape, OGeoJson (gj_of (kd s) (geom s) (holes s)) (props s) (dt s)))
    | RWkt => (s, Ok (RNoShape, OWkt (wkt_of (kd s) (geom s) (holes s))))
    | RShapely => (fill_shapely s, Ok (RNoShape, OShapely (v_shapely s)))
    | RDt => (s, Ok (RNoShape, ODt (dt s)))
    | RHoles => (s, Ok (RNoShape, OHoles (length (holes s))))
    (* {**self._properties_json, **properties}: a NEW dict; neither the shape's _properties nor the
       caller's dict is written.  (The geometry part depends on k; like every geometry-valued answer
       it is compared with a fresh object's in the harness, not here.) *)
    | RGeoJsonArgs extra =>
        (s, Ok (RNoShape, OGeoJson (gj_of (kd s) (geom s) (holes s))
                                   (fold_left (fun p kv => set_assoc (fst kv) (snd kv) p) extra (props s)) (dt s)))
    | RWktK => (s, Ok (RNoShape, ONone))
    | RCoordsK | RRingsK =>                                   (* PolygonLikeMixin only *)
        if has_volume (kd s) then (s, Ok (RNoShape, ONone)) else (s, Err OtherError)
    end.

  (* to_polygon(): GeoPolygon returns self; box / circle / ellipse build GeoPolygon(coords,
     holes=self.holes, dt=self.dt) (no properties); a ring / wedge (after D32) and a linestring pass a
     deep copy of _properties.  dt is passed by reference: a TimeInterval has no in-place mutator,
     so it is a value here.  The receiver is not touched (after D17). *)
  Definition to_polygon (s : st) : st * res (ret * obsv) :=
    match kd s with
    | KPolygon => (s, Ok (RSame, ONone))
    | KBox | KCircle | KEllipse =>
        (s, Ok (RNew (fresh_st KPolygon (poly_geom (kd s) (geom s)) (poly_holes (kd s) (geom s) (holes s)) (dt s) []), ONone))
    | KRing | KWedge | KLine =>
        (s, Ok (RNew (fresh_st KPolygon (poly_geom (kd s) (geom s)) (poly_holes (kd s) (geom s) (holes s)) (dt s) (props s)), ONone))
    | _ => (s, Err OtherError)                                            (* AttributeError *)
    end.

  (* `shape = self if inplace else self.copy()`, then the update on [shape], which is returned *)
  Definition update (s : st) (ip : bool) (f : st -> st) : st * res (ret * obsv) :=
    if ip then (f s, Ok (RSame, ONone)) else (s, Ok (RNew (f (copy s)), ONone)).

  Definition step (s : st) (o : op) : st * res (ret * obsv) :=
    match o with
    | Read r => read s r
    | ToPolygon => to_polygon s
    | SetDt d ip => update s ip (fun x => with_dt x d)
    | BufferDt delta ip =>
        match dt s with
        | None => (s, Err ValueError)                       (* "GeoShape has no associated time information." *)
        | Some (a, b) =>
            if b + delta <? a - delta then (s, Err ValueError)   (* TimeInterval.__init__: end < start *)
            else update s ip (fun x => with_dt x (Some (a - delta, b + delta)))
        end
    | StripDt ip => update s ip (fun x => with_dt x None)
    | SetProp k v ip => update s ip (fun x => with_props x (set_assoc k v (props x)))
    end.

  Definition run (ops : list op) (s : st) : st := fold_left (fun x o => fst (step x o)) ops s.

  (* the observable (cache-free) part of a state *)
  Definition abs (s : st) : kind * G * list G * dtv * pdict := (kd s, geom s, holes s, dt s, props s).
  Definition fresh (a : kind * G * list G * dtv * pdict) : st :=
    match a with (k, g, hs, d, p) => fresh_st k g hs d p end.

  Definition ip_of (o : op) : option bool :=
    match o with
    | SetDt _ ip | BufferDt _ ip | StripDt ip | SetProp _ _ ip => Some ip
    | _ => None
    end.
  Definition force_ip (o : op) : op :=
    match o with
    | SetDt d _ => SetDt d true
    | BufferDt x _ => BufferDt x true
    | StripDt _ => StripDt true
    | SetProp k v _ => SetProp k v true
    | _ => o
    end.
End State.
