(* C02 -- executable model of [do_edges_intersect] (/repo/geostructures/_geometry.py), the
   sweep over latitude-sorted start/end events, parametric in the segment test
   [hit : seg -> seg -> bool] (instantiated with [GeomM.hit], i.e. "find_line_intersection
   returns something", in PairM.v; instantiated with a table of the implementation's own
   answers nowhere: the correspondence runs the instance with GeomM.hit).

   Types are spelled out so that this file does not depend on GeomM.v; they are convertible
   with GeomM.pt / GeomM.seg:  a point is (longitude, latitude), a segment a pair of points.

   What is mirrored, line by line:
     _create_events   : an edge whose first latitude is greater than its second is flipped
                        (the flipped tuple is what is stored in the event and later passed to
                        find_line_intersection); two events per edge,
                          _Event(lat0, lat0 <= lat1, edge, group), _Event(lat1, lat1 <= lat0, edge, group)
                        so a horizontal edge yields TWO start events and no end event
                        (it is never removed from the active set).
                        NB the attribute called `x` of _Event is the LATITUDE.
     _Event.__lt__    : (x, not is_start) < (other.x, not other.is_start)   [repair D2]
     events.sort()    : stable, uses only __lt__  ->  stable insertion sort [sort_events]
     _Event.__hash__/__eq__ : keyed by (segment, group) -> the active set is a duplicate-free
                        list of keys; [add] keeps the old element, [discard] removes it
     the loop         : end event -> discard (repair D3; with `remove` a missing key raised
                        KeyError); start event -> same-group shortcut, else test against every
                        active key of the other group (order irrelevant: the result is an `any`),
                        return True on the first hit, else add.
   The two repairs are switchable ([starts_first], [strict_remove]) so that the pre-repair
   behaviour can be refuted in Coq (PairP); the model proper is [sweep] = both repairs on.

   Not modelled: ensure_edge_bounds (identity unless two longitudes differ by more than 180;
   antimeridian-spanning shapes are outside the property). *)
From GV Require Import Prelude.
Open Scope Z_scope.

Definition p2 := (Z * Z)%type.            (* (longitude, latitude) *)
Definition sg := (p2 * p2)%type.

Definition lon (p : p2) : Z := fst p.
Definition lat (p : p2) : Z := snd p.

Definition p2_eqb (a b : p2) : bool := (fst a =? fst b) && (snd a =? snd b).
Definition sg_eqb (a b : sg) : bool := p2_eqb (fst a) (fst b) && p2_eqb (snd a) (snd b).

Inductive grp := GA | GB.
Definition grp_eqb (a b : grp) : bool :=
  match a, b with GA, GA | GB, GB => true | _, _ => false end.

Definition key := (sg * grp)%type.
Definition key_eqb (a b : key) : bool := sg_eqb (fst a) (fst b) && grp_eqb (snd a) (snd b).

Record event := mkev { ex : Z; estart : bool; eseg : sg; egrp : grp }.
Definition ekey (e : event) : key := (eseg e, egrp e).

Definition swap_sg (e : sg) : sg := (snd e, fst e).

(* latitude range of a segment (used in the statements about [hit]) *)
Definition lat_lo (e : sg) : Z := Z.min (lat (fst e)) (lat (snd e)).
Definition lat_hi (e : sg) : Z := Z.max (lat (fst e)) (lat (snd e)).

(* `if edge[0].latitude > edge[1].latitude: edge = (edge[1], edge[0])` *)
Definition norm_edge (e : sg) : sg :=
  if lat (fst e) >? lat (snd e) then swap_sg e else e.

Definition events_of_edge (g : grp) (e0 : sg) : list event :=
  let e := norm_edge e0 in
  [ mkev (lat (fst e)) (lat (fst e) <=? lat (snd e)) e g;
    mkev (lat (snd e)) (lat (snd e) <=? lat (fst e)) e g ].

Definition create_events (g : grp) (edges : list sg) : list event :=
  flat_map (events_of_edge g) edges.

(* _Event.__lt__ ; [starts_first = false] is the pre-D2 comparison `self.x < other.x` *)
Definition ev_lt (starts_first : bool) (a b : event) : bool :=
  (ex a <? ex b) ||
  (starts_first && (ex a =? ex b) && estart a && negb (estart b)).

(* list.sort(): stable; insertion from the right keeps equal elements in input order *)
Fixpoint insert_ev (sf : bool) (x : event) (l : list event) : list event :=
  match l with
  | [] => [x]
  | y :: l' => if ev_lt sf y x then y :: insert_ev sf x l' else x :: y :: l'
  end.
Definition sort_events (sf : bool) (l : list event) : list event :=
  fold_right (insert_ev sf) [] l.

(* the active set *)
Definition amem (k : key) (act : list key) : bool := existsb (key_eqb k) act.
Definition aadd (k : key) (act : list key) : list key := if amem k act then act else k :: act.
Definition adiscard (k : key) (act : list key) : list key :=
  filter (fun k' => negb (key_eqb k k')) act.

Section Sweep.
  Variable hit : sg -> sg -> bool.

  (* `len(set(x.group for x in [*active_events, event])) <= 1` *)
  Definition same_group (k : key) (act : list key) : bool :=
    forallb (fun k' => grp_eqb (snd k') (snd k)) act.

  (* the inner `for active_event in active_events` with its `continue` and `return True`;
     find_line_intersection(active_event.segment, event.segment): active one first *)
  Definition any_hit (k : key) (act : list key) : bool :=
    existsb (fun k' => negb (grp_eqb (snd k) (snd k')) && hit (fst k') (fst k)) act.

  Fixpoint sweep_loop (strict_remove : bool) (evs : list event) (act : list key) : res bool :=
    match evs with
    | [] => Ok false
    | e :: evs' =>
        let k := ekey e in
        if negb (estart e) then
          if strict_remove && negb (amem k act) then Err KeyError
          else sweep_loop strict_remove evs' (adiscard k act)
        else if same_group k act then sweep_loop strict_remove evs' (aadd k act)
        else if any_hit k act then Ok true
        else sweep_loop strict_remove evs' (aadd k act)
    end.

  Definition sweep_gen (starts_first strict_remove : bool) (ea eb : list sg) : res bool :=
    sweep_loop strict_remove
      (sort_events starts_first (create_events GA ea ++ create_events GB eb)) [].

  (* the repaired code *)
  Definition sweep (ea eb : list sg) : res bool := sweep_gen true false ea eb.

  (* the specification the sweep is proved equal to *)
  Definition brute (ea eb : list sg) : bool :=
    existsb (fun a => existsb (fun b => hit a b) eb) ea.
End Sweep.
