(* Executable model of geostructures/time.py (TimeInterval), after the D7 repair.
   A datetime is its UTC instant in microseconds (Z): Python compares, equates and hashes
   aware datetimes by exactly that number, and naive datetimes are read as UTC
   (TimeInterval._default_to_zulu).  No proofs in this file. *)
From GV Require Import Prelude.

Record iv := mkiv { st : Z; en : Z }.

Definition iv_eqb (a b : iv) : bool := (st a =? st b) && (en a =? en b).

(* TimeInterval.__init__ with a datetime end: raises ValueError when end < start *)
Definition mk (s e : Z) : res iv :=
  if e <? s then Err ValueError else Ok (mkiv s e).

(* TimeInterval.__init__ with a timedelta end *)
Definition mk_delta (s d : Z) : res iv := mk s (s + d).

Definition is_instant (i : iv) : bool := st i =? en i.

(* TimeInterval.__contains__(datetime) *)
Definition contains_dt (i : iv) (t : Z) : bool :=
  if is_instant i then st i =? t
  else (st i <=? t) && (t <? en i).

Definition issubset (a b : iv) : bool :=
  if is_instant a then contains_dt b (st a)
  else (st b <=? st a) && (en a <=? en b).

Definition issuperset (a b : iv) : bool := issubset b a.

(* TimeInterval.__contains__(TimeInterval) *)
Definition contains_iv (a b : iv) : bool := issuperset a b.

Definition isdisjoint (a b : iv) : bool :=
  if is_instant a then negb (contains_dt b (st a))
  else if is_instant b then negb (contains_dt a (st b))
  else (en a <=? st b) || (en b <=? st a).

(* TimeInterval.intersects(TimeInterval) / (datetime) *)
Definition intersects (a b : iv) : bool := negb (isdisjoint b a).
Definition intersects_dt (a : iv) (t : Z) : bool := contains_dt a t.

(* None when disjoint; otherwise the constructor is called (and could raise) *)
Definition intersection (a b : iv) : res (option iv) :=
  if isdisjoint a b then Ok None
  else match mk (Z.max (st a) (st b)) (Z.min (en a) (en b)) with
       | Ok c => Ok (Some c)
       | Err e => Err e
       end.

Definition union (a b : iv) : res iv :=
  mk (Z.min (st a) (st b)) (Z.max (en a) (en b)).

(* the tuple that __hash__ hashes *)
Definition hkey (a : iv) : Z * Z := (st a, en a).

Definition wf (i : iv) : Prop := st i <= en i.
Definition wfb (i : iv) : bool := st i <=? en i.
