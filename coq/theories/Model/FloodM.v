(* Executable model of NiemeyerHasher (geostructures/geohash.py):
     _hash_linestring / _hash_polygon  : the valid/checked/queue flood fill
     _hash_point, the Multi* branches  : union of the members' sets
     hash_collection / hash_coordinates: insertion-ordered group-by + aggregation
     _get_surrounding                  : the 8 neighbours through the C11 codec model.
   The flood fill and the group-by are generic (Section variables): cells, their equality, the
   neighbour function, the per-cell test [touch] (= niemeyer_to_geobox(cell).intersects_shape(shape),
   delegated to the geometry code and NOT modelled here) and the order in which [set.pop()]
   hands out queue elements.  Python sets/dicts are duplicate-free lists in insertion order.
   No proofs in this file. *)
From Coq Require Import QArith.
From GV Require Import Prelude GeohashM.
Open Scope Z_scope.

Section Flood.
  Variable cell : Type.
  Variable ceqb : cell -> cell -> bool.
  Variable nbr : cell -> list cell.          (* self._get_surrounding(gh, base) *)
  Variable touch : cell -> bool.             (* niemeyer_to_geobox(gh).intersects_shape(shape) *)
  Variable pop : list cell -> option (cell * list cell).   (* queue.pop(): any element *)

  Definition cmem (x : cell) (l : list cell) : bool := existsb (ceqb x) l.
  Definition cadd (x : cell) (l : list cell) : list cell := if cmem x l then l else l ++ [x].

  (* (valid, checked, queue) *)
  Definition fstate := (list cell * list cell * list cell)%type.

  (* for near_gh in surrounding: if near_gh in checked: continue; checked.add(near_gh);
     if touch: valid.add(near_gh); queue.add(near_gh) *)
  Fixpoint scan (ns : list cell) (st : fstate) : fstate :=
    match ns with
    | [] => st
    | n :: ns' =>
        let '(valid, checked, queue) := st in
        if cmem n checked then scan ns' st
        else if touch n then scan ns' (cadd n valid, n :: checked, cadd n queue)
        else scan ns' (valid, n :: checked, queue)
    end.

  (* while queue: gh = queue.pop(); ... ; None = out of fuel *)
  Fixpoint flood_loop (fuel : nat) (st : fstate) : option (list cell) :=
    match fuel with
    | O => None
    | S f =>
        let '(valid, checked, queue) := st in
        match pop queue with
        | None => Some valid
        | Some (gh, q) => flood_loop f (scan (nbr gh) (valid, checked, q))
        end
    end.

  (* valid.add(start); queue.add(start): the start cell is added without being tested *)
  Definition flood (start : cell) (fuel : nat) : option (list cell) :=
    flood_loop fuel ([start], [], [start]).

  (* {gh for member in geoshapes for gh in hash(member)} *)
  Definition cunion (a b : list cell) : list cell := fold_left (fun acc x => cadd x acc) b a.
  Definition hash_multi (hs : list (list cell)) : list cell := fold_left cunion hs [].
End Flood.

Section Group.
  Variable cell item val : Type.
  Variable ceqb : cell -> cell -> bool.
  Variable keys : item -> list cell.         (* self.hash_shape(shape): a set *)
  Variable agg : list item -> val.           (* agg_fn *)

  (* hash_dict[k].append(x) on a defaultdict(list) *)
  Fixpoint dict_append (d : list (cell * list item)) (k : cell) (x : item) : list (cell * list item) :=
    match d with
    | [] => [(k, [x])]
    | (k', l) :: d' => if ceqb k k' then (k', l ++ [x]) :: d' else (k', l) :: dict_append d' k x
    end.

  Definition group (xs : list item) : list (cell * list item) :=
    fold_left (fun d x => fold_left (fun d k => dict_append d k x) (keys x) d) xs [].

  (* {h: agg_fn(lst) for h, lst in hash_dict.items()} *)
  Definition hash_collection (xs : list item) : list (cell * val) :=
    map (fun kl => (fst kl, agg (snd kl))) (group xs).

  Fixpoint dfind {V} (c : cell) (d : list (cell * V)) : option V :=
    match d with
    | [] => None
    | (k, v) :: d' => if ceqb c k then Some v else dfind c d'
    end.
End Group.
Arguments dfind {cell} ceqb {V} c d.

(* ------------------------------------------------------------------ the Niemeyer instance *)
Definition str_eqb : list Z -> list Z -> bool := list_eqb Z.eqb.

Definition pop_head {A} (q : list A) : option (A * list A) :=
  match q with [] => None | x :: q' => Some (x, q') end.

Open Scope Q_scope.
(* NiemeyerHasher._get_surrounding: from directly above, then clockwise; every probe point goes
   through Coordinate(...) and is re-encoded at the same length.  [] when the cell does not decode. *)
Definition get_surrounding (c : cfg) (gh : list Z) : list (list Z) :=
  match decode c gh with
  | Err _ => []
  | Ok (lon, lat, elon, elat) =>
      let n := length gh in
      let e (x y : Q) := encode c (coordinate x y) n in
      [ e lon (lat + elat * 2);
        e (lon + elon * 2) (lat + elat * 2);
        e (lon + elon * 2) lat;
        e (lon + elon * 2) (lat - elat * 2);
        e lon (lat - elat * 2);
        e (lon - elon * 2) (lat - elat * 2);
        e (lon - elon * 2) lat;
        e (lon - elon * 2) (lat + elat * 2) ]
  end.
Close Scope Q_scope.

(* _hash_polygon / _hash_linestring of a single shape: [start] is bounding_coords()[0] resp.
   vertices[0] (an already normalised Coordinate); [touch] is the implementation's per-cell test *)
Definition niemeyer_flood (c : cfg) (len : nat) (start : Q * Q) (touch : list Z -> bool) (fuel : nat)
  : option (list (list Z)) :=
  flood (list Z) str_eqb (get_surrounding c) touch pop_head (encode c start len) fuel.

(* _hash_point of a single point *)
Definition niemeyer_point (c : cfg) (len : nat) (p : Q * Q) : list (list Z) := [encode c p len].

(* hash_coordinates: group the coordinates by their cell *)
Definition niemeyer_hash_coordinates {val} (c : cfg) (len : nat) (agg : list (Q * Q) -> val)
  (pts : list (Q * Q)) : list (list Z * val) :=
  hash_collection (list Z) (Q * Q) val str_eqb (fun p => niemeyer_point c len p) agg pts.
