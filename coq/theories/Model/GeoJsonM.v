(* Executable model of the GeoJSON path of geostructures (C14): BaseShapeProtocol.properties /
   _properties_json / to_geojson (_base.py), sanitize_json and get_dt_from_geojson_props
   (utils/functions.py), to_geo_interface and from_geojson of every simple type
   (structures.py, multistructures.py), FeatureCollection.to_geojson / from_geojson
   (collections.py) and parsers.parse_geojson.  Follows the code after repair D15; the
   pre-repair aliasing is kept as [copy_props := false] for contrast.  No proofs here.

   A JSON document is a value of [json]; Python dicts are association lists in insertion
   order (keys distinct).  Datetimes: [JDt t] is a Python datetime object with UTC instant t
   (microseconds), [JTime t] is its isoformat() text; datetime.isoformat / fromisoformat are
   trusted to be inverse on these (stdlib, observed by the harness). *)
From Coq Require Import String Ascii.
From GV Require Import Prelude RingM.
Open Scope string_scope.
Open Scope Z_scope.

Inductive json :=
| JNull
| JBool (b : bool)
| JInt (n : Z)            (* a Python int *)
| JFloat (z : Z)          (* a Python float, value z/S in the units of RingM *)
| JStr (s : string)
| JTime (t : Z)           (* the ISO-8601 text of instant t *)
| JDt (t : Z)             (* a datetime object (not JSON); removed by sanitize_json *)
| JArr (l : list json)
| JObj (l : list (string * json)).

Definition dict := list (string * json).

Fixpoint json_eqb (a b : json) : bool :=
  match a, b with
  | JNull, JNull => true
  | JBool x, JBool y => Bool.eqb x y
  | JInt x, JInt y => x =? y
  | JFloat x, JFloat y => x =? y
  | JStr x, JStr y => String.eqb x y
  | JTime x, JTime y => x =? y
  | JDt x, JDt y => x =? y
  | JArr x, JArr y =>
      (fix go (x y : list json) : bool :=
         match x, y with
         | [], [] => true
         | a :: x', b :: y' => json_eqb a b && go x' y'
         | _, _ => false
         end) x y
  | JObj x, JObj y =>
      (fix go (x y : list (string * json)) : bool :=
         match x, y with
         | [], [] => true
         | (k, a) :: x', (k', b) :: y' => String.eqb k k' && json_eqb a b && go x' y'
         | _, _ => false
         end) x y
  | _, _ => false
  end.

Definition dict_eqb (a b : dict) : bool := json_eqb (JObj a) (JObj b).

(* ---------- dict operations ---------- *)

Fixpoint jget (k : string) (d : dict) : option json :=
  match d with
  | [] => None
  | (k', v) :: d' => if String.eqb k k' then Some v else jget k d'
  end.

Definition has_key (k : string) (d : dict) : bool :=
  match jget k d with Some _ => true | None => false end.

(* d[k] = v : replace in place, or append *)
Fixpoint dset (k : string) (v : json) (d : dict) : dict :=
  match d with
  | [] => [(k, v)]
  | (k', v') :: d' => if String.eqb k k' then (k', v) :: d' else (k', v') :: dset k v d'
  end.

(* {**a, **b} *)
Definition dmerge (a b : dict) : dict :=
  fold_left (fun acc kv => dset (fst kv) (snd kv) acc) b a.

(* d.pop(k, None) : the dictionary afterwards *)
Fixpoint dpop (k : string) (d : dict) : dict :=
  match d with
  | [] => []
  | (k', v) :: d' => if String.eqb k k' then d' else (k', v) :: dpop k d'
  end.

(* ---------- export ---------- *)

Fixpoint sanitize (j : json) : json :=
  match j with
  | JArr l => JArr (map sanitize l)
  | JObj l => JObj (map (fun kv => (fst kv, sanitize (snd kv))) l)
  | JDt t => JTime t
  | _ => j
  end.

Definition sanitize_dict (d : dict) : dict := map (fun kv => (fst kv, sanitize (snd kv))) d.

Record shape := mkshape { sgeom : geom; sdt : option (Z * Z); sprops : dict }.

(* BaseShapeProtocol.properties *)
Definition properties (s : shape) : dict :=
  match sdt s with
  | Some (a, b) => dset "datetime_end" (JDt b) (dset "datetime_start" (JDt a) (sprops s))
  | None => sprops s
  end.

(* Coordinate.to_float as a GeoJSON position: z only when truthy (finding D14: z = 0 dropped) *)
Definition position (c : coord) : json :=
  JArr (JFloat (lon c) :: JFloat (lat c) ::
        match truthy_z (cz c) with Some z => [JFloat z] | None => [] end).

Definition jring (r : ring) : json := JArr (map position r).

Definition geom_type (g : geom) : string :=
  match g with
  | GPoint _ => "Point"
  | GLine _ => "LineString"
  | GMPoint _ => "MultiPoint"
  | GMLine _ => "MultiLineString"
  | GMPoly _ => "MultiPolygon"
  | _ => "Polygon"
  end.

Section Export.
Variable orc : oracle.

(* to_geo_interface(k=k, include_bbox=None) *)
Definition geometry (k : option Z) (g : geom) : json :=
  JObj [("type", JStr (geom_type g));
        ("coordinates",
          match g with
          | GPoint c => position c
          | GLine vs => jring vs
          | GMPoint cs => jring cs
          | GMLine ls => JArr (map jring ls)
          | GMPoly ps => JArr (map (fun p => JArr (map jring (linear_rings p))) ps)
          | _ => JArr (map jring (geom_rings orc k g))
          end)].

(* shape.to_geojson(properties=ups, k=k, **kw) *)
Definition to_geojson (s : shape) (ups : option dict) (k : option Z) (kw : dict) : json :=
  JObj (dmerge
    [("type", JStr "Feature");
     ("geometry", geometry k (sgeom s));
     ("properties", JObj (dmerge (sanitize_dict (properties s))
                                 (match ups with Some u => u | None => [] end)))]
    kw).

(* collection.to_geojson(properties=ups, k=k) : id = position in the collection *)
Fixpoint features_from (i : Z) (l : list shape) (ups : option dict) (k : option Z) : list json :=
  match l with
  | [] => []
  | s :: l' => to_geojson s ups k [("id", JInt i)] :: features_from (i + 1) l' ups k
  end.

Definition fc_to_geojson (l : list shape) (ups : option dict) (k : option Z) : json :=
  JObj [("type", JStr "FeatureCollection"); ("features", JArr (features_from 0 l ups k))].
End Export.

(* ---------- import ---------- *)

(* Python truthiness of a JSON value *)
Definition falsy (j : json) : bool :=
  match j with
  | JNull => true
  | JBool b => negb b
  | JInt n => n =? 0
  | JFloat n => n =? 0
  | JStr s => match s with EmptyString => true | _ => false end
  | JArr [] => true
  | JObj [] => true
  | _ => false
  end.

(* _convert: falsy -> None; iso text -> datetime; other text -> ValueError; non-text -> TypeError *)
Definition conv (o : option json) : res (option Z) :=
  match o with
  | None => Ok None
  | Some j =>
      if falsy j then Ok None
      else match j with
           | JTime t => Ok (Some t)
           | JStr _ => Err ValueError
           | _ => Err TypeError
           end
  end.

(* get_dt_from_geojson_props(rec): the dt AND the dictionary after the two pops.  A single
   datetime becomes the instant (t, t) in BaseShape.__init__; TimeInterval raises when
   end < start. *)
Definition get_dt (rec : dict) : res (option (Z * Z) * dict) :=
  match conv (jget "datetime_start" rec) with
  | Err e => Err e
  | Ok s =>
      let rec1 := dpop "datetime_start" rec in
      match conv (jget "datetime_end" rec1) with
      | Err e => Err e
      | Ok e =>
          let rec2 := dpop "datetime_end" rec1 in
          match s, e with
          | None, None => Ok (None, rec2)
          | Some a, None => Ok (Some (a, a), rec2)
          | None, Some b => Ok (Some (b, b), rec2)
          | Some a, Some b => if b <? a then Err ValueError else Ok (Some (a, b), rec2)
          end
      end
  end.

Fixpoint mapM {A B} (f : A -> res B) (l : list A) : res (list B) :=
  match l with
  | [] => Ok []
  | a :: l' =>
      match f a with
      | Err e => Err e
      | Ok b => match mapM f l' with Err e => Err e | Ok bs => Ok (b :: bs) end
      end
  end.

Section Import.
Variable half : Z.

Definition num_of (j : json) : option Z :=
  match j with
  | JFloat z => Some z
  | JInt n => Some (n * (half / 180))
  | _ => None
  end.

(* Coordinate( ** dict(zip(('longitude','latitude','z'), x))) *)
Definition parse_pos (j : json) : res coord :=
  match j with
  | JArr (a :: b :: rest) =>
      match num_of a, num_of b with
      | Some x, Some y =>
          match rest with
          | [] => Ok (mkc x y None)
          | JNull :: _ => Ok (mkc x y None)
          | z :: _ => match num_of z with
                      | Some v => Ok (mkc x y (Some v))
                      | None => Err TypeError
                      end
          end
      | _, _ => Err TypeError
      end
  | _ => Err TypeError
  end.

Definition parse_ring (j : json) : res ring :=
  match j with JArr l => mapM parse_pos l | _ => Err TypeError end.

Definition parse_rings (j : json) : res (list ring) :=
  match j with JArr l => mapM parse_ring l | _ => Err TypeError end.

(* GeoPolygon(ring): outline[0] raises IndexError on an empty list *)
Definition ctor_ring (r : ring) : res ring :=
  match r with [] => Err IndexError | _ => Ok (norm_ring half false r) end.

Inductive skind := KPoint | KLine | KPoly | KMPoint | KMLine | KMPoly.

Definition kind_name (k : skind) : string :=
  match k with
  | KPoint => "Point" | KLine => "LineString" | KPoly => "Polygon"
  | KMPoint => "MultiPoint" | KMLine => "MultiLineString" | KMPoly => "MultiPolygon"
  end.

(* geom = gjson if 'coordinates' in gjson else gjson.get('geometry', {}) *)
Definition geom_member (doc : dict) : res dict :=
  if has_key "coordinates" doc then Ok doc
  else match jget "geometry" doc with
       | None => Ok []
       | Some (JObj g) => Ok g
       | Some _ => Err OtherError
       end.

Definition coords_or_empty (g : dict) : json :=
  match jget "coordinates" g with Some c => c | None => JArr [] end.

(* one polygon of a MultiPolygon: shell = rings[0]; holes = GeoPolygon(reversed(ring)) *)
Definition mpoly_member (j : json) : res polygon :=
  match parse_rings j with
  | Err e => Err e
  | Ok [] => Err IndexError
  | Ok (shell :: hs) =>
      match mapM (fun h => ctor_ring (rev h)) hs with
      | Err e => Err e
      | Ok holes => match ctor_ring shell with
                    | Err e => Err e
                    | Ok o => Ok (mkpoly o holes)
                    end
      end
  end.

(* the part of from_geojson before the properties are read: everything that can raise there *)
Definition pre_geom (k : skind) (g : dict) : res geom :=
  match k with
  | KPoint =>
      match jget "coordinates" g with
      | None => Err KeyError
      | Some c => match parse_pos c with Ok p => Ok (GPoint p) | Err e => Err e end
      end
  | KLine => match parse_ring (coords_or_empty g) with Ok r => Ok (GLine r) | Err e => Err e end
  | KMPoint => match parse_ring (coords_or_empty g) with Ok r => Ok (GMPoint r) | Err e => Err e end
  | KMLine => match parse_rings (coords_or_empty g) with Ok r => Ok (GMLine r) | Err e => Err e end
  | KMPoly =>
      match coords_or_empty g with
      | JArr l => match mapM mpoly_member l with Ok ps => Ok (GMPoly ps) | Err e => Err e end
      | _ => Err TypeError
      end
  | KPoly =>
      (* holes are constructed here; the shell only after the properties (see post_geom) *)
      match parse_rings (coords_or_empty g) with
      | Err e => Err e
      | Ok rs =>
          match mapM ctor_ring (tl rs) with
          | Err e => Err e
          | Ok holes => Ok (GPoly (mkpoly (hd [] rs) holes))      (* shell still raw *)
          end
      end
  end.

Definition post_geom (k : skind) (g : geom) : res geom :=
  match k, g with
  | KPoly, GPoly p =>
      match ctor_ring (outline p) with
      | Err e => Err e
      | Ok o => Ok (GPoly (mkpoly o (pholes p)))
      end
  | _, _ => Ok g
  end.

(* Type.from_geojson(doc): the shape, and the caller's document after the call.
   copy_props = true is the code after repair D15 (properties = dict(gjson.get('properties') or {}));
   copy_props = false is the pinned code (properties = gjson.get('properties', {}), popped in place). *)
Definition from_geojson_gen (copy_props : bool) (k : skind) (docj : json) : res (shape * json) :=
  match docj with
  | JObj doc =>
      match geom_member doc with
      | Err e => Err e
      | Ok g =>
          match jget "type" g with
          | Some (JStr t) =>
              if negb (String.eqb t (kind_name k)) then Err ValueError
              else
                match pre_geom k g with
                | Err e => Err e
                | Ok gm =>
                    let pr := match jget "properties" doc with
                              | None => Ok []
                              | Some (JObj p) => Ok p
                              | Some j => if falsy j then Ok [] else Err TypeError
                              end in
                    match pr with
                    | Err e => Err e
                    | Ok p =>
                        match get_dt p with
                        | Err e => Err e
                        | Ok (dt, p') =>
                            match post_geom k gm with
                            | Err e => Err e
                            | Ok gm' =>
                                Ok (mkshape gm' dt p',
                                    if copy_props then docj
                                    else if has_key "properties" doc
                                         then JObj (dset "properties" (JObj p') doc)
                                         else docj)
                            end
                        end
                    end
                end
          | _ => Err ValueError
          end
      end
  | _ => Err TypeError
  end.

Definition from_geojson := from_geojson_gen true.

(* ---------- parse_geojson / FeatureCollection.from_geojson ---------- *)

Definition upper_ascii (c : ascii) : ascii :=
  let n := nat_of_ascii c in
  if (Nat.leb 97 n && Nat.leb n 122)%bool then ascii_of_nat (n - 32) else c.

Fixpoint upper (s : string) : string :=
  match s with
  | EmptyString => EmptyString
  | String c s' => String (upper_ascii c) (upper s')
  end.

Inductive parser := PShapeK (k : skind) | PColl.

Definition parser_of (t : string) : option parser :=
  let u := upper t in
  if String.eqb u "POINT" then Some (PShapeK KPoint)
  else if String.eqb u "LINESTRING" then Some (PShapeK KLine)
  else if String.eqb u "POLYGON" then Some (PShapeK KPoly)
  else if String.eqb u "MULTIPOINT" then Some (PShapeK KMPoint)
  else if String.eqb u "MULTILINESTRING" then Some (PShapeK KMLine)
  else if String.eqb u "MULTIPOLYGON" then Some (PShapeK KMPoly)
  else if String.eqb u "FEATURECOLLECTION" then Some PColl
  else None.

Definition dispatch (doc : dict) : res (option parser) :=
  match match jget "type" doc with Some (JStr t) => parser_of t | _ => None end with
  | Some p => Ok (Some p)
  | None =>
      match jget "geometry" doc with
      | None => Ok None
      | Some (JObj g) => Ok (match jget "type" g with Some (JStr t) => parser_of t | _ => None end)
      | Some _ => Err OtherError         (* None.get(...) : AttributeError *)
      end
  end.

Inductive parsed := PShape (s : shape) | PShapes (l : list shape).

(* parse_geojson on a feature (or bare geometry): no nesting of collections inside features *)
Definition parse_feature (docj : json) : res (shape * json) :=
  match docj with
  | JObj doc =>
      match dispatch doc with
      | Ok (Some (PShapeK k)) => from_geojson k docj
      | Err e => Err e
      | _ => Err ValueError
      end
  | _ => Err TypeError
  end.

Definition fc_from_geojson (docj : json) : res (list shape * json) :=
  match docj with
  | JObj doc =>
      match jget "type" doc with
      | Some (JStr "FeatureCollection") =>
          match (match jget "features" doc with Some (JArr fs) => Ok fs | None => Ok [] | _ => Err TypeError end) with
          | Err e => Err e
          | Ok fs =>
              match mapM parse_feature fs with
              | Err e => Err e
              | Ok l => Ok (map fst l, docj)
              end
          end
      | _ => Err ValueError
      end
  | _ => Err TypeError
  end.

Definition parse_geojson (docj : json) : res (parsed * json) :=
  match docj with
  | JObj doc =>
      match dispatch doc with
      | Ok (Some (PShapeK k)) =>
          match from_geojson k docj with Ok (s, d) => Ok (PShape s, d) | Err e => Err e end
      | Ok (Some PColl) =>
          match fc_from_geojson docj with Ok (l, d) => Ok (PShapes l, d) | Err e => Err e end
      | Ok None => Err ValueError
      | Err e => Err e
      end
  | _ => Err TypeError
  end.
End Import.

(* `==` of shapes: spatial part and dt (properties are not compared) *)
Definition dt_eqb (a b : option (Z * Z)) : bool :=
  option_eqb (fun x y => (fst x =? fst y) && (snd x =? snd y)) a b.

Definition shape_eqb (a b : shape) : bool := geom_eqb (sgeom a) (sgeom b) && dt_eqb (sdt a) (sdt b).
