(* Model of the curved shapes of geostructures/structures.py (GeoCircle, GeoEllipse, GeoRing
   incl. wedges): the analytic membership tests and the boundary generators, over the real
   model of the spherical calculator (SphereM.v).  Definitions only.

   A hole is abstracted to its membership predicate on coordinates (`coord in hole`); the
   shapes carry a list of such predicates.  Boundary points are the pairs handed to the
   Coordinate constructor by inverse_haversine_radians *before* its 1e-7 rounding (dest_rad);
   the rounded pair is dest_rad_rounded (C07_dest_rounding bounds the difference). *)
From GV Require Import Prelude SphereM.
From Coq Require Import Reals.
Open Scope R_scope.

Definition hole := coord -> bool.
Definition in_holes (hs : list hole) (p : coord) : bool := existsb (fun h => h p) hs.

Record circle := mkcircle { c_center : coord; c_radius : R; c_holes : list hole }.
Record ellipse := mkellipse { e_center : coord; e_major : R; e_minor : R; e_rotation : R; e_holes : list hole }.
Record ring := mkring { r_center : coord; r_inner : R; r_outer : R; r_amin : R; r_amax : R; r_holes : list hole }.

(* GeoEllipse._radius_at_angle (polar radius of the ellipse; angle in radians from the major axis) *)
Definition radius_at (e : ellipse) (angle : R) : R :=
  e_major e * e_minor e
  / sqrt (e_major e * e_major e * (sin angle * sin angle) + e_minor e * e_minor e * (cos angle * cos angle)).

(* ---------------------------------------------------------------- contains_coordinate *)
Definition circle_contains (s : circle) (p : coord) : bool :=
  if negb (rleb (hdist p (c_center s)) (c_radius s)) then false
  else negb (in_holes (c_holes s) p).

Definition ellipse_contains (s : ellipse) (p : coord) : bool :=
  let bearing := bearing (e_center s) p in
  let radius := radius_at s (rad (bearing - e_rotation s)) in
  if negb (rleb (hdist (e_center s) p) radius) then false
  else negb (in_holes (e_holes s) p).

(* after repair D36 the bearing is compared with the angle range modulo 360:
   `(bearing - angle_min) % 360 > angle_max - angle_min` rejects *)
Definition ring_contains (s : ring) (p : coord) : bool :=
  if rltb (r_amax s - r_amin s) 360
     && rltb (r_amax s - r_amin s) (Rmod (bearing (r_center s) p - r_amin s) 360)
  then false
  else
    let radius := hdist (r_center s) p in
    if negb (rleb (r_inner s) radius && rleb radius (r_outer s)) then false
    else negb (in_holes (r_holes s) p).

(* ---------------------------------------------------------------- boundary generators *)
(* `for i in range(k, -1, -1)`: i = k, k-1, ..., 0 *)
Definition schedule (k : nat) : list nat := rev (seq 0 (S k)).

(* GeoCircle.bounding_coords: angle = pi*2/k*i *)
Definition circle_angle (k i : nat) : R := PI * 2 / INR k * INR i.
Definition circle_pt (s : circle) (k i : nat) : coord :=
  dest_rad (c_center s) (circle_angle k i) (c_radius s).
Definition circle_pts (s : circle) (k : nat) : list coord := map (circle_pt s k) (schedule k).

(* GeoEllipse.bounding_coords: angle = (pi*2/k)*i, radius at that angle, bearing angle+rotation *)
Definition ellipse_angle (k i : nat) : R := PI * 2 / INR k * INR i.
Definition ellipse_pt (s : ellipse) (k i : nat) : coord :=
  dest_rad (e_center s) (ellipse_angle k i + rad (e_rotation s)) (radius_at s (ellipse_angle k i)).
Definition ellipse_pts (s : ellipse) (k : nat) : list coord := map (ellipse_pt s k) (schedule k).

(* GeoRing._draw_bounds: angle = pi*(angle_min + (angle_max-angle_min)/k*i)/180 *)
Definition ring_angle_deg (s : ring) (k i : nat) : R :=
  r_amin s + (r_amax s - r_amin s) / INR k * INR i.
Definition ring_angle (s : ring) (k i : nat) : R := PI * ring_angle_deg s k i / 180.
Definition ring_outer_pt (s : ring) (k i : nat) : coord := dest_rad (r_center s) (ring_angle s k i) (r_outer s).
Definition ring_inner_pt (s : ring) (k i : nat) : coord := dest_rad (r_center s) (ring_angle s k i) (r_inner s).
Definition ring_outer_pts (s : ring) (k : nat) : list coord := map (ring_outer_pt s k) (schedule k).
Definition ring_inner_pts (s : ring) (k : nat) : list coord := map (ring_inner_pt s k) (schedule k).

(* GeoRing.bounding_coords: the outer arc for a full ring; outer arc, reversed inner arc and the
   closing point for a wedge *)
Definition ring_is_full (s : ring) : bool := reqb (r_amin s) 0 && reqb (r_amax s) 360.
Definition ring_pts (s : ring) (k : nat) : list coord :=
  if ring_is_full s then ring_outer_pts s k
  else ring_outer_pts s k ++ rev (ring_inner_pts s k) ++ [hd (0, 0) (ring_outer_pts s k)].

(* default numbers of points: 36; ceil(36*a/b); max(ceil((amax-amin)/10), 10) - as reals/integers *)
Definition Rceil (x : R) : Z := (- Int_part (- x))%Z.
Definition circle_default_k : nat := 36.
Definition ellipse_default_k (s : ellipse) : nat := Z.to_nat (Rceil (36 * e_major s / e_minor s)).
Definition ring_default_k (s : ring) : nat := Z.to_nat (Z.max (Rceil ((r_amax s - r_amin s) / 10)) 10).
