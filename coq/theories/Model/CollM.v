(* Executable model of geostructures/collections.py : class Track (lines 654-877), after the
   repairs D18 (default stop of an open slice = max(end) + 1 s) and D30 (slicing an empty Track
   returns the empty Track).  No proofs in this file.

   Abstraction.  A shape in a Track is observed through
     id   which implementation object it is (position in the harness' input list; objects
          created by convolve_duplicate_timestamps get the derived name [newid (id first)]);
     st en  x.start / x.end as UTC microseconds (Python compares, subtracts, equates and hashes
          aware datetimes by exactly that number; naive datetimes are read as UTC);
     ost oen  utcoffset of x.start / x.end in microseconds (only .time() looks at it);
     pl   an index naming the shape's centroid.  Distances between centroids ([dist], the
          library delegates to haversine_distance_meters) and the centroid of a convolved ping
          ([merge]: mean of the group's centroids) are Section variables.  Properties are not in
          the model (the harness checks the merged dict of a convolved ping directly).
   Not modelled: NaN distances/speeds (the np.isnan branch of filter_impossible_journeys),
   datetime overflow of max(end)+1s, slices with a step or a non-slice index. *)
From Coq Require Import QArith.
From GV Require Import Prelude.
From GV Require TimeM.
Open Scope Z_scope.

(* ------------------------------------------------------------------ sorted(..., key=...) *)
(* Python's sorted() is stable.  Insertion from the right, each element placed before the
   first element whose key is not smaller: the unique stable non-decreasing arrangement. *)
Section StableSort.
  Context {A : Type} (key : A -> Z).
  Fixpoint insert (x : A) (l : list A) : list A :=
    match l with
    | [] => [x]
    | y :: l' => if key x <=? key y then x :: l else y :: insert x l'
    end.
  Fixpoint isort (l : list A) : list A :=
    match l with
    | [] => []
    | x :: l' => insert x (isort l')
    end.
End StableSort.

(* ------------------------------------------------------------------ shapes *)
Record item := mkitem { id : Z; st : Z; en : Z; ost : Z; oen : Z; pl : Z }.

(* what is handed to Track(...): a shape with or without time bounds *)
Inductive raw :=
| Timed (x : item)
| Untimed (i p : Z).

Definition track := list item.

(* all(x.dt for x in geoshapes): a TimeInterval is always truthy, None is falsy *)
Fixpoint all_timed (l : list raw) : option (list item) :=
  match l with
  | [] => Some []
  | Timed x :: l' => match all_timed l' with Some r => Some (x :: r) | None => None end
  | Untimed _ _ :: _ => None
  end.

(* Track.__init__ on shapes that all have dt: sorted(geoshapes, key=lambda x: x.start) *)
Definition rewrap (l : list item) : track := isort st l.

(* Track.__init__ *)
Definition mk_track (l : list raw) : res track :=
  match all_timed l with
  | Some r => Ok (rewrap r)
  | None => Err ValueError
  end.

(* Track.__add__ (other is a Track) *)
Definition add (t u : track) : track := rewrap (t ++ u).

(* Track.__getitem__(slice(a, b)) *)
Fixpoint max_end (x : item) (l : list item) : Z :=
  match l with
  | [] => en x
  | y :: l' => Z.max (en x) (max_end y l')
  end.

Definition slice_pred (lo hi : Z) (x : item) : bool := (lo <=? st x) && (en x <? hi).

(* `if not self.geoshapes: return Track([])` (repair D30), then the defaults: start of the
   first shape, max(end) + 1 s *)
Definition slice (t : track) (a b : option Z) : res track :=
  match t with
  | [] => Ok (rewrap [])
  | x :: l =>
      let lo := match a with Some a' => a' | None => st x end in
      let hi := match b with Some b' => b' | None => max_end x l + 1000000 end in
      Ok (rewrap (filter (slice_pred lo hi) t))
  end.

(* CollectionBase.filter_by_dt on a Track *)
Definition dt_pred (d : Z) (x : item) : bool := (st x =? d) && (en x =? d).
Definition iv_pred (a b : Z) (x : item) : bool :=
  TimeM.intersects (TimeM.mkiv a b) (TimeM.mkiv (st x) (en x)).
Definition filter_by_dt (t : track) (d : Z) : track := rewrap (filter (dt_pred d) t).
Definition filter_by_iv (t : track) (a b : Z) : track := rewrap (filter (iv_pred a b) t).

(* Track.filter_by_time: time of day of the endpoints in their own time zone *)
Definition DAY : Z := 86400000000.
Definition tod (t off : Z) : Z := (t + off) mod DAY.
Definition tod_pred (s e : Z) (x : item) : bool :=
  let a := tod (st x) (ost x) in
  let b := tod (en x) (oen x) in
  ((s <=? b) && (b <=? e)) || ((s <=? a) && (a <=? e)) ||
  ((a <=? s) && (s <=? e) && (e <=? b)).
Definition filter_by_time (t : track) (s e : Z) : track := rewrap (filter (tod_pred s e) t).

(* ------------------------------------------------------------------ duplicate timestamps *)
Definition same_dt (x y : item) : bool := (st x =? st y) && (en x =? en y).

(* has_duplicate_timestamps: scan with the set of dt seen so far *)
Fixpoint has_dup_from (seen : list item) (l : list item) : bool :=
  match l with
  | [] => false
  | x :: l' => if existsb (same_dt x) seen then true else has_dup_from (x :: seen) l'
  end.
Definition has_dup (l : list item) : bool := has_dup_from [] l.

(* defaultdict(list) keyed by dt: groups in order of first occurrence, members in track
   order; a group is (first member, later members) *)
Definition group := (item * list item)%type.
Fixpoint group_add (x : item) (gs : list group) : list group :=
  match gs with
  | [] => [(x, [])]
  | (y, r) :: gs' => if same_dt y x then (y, r ++ [x]) :: gs' else (y, r) :: group_add x gs'
  end.
Definition grouping (l : list item) : list group :=
  fold_left (fun gs x => group_add x gs) l [].

(* name of the object created for a group whose first member is object i *)
Definition newid (i : Z) : Z := if 0 <=? i then - 1 - i else i - 1000.

Section Payload.
  Variable dist : Z -> Z -> Q.          (* haversine_distance_meters(centroid, centroid) *)
  Variable merge : list Z -> Z.         (* payload of GeoPoint(mean centroid, merged properties) *)

  Definition conv_group (g : group) : item :=
    match g with
    | (y, []) => y
    | (y, r) => mkitem (newid (id y)) (st y) (en y) (ost y) (oen y) (merge (map pl (y :: r)))
    end.

  (* Track.convolve_duplicate_timestamps *)
  Definition convolve (t : track) : track :=
    if has_dup t then rewrap (map conv_group (grouping t)) else rewrap t.

  (* Track.filter_impossible_journeys: [prev] is self.geoshapes[i] *)
  Definition secs (us : Z) : Q := inject_Z us / inject_Z 1000000.
  Definition speed (p x : item) : Q :=
    let dx := dist (pl p) (pl x) in
    if Qeq_bool dx 0 then 0%Q else (dx / secs (st x - st p))%Q.
  Fixpoint fij_loop (v : Q) (prev : item) (l : list item) : list item :=
    match l with
    | [] => []
    | x :: l' =>
        if st x - st prev =? 0 then fij_loop v prev l'
        else if Qle_bool (speed prev x) v then x :: fij_loop v x l'
        else fij_loop v prev l'
    end.
  Definition fij (t : track) (v : Q) : res track :=
    match t with
    | [] => Err IndexError                                               (* self.geoshapes[0] *)
    | x :: l => Ok (rewrap (x :: fij_loop v x l))
    end.

  (* ---------------------------------------------------------------- chains of operations *)
  Inductive op :=
  | OAdd (u : list item)            (* self + Track(u) *)
  | OAddOther                       (* self + <not a Track> *)
  | OSlice (a b : option Z)
  | OFilterDt (d : Z)
  | OFilterIv (a b : Z)
  | OFilterTime (s e : Z)
  | OConvolve
  | OFij (v : Q).

  Definition apply_op (t : track) (o : op) : res track :=
    match o with
    | OAdd u => Ok (add t (rewrap u))
    | OAddOther => Err ValueError
    | OSlice a b => slice t a b
    | OFilterDt d => Ok (filter_by_dt t d)
    | OFilterIv a b => Ok (filter_by_iv t a b)
    | OFilterTime s e => Ok (filter_by_time t s e)
    | OConvolve => Ok (convolve t)
    | OFij v => fij t v
    end.

  Fixpoint run (t : track) (ops : list op) : res track :=
    match ops with
    | [] => Ok t
    | o :: ops' => match apply_op t o with
                   | Ok t' => run t' ops'
                   | Err e => Err e
                   end
    end.
End Payload.
