(* C02 -- executable model of the pairwise spatial predicates of
   /repo/geostructures/structures.py (after repairs D1-D4):
     PolygonBase.contains_shape / intersects_shape / edges / linear_rings      (lines 89-174)
     GeoBox.bounding_coords                                                   (708-720)
     GeoLineString.segments / contains_shape / contains_coordinate / intersects_shape
     GeoPoint.contains_coordinate / contains_shape / intersects_shape
     utils/functions.py is_sub_list
     _base.py BaseShapeProtocol.contains  (what the operator `in` reaches)
   built on GeomM (find_line_intersection, point-in-polygon, box test: owned by C01) and
   SweepM (do_edges_intersect).  No proofs in this file.

   Shapes carry their time bounds [dt] (None | instant | interval, as a TimeM.iv) exactly
   because the clause "does not depend on the time bounds" is about them: the model below
   makes the same calls as the code, including `x in shape`, which is BaseShapeProtocol.contains
   and applies a time gate when x is a shape and no gate when x is a Coordinate.  After repair
   D4 every `in` on these paths receives a Coordinate.  The pre-repair call (`shape in self`
   with a point shape) is kept under the switch [d4 = false] so that it can be refuted.

   Polygon outlines are stored as the constructor leaves them ([mk_poly] = GeoPolygon.__init__:
   closing + right-hand rule, via GeomM.norm_outline).  Holes are GeomM.hole (a hole's own dt is
   never read by these functions).  [w] is the west end of the point-in-polygon ray
   (-180 times the coordinate scale), see GeomM.pip.

   Multi-shapes are C04's; curved shapes are polygons once `bounding_coords` has sampled them
   (C03) and are not separate constructors here. *)
From GV Require Import Prelude TimeM GeomM SweepM.
Open Scope Z_scope.

Definition dtm := option iv.

Inductive shape :=
| Pt (p : pt) (dt : dtm)
| Ln (vs : list pt) (dt : dtm)
| Poly (outline : list pt) (holes : list hole) (dt : dtm)       (* outline as stored *)
| Box (nw se : pt) (holes : list hole) (dt : dtm).

Definition dt_of (s : shape) : dtm :=
  match s with Pt _ d | Ln _ d | Poly _ _ d | Box _ _ _ d => d end.

Definition with_dt (d : dtm) (s : shape) : shape :=
  match s with
  | Pt p _ => Pt p d
  | Ln vs _ => Ln vs d
  | Poly o hs _ => Poly o hs d
  | Box nw se hs _ => Box nw se hs d
  end.

(* GeoPolygon(outline, holes, dt) / a GeoPolygon used as a hole (constructed by the caller with
   the default _is_hole=False, so it is stored counter-clockwise as well) *)
Definition mk_poly (raw : list pt) (holes : list hole) (d : dtm) : shape :=
  Poly (norm_outline false raw) holes d.
Definition mk_hpoly (raw : list pt) : hole := HPoly (norm_outline false raw).

(* GeoBox.bounding_coords: nw, (nw.lon, se.lat), se, (se.lon, nw.lat), nw *)
Definition box_coords (nw se : pt) : list pt :=
  [nw; (px nw, py se); se; (px se, py nw); nw].

Definition hole_coords (h : hole) : list pt :=
  match h with HPoly o => o | HBox nw se => box_coords nw se end.

(* PolygonBase.linear_rings: [bounding_coords, *reversed(hole.bounding_coords())] *)
Definition rings_of (outer : list pt) (holes : list hole) : list (list pt) :=
  outer :: map (fun h => rev (hole_coords h)) holes.

(* list(zip(ring, ring[1:])) ; also GeoLineString.segments *)
Definition ring_edges (ring : list pt) : list seg := combine ring (tl ring).

(* PolygonBase.edges (polygon-like) or [shape.segments] (line).  Never evaluated for a point
   (every caller below has dispatched on the point case before). *)
Definition edge_rings (s : shape) : list (list seg) :=
  match s with
  | Pt _ _ => []
  | Ln vs _ => [ring_edges vs]
  | Poly o hs _ => map ring_edges (rings_of o hs)
  | Box nw se hs _ => map ring_edges (rings_of (box_coords nw se) hs)
  end.

(* `edges[0][0][0]`: the list of rings is never empty; an empty first ring raises IndexError *)
Definition first_vertex (er : list (list seg)) : res pt :=
  match er with
  | (e :: _) :: _ => Ok (fst e)
  | _ => Err IndexError
  end.

(* is_sub_list(list_a, list_b), literally: length test, then every offset *)
Definition is_sub_list (a b : list pt) : bool :=
  if (length b <? length a)%nat then false
  else existsb (fun i => list_eqb pt_eqb (firstn (length a) (skipn i b)) a)
               (seq 0 (length b - length a + 1)).

Section Pair.
  Variable w : Z.

  (* shape.contains_coordinate(coord) *)
  Definition contains_coordinate (s : shape) (p : pt) : bool :=
    match s with
    | Pt q _ => pt_eqb p q                          (* coord == self.centroid *)
    | Ln vs _ => existsb (pt_eqb p) vs              (* coord in self.vertices *)
    | Poly o hs _ => poly_contains w o hs p
    | Box nw se hs _ => box_contains w nw se hs p
    end.

  (* BaseShapeProtocol.contains_time(dt) = `dt in self.dt` (False when self.dt is None) *)
  Definition contains_time (s : shape) (d : iv) : bool :=
    match dt_of s with None => false | Some sd => contains_iv sd d end.

  (* The time gate of BaseShapeProtocol.contains when its argument is a shape:
       if self.dt and shape.dt: if not self.contains_time(shape.dt): return False *)
  Definition gate_passes (self other : shape) : bool :=
    match dt_of self, dt_of other with
    | Some _, Some od => contains_time self od
    | _, _ => true
    end.

  (* `coord in shape`  (BaseShapeProtocol.__contains__ -> contains -> isinstance Coordinate) *)
  Definition in_coord (s : shape) (p : pt) : bool := contains_coordinate s p.

  (* do_edges_intersect([x for ring in s_edges for x in ring], [... o_edges ...]) *)
  Definition edges_cross (se oe : list (list seg)) : res bool :=
    sweep hit (concat se) (concat oe).

  (* the common tail of PolygonBase.intersects_shape and GeoLineString.intersects_shape:
       if do_edges_intersect(..): return True
       return o_edges[0][0][0] in self or s_edges[0][0][0] in shape *)
  Definition intersects_tail (self other : shape) (se oe : list (list seg)) : res bool :=
    match edges_cross se oe with
    | Err e => Err e
    | Ok true => Ok true
    | Ok false =>
        match first_vertex oe with
        | Err e => Err e
        | Ok v =>
            if in_coord self v then Ok true
            else match first_vertex se with
                 | Err e => Err e
                 | Ok u => Ok (in_coord other u)
                 end
        end
    end.

  (* polygon-like or line receiver, point argument.  Repaired: contains_coordinate(centroid).
     Before D4: `shape in self`, i.e. contains(shape) = gate, then contains_shape(point) which
     is contains_coordinate(centroid). *)
  Definition point_branch (d4 : bool) (self other : shape) (p : pt) : bool :=
    if d4 then contains_coordinate self p
    else gate_passes self other && contains_coordinate self p.

  Definition intersects_shape_gen (d4 : bool) (self other : shape) : res bool :=
    match self with
    | Pt p _ =>
        match other with
        | Pt q _ =>
            if d4 then Ok (pt_eqb p q)                    (* self.coordinate == shape.coordinate *)
            else Ok (pt_eqb p q && option_eqb iv_eqb (dt_of self) (dt_of other))   (* `self == shape` *)
        | _ =>                                            (* shape.intersects_shape(self) *)
            if d4 then Ok (contains_coordinate other p)
            else Ok (gate_passes other self && contains_coordinate other p)   (* `self in shape` *)
        end
    | _ =>
        match other with
        | Pt q _ => Ok (point_branch d4 self other q)
        | _ => intersects_tail self other (edge_rings self) (edge_rings other)
        end
    end.

  Definition contains_shape (self other : shape) : res bool :=
    match self with
    | Pt p _ =>
        match other with
        | Pt q _ => Ok (pt_eqb q p)                        (* contains_coordinate(shape.centroid) *)
        | _ => Ok false
        end
    | Ln vs _ =>
        match other with
        | Poly _ _ _ | Box _ _ _ _ => Ok false
        | Pt q _ => Ok (contains_coordinate self q)
        | Ln us _ => Ok (is_sub_list us vs)
        end
    | _ =>
        match other with
        | Pt q _ => Ok (contains_coordinate self q)
        | _ =>
            let se := edge_rings self in
            let oe := edge_rings other in
            match edges_cross se oe with
            | Err e => Err e
            | Ok true => Ok false                          (* an edge pair intersects *)
            | Ok false =>
                match first_vertex oe with                 (* o_edges[0][0][0] in self *)
                | Err e => Err e
                | Ok v => Ok (in_coord self v)
                end
            end
        end
    end.

  (* the repaired code *)
  Definition intersects_shape (self other : shape) : res bool := intersects_shape_gen true self other.

  (* -------- the two disjuncts of the polygon/line tests, named for the statements -------- *)
  Definition all_edges (s : shape) : list seg := concat (edge_rings s).

  (* "some edge of A meets some edge of B", the specification side of the edge part *)
  Definition edge_part (a b : shape) : bool := brute hit (all_edges a) (all_edges b).
End Pair.

(* validity of a shape as the property understands it: a path has at least two vertices, a
   polygon outline (as stored) at least two, i.e. at least one edge *)
Definition valid (s : shape) : Prop :=
  match s with
  | Pt _ _ => True
  | Ln vs _ => (2 <= length vs)%nat
  | Poly o _ _ => (2 <= length o)%nat
  | Box _ _ _ _ => True
  end.
