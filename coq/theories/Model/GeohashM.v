(* Executable model of the Niemeyer codec of geostructures/geohash.py:
     _NIEMEYER_CONFIG, _decode_niemeyer, _coord_to_niemeyer, _get_niemeyer_subhashes,
     niemeyer_to_geobox (+ the part of Coordinate.__init__ it goes through, and
     GeoBox.contains_coordinate without holes).
   Numbers are exact rationals [Q]: every bound the float code computes is a dyadic multiple of
   45*2^-k and exact in doubles for all lengths <= 12 (DESIGN section 3), and a comparison of a
   double with such a bound is exact.  Values are kept reduced ([Qred]) so that they stay small.
   Characters are their code points ([Z], Python's [ord]); strings are lists of them.
   The model is generic in a configuration record; the three tables are below and are compared
   with the tables regenerated from /repo on every run (coq/geneq/GeohashCfgGenEq.v).
   No proofs in this file. *)
From Coq Require Import QArith Qreduction.
From GV Require Import Prelude.
Open Scope Z_scope.

Record cfg := mkcfg {
  bits : list Z;            (* config['bits']    : the masks, most significant first *)
  charset : list Z;         (* config['charset'] : code points *)
  inverse : list (Z * Z);   (* config['inverse'] : code point -> value, sorted by key *)
  minx : Q; maxx : Q; miny : Q; maxy : Q
}.

(* ------------------------------------------------------------------ arithmetic *)
Definition qmid (lo hi : Q) : Q := Qred ((lo + hi) / 2).     (* (a + b) / 2.0 *)
Definition qhalf (e : Q) : Q := Qred (e / 2).                (* err /= 2.0 *)
Definition qgt (a b : Q) : bool := negb (Qle_bool a b).      (* a > b *)

(* the two intervals and the flag [lon_component] *)
Record cs := mkcs { lonI : Q * Q; latI : Q * Q; lonc : bool }.

(* one halving of an interval: bit set -> keep the upper half, else the lower half *)
Definition narrow (b : bool) (I : Q * Q) : Q * Q :=
  let m := qmid (fst I) (snd I) in if b then (m, snd I) else (fst I, m).

Definition narrow_cs (b : bool) (s : cs) : cs :=
  if lonc s then mkcs (narrow b (lonI s)) (latI s) false
  else mkcs (lonI s) (narrow b (latI s)) true.

Definition init_cs (c : cfg) : cs := mkcs (minx c, maxx c) (miny c, maxy c) true.

(* ------------------------------------------------------------------ _decode_niemeyer *)
Record ds := mkds { dcs : cs; lonE : Q; latE : Q }.

Definition dec_bit (b : bool) (d : ds) : ds :=
  if lonc (dcs d) then mkds (narrow_cs b (dcs d)) (qhalf (lonE d)) (latE d)
  else mkds (narrow_cs b (dcs d)) (lonE d) (qhalf (latE d)).

Definition mask_set (v m : Z) : bool := negb (Z.land v m =? 0).   (* v & mask != 0 *)

(* for mask in config['bits'] *)
Definition dec_char (c : cfg) (v : Z) (d : ds) : ds :=
  fold_left (fun d m => dec_bit (mask_set v m) d) (bits c) d.

Fixpoint lookup (k : Z) (l : list (Z * Z)) : option Z :=
  match l with
  | [] => None
  | (k', v) :: l' => if k =? k' then Some v else lookup k l'
  end.

Definition in_charset (ch : Z) (l : list Z) : bool := existsb (Z.eqb ch) l.

(* for character in geohash *)
Fixpoint dec_loop (c : cfg) (s : list Z) (d : ds) : res ds :=
  match s with
  | [] => Ok d
  | ch :: s' =>
      if negb (in_charset ch (charset c)) then Err ValueError
      else match lookup ch (inverse c) with
           | None => Err KeyError
           | Some v => dec_loop c s' (dec_char c v d)
           end
  end.

Definition init_ds (c : cfg) : ds := mkds (init_cs c) (maxx c) (maxy c).

Definition centre (s : cs) : Q * Q :=
  (qmid (fst (lonI s)) (snd (lonI s)), qmid (fst (latI s)) (snd (latI s))).

(* returns lon, lat, lon_error, lat_error *)
Definition decode (c : cfg) (s : list Z) : res (Q * Q * Q * Q) :=
  match dec_loop c s (init_ds c) with
  | Ok d => Ok (fst (centre (dcs d)), snd (centre (dcs d)), lonE d, latE d)
  | Err e => Err e
  end.

(* ------------------------------------------------------------------ _coord_to_niemeyer *)
(* the bit chosen at the current step: coordinate > mid (strict) *)
Definition bit_of (p : Q * Q) (s : cs) : bool :=
  if lonc s then qgt (fst p) (qmid (fst (lonI s)) (snd (lonI s)))
  else qgt (snd p) (qmid (fst (latI s)) (snd (latI s))).

(* one character: the inner part of the while loop, bit = 0 .. len(bits)-1;
   character |= bits[bit] when the coordinate is above the midpoint *)
Fixpoint enc_char (masks : list Z) (p : Q * Q) (s : cs) (acc : Z) : Z * cs :=
  match masks with
  | [] => (acc, s)
  | m :: ms => let b := bit_of p s in
               enc_char ms p (narrow_cs b s) (if b then Z.lor acc m else acc)
  end.

(* config['charset'][character]; in range whenever the tables are consistent (cfg_ok) *)
Definition char_at (c : cfg) (v : Z) : Z := nth (Z.to_nat v) (charset c) 0.

Fixpoint enc_loop (c : cfg) (n : nat) (p : Q * Q) (s : cs) : list Z :=
  match n with
  | O => []
  | S n' => let '(v, s') := enc_char (bits c) p s 0 in
            char_at c v :: enc_loop c n' p s'
  end.

Definition encode (c : cfg) (p : Q * Q) (n : nat) : list Z := enc_loop c n p (init_cs c).

(* ------------------------------------------------------------------ _get_niemeyer_subhashes *)
Definition subhashes (c : cfg) (s : list Z) : list (list Z) :=
  map (fun ch => s ++ [ch]) (charset c).

(* ------------------------------------------------------------------ Coordinate.__init__ *)
Open Scope Q_scope.
Definition qleb (a b : Q) : bool := Qle_bool a b.
Definition qltb (a b : Q) : bool := negb (Qle_bool b a).

(* while not -90 <= lat <= 90: reflect over the pole (fuel: enough for |lat| <= 90 + 180*fuel) *)
Fixpoint wrap_lat (fuel : nat) (lon lat : Q) : Q * Q :=
  if qleb (-90) lat && qleb lat 90 then (lon, lat)
  else match fuel with
       | O => (lon, lat)
       | S f => wrap_lat f (if qltb lon 0 then lon + 180 else lon - 180)
                          (if qltb 90 lat then 90 - (lat - 90) else -90 - (lat + 90))
       end.

(* while not -180 <= lon <= 180 *)
Fixpoint wrap_lon (fuel : nat) (lon : Q) : Q :=
  if qleb (-180) lon && qleb lon 180 then lon
  else match fuel with
       | O => lon
       | S f => wrap_lon f (if qltb 180 lon then lon - 360 else lon + 360)
       end.

(* Coordinate(lon, lat) with _bounded=True; the final step maps 180 to -180 unconditionally *)
Definition coordinate (lon lat : Q) : Q * Q :=
  let '(lon1, lat1) := wrap_lat 8 lon lat in
  let lon2 := wrap_lon 8 lon1 in
  (if Qeq_bool lon2 180 then -180 else lon2, lat1).

(* ------------------------------------------------------------------ niemeyer_to_geobox *)
(* (nw_bound, se_bound) *)
Definition cell_box (c : cfg) (s : list Z) : res ((Q * Q) * (Q * Q)) :=
  match decode c s with
  | Ok (x, y, ex, ey) => Ok (coordinate (x - ex) (y + ey), coordinate (x + ex) (y - ey))
  | Err e => Err e
  end.

(* GeoBox.contains_coordinate, no holes *)
Definition box_contains (bx : (Q * Q) * (Q * Q)) (p : Q * Q) : bool :=
  let '(nw, se) := bx in
  qleb (fst nw) (fst p) && qleb (fst p) (fst se) && qleb (snd se) (snd p) && qleb (snd p) (snd nw).
Close Scope Q_scope.

(* ------------------------------------------------------------------ the three tables *)
Definition range_kv (k0 v0 : Z) (n : nat) : list (Z * Z) :=
  map (fun i => (k0 + Z.of_nat i, v0 + Z.of_nat i)) (seq 0 n).
Definition range_z (k0 : Z) (n : nat) : list Z := map (fun i => k0 + Z.of_nat i) (seq 0 n).

Definition cfg16 : cfg := mkcfg
  [8; 4; 2; 1]
  (range_z 48 10 ++ range_z 97 6)
  (range_kv 48 0 10 ++ range_kv 97 10 6)
  (-180 # 1) (180 # 1) (-180 # 1) (180 # 1).

Definition cfg32 : cfg := mkcfg
  [16; 8; 4; 2; 1]
  (range_z 48 10 ++ range_z 98 7 ++ [106; 107; 109; 110] ++ range_z 112 11)
  (range_kv 48 0 10 ++ range_kv 98 10 7 ++ [(106, 17); (107, 18); (109, 19); (110, 20)]
   ++ range_kv 112 21 11)
  (-180 # 1) (180 # 1) (-90 # 1) (90 # 1).

Definition cfg64 : cfg := mkcfg
  [32; 16; 8; 4; 2; 1]
  (range_z 48 10 ++ [61] ++ range_z 65 26 ++ [95] ++ range_z 97 26)
  (range_kv 48 0 10 ++ [(61, 10)] ++ range_kv 65 11 26 ++ [(95, 37)] ++ range_kv 97 38 26)
  (-180 # 1) (180 # 1) (-180 # 1) (180 # 1).

(* _NIEMEYER_CONFIG[base] *)
Definition cfg_of_base (b : Z) : option cfg :=
  if b =? 16 then Some cfg16 else if b =? 32 then Some cfg32 else if b =? 64 then Some cfg64
  else None.

(* module-level entry points, with the exceptions the code raises for an unknown base *)
Definition coord_to_niemeyer (base : Z) (p : Q * Q) (len : Z) : res (list Z) :=
  match cfg_of_base base with
  | None => Err ValueError
  | Some c => Ok (encode c p (Z.to_nat len))
  end.

Definition decode_niemeyer (base : Z) (s : list Z) : res (Q * Q * Q * Q) :=
  match cfg_of_base base with
  | None => Err KeyError
  | Some c => decode c s
  end.

Definition get_subhashes (base : Z) (s : list Z) : res (list (list Z)) :=
  match cfg_of_base base with
  | None => Err ValueError
  | Some c => Ok (subhashes c s)
  end.

Definition niemeyer_to_geobox (base : Z) (s : list Z) : res ((Q * Q) * (Q * Q)) :=
  match cfg_of_base base with
  | None => Err KeyError
  | Some c => cell_box c s
  end.

(* ------------------------------------------------------------------ consistency of a table *)
(* all bit lists of length k, in increasing numeric order (false < true, first bit most
   significant) *)
Fixpoint all_bits (k : nat) : list (list bool) :=
  match k with
  | O => [[]]
  | S k' => map (cons false) (all_bits k') ++ map (cons true) (all_bits k')
  end.

Definition val_bits (c : cfg) (v : Z) : list bool := map (mask_set v) (bits c).

Fixpoint or_bits (masks : list Z) (bl : list bool) (acc : Z) : Z :=
  match masks, bl with
  | m :: ms, b :: bs => or_bits ms bs (if b then Z.lor acc m else acc)
  | _, _ => acc
  end.

Fixpoint nodupb (l : list Z) : bool :=
  match l with
  | [] => true
  | x :: l' => negb (existsb (Z.eqb x) l') && nodupb l'
  end.

(* Finite, decidable: the alphabet has no repeated character; the i-th character decodes (inverse, masks) to the i-th bit list, and
   OR-ing the masks of the i-th bit list indexes the i-th character; the coordinate ranges are
   symmetric and non-degenerate (lon_error/lat_error start at max_x/max_y). *)
Definition cfg_okb (c : cfg) : bool :=
  let ab := all_bits (length (bits c)) in
  (length (charset c) =? length ab)%nat && nodupb (charset c) &&
  forallb (fun '(ch, bl) =>
             in_charset ch (charset c) &&
             match lookup ch (inverse c) with
             | Some v => list_eqb Bool.eqb (val_bits c v) bl
             | None => false
             end &&
             (0 <=? or_bits (bits c) bl 0) &&
             match nth_error (charset c) (Z.to_nat (or_bits (bits c) bl 0)) with
             | Some ch' => ch' =? ch
             | None => false
             end)
          (combine (charset c) ab) &&
  Qeq_bool (minx c) (- maxx c) && Qeq_bool (miny c) (- maxy c) &&
  qltb 0 (maxx c) && qltb 0 (maxy c).

Definition cfg_ok (c : cfg) : Prop := cfg_okb c = true.
