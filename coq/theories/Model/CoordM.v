(* Executable model of geostructures/coordinates.py, Coordinate.__init__ / __eq__ / __hash__
   (after repair D9: M is not hashed).  Numbers are exact rationals (Q): a Python float is the
   rational it denotes (float.as_integer_ratio); DESIGN section 3 states on which inputs the float
   loop computes exactly that.  The two `while` loops are written iteration by iteration as the
   code has them (same arithmetic, same strict/non-strict comparisons, same order), with
   explicit fuel and an [Err] when the fuel runs out; that the fuel formula always suffices is
   a theorem (CoordP.norm_total), not part of the model.  No proofs in this file. *)
From Coq Require Import QArith Qround Qabs.
From GV Require Import Prelude.
Open Scope Q_scope.

(* Python `a < b` on numbers *)
Definition Qltb (a b : Q) : bool := negb (Qle_bool b a).

(* `-90 <= lat <= 90`  and  `-180 <= lon <= 180` (chained comparisons) *)
Definition lat_ok (lat : Q) : bool := Qle_bool (-90) lat && Qle_bool lat 90.
Definition lon_ok (lon : Q) : bool := Qle_bool (-180) lon && Qle_bool lon 180.

(* body of the first loop:
     lat = 90 - (lat - 90) if lat > 90 else -90 - (lat + 90)
     lon = lon + 180 if lon < 0 else lon - 180                       *)
Definition pole_step (p : Q * Q) : Q * Q :=
  let (lon, lat) := p in
  let lat' := if Qltb 90 lat then 90 - (lat - 90) else -90 - (lat + 90) in
  let lon' := if Qltb lon 0 then lon + 180 else lon - 180 in
  (lon', lat').

(* `while not -90 <= lat <= 90: <pole_step>` *)
Fixpoint pole_loop (fuel : nat) (p : Q * Q) : res (Q * Q) :=
  if lat_ok (snd p) then Ok p
  else match fuel with
       | O => Err OtherError
       | S f => pole_loop f (pole_step p)
       end.

(* body of the second loop:  lon = lon - 360 if lon > 180 else lon + 360 *)
Definition wrap_step (lon : Q) : Q := if Qltb 180 lon then lon - 360 else lon + 360.

(* `while not -180 <= lon <= 180: <wrap_step>` *)
Fixpoint wrap_loop (fuel : nat) (lon : Q) : res Q :=
  if lon_ok lon then Ok lon
  else match fuel with
       | O => Err OtherError
       | S f => wrap_loop f (wrap_step lon)
       end.

(* iteration budgets, computed from the value entering each loop *)
Definition fuel_pole (lat : Q) : nat := Z.to_nat (Qceiling (Qabs lat / 180) + 1).
Definition fuel_wrap (lon : Q) : nat := Z.to_nat (Qceiling (Qabs lon / 360) + 1).

(* `if lon == 180: lon = -180` *)
Definition canon180 (lon : Q) : Q := if Qeq_bool lon 180 then -180 else lon.

(* the `_bounded` branch of __init__ followed by the 180 -> -180 step: (longitude, latitude) *)
Definition norm (lon lat : Q) : res (Q * Q) :=
  match pole_loop (fuel_pole lat) (lon, lat) with
  | Err e => Err e
  | Ok (lon1, lat1) =>
      match wrap_loop (fuel_wrap lon1) lon1 with
      | Err e => Err e
      | Ok lon2 => Ok (canon180 lon2, lat1)
      end
  end.

(* a stored Coordinate; z and m are kept as given (None or a number) *)
Record coord := mkc { clon : Q; clat : Q; cz : option Q; cm : option Q }.

(* Coordinate(longitude, latitude, z, m, _bounded) *)
Definition mk (lon lat : Q) (z m : option Q) (bounded : bool) : res coord :=
  if bounded then
    match norm lon lat with
    | Ok (a, b) => Ok (mkc a b z m)
    | Err e => Err e
    end
  else Ok (mkc (canon180 lon) lat z m).

Definition oq_eqb (a b : option Q) : bool :=
  match a, b with
  | Some x, Some y => Qeq_bool x y
  | None, None => true
  | _, _ => false
  end.

(* __eq__ : latitude, longitude, z  (M is ignored) *)
Definition ceqb (a b : coord) : bool :=
  Qeq_bool (clat a) (clat b) && Qeq_bool (clon a) (clon b) && oq_eqb (cz a) (cz b).

(* __hash__ : hash((longitude, latitude, z)).  Python's hash of a number is a function of its
   numeric value, so the key holds the values in lowest terms (Qred) and two keys that are
   equal as Coq terms hash equally. *)
Definition hkey (c : coord) : Q * Q * option Q :=
  (Qred (clon c), Qred (clat c), option_map Qred (cz c)).

(* the key hashed before repair D9 (M included) — kept for the regression statement *)
Definition hkey_preD9 (c : coord) : Q * Q * option Q * option Q :=
  (Qred (clon c), Qred (clat c), option_map Qred (cz c), option_map Qred (cm c)).

Definition hkey_eqb (a b : coord) : bool :=
  Qeq_bool (clon a) (clon b) && Qeq_bool (clat a) (clat b) && oq_eqb (cz a) (cz b).
