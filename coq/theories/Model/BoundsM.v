(* Executable model for C09: bounds of vertex-defined shapes, rectangle from bounds,
   centroid + farthest-vertex circles.  Distances are abstract (Section variable): the
   theorems hold for every distance function; the correspondence instantiates it with the
   order-preserving integer image of the doubles the implementation computed. *)
From GV Require Import Prelude ShapeM.
Open Scope Z_scope.

Definition pt := (Z * Z)%type.          (* (lon, lat) in scaled integer units *)

(* GeoPolygon.bounds / GeoLineString.bounds / wedge bounds: min/max over the vertex list
   (Python's min()/max() raise ValueError on an empty sequence) *)
Definition bounds_of (vs : list pt) : res bnd :=
  match minl (map fst vs), minl (map snd vs), maxl (map fst vs), maxl (map snd vs) with
  | Ok a, Ok b, Ok c, Ok d => Ok (a, b, c, d)
  | _, _, _, _ => Err ValueError
  end.

(* GeoPoint.bounds *)
Definition point_bounds (p : pt) : bnd := (fst p, snd p, fst p, snd p).

(* GeoBox.bounds from its corners *)
Definition box_bounds (nw se : pt) : bnd := (fst nw, snd se, fst se, snd nw).

(* circumscribing_rectangle: GeoBox(Coordinate(min_lon, max_lat), Coordinate(max_lon, min_lat)) *)
Definition rect_of_bounds (b : bnd) : pt * pt :=
  let '(mnlon, mnlat, mxlon, mxlat) := b in ((mnlon, mxlat), (mxlon, mnlat)).

(* GeoBox.bounding_coords (self-closing): nw, sw, se, ne, nw *)
Definition box_corners (nw se : pt) : list pt :=
  [nw; (fst nw, snd se); se; (fst se, snd nw); nw].

Section Far.
  Variable V : Type.
  Variable dist : V -> V -> Z.           (* haversine_distance_meters, order-preserving image *)

  (* GeoLineString / MultiGeo* / wedge circumscribing_circle:
     radius = max(dist(x, centroid) for x in vertices) *)
  Definition far_radius (c : V) (vs : list V) : res Z := maxl (map (fun v => dist v c) vs).

  (* GeoCircle.contains_coordinate without holes: dist(coord, center) <= radius *)
  Definition circle_contains (c : V) (r : Z) (v : V) : bool := dist v c <=? r.

  (* GeoBox.circumscribing_circle: radius measured to the NW corner only (defect D10) *)
  Definition box_radius (c nw : V) : Z := dist nw c.
End Far.
