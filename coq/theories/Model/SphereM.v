(* Model of the spherical calculator of geostructures (calc.py, _geometry.py), over Coq's
   real numbers.  Definitions only; the proofs are in Proofs/SphereP*.v.

   Abstraction: a Python float is a real number (IEEE rounding and libm are modelled, not
   verified - DESIGN section 3); a Coordinate is the pair (longitude, latitude) in degrees;
   Z/M values play no role in these formulas.  Every definition mirrors one function of the
   code, statement by statement, so that the translator output (tools/gen_sphere.py) is
   convertible with it (coq/geneq/SphereGenEq.v). *)
From GV Require Import Prelude.
From Coq Require Import Reals.
Open Scope R_scope.

Definition coord := (R * R)%type.            (* (longitude, latitude), degrees *)
Definition lon (c : coord) : R := fst c.
Definition lat (c : coord) : R := snd c.

Definition Rearth : R := 6371000.            (* _const.EARTH_RADIUS *)

(* math.radians / math.degrees (CPython: x * (pi/180), x * (180/pi)) *)
Definition rad (x : R) : R := x * (PI / 180).
Definition deg (x : R) : R := x * (180 / PI).

(* comparisons of floats, as booleans *)
Definition rltb (a b : R) : bool := if Rlt_dec a b then true else false.
Definition rleb (a b : R) : bool := if Rle_dec a b then true else false.
Definition reqb (a b : R) : bool := if Req_EM_T a b then true else false.

(* math.atan2(y, x) for finite arguments (signed zeros are not modelled: y = 0 counts as +0) *)
Definition atan2 (y x : R) : R :=
  if Rlt_dec 0 x then atan (y / x)
  else if Rlt_dec x 0 then (if Rle_dec 0 y then atan (y / x) + PI else atan (y / x) - PI)
  else if Rlt_dec 0 y then PI / 2
  else if Rlt_dec y 0 then - (PI / 2)
  else 0.

(* Python's float `x % m` for m > 0: x - m*floor(x/m)  (Int_part is the floor) *)
Definition Rmod (x m : R) : R := x - m * IZR (Int_part (x / m)).

(* utils.functions.round_half_up(value, precision) = round(value + 10**-(precision+12), precision);
   `round` is modelled as floor(v*10^p + 1/2)/10^p (differs from Python's correctly rounded
   half-even only on exact decimal ties of the nudged value) *)
Definition round_half_up (v : R) (p : nat) : R :=
  IZR (Int_part ((v + / 10 ^ (p + 12)) * 10 ^ p + / 2)) / 10 ^ p.

(* Coordinate(lon, lat, _bounded=False): only the `lon == 180 -> -180` rule applies *)
Definition mk_unbounded (lo la : R) : coord := (if reqb lo 180 then - 180 else lo, la).

(* _geometry.ensure_edge_bounds *)
Definition ensure_edge_bounds (c1 c2 : coord) : coord * coord :=
  if rltb 180 (Rabs (lon c1 - lon c2))
  then (c1, mk_unbounded (if rltb (lon c1) 0 then lon c2 - 360 else lon c2 + 360) (lat c2))
  else (c1, c2).

(* the haversine term `var1`, arguments in radians *)
Definition hav_a (lon1 lat1 lon2 lat2 : R) : R :=
  sin ((lat2 - lat1) / 2) * sin ((lat2 - lat1) / 2)
  + cos lat1 * cos lat2 * (sin ((lon2 - lon1) / 2) * sin ((lon2 - lon1) / 2)).

(* haversine_distance_meters without the un-wrapping step (the `max(0., 1 - var1)` is the D28
   repair: in floats var1 can exceed 1 by an ulp near the antipode; over R it never acts) *)
Definition hdist_raw (c1 c2 : coord) : R :=
  let a := hav_a (rad (lon c1)) (rad (lat c1)) (rad (lon c2)) (rad (lat c2)) in
  Rearth * 2 * atan2 (sqrt a) (sqrt (Rmax 0 (1 - a))).

(* calc.haversine_distance_meters *)
Definition hdist (c1 c2 : coord) : R :=
  let e := ensure_edge_bounds c1 c2 in hdist_raw (fst e) (snd e).

(* calc.bearing_degrees: the value before rounding, and the returned value (default precision) *)
Definition bearing_xy (c1 c2 : coord) : R * R :=
  let d_lon := lon c2 - lon c1 in
  (cos (rad (lat c2)) * sin (rad d_lon),
   cos (rad (lat c1)) * sin (rad (lat c2))
   - sin (rad (lat c1)) * cos (rad (lat c2)) * cos (rad d_lon)).
Definition bearing_raw (c1 c2 : coord) : R :=
  let xy := bearing_xy c1 c2 in Rmod (deg (atan2 (fst xy) (snd xy)) + 360) 360.
Definition bearing (c1 c2 : coord) : R := Rmod (round_half_up (bearing_raw c1 c2) 5) 360.

(* calc.inverse_haversine_radians: the pair (lon, lat) in degrees before round_half_up(.,7)
   and before the Coordinate constructor normalises it; then the rounded pair handed to the
   constructor *)
Definition dest_rad (start : coord) (angle_radians distance_meters : R) : coord :=
  let r := distance_meters / Rearth in
  let x0 := lon start * PI / 180 in
  let y0 := lat start * PI / 180 in
  let final_lat := asin (sin y0 * cos r + cos y0 * sin r * cos angle_radians) in
  let final_lon := x0 + atan2 (sin angle_radians * sin r * cos y0)
                              (cos r - sin y0 * sin final_lat) in
  (final_lon * 180 / PI, final_lat * 180 / PI).
Definition dest_rad_rounded (start : coord) (angle_radians distance_meters : R) : coord :=
  let d := dest_rad start angle_radians distance_meters in
  (round_half_up (fst d) 7, round_half_up (snd d) 7).

(* calc.inverse_haversine_degrees *)
Definition dest_deg (start : coord) (angle_degrees distance_meters : R) : coord :=
  dest_rad start (rad angle_degrees) distance_meters.
Definition dest_deg_rounded (start : coord) (angle_degrees distance_meters : R) : coord :=
  dest_rad_rounded start (rad angle_degrees) distance_meters.

(* Coordinate.xyz (local copy; the property about it is C08's) and _geometry.dist_xyz_meters
   (with the clamp of the D11 repair) *)
Definition uvec (c : coord) : R * R * R :=
  let r_lat := rad (lat c) in let r_lon := rad (lon c) in
  (cos r_lat * cos r_lon, cos r_lat * sin r_lon, sin r_lat).
Definition dot3 (u v : R * R * R) : R :=
  0 + fst (fst u) * fst (fst v) + snd (fst u) * snd (fst v) + snd u * snd v.
Definition dist_xyz (c1 c2 : coord) : R :=
  acos (Rmax (-1) (Rmin 1 (dot3 (uvec c1) (uvec c2)))) * Rearth.

(* calc.rotate_coordinates for one coordinate: planar rotation matrix about the origin `o`
   (the pair handed to the Coordinate constructor), after the un-wrapping of the input *)
Definition rot_raw (o p : coord) (degrees : R) : coord :=
  let a := rad degrees in
  (cos a * (lon p - lon o) + - sin a * (lat p - lat o) + lon o,
   sin a * (lon p - lon o) + cos a * (lat p - lat o) + lat o).
Definition rot (o p : coord) (degrees : R) : coord :=
  rot_raw o (snd (ensure_edge_bounds o p)) degrees.

(* planar squared distance, the quantity rotation preserves *)
Definition pdist2 (o p : coord) : R :=
  (lon p - lon o) * (lon p - lon o) + (lat p - lat o) * (lat p - lat o).
