(* Executable model of the value semantics of geostructures shapes (property C15):
   __eq__ / __hash__ of every shape class, the GeoPolygon constructor's ring normalisation,
   copy() and the pickle round trip.  The model follows the repaired code (D9 coordinate hash,
   D16 order-free hashes / holes compared / dt copied, D23 hole edge sets compared as sets,
   D24 MultiGeoPoint uses the base hash).  No proofs in this file.

   Abstractions (all stated, none hidden):
   * a Coordinate is (longitude, latitude, z) with exact numbers (scaled integers) and an
     optional z; `m` is ignored by Coordinate.__eq__/__hash__ (coordinates.py 46-57) and is not
     represented.  Float fields (radius, axes, angles) are scaled integers as well; NaN is outside
     the model.
   * dt is None or a TimeInterval, represented by its (start, end) in UTC microseconds:
     TimeInterval.__eq__/__hash__ are functions of exactly that pair (C06 model, TimeM.v).
   * bounding_coords() of the curved kinds (circle, ellipse, ring, wedge) is floating-point
     trigonometry; it only enters GeoPolygon.__eq__ (edge set of a hole) and is the Section
     variable [curve] — the theorems hold for every such function, the correspondence
     instantiates it with the coordinates the implementation itself produced.
   * is_counter_clockwise is the plain shoelace sum: the antimeridian adjustment of
     ensure_edge_bounds (an edge spanning more than 180 degrees of longitude) is outside the model.
   * Python's hash() is a function of the structure each __hash__ builds; [hkey] is that structure
     and [key_eqv] the equality of such structures (tuples positionally, frozensets as sets).
     key_eqv k1 k2 = true implies equal Python hashes; the converse is not claimed (hash collisions). *)
From GV Require Import Prelude.
Open Scope Z_scope.

(* ------------------------------------------------------------------ values *)
Definition coord := (Z * Z * option Z)%type.          (* longitude, latitude, z *)
Definition lon (c : coord) : Z := fst (fst c).
Definition lat (c : coord) : Z := snd (fst c).
Definition cz (c : coord) : option Z := snd c.
Definition dtv := option (Z * Z).                      (* None | TimeInterval(start, end) *)

(* geometry of a polygon-like shape *)
Inductive geom :=
| GPoly (outline : list coord)                        (* the stored self.outline (closed ring) *)
| GBox (nw se : coord)
| GCircle (c : coord) (r : Z)
| GEllipse (c : coord) (major minor rot : Z)
| GRing (c : coord) (ri ro amin amax : Z).

(* a hole is a polygon-like shape that has no holes itself (PolygonBase.__init__ raises otherwise) *)
Record hole := mkhole { hgeom : geom; hdt : dtv }.

Inductive single :=
| SPoint (c : coord) (d : dtv)
| SLine (vs : list coord) (d : dtv)
| SArea (g : geom) (hs : list hole) (d : dtv).

Inductive mkind := MPoint | MLine | MPoly.

Inductive shape :=
| One (s : single)
| Multi (k : mkind) (ms : list single) (d : dtv).

(* ------------------------------------------------------------------ field equality *)
Definition oz_eqb : option Z -> option Z -> bool := option_eqb Z.eqb.
(* Coordinate.__eq__ : latitude, longitude, z *)
Definition coord_eqb (a b : coord) : bool :=
  (lat a =? lat b) && (lon a =? lon b) && oz_eqb (cz a) (cz b).
Definition pair_eqb (a b : Z * Z) : bool := (fst a =? fst b) && (snd a =? snd b).
(* `self.dt == other.dt` : None == None, TimeInterval.__eq__ otherwise (False against None) *)
Definition dt_eqb : dtv -> dtv -> bool := option_eqb pair_eqb.
Definition clist_eqb : list coord -> list coord -> bool := list_eqb coord_eqb.
Definition edge := (coord * coord)%type.
Definition edge_eqb (a b : edge) : bool := coord_eqb (fst a) (fst b) && coord_eqb (snd a) (snd b).

(* ------------------------------------------------------------------ Python sets *)
Section PySet.
  Context {A : Type} (eqb : A -> A -> bool).
  (* `x in s` : some stored entry y satisfies y == x (the hash pre-test `hash(y) == hash(x)` never
     changes the answer because equal objects hash equally: theorem C15_eq_hkey) *)
  Definition mem_b (x : A) (s : list A) : bool := existsb (fun y => eqb y x) s.
  (* set(l): insert left to right, keep the first representative *)
  Definition pyset (l : list A) : list A :=
    fold_left (fun s x => if mem_b x s then s else s ++ [x]) l [].
  (* s == t for sets: same size and every entry of s is in t (CPython set_richcompare) *)
  Definition pyset_eq (s t : list A) : bool :=
    (length s =? length t)%nat && forallb (fun x => mem_b x t) s.
  (* sets of values whose equality is structural (coordinates, edges, frozensets of those):
     size-and-inclusion coincides with mutual inclusion; written directly *)
  Definition subset_b (s t : list A) : bool := forallb (fun x => existsb (eqb x) t) s.
  Definition seteq_b (s t : list A) : bool := subset_b s t && subset_b t s.
End PySet.

(* ------------------------------------------------------------------ GeoPolygon.__eq__ *)
(* o_outline[1:] + [o_outline[0]] *)
Definition rotl (l : list coord) : list coord :=
  match l with [] => [] | a :: t => t ++ [a] end.

(* the `for _ in range(len(o_outline))` search, fuel = number of iterations left *)
Fixpoint rot_search (fuel : nat) (s o : list coord) : bool :=
  match fuel with
  | O => false
  | S f => if clist_eqb s o || clist_eqb s (rev o) then true else rot_search f s (rotl o)
  end.

Definition outline_eqb (so oo : list coord) : bool :=
  (length so =? length oo)%nat &&
  (let s := removelast so in let o := removelast oo in rot_search (length o) s o).

(* zip(bc, bc[1:]) : the directed edges of a coordinate list *)
Definition dedges (l : list coord) : list edge := combine l (tl l).

(* `nw.z or se.z or None` (truthiness: z = 0 counts as absent) *)
Definition ztruthy (z : option Z) : bool := match z with Some v => negb (v =? 0) | None => false end.
Definition zor (a b : option Z) : option Z :=
  if ztruthy a then a else if ztruthy b then b else None.

Definition box_coords (nw se : coord) : list coord :=
  let z := zor (cz nw) (cz se) in
  [nw; (lon nw, lat se, z); se; (lon se, lat nw, z); nw].

Section Value.
  (* bounding_coords() of circle / ellipse / ring / wedge *)
  Variable curve : geom -> list coord.

  Definition bc (g : geom) : list coord :=
    match g with
    | GPoly o => o
    | GBox nw se => box_coords nw se
    | _ => curve g
    end.

  Definition eset_eqb : list edge -> list edge -> bool := seteq_b edge_eqb.
  (* [frozenset({(x, y) for x, y in zip(bc, bc[1:])}) for hole in holes] *)
  Definition holes_key (hs : list hole) : list (list edge) :=
    map (fun h => dedges (bc (hgeom h))) hs.
  (* set(...) == set(...) of frozensets *)
  Definition holes_eqb (a b : list hole) : bool := seteq_b eset_eqb (holes_key a) (holes_key b).

  (* __eq__ of two polygon-like shapes; [heqb] compares two holes (used by the `holes == holes`
     list comparison of box / circle / ellipse / ring) *)
  Definition area_eqb_gen (heqb : hole -> hole -> bool)
             (g1 : geom) (h1 : list hole) (d1 : dtv) (g2 : geom) (h2 : list hole) (d2 : dtv) : bool :=
    match g1, g2 with
    | GPoly o1, GPoly o2 =>
        dt_eqb d1 d2 && outline_eqb o1 o2 && (length h1 =? length h2)%nat && holes_eqb h1 h2
    | GBox nw1 se1, GBox nw2 se2 =>
        coord_eqb nw1 nw2 && coord_eqb se1 se2 && dt_eqb d1 d2 && list_eqb heqb h1 h2
    | GCircle c1 r1, GCircle c2 r2 =>
        coord_eqb c1 c2 && (r1 =? r2) && dt_eqb d1 d2 && list_eqb heqb h1 h2
    | GEllipse c1 a1 b1 t1, GEllipse c2 a2 b2 t2 =>
        coord_eqb c1 c2 && (a1 =? a2) && (b1 =? b2) && (t1 =? t2) && dt_eqb d1 d2 &&
        list_eqb heqb h1 h2
    | GRing c1 i1 o1 m1 x1, GRing c2 i2 o2 m2 x2 =>
        coord_eqb c1 c2 && (i1 =? i2) && (o1 =? o2) && (m1 =? m2) && (x1 =? x2) && dt_eqb d1 d2 &&
        list_eqb heqb h1 h2
    | _, _ => false                                    (* isinstance(other, <own class>) fails *)
    end.

  (* two holes compared with == : both have holes = [] *)
  Definition hole_eqb (a b : hole) : bool :=
    area_eqb_gen (fun _ _ => false) (hgeom a) [] (hdt a) (hgeom b) [] (hdt b).

  Definition area_eqb := area_eqb_gen hole_eqb.

  Definition single_eqb (a b : single) : bool :=
    match a, b with
    | SPoint c1 d1, SPoint c2 d2 => coord_eqb c1 c2 && dt_eqb d1 d2
    | SLine v1 d1, SLine v2 d2 => clist_eqb v1 v2 && dt_eqb d1 d2
    | SArea g1 h1 d1, SArea g2 h2 d2 => area_eqb g1 h1 d1 g2 h2 d2
    | _, _ => false
    end.

  (* MultiShapeBase.__eq__ : set(self.geoshapes) == set(other.geoshapes) and self.dt == other.dt
     (any two MultiShapeBase instances; the class is not compared) *)
  Definition shape_eqb (a b : shape) : bool :=
    match a, b with
    | One x, One y => single_eqb x y
    | Multi _ m1 d1, Multi _ m2 d2 =>
        pyset_eq single_eqb (pyset single_eqb m1) (pyset single_eqb m2) && dt_eqb d1 d2
    | _, _ => false
    end.
End Value.

(* ------------------------------------------------------------------ hash keys *)
Inductive skey :=
| KPoint (c : coord) (d : dtv)                                  (* (coordinate, dt) *)
| KLine (vs : list coord) (d : dtv)                             (* (tuple(vertices), dt) *)
| KPoly (vset : list coord) (d : dtv)                           (* (frozenset(outline), dt) *)
| KBox (nw se : coord) (d : dtv)
| KCircle (c : coord) (r : Z) (d : dtv)                         (* (centroid = center, radius, dt) *)
| KEllipse (c : coord) (minor major rot : Z) (d : dtv)
| KRing (c : coord) (ri ro amin amax : Z) (d : dtv).
(* KRing: the code hashes (centroid, inner, outer, angle_min, angle_max, dt); the centroid is the
   center, or for a wedge to_polygon().centroid, a pure function of (center, inner, outer,
   angle_min, angle_max).  The key keeps those five arguments, of which the hash is a function. *)

Definition geom_key (g : geom) (d : dtv) : skey :=
  match g with
  | GPoly o => KPoly o d
  | GBox nw se => KBox nw se d
  | GCircle c r => KCircle c r d
  | GEllipse c a b t => KEllipse c b a t d
  | GRing c i o m x => KRing c i o m x d
  end.

Definition skey_of (s : single) : skey :=
  match s with
  | SPoint c d => KPoint c d
  | SLine vs d => KLine vs d
  | SArea g _ d => geom_key g d
  end.

Definition skey_eqv (a b : skey) : bool :=
  match a, b with
  | KPoint c1 d1, KPoint c2 d2 => coord_eqb c1 c2 && dt_eqb d1 d2
  | KLine v1 d1, KLine v2 d2 => clist_eqb v1 v2 && dt_eqb d1 d2
  | KPoly s1 d1, KPoly s2 d2 => seteq_b coord_eqb s1 s2 && dt_eqb d1 d2
  | KBox a1 b1 d1, KBox a2 b2 d2 => coord_eqb a1 a2 && coord_eqb b1 b2 && dt_eqb d1 d2
  | KCircle c1 r1 d1, KCircle c2 r2 d2 => coord_eqb c1 c2 && (r1 =? r2) && dt_eqb d1 d2
  | KEllipse c1 a1 b1 t1 d1, KEllipse c2 a2 b2 t2 d2 =>
      coord_eqb c1 c2 && (a1 =? a2) && (b1 =? b2) && (t1 =? t2) && dt_eqb d1 d2
  | KRing c1 i1 o1 m1 x1 d1, KRing c2 i2 o2 m2 x2 d2 =>
      coord_eqb c1 c2 && (i1 =? i2) && (o1 =? o2) && (m1 =? m2) && (x1 =? x2) && dt_eqb d1 d2
  | _, _ => false
  end.

(* (frozenset(hash(x) for x in geoshapes), dt) : the member hashes are functions of the member keys *)
Inductive key :=
| K1 (k : skey)
| KM (members : list skey) (d : dtv).

Definition hkey (s : shape) : key :=
  match s with
  | One x => K1 (skey_of x)
  | Multi _ ms d => KM (map skey_of ms) d
  end.

Definition key_eqv (a b : key) : bool :=
  match a, b with
  | K1 x, K1 y => skey_eqv x y
  | KM m1 d1, KM m2 d2 => seteq_b skey_eqv m1 m2 && dt_eqb d1 d2
  | _, _ => false
  end.

(* ------------------------------------------------------------------ GeoPolygon.__init__ *)
(* sum((y.lon - x.lon) * (y.lat + x.lat) for x, y in zip(b, [*b[1:], b[0]]))  *)
Definition edge_term (e : edge) : Z := (lon (snd e) - lon (fst e)) * (lat (snd e) + lat (fst e)).
Definition shoelace (l : list coord) : Z :=
  fold_right Z.add 0 (map edge_term (combine l (rotl l))).
Definition is_ccw (l : list coord) : bool := shoelace l <=? 0.

Definition dflt : coord := (0, 0, None).
Definition close_ring (o : list coord) : list coord :=
  if coord_eqb (hd dflt o) (last o dflt) then o else o ++ [hd dflt o].
(* `if not is_counter_clockwise(outline) ^ _is_hole: outline = outline[::-1]` *)
Definition mk_outline (is_hole : bool) (o : list coord) : list coord :=
  let o1 := close_ring o in
  if xorb (is_ccw o1) is_hole then o1 else rev o1.

Definition mk_poly (o : list coord) (hs : list hole) (d : dtv) : res single :=
  match o with
  | [] => Err IndexError                               (* outline[0] *)
  | _ => Ok (SArea (GPoly (mk_outline false o)) hs d)
  end.

(* set_dt (value level): replaces dt *)
Definition with_dt (s : shape) (d : dtv) : shape :=
  match s with
  | One (SPoint c _) => One (SPoint c d)
  | One (SLine v _) => One (SLine v d)
  | One (SArea g h _) => One (SArea g h d)
  | Multi k ms _ => Multi k ms d
  end.

(* ------------------------------------------------------------------ copy() / pickle : values *)
(* every copy() re-runs the class constructor on the stored fields; only GeoPolygon's
   constructor transforms its input (without _is_hole).  Holes are passed through
   (`holes=self.holes.copy()`: a new list of the same hole objects); dt.copy() has the same
   (start, end); members of a multi-shape are copied one by one. *)
Definition copy_single (s : single) : single :=
  match s with
  | SArea (GPoly o) hs d => SArea (GPoly (mk_outline false o)) hs d
  | _ => s
  end.
Definition copy_val (s : shape) : shape :=
  match s with
  | One x => One (copy_single x)
  | Multi k ms d => Multi k (map copy_single ms) d
  end.
(* pickle: __getstate__ = __dict__ minus the to_shapely cache, __setstate__ restores it: every
   attribute is rebuilt structurally, no constructor runs *)
Definition pickle_val (s : shape) : shape := s.

(* ------------------------------------------------------------------ copy() / pickle : identity *)
(* The mutable cells of a shape object, as abstract locations: the object itself, its
   _properties dict, the mutable containers nested inside that dict, its dt object. *)
Definition loc := Z.
Record ocell := mkoc { oid : loc; oprops : loc; onest : list loc; odt : option loc }.
(* a single shape with its hole objects; a multi-shape with its members *)
Record sobj := mksobj { s_own : ocell; s_holes : list ocell }.
Record mobj := mkmobj { m_own : ocell; m_members : list sobj }.
Inductive obj := O1 (s : sobj) | OM (m : mobj).

Definition opt_list {A} (o : option A) : list A := match o with Some a => [a] | None => [] end.
Definition cell_locs (c : ocell) : list loc := oid c :: oprops c :: onest c ++ opt_list (odt c).
Definition sobj_own_locs (s : sobj) : list loc := cell_locs (s_own s).
Definition sobj_locs (s : sobj) : list loc := cell_locs (s_own s) ++ flat_map cell_locs (s_holes s).
(* cells that belong to the shape proper (own cells; for a multi-shape also its members' own cells) *)
Definition own_locs (o : obj) : list loc :=
  match o with
  | O1 s => sobj_own_locs s
  | OM m => cell_locs (m_own m) ++ flat_map sobj_own_locs (m_members m)
  end.
Definition hole_locs (o : obj) : list loc :=
  match o with
  | O1 s => flat_map cell_locs (s_holes s)
  | OM m => flat_map (fun s => flat_map cell_locs (s_holes s)) (m_members m)
  end.
Definition all_locs (o : obj) : list loc :=
  match o with
  | O1 s => sobj_locs s
  | OM m => cell_locs (m_own m) ++ flat_map sobj_locs (m_members m)
  end.

(* allocation: [n] is the next unused location *)
Fixpoint fresh_list (n : loc) (l : list loc) : list loc * loc :=
  match l with
  | [] => ([], n)
  | _ :: t => let (r, n') := fresh_list (n + 1) t in (n :: r, n')
  end.
(* a new object, copy.deepcopy(_properties), dt.copy() if dt *)
Definition copy_cell (n : loc) (c : ocell) : ocell * loc :=
  let (nest, n1) := fresh_list (n + 2) (onest c) in
  match odt c with
  | Some _ => (mkoc n (n + 1) nest (Some n1), n1 + 1)
  | None => (mkoc n (n + 1) nest None, n1)
  end.
(* GeoX.copy(): holes=self.holes.copy() keeps the SAME hole objects *)
Definition copy_sobj (n : loc) (s : sobj) : sobj * loc :=
  let (c, n') := copy_cell n (s_own s) in (mksobj c (s_holes s), n').
Fixpoint copy_members (n : loc) (l : list sobj) : list sobj * loc :=
  match l with
  | [] => ([], n)
  | s :: t => let (s', n1) := copy_sobj n s in
              let (t', n2) := copy_members n1 t in (s' :: t', n2)
  end.
(* MultiX.copy(): every member is copied with its own copy(), the multi-shape gets a new object, a
   deep-copied _properties and dt.copy().  (Locations are numbered members first; the numbering is a
   convention shared with the harness, only the sharing pattern is observable.) *)
Definition copy_obj (n : loc) (o : obj) : obj * loc :=
  match o with
  | O1 s => let (s', n') := copy_sobj n s in (O1 s', n')
  | OM m => let (ms, n1) := copy_members n (m_members m) in
            let (c, n2) := copy_cell n1 (m_own m) in (OM (mkmobj c ms), n2)
  end.

(* pickle.loads(pickle.dumps(x)): every reachable object is rebuilt; an object reachable twice is
   rebuilt once (the pickle memo), so internal sharing is preserved.  [memo] maps old to new. *)
Definition memo := list (loc * loc).
Fixpoint assoc (l : loc) (m : memo) : option loc :=
  match m with
  | [] => None
  | (a, b) :: t => if a =? l then Some b else assoc l t
  end.
Definition pk_loc (st : memo * loc) (l : loc) : loc * (memo * loc) :=
  match assoc l (fst st) with
  | Some l' => (l', st)
  | None => (snd st, ((l, snd st) :: fst st, snd st + 1))
  end.
Fixpoint pk_list (st : memo * loc) (ls : list loc) : list loc * (memo * loc) :=
  match ls with
  | [] => ([], st)
  | l :: t => let (l', st1) := pk_loc st l in
              let (t', st2) := pk_list st1 t in (l' :: t', st2)
  end.
Definition pk_cell (st : memo * loc) (c : ocell) : ocell * (memo * loc) :=
  let (i, st1) := pk_loc st (oid c) in
  let (p, st2) := pk_loc st1 (oprops c) in
  let (ns, st3) := pk_list st2 (onest c) in
  match odt c with
  | Some d => let (d', st4) := pk_loc st3 d in (mkoc i p ns (Some d'), st4)
  | None => (mkoc i p ns None, st3)
  end.
Fixpoint pk_cells (st : memo * loc) (cs : list ocell) : list ocell * (memo * loc) :=
  match cs with
  | [] => ([], st)
  | c :: t => let (c', st1) := pk_cell st c in
              let (t', st2) := pk_cells st1 t in (c' :: t', st2)
  end.
Definition pk_sobj (st : memo * loc) (s : sobj) : sobj * (memo * loc) :=
  let (c, st1) := pk_cell st (s_own s) in
  let (hs, st2) := pk_cells st1 (s_holes s) in (mksobj c hs, st2).
Fixpoint pk_sobjs (st : memo * loc) (l : list sobj) : list sobj * (memo * loc) :=
  match l with
  | [] => ([], st)
  | s :: t => let (s', st1) := pk_sobj st s in
              let (t', st2) := pk_sobjs st1 t in (s' :: t', st2)
  end.
Definition pickle_obj (n : loc) (o : obj) : obj * loc :=
  match o with
  | O1 s => let (s', st) := pk_sobj ([], n) s in (O1 s', snd st)
  | OM m => let (c, st1) := pk_cell ([], n) (m_own m) in
            let (ms, st2) := pk_sobjs st1 (m_members m) in (OM (mkmobj c ms), snd st2)
  end.

(* a store over locations, for the "mutating the copy is not seen through the original" statement *)
Section Store.
  Variable V : Type.
  Definition store := loc -> V.
  Definition upd (h : store) (l : loc) (v : V) : store := fun x => if x =? l then v else h x.
  (* everything an observer can read through the object: the contents of all its cells *)
  Definition view (h : store) (o : obj) : list V := map h (all_locs o).
End Store.
