(* Planar geometry model (C01, shared with C02): exact arithmetic over Z (DESIGN section 3).
   Executable definitions only.  Mirrors, branch by branch,
     geostructures/_geometry.py   coordinate_vector_cross_product, do_bounds_overlap,
                                  find_line_intersection, is_counter_clockwise
     geostructures/structures.py  GeoPolygon._point_in_polygon / bounds / contains_coordinate /
                                  __init__ (closing + right-hand rule), GeoBox.contains_coordinate
   Points are (lon, lat) pairs of integers; a uniform scaling of all coordinates (the harness
   scales by 2 to query half-grid points) changes no branch of these algorithms. *)
From Coq Require Import QArith.
From GV Require Import Prelude.
Open Scope Z_scope.

Definition pt := (Z * Z)%type.          (* (longitude, latitude) *)
Definition seg := (pt * pt)%type.

Definition px (p : pt) : Z := fst p.
Definition py (p : pt) : Z := snd p.

Definition pt_eqb (a b : pt) : bool := (px a =? px b) && (py a =? py b).

(* coordinate_vector_cross_product(o, a, b) *)
Definition cross (o a b : pt) : Z :=
  (px a - px o) * (py b - py o) - (py a - py o) * (px b - px o).

(* det(a, b) of find_line_intersection *)
Definition det2 (a b : pt) : Z := px a * py b - py a * px b.

(* do_bounds_overlap((lo1,hi1),(lo2,hi2)) *)
Definition bounds_overlap (lo1 hi1 lo2 hi2 : Z) : bool :=
  Z.max lo1 lo2 <=? Z.min hi1 hi2.

(* "Flip order such that lower x value is first" (strict test, as in the code) *)
Definition ordx (s : seg) : seg :=
  let '(a, b) := s in if px b <? px a then (b, a) else (a, b).

Definition sgn_fix (d v : Z) : Z := if d <? 0 then - v else v.

(* find_line_intersection on integer coordinates.  The intersection point is returned as the
   triple (xn, yn, dv) with dv > 0, meaning (xn/dv, yn/dv); the code's
       x = det(d, xdiff) / div,  y = det(d, ydiff) / div
   is kept as numerator/denominator, the sign of div being moved into the numerators so that
   the comparisons  lo <= x <= hi  become  lo*dv <= xn <= hi*dv.  round_half_up(.,10) is the
   identity on the exact value (DESIGN section 3), ensure_edge_bounds is the identity for
   segments spanning at most 180 degrees of longitude.
   The Boolean is the code's "is_boundary": the intersection equals one of the four endpoints. *)
Definition fli_core (a1 a2 b1 b2 : pt) : option (Z * Z * Z * bool) :=
  let l1xlo := Z.min (px a1) (px a2) in let l1xhi := Z.max (px a1) (px a2) in
  let l1ylo := Z.min (py a1) (py a2) in let l1yhi := Z.max (py a1) (py a2) in
  let l2xlo := Z.min (px b1) (px b2) in let l2xhi := Z.max (px b1) (px b2) in
  let l2ylo := Z.min (py b1) (py b2) in let l2yhi := Z.max (py b1) (py b2) in
  if negb (bounds_overlap l1xlo l1xhi l2xlo l2xhi && bounds_overlap l1ylo l1yhi l2ylo l2yhi)
  then None
  else
    let xd0 := px a1 - px a2 in let xd1 := px b1 - px b2 in
    let yd0 := py a1 - py a2 in let yd1 := py b1 - py b2 in
    let div := xd0 * yd1 - xd1 * yd0 in
    if div =? 0 then None
    else
      let d0 := det2 a1 a2 in let d1 := det2 b1 b2 in
      let xn := sgn_fix div (d0 * xd1 - d1 * xd0) in
      let yn := sgn_fix div (d0 * yd1 - d1 * yd0) in
      let dv := Z.abs div in
      if (l1xlo * dv <=? xn) && (xn <=? l1xhi * dv) &&
         (l2xlo * dv <=? xn) && (xn <=? l2xhi * dv) &&
         (l1ylo * dv <=? yn) && (yn <=? l1yhi * dv) &&
         (l2ylo * dv <=? yn) && (yn <=? l2yhi * dv)
      then
        let isp (c : pt) := (xn =? px c * dv) && (yn =? py c * dv) in
        Some (xn, yn, dv, isp a1 || isp a2 || isp b1 || isp b2)
      else None.

Definition fliZ (s1 s2 : seg) : option (Z * Z * Z * bool) :=
  let '(a1, a2) := ordx s1 in
  let '(b1, b2) := ordx s2 in
  fli_core a1 a2 b1 b2.

(* The same result with the point as a pair of reduced rationals. *)
Definition fli (s1 s2 : seg) : option (Q * Q * bool) :=
  match fliZ s1 s2 with
  | Some (xn, yn, dv, f) => Some (Qred (xn # Z.to_pos dv), Qred (yn # Z.to_pos dv), f)
  | None => None
  end.

Definition hit (a b : seg) : bool :=
  match fli a b with Some _ => true | None => false end.

(* ---------------------------------------------------------------- rings *)

(* zip(polygon, [*polygon[1:], polygon[0]]) *)
Definition cyc_edges (r : list pt) : list seg :=
  match r with
  | [] => []
  | v :: tl => combine r (tl ++ [v])
  end.

(* GeoPolygon._point_in_polygon(coord, polygon) with include_boundary = False.
   [w] is the longitude the test ray ends at: Coordinate(180, lat) is normalised to longitude
   -180, so the ray runs WEST from the query point to (w, lat), w = -180 (times the scale). *)
Fixpoint pip_loop (w : Z) (p : pt) (es : list seg) (cnt : Z) : bool :=
  match es with
  | [] => (0 <? cnt) && negb (cnt mod 2 =? 0)
  | (a, b) :: rest =>
      if (py a =? py b) && (py b =? py p) &&
         (Z.min (px a) (px b) <=? px p) && (px p <=? Z.max (px a) (px b))
      then false                                     (* on a horizontal boundary edge *)
      else
        match fliZ (p, (w, py p)) (a, b) with
        | None => pip_loop w p rest cnt
        | Some (xn, yn, dv, flag) =>
            if flag then
              if (xn =? px p * dv) && (yn =? py p * dv) then false   (* the query point itself *)
              else if Z.max (py a) (py b) <=? py p then pip_loop w p rest cnt
              else pip_loop w p rest (cnt + 1)
            else pip_loop w p rest (cnt + 1)
        end
  end.

Definition pip (w : Z) (p : pt) (ring : list pt) : bool :=
  pip_loop w p (cyc_edges ring) 0.

(* GeoPolygon.bounds = (min lon, min lat, max lon, max lat) of the outline *)
Definition minl (d : Z) (l : list Z) : Z :=
  match l with [] => d | x :: t => fold_left Z.min t x end.
Definition maxl (d : Z) (l : list Z) : Z :=
  match l with [] => d | x :: t => fold_left Z.max t x end.

Definition in_bbox (p : pt) (r : list pt) : bool :=
  (minl 0 (map px r) <=? px p) && (px p <=? maxl 0 (map px r)) &&
  (minl 0 (map py r) <=? py p) && (py p <=? maxl 0 (map py r)).

(* is_counter_clockwise(bounds): sum over cyclic edges of (x2-x1)*(y2+y1) <= 0 *)
Definition shoelace (r : list pt) : Z :=
  fold_left (fun acc e => acc + (px (snd e) - px (fst e)) * (py (snd e) + py (fst e)))
            (cyc_edges r) 0.
Definition is_ccw (r : list pt) : bool := shoelace r <=? 0.

(* GeoPolygon.__init__: close the outline if needed, then enforce the right-hand rule
   (counter-clockwise shells, clockwise when _is_hole). *)
Definition close_ring (o : list pt) : list pt :=
  match o with
  | [] => []
  | v :: _ => if pt_eqb v (last o v) then o else o ++ [v]
  end.
Definition norm_outline (is_hole : bool) (o : list pt) : list pt :=
  let c := close_ring o in
  if negb (xorb (is_ccw c) is_hole) then rev c else c.

(* holes: a hole is a GeoPolygon or a GeoBox without holes of its own (the constructor rejects
   nested holes); `coord in hole` is hole.contains_coordinate(coord). *)
Inductive hole :=
| HPoly (outline : list pt)                 (* outline as stored (closed, oriented) *)
| HBox (nw se : pt).

Definition box_in (nw se p : pt) : bool :=
  (px nw <=? px p) && (px p <=? px se) && (py se <=? py p) && (py p <=? py nw).

Definition ring_contains (w : Z) (outline : list pt) (p : pt) : bool :=
  in_bbox p outline && pip w p outline.

Definition hole_contains (w : Z) (h : hole) (p : pt) : bool :=
  match h with
  | HPoly o => ring_contains w o p
  | HBox nw se => box_in nw se p
  end.

(* GeoPolygon.contains_coordinate *)
Definition poly_contains (w : Z) (outline : list pt) (holes : list hole) (p : pt) : bool :=
  if negb (in_bbox p outline) then false
  else if negb (pip w p outline) then false
  else negb (existsb (fun h => hole_contains w h p) holes).

(* GeoBox.contains_coordinate *)
Definition box_contains (w : Z) (nw se : pt) (holes : list hole) (p : pt) : bool :=
  if negb (box_in nw se p) then false
  else negb (existsb (fun h => hole_contains w h p) holes).
