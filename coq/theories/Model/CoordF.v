(* Bit-exact model of geostructures/coordinates.py, Coordinate.__init__ (lines 18-44), over Coq's
   primitive IEEE-754 binary64 floats (round to nearest even) - the arithmetic CPython's `float`
   performs.  Companion of the rational model CoordM.v: same shape (two `while` loops written
   iteration by iteration, explicit fuel, 180 -> -180), but every `+`, `-`, `<`, `<=`, `==` is the
   float operation itself, so the model is meant to agree with the implementation on EVERY float
   input, rounding included (nan / inf too: the loops then spin and the model runs out of fuel).

   Python's integer literals meet a float operand: `90 - t`, `lon + 180` convert the literal
   (exactly) to the double of the same value; `-90 <= lat` compares an int with a float by exact
   value, which for the literals here (-360..360, all doubles) is the float comparison.
   `float(longitude)` has happened before the first line modelled here: the model's inputs are the
   converted doubles.  `if lon == 180: lon = -180` stores the Python int -180; the model has the
   double of the same value (the harness converts the stored value with float()).

   Only `PrimFloat` is imported (kernel primitives; no FloatAxioms).  No proofs in this file. *)
From Coq Require Import PrimFloat Uint63.
From GV Require Import Prelude.

(* `-90 <= lat <= 90`  and  `-180 <= lon <= 180` (chained comparisons, IEEE: false on nan) *)
Definition lat_okf (lat : float) : bool :=
  (PrimFloat.leb (-90)%float lat && PrimFloat.leb lat 90%float)%bool.
Definition lon_okf (lon : float) : bool :=
  (PrimFloat.leb (-180)%float lon && PrimFloat.leb lon 180%float)%bool.

(* body of the first loop:
     lat = 90 - (lat - 90) if lat > 90 else -90 - (lat + 90)
     lon = lon + 180 if lon < 0 else lon - 180                       *)
Definition pole_stepf (p : float * float) : float * float :=
  let (lon, lat) := p in
  let lat' := if PrimFloat.ltb 90%float lat
              then PrimFloat.sub 90%float (PrimFloat.sub lat 90%float)
              else PrimFloat.sub (-90)%float (PrimFloat.add lat 90%float) in
  let lon' := if PrimFloat.ltb lon 0%float
              then PrimFloat.add lon 180%float
              else PrimFloat.sub lon 180%float in
  (lon', lat').

(* `while not -90 <= lat <= 90: <pole_stepf>`;  None = out of fuel *)
Fixpoint pole_loopf (fuel : nat) (p : float * float) : option (float * float) :=
  if lat_okf (snd p) then Some p
  else match fuel with
       | O => None
       | S f => pole_loopf f (pole_stepf p)
       end.

(* body of the second loop:  lon = lon - 360 if lon > 180 else lon + 360 *)
Definition wrap_stepf (lon : float) : float :=
  if PrimFloat.ltb 180%float lon then PrimFloat.sub lon 360%float else PrimFloat.add lon 360%float.

(* `while not -180 <= lon <= 180: <wrap_stepf>` *)
Fixpoint wrap_loopf (fuel : nat) (lon : float) : option float :=
  if lon_okf lon then Some lon
  else match fuel with
       | O => None
       | S f => wrap_loopf f (wrap_stepf lon)
       end.

(* `if lon == 180: lon = -180`  (float ==) *)
Definition canon180f (lon : float) : float :=
  if PrimFloat.eqb lon 180%float then (-180)%float else lon.

(* Coordinate(lon, lat, _bounded=bounded): the stored (longitude, latitude).  The same fuel is
   given to each loop. *)
Definition mkf (fuel : nat) (lon lat : float) (bounded : bool) : option (float * float) :=
  if bounded then
    match pole_loopf fuel (lon, lat) with
    | None => None
    | Some (lon1, lat1) =>
        match wrap_loopf fuel lon1 with
        | None => None
        | Some lon2 => Some (canon180f lon2, lat1)
        end
    end
  else Some (canon180f lon, lat).

(* number of iterations a loop makes (for the fuel-bound statements): least fuel with a result *)
Fixpoint pole_itersf (fuel : nat) (p : float * float) : option nat :=
  if lat_okf (snd p) then Some O
  else match fuel with
       | O => None
       | S f => option_map S (pole_itersf f (pole_stepf p))
       end.
Fixpoint wrap_itersf (fuel : nat) (lon : float) : option nat :=
  if lon_okf lon then Some O
  else match fuel with
       | O => None
       | S f => option_map S (wrap_itersf f (wrap_stepf lon))
       end.

(* Python `==` on the stored (longitude, latitude, z) with float semantics: -0.0 == 0.0, nan != nan *)
Definition of_eqb (a b : option float) : bool :=
  match a, b with
  | Some x, Some y => PrimFloat.eqb x y
  | None, None => true
  | _, _ => false
  end.
Definition ceqb_f (a b : float * float * option float) : bool :=
  let '(lon1, lat1, z1) := a in
  let '(lon2, lat2, z2) := b in
  (PrimFloat.eqb lat1 lat2 && PrimFloat.eqb lon1 lon2 && of_eqb z1 z2)%bool.
