(* Executable model of the text formats of geostructures/coordinates.py:
   to_dms / from_dms / to_qdms (after repair D19) / from_qdms, utils.functions.round_half_up,
   and to_projection / from_projection with the third-party transform as a Section variable.

   Numbers are exact rationals.  A float that the code obtains from `round(x, p)` is the double
   nearest to a decimal k / 10^p; the model carries the integer k (DESIGN section 3: a decimal float
   is represented by its lexical class; the harness verifies `value == k / 10**p` on every
   observation, and `f'{h/100:.2f}'` is validated against [str2] on all 6001 values).
   No proofs in this file. *)
From Coq Require Import QArith Qround Qabs String Ascii.
From GV Require Import Prelude CoordM.
Open Scope Z_scope.

(* ------------------------------------------------------------------ rounding *)
Definition p10 (p : Z) : Q := inject_Z (10 ^ p).

(* Python `round(v, p)` on the exact value v: the nearest multiple of 10^-p, ties to the even
   multiple.  Returns the integer k with result k / 10^p. *)
Definition round_even_k (v : Q) (p : Z) : Z :=
  let s := (v * p10 p)%Q in
  let f := Qfloor s in
  match ((s - inject_Z f) ?= (1 # 2))%Q with
  | Lt => f
  | Gt => f + 1
  | Eq => if Z.even f then f else f + 1
  end.

(* round_half_up(value, precision) = round(value + 10 ** -(precision + 12), precision) *)
Definition rhu_k (v : Q) (p : Z) : Z := round_even_k (v + / p10 (p + 12))%Q p.
Definition rhu (v : Q) (p : Z) : Q := (inject_Z (rhu_k v p) / p10 p)%Q.

(* ------------------------------------------------------------------ DMS *)
(* one axis of to_dms: degrees, minutes, seconds in units of 10^-5, and the hemisphere flag
   (true = 'E' / 'N', i.e. value >= 0) *)
Record dms := mkdms { dg : Z; mn : Z; s5 : Z; pos : bool }.

(* convert(dd) after x = abs(dd) * 3600:
     minutes, seconds = divmod(x, 60); degrees, minutes = divmod(minutes, 60)
     int(degrees), int(minutes), round_half_up(seconds, 5)                      *)
Definition dms_of_x (x : Q) (positive : bool) : dms :=
  let mt := Qfloor (x / 60)%Q in
  let sec := (x - 60 * inject_Z mt)%Q in
  mkdms (mt / 60) (mt mod 60) (rhu_k sec 5) positive.

Definition to_dms_axis (dd : Q) : dms := dms_of_x (Qabs dd * 3600)%Q (Qle_bool 0 dd).

(* Coordinate.to_dms : (longitude tuple, latitude tuple) *)
Definition to_dms (c : coord) : dms * dms := (to_dms_axis (clon c), to_dms_axis (clat c)).

(* convert(dms) of from_dms:  mult * (d + m / 60 + s / 3600)  with s any number *)
Definition dms_value (d m s : Q) (positive : bool) : Q :=
  ((if positive then 1 else -1) * (d + m / 60 + s / 3600))%Q.

Definition dms_num (t : dms) : Q :=
  dms_value (inject_Z (dg t)) (inject_Z (mn t)) (inject_Z (s5 t) / p10 5)%Q (pos t).

(* Coordinate.from_dms(lon, lat) = Coordinate(convert(lon), convert(lat)) *)
Definition from_dms (lon lat : dms) : res coord := mk (dms_num lon) (dms_num lat) None None true.

(* ------------------------------------------------------------------ decimal text *)
Open Scope string_scope.
Open Scope Z_scope.

Definition digit (d : Z) : ascii := ascii_of_N (48 + Z.to_N d).

Fixpoint digits_aux (fuel : nat) (n : Z) (acc : string) : string :=
  let acc' := String (digit (n mod 10)) acc in
  match fuel with
  | O => acc'
  | S f => if n <? 10 then acc' else digits_aux f (n / 10) acc'
  end.

(* str(n) for an int n >= 0 *)
Definition digits (n : Z) : string := digits_aux (Z.to_nat (Z.log2 n)) n "".

Fixpoint zeros (n : nat) : string :=
  match n with O => "" | S k => String "0" (zeros k) end.

(* '0' * (length - len(s)) + s    (a negative count gives the empty string) *)
Definition pad (len : nat) (s : string) : string := zeros (len - String.length s) ++ s.

(* the text f'{h/100:.2f}' with the '.' removed, for the float h/100, h >= 0:
   integer part, then exactly two decimals *)
Definition two (n : Z) : string := String (digit (n / 10)) (String (digit (n mod 10)) "").
Definition str2 (h : Z) : string := digits (h / 100) ++ "." ++ two (h mod 100).
Definition str2_nodot (h : Z) : string := digits (h / 100) ++ two (h mod 100).

(* str(h/100) as Python prints the float (shortest repr) with the '.' removed: what zero_pad
   used before repair D19 - trailing zeros of the hundredths are dropped ('12.0', '12.5') *)
Definition repr_nodot_preD19 (h : Z) : string :=
  digits (h / 100) ++
  (if h mod 100 =? 0 then "0"
   else if h mod 10 =? 0 then String (digit (h mod 100 / 10)) ""
   else two (h mod 100)).

(* hundredths of a second written by to_qdms: round_half_up(seconds, 2) of the float k5/10^5 *)
Definition hund (k5 : Z) : Z := rhu_k (inject_Z k5 / p10 5)%Q 2.

(* one axis of to_qdms: hemisphere letter, zero_pad(abs(deg), deglen), zero_pad(min, 2),
   zero_pad(round_half_up(sec, 2), 4) *)
Definition qdms_axis_with (fmt : Z -> string) (deglen : nat) (letters : ascii * ascii) (t : dms) : string :=
  String (if pos t then fst letters else snd letters)
         (pad deglen (digits (Z.abs (dg t))) ++ pad 2 (digits (mn t)) ++ pad 4 (fmt (hund (s5 t)))).

Definition qdms_axis := qdms_axis_with str2_nodot.

Definition EW : ascii * ascii := ("E"%char, "W"%char).
Definition NS : ascii * ascii := ("N"%char, "S"%char).

(* Coordinate.to_qdms(reverse) *)
Definition to_qdms (c : coord) (reverse : bool) : string * string :=
  let (lo, la) := to_dms c in
  let slo := qdms_axis 3 EW lo in
  let sla := qdms_axis 2 NS la in
  if reverse then (sla, slo) else (slo, sla).

Definition to_qdms_preD19 (c : coord) : string * string :=
  let (lo, la) := to_dms c in
  (qdms_axis_with repr_nodot_preD19 3 EW lo, qdms_axis_with repr_nodot_preD19 2 NS la).

(* float(s) for a string of decimal digits (None: not such a string - outside the model) *)
Definition digit_val (a : ascii) : option Z :=
  let n := Z.of_N (N_of_ascii a) in
  if (48 <=? n) && (n <=? 57) then Some (n - 48) else None.

Fixpoint parse_acc (s : string) (acc : Z) : option Z :=
  match s with
  | EmptyString => Some acc
  | String a r => match digit_val a with
                  | Some d => parse_acc r (10 * acc + d)
                  | None => None
                  end
  end.
Definition parse_nat (s : string) : option Z :=
  match s with EmptyString => None | _ => parse_acc s 0 end.

(* convert(q, d, m, s) of from_qdms on one string:  d = str[1:1+deglen], m the next two
   characters, s the remaining four read as SS.HH.  Defined on strings of the exact width
   (1 + deglen + 6) whose fields are digits; None otherwise (outside the model). *)
Definition qdms_value (deglen : nat) (str : string) : option Q :=
  if negb (String.length str =? S (deglen + 6))%nat then None else
  match String.get 0 str, parse_nat (substring 1 deglen str),
        parse_nat (substring (1 + deglen) 2 str),
        parse_nat (substring (3 + deglen) 2 str), parse_nat (substring (5 + deglen) 2 str) with
  | Some q, Some d, Some m, Some ss, Some hh =>
      let v := (inject_Z d + inject_Z m / 60 + (inject_Z ss + inject_Z hh / 100) / 3600)%Q in
      Some (if (Ascii.eqb q "W" || Ascii.eqb q "S")%bool then (v * -1)%Q else (v * 1)%Q)
  | _, _, _, _, _ => None
  end.

(* Coordinate.from_qdms(lon, lat) = Coordinate(round_half_up(convert(lon), 6), round_half_up(convert(lat), 6)) *)
Definition from_qdms (slon slat : string) : option (res coord) :=
  match qdms_value 3 slon, qdms_value 2 slat with
  | Some a, Some b => Some (mk (rhu a 6) (rhu b 6) None None true)
  | _, _ => None
  end.

(* ------------------------------------------------------------------ projections *)
Section Projection.
  (* pyproj's Transformer.transform(lat, lon) for the chosen pair of reference systems *)
  Variable T : Q -> Q -> Q * Q.

  (* Coordinate.to_projection: the third positional argument of Coordinate(...) is z, so the
     literal False lands in z (False == 0) and _bounded keeps its default True (finding D20) *)
  Definition to_projection (c : coord) : res coord :=
    let (x, y) := T (clat c) (clon c) in
    mk (rhu y 6) (rhu x 6) (Some 0%Q) None true.

  (* Coordinate.from_projection(lon, lat, crs) *)
  Definition from_projection (lon lat : Q) : res coord :=
    let (x, y) := T lat lon in
    mk (rhu y 6) (rhu x 6) None None true.
End Projection.
