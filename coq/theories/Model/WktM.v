(* Executable model of the WKT path of geostructures (C13).  Two layers, no proofs here.

   TOKEN LEVEL (what the theorems are about): a WKT text seen as a tag, an optional Z/M marker
   and nested lists of coordinate tuples; [write] per shape type (to_wkt, _linear_ring_to_wkt,
   Coordinate.to_str's truthiness rule for Z); [read] per type = the structural demands of the
   regex gate (tag, nesting depth, non-empty lists, 2..4 numbers per coordinate) followed by the
   per-type assembly loops of from_wkt; [parse_wkt] = dispatch on the (case-sensitive) keyword.

   CHARACTER LEVEL (executable; tied to /repo by the correspondence and, for the grammar, by the
   translator): a backtracking regular-expression matcher with Python's greedy semantics, the
   gate regexes of _base.py as data, findall, str.split(' '), the lexical grammar of float(),
   composed exactly as from_wkt composes them, ending in the same assembly as the token level.

   Numbers: token level = integers in a fixed unit (as in RingM); character level = decimals
   (mantissa, exponent) brought to one common power of ten per text. *)
From Coq Require Import String Ascii.
From GV Require Import Prelude RingM.
Open Scope Z_scope.

(* ====================== token level ====================== *)

Inductive wtag := TPoint | TLine | TPoly | TMPoint | TMLine | TMPoly.

Definition wtag_eqb (a b : wtag) : bool :=
  match a, b with
  | TPoint, TPoint | TLine, TLine | TPoly, TPoly | TMPoint, TMPoint | TMLine, TMLine | TMPoly, TMPoly => true
  | _, _ => false
  end.

Inductive zml := LZ | LM.                 (* letters of the Z/M marker *)

Definition tuple := list Z.               (* the numbers of one coordinate text *)

(* POINT(x y) is a one-element list of tuples: the text alone does not tell it from LINESTRING's *)
Inductive wbody :=
| W1 (l : list tuple)
| W2 (l : list (list tuple))
| W3 (l : list (list (list tuple))).

(* tag = None: some other leading word; upper: the keyword is written in capitals *)
Record wkt := mkwkt { w_tag : option wtag; w_upper : bool; w_zm : list zml; w_body : wbody }.

(* Coordinate.to_str : lon, lat, and z only when truthy (D14) *)
Definition tuple_of (c : coord) : tuple :=
  lon c :: lat c :: match truthy_z (cz c) with Some z => [z] | None => [] end.

Definition wring (r : ring) : list tuple := map tuple_of r.

Section Write.
Variable orc : oracle.
(* For GeoRing (full) the oracle's o_outer / o_inner stand for
   GeoCircle(center, outer_radius).bounding_coords(k) and GeoCircle(center, inner_radius)... *)
Definition write (k : option Z) (g : geom) : wkt :=
  match g with
  | GPoint c => mkwkt (Some TPoint) true [] (W1 [tuple_of c])
  | GLine vs => mkwkt (Some TLine) true [] (W1 (wring vs))
  | GMPoint cs => mkwkt (Some TMPoint) true [] (W1 (wring cs))
  | GMLine ls => mkwkt (Some TMLine) true [] (W2 (map wring ls))
  | GMPoly ps => mkwkt (Some TMPoly) true [] (W3 (map (fun p => map wring (linear_rings p)) ps))
  | GRingFull id hs =>
      mkwkt (Some TPoly) true []
            (W2 (map wring (o_outer orc id k :: o_inner orc id k :: map (@rev coord) hs)))
  | _ => mkwkt (Some TPoly) true [] (W2 (map wring (geom_rings orc k g)))
  end.
End Write.

(* Coordinate.from_wkt: zm = dict(zip(order, map(float, parts[2:]))) *)
Fixpoint zm_assign (order : list zml) (vals : list Z) (z : option Z) : option Z :=
  match order, vals with
  | o :: order', v :: vals' => zm_assign order' vals' (match o with LZ => Some v | LM => z end)
  | _, _ => z
  end.

Definition zm_order (m : list zml) : list zml := match m with [] => [LZ; LM] | _ => m end.

Definition coord_of (m : list zml) (t : tuple) : res coord :=
  match t with
  | x :: y :: rest => Ok (mkc x y (zm_assign (zm_order m) rest None))
  | _ => Err TypeError            (* Coordinate() missing latitude *)
  end.

Fixpoint mapR {A B} (f : A -> res B) (l : list A) : res (list B) :=
  match l with
  | [] => Ok []
  | a :: l' =>
      match f a with
      | Err e => Err e
      | Ok b => match mapR f l' with Err e => Err e | Ok bs => Ok (b :: bs) end
      end
  end.

Section Read.
Variable half : Z.

(* GeoPolygon(ring) : IndexError on an empty list *)
Definition ctor (r : ring) : res ring :=
  match r with [] => Err IndexError | _ => Ok (norm_ring half false r) end.

(* shell = rings[0]; holes = [GeoPolygon(ring) for ring in rings[1:]] (built first) *)
Definition assemble_polygon (rings : list ring) : res polygon :=
  match rings with
  | [] => Err IndexError
  | shell :: hs =>
      match mapR ctor hs with
      | Err e => Err e
      | Ok holes => match ctor shell with Err e => Err e | Ok o => Ok (mkpoly o holes) end
      end
  end.

(* the assembly loops of from_wkt, from already parsed coordinates *)
Inductive cbody := C1 (l : list coord) | C2 (l : list (list coord)) | C3 (l : list (list (list coord))).

Definition assemble (t : wtag) (b : cbody) : res geom :=
  match t, b with
  | TPoint, C1 (c :: _) => Ok (GPoint c)
  | TPoint, C1 [] => Err IndexError
  | TLine, C1 l => Ok (GLine l)
  | TMPoint, C1 l => Ok (GMPoint l)
  | TMPoint, C2 l => Ok (GMPoint (concat l))   (* the OGC form, one parenthesised coordinate per point (repair D41) *)
  | TMLine, C2 l => Ok (GMLine l)
  | TPoly, C2 l => match assemble_polygon l with Ok p => Ok (GPoly p) | Err e => Err e end
  | TMPoly, C3 l => match mapR assemble_polygon l with Ok ps => Ok (GMPoly ps) | Err e => Err e end
  | _, _ => Err ValueError
  end.

Definition arity_ok (t : tuple) : bool := (2 <=? length t)%nat && (length t <=? 4)%nat.
Definition nonempty {A} (l : list A) : bool := match l with [] => false | _ => true end.

(* what the regex gate of type t demands of the structure *)
Definition gate (t : wtag) (w : wkt) : bool :=
  match w_tag w with
  | Some t' =>
      wtag_eqb t t' &&
      match t, w_body w with
      | TPoint, W1 [c] => arity_ok c
      | TLine, W1 l | TMPoint, W1 l => nonempty l && forallb arity_ok l
      | TMPoint, W2 l => nonempty l && forallb (fun r => match r with [c] => arity_ok c | _ => false end) l
      | TPoly, W2 l | TMLine, W2 l => nonempty l && forallb (fun r => nonempty r && forallb arity_ok r) l
      | TMPoly, W3 l =>
          nonempty l && forallb (fun p => nonempty p && forallb (fun r => nonempty r && forallb arity_ok r) p) l
      | _, _ => false
      end
  | None => false
  end.

Definition parse_body (m : list zml) (b : wbody) : res cbody :=
  match b with
  | W1 l => match mapR (coord_of m) l with Ok x => Ok (C1 x) | Err e => Err e end
  | W2 l => match mapR (mapR (coord_of m)) l with Ok x => Ok (C2 x) | Err e => Err e end
  | W3 l => match mapR (mapR (mapR (coord_of m))) l with Ok x => Ok (C3 x) | Err e => Err e end
  end.

(* Type.from_wkt *)
Definition read (t : wtag) (w : wkt) : res geom :=
  if gate t w then
    match parse_body (w_zm w) (w_body w) with
    | Err e => Err e
    | Ok b => assemble t b
    end
  else Err ValueError.

(* parsers.parse_wkt : the keyword must be one of the six, in capitals *)
Definition parse_wkt (w : wkt) : res geom :=
  match w_tag w with
  | Some t => if w_upper w then read t w else Err ValueError
  | None => Err ValueError
  end.
End Read.

Definition kind_tag (g : geom) : option wtag :=
  match g with
  | GPoint _ => Some TPoint | GLine _ => Some TLine | GPoly _ => Some TPoly
  | GMPoint _ => Some TMPoint | GMLine _ => Some TMLine | GMPoly _ => Some TMPoly
  | _ => None
  end.

(* ====================== character level ====================== *)

Inductive cls := CChar (c : ascii) | CDigit | CSpace | CRange (lo hi : ascii).

Inductive re :=
| RSet (neg : bool) (l : list cls)              (* one character *)
| RSeq (l : list re)
| RAlt (l : list re)
| RRep (lo : nat) (hi : option nat) (r : re)    (* greedy {lo,hi} *)
| RGroup (r : re)                               (* capturing group *)
| RBol | REol.                                  (* ^ and $ (no MULTILINE) *)

Definition an (c : ascii) : nat := nat_of_ascii c.
Definition lower_a (c : ascii) : ascii :=
  if (Nat.leb 65 (an c) && Nat.leb (an c) 90)%bool then ascii_of_nat (an c + 32) else c.

Definition is_digit (c : ascii) : bool := (Nat.leb 48 (an c) && Nat.leb (an c) 57)%bool.
(* \s on ASCII text *)
Definition is_space (c : ascii) : bool := ((Nat.leb 9 (an c) && Nat.leb (an c) 13) || Nat.eqb (an c) 32)%bool.

Definition cls_match (ic : bool) (c : ascii) (x : cls) : bool :=
  match x with
  | CChar d => if ic then Ascii.eqb (lower_a c) (lower_a d) else Ascii.eqb c d
  | CDigit => is_digit c
  | CSpace => is_space c
  | CRange lo hi => (Nat.leb (an lo) (an c) && Nat.leb (an c) (an hi))%bool
  end.

Definition str := list ascii.

Inductive mres := MNo | MOof | MYes (rest : str) (cap : option str).

Definition opred (o : option nat) : option nat := match o with Some n => Some (pred n) | None => None end.

(* continuation-passing backtracking matcher; [n0] = length of the whole subject (for ^) *)
Fixpoint mt (fuel : nat) (ic : bool) (n0 : nat) (r : re) (s : str) (cap : option str)
            (k : str -> option str -> mres) : mres :=
  match fuel with
  | O => MOof
  | S f =>
      match r with
      | RSet neg l =>
          match s with
          | [] => MNo
          | c :: s' => if xorb neg (existsb (cls_match ic c) l) then k s' cap else MNo
          end
      | RSeq l =>
          match l with
          | [] => k s cap
          | r1 :: l' => mt f ic n0 r1 s cap (fun s' cap' => mt f ic n0 (RSeq l') s' cap' k)
          end
      | RAlt l =>
          match l with
          | [] => MNo
          | r1 :: l' =>
              match mt f ic n0 r1 s cap k with
              | MNo => mt f ic n0 (RAlt l') s cap k
              | x => x
              end
          end
      | RRep lo hi r1 =>
          let more :=
            match hi with
            | Some O => MNo
            | _ => mt f ic n0 r1 s cap
                      (fun s' cap' => if Nat.eqb (length s') (length s) then MNo
                                      else mt f ic n0 (RRep (pred lo) (opred hi) r1) s' cap' k)
            end in
          match more with
          | MNo => if Nat.eqb lo 0 then k s cap else MNo
          | x => x
          end
      | RGroup r1 =>
          mt f ic n0 r1 s cap (fun s' _ => k s' (Some (firstn (length s - length s') s)))
      | RBol => if Nat.eqb (length s) n0 then k s cap else MNo
      | REol =>
          match s with
          | [] => k s cap
          | [c] => if Nat.eqb (an c) 10 then k s cap else MNo
          | _ => MNo
          end
      end
  end.

Definition fuel_for (s : str) : nat := (length s * 60 + 400)%nat.

(* re.match(r, s) is not None  (None = the fuel ran out: never on the inputs of the check) *)
Definition re_match (ic : bool) (r : re) (s : str) : option bool :=
  match mt (fuel_for s) ic (length s) r s None (fun s' c => MYes s' c) with
  | MYes _ _ => Some true
  | MNo => Some false
  | MOof => None
  end.

(* re.findall: leftmost matches, non-overlapping; group 1 if the pattern has a group *)
Fixpoint findall_from (n : nat) (fuel : nat) (ic : bool) (n0 : nat) (r : re) (s : str) : option (list str) :=
  match n with
  | O => Some []
  | S n' =>
      match mt fuel ic n0 r s None (fun s' c => MYes s' c) with
      | MOof => None
      | MYes s' c =>
          let whole := firstn (length s - length s') s in
          let item := match c with Some g => g | None => whole end in
          let next := if Nat.eqb (length s') (length s) then tl s else s' in
          match s with
          | [] => Some [item]
          | _ => match findall_from n' fuel ic n0 r next with
                 | Some l => Some (item :: l)
                 | None => None
                 end
          end
      | MNo =>
          match s with
          | [] => Some []
          | _ :: s' => findall_from n' fuel ic n0 r s'
          end
      end
  end.

Definition findall (ic : bool) (r : re) (s : str) : option (list str) :=
  findall_from (S (length s)) (fuel_for s) ic (length s) r s.

(* str.split(' ') *)
Fixpoint split_sp (s : str) (cur : str) : list str :=
  match s with
  | [] => [rev cur]
  | c :: s' => if Nat.eqb (an c) 32 then rev cur :: split_sp s' [] else split_sp s' (c :: cur)
  end.

(* ---- float(text) on ASCII: value as mantissa * 10^exponent, None = ValueError ---- *)
Definition dec := (Z * Z)%type.

Fixpoint take_digits (s : str) (acc : Z) (n : Z) : (Z * Z * str) :=
  match s with
  | c :: s' => if is_digit c then take_digits s' (acc * 10 + Z.of_nat (an c - 48)) (n + 1) else (acc, n, s)
  | [] => (acc, n, s)
  end.

Fixpoint strip_l (s : str) : str :=
  match s with c :: s' => if is_space c then strip_l s' else s | [] => [] end.

Definition strip (s : str) : str := rev (strip_l (rev (strip_l s))).

Definition is_c (c : ascii) (n : nat) : bool := Nat.eqb (an c) n.

Definition float_lex (s0 : str) : option dec :=
  let s := strip s0 in
  let '(neg, s) := match s with
                   | c :: s' => if is_c c 45 then (true, s') else if is_c c 43 then (false, s') else (false, s)
                   | [] => (false, s)
                   end in
  let '(ip, nip, s) := take_digits s 0 0 in
  let '(m, nfp, nd, s) :=
    match s with
    | c :: s' => if is_c c 46 then let '(m, nfp, s'') := take_digits s' ip 0 in (m, nfp, nip + nfp, s'')
                 else (ip, 0, nip, s)
    | [] => (ip, 0, nip, s)
    end in
  if nd =? 0 then None
  else
    let sm := if neg then - m else m in
    match s with
    | [] => Some (sm, - nfp)
    | c :: s' =>
        if (is_c c 101 || is_c c 69)%bool then
          let '(eneg, s') := match s' with
                             | d :: s'' => if is_c d 45 then (true, s'') else if is_c d 43 then (false, s'') else (false, s')
                             | [] => (false, s')
                             end in
          let '(e, ne, rest) := take_digits s' 0 0 in
          if ne =? 0 then None
          else match rest with
               | [] => Some (sm, (if eneg then - e else e) - nfp)
               | _ => None
               end
        else None
    end.

(* ---- the grammar: the regexes of _base.py as data (tied to /repo by the translator) ---- *)
Definition ch (s : string) : ascii := match s with String c _ => c | EmptyString => zero end.
Definition lit (s : string) : re := RSeq (map (fun c => RSet false [CChar c]) (list_ascii_of_string s)).
Definition opt (r : re) : re := RRep 0 (Some 1%nat) r.
Definition sp_opt : re := opt (RSet false [CSpace]).
Definition dig : re := RSet false [CDigit].

(* "(?:-?\d+(?:\.\d{0,})?(?:[eE][-+]?\d+)?\s?){2,4}\s?"  (d{0,} written for the star; after repair D33) *)
Definition re_coord : re :=
  RSeq [RRep 2 (Some 4%nat)
          (RSeq [opt (RSet false [CChar (ch "-")]); RRep 1 None dig;
                 opt (RSeq [RSet false [CChar (ch ".")]; RRep 0 None dig]);
                 opt (RSeq [RSet false [CChar (ch "e"); CChar (ch "E")];
                            opt (RSet false [CChar (ch "-"); CChar (ch "+")]); RRep 1 None dig]);
                 sp_opt]);
        sp_opt].

(* "\((?:\s?COORD\s?\,?)+\)" *)
Definition re_ring : re :=
  RSeq [RSet false [CChar (ch "(")];
        RRep 1 None (RSeq [sp_opt; re_coord; sp_opt; opt (RSet false [CChar (ch ",")])]);
        RSet false [CChar (ch ")")]].

(* "(\((?:RING\,?\s?)+\))" *)
Definition re_rings : re :=
  RGroup (RSeq [RSet false [CChar (ch "(")];
                RRep 1 None (RSeq [re_ring; opt (RSet false [CChar (ch ",")]); sp_opt]);
                RSet false [CChar (ch ")")]]).

(* "\s?([ZM]{0,2})\s?" *)
Definition re_zm_opt : re :=
  RSeq [sp_opt; RGroup (RRep 0 (Some 2%nat) (RSet false [CChar (ch "Z"); CChar (ch "M")])); sp_opt].

Definition gate_re (t : wtag) : re :=
  match t with
  | TPoint => RSeq [RBol; lit "POINT"; re_zm_opt; RSet false [CChar (ch "(")]; sp_opt; re_coord; sp_opt;
                    RSet false [CChar (ch ")")]; REol]
  | TPoly => RSeq [RBol; lit "POLYGON"; re_zm_opt; re_rings; REol]
  | TLine => RSeq [RBol; lit "LINESTRING"; re_zm_opt; re_ring; REol]
  | TMPoint => RSeq [RBol; lit "MULTIPOINT"; re_zm_opt; re_ring; REol]
  | TMPoly => RSeq [RBol; lit "MULTIPOLYGON"; re_zm_opt; RSet false [CChar (ch "(")];
                    RRep 1 None (RGroup (RSeq [re_rings; opt (RSet false [CChar (ch ",")]); sp_opt]));
                    RSet false [CChar (ch ")")]; REol]
  | TMLine => RSeq [RBol; lit "MULTILINESTRING"; re_zm_opt; re_rings; REol]
  end.

(* _RE_MULTIPOINT_NESTED_WKT (repair D41): the OGC form, one parenthesised coordinate per point
   "^MULTIPOINT" zm "\((?:\s?\(\s?" coord "\s?\)\s?\,?)+\)$" *)
Definition re_mpoint_nested : re :=
  RSeq [RBol; lit "MULTIPOINT"; re_zm_opt; RSet false [CChar (ch "(")];
        RRep 1 None (RSeq [sp_opt; RSet false [CChar (ch "(")]; sp_opt; re_coord; sp_opt; RSet false [CChar (ch ")")];
                           sp_opt; opt (RSet false [CChar (ch ",")])]);
        RSet false [CChar (ch ")")]; REol].

(* "^(?:(?:MULTI)?(?:(?:POINT)|(?:POLYGON)|(?:LINESTRING)))\s?([ZM]{1,2})\s?"   (case-sensitive) *)
Definition re_zm : re :=
  RSeq [RBol; opt (lit "MULTI"); RAlt [lit "POINT"; lit "POLYGON"; lit "LINESTRING"]; sp_opt;
        RGroup (RRep 1 (Some 2%nat) (RSet false [CChar (ch "Z"); CChar (ch "M")])); sp_opt].

(* "^[a-zA-Z]+" *)
Definition re_word : re :=
  RSeq [RBol; RRep 1 None (RSet false [CRange (ch "a") (ch "z"); CRange (ch "A") (ch "Z")])].

(* ---- from_wkt on characters ---- *)

Definition zm_letters (s : str) : list zml :=
  map (fun c => if is_c c 90 then LZ else LM) s.

Inductive cerr := EFuel | EPy (e : errk).

Definition lift {A} (o : option A) : sum cerr A := match o with Some a => inr a | None => inl EFuel end.

Fixpoint mapS {A B} (f : A -> sum cerr B) (l : list A) : sum cerr (list B) :=
  match l with
  | [] => inr []
  | a :: l' => match f a with
               | inl e => inl e
               | inr b => match mapS f l' with inl e => inl e | inr bs => inr (b :: bs) end
               end
  end.

(* Coordinate.from_wkt(text, zm_order) : numbers as decimals.  zip stops after len(order) values *)
Definition dcoord := (dec * dec * option dec)%type.

Fixpoint zm_assign_d (order : list zml) (vals : list str) (z : option dec) : sum cerr (option dec) :=
  match order, vals with
  | o :: order', v :: vals' =>
      match float_lex v with
      | None => inl (EPy ValueError)
      | Some d => zm_assign_d order' vals' (match o with LZ => Some d | LM => z end)
      end
  | _, _ => inr z
  end.

Definition coord_from_text (order : list zml) (t : str) : sum cerr dcoord :=
  let parts := split_sp t [] in
  match zm_assign_d (if (2 <? Z.of_nat (length parts)) then order else []) (skipn 2 parts) None with
  | inl e => inl e
  | inr z =>
      match parts with
      | a :: b :: _ =>
          match float_lex a, float_lex b with
          | Some x, Some y => inr (x, y, z)
          | _, _ => inl (EPy ValueError)
          end
      | _ => inl (EPy TypeError)
      end
  end.

(* _parse_wkt_linear_ring(wkt_str, text) *)
Definition ring_from_text (order : list zml) (t : str) : sum cerr (list dcoord) :=
  match findall false re_coord t with
  | None => inl EFuel
  | Some toks => mapS (coord_from_text order) toks
  end.

Inductive dbody := D1 (l : list dcoord) | D2 (l : list (list dcoord)) | D3 (l : list (list (list dcoord))).

Definition nth0 {A} (l : list A) : sum cerr A := match l with a :: _ => inr a | [] => inl (EPy IndexError) end.

Definition scan_body (nested : bool) (t : wtag) (s : str) : sum cerr dbody :=
      match findall false re_zm s with
      | None => inl EFuel
      | Some zms =>
          let order := zm_order (match zms with z :: _ => zm_letters z | [] => [] end) in
          match t with
          | TPoint =>
              match lift (findall false re_coord s) with
              | inl e => inl e
              | inr cs => match nth0 cs with
                          | inl e => inl e
                          | inr c => match ring_from_text order c with inl e => inl e | inr l => inr (D1 l) end
                          end
              end
          | TLine | TMPoint =>
              match lift (findall false re_ring s) with
              | inl e => inl e
              | inr rs =>
                  if nested
                  then (* every "(x y)" group is found as a ring of one coordinate; the coordinates are concatenated *)
                       match mapS (ring_from_text order) rs with inl e => inl e | inr l => inr (D1 (concat l)) end
                  else match nth0 rs with
                       | inl e => inl e
                       | inr r => match ring_from_text order r with inl e => inl e | inr l => inr (D1 l) end
                       end
              end
          | TPoly | TMLine =>
              match lift (findall false re_ring s) with
              | inl e => inl e
              | inr rs => match mapS (ring_from_text order) rs with inl e => inl e | inr l => inr (D2 l) end
              end
          | TMPoly =>
              match lift (findall false re_rings s) with
              | inl e => inl e
              | inr shapes =>
                  match mapS (fun sh => match lift (findall false re_ring sh) with
                                        | inl e => inl e
                                        | inr rs => mapS (ring_from_text order) rs
                                        end) shapes with
                  | inl e => inl e
                  | inr l => inr (D3 l)
                  end
              end
          end
      end.

(* the validating regex of the type; MultiGeoPoint.from_wkt tries the flat form, then the nested one *)
Definition scan (t : wtag) (s : str) : sum cerr dbody :=
  match re_match true (gate_re t) s with
  | None => inl EFuel
  | Some true => scan_body false t s
  | Some false =>
      match t with
      | TMPoint => match re_match true re_mpoint_nested s with
                   | None => inl EFuel
                   | Some true => scan_body true t s
                   | Some false => inl (EPy ValueError)
                   end
      | _ => inl (EPy ValueError)
      end
  end.

(* common power of ten *)
Definition dc_exps (c : dcoord) : list Z :=
  let '(x, y, z) := c in snd x :: snd y :: match z with Some d => [snd d] | None => [] end.

Definition body_exps (b : dbody) : list Z :=
  match b with
  | D1 l => flat_map dc_exps l
  | D2 l => flat_map (flat_map dc_exps) l
  | D3 l => flat_map (flat_map (flat_map dc_exps)) l
  end.

Definition min_exp (l : list Z) : Z := fold_right Z.min 0 l.

Definition at_exp (e : Z) (d : dec) : Z := fst d * 10 ^ (snd d - e).

Definition dc_to (e : Z) (c : dcoord) : coord :=
  let '(x, y, z) := c in mkc (at_exp e x) (at_exp e y) (option_map (at_exp e) z).

Definition body_to (e : Z) (b : dbody) : cbody :=
  match b with
  | D1 l => C1 (map (dc_to e) l)
  | D2 l => C2 (map (map (dc_to e)) l)
  | D3 l => C3 (map (map (map (dc_to e))) l)
  end.

(* Type.from_wkt(text): the geometry in units of 10^e degrees, and e *)
Definition from_wkt_chars (t : wtag) (s : str) : sum cerr (res (geom * Z)) :=
  match scan t s with
  | inl EFuel => inl EFuel
  | inl (EPy e) => inr (Err e)
  | inr b =>
      let e := min_exp (body_exps b) in
      match assemble (180 * 10 ^ (- e)) t (body_to e b) with
      | Ok g => inr (Ok (g, e))
      | Err x => inr (Err x)
      end
  end.

Definition tag_of_word (w : str) : option wtag :=
  let s := string_of_list_ascii w in
  if String.eqb s "POINT" then Some TPoint else if String.eqb s "LINESTRING" then Some TLine
  else if String.eqb s "POLYGON" then Some TPoly else if String.eqb s "MULTIPOINT" then Some TMPoint
  else if String.eqb s "MULTILINESTRING" then Some TMLine else if String.eqb s "MULTIPOLYGON" then Some TMPoly
  else None.

(* parsers.parse_wkt(text) *)
Definition parse_wkt_chars (s : str) : sum cerr (res (geom * Z)) :=
  match findall false re_word s with
  | None => inl EFuel
  | Some [] => inr (Err ValueError)
  | Some (w :: _) =>
      match tag_of_word w with
      | Some t => from_wkt_chars t s
      | None => inr (Err ValueError)
      end
  end.
