(* Model of GeoRing.bounds on its WEDGE branch (structures.py ~l.1203: angle_max - angle_min < 360) over
   the real-number model of the spherical calculator (SphereM.v) and of the boundary generator
   (CurveM.ring_pts).  Definitions only; proofs are in Proofs/BoundsCurveP7.v .. P9.v, the property
   statements in Props/C09d.v.

       lons, lats = zip( *[y.to_float() for y in self.bounding_coords()] )
       return min(lons), min(lats), max(lons), max(lats)

   bounding_coords() of a wedge is [ *outer_bounds, *inner_bounds[::-1], outer_bounds[0] ]: exactly
   CurveM.ring_pts s k whenever ring_is_full s = false, which holds for every angle range < 360
   (BoundsCurveP7.wedge_not_full); k = CurveM.ring_default_k s when no `k` keyword is given.

   Abstraction (as in SphereM / CurveM / BoundsCurveM): a float is a real number; a Coordinate is
   (longitude, latitude) in degrees; a boundary point is the pair computed by inverse_haversine_radians
   BEFORE its rounding to 7 decimals and BEFORE the Coordinate constructor wraps the longitude into
   [-180, 180) (SphereM.dest_rad).  Python's min()/max() over a non-empty list of reals are the folds
   below (which of several equal elements is returned does not matter over R). *)
From GV Require Import Prelude SphereM CurveM BoundsCurveM.
From Coq Require Import Reals.
Open Scope R_scope.

(* min(xs) / max(xs) for a list of floats (the lists here are never empty; [] -> 0 is a dummy) *)
Definition rmin_list (l : list R) : R :=
  match l with [] => 0 | x :: t => fold_left Rmin t x end.
Definition rmax_list (l : list R) : R :=
  match l with [] => 0 | x :: t => fold_left Rmax t x end.

(* the wedge branch of GeoRing.bounds, for a given number of arc segments k *)
Definition wedge_bounds (s : ring) (k : nat) : rbnd :=
  let pts := ring_pts s k in
  let lons := map lon pts in
  let lats := map lat pts in
  (rmin_list lons, rmin_list lats, rmax_list lons, rmax_list lats).

(* ... with the default k = max(ceil((angle_max - angle_min) / 10), 10) *)
Definition wedge_bounds_default (s : ring) : rbnd := wedge_bounds s (ring_default_k s).

(* GeoRing.bounds as a whole, unrounded: first branch for angle ranges >= 360, wedge branch otherwise *)
Definition ring_bounds_unrounded (s : ring) : rbnd :=
  if rleb 360 (r_amax s - r_amin s) then circle_bounds (r_center s) (r_outer s)
  else wedge_bounds_default s.

(* ---------------------------------------------------------------- the true outline of the wedge
   The two arcs: bearings theta (degrees) in [angle_min, angle_max] at the outer / inner radius. *)
Definition on_arc (s : ring) (t : R) : Prop := rad (r_amin s) <= t <= rad (r_amax s).

(* the set of latitudes / longitudes (radians; longitude un-wrapped) taken on the two arcs *)
Definition wedge_arc_lats (s : ring) (y : R) : Prop :=
  exists t, on_arc s t /\
    (y = rad (lat (dest_rad (r_center s) t (r_outer s))) \/ y = rad (lat (dest_rad (r_center s) t (r_inner s)))).
Definition wedge_arc_lons (s : ring) (y : R) : Prop :=
  exists t, on_arc s t /\
    (y = rad (lon (dest_rad (r_center s) t (r_outer s))) \/ y = rad (lon (dest_rad (r_center s) t (r_inner s)))).

(* the two radial arms: bearing angle_min or angle_max, distance from inner to outer radius *)
Definition wedge_arm_lats (s : ring) (y : R) : Prop :=
  exists d, r_inner s <= d <= r_outer s /\
    (y = rad (lat (dest_rad (r_center s) (rad (r_amin s)) d)) \/ y = rad (lat (dest_rad (r_center s) (rad (r_amax s)) d))).
Definition wedge_arm_lons (s : ring) (y : R) : Prop :=
  exists d, r_inner s <= d <= r_outer s /\
    (y = rad (lon (dest_rad (r_center s) (rad (r_amin s)) d)) \/ y = rad (lon (dest_rad (r_center s) (rad (r_amax s)) d))).

(* the whole outline: arcs and arms *)
Definition wedge_outline_lats (s : ring) (y : R) : Prop := wedge_arc_lats s y \/ wedge_arm_lats s y.
Definition wedge_outline_lons (s : ring) (y : R) : Prop := wedge_arc_lons s y \/ wedge_arm_lons s y.

(* greatest lower bound of a set of reals (Coq's Raxioms has is_lub only) *)
Definition is_glb (E : R -> Prop) (m : R) : Prop :=
  (forall y, E y -> m <= y) /\ (forall b, (forall y, E y -> b <= y) -> b <= m).

(* ---------------------------------------------------------------- what the code returns
   inverse_haversine_radians rounds both coordinates of every sample to 7 decimals
   (SphereM.dest_rad_rounded, tied to calc.py by geneq/SphereGenEq.v): the same lists and folds over the
   rounded samples.  Not modelled: float evaluation, the Coordinate constructor's longitude wrap. *)
Definition ring_outer_pt_rounded (s : ring) (k i : nat) : coord :=
  dest_rad_rounded (r_center s) (ring_angle s k i) (r_outer s).
Definition ring_inner_pt_rounded (s : ring) (k i : nat) : coord :=
  dest_rad_rounded (r_center s) (ring_angle s k i) (r_inner s).
Definition ring_outer_pts_rounded (s : ring) (k : nat) : list coord := map (ring_outer_pt_rounded s k) (schedule k).
Definition ring_inner_pts_rounded (s : ring) (k : nat) : list coord := map (ring_inner_pt_rounded s k) (schedule k).
Definition ring_pts_rounded (s : ring) (k : nat) : list coord :=
  if ring_is_full s then ring_outer_pts_rounded s k
  else ring_outer_pts_rounded s k ++ rev (ring_inner_pts_rounded s k) ++ [hd (0, 0) (ring_outer_pts_rounded s k)].

Definition wedge_bounds_rounded (s : ring) (k : nat) : rbnd :=
  let pts := ring_pts_rounded s k in
  let lons := map lon pts in
  let lats := map lat pts in
  (rmin_list lons, rmin_list lats, rmax_list lons, rmax_list lats).

(* GeoRing.bounds: both branches, as returned (ring_bounds_full_opt of BoundsCurveM is its first branch) *)
Definition ring_bounds_rounded (s : ring) : rbnd :=
  if rleb 360 (r_amax s - r_amin s) then circle_bounds_rounded (r_center s) (r_outer s)
  else wedge_bounds_rounded s (ring_default_k s).
