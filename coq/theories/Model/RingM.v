(* Executable model of the ring machinery shared by the GeoJSON (C14) and WKT (C13) paths of
   geostructures: coordinates, ring closing, the right-hand-rule test exactly as the code
   computes it (_geometry.is_counter_clockwise incl. ensure_edge_bounds), the normalisation
   done by GeoPolygon.__init__, linear_rings, the geometry ADT and `==` of shapes.
   No proofs in this file.

   Numbers: a longitude / latitude / Z value is an integer number of 1/S degrees (S a fixed
   scale chosen by the caller; the harness uses S = 4, i.e. quarter degrees, on which the
   float arithmetic of is_counter_clockwise is exact).  [half] is 180 degrees in those units.
   Coordinates are assumed to be in canonical range already (Coordinate.__init__'s wrapping is
   the subject of C08 and is the identity there). *)
From GV Require Import Prelude.
Open Scope Z_scope.

Record coord := mkc { lon : Z; lat : Z; cz : option Z }.

(* Coordinate.__eq__ : latitude, longitude and z (m is ignored) *)
Definition coord_eqb (a b : coord) : bool :=
  (lat a =? lat b) && (lon a =? lon b) && option_eqb Z.eqb (cz a) (cz b).

Definition ring := list coord.
Definition ring_eqb : ring -> ring -> bool := list_eqb coord_eqb.

(* ---------- is_counter_clockwise ---------- *)

(* ensure_edge_bounds(a, b): longitude of the (possibly un-bounded) end point.  The adjusted
   point is built with Coordinate(.., _bounded=False), which still maps 180 to -180. *)
Definition adj_lon (half : Z) (a b : coord) : Z :=
  if Z.abs (lon a - lon b) >? half then
    let l := if lon a <? 0 then lon b - 2 * half else lon b + 2 * half in
    if l =? half then - half else l
  else lon b.

Definition edge_term (half : Z) (a b : coord) : Z :=
  (adj_lon half a b - lon a) * (lat b + lat a).

(* zip(bounds, [*bounds[1:], bounds[0]]) *)
Definition cyc_pairs (r : ring) : list (coord * coord) :=
  match r with
  | [] => []
  | a :: t => combine r (t ++ [a])
  end.

Definition zsum (l : list Z) : Z := fold_right Z.add 0 l.

Definition ccw_sum (half : Z) (r : ring) : Z :=
  zsum (map (fun p => edge_term half (fst p) (snd p)) (cyc_pairs r)).

Definition is_ccw (half : Z) (r : ring) : bool := ccw_sum half r <=? 0.

(* ---------- GeoPolygon.__init__ ---------- *)

(* outline[0] == outline[-1], else [*outline, outline[0]] *)
Definition closedb (r : ring) : bool :=
  match r with
  | [] => true
  | a :: _ => coord_eqb a (last r a)
  end.

Definition close_ring (r : ring) : ring :=
  match r with
  | [] => []
  | a :: _ => if closedb r then r else r ++ [a]
  end.

(* if not is_counter_clockwise(outline) ^ _is_hole: outline = outline[::-1] *)
Definition norm_ring (half : Z) (is_hole : bool) (r : ring) : ring :=
  let c := close_ring r in
  if negb (xorb (is_ccw half c) is_hole) then rev c else c.

(* A polygon value after construction: its outline and, for every hole shape, that hole's
   bounding_coords() (for a GeoPolygon hole: its normalised outline). *)
Record polygon := mkpoly { outline : ring; pholes : list ring }.

(* GeoPolygon(ring) used as a hole (constructed WITHOUT _is_hole, hence counter-clockwise) *)
Definition mk_hole (half : Z) (r : ring) : ring := norm_ring half false r.

Definition mk_polygon (half : Z) (o : ring) (holes : list ring) : polygon :=
  mkpoly (norm_ring half false o) holes.

(* PolygonBase.linear_rings : shell, then every hole's bounding_coords reversed *)
Definition rings_of (shell : ring) (holes : list ring) : list ring :=
  shell :: map (@rev coord) holes.

Definition linear_rings (p : polygon) : list ring := rings_of (outline p) (pholes p).

(* GeoBox.bounding_coords : NW, SW, SE, NE, NW; derived corners get z = nw.z or se.z or None *)
Definition truthy_z (z : option Z) : option Z :=
  match z with
  | Some v => if v =? 0 then None else Some v
  | None => None
  end.

Definition box_ring (nw se : coord) : ring :=
  let z := match truthy_z (cz nw) with Some v => Some v | None => truthy_z (cz se) end in
  [nw; mkc (lon nw) (lat se) z; se; mkc (lon se) (lat nw) z; nw].

(* ---------- geometry ADT ---------- *)

(* Curved shapes are known to the model only through their identifier [id]; their sampled
   boundary comes from an oracle (a Section variable of the models that need it). *)
Inductive geom :=
| GPoint (c : coord)
| GLine (vs : list coord)
| GPoly (p : polygon)
| GMPoint (cs : list coord)
| GMLine (ls : list (list coord))
| GMPoly (ps : list polygon)
| GBox (nw se : coord) (hs : list ring)
| GRound (id : Z) (hs : list ring)       (* GeoCircle / GeoEllipse *)
| GRingFull (id : Z) (hs : list ring)    (* GeoRing with angles 0..360 *)
| GWedge (id : Z) (hs : list ring).      (* GeoRing with an angle range *)

Record oracle := mkoracle {
  o_outer : Z -> option Z -> ring;       (* bounding_coords / _draw_bounds()[0] for parameter k *)
  o_inner : Z -> option Z -> ring        (* _draw_bounds()[1] (GeoRing only) *)
}.

(* linear_rings() of the polygon-like single shapes.  Holes never receive k (PolygonBase) —
   GeoRing passes k to its holes, which is invisible for vertex-defined holes. *)
Definition geom_rings (orc : oracle) (k : option Z) (g : geom) : list ring :=
  match g with
  | GPoly p => linear_rings p
  | GBox nw se hs => rings_of (box_ring nw se) hs
  | GRound id hs => rings_of (o_outer orc id k) hs
  | GRingFull id hs =>
      let o := o_outer orc id k in let i := o_inner orc id k in
      (o ++ firstn 1 o) :: rev (i ++ firstn 1 i) :: map (@rev coord) hs
  | GWedge id hs =>
      let o := o_outer orc id k in let i := o_inner orc id k in
      rings_of (o ++ rev i ++ firstn 1 o) hs
  | _ => []
  end.

(* ---------- == ---------- *)

(* GeoPolygon.__eq__, outline part: some rotation of other's open outline, forward or
   backward, equals self's open outline *)
Definition rot1 (o : ring) : ring := match o with [] => [] | a :: t => t ++ [a] end.

Fixpoint rot_search (n : nat) (s o : ring) : bool :=
  match n with
  | O => false
  | S n' => if ring_eqb s o || ring_eqb s (rev o) then true else rot_search n' s (rot1 o)
  end.

Definition outline_eqb (s o : ring) : bool :=
  (Nat.eqb (length s) (length o)) &&
  rot_search (length (removelast o)) (removelast s) (removelast o).

(* holes: set of (sets of directed edges) *)
Definition edges (r : ring) : list (coord * coord) := combine r (tl r).
Definition edge_eqb (e f : coord * coord) : bool :=
  coord_eqb (fst e) (fst f) && coord_eqb (snd e) (snd f).
Definition incl_b {A} (eqb : A -> A -> bool) (x y : list A) : bool :=
  forallb (fun a => existsb (eqb a) y) x.
Definition seteq_b {A} (eqb : A -> A -> bool) (x y : list A) : bool :=
  incl_b eqb x y && incl_b eqb y x.
Definition hole_eqb (h1 h2 : ring) : bool := seteq_b edge_eqb (edges h1) (edges h2).

Definition polygon_eqb (a b : polygon) : bool :=
  outline_eqb (outline a) (outline b) &&
  Nat.eqb (length (pholes a)) (length (pholes b)) &&
  seteq_b hole_eqb (pholes a) (pholes b).

(* spatial part of `==` (the dt comparison is added where shapes carry dt).  Multi-shapes
   compare as sets of members. *)
Definition geom_eqb (a b : geom) : bool :=
  match a, b with
  | GPoint c, GPoint d => coord_eqb c d
  | GLine u, GLine v => ring_eqb u v
  | GPoly p, GPoly q => polygon_eqb p q
  | GMPoint u, GMPoint v => seteq_b coord_eqb u v
  | GMLine u, GMLine v => seteq_b ring_eqb u v
  | GMPoly u, GMPoly v => seteq_b polygon_eqb u v
  | GBox n1 s1 h1, GBox n2 s2 h2 =>
      coord_eqb n1 n2 && coord_eqb s1 s2 &&
      list_eqb (fun x y => polygon_eqb (mkpoly x []) (mkpoly y [])) h1 h2
  | _, _ => false
  end.

(* ---------- specification side: the shoelace (doubled signed) area ---------- *)

Definition cross (a b : coord) : Z := lon a * lat b - lon b * lat a.

(* 2 * signed area of the closed polyline r (positive = counter-clockwise) *)
Definition area2 (r : ring) : Z :=
  zsum (map (fun p => cross (fst p) (snd p)) (edges r)).
