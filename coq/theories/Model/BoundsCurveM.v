(* Model of the `bounds` properties of the curved shapes of geostructures/structures.py over the
   real-number model of the spherical calculator (SphereM.v).  Definitions only; proofs are in
   Proofs/BoundsCurveP2.v .. P4.v, the property statements in Props/C09c.v.

     GeoCircle.bounds  (structures.py ~l.836)
         nw_bound = inverse_haversine_degrees(self.center, 315, self.radius * math.sqrt(2))
         se_bound = inverse_haversine_degrees(self.center, 135, self.radius * math.sqrt(2))
         return nw_bound.longitude, se_bound.latitude, se_bound.longitude, nw_bound.latitude
     GeoRing.bounds    (~l.1203), branch `angle_max - angle_min >= 360`: the same with outer_radius
     GeoEllipse.bounds (~l.954): destinations at bearings 0 / 90 / 180 / 270 at distances dy / dx

   Abstraction (as in SphereM / CurveM): a float is a real number; a Coordinate is (longitude, latitude)
   in degrees; the destination is the pair computed by inverse_haversine_radians BEFORE its rounding to 7
   decimals and BEFORE the Coordinate constructor wraps the longitude into [-180, 180) (SphereM.dest_rad;
   the rounding moves a point by at most 2 cm: SphereP5.dest_rounded_within_2cm).  `x ** 2` is x * x. *)
From GV Require Import Prelude SphereM CurveM.
From Coq Require Import Reals.
Open Scope R_scope.

(* a bounds tuple (min lon, min lat, max lon, max lat), degrees *)
Definition rbnd := (R * R * R * R)%type.
Definition rb_minlon (b : rbnd) : R := fst (fst (fst b)).
Definition rb_minlat (b : rbnd) : R := snd (fst (fst b)).
Definition rb_maxlon (b : rbnd) : R := snd (fst b).
Definition rb_maxlat (b : rbnd) : R := snd b.

(* GeoCircle.bounds as a function of centre and radius *)
Definition circle_bounds (c : coord) (r : R) : rbnd :=
  let nw_bound := dest_deg c 315 (r * sqrt 2) in
  let se_bound := dest_deg c 135 (r * sqrt 2) in
  (lon nw_bound, lat se_bound, lon se_bound, lat nw_bound).

Definition circle_bounds_of (s : circle) : rbnd := circle_bounds (c_center s) (c_radius s).

(* GeoRing.bounds, the branch taken by a full ring (angle_max - angle_min >= 360) *)
Definition ring_full_bounds (s : ring) : rbnd := circle_bounds (r_center s) (r_outer s).

(* GeoEllipse.bounds *)
Definition ellipse_dx (s : ellipse) : R :=
  let rot_rad := rad (e_rotation s) in
  let cos_rot_sq := cos rot_rad * cos rot_rad in
  let sin_rot_sq := sin rot_rad * sin rot_rad in
  let semi_major_sq := e_major s * e_major s in
  let semi_minor_sq := e_minor s * e_minor s in
  sqrt (semi_major_sq * sin_rot_sq + semi_minor_sq * cos_rot_sq).
Definition ellipse_dy (s : ellipse) : R :=
  let rot_rad := rad (e_rotation s) in
  let cos_rot_sq := cos rot_rad * cos rot_rad in
  let sin_rot_sq := sin rot_rad * sin rot_rad in
  let semi_major_sq := e_major s * e_major s in
  let semi_minor_sq := e_minor s * e_minor s in
  sqrt (semi_major_sq * cos_rot_sq + semi_minor_sq * sin_rot_sq).
Definition ellipse_bounds (s : ellipse) : rbnd :=
  let dx := ellipse_dx s in
  let dy := ellipse_dy s in
  let max_lat := lat (dest_deg (e_center s) 0 dy) in
  let max_lon := lon (dest_deg (e_center s) 90 dx) in
  let min_lat := lat (dest_deg (e_center s) 180 dy) in
  let min_lon := lon (dest_deg (e_center s) 270 dx) in
  (min_lon, min_lat, max_lon, max_lat).

(* ---------------------------------------------------------------- what the code returns
   inverse_haversine_degrees rounds both coordinates of the destination to 7 decimals
   (SphereM.dest_deg_rounded, tied to calc.py by geneq/SphereGenEq.v); the definitions below are the
   three `bounds` properties with that call, statement by statement, so that the translator output of
   tools/gen_curvebounds.py is convertible with them (geneq/CurveBoundsGenEq.v).  Not modelled: float
   evaluation, and the Coordinate constructor's wrap of the destination's longitude into [-180, 180). *)
Definition circle_bounds_rounded (c : coord) (r : R) : rbnd :=
  let nw_bound := dest_deg_rounded c 315 (r * sqrt 2) in
  let se_bound := dest_deg_rounded c 135 (r * sqrt 2) in
  (lon nw_bound, lat se_bound, lon se_bound, lat nw_bound).

(* GeoRing.bounds: Some (the bounds) on the branch `angle_max - angle_min >= 360`, None on the wedge branch
   (min/max over bounding_coords(): the vertex model BoundsM.bounds_of, tools/gen_bounds.py) *)
Definition ring_bounds_full_opt (s : ring) : option rbnd :=
  if rleb 360 (r_amax s - r_amin s) then Some (circle_bounds_rounded (r_center s) (r_outer s)) else None.

(* GeoEllipse.centroid *)
Definition ellipse_centroid (s : ellipse) : coord := e_center s.

Definition ellipse_bounds_rounded (s : ellipse) : rbnd :=
  let dx := ellipse_dx s in
  let dy := ellipse_dy s in
  let max_lat := lat (dest_deg_rounded (ellipse_centroid s) 0 dy) in
  let max_lon := lon (dest_deg_rounded (ellipse_centroid s) 90 dx) in
  let min_lat := lat (dest_deg_rounded (ellipse_centroid s) 180 dy) in
  let min_lon := lon (dest_deg_rounded (ellipse_centroid s) 270 dx) in
  (min_lon, min_lat, max_lon, max_lat).
