(* Executable model of geostructures/collections.py : CollectionBase / FeatureCollection and
   the parts of Track they share (lines 32-174, 415-423, 606-680).  No proofs in this file.

   A member shape is observed through
     sid      which implementation object it is,
     sdt      its time bounds (UTC microseconds), None when the shape has no dt,
     sbounds  shape.bounds = (min lon, min lat, max lon, max lat) as exact rationals.
   What the library delegates to the members is a Section variable: the spatial/space-time
   predicates x.intersects(q), x.contains(q), q.contains(x) (C02/C04/C05 are about those), the
   value test func(x.properties[key]) and == between shapes.  The time tests of filter_by_dt
   are concrete (TimeM, C06).
   Not modelled: a user func that raises; cached_property staleness (C16). *)
From Coq Require Import QArith.
From GV Require Import Prelude CollM.
From GV Require TimeM.
Open Scope Z_scope.

Definition box := (Q * Q * Q * Q)%type.
Record shape := mkshape { sid : Z; sdt : option (Z * Z); sbounds : box }.

Inductive kind := FC | TR.                         (* FeatureCollection | Track *)
Record coll := mkcoll { ckind : kind; members : list shape }.

Definition has_dt (x : shape) : bool := match sdt x with Some _ => true | None => false end.
Definition sstart (x : shape) : Z := match sdt x with Some (s, _) => s | None => 0 end.

(* type(self)(shapes): FeatureCollection keeps the list; Track refuses shapes without dt and
   sorts (stably) by start *)
Definition rewrap_as (k : kind) (l : list shape) : res coll :=
  match k with
  | FC => Ok (mkcoll FC l)
  | TR => if forallb has_dt l then Ok (mkcoll TR (isort sstart l)) else Err ValueError
  end.

(* [x for x in self.geoshapes if p(x)] re-wrapped in type(self) *)
Definition filter_with (p : shape -> bool) (c : coll) : res coll :=
  rewrap_as (ckind c) (filter p (members c)).

(* filter_by_dt(datetime): x.dt is not None and x.dt == TimeInterval(d, d) *)
Definition p_dt_instant (d : Z) (x : shape) : bool :=
  match sdt x with Some (s, e) => (s =? d) && (e =? d) | None => false end.
(* filter_by_dt(TimeInterval(a, b)): x.dt is not None and q.intersects(x.dt) *)
Definition p_dt_interval (a b : Z) (x : shape) : bool :=
  match sdt x with
  | Some (s, e) => TimeM.intersects (TimeM.mkiv a b) (TimeM.mkiv s e)
  | None => false
  end.
Definition filter_by_dt_instant (c : coll) (d : Z) : res coll := filter_with (p_dt_instant d) c.
Definition filter_by_dt_interval (c : coll) (a b : Z) : res coll := filter_with (p_dt_interval a b) c.
(* any other argument type *)
Definition filter_by_dt_other (c : coll) : res coll := Err ValueError.

Section Delegated.
  Variable query : Type.
  Variable x_intersects_q : query -> shape -> bool.     (* x.intersects(q) *)
  Variable x_contains_q : query -> shape -> bool.       (* x.contains(q)   *)
  Variable q_contains_x : query -> shape -> bool.       (* q.contains(x)   *)
  (* None: key not in x.properties; Some b: func(x.properties[key]) is truthy/falsy *)
  Variable prop_test : Z -> shape -> option bool.
  Variable sh_eq : shape -> shape -> bool.               (* y == x *)

  Definition filter_by_intersection (c : coll) (q : query) : res coll := filter_with (x_intersects_q q) c.
  Definition filter_contained_by (c : coll) (q : query) : res coll := filter_with (q_contains_x q) c.
  Definition filter_contains (c : coll) (q : query) : res coll := filter_with (x_contains_q q) c.

  (* the loop of filter_by_property: KeyError at the first member lacking the key *)
  Fixpoint prop_loop (key : Z) (l : list shape) (acc : list shape) : res (list shape) :=
    match l with
    | [] => Ok (rev acc)
    | x :: l' => match prop_test key x with
                 | None => Err KeyError
                 | Some b => prop_loop key l' (if b then x :: acc else acc)
                 end
    end.
  Definition filter_by_property (c : coll) (key : Z) : res coll :=
    match prop_loop key (members c) [] with
    | Err e => Err e
    | Ok l => rewrap_as (ckind c) l
    end.

  (* item in collection: list membership = identity or == *)
  Definition coll_contains (c : coll) (x : shape) : bool :=
    existsb (fun y => (sid y =? sid x) || sh_eq y x) (members c).
End Delegated.

(* ------------------------------------------------------------------ list protocol *)
Definition coll_len (c : coll) : Z := Z.of_nat (length (members c)).
Definition coll_bool (c : coll) : bool := negb (coll_len c =? 0).
Definition coll_iter (c : coll) : list shape := members c.

(* FeatureCollection.__getitem__(int): Python list indexing *)
Definition fc_getitem (c : coll) (i : Z) : res shape :=
  let n := coll_len c in
  if (- n <=? i) && (i <? n)
  then match nth_error (members c) (Z.to_nat (if i <? 0 then i + n else i)) with
       | Some x => Ok x
       | None => Err IndexError
       end
  else Err IndexError.

(* __add__: same class only *)
Definition coll_add (a b : coll) : res coll :=
  match ckind a, ckind b with
  | FC, FC => Ok (mkcoll FC (members a ++ members b))
  | TR, TR => rewrap_as TR (members a ++ members b)
  | _, _ => Err ValueError
  end.

(* ------------------------------------------------------------------ bounds *)
(* Python's min/max keep the first of equal candidates *)
Definition qmin (a b : Q) : Q := if Qle_bool a b then a else b.
Definition qmax (a b : Q) : Q := if Qle_bool b a then a else b.
Definition b0 (b : box) : Q := fst (fst (fst b)).
Definition b1 (b : box) : Q := snd (fst (fst b)).
Definition b2 (b : box) : Q := snd (fst b).
Definition b3 (b : box) : Q := snd b.

Definition coll_bounds (c : coll) : res box :=
  match map sbounds (members c) with
  | [] => Err ValueError                                   (* min() of nothing *)
  | b :: bs => Ok (fold_left qmin (map b0 bs) (b0 b), fold_left qmin (map b1 bs) (b1 b),
                   fold_left qmax (map b2 bs) (b2 b), fold_left qmax (map b3 bs) (b3 b))
  end.

(* geospan = width + height of the bounds *)
Definition coll_geospan (c : coll) : res Q :=
  match coll_bounds c with
  | Ok b => Ok (b2 b - b0 b + b3 b - b1 b)%Q
  | Err e => Err e
  end.

(* ------------------------------------------------------------------ convex hull *)
(* CollectionBase.convex_hull = GeoPolygon(convex_hull(_get_vertices(self.geoshapes))):
   which vertices a member contributes (centroid / vertices / bounding_coords, recursively for
   multi-shapes) and the hull algorithm itself (C10) are delegated *)
Section Hull.
  Variable pt : Type.
  Variable verts : shape -> list pt.
  Variable hull : list pt -> list pt.
  Definition coll_vertices (c : coll) : list pt := flat_map verts (members c).
  Definition coll_hull (c : coll) : list pt := hull (coll_vertices c).
End Hull.
