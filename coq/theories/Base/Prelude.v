(* Common header: result type, arithmetic automation set-up, list helpers used by the
   correspondence files. Stdlib only; no axioms. *)
From Coq Require Export ZArith List Bool Lia ZifyBool.
Export ListNotations.
Open Scope Z_scope.

(* [lia] understands [/] and [mod] through the Euclidean equations. *)
Ltac Zify.zify_post_hook ::= Z.to_euclidean_division_equations.

(* Exceptions of the implementation, as a small enum. *)
Inductive errk := ValueError | KeyError | TypeError | IndexError | OtherError.

Inductive res (A : Type) : Type :=
| Ok : A -> res A
| Err : errk -> res A.
Arguments Ok {A} _.
Arguments Err {A} _.

Definition errk_eqb (a b : errk) : bool :=
  match a, b with
  | ValueError, ValueError | KeyError, KeyError | TypeError, TypeError
  | IndexError, IndexError | OtherError, OtherError => true
  | _, _ => false
  end.

Definition res_eqb {A} (eqb : A -> A -> bool) (x y : res A) : bool :=
  match x, y with
  | Ok a, Ok b => eqb a b
  | Err e, Err f => errk_eqb e f
  | _, _ => false
  end.

Definition option_eqb {A} (eqb : A -> A -> bool) (x y : option A) : bool :=
  match x, y with
  | Some a, Some b => eqb a b
  | None, None => true
  | _, _ => false
  end.

Fixpoint list_eqb {A} (eqb : A -> A -> bool) (x y : list A) : bool :=
  match x, y with
  | [], [] => true
  | a :: x', b :: y' => eqb a b && list_eqb eqb x' y'
  | _, _ => false
  end.

(* Indices (from 0) of the cases on which the check fails: what every
   correspondence file evaluates with vm_compute. *)
Fixpoint mismatches_from {A} (n : nat) (chk : A -> bool) (l : list A) : list nat :=
  match l with
  | [] => []
  | c :: l' => if chk c then mismatches_from (S n) chk l'
               else n :: mismatches_from (S n) chk l'
  end.
Definition mismatches {A} (chk : A -> bool) (l : list A) : list nat :=
  mismatches_from 0 chk l.

Lemma mismatches_from_nil {A} (chk : A -> bool) l : forall n,
  mismatches_from n chk l = [] -> forall c, In c l -> chk c = true.
Proof.
  induction l as [|a l IH]; intros n H c Hc; [destruct Hc|].
  cbn in H. destruct (chk a) eqn:E; [|discriminate].
  destruct Hc as [->|Hc]; [exact E|]. eapply IH; eauto.
Qed.

Lemma mismatches_nil {A} (chk : A -> bool) l :
  mismatches chk l = [] -> forall c, In c l -> chk c = true.
Proof. apply mismatches_from_nil. Qed.

Ltac destr_bool_ifs :=
  repeat match goal with
  | |- context [if ?b then _ else _] => let E := fresh "E" in destruct b eqn:E
  | H : context [if ?b then _ else _] |- _ => let E := fresh "E" in destruct b eqn:E
  end.
