(* C01 — polygon and box point-membership is exact.
   This file holds only statements closed by [exact] and their Print Assumptions.

   Model (GeomM.v): pip w p ring = GeoPolygon._point_in_polygon (repaired, D1), the ray running
   west from p to longitude w (= -180); poly_contains / box_contains = contains_coordinate.
   Specification (GeomP.v, independent of the code): on_boundary p ring (p on a closed edge,
   exact), evenodd p ring (odd number of edges crossed by the ray cast EAST, half-open rule),
   strict_in = ~on_boundary /\ evenodd.  Rings are arbitrary lists of integer points of any
   length (closed or not: the cyclic edge list closes them), so the theorems hold in particular
   for every simple ring.  Hypotheses: no vertex west of the ray end (west_ok w ring:
   longitude >= -180) and the query not west of it (w <= px p: longitude >= -180) — true of
   every Coordinate, whose longitude is normalised into [-180, 180). *)
From GV Require Import Prelude GeomM GeomP GeomP2 GeomP3.
Open Scope Z_scope.

(* a coordinate on the outline is never reported inside *)
Theorem C01_pip_boundary_false : forall w p r, west_ok w r -> w <= px p ->
  on_boundary p r -> pip w p r = false.
Proof. exact pip_boundary_false. Qed.
Print Assumptions C01_pip_boundary_false.

(* off the outline the westward count with its vertex handling is the eastward even-odd count *)
Theorem C01_pip_exact : forall w p r, west_ok w r -> w <= px p ->
  ~ on_boundary p r -> (pip w p r = true <-> evenodd p r).
Proof. exact pip_exact. Qed.
Print Assumptions C01_pip_exact.

Theorem C01_pip_strict_in : forall w p r, west_ok w r -> w <= px p ->
  (pip w p r = true <-> strict_in p r).
Proof. exact pip_true_iff. Qed.
Print Assumptions C01_pip_strict_in.

(* a closed chain crosses a horizontal line an even number of times *)
Theorem C01_straddle_even : forall p r, par (strad p) (cyc_edges r) = false.
Proof. exact straddle_even. Qed.
Print Assumptions C01_straddle_even.

(* the bounding-box prefilter never changes the answer *)
Theorem C01_bbox_prefilter_sound : forall w p r, west_ok w r -> w <= px p ->
  pip w p r = true -> inside_bbox p r.
Proof. exact bbox_prefilter_sound. Qed.
Print Assumptions C01_bbox_prefilter_sound.

Theorem C01_in_bbox_spec : forall p r, r <> [] -> (in_bbox p r = true <-> inside_bbox p r).
Proof. exact in_bbox_spec. Qed.
Print Assumptions C01_in_bbox_spec.

(* GeoPolygon.contains_coordinate: strictly inside the outline and in no hole; a polygon hole
   removes its strict interior, a box hole the closed box (hole_mem) *)
Theorem C01_poly_contains_spec : forall w o hs p,
  west_ok w o -> (forall h, In h hs -> hole_ok w h) -> w <= px p ->
  (poly_contains w o hs p = true <-> strict_in p o /\ forall h, In h hs -> ~ hole_mem h p).
Proof. exact poly_contains_spec. Qed.
Print Assumptions C01_poly_contains_spec.

Theorem C01_poly_outer_boundary_false : forall w o hs p,
  west_ok w o -> (forall h, In h hs -> hole_ok w h) -> w <= px p ->
  on_boundary p o -> poly_contains w o hs p = false.
Proof. exact poly_outer_boundary_false. Qed.
Print Assumptions C01_poly_outer_boundary_false.

Theorem C01_poly_hole_boundary_true : forall w o ho p,
  west_ok w o -> west_ok w ho -> w <= px p ->
  strict_in p o -> on_boundary p ho -> poly_contains w o [HPoly ho] p = true.
Proof. exact poly_hole_boundary_true. Qed.
Print Assumptions C01_poly_hole_boundary_true.

(* GeoBox.contains_coordinate: inclusive on all four edges and corners, minus holes *)
Theorem C01_box_contains_spec : forall w nw se hs p,
  (forall h, In h hs -> hole_ok w h) -> w <= px p ->
  (box_contains w nw se hs p = true <->
   box_closed nw se p /\ forall h, In h hs -> ~ hole_mem h p).
Proof. exact box_contains_spec. Qed.
Print Assumptions C01_box_contains_spec.

Theorem C01_box_includes_edges : forall w nw se p, w <= px p ->
  box_closed nw se p -> box_contains w nw se [] p = true.
Proof. exact box_includes_edges. Qed.
Print Assumptions C01_box_includes_edges.

(* the clause "a coordinate on a hole's boundary is contained" fails when the hole is a GeoBox *)
Theorem C01_box_hole_boundary_refuted :
  exists w o nw se p, west_ok w o /\ w <= px p /\ strict_in p o /\
    px p = px nw /\ box_closed nw se p /\ poly_contains w o [HBox nw se] p = false.
Proof. exact box_hole_boundary_refuted. Qed.
Print Assumptions C01_box_hole_boundary_refuted.

(* ---- independence of the start vertex and of the winding direction (GeomP4.v).
   [o] is the open outline v0..vn-1; [reclose o] the closed list handed to GeoPolygon;
   [norm_outline h] the constructor (closing + right-hand rule, h = _is_hole);
   [rot k o] starts the outline at vertex k; [rev o] walks it the other way. *)
From GV Require Import GeomP4.

Theorem C01_strict_in_rot : forall p k o, strict_in p (rot k o) <-> strict_in p o.
Proof. exact strict_in_rot. Qed.
Print Assumptions C01_strict_in_rot.

Theorem C01_strict_in_rev : forall p o, strict_in p (rev o) <-> strict_in p o.
Proof. exact strict_in_rev. Qed.
Print Assumptions C01_strict_in_rev.

(* the degenerate closing edge (v0,v0) of a stored, closed outline changes nothing: the
   specification of the closed list is that of the open outline's cyclic edge list *)
Theorem C01_strict_in_reclose : forall p o, strict_in p (reclose o) <-> strict_in p o.
Proof. exact strict_in_reclose. Qed.
Print Assumptions C01_strict_in_reclose.

Theorem C01_pip_rotation : forall w p h h' k o, west_ok w o -> w <= px p ->
  pip w p (norm_outline h (reclose (rot k o))) = pip w p (norm_outline h' (reclose o)).
Proof. exact pip_rotation. Qed.
Print Assumptions C01_pip_rotation.

Theorem C01_pip_reversal : forall w p h h' o, west_ok w o -> w <= px p ->
  pip w p (norm_outline h (reclose (rev o))) = pip w p (norm_outline h' (reclose o)).
Proof. exact pip_reversal. Qed.
Print Assumptions C01_pip_reversal.

(* what the constructed polygon answers, in terms of the open outline it was built from *)
Theorem C01_poly_contains_norm : forall w p h o hs,
  west_ok w o -> (forall x, In x hs -> hole_ok w x) -> w <= px p ->
  (poly_contains w (norm_outline h (reclose o)) hs p = true <->
   strict_in p o /\ forall x, In x hs -> ~ hole_mem x p).
Proof. exact poly_contains_norm. Qed.
Print Assumptions C01_poly_contains_norm.

Theorem C01_poly_contains_rotation : forall w p h h' k o hs,
  west_ok w o -> (forall x, In x hs -> hole_ok w x) -> w <= px p ->
  poly_contains w (norm_outline h (reclose (rot k o))) hs p =
  poly_contains w (norm_outline h' (reclose o)) hs p.
Proof. exact poly_contains_rotation. Qed.
Print Assumptions C01_poly_contains_rotation.

Theorem C01_poly_contains_reversal : forall w p h h' o hs,
  west_ok w o -> (forall x, In x hs -> hole_ok w x) -> w <= px p ->
  poly_contains w (norm_outline h (reclose (rev o))) hs p =
  poly_contains w (norm_outline h' (reclose o)) hs p.
Proof. exact poly_contains_reversal. Qed.
Print Assumptions C01_poly_contains_reversal.

(* ---- non-vacuity: the hypotheses are met by concrete non-trivial values.
   The diamond of D1 (scaled by 2): its centre is level with two vertices, strictly inside,
   and reported inside; a vertex and an edge midpoint are on the boundary. *)
Example C01_nonvacuous_diamond_centre :
  west_ok (-360) ex_diamond /\ -360 <= px (0, 0) /\ ~ on_boundary (0, 0) ex_diamond /\
  evenodd (0, 0) ex_diamond /\ pip (-360) (0, 0) (norm_outline false (reclose ex_diamond)) = true.
Proof. exact nonvacuous_diamond_centre. Qed.

Example C01_nonvacuous_boundary :
  on_boundary (1, 1) ex_diamond /\ on_boundary (2, 0) ex_diamond /\
  pip (-360) (1, 1) ex_diamond = false /\ pip (-360) (2, 0) ex_diamond = false.
Proof. exact nonvacuous_boundary. Qed.

Example C01_nonvacuous_hole :
  let o := [(0, 0); (16, 0); (16, 16); (0, 16)] in
  let ho := [(4, 4); (8, 12); (12, 4)] in
  west_ok (-360) o /\ west_ok (-360) ho /\ strict_in (8, 12) o /\ on_boundary (8, 12) ho /\
  strict_in (8, 8) ho /\
  poly_contains (-360) (reclose o) [HPoly (reclose ho)] (8, 12) = true /\
  poly_contains (-360) (reclose o) [HPoly (reclose ho)] (8, 8) = false.
Proof. exact nonvacuous_hole. Qed.

(* ---- the specification's integer sign test is the textbook crossing-number rule (GeomP5.v):
   an edge (a,b) is counted by [evenodd] iff exactly one endpoint is strictly above the query
   latitude and the crossing abscissa ax + (py-ay)(bx-ax)/(by-ay), computed in Q, is > px *)
From Coq Require Import QArith.
From GV Require Import GeomP5.

Theorem C01_east_z_textbook : forall p a b,
  east_z p (a, b) = true <->
  ~ (py p < py a <-> py p < py b) /\ (inject_Z (px p) < abscissa p a b)%Q.
Proof. exact east_z_textbook. Qed.
Print Assumptions C01_east_z_textbook.

(* an outline handed over open (first <> last) is closed by the constructor *)
Theorem C01_pip_norm_open : forall w p h v tl, west_ok w (v :: tl) -> w <= px p ->
  pt_eqb v (last (v :: tl) v) = false ->
  (pip w p (norm_outline h (v :: tl)) = true <-> strict_in p (v :: tl)).
Proof. exact pip_norm_open. Qed.
Print Assumptions C01_pip_norm_open.
