(* C01 — polygon and box point-membership is exact.
   This file holds only statements closed by [exact] and their Print Assumptions. *)
From GV Require Import Prelude GeomM GeomP.
Open Scope Z_scope.

Theorem C01_box_in_spec : forall nw se p, box_in nw se p = true <-> box_closed nw se p.
Proof. exact box_in_spec. Qed.
Print Assumptions C01_box_in_spec.
