(* C20 — collections survive a round trip through shapefile, GeoPandas and KML.  PARTIAL claim.
   This file holds only statements closed by [exact] and their Print Assumptions.

   Model: Model/ArchiveM.v — the in-library glue only.  pyshp, pandas/shapely and
   fastkml/pygeoif are NOT modelled: every theorem that crosses a codec quantifies over the
   codec (gi_of, z_of, dbf_name, dbf_cell, pd_cell, shapely, geo_of, time_of, data_of) and
   carries, as an explicit premise, the contract it needs of it — either on the instance at hand
   (gi_of w = esri_gi w) or pointwise (dbf_cell FC (Some (JTime t)) = JTime t).  Nothing is an
   Axiom.  harness/c20.py really runs the three libraries on every generated case and lets Coq
   check (Corr/ArchiveK.v) that the codec's observed output equals the contract's reference
   ([esri_gi], [dbf_cell_ref]/[trunc10], [pd_cell_ref], identical WKT body, identical geo
   interface / times / data) on that case, and that the model's reader, fed the observed codec
   output, returns the shape the implementation returns.

   Clause by clause of the statement:
     geometry, multi-part, holes, ring orientation
        shapefile  PROVED under the pyshp contract: C20_shp_*_roundtrip, C20_esri_orientation*.
                   REFUTED: one-member MultiGeoLineString / MultiGeoPolygon lose their type
                   (C20_shp_single_member_multi_refuted, finding D44); boxes and curved shapes come
                   back as the GeoPolygon with the same linear rings (C20_shp_polylike_roundtrip).
        GeoPandas  PROVED relative to C13 under the Shapely contract (C20_gpd_geometry_roundtrip);
                   incl. the nested MULTIPOINT text Shapely 2 writes (C20_gpd_multipoint_roundtrip; D41 repaired).
        KML        PROVED under the fastkml/pygeoif contract for the six GeoJSON kinds (C20_kml_roundtrip).
     time bounds   PROVED for {no dt, instant, interval} on all three paths under the codec contracts:
                   C20_shp_dt_roundtrip, C20_gpd_dt_roundtrip, C20_kml_time_roundtrip (+ C20_kml_roundtrip).
     type-compatible properties
                   _partial on all three paths: every string / int / bool (shapefile), every value pandas
                   keeps (GeoPandas), every non-empty string (KML) is read back
                   (C20_shp_prop_survives_partial, C20_gpd_prop_survives_partial, C20_kml_roundtrip);
                   REFUTED as equality of the property dictionaries: D38 float truncated, D39 'ID' added,
                   D40 / D42 missing keys filled with '' / None / nan, D43 'sub_folder_0' added,
                   D45 a non-string property makes to_fastkml_placemark raise.
     order within each geometry family
                   PROVED (glue): C20_family_partition, C20_family_order_kept, C20_archive_is_permutation,
                   C20_folder_order_kept.  That a Track re-sorts stably is C17, not repeated here.
     NOT COVERED (third party): the binary shp/shx/dbf encoding, pyshp's containment-based hole
                   grouping on INVALID polygons, DBF limits (names > 10 characters that collide, strings
                   > 50 characters, trailing blanks), pandas dtype inference, GEOS WKT number formatting,
                   KML text serialisation, M values, mixed Z / no-Z layers (pyshp refuses them). *)
From Coq Require Import String Permutation.
From GV Require Import Prelude RingM RingP GeoJsonM GeoJsonP WktM WktP ArchiveM ArchiveP1 ArchiveP2.
Open Scope string_scope.
Open Scope list_scope.
Open Scope Z_scope.

(* ---------- (a) the four layers ---------- *)

(* the isinstance cascade computes the four family filters, each in collection order *)
Theorem C20_family_partition : forall l,
  group_shapes l = mkgroups (members_of FPoints l) (members_of FMultipoints l)
                            (members_of FLines l) (members_of FShapes l).
Proof. exact group_shapes_spec. Qed.
Print Assumptions C20_family_partition.

Theorem C20_family_members : forall f l s,
  In s (members_of f l) <-> In s l /\ family_of (sgeom s) = f.
Proof. exact members_In. Qed.
Print Assumptions C20_family_members.

Theorem C20_family_is_sublist : forall f l, sublist (members_of f l) l.
Proof. exact family_is_sublist. Qed.
Print Assumptions C20_family_is_sublist.

(* every shape goes to exactly one layer: the archive holds a permutation of the collection *)
Theorem C20_archive_is_permutation : forall l, Permutation (archive_order (group_shapes l)) l.
Proof. exact archive_is_permutation. Qed.
Print Assumptions C20_archive_is_permutation.

(* layers come back in the order points, multipoints, lines, shapes ... *)
Theorem C20_archive_family_blocks : forall l,
  archive_order (group_shapes l) =
  members_of FPoints l ++ members_of FMultipoints l ++ members_of FLines l ++ members_of FShapes l.
Proof. exact archive_family_blocks. Qed.
Print Assumptions C20_archive_family_blocks.

(* ... so within each family the order read back is the order of the collection *)
Theorem C20_family_order_kept : forall f l,
  members_of f (archive_order (group_shapes l)) = members_of f l.
Proof. exact family_order_kept. Qed.
Print Assumptions C20_family_order_kept.

(* ---------- (b) ESRI orientation of what to_pyshp emits ---------- *)

(* exterior ring clockwise, holes counter-clockwise, all closed, for a GeoPolygon built from
   arbitrary vertex lists (any winding, closed or not, any number of holes, non-zero areas) *)
Theorem C20_esri_orientation : forall half orc o hs,
  span_ok half o -> Forall (span_ok half) hs ->
  area2 (close_ring o) <> 0 -> Forall (fun h => area2 (close_ring h) <> 0) hs ->
  match esri_rings orc (GPoly (mk_polygon half o (map (mk_hole half) hs))) with
  | [] => False
  | shell :: holes =>
      closedb shell = true /\ area2 shell < 0 /\
      Forall (fun h => closedb h = true /\ 0 < area2 h) holes
  end.
Proof. exact esri_orientation. Qed.
Print Assumptions C20_esri_orientation.

(* a MultiGeoPolygon is emitted part by part, each part as above *)
Theorem C20_esri_multipolygon_parts : forall orc ps,
  esri_rings orc (GMPoly ps) = flat_map (fun p => esri_rings orc (GPoly p)) ps.
Proof. exact esri_rings_mpoly_parts. Qed.
Print Assumptions C20_esri_multipolygon_parts.

(* every polygon-like emits its linear rings, each reversed *)
Theorem C20_esri_rings_reversed : forall orc g, polylike g ->
  esri_rings orc g = map (@rev coord) (geom_rings orc None g).
Proof. exact esri_rings_reversed. Qed.
Print Assumptions C20_esri_rings_reversed.

(* the constructors establish the hypothesis [esri_ok] of the round-trip theorems *)
Theorem C20_constructed_esri_ok : forall half o hs,
  span_ok half o -> (2 <= length o)%nat -> area2 (close_ring o) <> 0 ->
  Forall (fun h => span_ok half h /\ (2 <= length h)%nat) hs ->
  esri_ok half (mk_polygon half o (map (mk_hole half) hs)).
Proof. exact constructed_esri_ok. Qed.
Print Assumptions C20_constructed_esri_ok.

(* ---------- (c) write, classify by ESRI's rule, read: the same shape ---------- *)

(* CONTRACT premises: [gi_of w = esri_gi w] (clockwise ring opens a polygon, following
   non-clockwise rings are its holes, in order; one polygon => Polygon) and [z_of w = ps_z w]
   (the Z list comes back in written order). *)
Theorem C20_shp_polygon_roundtrip : forall gi_of z_of half orc p,
  esri_ok half p -> zmode_ok (has_z (GPoly p)) (esri_rings orc (GPoly p)) ->
  let w := to_pyshp orc (GPoly p) in
  gi_of w = esri_gi w -> z_of w = ps_z w ->
  from_pyshp half (gi_of w) (z_of w) = Ok (GPoly p).
Proof. exact shp_polygon_roundtrip. Qed.
Print Assumptions C20_shp_polygon_roundtrip.

Theorem C20_shp_multipolygon_roundtrip : forall gi_of z_of half orc ps,
  (2 <= length ps)%nat -> Forall (esri_ok half) ps ->
  zmode_ok (has_z (GMPoly ps)) (esri_rings orc (GMPoly ps)) ->
  let w := to_pyshp orc (GMPoly ps) in
  gi_of w = esri_gi w -> z_of w = ps_z w ->
  from_pyshp half (gi_of w) (z_of w) = Ok (GMPoly ps).
Proof. exact shp_multipolygon_roundtrip. Qed.
Print Assumptions C20_shp_multipolygon_roundtrip.

(* box, circle, ellipse, ring, wedge: the GeoPolygon with exactly their linear rings *)
Theorem C20_shp_polylike_roundtrip : forall gi_of z_of half orc g shell holes,
  polylike g -> geom_rings orc None g = shell :: holes ->
  shell_ok half shell -> Forall (fun h => hole_ok half (rev h)) holes ->
  zmode_ok (has_z g) (esri_rings orc g) ->
  let w := to_pyshp orc g in
  gi_of w = esri_gi w -> z_of w = ps_z w ->
  exists p, from_pyshp half (gi_of w) (z_of w) = Ok (GPoly p) /\ linear_rings p = geom_rings orc None g.
Proof. exact shp_polylike_roundtrip. Qed.
Print Assumptions C20_shp_polylike_roundtrip.

Theorem C20_shp_line_roundtrip : forall gi_of z_of half orc vs,
  zmode_ok (has_z (GLine vs)) [vs] ->
  let w := to_pyshp orc (GLine vs) in
  gi_of w = esri_gi w -> z_of w = ps_z w ->
  from_pyshp half (gi_of w) (z_of w) = Ok (GLine vs).
Proof. exact shp_line_roundtrip. Qed.
Print Assumptions C20_shp_line_roundtrip.

Theorem C20_shp_multiline_roundtrip : forall gi_of z_of half orc ls,
  (2 <= length ls)%nat -> zmode_ok (has_z (GMLine ls)) ls ->
  let w := to_pyshp orc (GMLine ls) in
  gi_of w = esri_gi w -> z_of w = ps_z w ->
  from_pyshp half (gi_of w) (z_of w) = Ok (GMLine ls).
Proof. exact shp_multiline_roundtrip. Qed.
Print Assumptions C20_shp_multiline_roundtrip.

Theorem C20_shp_multipoint_roundtrip : forall gi_of z_of half orc cs,
  zmode_ok (has_z (GMPoint cs)) [cs] ->
  let w := to_pyshp orc (GMPoint cs) in
  gi_of w = esri_gi w -> z_of w = ps_z w ->
  from_pyshp half (gi_of w) (z_of w) = Ok (GMPoint cs).
Proof. exact shp_multipoint_roundtrip. Qed.
Print Assumptions C20_shp_multipoint_roundtrip.

Theorem C20_shp_point_roundtrip : forall gi_of z_of half orc c, z_ok c ->
  let w := to_pyshp orc (GPoint c) in
  gi_of w = esri_gi w -> z_of w = ps_z w ->
  from_pyshp half (gi_of w) (z_of w) = Ok (GPoint c).
Proof. exact shp_point_roundtrip. Qed.
Print Assumptions C20_shp_point_roundtrip.

(* the Z values are re-attached to the vertices they were written for: the pop(0) threading
   over what was written in ring order, with any Z list remaining behind it *)
Theorem C20_z_reattached : forall rs rest, Forall z_some rs ->
  attach2 (map (map xy_of) rs) (Some (flat_map (map zval) rs ++ rest)) = (rs, Some rest).
Proof. exact attach2_some. Qed.
Print Assumptions C20_z_reattached.

(* ESRI's rule read sequentially regroups the flattened rings of any number of polygons *)
Theorem C20_seq_group_regroups : forall ps, Forall gp_ok ps ->
  seq_group (flat_map gp_rings ps) None = map gp_rings ps.
Proof. exact seq_group_polys0. Qed.
Print Assumptions C20_seq_group_regroups.

(* D44 (finding): a multi-shape with ONE member comes back as the simple shape *)
Theorem C20_shp_single_member_multi_refuted :
  (exists p, esri_ok 720 p /\
     from_pyshp 720 (esri_gi (to_pyshp noorc (GMPoly [p]))) (ps_z (to_pyshp noorc (GMPoly [p]))) = Ok (GPoly p)) /\
  (exists l, from_pyshp 720 (esri_gi (to_pyshp noorc (GMLine [l]))) (ps_z (to_pyshp noorc (GMLine [l]))) = Ok (GLine l)).
Proof. exact shp_single_member_multi_refuted. Qed.
Print Assumptions C20_shp_single_member_multi_refuted.

(* ---------- (d) time columns of the shapefile ---------- *)

(* CONTRACT premises on the DBF codec: the two field names are cut to the reader's defaults, an
   ISO text survives a 'C' field, a missing 'C' value reads back falsy.  [keys] is ANY order
   of the field list (the code takes it from a set). *)
Theorem C20_shp_dt_roundtrip : forall dbf_name dbf_cell,
  dbf_name "datetime_start" = "datetime_s" -> dbf_name "datetime_end" = "datetime_e" ->
  (forall t, dbf_cell FC (Some (JTime t)) = JTime t) -> falsy (dbf_cell FC None) = true ->
  forall keys ty s idx,
  dt_wf (sdt s) -> no_reserved (sprops s) -> keys_ok dbf_name keys s ->
  ty "datetime_start" = FC -> ty "datetime_end" = FC ->
  shp_get_dt "datetime_s" "datetime_e" (rec_of dbf_name dbf_cell keys ty s idx) = Ok (sdt s).
Proof. exact shp_dt_roundtrip. Qed.
Print Assumptions C20_shp_dt_roundtrip.

(* an instant comes back as the (equal) zero-length interval *)
Theorem C20_shp_instant_roundtrip : forall dbf_name dbf_cell,
  dbf_name "datetime_start" = "datetime_s" -> dbf_name "datetime_end" = "datetime_e" ->
  (forall t, dbf_cell FC (Some (JTime t)) = JTime t) -> falsy (dbf_cell FC None) = true ->
  forall keys ty g p a idx,
  no_reserved p -> keys_ok dbf_name keys (mkshape g (Some (a, a)) p) ->
  ty "datetime_start" = FC -> ty "datetime_end" = FC ->
  shp_get_dt "datetime_s" "datetime_e" (rec_of dbf_name dbf_cell keys ty (mkshape g (Some (a, a)) p) idx)
  = Ok (Some (a, a)).
Proof. exact shp_instant_roundtrip. Qed.
Print Assumptions C20_shp_instant_roundtrip.

(* the datetime columns of the layer are typed 'C' by the library's own typemap *)
Theorem C20_time_columns_are_text : forall t, ftype_of (JDt t) = FC.
Proof. exact time_columns_text. Qed.
Print Assumptions C20_time_columns_are_text.

(* one (shape, record) pair: geometry (from the geometry theorems), dt, and the record as properties *)
Theorem C20_shp_shape_roundtrip : forall dbf_name dbf_cell,
  dbf_name "datetime_start" = "datetime_s" -> dbf_name "datetime_end" = "datetime_e" ->
  (forall t, dbf_cell FC (Some (JTime t)) = JTime t) -> falsy (dbf_cell FC None) = true ->
  forall half keys ty s idx g z,
  dt_wf (sdt s) -> no_reserved (sprops s) -> keys_ok dbf_name keys s ->
  ty "datetime_start" = FC -> ty "datetime_end" = FC ->
  from_pyshp half g z = Ok (sgeom s) ->
  exists s', shp_read_shape half g z (rec_of dbf_name dbf_cell keys ty s idx) = Ok s' /\
             sgeom s' = sgeom s /\ sdt s' = sdt s /\
             sprops s' = filter (fun kv => negb (is_time_col "datetime_s" "datetime_e" (fst kv)))
                                (rec_of dbf_name dbf_cell keys ty s idx).
Proof. exact shp_shape_roundtrip. Qed.
Print Assumptions C20_shp_shape_roundtrip.

(* ---------- (e) field typing: which property values survive ---------- *)

(* PARTIAL: a user property is read back under its (cut) field name whenever the DBF cell keeps
   its value — which the contract grants for strings, ints and bools (next theorem).  Missing:
   equality of the whole property dictionary, refuted below. *)
Theorem C20_shp_prop_survives_partial : forall dbf_name dbf_cell keys ty s idx k v,
  jget k (sprops s) = Some v -> user_key k -> In k keys ->
  (forall k', In k' keys -> dbf_name k' = dbf_name k -> k' = k) ->
  dbf_name k <> "ID" -> dbf_name k <> "datetime_s" -> dbf_name k <> "datetime_e" ->
  dbf_cell (ty k) (Some (convert_dt v)) = v ->
  jget (dbf_name k)
       (filter (fun kv => negb (is_time_col "datetime_s" "datetime_e" (fst kv)))
               (rec_of dbf_name dbf_cell keys ty s idx)) = Some v.
Proof. exact shp_prop_survives. Qed.
Print Assumptions C20_shp_prop_survives_partial.

Theorem C20_typemap_keeps_str_int_bool : forall scale v,
  (exists s, v = JStr s) \/ (exists n, v = JInt n) \/ (exists b, v = JBool b) ->
  dbf_cell_ref scale (ftype_of v) (Some (convert_dt v)) = v.
Proof. exact ftype_keeps. Qed.
Print Assumptions C20_typemap_keeps_str_int_bool.

(* the reference DBF codec (what the harness checks pyshp against) meets the contract *)
Theorem C20_dbf_reference_meets_contract : forall scale,
  trunc10 "datetime_start" = "datetime_s" /\ trunc10 "datetime_end" = "datetime_e" /\
  (forall t, dbf_cell_ref scale FC (Some (JTime t)) = JTime t) /\
  falsy (dbf_cell_ref scale FC None) = true /\
  (forall s, dbf_cell_ref scale FC (Some (JStr s)) = JStr s) /\
  (forall n, dbf_cell_ref scale FN (Some (JInt n)) = JInt n) /\
  (forall b, dbf_cell_ref scale FL (Some (JBool b)) = JBool b).
Proof. exact dbf_ref_contract. Qed.
Print Assumptions C20_dbf_reference_meets_contract.

(* D39: every record gains 'ID' = its index in the layer *)
Theorem C20_shp_id_added : forall dbf_name dbf_cell keys ty s idx,
  (forall k, In k keys -> dbf_name k <> "ID") ->
  jget "ID" (filter (fun kv => negb (is_time_col "datetime_s" "datetime_e" (fst kv)))
                    (rec_of dbf_name dbf_cell keys ty s idx)) = Some (JInt idx).
Proof. exact shp_id_added. Qed.
Print Assumptions C20_shp_id_added.

Theorem C20_shp_props_equal_refuted_id :
  exists s, sprops s = [] /\
    filter (fun kv => negb (is_time_col "datetime_s" "datetime_e" (fst kv)))
           (shp_record trunc10 (dbf_cell_ref 4) (group_keys [s]) (group_type [s]) s 0) = [("ID", JInt 0)].
Proof. exact shp_id_refuted. Qed.
Print Assumptions C20_shp_props_equal_refuted_id.

(* D38: float 1.5 (6 quarter units) comes back as the int 1 *)
Theorem C20_shp_float_refuted :
  exists s, jget "f" (sprops s) = Some (JFloat 6) /\
    jget "f" (shp_record trunc10 (dbf_cell_ref 4) (group_keys [s]) (group_type [s]) s 0) = Some (JInt 1).
Proof. exact shp_float_refuted. Qed.
Print Assumptions C20_shp_float_refuted.

(* D40: keys missing on a member come back as '' / None *)
Theorem C20_shp_missing_key_refuted :
  exists a b, let grp := [a; b] in
    jget "s" (sprops b) = None /\ jget "n" (sprops b) = None /\
    jget "s" (shp_record trunc10 (dbf_cell_ref 4) (group_keys grp) (group_type grp) b 1) = Some (JStr "") /\
    jget "n" (shp_record trunc10 (dbf_cell_ref 4) (group_keys grp) (group_type grp) b 1) = Some JNull.
Proof. exact shp_missing_key_refuted. Qed.
Print Assumptions C20_shp_missing_key_refuted.

(* ---------- (f) GeoPandas ---------- *)

(* CONTRACT premises on pandas: a datetime cell comes back as a Timestamp of the same
   instant, a missing cell never as a Timestamp *)
Theorem C20_gpd_dt_roundtrip : forall pd_cell,
  (forall k t, pd_cell k (Some (JDt t)) = PDt t) -> (forall k, is_pdt (Some (pd_cell k None)) = false) ->
  forall keys s,
  dt_wf (sdt s) -> no_reserved (sprops s) ->
  (forall k, In k (map fst (properties s)) -> In k keys) ->
  gpd_get_dt "datetime_start" "datetime_end" (gpd_record pd_cell keys s) = Ok (sdt s).
Proof. exact gpd_dt_roundtrip. Qed.
Print Assumptions C20_gpd_dt_roundtrip.

(* PARTIAL: values pandas keeps are read back; the dictionaries are not equal (D42) *)
Theorem C20_gpd_prop_survives_partial : forall pd_cell keys s k v,
  jget k (sprops s) = Some v -> user_key k -> String.eqb k "geometry" = false -> In k keys ->
  pd_cell k (Some v) = PV v ->
  pget k (gpd_props "datetime_start" "datetime_end" (gpd_record pd_cell keys s)) = Some (PV v).
Proof. exact gpd_prop_survives. Qed.
Print Assumptions C20_gpd_prop_survives_partial.

(* geometry, RELATIVE to C13 (wkt_roundtrip): CONTRACT premise = Shapely's text has the token
   tree of the library's own to_wkt *)
Theorem C20_gpd_geometry_roundtrip : forall shapely half orc g t,
  kind_tag g = Some t -> wkt_wf half g ->
  shapely (write orc None g) = write orc None g ->
  WktM.read half t (shapely (write orc None g)) = Ok g.
Proof. exact gpd_geometry_roundtrip. Qed.
Print Assumptions C20_gpd_geometry_roundtrip.

(* three-dimensional geometries: Shapely adds the Z marker after the keyword; same result *)
Theorem C20_gpd_geometry_roundtrip_z : forall shapely half orc g t,
  kind_tag g = Some t -> wkt_wf half g ->
  shapely (write orc None g) = with_zm [LZ] (write orc None g) ->
  WktM.read half t (shapely (write orc None g)) = Ok g.
Proof. exact gpd_geometry_roundtrip_z. Qed.
Print Assumptions C20_gpd_geometry_roundtrip_z.

Theorem C20_gpd_shape_roundtrip : forall shapely half orc pd keys s t,
  (forall k u, pd k (Some (JDt u)) = PDt u) -> (forall k, is_pdt (Some (pd k None)) = false) ->
  kind_tag (sgeom s) = Some t -> wkt_wf half (sgeom s) ->
  shapely (write orc None (sgeom s)) = write orc None (sgeom s) ->
  dt_wf (sdt s) -> no_reserved (sprops s) ->
  (forall k, In k (map fst (properties s)) -> In k keys) ->
  gpd_read_shape half (shapely (write orc None (sgeom s))) (gpd_record pd keys s) =
  Ok (mkgshape (sgeom s) (sdt s) (gpd_props "datetime_start" "datetime_end" (gpd_record pd keys s))).
Proof. exact gpd_shape_roundtrip. Qed.
Print Assumptions C20_gpd_shape_roundtrip.

(* D41 (repaired in /repo): what Shapely 2 writes for a MultiPoint - one parenthesised coordinate per
   point, with the Z marker for three-dimensional points - is read back as the same multipoint *)
Theorem C20_gpd_multipoint_roundtrip : forall half (orc : oracle) cs zm,
  zm = [] \/ zm = [LZ] -> wkt_wf half (GMPoint cs) ->
  WktM.read half TMPoint (mkwkt (Some TMPoint) true zm (W2 (map (fun c => [tuple_of c]) cs))) = Ok (GMPoint cs).
Proof. exact gpd_multipoint_roundtrip. Qed.
Print Assumptions C20_gpd_multipoint_roundtrip.

(* D42: a key missing on a member comes back as nan *)
Theorem C20_gpd_missing_key_refuted :
  exists a b, jget "n" (sprops b) = None /\
    pget "n" (gpd_props "datetime_start" "datetime_end"
               (gpd_record (fun _ => pd_cell_ref 4 (CKNum true)) (group_keys [a; b]) b)) = Some PNaN.
Proof. exact gpd_missing_key_refuted. Qed.
Print Assumptions C20_gpd_missing_key_refuted.

(* ---------- (g) KML ---------- *)

(* instant -> TimeStamp, interval -> TimeSpan, and back *)
Theorem C20_kml_time_roundtrip : forall a b, a <= b ->
  from_fastkml_time (to_fastkml_time (a, b)) = Ok (a, b).
Proof. exact kml_time_roundtrip. Qed.
Print Assumptions C20_kml_time_roundtrip.

Theorem C20_kml_time_kind : forall a b,
  (a = b -> to_fastkml_time (a, b) = KStamp a) /\ (a <> b -> to_fastkml_time (a, b) = KSpan a b).
Proof. exact kml_time_kind. Qed.
Print Assumptions C20_kml_time_kind.

(* CONTRACT premise [kml_contract]: the placemark's geo interface keeps 'type' and 'coordinates'
   (extra members such as 'bbox' allowed), times and extended data come back unchanged.
   Result: the same geometry, the same dt, and the properties plus 'sub_folder_0' (D43). *)
Theorem C20_kml_roundtrip : forall geo_of time_of data_of half orc folder s kd pm,
  kind_of (sgeom s) = Some kd -> geom_wf half (sgeom s) -> dt_wf (sdt s) -> clean_strings (sprops s) ->
  to_placemark orc s = Ok pm -> kml_contract geo_of time_of data_of pm ->
  kml_read_placemark half folder (kml_codec geo_of time_of data_of pm) =
  Ok (mkshape (sgeom s) (sdt s)
              (match sprops s with [] => [] | _ => dset "sub_folder_0" (JStr folder) (sprops s) end)).
Proof. exact kml_roundtrip. Qed.
Print Assumptions C20_kml_roundtrip.

Theorem C20_kml_subfolder_refuted :
  exists pm s, kml_read_placemark 720 "f" pm = Ok s /\ pm_data pm = [("a", JStr "x")] /\
               sprops s = [("a", JStr "x"); ("sub_folder_0", JStr "f")].
Proof. exact kml_subfolder_refuted. Qed.
Print Assumptions C20_kml_subfolder_refuted.

(* D45: any non-zero int property (likewise True, a non-zero float) makes the export raise *)
Theorem C20_kml_nonstring_refuted : forall orc g dt k n, n <> 0 ->
  to_placemark orc (mkshape g dt [(k, JInt n)]) = Err OtherError.
Proof. exact kml_nonstring_refuted. Qed.
Print Assumptions C20_kml_nonstring_refuted.

Theorem C20_folder_order_kept : forall orc l pms n s,
  to_folder orc l = Ok pms -> nth_error l n = Some s ->
  exists pm, nth_error pms n = Some pm /\ to_placemark orc s = Ok pm.
Proof. exact folder_order_kept. Qed.
Print Assumptions C20_folder_order_kept.

(* ---------- non-vacuity ---------- *)

(* a clockwise, unclosed square with two holes and Z on every vertex; a two-part multipolygon
   whose first part has a hole; interval dt; string / int / bool properties: the hypotheses
   hold and the whole shapefile round trip computes with the reference codecs *)
Definition zc (x y z : Z) : coord := mkc x y (Some z).
Definition ex_sq : ring := [zc 0 0 4; zc 0 40 8; zc 40 40 12; zc 40 0 16].
Definition ex_h1 : ring := [zc 8 8 20; zc 12 8 24; zc 12 12 28; zc 8 8 20].
Definition ex_h2 : ring := [zc 20 20 32; zc 20 24 36; zc 24 24 40].
Definition ex_poly : polygon := mk_polygon 720 ex_sq (map (mk_hole 720) [ex_h1; ex_h2]).
Definition ex_tri : ring := [mkc 80 80 None; mkc 84 80 None; mkc 84 84 None].
Definition ex_sq2 : ring := [mkc 0 0 None; mkc 0 40 None; mkc 40 40 None; mkc 40 0 None].
Definition ex_h3 : ring := [mkc 8 8 None; mkc 12 8 None; mkc 12 12 None].
Definition ex_mp : list polygon := [mk_polygon 720 ex_sq2 (map (mk_hole 720) [ex_h3]); mk_polygon 720 ex_tri []].
Definition ex_shape : shape :=
  mkshape (GPoly ex_poly) (Some (5, 9)) [("name", JStr "x"); ("n", JInt 3); ("flag", JBool true)].

Example C20_nonvacuous :
  is_ccw 720 ex_sq = false /\ closedb ex_sq = false /\ has_z (GPoly ex_poly) = true /\
  length (esri_rings noorc (GPoly ex_poly)) = 3%nat /\
  (let w := to_pyshp noorc (GPoly ex_poly) in from_pyshp 720 (esri_gi w) (ps_z w) = Ok (GPoly ex_poly)) /\
  (let w := to_pyshp noorc (GMPoly ex_mp) in
   length (ps_parts w) = 3%nat /\ from_pyshp 720 (esri_gi w) (ps_z w) = Ok (GMPoly ex_mp)) /\
  (let w := to_pyshp noorc (sgeom ex_shape) in
   let keys := group_keys [ex_shape] in
   keys = ["name"; "n"; "flag"; "datetime_start"; "datetime_end"] /\
   shp_read_shape 720 (esri_gi w) (ps_z w)
     (shp_record trunc10 (dbf_cell_ref 4) keys (group_type [ex_shape]) ex_shape 0) =
   Ok (mkshape (GPoly ex_poly) (Some (5, 9))
               [("name", JStr "x"); ("n", JInt 3); ("flag", JBool true); ("ID", JInt 0)])).
Proof. vm_compute. repeat split; reflexivity. Qed.

Example C20_nonvacuous_wf :
  esri_ok 720 ex_poly /\ zmode_ok (has_z (GPoly ex_poly)) (esri_rings noorc (GPoly ex_poly)) /\
  Forall (esri_ok 720) ex_mp /\
  keys_ok trunc10 (group_keys [ex_shape]) ex_shape.
Proof.
  assert (S4 : forall r : ring, Forall (fun c => 0 <= lon c <= 100) r -> span_ok 720 r).
  { intros r H a b Ha Hb. rewrite Forall_forall in H. pose proof (H a Ha). pose proof (H b Hb). lia. }
  assert (B : forall x y z, 0 <= lon (mkc x y z) <= 100 <-> 0 <= x <= 100) by (intros; reflexivity).
  split; [|split; [|split]].
  - apply (constructed_esri_ok 720 ex_sq [ex_h1; ex_h2]); [apply S4; repeat constructor; cbn; lia|cbn; lia|vm_compute; discriminate|].
    repeat constructor; try (apply S4; repeat constructor; cbn; lia); cbn; lia.
  - vm_compute. repeat constructor; eexists; (split; [reflexivity|discriminate]).
  - constructor; [|constructor; [|constructor]].
    + apply (constructed_esri_ok 720 ex_sq2 [ex_h3]); [apply S4; repeat constructor; cbn; lia|cbn; lia|vm_compute; discriminate|].
      repeat constructor; try (apply S4; repeat constructor; cbn; lia); cbn; lia.
    + apply (constructed_esri_ok 720 ex_tri []); [apply S4; repeat constructor; cbn; lia|cbn; lia|vm_compute; discriminate|constructor].
  - split; [|split].
    + intros k H. vm_compute in H. vm_compute.
      repeat (destruct H as [<-|H]; [tauto|]). destruct H.
    + intros k H E. vm_compute in H. repeat (destruct H as [<-|H]; [try reflexivity; vm_compute in E; discriminate|]). destruct H.
    + intros k H E. vm_compute in H. repeat (destruct H as [<-|H]; [try reflexivity; vm_compute in E; discriminate|]). destruct H.
Qed.
