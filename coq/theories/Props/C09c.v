(* C09, third file: the last sentence of the property -
     "For circles, ellipses, rings and wedges of up to 10 km radius centred within 75 degrees of the
      equator the bounds match the true extents of the curve to within 1% of the radius."
   as real-number theorems about the formulas of GeoCircle.bounds / GeoRing.bounds (full ring) /
   GeoEllipse.bounds (Model/BoundsCurveM.v over the spherical calculator of Model/SphereM.v).
   Errors are in METRES, as harness/c09.py measures them: Rearth * (latitude difference in radians) and
   Rearth * cos (centre latitude) * (longitude difference in radians); longitudes are the un-wrapped
   values inverse_haversine computes before the Coordinate constructor normalises them.
   The "true extents" are the maximum / minimum of latitude and longitude over ALL bearings of the
   curve generator (is_max_of / is_min_of below), not a formula taken on trust.
   Not covered here: wedges (bounds = min/max of the sampled arc), the 1e-7 degree rounding of the
   corner destinations (<= 2 cm: C07 / SphereP5.dest_rounded_within_2cm), float evaluation. *)
From GV Require Import Prelude SphereM CurveM BoundsCurveM BoundsCurveP2 BoundsCurveP3 BoundsCurveP4 BoundsCurveP5 BoundsCurveP6.
(* axioms (Print Assumptions, every theorem below): the standard real-number axioms only -
   ClassicalDedekindReals.sig_not_dec, ClassicalDedekindReals.sig_forall_dec,
   FunctionalExtensionality.functional_extensionality_dep, Classical_Prop.classic.
   No Interval / Coquelicot / primitive-integer dependency: the proofs use only
   x - x^3/6 <= sin x <= x, 1 - x^2/2 <= cos x <= 1, Cauchy-Schwarz and the monotonicity of asin / atan. *)
From Coq Require Import Reals.
Open Scope R_scope.

(* ---- GeoCircle.bounds against the closed forms of the extents ---- *)
Theorem C09_circle_bounds_north : forall c r,
  Rabs (lat c) <= 75 -> 0 <= r <= 10000 ->
  Rearth * Rabs (rad (rb_maxlat (circle_bounds c r)) - (rad (lat c) + r / Rearth)) <= r / 100.
Proof. exact circle_bounds_north. Qed.
Print Assumptions C09_circle_bounds_north.

Theorem C09_circle_bounds_south : forall c r,
  Rabs (lat c) <= 75 -> 0 <= r <= 10000 ->
  Rearth * Rabs (rad (rb_minlat (circle_bounds c r)) - (rad (lat c) - r / Rearth)) <= r / 100.
Proof. exact circle_bounds_south. Qed.
Print Assumptions C09_circle_bounds_south.

Theorem C09_circle_bounds_west : forall c r,
  Rabs (lat c) <= 75 -> 0 <= r <= 10000 ->
  Rearth * cos (rad (lat c)) *
    Rabs (rad (rb_minlon (circle_bounds c r)) - (rad (lon c) - asin (sin (r / Rearth) / cos (rad (lat c)))))
  <= r / 100.
Proof. exact circle_bounds_west. Qed.
Print Assumptions C09_circle_bounds_west.

Theorem C09_circle_bounds_east : forall c r,
  Rabs (lat c) <= 75 -> 0 <= r <= 10000 ->
  Rearth * cos (rad (lat c)) *
    Rabs (rad (rb_maxlon (circle_bounds c r)) - (rad (lon c) + asin (sin (r / Rearth) / cos (rad (lat c)))))
  <= r / 100.
Proof. exact circle_bounds_east. Qed.
Print Assumptions C09_circle_bounds_east.

(* ---- those closed forms ARE the extents of the curve { dest_rad c t r : t } ---- *)
Theorem C09_circle_true_extents : forall c r,
  Rabs (lat c) <= 75 -> 0 <= r <= 10000 ->
  is_max_of (curve_lat c r) (rad (lat c) + r / Rearth) /\
  is_min_of (curve_lat c r) (rad (lat c) - r / Rearth) /\
  is_max_of (curve_lon c r) (rad (lon c) + asin (sin (r / Rearth) / cos (rad (lat c)))) /\
  is_min_of (curve_lon c r) (rad (lon c) - asin (sin (r / Rearth) / cos (rad (lat c)))).
Proof. exact circle_true_extents. Qed.
Print Assumptions C09_circle_true_extents.

(* ---- the clause for GeoCircle: N, S, E, W are the extreme latitudes / longitudes of the curve ---- *)
Theorem C09_circle_bounds_match_extents : forall c r N S E W,
  Rabs (lat c) <= 75 -> 0 <= r <= 10000 ->
  is_max_of (curve_lat c r) N -> is_min_of (curve_lat c r) S ->
  is_max_of (curve_lon c r) E -> is_min_of (curve_lon c r) W ->
  let b := circle_bounds c r in
  Rearth * Rabs (rad (rb_maxlat b) - N) <= r / 100 /\
  Rearth * Rabs (rad (rb_minlat b) - S) <= r / 100 /\
  Rearth * cos (rad (lat c)) * Rabs (rad (rb_maxlon b) - E) <= r / 100 /\
  Rearth * cos (rad (lat c)) * Rabs (rad (rb_minlon b) - W) <= r / 100.
Proof. exact circle_bounds_match_extents. Qed.
Print Assumptions C09_circle_bounds_match_extents.

(* ---- the clause for a full GeoRing (same formula with the outer radius) ---- *)
Theorem C09_ring_full_bounds_match_extents : forall (s : ring) N S E W,
  Rabs (lat (r_center s)) <= 75 -> 0 <= r_outer s <= 10000 ->
  is_max_of (curve_lat (r_center s) (r_outer s)) N -> is_min_of (curve_lat (r_center s) (r_outer s)) S ->
  is_max_of (curve_lon (r_center s) (r_outer s)) E -> is_min_of (curve_lon (r_center s) (r_outer s)) W ->
  let b := ring_full_bounds s in
  Rearth * Rabs (rad (rb_maxlat b) - N) <= r_outer s / 100 /\
  Rearth * Rabs (rad (rb_minlat b) - S) <= r_outer s / 100 /\
  Rearth * cos (rad (lat (r_center s))) * Rabs (rad (rb_maxlon b) - E) <= r_outer s / 100 /\
  Rearth * cos (rad (lat (r_center s))) * Rabs (rad (rb_minlon b) - W) <= r_outer s / 100.
Proof. exact ring_full_bounds_match_extents. Qed.
Print Assumptions C09_ring_full_bounds_match_extents.

(* ---- GeoEllipse.bounds, any rotation: every curve point is at most 1 % of the semi-major axis outside
   each bound, and some curve point comes within 1 % of it ---- *)
Theorem C09_ellipse_north : forall el,
  Rabs (lat (e_center el)) <= 75 -> 0 < e_minor el -> e_minor el <= e_major el -> e_major el <= 10000 ->
  (forall t, Rearth * (ecurve_lat el t - rad (rb_maxlat (ellipse_bounds el))) <= e_major el / 100) /\
  (exists t, Rearth * (rad (rb_maxlat (ellipse_bounds el)) - ecurve_lat el t) <= e_major el / 100).
Proof. exact ellipse_north. Qed.
Print Assumptions C09_ellipse_north.

Theorem C09_ellipse_south : forall el,
  Rabs (lat (e_center el)) <= 75 -> 0 < e_minor el -> e_minor el <= e_major el -> e_major el <= 10000 ->
  (forall t, Rearth * (rad (rb_minlat (ellipse_bounds el)) - ecurve_lat el t) <= e_major el / 100) /\
  (exists t, Rearth * (ecurve_lat el t - rad (rb_minlat (ellipse_bounds el))) <= e_major el / 100).
Proof. exact ellipse_south. Qed.
Print Assumptions C09_ellipse_south.

Theorem C09_ellipse_east : forall el,
  Rabs (lat (e_center el)) <= 75 -> 0 < e_minor el -> e_minor el <= e_major el -> e_major el <= 10000 ->
  (forall t, Rearth * cos (rad (lat (e_center el))) * (ecurve_lon el t - rad (rb_maxlon (ellipse_bounds el)))
             <= e_major el / 100) /\
  (exists t, Rearth * cos (rad (lat (e_center el))) * (rad (rb_maxlon (ellipse_bounds el)) - ecurve_lon el t)
             <= e_major el / 100).
Proof. exact ellipse_east. Qed.
Print Assumptions C09_ellipse_east.

Theorem C09_ellipse_west : forall el,
  Rabs (lat (e_center el)) <= 75 -> 0 < e_minor el -> e_minor el <= e_major el -> e_major el <= 10000 ->
  (forall t, Rearth * cos (rad (lat (e_center el))) * (rad (rb_minlon (ellipse_bounds el)) - ecurve_lon el t)
             <= e_major el / 100) /\
  (exists t, Rearth * cos (rad (lat (e_center el))) * (ecurve_lon el t - rad (rb_minlon (ellipse_bounds el)))
             <= e_major el / 100).
Proof. exact ellipse_west. Qed.
Print Assumptions C09_ellipse_west.

(* ---- the clause for GeoEllipse: N, S, E, W are the suprema / infima of latitude / longitude over the curve ---- *)
Theorem C09_ellipse_bounds_match_extents : forall el N S E W,
  Rabs (lat (e_center el)) <= 75 -> 0 < e_minor el -> e_minor el <= e_major el -> e_major el <= 10000 ->
  is_sup_of (ecurve_lat el) N -> is_inf_of (ecurve_lat el) S ->
  is_sup_of (ecurve_lon el) E -> is_inf_of (ecurve_lon el) W ->
  let b := ellipse_bounds el in
  Rearth * Rabs (rad (rb_maxlat b) - N) <= e_major el / 100 /\
  Rearth * Rabs (rad (rb_minlat b) - S) <= e_major el / 100 /\
  Rearth * cos (rad (lat (e_center el))) * Rabs (rad (rb_maxlon b) - E) <= e_major el / 100 /\
  Rearth * cos (rad (lat (e_center el))) * Rabs (rad (rb_minlon b) - W) <= e_major el / 100.
Proof. exact ellipse_bounds_match_extents. Qed.
Print Assumptions C09_ellipse_bounds_match_extents.

(* ---- the generated vertices are curve points (so the extents above bound every vertex of bounding_coords) ---- *)
Theorem C09_vertices_are_curve_points :
  (forall s k i, rad (lat (circle_pt s k i)) = curve_lat (c_center s) (c_radius s) (circle_angle k i) /\
                 rad (lon (circle_pt s k i)) = curve_lon (c_center s) (c_radius s) (circle_angle k i)) /\
  (forall s k i, rad (lat (ring_outer_pt s k i)) = curve_lat (r_center s) (r_outer s) (ring_angle s k i) /\
                 rad (lon (ring_outer_pt s k i)) = curve_lon (r_center s) (r_outer s) (ring_angle s k i)) /\
  (forall s k i, rad (lat (ellipse_pt s k i)) = ecurve_lat s (ellipse_angle k i) /\
                 rad (lon (ellipse_pt s k i)) = ecurve_lon s (ellipse_angle k i)).
Proof. exact (conj circle_pt_is_curve_point (conj ring_outer_pt_is_curve_point ellipse_pt_is_curve_point)). Qed.
Print Assumptions C09_vertices_are_curve_points.

(* ---- the same for what the code RETURNS: the corner destinations rounded to 7 decimals (dest_deg_rounded).
   circle_bounds_rounded / ring_bounds_full_opt / ellipse_bounds_rounded are the definitions that
   geneq/CurveBoundsGenEq.v proves equal to GeoCircle.bounds / GeoRing.bounds (first branch) / GeoEllipse.bounds as
   regenerated from the source by tools/gen_curvebounds.py; the rounding costs at most 5.6 mm ---- *)
Theorem C09_circle_bounds_rounded_match_extents : forall c r N S E W,
  Rabs (lat c) <= 75 -> 0 <= r <= 10000 ->
  is_max_of (curve_lat c r) N -> is_min_of (curve_lat c r) S ->
  is_max_of (curve_lon c r) E -> is_min_of (curve_lon c r) W ->
  let b := circle_bounds_rounded c r in
  Rearth * Rabs (rad (rb_maxlat b) - N) <= r / 100 + 56 / 10000 /\
  Rearth * Rabs (rad (rb_minlat b) - S) <= r / 100 + 56 / 10000 /\
  Rearth * cos (rad (lat c)) * Rabs (rad (rb_maxlon b) - E) <= r / 100 + 56 / 10000 /\
  Rearth * cos (rad (lat c)) * Rabs (rad (rb_minlon b) - W) <= r / 100 + 56 / 10000.
Proof. exact circle_bounds_rounded_match_extents. Qed.
Print Assumptions C09_circle_bounds_rounded_match_extents.

Theorem C09_ring_bounds_rounded_match_extents : forall (s : ring) b N S E W,
  ring_bounds_full_opt s = Some b ->
  Rabs (lat (r_center s)) <= 75 -> 0 <= r_outer s <= 10000 ->
  is_max_of (curve_lat (r_center s) (r_outer s)) N -> is_min_of (curve_lat (r_center s) (r_outer s)) S ->
  is_max_of (curve_lon (r_center s) (r_outer s)) E -> is_min_of (curve_lon (r_center s) (r_outer s)) W ->
  Rearth * Rabs (rad (rb_maxlat b) - N) <= r_outer s / 100 + 56 / 10000 /\
  Rearth * Rabs (rad (rb_minlat b) - S) <= r_outer s / 100 + 56 / 10000 /\
  Rearth * cos (rad (lat (r_center s))) * Rabs (rad (rb_maxlon b) - E) <= r_outer s / 100 + 56 / 10000 /\
  Rearth * cos (rad (lat (r_center s))) * Rabs (rad (rb_minlon b) - W) <= r_outer s / 100 + 56 / 10000.
Proof. exact ring_bounds_rounded_match_extents. Qed.
Print Assumptions C09_ring_bounds_rounded_match_extents.

(* the first branch of GeoRing.bounds is taken exactly by the rings whose angle range is at least 360 degrees *)
Theorem C09_ring_bounds_branch : forall s,
  (360 <= r_amax s - r_amin s -> ring_bounds_full_opt s = Some (circle_bounds_rounded (r_center s) (r_outer s))) /\
  (r_amax s - r_amin s < 360 -> ring_bounds_full_opt s = None).
Proof. exact ring_bounds_full_opt_spec. Qed.
Print Assumptions C09_ring_bounds_branch.

Theorem C09_ellipse_bounds_rounded_match_extents : forall el N S E W,
  Rabs (lat (e_center el)) <= 75 -> 0 < e_minor el -> e_minor el <= e_major el -> e_major el <= 10000 ->
  is_sup_of (ecurve_lat el) N -> is_inf_of (ecurve_lat el) S ->
  is_sup_of (ecurve_lon el) E -> is_inf_of (ecurve_lon el) W ->
  let b := ellipse_bounds_rounded el in
  Rearth * Rabs (rad (rb_maxlat b) - N) <= e_major el / 100 + 56 / 10000 /\
  Rearth * Rabs (rad (rb_minlat b) - S) <= e_major el / 100 + 56 / 10000 /\
  Rearth * cos (rad (lat (e_center el))) * Rabs (rad (rb_maxlon b) - E) <= e_major el / 100 + 56 / 10000 /\
  Rearth * cos (rad (lat (e_center el))) * Rabs (rad (rb_minlon b) - W) <= e_major el / 100 + 56 / 10000.
Proof. exact ellipse_bounds_rounded_match_extents. Qed.
Print Assumptions C09_ellipse_bounds_rounded_match_extents.

(* ---- the hypotheses are satisfiable: centre (10, 60), radius 5000 m; ellipse 5000 x 2500 m rotated 25 degrees ---- *)
Example C09c_nonvacuous :
  let c : coord := (10, 60) in
  let el := mkellipse c 5000 2500 25 [] in
  Rabs (lat c) <= 75 /\ 0 <= 5000 <= 10000 /\
  (exists N S E W, is_max_of (curve_lat c 5000) N /\ is_min_of (curve_lat c 5000) S /\
                   is_max_of (curve_lon c 5000) E /\ is_min_of (curve_lon c 5000) W) /\
  Rabs (lat (e_center el)) <= 75 /\ 0 < e_minor el /\ e_minor el <= e_major el /\ e_major el <= 10000 /\
  (exists N S E W, is_sup_of (ecurve_lat el) N /\ is_inf_of (ecurve_lat el) S /\
                   is_sup_of (ecurve_lon el) E /\ is_inf_of (ecurve_lon el) W).
Proof. exact nonvacuous_curved_bounds. Qed.
