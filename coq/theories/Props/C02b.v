(* C02 (continued) -- FULL planar truth of intersects_shape / contains_shape for the axis-aligned
   family, over all integers (the general "equals planar set truth" stays unproved, see C02.v).
   Family: GeoBox without holes, and GeoPolygon of a rectangle outline (any start vertex, either
   winding, as GeoPolygon.__init__ stores it), in every combination and both argument orders.
     intersects = the two CLOSED rectangles share a point
     contains   = the second rectangle lies STRICTLY inside the first
   Derived from the model (and replayed on /repo: 10 000 pairs of boxes with corners in 0..4, no
   mismatch), not guessed: the documented exception "boundaries that only overlap collinearly do
   not count" never changes the answer within this family, because the perpendicular sides meet at
   the ends of every collinear overlap -- identical boxes, boxes sharing a side, boxes touching
   along a side or in one corner all intersect (and none of them contains the other).
   One literal reading of the property text is refuted: a GeoBox "contains" a point on its frame.
   This file holds only statements closed by [exact] and their Print Assumptions. *)
From GV Require Import Prelude TimeM GeomM GeomP GeomP4 GeomP6 SweepM PairM PairP PairP2.
Open Scope Z_scope.

(* ---- find_line_intersection on axis-aligned segments ---------------------------------------- *)
Theorem C02_hit_axis : forall l r h v b t, l < r -> b < t ->
  hit ((l, h), (r, h)) ((v, b), (v, t)) = ((l <=? v) && (v <=? r)) && ((b <=? h) && (h <=? t)).
Proof. exact hit_hv. Qed.
Print Assumptions C02_hit_axis.

(* parallel segments never hit: the documented exception, at the level of one edge pair *)
Theorem C02_hit_parallel : forall l r h l' r' h' v b t v' b' t',
  hit ((l, h), (r, h)) ((l', h'), (r', h')) = false /\
  hit ((v, b), (v, t)) ((v', b'), (v', t')) = false.
Proof. exact (fun l r h l' r' h' v b t v' b' t' => conj (hit_hh l r h l' r' h') (hit_vv v b t v' b' t')). Qed.
Print Assumptions C02_hit_parallel.

(* ---- the two answers as formulas, and what the formulas mean --------------------------------- *)
Theorem C02_rects_meet_spec : forall xa0 ya0 xa1 ya1 xb0 yb0 xb1 yb1,
  (rects_meet xa0 ya0 xa1 ya1 xb0 yb0 xb1 yb1 = true <->
   exists x y, (xa0 <= x <= xa1 /\ ya0 <= y <= ya1) /\ (xb0 <= x <= xb1 /\ yb0 <= y <= yb1)) /\
  (rects_meet xa0 ya0 xa1 ya1 xb0 yb0 xb1 yb1 = true <->
   exists xn yn dv, 0 < dv /\
     (xa0 * dv <= xn <= xa1 * dv /\ ya0 * dv <= yn <= ya1 * dv) /\
     (xb0 * dv <= xn <= xb1 * dv /\ yb0 * dv <= yn <= yb1 * dv)).
Proof. exact (fun a b c d e f g h => conj (rects_meet_spec a b c d e f g h) (rects_meet_spec_q a b c d e f g h)). Qed.
Print Assumptions C02_rects_meet_spec.

Theorem C02_rect_inside_spec : forall xa0 ya0 xa1 ya1 xb0 yb0 xb1 yb1, xb0 <= xb1 -> yb0 <= yb1 ->
  (rect_inside xa0 ya0 xa1 ya1 xb0 yb0 xb1 yb1 = true <->
   forall x y, xb0 <= x <= xb1 /\ yb0 <= y <= yb1 -> xa0 < x < xa1 /\ ya0 < y < ya1).
Proof. exact rect_inside_spec. Qed.
Print Assumptions C02_rect_inside_spec.

(* ---- GeoBox x GeoBox -------------------------------------------------------------------------- *)
Theorem C02_box_box_intersects : forall w nwA seA dA nwB seB dB,
  px nwA < px seA -> py seA < py nwA -> px nwB < px seB -> py seB < py nwB ->
  intersects_shape w (Box nwA seA [] dA) (Box nwB seB [] dB) =
  Ok ((Z.max (px nwA) (px nwB) <=? Z.min (px seA) (px seB)) &&
      (Z.max (py seA) (py seB) <=? Z.min (py nwA) (py nwB))).
Proof. exact box_box_intersects. Qed.
Print Assumptions C02_box_box_intersects.

Theorem C02_box_box_contains : forall w nwA seA dA nwB seB dB,
  px nwA < px seA -> py seA < py nwA -> px nwB < px seB -> py seB < py nwB ->
  contains_shape w (Box nwA seA [] dA) (Box nwB seB [] dB) =
  Ok ((px nwA <? px nwB) && (px seB <? px seA) && (py seA <? py seB) && (py nwB <? py nwA)).
Proof. exact box_box_contains. Qed.
Print Assumptions C02_box_box_contains.

(* the property's words: never raises; True exactly when the closed sets share a point /
   exactly when every point of B is strictly inside A *)
Theorem C02_box_box_intersects_truth : forall w nwA seA dA nwB seB dB,
  px nwA < px seA -> py seA < py nwA -> px nwB < px seB -> py seB < py nwB ->
  (exists r, intersects_shape w (Box nwA seA [] dA) (Box nwB seB [] dB) = Ok r) /\
  (intersects_shape w (Box nwA seA [] dA) (Box nwB seB [] dB) = Ok true <->
   exists p, box_closed nwA seA p /\ box_closed nwB seB p).
Proof. exact box_box_intersects_truth. Qed.
Print Assumptions C02_box_box_intersects_truth.

Theorem C02_box_box_contains_truth : forall w nwA seA dA nwB seB dB,
  px nwA < px seA -> py seA < py nwA -> px nwB < px seB -> py seB < py nwB ->
  (exists r, contains_shape w (Box nwA seA [] dA) (Box nwB seB [] dB) = Ok r) /\
  (contains_shape w (Box nwA seA [] dA) (Box nwB seB [] dB) = Ok true <->
   forall p, box_closed nwB seB p -> open_box (px nwA) (py seA) (px seA) (py nwA) p).
Proof. exact box_box_contains_truth. Qed.
Print Assumptions C02_box_box_contains_truth.

(* ---- the whole family: boxes and rectangle polygons, every combination ------------------------ *)
(* rect_shape s x0 y0 x1 y1: s is Box (x0,y1) (x1,y0) [] d, or Poly o [] d with o the outline
   GeoPolygon stores for the rectangle [x0,x1] x [y0,y1] started at any vertex in either winding.
   [w] is the west end of the point-in-polygon ray (-180 times the scale): w <= every longitude. *)
Theorem C02_rect_family_relations : forall w a b xa0 ya0 xa1 ya1 xb0 yb0 xb1 yb1,
  rect_shape a xa0 ya0 xa1 ya1 -> rect_shape b xb0 yb0 xb1 yb1 ->
  xa0 < xa1 -> ya0 < ya1 -> xb0 < xb1 -> yb0 < yb1 -> w <= xa0 -> w <= xb0 ->
  intersects_shape w a b = Ok (rects_meet xa0 ya0 xa1 ya1 xb0 yb0 xb1 yb1) /\
  contains_shape w a b = Ok (rect_inside xa0 ya0 xa1 ya1 xb0 yb0 xb1 yb1).
Proof. exact rect_shapes_relations. Qed.
Print Assumptions C02_rect_family_relations.

(* the abstract form: any two shapes whose undirected edges are the four sides, whose first
   vertex is a corner and whose membership test lies between the open and the closed rectangle *)
Theorem C02_rectlike_relations : forall w wb a b xa0 ya0 xa1 ya1 xb0 yb0 xb1 yb1,
  rectlike w wb a xa0 ya0 xa1 ya1 -> rectlike w wb b xb0 yb0 xb1 yb1 ->
  xa0 < xa1 -> ya0 < ya1 -> xb0 < xb1 -> yb0 < yb1 -> wb <= xa0 -> wb <= xb0 ->
  intersects_shape w a b = Ok (rects_meet xa0 ya0 xa1 ya1 xb0 yb0 xb1 yb1) /\
  contains_shape w a b = Ok (rect_inside xa0 ya0 xa1 ya1 xb0 yb0 xb1 yb1).
Proof.
  exact (fun w wb a b xa0 ya0 xa1 ya1 xb0 yb0 xb1 yb1 Ra Rb H1 H2 H3 H4 H5 H6 =>
    conj (rect_intersects w wb a b xa0 ya0 xa1 ya1 xb0 yb0 xb1 yb1 Ra Rb H1 H2 H3 H4 H5 H6)
         (rect_contains w wb a b xa0 ya0 xa1 ya1 xb0 yb0 xb1 yb1 Ra Rb H1 H2 H3 H4 H5 H6)).
Qed.
Print Assumptions C02_rectlike_relations.

Theorem C02_rectlike_instances : forall w,
  (forall wb nw se d, rectlike w wb (Box nw se [] d) (px nw) (py se) (px se) (py nw)) /\
  (forall x0 y0 x1 y1 k h d, x0 < x1 -> y0 < y1 -> w <= x0 ->
     rectlike w w (Poly (norm_outline h (reclose (rot k (rect x0 y0 x1 y1)))) [] d) x0 y0 x1 y1 /\
     rectlike w w (Poly (norm_outline h (reclose (rot k (rev (rect x0 y0 x1 y1))))) [] d) x0 y0 x1 y1).
Proof. exact (fun w => conj (rectlike_box w) (rectlike_poly w)). Qed.
Print Assumptions C02_rectlike_instances.

(* ---- with a point ----------------------------------------------------------------------------- *)
(* the box is closed for all three tests (frame included) *)
Theorem C02_box_pt_relations : forall w nw se d p d',
  intersects_shape w (Box nw se [] d) (Pt p d') = Ok (box_in nw se p) /\
  intersects_shape w (Pt p d') (Box nw se [] d) = Ok (box_in nw se p) /\
  contains_shape w (Box nw se [] d) (Pt p d') = Ok (box_in nw se p) /\
  (box_in nw se p = true <-> px nw <= px p <= px se /\ py se <= py p <= py nw).
Proof. exact box_pt_relations. Qed.
Print Assumptions C02_box_pt_relations.

(* the rectangle polygon is open for all three *)
Theorem C02_rectpoly_pt_relations : forall w x0 y0 x1 y1 k h d p d',
  x0 < x1 -> y0 < y1 -> w <= x0 -> w <= px p ->
  let A := Poly (norm_outline h (reclose (rot k (rect x0 y0 x1 y1)))) [] d in
  exists r, intersects_shape w A (Pt p d') = Ok r /\ intersects_shape w (Pt p d') A = Ok r /\
            contains_shape w A (Pt p d') = Ok r /\
            (r = true <-> x0 < px p < x1 /\ y0 < py p < y1).
Proof. exact rectpoly_pt_relations. Qed.
Print Assumptions C02_rectpoly_pt_relations.

(* "contains = inside WITHOUT touching the boundary", read literally, is false of a box and a
   point on its frame (GeoBox.contains_coordinate is documented as closed; C01b) *)
Theorem C02_box_contains_frame_point_refuted :
  exists nw se p, (px p = px nw /\ py se <= py p <= py nw) /\
    contains_shape (-180) (Box nw se [] None) (Pt p None) = Ok true.
Proof. exact box_contains_frame_point_refuted. Qed.
Print Assumptions C02_box_contains_frame_point_refuted.

(* ---- non-vacuity: the truth table, through intersects_shape / contains_shape ------------------- *)
Definition bx (x0 y0 x1 y1 : Z) : shape := Box (x0, y1) (x1, y0) [] None.

Example C02b_truth_table :
  let A := bx 0 0 4 4 in
  let I := fun B => (intersects_shape (-180) A B, intersects_shape (-180) B A, contains_shape (-180) A B) in
  I (bx 6 6 8 8) = (Ok false, Ok false, Ok false) /\      (* disjoint *)
  I (bx 2 2 6 6) = (Ok true, Ok true, Ok false) /\        (* overlapping *)
  I (bx 1 1 3 3) = (Ok true, Ok true, Ok true) /\         (* nested *)
  I (bx 0 1 2 3) = (Ok true, Ok true, Ok false) /\        (* nested, sharing part of a side *)
  I (bx 4 0 8 4) = (Ok true, Ok true, Ok false) /\        (* touching along a whole side *)
  I (bx 4 2 8 6) = (Ok true, Ok true, Ok false) /\        (* touching along part of a side *)
  I (bx 4 4 8 8) = (Ok true, Ok true, Ok false) /\        (* touching in one corner *)
  I (bx (-2) 1 6 3) = (Ok true, Ok true, Ok false) /\     (* cross-shaped *)
  I (bx 0 0 4 4) = (Ok true, Ok true, Ok false).          (* identical *)
Proof. cbv zeta. repeat split; vm_compute; reflexivity. Qed.

(* box against rectangle polygon (to_polygon of a box, started at another vertex, clockwise) *)
Example C02b_box_vs_polygon :
  let A := bx 0 0 4 4 in
  let P := fun x0 y0 x1 y1 => Poly (norm_outline false (reclose (rot 2 (rev (rect x0 y0 x1 y1))))) [] None in
  rect_shape A 0 0 4 4 /\ rect_shape (P 4 4 8 8) 4 4 8 8 /\
  intersects_shape (-180) A (P 4 4 8 8) = Ok true /\ intersects_shape (-180) (P 4 4 8 8) A = Ok true /\
  contains_shape (-180) (P 0 0 4 4) (bx 1 1 3 3) = Ok true /\
  contains_shape (-180) (P 0 0 4 4) (bx 0 1 3 3) = Ok false /\
  contains_shape (-180) A (P 1 1 3 3) = Ok true /\
  intersects_shape (-180) A (P 5 0 8 4) = Ok false.
Proof.
  cbv zeta. split; [left; exists None; reflexivity|].
  split; [right; right; exists 2%nat, false, None; reflexivity|].
  repeat split; vm_compute; reflexivity.
Qed.
