(* C11 — the Niemeyer geohash codec is a consistent hierarchical tiling.
   Every statement is about the executable model GeohashM (tied to /repo by the regenerated
   tables + the correspondence), for EVERY configuration satisfying the finite consistency
   predicate [cfg_ok] (re-proved for the three regenerated tables on every run), every
   rational coordinate and every string/length (no bound).
   This file holds only statements closed by [exact] and their Print Assumptions. *)
From Coq Require Import QArith.
From GV Require Import Prelude GeohashM GeohashP GeohashP2.
Open Scope Z_scope.

(* the three shipped tables are consistent *)
Theorem C11_cfg_ok : cfg_ok cfg16 /\ cfg_ok cfg32 /\ cfg_ok cfg64.
Proof. exact (conj cfg16_ok (conj cfg32_ok cfg64_ok)). Qed.
Print Assumptions C11_cfg_ok.

(* encoding yields a string of the requested length over the alphabet *)
Theorem C11_encode_len_alphabet : forall c, cfg_ok c -> forall p n,
  length (encode c p n) = n /\ forall ch, In ch (encode c p n) -> In ch (charset c).
Proof. exact encode_len_alphabet. Qed.
Print Assumptions C11_encode_len_alphabet.

(* ... whose decoded (closed) cell [x-ex, x+ex] x [y-ey, y+ey] contains the coordinate *)
Theorem C11_decode_encode_contains : forall c, cfg_ok c -> forall p n,
  in_range c p -> exists r, decode c (encode c p n) = Ok r /\ in_cell p r.
Proof. exact decode_encode_contains. Qed.
Print Assumptions C11_decode_encode_contains.

(* the encoding at a shorter length is a prefix of the encoding at a longer one
   (holds for any table) *)
Theorem C11_encode_prefix : forall c p n m, (n <= m)%nat ->
  firstn n (encode c p m) = encode c p n.
Proof. exact encode_prefix. Qed.
Print Assumptions C11_encode_prefix.

(* re-encoding the centre of a decodable string's cell returns the string *)
Theorem C11_reencode_centre : forall c, cfg_ok c -> forall s x y ex ey,
  decode c s = Ok (x, y, ex, ey) -> encode c (x, y) (length s) = s.
Proof. exact reencode_centre. Qed.
Print Assumptions C11_reencode_centre.

(* stronger: the encoder is constant on the half-open part (west and south edge excluded) of
   every cell -- this is what the strict [>] at midpoints means *)
Theorem C11_reencode_halfopen : forall c, cfg_ok c -> forall s r p,
  decode c s = Ok r -> hin_cell p r -> encode c p (length s) = s.
Proof. exact reencode_halfopen. Qed.
Print Assumptions C11_reencode_halfopen.

(* the sub-hashes of a cell: base-many, distinct, the parent plus one alphabet character *)
Theorem C11_children_count : forall c, cfg_ok c -> forall s,
  length (subhashes c s) = Nat.pow 2 (length (bits c)) /\ NoDup (subhashes c s).
Proof. exact children_count. Qed.
Print Assumptions C11_children_count.

(* ... each decodes to a cell inside the parent's cell *)
Theorem C11_children_inside : forall c, cfg_ok c -> forall s r k,
  decode c s = Ok r -> In k (subhashes c s) -> exists r', decode c k = Ok r' /\ sub_cell r' r.
Proof. exact children_inside. Qed.
Print Assumptions C11_children_inside.

(* ... their cells cover the parent's cell *)
Theorem C11_children_cover : forall c, cfg_ok c -> forall s r p,
  decode c s = Ok r -> in_cell p r ->
  exists k r', In k (subhashes c s) /\ decode c k = Ok r' /\ in_cell p r'.
Proof. exact children_cover. Qed.
Print Assumptions C11_children_cover.

(* ... and have pairwise disjoint interiors *)
Theorem C11_children_disjoint : forall c, cfg_ok c -> forall s r k1 k2 r1 r2 p,
  decode c s = Ok r -> In k1 (subhashes c s) -> In k2 (subhashes c s) ->
  decode c k1 = Ok r1 -> decode c k2 = Ok r2 -> oin_cell p r1 -> oin_cell p r2 -> k1 = k2.
Proof. exact children_disjoint. Qed.
Print Assumptions C11_children_disjoint.

(* a character outside the alphabet anywhere in the string is rejected with ValueError;
   conversely a string over the alphabet always decodes *)
Theorem C11_decode_rejects : forall c, cfg_ok c -> forall s,
  (exists ch, In ch s /\ ~ In ch (charset c)) -> decode c s = Err ValueError.
Proof. exact decode_rejects. Qed.
Print Assumptions C11_decode_rejects.

Theorem C11_decode_accepts : forall c, cfg_ok c -> forall s,
  valid c s -> exists r, decode c s = Ok r /\ cell_res (cell_st c s) r.
Proof. exact decode_valid. Qed.
Print Assumptions C11_decode_accepts.
